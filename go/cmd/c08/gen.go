package main

// Random structured documents + choices.  Every production of the Turtle / TriG grammar is reachable;
// most documents are well formed and have a denotation (declared prefixes, references inside the
// safe fragment of the model's resolver), a small share is not (undeclared prefix, `1.`, `GRAPH {`,
// empty predicate-object pair …) so that the reject paths of T3 are exercised too.
//
// Relative references are drawn half of the time from a small per-document pool (`relPool`), so that
// one reference TEXT recurs in term position under different bases (default base, @base, BASE, in any
// order); one document in eight is `baseHeavy` (mostly base directives, mostly relative IRIREF terms).
// The references include the empty-query forms `?` and `?#f`.  basechg.go adds a bounded family of
// such histories that does not depend on the seed.

import (
	"strings"

	"verifharness/vh"
)

var safeSegs = []string{"a", "b", "c", "d", "x1", "y-2", "z_3", "q.r", "~t", "A", "B9"}
var hosts = []string{"e", "example.org", "a.b", "h-1.x"}
var schemes = []string{"http", "https", "ex", "urn"}

var prefixLabels = []string{"", "p", "q", "ex", "b", "base", "prefix", "g", "graph", "a", "tru", "t", "f", "P", "G", "BASE", "p.q", "é", "p-1", "fals"}
// keyword-ladder prefix labels that do not start with a boolean keyword
var kwPrefixLabels = func() []string {
	var out []string
	for _, k := range vh.KeywordLabels() {
		l := strings.ToLower(k.Label)
		if strings.HasPrefix(l, "t") || strings.HasPrefix(l, "f") {
			continue
		}
		out = append(out, k.Label)
	}
	return out
}()
var boolPrefixLabels = []string{"true", "truex", "false", "falsey", "trueé", "true.1"}

var localNames = []string{"", "a", "b", "c", "s1", "p_2", "o3", "a.b", "a..b", "a.b.c", "a.", "a-", "1a", "a:b", ":", "%41b", "a%4Fz", "a%4fz", "%c3%a9", "%", "%4", "a~b", "~", "-a", ".a",
	"a!$&'()*+,;=/?#@_", "é·x", "x‿y", "true", "false", "a", "𝒳1", "9", "_"}

var bnodeLabels = []string{"a", "b", "b1", "x.y", "n-1", "0", "é", "b0", "a.b-c", "_u", "9z"}

var langTags = []string{"en", "en-US", "de-CH-1996", "x-a-b-c", "EN", "zh-Hant-TW", "fr-1", "a"}

var numTokens = []string{"1", "-2", "+3", "0", "007", "1.5", "-.5", "+0.0", ".5", "1e3", "1.0E-2", ".5e+1", "1.e0", "+1E-3", "-1.0", "12345678901234567890", "0.0e0", "-0", "+.1E+10"}

var lexRunes = []rune{'x', 'y', ' ', '\n', '\r', '\t', '\b', '\f', '"', '\'', '\\', 'é', '🐛', 0xFFFF, 0x10FFFF, '#', '@', '^', '<', '.', '1', 0x7F, 0x85, 0x2028, 'u', 'U', 'n'}

var commentTexts = []string{"", "c", " <x> .", "\"", "é", "'''", "# #", "@prefix", " a b ", "}", "\t"}

const (
	xsd         = "http://www.w3.org/2001/XMLSchema#"
	rdfLangStr  = "http://www.w3.org/1999/02/22-rdf-syntax-ns#langString"
	layNone     = 0
	layPretty   = 1
	layWild     = 2
	layNewlines = 3
)

type dgen struct {
	r        *vh.Rng
	trig     bool
	flat     bool
	hasBase  bool     // a base IRI is in force
	declared []string // declared prefix labels (a label may be declared several times)
	pool     []string // the labels this document draws its declarations from
	bad      bool     // this document may contain shapes that are not well formed / have no denotation
	boolPfx  bool     // this document may use a prefix label starting with true / false
	depth    int
	// relPool: a few relative references the document keeps re-using, so that the SAME reference text
	// stands in term position on both sides of a base change (a reader that remembers resolved
	// references by their text must forget them at every @base / BASE)
	relPool []string
	// baseHeavy: most directives of this document are base directives and most IRIREF terms are relative
	baseHeavy bool
}

func (g *dgen) absIRI() string {
	s := vh.Pick(g.r, schemes) + "://" + vh.Pick(g.r, hosts)
	for i, n := 0, g.r.Intn(3); i < n; i++ {
		s += "/" + vh.Pick(g.r, safeSegs)
	}
	switch g.r.Intn(6) {
	case 0:
		s += "/"
	case 1:
		s += "#"
	case 2:
		s += "#" + vh.Pick(g.r, safeSegs)
	case 3:
		s += "?" + vh.Pick(g.r, safeSegs) + "=" + vh.Pick(g.r, safeSegs)
	}
	return s
}

// relIRI: a relative reference; about half of them come from the document's pool.
func (g *dgen) relIRI() string {
	if len(g.relPool) > 0 && g.r.Chance(45) {
		return vh.Pick(g.r, g.relPool)
	}
	return g.freshRel()
}

func (g *dgen) freshRel() string {
	switch g.r.Intn(11) {
	case 0:
		return ""
	case 1:
		return "#" + vh.Pick(g.r, safeSegs)
	case 2:
		return "?" + vh.Pick(g.r, safeSegs)
	case 3:
		return "../" + vh.Pick(g.r, safeSegs)
	case 4:
		return "./" + vh.Pick(g.r, safeSegs)
	case 5:
		return "/" + vh.Pick(g.r, safeSegs) + "/" + vh.Pick(g.r, safeSegs)
	case 6:
		return "//" + vh.Pick(g.r, hosts) + "/" + vh.Pick(g.r, safeSegs)
	case 7:
		return vh.Pick(g.r, safeSegs) + "/../../" + vh.Pick(g.r, safeSegs)
	case 8:
		return vh.Pick(g.r, safeSegs) + "/"
	case 9:
		// empty query component: replaces the query of the base (RFC 3986 5.2.2: query defined, though empty)
		if g.r.Bool() {
			return "?"
		}
		return "?#" + vh.Pick(g.r, safeSegs)
	}
	return vh.Pick(g.r, safeSegs)
}

// exotic references: valid IRIs outside the resolver's safe fragment (generated when no base is in force)
var exoticIRIs = []string{"http://e/é", "http://e/\U0001F41B", "http://e/%C3%A9", "http://é.example/", "http://e/a?q=é#f", "urn:x:y", "mailto:a@b.c",
	"http://e/a;b,c", "http://e/(a)", "http://e/a'b", "http://E/A", "HTTP://e/a", "http://e:80/a", "http://u@e/a", "http://e/a%zz", "tag:e,2000:x"}

func (g *dgen) termRef() string {
	switch {
	case g.hasBase && g.baseHeavy && g.r.Chance(60):
		return g.relIRI()
	case g.hasBase && g.r.Chance(40):
		return g.relIRI()
	case !g.hasBase && g.r.Chance(12):
		return vh.Pick(g.r, exoticIRIs)
	case g.hasBase && g.bad && g.r.Chance(5):
		return vh.Pick(g.r, exoticIRIs)
	case !g.hasBase && g.r.Chance(4):
		return g.relIRI() // a relative reference without any base is taken as it stands
	}
	return g.absIRI()
}

func (g *dgen) iri() iriS {
	switch {
	case g.baseHeavy && g.hasBase && g.r.Chance(60):
		return ref(g.termRef())
	case len(g.declared) > 0 && g.r.Chance(50):
		return pn(vh.Pick(g.r, g.declared), g.local())
	case g.bad && g.r.Chance(10):
		return pn("undecl", g.local())
	}
	return ref(g.termRef())
}

func (g *dgen) local() string {
	if g.r.Chance(45) {
		return vh.Pick(g.r, []string{"a", "b", "c", "s1", "p_2", "o3"})
	}
	if g.bad && g.r.Chance(5) {
		return "a b" // not the value of any PN_LOCAL
	}
	return vh.Pick(g.r, localNames)
}

func (g *dgen) lex() string {
	n := g.r.Intn(5)
	if g.r.Chance(20) {
		n = 0
	}
	var sb strings.Builder
	for i := 0; i < n; i++ {
		if g.r.Chance(2) {
			sb.WriteRune(0)
		} else {
			sb.WriteRune(vh.Pick(g.r, lexRunes))
		}
	}
	return sb.String()
}

func (g *dgen) literal() lit {
	switch g.r.Intn(12) {
	case 0, 1, 2:
		return lit{kind: lPlain, lex: g.lex()}
	case 3, 4:
		return lit{kind: lLang, lex: g.lex(), tag: vh.Pick(g.r, langTags)}
	case 5, 6:
		var dt iriS
		switch {
		case g.r.Chance(40):
			dt = ref(xsd + vh.Pick(g.r, []string{"integer", "string", "date", "boolean"}))
		case g.bad && g.r.Chance(10):
			dt = ref(rdfLangStr)
		default:
			dt = g.iri()
		}
		return lit{kind: lTyped, lex: g.lex(), dt: dt}
	case 7, 8, 9:
		if g.bad && g.r.Chance(10) {
			return lit{kind: lNum, lex: vh.Pick(g.r, []string{"1.", "-1.", "+"})}
		}
		return lit{kind: lNum, lex: vh.Pick(g.r, numTokens)}
	}
	return lit{kind: lBool, b: g.r.Bool()}
}

func (g *dgen) object() obj {
	g.depth++
	defer func() { g.depth-- }()
	k := g.r.Intn(20)
	if (g.flat || g.depth > 3) && k >= 14 {
		k = g.r.Intn(14)
	}
	switch {
	case k < 5:
		o := obj{kind: oIRI, iri: g.iri()}
		if g.boolPfx && g.r.Chance(30) {
			o.iri = pn(vh.Pick(g.r, boolPrefixLabels), g.local())
		}
		return o
	case k < 7:
		return obj{kind: oBN, label: vh.Pick(g.r, bnodeLabels)}
	case k < 12:
		return obj{kind: oLit, lit: g.literal()}
	case k < 13:
		return obj{kind: oAnon}
	case k < 14:
		if g.depth > 3 {
			// `()` at a fourth level: the driver's parser of the wire form runs out of fuel on tiny documents
			return obj{kind: oAnon}
		}
		return obj{kind: oColl}
	case k < 17:
		return obj{kind: oBnpl, pos: g.pos(1 + g.r.Intn(2))}
	}
	o := obj{kind: oColl}
	for i, n := 0, 1+g.r.Intn(3); i < n; i++ {
		o.items = append(o.items, g.object())
	}
	return o
}

func (g *dgen) pos(n int) []po {
	var out []po
	for i := 0; i < n; i++ {
		p := po{}
		if g.r.Chance(20) {
			p.a = true
		} else {
			p.v = g.iri()
		}
		m := 1 + g.r.Intn(100)/70 + g.r.Intn(100)/90
		if g.bad && g.r.Chance(3) {
			m = 0
		}
		for j := 0; j < m; j++ {
			p.objs = append(p.objs, g.object())
		}
		out = append(out, p)
	}
	return out
}

func (g *dgen) triples(top bool) triples {
	var t triples
	k := g.r.Intn(20)
	if g.flat && k >= 14 {
		k = g.r.Intn(14)
	}
	npos := 1 + g.r.Intn(100)/60 + g.r.Intn(100)/85
	switch {
	case k < 9:
		t.s = obj{kind: oIRI, iri: g.iri()}
	case k < 12:
		t.s = obj{kind: oBN, label: vh.Pick(g.r, bnodeLabels)}
	case k < 13:
		t.s = obj{kind: oAnon}
	case k < 14:
		t.s = obj{kind: oColl}
	case k < 17:
		g.depth++
		t.s = obj{kind: oBnpl, pos: g.pos(1 + g.r.Intn(2))}
		g.depth--
		// `;` after a blankNodePropertyList subject at document level is the known class D42: kept rare
		switch {
		case g.r.Chance(45):
			npos = 0
		case !top || g.r.Chance(12):
		default:
			npos = 1
		}
	default:
		g.depth++
		t.s = obj{kind: oColl}
		for i, n := 0, 1+g.r.Intn(3); i < n; i++ {
			t.s.items = append(t.s.items, g.object())
		}
		g.depth--
	}
	if g.bad && g.r.Chance(3) {
		npos = 0
	}
	t.pos = g.pos(npos)
	return t
}

func (g *dgen) nsIRI() string {
	if g.hasBase && g.r.Chance(30) {
		return g.relIRI()
	}
	if g.bad && g.r.Chance(10) {
		return vh.Pick(g.r, exoticIRIs)
	}
	s := g.absIRI()
	if !strings.ContainsAny(s, "#?") && !strings.HasSuffix(s, "/") && g.r.Chance(70) {
		s += vh.Pick(g.r, []string{"/", "#"})
	}
	return s
}

// baseIRI stays inside the safe fragment: no fragment, absolute with a non-empty path.
func (g *dgen) baseIRI() string {
	var s string
	if g.hasBase && g.r.Chance(35) {
		s = g.relIRI()
	} else {
		s = g.absIRI()
	}
	if i := strings.IndexByte(s, '#'); i >= 0 && !(g.bad && g.r.Chance(30)) {
		s = s[:i]
	}
	if strings.Contains(s, "://") && strings.Count(s, "/") == 2 { // `http://e`, `http://e?q=x`: empty path
		if i := strings.IndexByte(s, '?'); i >= 0 {
			s = s[:i] + "/" + s[i:]
		} else {
			s += "/"
		}
	}
	return s
}

func (g *dgen) directive() block {
	k := g.r.Intn(10)
	if g.baseHeavy && g.r.Chance(70) {
		k = 6 + g.r.Intn(4)
	}
	switch k {
	case 0, 1, 2:
		p := vh.Pick(g.r, g.pool)
		g.declared = append(g.declared, p)
		return block{kind: bDir, d: dir{kind: dPrefixAt, p: p, r: g.nsIRI()}}
	case 3, 4, 5:
		p := vh.Pick(g.r, g.pool)
		g.declared = append(g.declared, p)
		return block{kind: bDir, d: dir{kind: dPrefixKw, p: p, r: g.nsIRI()}}
	case 6, 7:
		b := block{kind: bDir, d: dir{kind: dBaseAt, r: g.baseIRI()}}
		g.hasBase = true
		return b
	}
	b := block{kind: bDir, d: dir{kind: dBaseKw, r: g.baseIRI()}}
	g.hasBase = true
	return b
}

func (g *dgen) graphBlock() block {
	b := block{kind: bGraph}
	switch g.r.Intn(5) {
	case 0, 1:
		b.kw = true
		fallthrough
	case 2, 3:
		var l obj
		switch g.r.Intn(5) {
		case 0:
			l = obj{kind: oBN, label: vh.Pick(g.r, bnodeLabels)}
		case 1:
			l = obj{kind: oAnon}
		default:
			l = obj{kind: oIRI, iri: g.iri()}
		}
		b.label = &l
	}
	if g.bad && g.r.Chance(5) {
		b.kw = true
		b.label = nil // `GRAPH {`: not grammatical
	}
	for i, n := 0, g.r.Intn(4); i < n; i++ {
		b.body = append(b.body, g.triples(false))
	}
	return b
}

// genDoc: one random document.  trigDoc = graph blocks may occur.
func genDoc(r *vh.Rng, trigDoc, hasBase bool) doc {
	g := &dgen{r: r, trig: trigDoc, hasBase: hasBase, flat: r.Chance(45), bad: r.Chance(8), boolPfx: r.Chance(3)}
	for i := 0; i < 3; i++ {
		g.pool = append(g.pool, vh.Pick(r, prefixLabels))
	}
	if r.Chance(25) {
		// keyword-ladder labels (vh.KeywordLabels: every rung of prefix / base / graph / a x next-rune kind x spelling),
		// together with a one-edit sibling; labels starting with true / false stay with the boolPfx family below
		// (known class pname-bool-prefix)
		if l := vh.Pick(r, kwPrefixLabels); l != "" {
			g.pool[0] = l
			if sib := vh.KwSiblings(l); len(sib) > 0 {
				g.pool[1] = vh.Pick(r, sib)
			}
		}
	}
	g.baseHeavy = r.Chance(12)
	for i, n := 0, 2+r.Intn(2); i < n; i++ {
		g.relPool = append(g.relPool, g.freshRel())
	}
	if r.Chance(2) {
		// known class pname-prefix-space: U+1680 is PN_CHARS_BASE and white space for unicode.IsSpace
		g.pool[0] = vh.Pick(r, []string{"\u1680", "\u1680p", "p\u1680", "p\u1680q"})
	}
	if g.boolPfx {
		// the prefix has to be declared for the document to have a denotation
		g.pool = append(g.pool, boolPrefixLabels...)
	}
	var d doc
	if g.boolPfx {
		for i, p := range boolPrefixLabels {
			d = append(d, block{kind: bDir, d: dir{kind: dPrefixAt, p: p, r: "http://e/ns" + string(rune('0'+i)) + "#"}})
		}
	}
	if r.Chance(75) {
		for i, n := 0, 1+r.Intn(2); i < n; i++ {
			// the header holds prefix directives (a base-heavy document may start with a base directive);
			// a discarded base directive must not leave `hasBase` set
			hb := g.hasBase
			b := g.directive()
			for !g.baseHeavy && (b.d.kind == dBaseAt || b.d.kind == dBaseKw) {
				g.hasBase = hb
				b = g.directive()
			}
			d = append(d, b)
		}
	}
	n := r.Intn(6)
	if r.Chance(10) {
		n = 0
	}
	for i := 0; i < n; i++ {
		switch {
		case r.Chance(22):
			d = append(d, g.directive())
		case trigDoc && r.Chance(45):
			d = append(d, g.graphBlock())
		default:
			d = append(d, block{kind: bTriples, t: g.triples(true)})
		}
	}
	return d
}

// ---------------------------------------------------------------- choices

func (g *chGen) layout(atStart bool) []litem {
	r := g.r
	switch g.profile {
	case layNone:
		return nil
	case layPretty:
		if atStart {
			return nil
		}
		return []litem{wsItem(0)}
	case layNewlines:
		if r.Bool() {
			return []litem{wsItem(2)}
		}
		return []litem{wsItem(3), wsItem(2)}
	}
	if r.Chance(45) {
		return nil
	}
	var out []litem
	for i, n := 0, 1+r.Intn(3); i < n; i++ {
		switch r.Intn(14) {
		case 0, 1:
			out = append(out, wsItem(2))
		case 2:
			out = append(out, wsItem(1))
		case 3:
			out = append(out, wsItem(3), wsItem(2))
		case 4:
			out = append(out, wsItem(3))
		case 5, 6, 7:
			eol := vh.Pick(r, []int{0, 0, 0, 1, 1, 3, 3})
			if g.crComments && r.Chance(25) {
				eol = 2
			}
			out = append(out, comment(vh.Pick(r, commentTexts), eol))
		default:
			out = append(out, wsItem(0))
		}
	}
	return out
}

type chGen struct {
	r          *vh.Rng
	profile    int
	rawOnly    bool // no escapes
	crComments bool // comments ended by a lone CR may occur (known class comment-cr)
	glue       bool // keywords may be glued to what follows (known class keyword-glue)
}

func (g *chGen) cs(n int) string {
	if g.rawOnly || n == 0 {
		return ""
	}
	b := make([]byte, n)
	for i := range b {
		if g.r.Chance(65) {
			b[i] = 'r'
		} else {
			b[i] = "euUlLe"[g.r.Intn(6)]
		}
	}
	return string(b)
}

// genChoices: random choices for the slots of a document.
func genChoices(r *vh.Rng, si []slotInfo) choices {
	g := &chGen{r: r, rawOnly: r.Chance(40), crComments: r.Chance(3), glue: r.Chance(4)}
	switch k := r.Intn(100); {
	case k < 12:
		g.profile = layNone
	case k < 40:
		g.profile = layPretty
	case k < 50:
		g.profile = layNewlines
	default:
		g.profile = layWild
	}
	ch := make(choices, len(si))
	for i, s := range si {
		c := slot{lay: g.layout(i == 0)}
		switch s.kind {
		case skIRIREF, skPName:
			c.cs = g.cs(s.runes)
		case skString:
			c.cs = g.cs(s.runes)
			c.sty = r.Intn(4)
		case skA:
			c.glue = g.glue && r.Chance(50)
		case skKwPrefix, skKwBase, skKwGraph:
			c.glue = g.glue && r.Chance(50)
			switch r.Intn(3) {
			case 0:
				c.n = 0
			case 1:
				c.n = 63
			default:
				c.n = r.Intn(64)
			}
		case skSemi:
			if r.Chance(12) {
				c.n = 1 + r.Intn(5)
				c.lay2 = g.layout(false)
			}
		case skDot:
			c.n = r.Intn(2)
		}
		ch[i] = c
	}
	return ch
}

// ---------------------------------------------------------------- productions used (histograms)

func productions(d doc, si []slotInfo, ch choices) []string {
	set := map[string]bool{}
	for i, s := range si {
		c := ch.at(i)
		if i > 0 && !tokenWritten(s, c) {
			continue
		}
		if layUsed(s, c) {
			for _, it := range c.lay {
				if it.ws >= 0 {
					set["layout:"+[]string{"SP", "TAB", "LF", "CR"}[it.ws&3]] = true
				} else {
					set["layout:comment-eol"+string(rune('0'+it.eol))] = true
				}
			}
			if len(c.lay) == 0 && i > 0 {
				set["layout:none"] = true
			}
		}
		switch s.kind {
		case skIRIREF:
			set["IRIREF"] = true
			if s.runes == 0 {
				set["IRIREF:empty"] = true
			}
			if strings.ContainsAny(c.cs, "ulUL") {
				set["IRIREF:UCHAR"] = true
			}
		case skPName:
			set["PrefixedName"] = true
			l := s.text[strings.IndexByte(s.text, ':')+1:]
			if strings.Contains(l, "%") {
				set["PN_LOCAL:percent"] = true
			}
			if strings.ContainsAny(l, "~!$&'()*+,;=/?#@") || strings.HasPrefix(l, "-") || strings.HasPrefix(l, ".") || strings.HasSuffix(l, ".") {
				set["PN_LOCAL:needs-escape"] = true
			}
			if strings.Contains(strings.Trim(l, "."), ".") {
				set["PN_LOCAL:inner-dot"] = true
			}
			if l == "" {
				set["PN_LOCAL:empty"] = true
			}
			if strings.Contains(c.cs, "e") {
				set["PN_LOCAL:escape-chosen"] = true
			}
		case skBNode:
			set["BLANK_NODE_LABEL"] = true
		case skString:
			set["String:style"+string(rune('0'+c.sty))] = true
			if s.runes == 0 {
				set["String:empty"] = true
			}
			if strings.ContainsAny(s.text, "\"'") {
				set["String:has-quote"] = true
			}
			if strings.ContainsAny(s.text, "\n\r") {
				set["String:has-newline"] = true
			}
			for _, x := range s.text {
				if x > 0xFFFF {
					set["String:astral"] = true
				}
			}
			if strings.Contains(c.cs, "e") {
				set["String:ECHAR-chosen"] = true
			}
			if strings.ContainsAny(c.cs, "ul") {
				set["String:u4"] = true
			}
			if strings.ContainsAny(c.cs, "UL") {
				set["String:U8"] = true
			}
			if s.tag != "" {
				set["LANGTAG"] = true
				if strings.Count(s.tag, "-") >= 2 {
					set["LANGTAG:3+subtags"] = true
				}
			}
			if s.written {
				set["String^^iri"] = true
			}
		case skNum:
			switch {
			case strings.ContainsAny(s.text, "eE"):
				set["DOUBLE"] = true
			case strings.Contains(s.text, "."):
				set["DECIMAL"] = true
			default:
				set["INTEGER"] = true
			}
		case skBool:
			set["BooleanLiteral"] = true
		case skA:
			set["verb:a"] = true
		case skKwPrefix:
			set["PREFIX"] = true
			if c.n%64 != 0 && c.n%64 != 63 {
				set["keyword:mixed-case"] = true
			}
		case skKwBase:
			set["BASE"] = true
		case skKwGraph:
			set["GRAPH-keyword"] = true
		case skAtPrefix:
			set["@prefix"] = true
		case skAtBase:
			set["@base"] = true
		case skComma:
			set["objectList:,"] = true
		case skSemi:
			k := semis(s, c)
			if s.last && k > 0 {
				set["pol:trailing-;"] = true
			}
			if !s.last {
				set["pol:;"] = true
			}
			if k > 1 {
				set["pol:repeated-;"] = true
			}
		case skDot:
			if s.last {
				set["graph-body:final-dot-written"] = true
			}
		}
		if c.glue && (s.kind == skA || s.kind == skKwPrefix || s.kind == skKwBase || s.kind == skKwGraph) {
			set["keyword:glue"] = true
		}
	}
	var walkO func(o obj, subj bool, depth int)
	walkP := func(pos []po, depth int) {
		for _, p := range pos {
			for _, o := range p.objs {
				walkO(o, false, depth)
			}
		}
	}
	walkO = func(o obj, subj bool, depth int) {
		w := "object"
		if subj {
			w = "subject"
		}
		switch o.kind {
		case oAnon:
			set[w+":ANON"] = true
		case oBnpl:
			set[w+":blankNodePropertyList"] = true
			if depth >= 2 {
				set["nesting-depth>=2"] = true
			}
			if depth >= 3 {
				set["nesting-depth>=3"] = true
			}
			walkP(o.pos, depth+1)
		case oColl:
			if len(o.items) == 0 {
				set[w+":collection-empty"] = true
			} else {
				set[w+":collection"] = true
				if depth >= 2 {
					set["nesting-depth>=2"] = true
				}
				if depth >= 3 {
					set["nesting-depth>=3"] = true
				}
			}
			for _, x := range o.items {
				walkO(x, false, depth+1)
			}
		}
	}
	tr := func(t triples) {
		walkO(t.s, true, 1)
		walkP(t.pos, 1)
		if len(t.pos) == 0 {
			set["triples:bnpl-only"] = true
		}
	}
	labels := map[string]int{}
	for _, b := range d {
		switch b.kind {
		case bTriples:
			tr(b.t)
		case bGraph:
			switch {
			case b.label == nil:
				set["graph:{}"] = true
			case b.kw:
				set["graph:GRAPH-label-{}"] = true
			default:
				set["graph:label-{}"] = true
			}
			if b.label != nil {
				set["graph-label:"+[]string{"iri", "bnode", "anon"}[b.label.kind]] = true
			}
			if len(b.body) == 0 {
				set["graph:empty-body"] = true
			}
			for _, t := range b.body {
				tr(t)
			}
		}
	}
	for _, s := range si {
		if s.kind == skBNode {
			labels[s.text]++
		}
	}
	for _, n := range labels {
		if n > 1 {
			set["bnode-label:shared"] = true
		}
	}
	if len(d) == 0 {
		set["empty-document"] = true
	}
	out := make([]string, 0, len(set))
	for k := range set {
		out = append(out, k)
	}
	return out
}
