/-
  Driver handler for component `piri` (part C12W of property C12): the executable model of
  `iri.ParsedIRI` on top of the model of net/url (Model/GoUrlFull.lean, Model/ParsedIRI.lean).

    piri.parse <s>                    → ok <state> | err <class>
    piri.resolve <base> <ref>         → ok <state> | err-base <class> | err-ref <class> | panic
    piri.chain <base> <ref1> <ref2> … → one outcome per step separated by ';' (stops after the first non-ok)
    piri.base <s>                     → root,directory,resource,query,fragment (`-1` absent) | err <class> | panic
    piri.hist <base> <op> …           → history over the whole exported API on one value, one outcome per step separated
                                         by ';' (stops after the first non-ok). <op> = D (DropFragment) | U (URL() copy
                                         overwritten) | P:<r> (Parse) | Q:<r> (ResolveReference of ParseIRI(r) after
                                         DropFragment) | V:<b> (ParseIRI(b).ResolveReference(cur)) | C:<r> (child
                                         = Parse(r), child.DropFragment(), cur reported) | B:<r> (NewBaseIRI(cur), its
                                         indices, then its Parse / ResolveReference). Step = ok <state>,IsAbs[,r/d/res/q/f]
    piri.dropspec <s>                 → Spec.RFC3986: recompose (split s without its fragment component)
    piri.class <p|r> <a> <b>          → names of the known-deviation classes (Props/C12Defs.classes)
    piri.hyp <p|r> <a> <b>            → 0|1: the hypothesis of parse_string_identity_partial (p: on a) /
                                         resolve_eq_rfc_partial or resolve_abs_identity_partial
                                         (r: on base a, reference b) holds
    piri.tables                       → the byte tables of the model, for inspection (the tie is the theorem
                                         Props/C12WrapTables.lean against Gen/GoUrlTables.lean)

  <state> = String(),forceFragment,isOpaque,Scheme,Opaque,User,Host,Path,RawPath,OmitHost,ForceQuery,RawQuery,
            Fragment,RawFragment   (User = `-` | username:password:passwordSet)
-/
import RdfModel.Driver.Wire
import RdfModel.Model.ParsedIRI
import RdfModel.Props.C12Defs
import RdfModel.Props.C12WrapDefs
namespace RdfModel.Driver.PIRI
open RdfModel RdfModel.Wire RdfModel.GoUrlFull RdfModel.PIRI

def b01 (b : Bool) : String := if b then "1" else "0"

def errName : PErr → String
  | .ctl => "ctl" | .scheme => "scheme" | .colon => "colon" | .escape => "escape" | .hostchar => "hostchar"
  | .port => "port" | .bracket => "bracket" | .ip => "ip" | .userinfo => "userinfo"
  | .unmodelled => "unmodelled" | .panic => "panic"

def showUser : Option Userinfo → String
  | none => "-"
  | some ui => tokOfBytes ui.username ++ ":" ++ tokOfBytes ui.password ++ ":" ++ b01 ui.passwordSet

def showState (p : ParsedIRI) : String :=
  String.intercalate "," [tokOfBytes p.str, b01 p.forceFragment, b01 p.isOpaque, tokOfBytes p.u.scheme,
    tokOfBytes p.u.opaq, showUser p.u.user, tokOfBytes p.u.host, tokOfBytes p.u.path, tokOfBytes p.u.rawPath,
    b01 p.u.omitHost, b01 p.u.forceQuery, tokOfBytes p.u.rawQuery, tokOfBytes p.u.fragment, tokOfBytes p.u.rawFragment]

def showParseRes (pre : String) : ParseRes → String
  | .ok p => "ok " ++ showState p
  | .err e => pre ++ " " ++ errName e
  | .panic => "panic"

def showIdx : Option Nat → String
  | none => "-1"
  | some n => toString n

/-- steps of a chain; stops after the first outcome that is not `ok` -/
def chainSteps : ParsedIRI → List Str → List String
  | _, [] => []
  | cur, r :: rs =>
    match cur.parseRef r with
    | .ok p => ("ok " ++ showState p) :: chainSteps p rs
    | other => [showParseRes "err-ref" other]

def showIdxs (i : BaseIdx) : String :=
  String.intercalate "/" [showIdx i.root, showIdx i.directory, toString i.resource, showIdx i.query, showIdx i.fragment]

def showHStep : HStep → String
  | .ok p idx => "ok " ++ showState p ++ "," ++ b01 p.isAbs ++ (match idx with | none => "" | some i => "," ++ showIdxs i)
  | .err e => "err-ref " ++ errName e
  | .panic => "panic"

def hopOfTok (t : String) : Option HOp :=
  match t.toList with
  | ['D'] => some HOp.drop
  | ['U'] => some HOp.urlCopy
  | 'P' :: ':' :: 'x' :: rest => (unhexChars rest).map HOp.parse
  | 'Q' :: ':' :: 'x' :: rest => (unhexChars rest).map HOp.refDrop
  | 'V' :: ':' :: 'x' :: rest => (unhexChars rest).map HOp.under
  | 'C' :: ':' :: 'x' :: rest => (unhexChars rest).map HOp.childDrop
  | 'B' :: ':' :: 'x' :: rest => (unhexChars rest).map HOp.viaBase
  | _ => none

def modeOfNat : Nat → Option Mode
  | 1 => some .path | 2 => some .pathSegment | 3 => some .host | 4 => some .zone
  | 5 => some .userPassword | 6 => some .queryComponent | 7 => some .fragment | _ => none

def handle (op : String) (args : List String) : Option String :=
  match op, args with
  | "parse", [s] => do
    let s ← bytesTok s
    pure (match parseIRI s with
      | .ok p => "ok " ++ showState p
      | .error e => "err " ++ errName e)
  | "resolve", [b, r] => do
    let b ← bytesTok b
    let r ← bytesTok r
    pure (match parseIRI b with
      | .error e => "err-base " ++ errName e
      | .ok bp => showParseRes "err-ref" (bp.parseRef r))
  | "chain", b :: rs => do
    let b ← bytesTok b
    let rs ← rs.mapM bytesTok
    pure (match parseIRI b with
      | .error e => "err-base " ++ errName e
      | .ok bp => String.intercalate ";" (chainSteps bp rs))
  | "hist", b :: os => do
    let b ← bytesTok b
    let os ← os.mapM hopOfTok
    pure (match parseIRI b with
      | .error e => "err-base " ++ errName e
      | .ok bp => String.intercalate ";" ((runHist bp os).map showHStep))
  | "dropspec", [s] => do
    -- spec side of DropFragment: RFC 3986 5.3 recomposition of the components without the fragment component
    let s ← bytesTok s
    pure (tokOfBytes (Spec.RFC3986.recompose { Spec.RFC3986.split s with fragment := none }))
  | "base", [s] => do
    let s ← bytesTok s
    pure (match parseIRI s with
      | .error e => "err " ++ errName e
      | .ok p => match baseIndices p with
        | none => "panic"
        | some i => String.intercalate "," [showIdx i.root, showIdx i.directory, toString i.resource, showIdx i.query, showIdx i.fragment])
  | "class", [k, a, b] => do
    let a ← bytesTok a
    let b ← bytesTok b
    let cs := C12.classes (k = "p") a b
    pure (if cs.isEmpty then "-" else String.intercalate "," cs)
  | "hyp", [k, a, b] => do
    let a ← bytesTok a
    let b ← bytesTok b
    pure (if k = "p" then b01 (C12W.InLang (Spec.RFC3986.split a))
      else b01 (C12W.ResolveLang (Spec.RFC3986.split a) (Spec.RFC3986.split b) ||
                C12W.AbsLang (Spec.RFC3986.split a) (Spec.RFC3986.split b)))
  | "tables", [] =>
    let bytes := List.range 256
    let row (f : Nat → Bool) : String := String.ofList (bytes.map (fun c => if f c then '1' else '0'))
    pure (String.intercalate "," ([1, 2, 3, 4, 5, 6, 7].filterMap (fun m => (modeOfNat m).map (fun md => row (fun c => shouldEscape c md)))
      ++ [row (validEncodedByte .path), row (validEncodedByte .fragment), row ishex,
          String.ofList (bytes.map (fun c => hexDigit (unhex c))), row (fun c => validUserinfo [c]),
          row (fun c => hasCTL [c]), row isDigitC]))
  | _, _ => none

end RdfModel.Driver.PIRI
