/-
  Proofs.C04Issuer — the Go identifier issuer (Model.Rdfcanon.Issuer: known map + issued order,
  names from the int64 provider or from prefix + count) simulates the Recommendation's issuer
  (Spec.RDFC10.Issuer: prefix, counter, ordered issued map).
-/
import RdfModel.Model.Rdfcanon
import RdfModel.Spec.RDFC10
import RdfModel.Proofs.StrOrdLemmas
namespace RdfModel.Proofs.C04
open RdfModel RdfModel.Proofs.StrOrd

variable {β : Type} [DecidableEq β]

theorem assoc_cons (l : List (β × Str)) (b b' : β) (v : Str) :
    assoc ((b, v) :: l) b' = if b = b' then some v else assoc l b' := by
  simp [assoc]

theorem assoc_cons_nat (l : List (β × Nat)) (b b' : β) (v : Nat) :
    assoc ((b, v) :: l) b' = if b = b' then some v else assoc l b' := by
  simp [assoc]

/-- Relation between a *temporary* Go issuer (no provider) and a specification issuer. -/
structure IRel (mi : Rdfcanon.Issuer β) (si : Spec.RDFC10.Issuer β) : Prop where
  nostr : mi.stringer = none
  pfx : si.pfx = mi.pfx
  look : ∀ b, assoc mi.known b = assoc si.issued b
  order : mi.order = si.issued.map (·.1)
  counter : si.counter = mi.order.length

theorem IRel.getIfKnown {mi : Rdfcanon.Issuer β} {si : Spec.RDFC10.Issuer β} (h : IRel mi si) (b : β) :
    mi.getIfKnown b = si.get? b := h.look b

theorem IRel.get {mi : Rdfcanon.Issuer β} {si : Spec.RDFC10.Issuer β} (h : IRel mi si) (b : β) :
    (mi.get b).1 = (si.issue b).1 ∧ IRel (mi.get b).2 (si.issue b).2 := by
  have hl := h.look b
  unfold Rdfcanon.Issuer.get Spec.RDFC10.Issuer.issue Spec.RDFC10.Issuer.get?
  rw [h.nostr]
  cases hs : assoc si.issued b with
  | some id =>
    rw [hs] at hl
    simp only [hl]
    exact ⟨trivial, h⟩
  | none =>
    rw [hs] at hl
    simp only [hl]
    refine ⟨by rw [h.pfx, h.counter], ?_⟩
    constructor
    · rfl
    · exact h.pfx
    · intro b'
      simp only
      rw [assoc_cons, assoc_append_of_none _ _ _ _ hs, h.look b', h.pfx, h.counter]
    · simp [h.order]
    · simp [h.counter]

theorem IRel.init : IRel (Rdfcanon.newTemporaryIssuer : Rdfcanon.Issuer β) (Spec.RDFC10.Issuer.new [0x62]) :=
  ⟨rfl, rfl, fun _ => rfl, rfl, rfl⟩

/-- Relation between the *canonical* Go issuer (names from the int64 provider) and a specification
    issuer. The provider's state is tied to the issuer's: it has seen exactly the issued nodes. -/
structure CRel (mi : Rdfcanon.Issuer β) (si : Spec.RDFC10.Issuer β) : Prop where
  str : ∃ sp, mi.stringer = some sp ∧ sp.pfx = si.pfx ∧ sp.next = mi.order.length ∧
    ∀ b, assoc mi.known b = (assoc sp.known b).map (fun i => sp.pfx ++ decimal i)
  look : ∀ b, assoc mi.known b = assoc si.issued b
  order : mi.order = si.issued.map (·.1)
  counter : si.counter = mi.order.length
  nodup : (si.issued.map (·.1)).Nodup
  /-- the issued identifiers are prefix ++ 0, prefix ++ 1, … in issue order -/
  seq : si.issued.map (·.2) = (List.range si.counter).map (fun k => si.pfx ++ decimal k)
  cpfx : si.pfx = Spec.RDFC10.c14nPrefix

theorem assoc_none_not_mem (l : List (β × Str)) (b : β) (h : assoc l b = none) : b ∉ l.map (·.1) := by
  induction l with
  | nil => simp
  | cons e rest ih =>
    obtain ⟨k, v⟩ := e
    by_cases hk : k = b
    · simp [assoc, hk] at h
    · simp only [assoc, hk, if_false] at h
      simp only [List.map_cons, List.mem_cons, not_or]
      exact ⟨fun hh => hk hh.symm, ih h⟩

theorem CRel.getIfKnown {mi : Rdfcanon.Issuer β} {si : Spec.RDFC10.Issuer β} (h : CRel mi si) (b : β) :
    mi.getIfKnown b = si.get? b := h.look b

theorem CRel.get {mi : Rdfcanon.Issuer β} {si : Spec.RDFC10.Issuer β} (h : CRel mi si) (b : β) :
    (mi.get b).1 = (si.issue b).1 ∧ CRel (mi.get b).2 (si.issue b).2 := by
  obtain ⟨sp, hsp, hpfx, hnext, hk⟩ := h.str
  have hl := h.look b
  have hkb := hk b
  unfold Rdfcanon.Issuer.get Spec.RDFC10.Issuer.issue Spec.RDFC10.Issuer.get?
  rw [hsp]
  simp only
  unfold Rdfcanon.Int64SP.get
  cases hs : assoc si.issued b with
  | some id =>
    rw [hs] at hl
    rw [hl] at hkb
    cases hq : assoc sp.known b with
    | none => rw [hq] at hkb; simp at hkb
    | some i =>
      rw [hq] at hkb
      simp only [Option.map_some, Option.some.injEq] at hkb
      simp only [hl]
      refine ⟨hkb.symm, ?_⟩
      refine ⟨⟨sp, rfl, hpfx, hnext, hk⟩, h.look, h.order, h.counter, h.nodup, h.seq, h.cpfx⟩
  | none =>
    rw [hs] at hl
    rw [hl] at hkb
    cases hq : assoc sp.known b with
    | some i => rw [hq] at hkb; simp at hkb
    | none =>
      simp only [hl]
      refine ⟨by rw [hpfx, h.counter, hnext], ?_⟩
      refine ⟨⟨_, rfl, hpfx, by simp [hnext], ?_⟩, ?_, by simp [h.order], by simp [h.counter], ?_, ?_, h.cpfx⟩
      · intro b'
        simp only
        rw [assoc_cons, assoc_cons_nat]
        by_cases hb : b = b'
        · simp [hb]
        · simp [hb, hk b']
      · intro b'
        simp only
        rw [assoc_cons, assoc_append_of_none _ _ _ _ hs, h.look b', hpfx, h.counter, hnext]
      · simp only [List.map_append, List.map_cons, List.map_nil]
        rw [List.nodup_append]
        refine ⟨h.nodup, by simp, ?_⟩
        intro a ha b' hb'
        simp only [List.mem_singleton] at hb'
        subst hb'
        intro hab
        subst hab
        exact assoc_none_not_mem _ _ hs ha
      · simp only [List.map_append, List.map_cons, List.map_nil, List.range_succ, h.seq]

/-- On a node that already has an identifier, `GetBlankNodeString` returns it and changes nothing. -/
theorem CRel.get_known {mi : Rdfcanon.Issuer β} {si : Spec.RDFC10.Issuer β} (h : CRel mi si) (b : β) (id : Str)
    (hk : si.get? b = some id) : mi.get b = (id, mi) := by
  obtain ⟨sp, hsp, hpfx, hnext, hkn⟩ := h.str
  have hl := h.look b
  have hkb := hkn b
  unfold Spec.RDFC10.Issuer.get? at hk
  rw [hk] at hl
  rw [hl] at hkb
  unfold Rdfcanon.Issuer.get
  rw [hsp]
  simp only
  unfold Rdfcanon.Int64SP.get
  cases hq : assoc sp.known b with
  | none => rw [hq] at hkb; simp at hkb
  | some i =>
    rw [hq] at hkb
    simp only [Option.map_some, Option.some.injEq] at hkb
    simp only [hl]
    rw [← hkb]
    congr 1
    cases mi
    simp_all

theorem CRel.init : CRel (Rdfcanon.newCanonicalIssuer : Rdfcanon.Issuer β)
    (Spec.RDFC10.Issuer.new Spec.RDFC10.c14nPrefix) :=
  ⟨⟨_, rfl, rfl, rfl, fun _ => rfl⟩, fun _ => rfl, rfl, rfl, by simp [Spec.RDFC10.Issuer.new],
    by simp [Spec.RDFC10.Issuer.new], rfl⟩

/-- `issueAll` on both sides. -/
theorem CRel.issueAll {mi : Rdfcanon.Issuer β} {si : Spec.RDFC10.Issuer β} (h : CRel mi si) (l : List β) :
    CRel (Rdfcanon.issueAll mi l) (Spec.RDFC10.issueAll si l) := by
  induction l generalizing mi si with
  | nil => exact h
  | cons b rest ih =>
    simp only [Rdfcanon.issueAll, Spec.RDFC10.issueAll, List.foldl_cons]
    exact ih (h.get b).2

end RdfModel.Proofs.C04
