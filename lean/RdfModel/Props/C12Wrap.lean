/-
  Part C12W of property C12 — theorems about the executable model of `iri.ParsedIRI` on top of the
  executable model of net/url (Model/ParsedIRI.lean, Model/GoUrlFull.lean: the model the driver runs and
  go/cmd/c12 -part wrap ties to the real code field by field, exact agreement required).

  Proved (all inputs in the stated domain):
    * `parse_string_identity_partial`  `ParseIRI(s)` succeeds and `String()` gives `s` back for every `s`
                                       whose RFC 3986 components lie in `InLang` (Props/C12WrapDefs.lean)
    * `parseIRI_no_panic`, `resolveReference_no_panic`, `parseRef_no_panic`, `resolveStr_no_panic`
                                       the two slice expressions that could go out of range are unreachable,
                                       for ALL inputs (the model functions are total by construction)
    * `resolve_eq_rfc_partial`         (Props/C12WrapResolve.lean) resolution = RFC 3986 5.2 for hierarchical bases with
                                       authority and relative references, '%'-free paths
    * T1: Props/C12WrapTables.lean (the byte tables are those of the real net/url)
  Exhibited (kernel-evaluated on the model; the same inputs are corpus entries replayed on the Go code by
  go/cmd/c12): one witness per known deviation class, `deviates_*`.
  NOT proved: the full-strength statements `ParseStringIdentity` / `ResolveEqRfc` below (kept as defs).
  Witnesses use `decide +kernel` (kernel evaluation of the model; no axiom beyond the three standard ones —
  see Audit/C12Wrap.lean); everything else is ordinary tactic proof.
-/
import RdfModel.Props.C12
import RdfModel.Props.C12WrapTables
import RdfModel.Proofs.C12WrapString
import RdfModel.Proofs.C12WrapPanic
namespace RdfModel.C12W
open RdfModel.GoUrlFull RdfModel.PIRI
open RdfModel.Spec.RFC3986 (split recompose resolve)

def S (s : String) : Str := s.toList.map Char.toNat
def eAcute : Str := [0xc3, 0xa9]

/-- `ParseIRI(s).String()`; `none` on a parse error -/
def parseStr (s : Str) : Option Str :=
  match parseIRI s with
  | .ok p => some p.str
  | .error _ => none

/-- `ParseIRI(b).Parse(r).String()`; `none` on an error (or panic) -/
def resolveS (b r : Str) : Option Str :=
  match resolveStr b r with
  | .ok (some t) => some t
  | _ => none

/-! ### parse ∘ print -/

/-- Full-strength statement of the property's "parsing an IRI and printing it again is the identity" for the
    code: every string of the grammar `valid` (the RFC 3987 recogniser, implemented in go/cmd/c12/gen.go only)
    outside the known deviation classes is accepted and printed back unchanged. NOT proved. Missing relative to
    `parse_string_identity_partial`: non-ASCII bytes in the path (there `RawPath` is not a valid encoding for
    net/url and `String()` goes through an unanchored `strings.Replace`), userinfo, IPv6 literals. -/
def ParseStringIdentity (valid : Str → Prop) : Prop :=
  ∀ s : Str, valid s → C12.classes true s [] = [] → parseStr s = some s

/-- Proved part: on the sub-language `InLang` (ASCII; lower-case scheme; `host[:port]` authorities without
    userinfo or IP literal; path bytes that net/url regards as validly encoded, including %XX of either case;
    any query; any fragment with well-formed escapes, non-ASCII included) `ParseIRI` succeeds and `String()` is the identity — no case, percent-encoding or
    host normalisation. -/
theorem parse_string_identity_partial (s : Str) (h : InLang (split s) = true) :
    ∃ p, parseIRI s = .ok p ∧ p.str = s := by
  have := parseIRI_inLang (split s) h
  rwa [C12.recompose_split] at this

theorem parseStr_identity_partial (s : Str) (h : InLang (split s) = true) : parseStr s = some s := by
  obtain ⟨p, hp, hs⟩ := parse_string_identity_partial s h
  simp [parseStr, hp, hs]

-- non-trivial members of the sub-language: escapes of either case, sub-delims that set RawPath, empty query and
-- fragment, port, opaque path, relative references
example : InLang (split (S "http://a.example:8080/p/%7e%7E/(x)!/;v=1?q=%zz&r#f%41!")) = true := by decide +kernel
example : InLang (split (S "urn:isbn:0-486-27557-4?#")) = true := by decide +kernel
example : InLang (split (S "../a/./b%2Fc?x#")) = true := by decide +kernel
-- a non-ASCII fragment and a non-ASCII query (UTF-8 bytes of é), and a fragment with a space: String() restores
-- the raw fragment over net/url's re-escaped one
example : InLang (split (S "http://h/a?" ++ eAcute ++ S "#r" ++ eAcute ++ S "sum%c3%a9 x")) = true := by decide +kernel
example : InLang (split (S "//h/a")) = true ∧ InLang (split (S "file:/etc/x")) = true ∧ InLang (split (S "*")) = true := by
  decide +kernel
-- and strings outside it
example : InLang (split (S "HTTP://h/")) = false ∧ InLang (split (S "x:/a")) = false ∧ InLang (split (S "a:b/c d")) = false := by
  decide +kernel

/-! ### no panic (for all inputs) -/

theorem parseIRI_never_panics (s : Str) : parseIRI s ≠ .error .panic := parseIRI_no_panic s

theorem resolveReference_never_panics (b r : ParsedIRI) : b.resolveReference r ≠ .panic := resolveReference_no_panic b r

theorem parseRef_no_panic (b : ParsedIRI) (r : Str) : b.parseRef r ≠ .panic ∧ b.parseRef r ≠ .err .panic := by
  unfold ParsedIRI.parseRef
  split
  · rename_i e he
    refine ⟨by simp, ?_⟩
    intro h; cases h; exact parseIRI_no_panic _ he
  · split
    · simp
    · rename_i hp; exact absurd hp (resolveReference_no_panic _ _)

/-- `ParseIRI(b)`, `.Parse(r)`, `.String()` end to end: never a panic, never the `panic` error -/
theorem resolveStr_no_panic (b r : Str) : resolveStr b r ≠ .ok none ∧ resolveStr b r ≠ .error .panic := by
  unfold resolveStr
  split
  · rename_i e he
    refine ⟨by simp, ?_⟩
    intro h; cases h; exact parseIRI_no_panic _ he
  · rename_i bp _
    have := parseRef_no_panic bp r
    split
    · simp
    · rename_i e he
      refine ⟨by simp, ?_⟩
      intro h; cases h; exact this.2 he
    · rename_i hp; exact absurd hp this.1

/-! ### the known deviation classes really deviate on the model (hence, by T3, on the code) -/

/-- D14-scheme-has-uppercase -/
theorem deviates_scheme_uppercase : parseStr (S "HTTP://e/a") = some (S "http://e/a") := by decide +kernel
/-- D14-host-non-ascii -/
theorem deviates_host_non_ascii : parseStr (S "http://" ++ eAcute ++ S "/") = some (S "http://%C3%A9/") := by decide +kernel
/-- D14-host-pct-encoded -/
theorem deviates_host_pct : parseStr (S "http://a%20b/") = none ∧ parseStr (S "http://%c3%a9/") = some (S "http://%C3%A9/") := by
  decide +kernel
/-- D14-userinfo-not-plain -/
theorem deviates_userinfo : parseStr (S "http://u!@h/") = some (S "http://u%21@h/") ∧ parseStr (S "http://" ++ eAcute ++ S "@h/") = none := by
  decide +kernel
/-- D14-host-ipvfuture -/
theorem deviates_ipvfuture : parseStr (S "http://[v1.a]/") = none := by decide +kernel
/-- D14-empty-host -/
theorem deviates_empty_host : parseStr (S "x:///a") = some (S "x:a") ∧
    resolveS (S "x://h/a") (S "//") = some (S "x://h/a") ∧ resolve (S "x://h/a") (S "//") = S "x://" := by decide +kernel
/-- D14-opaque-reclassified-abs-path -/
theorem deviates_opaque_reclassified : parseStr (S "x:/a/../b") = some (S "x:a/../b") := by decide +kernel
/-- D14-relative-path-escaped-asterisk -/
theorem deviates_escaped_asterisk : parseStr (S "%2A") = some (S "*") := by decide +kernel
/-- D14-relative-first-segment-encoded-colon -/
theorem deviates_encoded_colon : parseStr (S "%3ab/" ++ eAcute) = some (S "./%3ab/" ++ eAcute) := by decide +kernel
/-- D14-special-scheme-no-authority-base -/
theorem deviates_special_no_authority :
    resolveS (S "http:/a/b") (S "c") = some (S "http:///a/c") ∧ resolve (S "http:/a/b") (S "c") = S "http:/a/c" := by decide +kernel
/-- D14-rootless-base-path-reference -/
theorem deviates_rootless_base :
    resolveS (S "urn:a/b") (S "../c") = some (S "urn:c") ∧ resolve (S "urn:a/b") (S "../c") = S "urn:/c" := by decide +kernel
/-- D14-base-dot-segments-empty-path-reference -/
theorem deviates_base_dot_segments :
    resolveS (S "http://h/a/./b") (S "#f") = some (S "http://h/a/b#f") ∧ resolve (S "http://h/a/./b") (S "#f") = S "http://h/a/./b#f" := by
  decide +kernel
/-- D14-base-fragment-inherited -/
theorem deviates_base_fragment :
    resolveS (S "http://h/a#f") (S "") = some (S "http://h/a#f") ∧ resolve (S "http://h/a#f") (S "") = S "http://h/a" ∧
    resolveS (S "http://h/a#") (S "b") = some (S "http://h/b#") ∧ resolve (S "http://h/a#") (S "b") = S "http://h/b" := by decide +kernel
/-- D14-dotdot-then-empty-segment -/
theorem deviates_dotdot_empty :
    resolveS (S "http://h/a") (S "..//x") = some (S "http://h/x") ∧ resolve (S "http://h/a") (S "..//x") = S "http://h//x" := by
  decide +kernel
/-- D14-absolute-reference-rootless-dot-segments -/
theorem deviates_absolute_rootless :
    resolveS (S "http://h/a") (S "x:..") = some (S "x:..") ∧ resolve (S "http://h/a") (S "x:..") = S "x:" := by decide +kernel
/-- D14-empty-base-path-reference-to-root -/
theorem deviates_empty_base_path :
    resolveS (S "http://h") (S ".") = some (S "http://h") ∧ resolve (S "http://h") (S ".") = S "http://h/" := by decide +kernel
/-- D14-chain-sticky-empty-fragment: one ParsedIRI re-based twice -/
theorem deviates_chain_sticky :
    (match parseIRI (S "http://h/a#") with
      | .ok b => (match b.parseRef (S "b#x") with
        | .ok t => (match t.parseRef (S "c") with | .ok t2 => some t2.str | _ => none)
        | _ => none)
      | .error _ => none) = some (S "http://h/c#") ∧
    resolve (resolve (S "http://h/a#") (S "b#x")) (S "c") = S "http://h/c" := by decide +kernel
/-- D14-base-empty-query-dropped was repaired (commit e41d420): the model follows the repaired code -/
theorem repaired_base_empty_query :
    resolveS (S "http://h/a?") (S "#f") = some (S "http://h/a?#f") ∧ resolve (S "http://h/a?") (S "#f") = S "http://h/a?#f" := by
  decide +kernel

end RdfModel.C12W
