/-
  Part C10C (serves C10, C05): theorems about the executable model of the JSON-LD context machinery
  (Model/JsonLdContext.lean; the driver component `ctx` runs exactly these definitions with
  Model/JsonLdContextIri.piriOps).
-/
import RdfModel.Model.JsonLdContextIri
import RdfModel.Proofs.C10CtxPanic
import RdfModel.Proofs.C10CtxPrefix
import RdfModel.Proofs.C10CtxRefine
import RdfModel.Proofs.C10CtxFuel
import RdfModel.Proofs.C10CtxLink
import RdfModel.Proofs.C12WrapPanic
namespace RdfModel.C10Ctx
open RdfModel RdfModel.JL RdfModel.JLC

/-! ## C05: no panic -/

/-- the model of `iri.ParsedIRI` / `net/url` never panics (Props/C12Wrap) -/
theorem piriOps_total : OpsTotal piriOps where
  parse s := by
    have := C12W.parseIRI_no_panic s
    simp only [piriOps]
    split <;> simp_all
  resolve b r := by
    have := C12W.resolveReference_no_panic b r
    simp only [piriOps]
    split <;> simp_all
  goAbs s := by
    have := C12W.parse_no_panic s
    simp only [piriOps]
    split <;> (try split) <;> simp_all

/-- Context Processing (with every nested Create Term Definition, IRI Expansion and scoped-context
    validation) never panics: for every parsed-IRI implementation that does not panic, every
    processing mode, fuel, active context, local context (any JSON value), base URL and flags. -/
theorem ctx_no_panic {P : Type} (ops : IriOps P) (ht : OpsTotal ops) (mode : Mode) (fuel : Nat)
    (active : Context P) (loc : Json) (base : Option Str) (overrideProtected propagate : Bool) :
    processCtx ops mode fuel active loc base overrideProtected propagate ≠ .panic := by
  have h := (all_noPanic ht mode fuel).2.2 active loc base overrideProtected propagate
  intro hp
  rw [hp] at h
  exact h

/-- the same for the instance the driver runs -/
theorem ctx_no_panic_piri (mode : Mode) (fuel : Nat) (active : Context PIRI.ParsedIRI) (loc : Json) (base : Option Str)
    (overrideProtected propagate : Bool) :
    processCtx piriOps mode fuel active loc base overrideProtected propagate ≠ .panic :=
  ctx_no_panic piriOps piriOps_total mode fuel active loc base overrideProtected propagate

/-- IRI Expansion under any context, of any JSON value, never panics -/
theorem iri_expand_no_panic {P : Type} (ops : IriOps P) (ht : OpsTotal ops) (mode : Mode) (c : Context P) (v : Json)
    (docRel vocab : Bool) : iriExpand ops mode c v docRel vocab ≠ .panic := by
  unfold iriExpand
  split
  · simp
  · rename_i s
    have h := (all_noPanic ht mode 1).1 none { ctx := c, defined := [] } s docRel vocab
    split <;> simp_all
  · simp

/-- Create Term Definition never panics when the term is a member of the local context (every call site
    checks that); without the hypothesis it does: `valueValue.GetGrammarName()` on a nil interface -/
theorem ctd_no_panic {P : Type} (ops : IriOps P) (ht : OpsTotal ops) (mode : Mode) (fuel : Nat)
    (loc : List (Str × Json)) (st : St P) (term : Str) (base : Option Str) (prot ov : Bool)
    (hk : hasKey term loc = true) : ctd ops mode fuel loc st term base prot ov ≠ .panic := by
  have h := (all_noPanic ht mode fuel).2.1 loc st term base prot ov hk
  intro hp
  rw [hp] at h
  exact h

example : hasKey (asc "t") [(asc "t", Json.str (asc "http://e/"))] = true := by decide

/-- the hypothesis of `ctd_no_panic` is needed -/
example : ctd (P := Unit) ⟨fun _ => .err, fun _ => false, fun _ _ => none, fun _ => [], fun _ => .no⟩ .v11 1 []
    { ctx := Context.initial none, defined := [] } (asc "t") none false false = .panic := by
  simp [ctd, ctdBody, mget, getKey, asc]

/-! ## C05: termination -/

/-- What makes the mutual recursion IRI Expansion ↔ Create Term Definition terminate, as coded: a term
    whose definition is in progress (`defined[term] = false`) is not entered again — the call returns
    `cyclic IRI mapping` at once, leaving the state as it is … -/
theorem ctd_cyclic {P : Type} (ops : IriOps P) (mode : Mode) (fuel : Nat) (loc : List (Str × Json)) (st : St P)
    (term : Str) (base : Option Str) (prot ov : Bool) (h : mget term st.defined = some false) :
    ctd ops mode (fuel + 1) loc st term base prot ov = .err .cyclicIRIMapping st := by
  simp [ctd, ctdBody, h]

/-- … and a term already defined by this context definition is not entered again either -/
theorem ctd_defined {P : Type} (ops : IriOps P) (mode : Mode) (fuel : Nat) (loc : List (Str × Json)) (st : St P)
    (term : Str) (base : Option Str) (prot ov : Bool) (h : mget term st.defined = some true) :
    ctd ops mode (fuel + 1) loc st term base prot ov = .ok () st := by
  simp [ctd, ctdBody, h]

example : mget (asc "t") ([(asc "t", false)] : List (Str × Bool)) = some false := by decide

/-- IRI Expansion without a local context (every query of the T3 battery; every expansion the document
    expansion makes once a context is in place) makes no nested call: one unit of fuel is enough -/
theorem iri_expand_no_fuel {P : Type} (ops : IriOps P) (mode : Mode) (c : Context P) (v : Json) (docRel vocab : Bool) :
    iriExpand ops mode c v docRel vocab ≠ .fuel := by
  unfold iriExpand
  split
  · simp
  · rename_i s
    have h := iriExpandBody_noFuel ops (fun st _ => .ok () st) { ctx := c, defined := [] } s docRel vocab
    simp only [iriExpandStr]
    split <;> simp_all [Res.NoFuel]
  · simp

/-- TERMINATION. The model is total by construction (structural recursion on the fuel; one unit per Go
    call of `.Call()`); running out of fuel is the explicit outcome `fuel`. `fuelFor loc = 3·|loc| + 4` units
    (|loc| = number of JSON values and object members of the local context) are enough, for every
    parsed-IRI implementation, mode, active context, base and flags: Context Processing never answers
    `fuel`. The proof (Proofs/C10CtxFuel.lean) is the termination argument of the Go code: the set of terms
    `defined` knows only grows; every Create Term Definition call that goes past step 1 adds its term (a
    member name of the context definition) to it, and returns at once for a term already there — with the
    `cyclic IRI mapping` error while its definition is in progress (`ctd_cyclic`); IRI Expansion calls Create
    Term Definition for member names only; so the nesting of the two is at most twice the number of
    members not yet in `defined`; a scoped context is a proper sub-value of the definition. -/
theorem ctx_fuel_sufficient {P : Type} (ops : IriOps P) (mode : Mode) (n : Nat) (active : Context P) (loc : Json)
    (base : Option Str) (overrideProtected propagate : Bool) (hn : fuelFor loc ≤ n) :
    processCtx ops mode n active loc base overrideProtected propagate ≠ .fuel := by
  have h := (all_fuel ops mode n).2.2.2 active loc base overrideProtected propagate hn
  intro hf
  rw [hf] at h
  exact h

example : fuelFor (.obj [(asc "t", .str (asc "http://e/"))]) ≤ 13 := by decide

/-- Context Processing as the driver runs it ends in a context, a JSON-LD error code, or `unmodelled`
    (remote context, `@import`, an IRI outside the net/url model): never a panic, never out of fuel -/
theorem ctx_total (mode : Mode) (active : Context PIRI.ParsedIRI) (loc : Json) (base : Option Str) (o p : Bool) :
    (∃ c, processCtx piriOps mode (fuelFor loc) active loc base o p = .ok c) ∨
    (∃ e, processCtx piriOps mode (fuelFor loc) active loc base o p = .err e) ∨
    processCtx piriOps mode (fuelFor loc) active loc base o p = .unmodelled := by
  have h1 := ctx_no_panic_piri mode (fuelFor loc) active loc base o p
  have h2 := ctx_fuel_sufficient piriOps mode (fuelFor loc) active loc base o p (Nat.le_refl _)
  cases h : processCtx piriOps mode (fuelFor loc) active loc base o p with
  | ok c => exact Or.inl ⟨c, rfl⟩
  | err e => exact Or.inr (Or.inl ⟨e, rfl⟩)
  | unmodelled => exact Or.inr (Or.inr rfl)
  | panic => exact absurd h h1
  | fuel => exact absurd h h2

/-! ## the prefix flag -/

/-- Step 14.2.5 as coded: the prefix flag of a definition that has an `@id` string is set exactly when the
    processing mode is json-ld-1.0, or the term has no inner colon and no slash, the definition is a
    simple term, and the IRI mapping is a blank node identifier or an IRI ending in a gen-delim. -/
theorem prefix_flag_spec (mode : Mode) (term : Str) (simple : Bool) (e : SIri) :
    prefixFlag145 mode term simple e = true ↔
      (mode = .v10 ∨ (hasColonOrSlash term = false ∧ simple = true ∧
        ((∃ t c, e = .iri t ∧ t.getLast? = some c ∧ c ∈ genDelims) ∨ (∃ t, e = .bnode t)))) :=
  prefixFlag145_iff mode term simple e

/-- Step 25 as coded: with an `@prefix` entry the flag is that boolean (and the step fails in
    json-ld-1.0, for a term with a colon or slash, for `true` on a keyword mapping, for a non-boolean);
    without one it is the flag of step 14.2.5. -/
theorem prefix_entry_spec (mode : Mode) (term : Str) (vo : List (Str × Json)) (e : SIri) (p0 p : Bool)
    (h : prefixStep mode term vo e p0 = .ok p) :
    (getKey kPrefix vo = none ∧ p = p0) ∨
    (getKey kPrefix vo = some (.bool p) ∧ mode ≠ .v10 ∧ term.contains cColon = false ∧ term.contains cSlash = false ∧
      (p = true → ∀ k, e ≠ .kw k)) :=
  prefixStep_ok mode term vo e p0 p h

/-- THE LINK: the prefix flag of the definition Create Term Definition STORES. For a term that this call
    defines (not yet in `defined`, not keyword-like) with a definition `value` of the local context that has no
    `@reverse` entry (and whose `@id`, if a string other than the term, is a keyword or not keyword-like — otherwise
    step 14.2.2 returns without a definition): when the call succeeds, the active context holds a definition `d`
    for the term and `d.pfx` is the outcome of step 25 (`prefixStep`: the `@prefix` entry, `prefix_entry_spec`) applied
    to `basePfx` = the flag of step 14.2.5 (`prefix_flag_spec`) on the stored IRI mapping when the definition has an
    `@id` string other than the term, and `false` otherwise (steps 14.1, 15–18). Holds for every other entry of the
    definition, every callback outcome, and also when a protected previous definition is kept (step 27: `Equals`
    compares the prefix flags). Not covered: definitions with `@reverse` (step 13 stores `false`). -/
theorem prefix_flag_stored {P : Type} (ops : IriOps P) (mode : Mode) (fuel : Nat) (loc : List (Str × Json))
    (st st' : St P) (term : Str) (base : Option Str) (prot ov : Bool)
    (h : ctd ops mode (fuel + 1) loc st term base prot ov = .ok () st')
    (hnew : mget term st.defined = none) (hkf : isKeywordForm term = false)
    (value : Json) (vo : List (Str × Json)) (simple : Bool)
    (hv : getKey term loc = some value) (hn : normalizeValue value = .ok (vo, simple))
    (hrev : getKey kReverse vo = none)
    (hi : ∀ i, getKey kId vo = some (.str i) → i ≠ term → isKeyword i = true ∨ isKeywordForm i = false) :
    ∃ d, mget term st'.ctx.core.terms = some d ∧
      prefixStep mode term vo d.iri (basePfx mode term vo simple d.iri) = .ok d.pfx := by
  simp only [ctd] at h
  exact prefix_flag_stored_aux mode _ _ _ loc st st' term base prot ov h hnew hkf value vo simple hv hn hrev hi

example : ∃ st', ctd (P := Unit) ⟨fun _ => .err, fun _ => false, fun _ _ => none, fun _ => [], fun _ => .no⟩ .v11 3
    [(asc "t", .str (asc "http://e/x#"))] { ctx := Context.initial none, defined := [] } (asc "t") none false false
      = .ok () st' := ⟨_, rfl⟩

/-- for a simple term definition `"t": "iri"` the stored flag satisfies the right-hand side of `prefix_flag_spec`
    (with *simple term* true) on the stored IRI mapping -/
theorem prefix_flag_stored_simple {P : Type} (ops : IriOps P) (mode : Mode) (fuel : Nat) (loc : List (Str × Json))
    (st st' : St P) (term i : Str) (base : Option Str) (prot ov : Bool)
    (h : ctd ops mode (fuel + 1) loc st term base prot ov = .ok () st')
    (hnew : mget term st.defined = none) (hkf : isKeywordForm term = false)
    (hv : getKey term loc = some (.str i)) (hne : i ≠ term)
    (hi : isKeyword i = true ∨ isKeywordForm i = false) :
    ∃ d, mget term st'.ctx.core.terms = some d ∧
      (d.pfx = true ↔ (mode = .v10 ∨ (hasColonOrSlash term = false ∧
        ((∃ t c, d.iri = .iri t ∧ t.getLast? = some c ∧ c ∈ genDelims) ∨ (∃ t, d.iri = .bnode t))))) := by
  have hid : getKey kId [(kId, Json.str i)] = some (.str i) := by simp [getKey]
  obtain ⟨d, hd, hp⟩ := prefix_flag_stored ops mode fuel loc st st' term base prot ov h hnew hkf
    (.str i) [(kId, .str i)] true hv rfl (by simp [getKey, kId, kReverse, asc])
    (fun j hj _ => by rw [hid] at hj; cases hj; exact hi)
  refine ⟨d, hd, ?_⟩
  have hnp : getKey kPrefix [(kId, Json.str i)] = none := by simp [getKey, kId, kPrefix, asc]
  have hne' : (i == term) = false := by simpa using hne
  simp only [prefixStep, hnp, Except.ok.injEq, basePfx, hid, hne', Bool.false_eq_true, if_false] at hp
  rw [← hp, prefixFlag145_iff]
  simp

example : prefixStep .v11 (asc "p") [(kPrefix, .bool true)] (.iri (asc "http://e/x")) false = .ok true := rfl
example : prefixStep .v11 (asc "p") [] (.iri (asc "http://e/x#")) true = .ok true := rfl

/-! ## C10: the fragment semantics is what the context machinery computes -/

/-- IRI expansion (no local context: the call expansion and value expansion make for property names,
    `@id`, `@type` values and `@vocab`) of the model equals `JL.expandIri` of the fragment semantics
    Spec/JsonLdFragment.lean, for every string, both flags and every pair of corresponding contexts
    (`Corr`: same terms with IRI mappings that are IRIs and equal prefix flags, same vocabulary mapping,
    and the base resolves the value like RFC 3986 §5.2 — a hypothesis about the parsed-IRI parameter,
    tied for the instance by C12/C12W). A blank node identifier is `_:label` in the model, `label` in the
    fragment (`toSpec`). -/
theorem iri_expand_refines_fragment {P : Type} (ops : IriOps P) (mode : Mode) (c : Context P) (sc : JL.Ctx) (v : Str)
    (docRel vocab : Bool) (hc : Corr ops c.core sc v) :
    ∃ e, iriExpand ops mode c (.str v) docRel vocab = .ok (.s e) ∧ toSpec e = JL.expandIri sc vocab docRel v := by
  obtain ⟨e, h1, h2⟩ := iriExpandBody_refines ops (fun st _ => .ok () st) { ctx := c, defined := [] } sc v docRel vocab hc
  refine ⟨e, ?_, h2⟩
  simp only [iriExpand, iriExpandStr]
  rw [h1]

/-- a context with a prefix, a plain term and a vocabulary corresponds to its fragment counterpart -/
example : Corr (P := Unit) ⟨fun _ => .err, fun _ => false, fun _ _ => none, fun _ => [], fun _ => .no⟩
    { terms := [(asc "ex", { (default : JLC.TermDef) with iri := .iri (asc "http://e/"), pfx := true })],
      base := none, baseValue := none, origBase := none, vocab := some (.iri (asc "http://v/")), vocabValue := none,
      lang := none, dir := none }
    { mode11 := true, docBase := none, base := none, vocab := some (asc "http://v/"), lang := none,
      terms := [(asc "ex", { iri := asc "http://e/", pfx := true, typ := .none, cont := .none, lang := none })] }
    (asc "ex:a") where
  terms := by
    intro k
    by_cases hk : k = asc "ex"
    · subst hk; simp [mget, JL.Ctx.term?, List.lookup, asc]
    · have : (k == asc "ex") = false := by simpa using hk
      simp [mget, JL.Ctx.term?, List.lookup, this]
  vocab := rfl
  baseNone := fun _ => rfl
  baseSome := fun b hb => by simp at hb

/-- `ctx_refines_fragment_partial`, the part that is PROVED: IRI expansion on corresponding tables. The
    other half of the intended statement — for a context object `ms` of the fragment,
    `JL.processCtxObj sc ms = some sc'` implies that `processCtx` succeeds with a context corresponding
    to `sc'` — is NOT proved; it is checked by the driver op `ctx.frag` (`fragDiff`) on every first local
    context of every history of the T3 run (full statement below). Known deviation found that way:
    the term ":" (finding C10C-single-colon-term). -/
theorem ctx_refines_fragment_partial {P : Type} (ops : IriOps P) (mode : Mode) (c : Context P) (sc : JL.Ctx) (v : Str)
    (docRel vocab : Bool) (hc : Corr ops c.core sc v) :
    ∃ e, iriExpand ops mode c (.str v) docRel vocab = .ok (.s e) ∧ toSpec e = JL.expandIri sc vocab docRel v :=
  iri_expand_refines_fragment ops mode c sc v docRel vocab hc

/-- the full statement (not proved; refuted as it stands by the term ":" in json-ld-1.1, see the finding) -/
def ctx_refines_fragment : Prop :=
  ∀ (mode11 : Bool) (base : Option Str) (ms : List (Str × Json)) (sc' : JL.Ctx),
    JL.processCtxObj (JL.Ctx.initial mode11 base) ms = some sc' →
    ∃ c', processCtx piriOps (if mode11 then .v11 else .v10) (fuelFor (.obj ms))
        (Context.initial ((match base with
          | some b => (match PIRI.parseIRI b with | .ok p => some p | .error _ => none)
          | none => none))) (.obj ms) none false true = .ok c' ∧
      TermsCorr c'.core.terms sc' ∧ c'.core.vocab = sc'.vocab.map SIri.iri ∧ c'.core.lang = sc'.lang

/-! ## clone -/

/-- `Context.clone` as coded copies every field but `VocabularyMappingValue` -/
theorem clone_fields {P : Type} (c : Context P) :
    c.clone = { c with core := { c.core with vocabValue := none } } := rfl

/-- Clone independence at the level of Go's heap (micro-model of Proofs/C10CtxPrefix.lean: map objects
    addressed by number, `cloneH` = `clone` as coded, a write = `m[k] = d` or `delete(m, k)` as Create Term
    Definition performs them through the context it is given): after any sequence of writes through the
    clone, the original's map is what it was. The executable model itself has value semantics (no
    aliasing by construction); that the real code behaves like it is what T3 checks on every history,
    and the oracle `go:active-context-mutated` renders the original before and after every step. -/
theorem clone_independent (h : Heap) (ref : Nat) (hr : ref < h.length) (ws : List Write) :
    (ws.foldl (fun hp w => hp.write (cloneH h ref).2 w) (cloneH h ref).1).getD ref [] = h.getD ref [] :=
  cloneH_independent h ref hr ws

example : (0 : Nat) < ([[(asc "a", default)]] : Heap).length := by decide

/-- a clone sharing the map (the seeded defect) fails the same statement -/
theorem shallow_clone_not_independent :
    ∃ (h : Heap) (ref : Nat) (ws : List Write), ref < h.length ∧
      (ws.foldl (fun hp w => hp.write (shallowH h ref).2 w) (shallowH h ref).1).getD ref [] ≠ h.getD ref [] :=
  shallowH_not_independent

end RdfModel.C10Ctx
