package main

// T3 correspondence for component `pipe`: the real registry / adapter / label-propagation code, called
// in-process, against Model/Pipe.lean executed by the Lean driver.

import (
	"bytes"
	"context"
	"fmt"
	"io"
	"os"
	"path/filepath"
	"regexp"
	"sort"
	"strings"

	"verifharness/vh"

	"github.com/dpb587/rdfkit-go/encoding"
	"github.com/dpb587/rdfkit-go/encoding/encodingutil"
	"github.com/dpb587/rdfkit-go/rdf"
	"github.com/dpb587/rdfkit-go/rdf/blanknodes"
	"github.com/dpb587/rdfkit-go/rdfio"
	"github.com/dpb587/rdfkit-go/rdfio/fileresource"
	"github.com/dpb587/rdfkit-go/rdfio/rdfiotypes"
)

type item struct {
	alt string // second protocol line whose result is accepted as well (inputs inside a known-finding class: the
	// repaired behaviour must not raise an alarm)
	line string   // protocol line for the model
	goR  []string // implementation results (several runs when Go's map order matters); each must be allowed by the model
	set  bool     // model answers with a `|`-separated set of possible results
	kind string
}

// ---------------------------------------------------------------- fake resources

type fakeReader struct {
	media    *encoding.ContentMediaType
	magic    []byte
	fileName string
	hasName  bool
	body     io.Reader
}

func (r *fakeReader) GetIRI() rdf.IRI             { return "file:///fake" }
func (r *fakeReader) GetFileName() (string, bool) { return r.fileName, r.hasName }
func (r *fakeReader) Read(p []byte) (int, error) {
	if r.body == nil {
		return 0, io.EOF
	}
	return r.body.Read(p)
}
func (r *fakeReader) Close() error { return nil }
func (r *fakeReader) GetMediaType() (encoding.ContentMediaType, bool) {
	if r.media == nil {
		return encoding.ContentMediaType{}, false
	}
	return *r.media, true
}
func (r *fakeReader) GetMagicBytes() ([]byte, bool) { return r.magic, len(r.magic) > 0 }
func (r *fakeReader) AddTee(w io.Writer)            {}

type fakeWriter struct {
	bytes.Buffer
	iri      rdf.IRI
	fileName string
	hasName  bool
}

func (w *fakeWriter) GetIRI() rdf.IRI             { return w.iri }
func (w *fakeWriter) GetFileName() (string, bool) { return w.fileName, w.hasName }
func (w *fakeWriter) Close() error                { return nil }

type fakeDecoderManager struct {
	cti encoding.ContentTypeIdentifier
}

func (m fakeDecoderManager) GetContentTypeIdentifier() encoding.ContentTypeIdentifier { return m.cti }
func (m fakeDecoderManager) NewDecoderParams() rdfiotypes.Params                      { return nil }
func (m fakeDecoderManager) NewDecoder(rr rdfiotypes.Reader, opts rdfiotypes.DecoderOptions) (*rdfiotypes.DecoderHandle, error) {
	return &rdfiotypes.DecoderHandle{Reader: rr, Decoder: &fakeQuadsDecoder{cti: m.cti}}, nil
}

type fakeEncoderManager struct {
	cti encoding.ContentTypeIdentifier
}

func (m fakeEncoderManager) GetContentTypeIdentifier() encoding.ContentTypeIdentifier { return m.cti }
func (m fakeEncoderManager) NewEncoderParams() rdfiotypes.Params                      { return nil }
func (m fakeEncoderManager) NewEncoder(ww rdfiotypes.Writer, opts rdfiotypes.EncoderOptions) (*rdfiotypes.EncoderHandle, error) {
	return &rdfiotypes.EncoderHandle{Writer: ww, Encoder: fakeEncoder{m.cti}}, nil
}

type fakeEncoder struct {
	cti encoding.ContentTypeIdentifier
}

func (fakeEncoder) Close() error                                               { return nil }
func (fakeEncoder) GetContentMetadata() encoding.ContentMetadata               { return encoding.ContentMetadata{} }
func (e fakeEncoder) GetContentTypeIdentifier() encoding.ContentTypeIdentifier { return e.cti }
func (fakeEncoder) AddQuad(ctx context.Context, q rdf.Quad) error              { return nil }

// fakeQuadsDecoder / fakeTriplesDecoder iterate a fixed statement list.
type fakeQuadsDecoder struct {
	cti encoding.ContentTypeIdentifier
	qs  []rdf.Quad
	i   int
}

func (d *fakeQuadsDecoder) Next() bool                                               { d.i++; return d.i <= len(d.qs) }
func (d *fakeQuadsDecoder) Err() error                                               { return nil }
func (d *fakeQuadsDecoder) Close() error                                             { return nil }
func (d *fakeQuadsDecoder) Quad() rdf.Quad                                           { return d.qs[d.i-1] }
func (d *fakeQuadsDecoder) Statement() rdf.Statement                                 { return d.qs[d.i-1] }
func (d *fakeQuadsDecoder) GetContentTypeIdentifier() encoding.ContentTypeIdentifier { return d.cti }

type fakeTriplesDecoder struct {
	qs []rdf.Quad
	i  int
}

func (d *fakeTriplesDecoder) Next() bool               { d.i++; return d.i <= len(d.qs) }
func (d *fakeTriplesDecoder) Err() error               { return nil }
func (d *fakeTriplesDecoder) Close() error             { return nil }
func (d *fakeTriplesDecoder) Triple() rdf.Triple       { return d.qs[d.i-1].Triple }
func (d *fakeTriplesDecoder) Statement() rdf.Statement { return d.qs[d.i-1].Triple }
func (d *fakeTriplesDecoder) GetContentTypeIdentifier() encoding.ContentTypeIdentifier {
	return "fake.triples"
}

var _ encoding.QuadsDecoder = (*fakeQuadsDecoder)(nil)
var _ encoding.TriplesDecoder = (*fakeTriplesDecoder)(nil)

// ---------------------------------------------------------------- wire helpers

func hx(s string) string { return vh.XS(s)[1:] }

func optCti(c encoding.ContentTypeIdentifier, ok bool) string {
	if !ok {
		return "-"
	}
	return vh.XS(string(c))
}

func wireMap(m map[string]encoding.ContentTypeIdentifier) string {
	if len(m) == 0 {
		return "-"
	}
	keys := vh.SortedKeys(m)
	parts := make([]string, len(keys))
	for i, k := range keys {
		parts[i] = hx(k) + ":" + hx(string(m[k]))
	}
	return strings.Join(parts, ",")
}

func wireList(l []string) string {
	if len(l) == 0 {
		return "-"
	}
	s := append([]string(nil), l...)
	sort.Strings(s)
	parts := make([]string, len(s))
	for i, k := range s {
		parts[i] = hx(k)
	}
	return strings.Join(parts, ",")
}

func wireMedia(m *encoding.ContentMediaType) string {
	if m == nil {
		return "-"
	}
	return hx(m.Type) + ":" + hx(m.Subtype)
}

func wireOptStr(s string, ok bool) string {
	if !ok {
		return "-"
	}
	return vh.XS(s)
}

// magic answers of a list of resolvers on the peeked bytes, as the model's `magic` token
func wireMagic(resolvers []rdfiotypes.MagicBytesResolver, peek []byte) string {
	if len(peek) == 0 {
		return "-"
	}
	if len(resolvers) == 0 {
		return "."
	}
	parts := make([]string, len(resolvers))
	for i, r := range resolvers {
		if cti, ok := r.ResolveMagicBytes(peek); ok {
			parts[i] = hx(string(cti))
		} else {
			parts[i] = "_"
		}
	}
	return strings.Join(parts, ",")
}

// ---------------------------------------------------------------- generators

const nameAlpha = "abcdefghijklmnopqrstuvwxyzABCDEFGHIJKLMNOPQRSTUVWXYZ0123456789"

func rstr(r *vh.Rng, alphabet string, min, max int) string {
	n := min + r.Intn(max-min+1)
	b := make([]byte, n)
	for i := range b {
		b[i] = alphabet[r.Intn(len(alphabet))]
	}
	return string(b)
}

func (g *gen) add(kind, line string, goR []string, set bool, nontrivial bool) {
	g.items = append(g.items, item{line: line, goR: goR, set: set, kind: kind})
	g.rep.Eval(line, nontrivial)
	g.rep.Count("t3:" + kind)
}

// pathCases: filepath.Base / filepath.Ext
func (g *gen) pathCases(n int) {
	hot := []string{"", "/", "//", ".", "..", "a", "a.b", ".a", "a.", "a/b.c", "a.b/c", "/a/b/", "a//", "a.b.c", "x.tar.gz", "/.", "a/.b", "a b.nt", "./x.NT", "é.ttl"}
	for i := 0; i < n; i++ {
		var p string
		if i < len(hot) {
			p = hot[i]
		} else {
			for j, k := 0, g.r.Intn(6); j < k; j++ {
				p += vh.Pick(g.r, []string{"/", ".", "a", "b", "nt", "TTL", "/", ".", "x", " ", "é", "-"})
			}
		}
		g.add("base", "pipe.base "+vh.XS(p), []string{vh.XS(filepath.Base(p))}, false, strings.ContainsAny(p, "/."))
		g.add("ext", "pipe.ext "+vh.XS(p), []string{vh.XS(filepath.Ext(p))}, false, strings.ContainsAny(p, "/."))
	}
}

// fileCases: fileresource reader/writer metadata on real temporary files
func (g *gen) fileCases(n int, dir string) {
	mgr := fileresource.NewManager()
	ctx := context.Background()
	for i := 0; i < n; i++ {
		base := rstr(g.r, "abcXYZ09._-", 1, 8)
		if base == "." || base == ".." || base == "-" {
			base = "f" + base
		}
		fp := filepath.Join(dir, base)
		if err := os.WriteFile(fp, []byte("x"), 0o644); err != nil {
			continue
		}
		name := fp
		if g.r.Bool() {
			name = "file://" + fp
		}
		rr, err := mgr.NewReader(ctx, rdfiotypes.ReaderOptions{Name: name, Params: []string{"filter=none"}})
		if err != nil {
			g.rep.Add(vh.Case{Kind: "disagreement", Op: "fileresource.NewReader " + name, Go: err.Error(), Detail: "file reader"})
			continue
		}
		fn, ok := rr.GetFileName()
		g.add("filename", "pipe.filename "+vh.XS("stdin")+" "+vh.XS(name), []string{wireOptStr(fn, ok)}, false, true)
		g.add("fileiri", "pipe.fileiri "+vh.XS("/dev/stdin")+" "+vh.XS(name), []string{vh.XS(string(rr.GetIRI()))}, false, true)
		rr.Close()
		ww, err := mgr.NewWriter(ctx, rdfiotypes.WriterOptions{Name: name})
		if err == nil {
			fn, ok := ww.GetFileName()
			g.add("filename", "pipe.filename "+vh.XS("stdout")+" "+vh.XS(name), []string{wireOptStr(fn, ok)}, false, true)
			g.add("fileiri", "pipe.fileiri "+vh.XS("/dev/stdout")+" "+vh.XS(name), []string{vh.XS(string(ww.GetIRI()))}, false, true)
			ww.Close()
		}
		os.Remove(fp)
	}
	// the standard streams (nothing is read or written)
	for _, name := range []string{"", "-", "file://", "file://-"} {
		if ww, err := mgr.NewWriter(ctx, rdfiotypes.WriterOptions{Name: name}); err == nil {
			fn, ok := ww.GetFileName()
			g.add("filename", "pipe.filename "+vh.XS("stdout")+" "+vh.XS(name), []string{wireOptStr(fn, ok)}, false, true)
			g.add("fileiri", "pipe.fileiri "+vh.XS("/dev/stdout")+" "+vh.XS(name), []string{vh.XS(string(ww.GetIRI()))}, false, true)
		}
	}
}

// prefixResolver answers `cti` when the bytes start with `prefix`.
func prefixResolver(prefix string, cti encoding.ContentTypeIdentifier) rdfiotypes.MagicBytesResolver {
	return rdfiotypes.MagicBytesResolverFunc(func(buf []byte) (encoding.ContentTypeIdentifier, bool) {
		if bytes.HasPrefix(buf, []byte(prefix)) {
			return cti, true
		}
		return "", false
	})
}

// the option builder of cmd/rdfkit/cmdflags (EncodingInput.Open / EncodingOutput.Open), replicated: that
// package lives in the separate module cmd/rdfkit and is exercised through the binary in the end-to-end part.
func decoderFallbackBuilder(fallback encoding.ContentTypeIdentifier) rdfiotypes.DecoderOptionsBuilder {
	return rdfiotypes.DecoderOptionsBuilderFunc(func(r rdfiotypes.Registry, rr rdfiotypes.Reader, ropts *rdfiotypes.DecoderOptions) error {
		if cti, ok := r.ResolveDecoderType(rr, ropts.Type); ok {
			ropts.Type = string(cti)
			return nil
		}
		ropts.Type = string(fallback)
		return nil
	})
}

func encoderFallbackBuilder(fallback encoding.ContentTypeIdentifier) rdfiotypes.EncoderOptionsBuilder {
	return rdfiotypes.EncoderOptionsBuilderFunc(func(r rdfiotypes.Registry, ww rdfiotypes.Writer, ropts *rdfiotypes.EncoderOptions) error {
		if cti, ok := r.ResolveEncoderType(ww, ropts.Type); ok {
			ropts.Type = string(cti)
			return nil
		}
		ropts.Type = string(fallback)
		return nil
	})
}

func openDec(reg rdfiotypes.Registry, rr rdfiotypes.Reader, t string, fallback encoding.ContentTypeIdentifier) (res string) {
	defer func() {
		if p := recover(); p != nil {
			res = fmt.Sprintf("panic:%v", p)
		}
	}()
	h, err := reg.NewDecoder(rr, rdfiotypes.DecoderOptions{Type: t}, decoderFallbackBuilder(fallback))
	if err != nil {
		if err == rdfiotypes.ErrUnknownEncoding {
			return "-"
		}
		return "error:" + err.Error()
	}
	return vh.XS(string(h.Decoder.GetContentTypeIdentifier()))
}

// encoderSelfName: what each registered encoder calls itself → the key it is registered under (the dev HTML
// inspector reports an empty identifier).
var encoderSelfName = map[string]string{}

func initEncoderSelfNames() {
	for k, m := range rdfio.Registry.EncoderManagers {
		func() {
			defer func() { recover() }()
			if h, err := m.NewEncoder(&fakeWriter{}, rdfiotypes.EncoderOptions{}); err == nil {
				if self := string(h.Encoder.GetContentTypeIdentifier()); self != string(k) {
					encoderSelfName[self] = string(k)
				}
			}
		}()
	}
}

func openEnc(reg rdfiotypes.Registry, ww rdfiotypes.Writer, t string, fallback encoding.ContentTypeIdentifier) (res string) {
	defer func() {
		if p := recover(); p != nil {
			res = fmt.Sprintf("panic:%v", p)
		}
	}()
	h, err := reg.NewEncoder(ww, rdfiotypes.EncoderOptions{Type: t}, encoderFallbackBuilder(fallback))
	if err != nil {
		if err == rdfiotypes.ErrUnknownEncoding {
			return "-"
		}
		return "error:" + err.Error()
	}
	self := string(h.Encoder.GetContentTypeIdentifier())
	if _, fake := h.Encoder.(fakeEncoder); !fake {
		if k, ok := encoderSelfName[self]; ok {
			self = k
		}
	}
	return vh.XS(self)
}

// abstractCases: random small registries
func (g *gen) abstractCases(n int) {
	r := g.r
	types := []string{"T1", "T2", "T3", "t.four", "x"}
	aliasPool := []string{"a", "b", "T1", "T2", "nt", "x", "t.four", "A"}
	extPool := []string{".a", ".b", ".xa", ".a.b", "a", ".A", ".ab", ".", "b"}
	mediaPool := []string{"text/a", "text/b", "application/x+y", "Text/A", "a/b"}
	for i := 0; i < n; i++ {
		reg := rdfiotypes.Registry{
			Aliases:         map[string]encoding.ContentTypeIdentifier{},
			MediaTypes:      map[string]encoding.ContentTypeIdentifier{},
			FileExts:        map[string]encoding.ContentTypeIdentifier{},
			DecoderManagers: map[encoding.ContentTypeIdentifier]rdfiotypes.DecoderManager{},
			EncoderManagers: map[encoding.ContentTypeIdentifier]rdfiotypes.EncoderManager{},
		}
		var decs, encs []string
		for _, t := range types {
			if r.Chance(60) {
				reg.DecoderManagers[encoding.ContentTypeIdentifier(t)] = fakeDecoderManager{encoding.ContentTypeIdentifier(t)}
				decs = append(decs, t)
			}
			if r.Chance(60) {
				reg.EncoderManagers[encoding.ContentTypeIdentifier(t)] = fakeEncoderManager{encoding.ContentTypeIdentifier(t)}
				encs = append(encs, t)
			}
		}
		for j, k := 0, r.Intn(4); j < k; j++ {
			reg.Aliases[vh.Pick(r, aliasPool)] = encoding.ContentTypeIdentifier(vh.Pick(r, types))
		}
		for j, k := 0, r.Intn(4); j < k; j++ {
			reg.FileExts[vh.Pick(r, extPool)] = encoding.ContentTypeIdentifier(vh.Pick(r, types))
		}
		for j, k := 0, r.Intn(3); j < k; j++ {
			reg.MediaTypes[vh.Pick(r, mediaPool)] = encoding.ContentTypeIdentifier(vh.Pick(r, types))
		}
		for j, k := 0, r.Intn(3); j < k; j++ {
			reg.MagicBytesResolvers = append(reg.MagicBytesResolvers, prefixResolver(vh.Pick(r, []string{"{", "<", "<?", "@", ""}), encoding.ContentTypeIdentifier(vh.Pick(r, types))))
		}
		for k := 0; k < 4; k++ {
			rr := &fakeReader{}
			if r.Chance(30) {
				mt := vh.Pick(r, mediaPool)
				if r.Chance(30) {
					mt = strings.ToUpper(mt)
				}
				parts := strings.SplitN(mt, "/", 2)
				rr.media = &encoding.ContentMediaType{Type: parts[0], Subtype: parts[1]}
			}
			if r.Chance(50) {
				rr.magic = []byte(vh.Pick(r, []string{"{}", "<?xml", "<a>", "@prefix", "x", " {"}))
			}
			if r.Chance(70) {
				rr.fileName = vh.Pick(r, []string{"f", "f.a", "f.b", "f.xa", "f.a.b", "F.A", "f.ab", "a", "f.", ".a", "f.b.a", "fa"})
				rr.hasName = true
			} else if r.Chance(20) {
				rr.hasName = true // ok with an empty name
			}
			t := ""
			if r.Chance(60) {
				t = vh.Pick(r, append(append([]string{"zz"}, aliasPool...), types...))
			}
			fb := vh.Pick(r, append([]string{""}, types...))
			common := wireMap(reg.Aliases) + " " + wireMap(reg.MediaTypes) + " " + wireMap(reg.FileExts) + " " + wireList(decs)
			tail := vh.XS(t) + " " + wireMedia(rr.media) + " " + wireMagic(reg.MagicBytesResolvers, rr.magic) + " " + wireOptStr(rr.fileName, rr.hasName)
			var res, ores []string
			for rep := 0; rep < 6; rep++ { // Go's map iteration order varies between calls
				res = append(res, optCti(reg.ResolveDecoderType(rr, t)))
				ores = append(ores, openDec(reg, rr, t, encoding.ContentTypeIdentifier(fb)))
			}
			g.add("rdec", "pipe.rdec "+common+" "+tail, res, true, t != "" || rr.media != nil || rr.magic != nil)
			g.add("odec", "pipe.odec "+common+" "+tail+" "+vh.XS(fb), ores, true, true)
			ww := &fakeWriter{fileName: rr.fileName, hasName: rr.hasName}
			ecommon := wireMap(reg.Aliases) + " " + wireMap(reg.FileExts) + " " + wireList(encs)
			etail := vh.XS(t) + " " + wireOptStr(ww.fileName, ww.hasName)
			g.add("renc", "pipe.renc "+ecommon+" "+etail, []string{optCti(reg.ResolveEncoderType(ww, t))}, false, true)
			g.add("oenc", "pipe.oenc "+ecommon+" "+etail+" "+vh.XS(fb), []string{openEnc(reg, ww, t, encoding.ContentTypeIdentifier(fb))}, false, true)
		}
	}
}

var probeDocs = map[string]string{
	"nt":      "<http://e/a> <http://e/p> \"x\" .\n",
	"nq":      "<http://e/a> <http://e/p> \"x\" <http://e/g> .\n",
	"ttl":     "@prefix ex: <http://e/> .\nex:a ex:p [ ex:q \"x\" ] .\n",
	"trig":    "@prefix ex: <http://e/> .\nex:g { ex:a ex:p \"x\" . }\n",
	"rj":      "{\"http://e/a\":{\"http://e/p\":[{\"type\":\"literal\",\"value\":\"x\"}]}}\n",
	"jsonld":  "{\"@id\":\"http://e/a\",\"http://e/p\":\"x\"}\n",
	"jsonlda": "[{\"@id\":\"http://e/a\",\"http://e/p\":[{\"@value\":\"x\"}]}]\n",
	"rdfxml":  "<?xml version=\"1.0\"?>\n<rdf:RDF xmlns:rdf=\"http://www.w3.org/1999/02/22-rdf-syntax-ns#\" xmlns:ex=\"http://e/\"><rdf:Description rdf:about=\"http://e/a\"><ex:p>x</ex:p></rdf:Description></rdf:RDF>\n",
	"rdfxml2": "<rdf:RDF xmlns:rdf=\"http://www.w3.org/1999/02/22-rdf-syntax-ns#\" xmlns:ex=\"http://e/\"><rdf:Description rdf:about=\"http://e/a\"><ex:p>x</ex:p></rdf:Description></rdf:RDF>\n",
	"html":    "<!DOCTYPE html>\n<html><head><title>t</title></head><body vocab=\"http://e/\"><p about=\"http://e/a\" property=\"p\">x</p></body></html>\n",
	"htmlf":   "<div vocab=\"http://e/\" resource=\"http://e/a\"><span property=\"p\">x</span></div>\n",
	"xhtml":   "<?xml version=\"1.0\"?>\n<html xmlns=\"http://www.w3.org/1999/xhtml\"><body vocab=\"http://e/\"><p about=\"http://e/a\" property=\"p\">x</p></body></html>\n",
	"empty":   "",
	"junk":    "hello world\n",
	"ws":      "   \n",
}

// realCases: the registry the command uses
func (g *gen) realCases(n int) {
	r := g.r
	reg := rdfio.Registry
	var tpool []string
	for k := range reg.Aliases {
		tpool = append(tpool, k)
	}
	for k := range reg.DecoderManagers {
		tpool = append(tpool, string(k))
	}
	for k := range reg.EncoderManagers {
		tpool = append(tpool, string(k))
	}
	for k := range reg.MediaTypes {
		tpool = append(tpool, k) // a media type given as --in-type is not an alias
	}
	tpool = append(tpool, "zz", "NT", "Turtle", ".nt", "org.w3", " nt")
	sort.Strings(tpool)
	var exts []string
	for k := range reg.FileExts {
		exts = append(exts, k)
	}
	sort.Strings(exts)
	var medias []string
	for k := range reg.MediaTypes {
		medias = append(medias, k)
	}
	sort.Strings(medias)
	docNames := vh.SortedKeys(probeDocs)
	for i := 0; i < n; i++ {
		rr := &fakeReader{}
		if r.Chance(35) {
			mt := vh.Pick(r, append(medias, "text/plain", "application/octet-stream", "application/json"))
			if r.Chance(25) {
				mt = strings.ToUpper(mt[:1]) + mt[1:]
			}
			parts := strings.SplitN(mt, "/", 2)
			rr.media = &encoding.ContentMediaType{Type: parts[0], Subtype: parts[1]}
		}
		if r.Chance(70) {
			rr.magic = []byte(probeDocs[vh.Pick(r, docNames)])
		}
		if r.Chance(80) {
			ext := vh.Pick(r, append(exts, "", ".txt", ".gz", ".json", ".xml", ".n3"))
			if r.Chance(20) {
				ext = strings.ToUpper(ext)
			}
			if r.Chance(15) {
				ext += vh.Pick(r, exts)
			}
			if r.Chance(10) {
				ext += ".gz"
			}
			rr.fileName = vh.Pick(r, []string{"data", "a.b", "x", "stdin", "nt", ""}) + ext
			rr.hasName = rr.fileName != ""
		}
		t := ""
		if r.Chance(50) {
			t = vh.Pick(r, tpool)
		}
		tail := vh.XS(t) + " " + wireMedia(rr.media) + " " + wireMagic(reg.MagicBytesResolvers, rr.magic) + " " + wireOptStr(rr.fileName, rr.hasName)
		var res, ores []string
		for rep := 0; rep < 4; rep++ {
			res = append(res, optCti(reg.ResolveDecoderType(rr, t)))
			rr.body = bytes.NewReader(nil)
			ores = append(ores, openDec(reg, rr, t, "org.w3.trig"))
		}
		g.add("gdec", "pipe.gdec "+tail, res, false, t != "" || rr.media != nil || rr.magic != nil || rr.hasName)
		g.add("godec", "pipe.godec "+tail, ores, false, true)
		ww := &fakeWriter{fileName: rr.fileName, hasName: rr.hasName}
		etail := vh.XS(t) + " " + wireOptStr(ww.fileName, ww.hasName)
		g.add("genc", "pipe.genc "+etail, []string{optCti(reg.ResolveEncoderType(ww, t))}, false, true)
		g.add("goenc", "pipe.goenc "+etail, []string{openEnc(reg, ww, t, "org.w3.n-quads")}, false, true)
	}
}

// ---------------------------------------------------------------- adapters and labels

type nodeTok struct {
	kind byte // 'S' labelled node of the decoding factory, 'A' anonymous node of it, 'F' foreign node
	lab  string
	n    int
}

type t3Term struct {
	g    *vh.GTerm
	node *nodeTok
}

func (t t3Term) wire() string {
	if t.node != nil {
		switch t.node.kind {
		case 'S':
			return "S" + hx(t.node.lab)
		case 'A':
			return fmt.Sprintf("A%d", t.node.n)
		default:
			return fmt.Sprintf("F%d", t.node.n)
		}
	}
	return t.g.Wire(nil)
}

type t3Quad struct{ s, p, o, g t3Term }

func (q t3Quad) wire() string {
	gw := "-"
	if q.g.g != nil || q.g.node != nil {
		gw = q.g.wire()
	}
	return q.s.wire() + "," + q.p.wire() + "," + q.o.wire() + "," + gw
}

type nodeEnv struct {
	f     blanknodes.StringFactory
	anon  map[int]rdf.BlankNode
	other map[int]rdf.BlankNode
}

func newNodeEnv() *nodeEnv {
	return &nodeEnv{f: blanknodes.NewStringFactory(), anon: map[int]rdf.BlankNode{}, other: map[int]rdf.BlankNode{}}
}

func (e *nodeEnv) term(t t3Term) rdf.Term {
	if t.node != nil {
		switch t.node.kind {
		case 'S':
			return e.f.NewStringBlankNode(t.node.lab)
		case 'A':
			if _, ok := e.anon[t.node.n]; !ok {
				e.anon[t.node.n] = e.f.NewBlankNode()
			}
			return e.anon[t.node.n]
		default:
			if _, ok := e.other[t.node.n]; !ok {
				e.other[t.node.n] = rdf.NewBlankNode()
			}
			return e.other[t.node.n]
		}
	}
	switch t.g.Kind {
	case vh.KIRI:
		return rdf.IRI(t.g.IRI)
	default:
		l := rdf.Literal{Datatype: rdf.IRI(t.g.DT), LexicalForm: t.g.Lex}
		if t.g.DT == vh.RDFLangString {
			l.Tag = rdf.LanguageLiteralTag{Language: t.g.Lang}
		}
		return l
	}
}

func (e *nodeEnv) quad(q t3Quad) rdf.Quad {
	out := rdf.Quad{Triple: rdf.Triple{
		Subject:   e.term(q.s).(rdf.SubjectValue),
		Predicate: e.term(q.p).(rdf.PredicateValue),
		Object:    e.term(q.o).(rdf.ObjectValue),
	}}
	if q.g.g != nil || q.g.node != nil {
		out.GraphName = e.term(q.g).(rdf.GraphNameValue)
	}
	return out
}

func (g *gen) t3Node() t3Term {
	r := g.r
	switch r.Intn(10) {
	case 0, 1, 2:
		return t3Term{node: &nodeTok{kind: 'S', lab: vh.Pick(r, []string{"x", "b0", "b1", "a.b", "0", "é", "a-b"})}}
	case 3, 4, 5:
		return t3Term{node: &nodeTok{kind: 'A', n: 1 + r.Intn(3)}}
	case 6:
		return t3Term{node: &nodeTok{kind: 'F', n: 1 + r.Intn(2)}}
	default:
		t := vh.GTerm{Kind: vh.KIRI, IRI: vh.Pick(r, []string{"http://e/a", "http://e/b", "http://example.org/é", "urn:x:y"})}
		return t3Term{g: &t}
	}
}

func (g *gen) t3Quads(graphs bool) []t3Quad {
	r := g.r
	n := r.Intn(5)
	qs := make([]t3Quad, 0, n)
	for i := 0; i < n; i++ {
		p := vh.GTerm{Kind: vh.KIRI, IRI: vh.Pick(r, []string{"http://e/p", "http://e/q"})}
		q := t3Quad{s: g.t3Node(), p: t3Term{g: &p}}
		if r.Chance(40) {
			l := r.Literal(vh.IRIOpts{})
			q.o = t3Term{g: &l}
		} else {
			q.o = g.t3Node()
		}
		if graphs && r.Chance(50) {
			q.g = g.t3Node()
		}
		qs = append(qs, q)
	}
	return qs
}

var reUUID = regexp.MustCompile(`[0-9a-f]{8}-[0-9a-f]{4}-[0-9a-f]{4}-[0-9a-f]{4}-[0-9a-f]{12}`)

// canonUUIDs renames UUID texts to <U0>, <U1>, … in order of first occurrence (= order of first draw for
// the line-based encoders, which ask for labels in the order they write them).
func canonUUIDs(b []byte) []byte {
	seen := map[string]int{}
	return reUUID.ReplaceAllFunc(b, func(m []byte) []byte {
		k, ok := seen[string(m)]
		if !ok {
			k = len(seen)
			seen[string(m)] = k
		}
		return []byte(fmt.Sprintf("<U%d>", k))
	})
}

// goPipe runs the wiring of pipecmd in-process: decoder handle → GetQuadsDecoder, rdfio encoder manager with
// DecoderPipe → GetQuadsEncoder, the AddQuad loop.
func goPipe(quads, ascii bool, h string, srcKind string, qs []t3Quad) (res string) {
	defer func() {
		if p := recover(); p != nil {
			res = fmt.Sprintf("panic:%v", p)
		}
	}()
	env := newNodeEnv()
	var rq []rdf.Quad
	for _, q := range qs {
		rq = append(rq, env.quad(q))
	}
	handle := &rdfiotypes.DecoderHandle{Reader: &fakeReader{}}
	if srcKind == "t" {
		handle.Decoder = &fakeTriplesDecoder{qs: rq}
	} else {
		handle.Decoder = &fakeQuadsDecoder{cti: "fake.quads", qs: rq}
	}
	switch h {
	case "strf":
		handle.DecoderBlankNodes = env.f
	case "bnf":
		handle.DecoderBlankNodes = rdf.NewBlankNodeFactory()
	}
	cti := encoding.ContentTypeIdentifier("org.w3.n-triples")
	if quads {
		cti = "org.w3.n-quads"
	}
	ww := &fakeWriter{iri: "file:///out"}
	opts := rdfiotypes.EncoderOptions{DecoderPipe: handle}
	if ascii {
		opts.Params = []string{"ascii=true"}
	}
	eh, err := rdfio.Registry.EncoderManagers[cti].NewEncoder(ww, opts)
	if err != nil {
		return "error:" + err.Error()
	}
	dq := handle.GetQuadsDecoder()
	eq := eh.GetQuadsEncoder()
	ctx := context.Background()
	k := 0
	for dq.Next() {
		if err := eq.AddQuad(ctx, dq.Quad()); err != nil {
			return fmt.Sprintf("werr:%d:%s", k, vh.X(canonUUIDs(ww.Bytes())))
		}
		k++
	}
	eh.Encoder.Close()
	return "ok:" + vh.X(canonUUIDs(ww.Bytes()))
}

type captureTriples struct {
	fakeEncoder
	got []rdf.Triple
}

func (c *captureTriples) AddTriple(ctx context.Context, t rdf.Triple) error {
	c.got = append(c.got, t)
	return nil
}

func (g *gen) pipeCases(n int) {
	r := g.r
	for i := 0; i < n; i++ {
		quads := r.Bool()
		ascii := r.Chance(30)
		h := vh.Pick(r, []string{"strf", "strf", "strf", "bnf", "nil"})
		src := vh.Pick(r, []string{"t", "q"})
		qs := g.t3Quads(true)
		parts := make([]string, len(qs))
		for j, q := range qs {
			parts[j] = q.wire()
		}
		doc := strings.Join(parts, ";")
		if doc == "" {
			doc = "-"
		}
		line := fmt.Sprintf("pipe.run %s %s %s %s %s", vh.B01(quads), vh.B01(ascii), h, src, doc)
		g.add("run", line, []string{goPipe(quads, ascii, h, src, qs)}, false, len(qs) > 0)
		if !quads && src == "q" {
			// D20 (named-graph-to-triples-target): dropping the statements of named graphs is the behaviour the
			// property asks for; accept it too
			var kept []string
			for j, q := range qs {
				if q.g.g == nil && q.g.node == nil {
					kept = append(kept, parts[j])
				}
			}
			alt := strings.Join(kept, ";")
			if alt == "" {
				alt = "-"
			}
			g.items[len(g.items)-1].alt = fmt.Sprintf("pipe.run %s %s %s %s %s", vh.B01(quads), vh.B01(ascii), h, src, alt)
		}
	}
	// the adapters alone, on labelled statements
	for i := 0; i < n/4+1; i++ {
		gq := r.Dataset(vh.DatasetOpts{MaxQuads: 4, NBNodes: 3, NIRIs: 3, Graphs: true})
		tbl := vh.NewBNTable(func(i int) string { return fmt.Sprintf("b%d", i) })
		var rq []rdf.Quad
		parts := make([]string, len(gq))
		for j, q := range gq {
			rq = append(rq, tbl.Quad(q))
			parts[j] = strings.ReplaceAll(q.Wire(tbl.Label), " ", ",")
		}
		doc := strings.Join(parts, ";")
		if doc == "" {
			doc = "-"
		}
		for _, src := range []string{"t", "q"} {
			for _, tgt := range []string{"t", "q"} {
				var dq encoding.QuadsDecoder
				if src == "t" {
					dq = encodingutil.NewTripleAsQuadDecoder(&fakeTriplesDecoder{qs: rq}, nil)
				} else {
					dq = &fakeQuadsDecoder{qs: rq}
				}
				var out []string
				ctx := context.Background()
				for dq.Next() {
					q := dq.Quad()
					if tgt == "t" {
						c := &captureTriples{}
						encodingutil.QuadAsTripleEncoder{TriplesEncoder: c}.AddQuad(ctx, q)
						if len(c.got) == 0 {
							continue
						}
						q = rdf.Quad{Triple: c.got[0]}
					}
					out = append(out, vh.QuadWire(q, tbl.GetBlankNodeString))
				}
				g.add("stmts", fmt.Sprintf("pipe.stmts %s %s %s", src, tgt, doc), []string{strings.Join(out, ";")}, false, len(gq) > 0)
				if src == "q" && tgt == "t" {
					var kept []string
					for j, q := range gq {
						if q.G == nil {
							kept = append(kept, parts[j])
						}
					}
					alt := strings.Join(kept, ";")
					if alt == "" {
						alt = "-"
					}
					g.items[len(g.items)-1].alt = fmt.Sprintf("pipe.stmts %s %s %s", src, tgt, alt)
				}
			}
		}
	}
}
