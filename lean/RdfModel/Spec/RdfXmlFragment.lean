/-
  RdfModel.Spec.RdfXmlFragment — RDF/XML (RDF 1.1 XML Syntax, section 7) as a denotation over abstract
  XML element trees, a language of *plans* (ways of writing a graph: striping and abbreviation
  choices), a renderer from plans to trees, and the writer `write` used by property C09.

  What is modelled
    * `Node`: an XML element tree after namespace processing: elements carry (namespace IRI, local
      name), attributes carry (namespace IRI, local name, value); `xmlns` declarations, prefixes,
      entity and character references, CDATA sections, comments, processing instructions, attribute
      order and quoting belong to the XML text layer, which is outside this model (both Go tokenizers
      are `encoding/xml`; the harness serialises a `Node` to text with random lexical choices).
    * `denoteDoc`: the grammar productions 7.2.8–7.2.21 with their semantic actions: `rdf:RDF`,
      node elements (typed / `rdf:Description`; `rdf:about`, `rdf:ID`, `rdf:nodeID`, anonymous),
      property attributes (`rdf:type` and literal ones), `xml:base` and `xml:lang` scoping (`xml:lang=""`
      removes the language), property elements: resource / literal (`rdf:datatype`) / empty
      (`rdf:resource`, `rdf:nodeID`, property attributes) / `rdf:parseType` Resource, Collection,
      Literal (and any other value, which the Recommendation treats as Literal); `rdf:li` with the
      per-element counter; reification by `rdf:ID` on property elements; the uniqueness constraint on
      (`rdf:ID` value, base IRI) pairs (constraint-id).  Everything not derivable by the grammar is
      `Err.syntax`.
    * Reference resolution is a parameter `rs : base → reference → IRI` (the driver instantiates
      `Spec.RFC3986.resolve`).

  What is NOT modelled (see also Props/C09.lean)
    * XML well-formedness and the text layer; DTDs and DTD-defined entities.
    * `rdf:parseType="Literal"`: the content is an opaque string (`Node.raw s`), taken to be the
      lexical form as given: no XML canonicalisation.  Element content under parseType Literal that is
      not a `raw` node is `Err.unsupported`.
    * Attributes without a namespace (deprecated `about=`, `ID=`, …): `Err.unsupported`.
    * Validity of language tags and of IRIs.

  Core-only imports: linked into the driver.
-/
import RdfModel.Model.Rune
import RdfModel.Model.Description
namespace RdfModel.RX
open RdfModel RdfModel.Desc

abbrev Str := List Nat

/-! ## Abstract XML trees -/

structure Attr where
  ns : Str
  name : Str
  val : Str
  deriving Repr, DecidableEq, Inhabited

inductive Node where
  | elem (ns name : Str) (attrs : List Attr) (kids : List Node)
  | text (s : Str)
  /-- opaque XML content (only under `rdf:parseType="Literal"`): `s` is the lexical form -/
  | raw (s : Str)
  deriving Repr, Inhabited

/-! ## Constants -/

def rdfNS : Str := [0x68, 0x74, 0x74, 0x70, 0x3a, 0x2f, 0x2f, 0x77, 0x77, 0x77, 0x2e, 0x77, 0x33, 0x2e, 0x6f, 0x72, 0x67, 0x2f, 0x31, 0x39, 0x39, 0x39, 0x2f, 0x30, 0x32, 0x2f, 0x32, 0x32, 0x2d, 0x72, 0x64, 0x66, 0x2d, 0x73, 0x79, 0x6e, 0x74, 0x61, 0x78, 0x2d, 0x6e, 0x73, 0x23]
def xmlNS : Str := [0x68, 0x74, 0x74, 0x70, 0x3a, 0x2f, 0x2f, 0x77, 0x77, 0x77, 0x2e, 0x77, 0x33, 0x2e, 0x6f, 0x72, 0x67, 0x2f, 0x58, 0x4d, 0x4c, 0x2f, 0x31, 0x39, 0x39, 0x38, 0x2f, 0x6e, 0x61, 0x6d, 0x65, 0x73, 0x70, 0x61, 0x63, 0x65]
def n_RDF : Str := [0x52, 0x44, 0x46]  -- "RDF"
def n_Description : Str := [0x44, 0x65, 0x73, 0x63, 0x72, 0x69, 0x70, 0x74, 0x69, 0x6f, 0x6e]  -- "Description"
def n_ID : Str := [0x49, 0x44]  -- "ID"
def n_about : Str := [0x61, 0x62, 0x6f, 0x75, 0x74]  -- "about"
def n_nodeID : Str := [0x6e, 0x6f, 0x64, 0x65, 0x49, 0x44]  -- "nodeID"
def n_resource : Str := [0x72, 0x65, 0x73, 0x6f, 0x75, 0x72, 0x63, 0x65]  -- "resource"
def n_datatype : Str := [0x64, 0x61, 0x74, 0x61, 0x74, 0x79, 0x70, 0x65]  -- "datatype"
def n_parseType : Str := [0x70, 0x61, 0x72, 0x73, 0x65, 0x54, 0x79, 0x70, 0x65]  -- "parseType"
def n_li : Str := [0x6c, 0x69]  -- "li"
def n_aboutEach : Str := [0x61, 0x62, 0x6f, 0x75, 0x74, 0x45, 0x61, 0x63, 0x68]  -- "aboutEach"
def n_aboutEachPrefix : Str := [0x61, 0x62, 0x6f, 0x75, 0x74, 0x45, 0x61, 0x63, 0x68, 0x50, 0x72, 0x65, 0x66, 0x69, 0x78]  -- "aboutEachPrefix"
def n_bagID : Str := [0x62, 0x61, 0x67, 0x49, 0x44]  -- "bagID"
def n_type : Str := [0x74, 0x79, 0x70, 0x65]  -- "type"
def n_lang : Str := [0x6c, 0x61, 0x6e, 0x67]  -- "lang"
def n_base : Str := [0x62, 0x61, 0x73, 0x65]  -- "base"
def n_Resource : Str := [0x52, 0x65, 0x73, 0x6f, 0x75, 0x72, 0x63, 0x65]  -- "Resource"
def n_Collection : Str := [0x43, 0x6f, 0x6c, 0x6c, 0x65, 0x63, 0x74, 0x69, 0x6f, 0x6e]  -- "Collection"
def n_Literal : Str := [0x4c, 0x69, 0x74, 0x65, 0x72, 0x61, 0x6c]  -- "Literal"
def n_Statement : Str := [0x53, 0x74, 0x61, 0x74, 0x65, 0x6d, 0x65, 0x6e, 0x74]  -- "Statement"
def n_subject : Str := [0x73, 0x75, 0x62, 0x6a, 0x65, 0x63, 0x74]  -- "subject"
def n_predicate : Str := [0x70, 0x72, 0x65, 0x64, 0x69, 0x63, 0x61, 0x74, 0x65]  -- "predicate"
def n_object : Str := [0x6f, 0x62, 0x6a, 0x65, 0x63, 0x74]  -- "object"
def n_first : Str := [0x66, 0x69, 0x72, 0x73, 0x74]  -- "first"
def n_rest : Str := [0x72, 0x65, 0x73, 0x74]  -- "rest"
def n_nil : Str := [0x6e, 0x69, 0x6c]  -- "nil"
def n_XMLLiteral : Str := [0x58, 0x4d, 0x4c, 0x4c, 0x69, 0x74, 0x65, 0x72, 0x61, 0x6c]  -- "XMLLiteral"

abbrev cHash : Nat := 0x23
abbrev cUnderscore : Nat := 0x5f

def rdfType : Str := rdfNS ++ n_type
def rdfStatement : Str := rdfNS ++ n_Statement
def rdfSubject : Str := rdfNS ++ n_subject
def rdfPredicate : Str := rdfNS ++ n_predicate
def rdfObject : Str := rdfNS ++ n_object
def rdfFirst : Str := rdfNS ++ n_first
def rdfRest : Str := rdfNS ++ n_rest
def rdfNil : Str := rdfNS ++ n_nil
def rdfXMLLiteral : Str := rdfNS ++ n_XMLLiteral

/-- decimal digits of a natural number (for `rdf:_n`) -/
def dec (n : Nat) : Str := (Nat.toDigits 10 n).map Char.toNat

/-- `rdf:_n` -/
def rdfMember (n : Nat) : Str := rdfNS ++ cUnderscore :: dec n

/-! ## XML names (XML 1.0 5th edition, productions [4], [4a]; Namespaces in XML [4] NCName) -/

/-- NameStartChar without ':' -/
def ncNameStart : RangeSet :=
  [(0x41, 0x5A), (0x5F, 0x5F), (0x61, 0x7A), (0xC0, 0xD6), (0xD8, 0xF6), (0xF8, 0x2FF), (0x370, 0x37D),
   (0x37F, 0x1FFF), (0x200C, 0x200D), (0x2070, 0x218F), (0x2C00, 0x2FEF), (0x3001, 0xD7FF),
   (0xF900, 0xFDCF), (0xFDF0, 0xFFFD), (0x10000, 0xEFFFF)]

/-- NameChar without ':' : NameStartChar | "-" | "." | [0-9] | #xB7 | [#x0300-#x036F] | [#x203F-#x2040], written as
    sorted maximal ranges ([#xF8-#x2FF], [#x300-#x36F], [#x370-#x37D] merge into one) -/
def ncNameChar : RangeSet :=
  [(0x2D, 0x2E), (0x30, 0x39), (0x41, 0x5A), (0x5F, 0x5F), (0x61, 0x7A), (0xB7, 0xB7), (0xC0, 0xD6), (0xD8, 0xF6),
   (0xF8, 0x37D), (0x37F, 0x1FFF), (0x200C, 0x200D), (0x203F, 0x2040), (0x2070, 0x218F), (0x2C00, 0x2FEF),
   (0x3001, 0xD7FF), (0xF900, 0xFDCF), (0xFDF0, 0xFFFD), (0x10000, 0xEFFFF)]

def isNCName : Str → Bool
  | [] => false
  | c :: rest => inRanges ncNameStart c && rest.all (inRanges ncNameChar)

/-- XML white space (production [3] S) -/
def isWs (c : Nat) : Bool := c = 0x20 || c = 0x9 || c = 0xA || c = 0xD

/-! ## Terms, environment, state -/

/-- Blank nodes of the denotation: generated ones (numbered by a counter in document order) and the
    ones named by `rdf:nodeID`. -/
inductive BN where
  | gen (n : Nat)
  | named (s : Str)
  deriving Repr, DecidableEq, Inhabited

abbrev T := Triple BN

/-- a plain literal (`xsd:string`) or, inside a language scope, a language-tagged string -/
def mkLit (lex : Str) (lang : Option Str) : Term BN :=
  match lang with
  | some l => .lit lex rdfLangString (some l)
  | none => .lit lex xsdString none

inductive Err where
  | syntax
  | unsupported
  deriving Repr, DecidableEq, Inhabited

/-- in-scope base IRI and language (`none` = no language) -/
structure Env where
  base : Str
  lang : Option Str
  deriving Repr, DecidableEq

/-- `next`: the next generated blank node; `used`: the (base IRI, `rdf:ID` value) pairs seen so far -/
structure St where
  next : Nat
  used : List (Str × Str)
  deriving Repr, DecidableEq

def St.init : St := { next := 0, used := [] }

/-! ## Attributes of one element -/

/-- the attributes of an element that matter to RDF/XML, looked up by name -/
structure AttrInfo where
  base : Option Str := none
  lang : Option Str := none
  id : Option Str := none
  about : Option Str := none
  nodeID : Option Str := none
  resource : Option Str := none
  datatype : Option Str := none
  parseType : Option Str := none
  /-- property attributes (propertyAttributeURIs), `rdf:type` included, in document order -/
  props : List Attr := []
  /-- an attribute whose name is not a propertyAttributeURI and not one of the above
      (`rdf:RDF`, `rdf:Description`, `rdf:li`, `rdf:aboutEach`, `rdf:aboutEachPrefix`, `rdf:bagID`) -/
  bad : Bool := false
  /-- an attribute without namespace (other than the names reserved by XML, which are ignored) -/
  unsup : Bool := false
  deriving Repr, DecidableEq

def getAttr (attrs : List Attr) (ns name : Str) : Option Str :=
  (attrs.find? (fun a => decide (a.ns = ns ∧ a.name = name))).map (·.val)

/-- 7.2.2 coreSyntaxTerms, 7.2.4 oldTerms (local names in the RDF namespace) -/
def coreSyntaxTerms : List Str := [n_RDF, n_ID, n_about, n_parseType, n_resource, n_nodeID, n_datatype]
def oldTerms : List Str := [n_aboutEach, n_aboutEachPrefix, n_bagID]

/-- names in the RDF namespace that are neither syntax attributes handled by `AttrInfo` nor allowed
    as property attributes -/
def badAttrName (name : Str) : Bool := ([n_RDF, n_Description, n_li] ++ oldTerms).contains name

def syntaxAttrName (name : Str) : Bool :=
  [n_ID, n_about, n_nodeID, n_resource, n_datatype, n_parseType].contains name

/-- propertyAttributeURIs = anyURI − (coreSyntaxTerms | rdf:Description | rdf:li | oldTerms); attributes in the
    XML namespace and `xmlns` declarations are not part of the attribute set at all -/
def isPropAttr (a : Attr) : Bool :=
  a.ns ≠ [] && a.ns ≠ xmlNS && !(a.ns = rdfNS && (badAttrName a.name || syntaxAttrName a.name))

def isBadAttr (a : Attr) : Bool := a.ns = rdfNS && badAttrName a.name

def lower (c : Nat) : Nat := if 0x41 ≤ c ∧ c ≤ 0x5A then c + 0x20 else c

/-- 6.1.2: attributes whose name begins with `xml` (any case) are reserved by XML and removed from the
    attribute set -/
def xmlReserved : Str → Bool
  | a :: b :: c :: _ => lower a = 0x78 && lower b = 0x6D && lower c = 0x6C
  | _ => false

/-- an attribute without namespace that is not reserved by XML: outside the model -/
def isUnsupAttr (a : Attr) : Bool := a.ns = [] && !xmlReserved a.name

def info (attrs : List Attr) : AttrInfo :=
  { base := getAttr attrs xmlNS n_base
    lang := getAttr attrs xmlNS n_lang
    id := getAttr attrs rdfNS n_ID
    about := getAttr attrs rdfNS n_about
    nodeID := getAttr attrs rdfNS n_nodeID
    resource := getAttr attrs rdfNS n_resource
    datatype := getAttr attrs rdfNS n_datatype
    parseType := getAttr attrs rdfNS n_parseType
    props := attrs.filter isPropAttr
    bad := attrs.any isBadAttr
    unsup := attrs.any isUnsupAttr }

/-- `xml:base` is resolved against the base in scope; `xml:lang=""` removes the language -/
def Env.push (rs : Str → Str → Str) (env : Env) (base lang : Option Str) : Env :=
  { base := match base with | some b => rs env.base b | none => env.base
    lang := match lang with | some [] => none | some l => some l | none => env.lang }

/-! ## Semantic actions shared by several productions -/

/-- 7.2.11 / 7.2.21: `rdf:type="r"` gives an IRI object, every other property attribute a literal
    carrying the language in scope -/
def propAttrTriple (rs : Str → Str → Str) (env : Env) (s : Term BN) (a : Attr) : T :=
  if a.ns = rdfNS ∧ a.name = n_type then ⟨s, rdfType, .iri (rs env.base a.val)⟩
  else ⟨s, a.ns ++ a.name, mkLit a.val env.lang⟩

/-- 7.3 reification of the statement `t` under the IRI `r` -/
def reify (r : Str) (t : T) : List T :=
  [⟨.iri r, rdfType, .iri rdfStatement⟩, ⟨.iri r, rdfSubject, t.s⟩,
   ⟨.iri r, rdfPredicate, .iri t.p⟩, ⟨.iri r, rdfObject, t.o⟩]

def withReify (r : Option Str) (t : T) : List T :=
  t :: (match r with | some r => reify r t | none => [])

/-- reify the first statement of a list (parseType Collection reifies the statement that links the
    property to the first cell or to `rdf:nil`) -/
def reifyHead (r : Option Str) (ts : List T) : List T :=
  match ts with
  | t :: rest => withReify r t ++ rest
  | [] => []

/-- `rdf:ID="v"`: `v` must be an NCName and the pair (base, `v`) unused (constraint-id); the IRI is
    `resolve(base, "#" + v)` -/
def useId (rs : Str → Str → Str) (env : Env) (v : Str) (st : St) : Except Err (Str × St) :=
  if isNCName v && !st.used.contains (env.base, v) then
    .ok (rs env.base (cHash :: v), { st with used := (env.base, v) :: st.used })
  else .error .syntax

def optId (rs : Str → Str → Str) (env : Env) (v : Option Str) (st : St) : Except Err (Option Str × St) :=
  match v with
  | none => .ok (none, st)
  | some v =>
    match useId rs env v st with
    | .ok (r, st1) => .ok (some r, st1)
    | .error e => .error e

/-- 7.2.11: subject of a node element from at most one of `rdf:ID`, `rdf:about`, `rdf:nodeID` -/
def subjectOf (rs : Str → Str → Str) (env : Env) (i : AttrInfo) (st : St) : Except Err (Term BN × St) :=
  match i.id, i.about, i.nodeID with
  | some v, none, none =>
    match useId rs env v st with
    | .ok (r, st1) => .ok (.iri r, st1)
    | .error e => .error e
  | none, some a, none => .ok (.iri (rs env.base a), st)
  | none, none, some n => if isNCName n then .ok (.bnode (.named n), st) else .error .syntax
  | none, none, none => .ok (.bnode (.gen st.next), { st with next := st.next + 1 })
  | _, _, _ => .error .syntax

/-- 7.2.21 (the "otherwise" case): object of an empty property element from `rdf:resource`,
    `rdf:nodeID`, or a generated blank node -/
def emptyObj (rs : Str → Str → Str) (env : Env) (i : AttrInfo) (st : St) : Except Err (Term BN × St) :=
  match i.resource, i.nodeID, i.datatype with
  | some r, none, none => .ok (.iri (rs env.base r), st)
  | none, some n, none => if isNCName n then .ok (.bnode (.named n), st) else .error .syntax
  | none, none, _ => .ok (.bnode (.gen st.next), { st with next := st.next + 1 })
  | _, _, _ => .error .syntax

/-- the concatenated character data if every child is a text node -/
def textOnly : List Node → Option Str
  | [] => some []
  | .text s :: ks => (textOnly ks).map (s ++ ·)
  | _ :: _ => none

/-- the concatenated opaque content if every child is a `raw` node -/
def rawOnly : List Node → Option Str
  | [] => some []
  | .raw s :: ks => (rawOnly ks).map (s ++ ·)
  | _ :: _ => none

/-- nodeElementURIs = anyURI − (coreSyntaxTerms | rdf:li | oldTerms) -/
def nodeForbidden : List Str := coreSyntaxTerms ++ [n_li] ++ oldTerms
def badNodeName (name : Str) : Bool := nodeForbidden.contains name

/-- propertyElementURIs = anyURI − (coreSyntaxTerms | rdf:Description | oldTerms) -/
def propForbidden : List Str := coreSyntaxTerms ++ [n_Description] ++ oldTerms
def badPropName (name : Str) : Bool := propForbidden.contains name

/-- 7.4 list expansion: `rdf:li` stands for `rdf:_n`, `n` the incremented counter of the enclosing element -/
def isLiName (ns name : Str) : Bool := ns = rdfNS ∧ name = n_li
def propPred (ns name : Str) (li : Nat) : Str := if isLiName ns name then rdfMember (li + 1) else ns ++ name
def propLi (ns name : Str) (li : Nat) : Nat := if isLiName ns name then li + 1 else li

def typeTriple (s : Term BN) (ns name : Str) : List T :=
  if ns = rdfNS ∧ name = n_Description then [] else [⟨s, rdfType, .iri (ns ++ name)⟩]

/-! ## The grammar as a denotation

  `nodeElt`   7.2.11 nodeElement            → (subject, triples, state)
  `propList`  7.2.13 propertyEltList        (threads the `rdf:li` counter of the enclosing element)
  `propElt`   7.2.14–7.2.21 propertyElt (white-space text between property elements is skipped here)
  `resKids`   content of a resourcePropertyElt: ws* nodeElement ws*
  `collKids`  content of a parseTypeCollectionPropertyElt: nodeElementList, producing the list cells

  Order of the triples: type triple, property-attribute triples, then the property elements in
  document order; for a property element the statement itself, its reification, then whatever the
  content produces.  (The order carries no meaning; it is fixed so that the round-trip theorem is an
  equation between lists.)
-/
mutual

def nodeElt (rs : Str → Str → Str) (env : Env) : Node → St → Except Err (Term BN × List T × St)
  | .elem ns name attrs kids, st =>
    if ns = rdfNS ∧ badNodeName name = true then .error .syntax else
    let i := info attrs
    if i.unsup then .error .unsupported else
    if i.bad || i.resource.isSome || i.datatype.isSome || i.parseType.isSome then .error .syntax else
    let env' := env.push rs i.base i.lang
    match subjectOf rs env' i st with
    | .error e => .error e
    | .ok (s, st1) =>
      match propList rs env' s kids 0 st1 with
      | .error e => .error e
      | .ok (ts, st2) =>
        .ok (s, typeTriple s ns name ++ i.props.map (propAttrTriple rs env' s) ++ ts, st2)
  | .text _, _ => .error .syntax
  | .raw _, _ => .error .syntax

def propList (rs : Str → Str → Str) (env : Env) (s : Term BN) :
    List Node → Nat → St → Except Err (List T × St)
  | [], _, st => .ok ([], st)
  | k :: ks, li, st =>
    match propElt rs env s k li st with
    | .error e => .error e
    | .ok (ts, li1, st1) =>
      match propList rs env s ks li1 st1 with
      | .error e => .error e
      | .ok (ts2, st2) => .ok (ts ++ ts2, st2)

def propElt (rs : Str → Str → Str) (env : Env) (s : Term BN) :
    Node → Nat → St → Except Err (List T × Nat × St)
  | .text t, li, st => if t.all isWs then .ok ([], li, st) else .error .syntax
  | .raw _, _, _ => .error .syntax
  | .elem ns name attrs kids, li, st =>
    if ns = rdfNS ∧ badPropName name = true then .error .syntax else
    let i := info attrs
    if i.unsup then .error .unsupported else
    if i.bad || i.about.isSome then .error .syntax else
    let env' := env.push rs i.base i.lang
    let p := propPred ns name li
    let li1 := propLi ns name li
    match optId rs env' i.id st with
    | .error e => .error e
    | .ok (r, st0) =>
      match i.parseType with
      | some pt =>
        if i.nodeID.isSome || i.resource.isSome || i.datatype.isSome || !i.props.isEmpty then
          .error .syntax
        else if pt = n_Resource then
          -- 7.2.18 parseTypeResourcePropertyElt
          let b : Term BN := .bnode (.gen st0.next)
          match propList rs env' b kids 0 { st0 with next := st0.next + 1 } with
          | .error e => .error e
          | .ok (ts, st1) => .ok (withReify r ⟨s, p, b⟩ ++ ts, li1, st1)
        else if pt = n_Collection then
          -- 7.2.19 parseTypeCollectionPropertyElt
          match collKids rs env' s p kids st0 with
          | .error e => .error e
          | .ok (ts, st1) => .ok (reifyHead r ts, li1, st1)
        else
          -- 7.2.17 parseTypeLiteralPropertyElt, 7.2.20 parseTypeOtherPropertyElt
          match rawOnly kids with
          | none => .error .unsupported
          | some lex => .ok (withReify r ⟨s, p, .lit lex rdfXMLLiteral none⟩, li1, st0)
      | none =>
        match textOnly kids with
        | some [] =>
          -- 7.2.21 emptyPropertyElt
          if i.resource.isNone && i.nodeID.isNone && i.datatype.isNone && i.props.isEmpty then
            .ok (withReify r ⟨s, p, mkLit [] env'.lang⟩, li1, st0)
          else
            match emptyObj rs env' i st0 with
            | .error e => .error e
            | .ok (o, st1) =>
              .ok (withReify r ⟨s, p, o⟩ ++ i.props.map (propAttrTriple rs env' o), li1, st1)
        | some lex =>
          -- 7.2.16 literalPropertyElt
          if i.resource.isSome || i.nodeID.isSome || !i.props.isEmpty then .error .syntax else
          -- a typed literal cannot be a (directional) language-tagged string: it would carry no tag
          -- (RDF 1.1 Concepts §3.3; the decoder reports a syntax error since 9feb174)
          if (i.datatype.map (rs env'.base)) = some rdfLangString ||
             (i.datatype.map (rs env'.base)) = some rdfDirLangString then .error .syntax else
          let o : Term BN :=
            match i.datatype with
            | some d => .lit lex (rs env'.base d) none
            | none => mkLit lex env'.lang
          .ok (withReify r ⟨s, p, o⟩, li1, st0)
        | none =>
          -- 7.2.15 resourcePropertyElt
          if i.resource.isSome || i.nodeID.isSome || i.datatype.isSome || !i.props.isEmpty then
            .error .syntax
          else
            match resKids rs env' kids st0 with
            | .error e => .error e
            | .ok (none, _) => .error .syntax
            | .ok (some (o, ts), st1) => .ok (withReify r ⟨s, p, o⟩ ++ ts, li1, st1)

def resKids (rs : Str → Str → Str) (env : Env) :
    List Node → St → Except Err (Option (Term BN × List T) × St)
  | [], st => .ok (none, st)
  | k :: ks, st =>
    match k with
    | .text t => if t.all isWs then resKids rs env ks st else .error .syntax
    | .raw _ => .error .syntax
    | .elem _ _ _ _ =>
      match nodeElt rs env k st with
      | .error e => .error e
      | .ok (o, ts, st1) =>
        match resKids rs env ks st1 with
        | .error e => .error e
        | .ok (none, st2) => .ok (some (o, ts), st2)
        | .ok (some _, _) => .error .syntax

def collKids (rs : Str → Str → Str) (env : Env) (s : Term BN) (p : Str) :
    List Node → St → Except Err (List T × St)
  | [], st => .ok ([⟨s, p, .iri rdfNil⟩], st)
  | k :: ks, st =>
    match k with
    | .text t => if t.all isWs then collKids rs env s p ks st else .error .syntax
    | .raw _ => .error .syntax
    | .elem _ _ _ _ =>
      let cell : Term BN := .bnode (.gen st.next)
      match nodeElt rs env k { st with next := st.next + 1 } with
      | .error e => .error e
      | .ok (item, its, st1) =>
        match collKids rs env cell rdfRest ks st1 with
        | .error e => .error e
        | .ok (ts, st2) => .ok (⟨s, p, cell⟩ :: ⟨cell, rdfFirst, item⟩ :: its ++ ts, st2)

end

/-- 7.2.10 nodeElementList: ws* (nodeElement ws*)* -/
def nodeList (rs : Str → Str → Str) (env : Env) : List Node → St → Except Err (List T × St)
  | [], st => .ok ([], st)
  | k :: ks, st =>
    match k with
    | .text t => if t.all isWs then nodeList rs env ks st else .error .syntax
    | .raw _ => .error .syntax
    | .elem _ _ _ _ =>
      match nodeElt rs env k st with
      | .error e => .error e
      | .ok (_, ts, st1) =>
        match nodeList rs env ks st1 with
        | .error e => .error e
        | .ok (ts2, st2) => .ok (ts ++ ts2, st2)

/-- 7.2.8 doc / 7.2.9 RDF; a document whose root is not `rdf:RDF` is a single node element -/
def denoteDoc (rs : Str → Str → Str) (env : Env) (root : Node) : Except Err (List T) :=
  match root with
  | .elem ns name attrs kids =>
    if ns = rdfNS ∧ name = n_RDF then
      let i := info attrs
      if i.unsup then .error .unsupported else
      if i.bad || i.id.isSome || i.about.isSome || i.nodeID.isSome || i.resource.isSome ||
          i.datatype.isSome || i.parseType.isSome || !i.props.isEmpty then .error .syntax else
      match nodeList rs (env.push rs i.base i.lang) kids St.init with
      | .error e => .error e
      | .ok (ts, _) => .ok ts
    else
      match nodeElt rs env root St.init with
      | .error e => .error e
      | .ok (_, ts, _) => .ok ts
  | _ => .error .syntax

/-! ## Plans: ways of writing a graph

  A plan is the abstract syntax of an RDF/XML document *together with the terms it is meant to
  denote*: wherever the concrete syntax abbreviates (a relative reference, an `rdf:ID`, an inherited
  language, `rdf:li`, a generated blank node) the plan records both the written form and the intended
  absolute value.  `flat*` reads off the intended triples without looking at any context; `render*`
  produces the tree; `wf*` (executable) checks, following the scoping rules, that every written form
  stands for its intended value and that the tree is grammatical.  The theorem `denote_render`
  (Props/C09.lean) says that for every well-formed plan the denotation of the rendered tree is exactly
  the list of intended triples.
-/

/-- `xml:base` / `xml:lang` attributes written on an element -/
structure Scope where
  base : Option Str := none
  lang : Option Str := none
  deriving Repr, DecidableEq, Inhabited

inductive Subj where
  /-- `rdf:about="ref"`, meant to denote `iri` -/
  | about (iri ref : Str)
  /-- `rdf:ID="name"`, meant to denote `iri` -/
  | id (iri name : Str)
  | nodeID (label : Str)
  /-- no subject attribute; meant to be the generated blank node number `n` -/
  | anon (n : Nat)
  deriving Repr, DecidableEq, Inhabited

inductive PAttr where
  /-- literal property attribute; `lang` is the language the literal is meant to carry -/
  | lit (ns name val : Str) (lang : Option Str)
  /-- `rdf:type="ref"`, meant to denote `iri` -/
  | type (iri ref : Str)
  deriving Repr, DecidableEq, Inhabited

inductive PName where
  | el (ns name : Str)
  /-- `rdf:li`, meant to denote the predicate `p` -/
  | li (p : Str)
  deriving Repr, DecidableEq, Inhabited

/-- `rdf:ID` on a property element: (reification IRI it is meant to denote, attribute value) -/
abbrev PId := Option (Str × Str)

mutual
inductive PNode where
  | mk (sc : Scope) (subj : Subj) (typ : Option (Str × Str)) (pattrs : List PAttr) (props : List PProp)
inductive PProp where
  /-- literalPropertyElt without `rdf:datatype` -/
  | lit (sc : Scope) (nm : PName) (id : PId) (lex : Str) (lang : Option Str)
  /-- literalPropertyElt with `rdf:datatype="ref"` meant to denote `dt` -/
  | typed (sc : Scope) (nm : PName) (id : PId) (lex : Str) (dt ref : Str)
  /-- emptyPropertyElt without attributes: the empty literal -/
  | empty (sc : Scope) (nm : PName) (id : PId) (lang : Option Str)
  /-- emptyPropertyElt with `rdf:resource="ref"` -/
  | res (sc : Scope) (nm : PName) (id : PId) (iri ref : Str) (pattrs : List PAttr)
  /-- emptyPropertyElt with `rdf:nodeID` -/
  | bref (sc : Scope) (nm : PName) (id : PId) (label : Str) (pattrs : List PAttr)
  /-- emptyPropertyElt with property attributes (or `rdf:datatype`) only: generated blank node `n` -/
  | banon (sc : Scope) (nm : PName) (id : PId) (n : Nat) (dt : Option Str) (pattrs : List PAttr)
  /-- resourcePropertyElt -/
  | node (sc : Scope) (nm : PName) (id : PId) (n : PNode)
  | ptRes (sc : Scope) (nm : PName) (id : PId) (n : Nat) (props : List PProp)
  /-- `cells`: the generated blank node numbers of the list cells, one per item -/
  | ptColl (sc : Scope) (nm : PName) (id : PId) (cells : List Nat) (items : List PNode)
  /-- `rdf:parseType="pt"` with `pt` other than Resource / Collection; opaque content -/
  | ptLit (sc : Scope) (nm : PName) (id : PId) (pt : Str) (content : Str)
end

structure PDoc where
  sc : Scope
  nodes : List PNode

/-! ### intended triples -/

def Subj.term : Subj → Term BN
  | .about iri _ => .iri iri
  | .id iri _ => .iri iri
  | .nodeID l => .bnode (.named l)
  | .anon n => .bnode (.gen n)

def PNode.subj : PNode → Term BN
  | .mk _ subj _ _ _ => subj.term

def PAttr.triple (s : Term BN) : PAttr → T
  | .lit ns name val lang => ⟨s, ns ++ name, mkLit val lang⟩
  | .type iri _ => ⟨s, rdfType, .iri iri⟩

def PName.pred : PName → Str
  | .el ns name => ns ++ name
  | .li p => p

def PId.iri (id : PId) : Option Str := id.map (·.1)

def typTriple (s : Term BN) : Option (Str × Str) → List T
  | none => []
  | some (ns, name) => [⟨s, rdfType, .iri (ns ++ name)⟩]

mutual
def flatNode : PNode → List T
  | .mk _ subj typ pattrs props =>
    typTriple subj.term typ ++ pattrs.map (PAttr.triple subj.term) ++ flatProps subj.term props
def flatProps (s : Term BN) : List PProp → List T
  | [] => []
  | p :: ps => flatProp s p ++ flatProps s ps
def flatProp (s : Term BN) : PProp → List T
  | .lit _ nm id lex lang => withReify (PId.iri id) ⟨s, nm.pred, mkLit lex lang⟩
  | .typed _ nm id lex dt _ => withReify (PId.iri id) ⟨s, nm.pred, .lit lex dt none⟩
  | .empty _ nm id lang => withReify (PId.iri id) ⟨s, nm.pred, mkLit [] lang⟩
  | .res _ nm id iri _ pattrs =>
    withReify (PId.iri id) ⟨s, nm.pred, .iri iri⟩ ++ pattrs.map (PAttr.triple (.iri iri))
  | .bref _ nm id l pattrs =>
    withReify (PId.iri id) ⟨s, nm.pred, .bnode (.named l)⟩ ++ pattrs.map (PAttr.triple (.bnode (.named l)))
  | .banon _ nm id n _ pattrs =>
    withReify (PId.iri id) ⟨s, nm.pred, .bnode (.gen n)⟩ ++ pattrs.map (PAttr.triple (.bnode (.gen n)))
  | .node _ nm id n => withReify (PId.iri id) ⟨s, nm.pred, n.subj⟩ ++ flatNode n
  | .ptRes _ nm id n props =>
    withReify (PId.iri id) ⟨s, nm.pred, .bnode (.gen n)⟩ ++ flatProps (.bnode (.gen n)) props
  | .ptColl _ nm id cells items => reifyHead (PId.iri id) (flatColl s nm.pred cells items)
  | .ptLit _ nm id _ content => withReify (PId.iri id) ⟨s, nm.pred, .lit content rdfXMLLiteral none⟩
def flatColl (s : Term BN) (p : Str) : List Nat → List PNode → List T
  | _, [] => [⟨s, p, .iri rdfNil⟩]
  | [], _ :: _ => []
  | c :: cs, n :: ns =>
    ⟨s, p, .bnode (.gen c)⟩ :: ⟨.bnode (.gen c), rdfFirst, n.subj⟩ :: flatNode n ++
      flatColl (.bnode (.gen c)) rdfRest cs ns
end

def flatNodes : List PNode → List T
  | [] => []
  | n :: ns => flatNode n ++ flatNodes ns

def flatDoc (d : PDoc) : List T := flatNodes d.nodes

/-! ### rendering -/

def optAttr (ns name : Str) : Option Str → List Attr
  | none => []
  | some v => [⟨ns, name, v⟩]

/-- attributes in a fixed order (the text layer may permute them) -/
def stdAttrs (i : AttrInfo) : List Attr :=
  optAttr xmlNS n_base i.base ++ optAttr xmlNS n_lang i.lang ++ optAttr rdfNS n_ID i.id ++
  optAttr rdfNS n_about i.about ++ optAttr rdfNS n_nodeID i.nodeID ++ optAttr rdfNS n_resource i.resource ++
  optAttr rdfNS n_datatype i.datatype ++ optAttr rdfNS n_parseType i.parseType ++ i.props

def PAttr.render : PAttr → Attr
  | .lit ns name val _ => ⟨ns, name, val⟩
  | .type _ ref => ⟨rdfNS, n_type, ref⟩

def PName.ns : PName → Str
  | .el ns _ => ns
  | .li _ => rdfNS
def PName.name : PName → Str
  | .el _ name => name
  | .li _ => n_li

def PId.val (id : PId) : Option Str := id.map (·.2)

def Subj.info (sc : Scope) (props : List Attr) : Subj → AttrInfo
  | .about _ ref => { base := sc.base, lang := sc.lang, about := some ref, props := props }
  | .id _ name => { base := sc.base, lang := sc.lang, id := some name, props := props }
  | .nodeID l => { base := sc.base, lang := sc.lang, nodeID := some l, props := props }
  | .anon _ => { base := sc.base, lang := sc.lang, props := props }

/-- element name of a node element: the type, or `rdf:Description` -/
def typNs : Option (Str × Str) → Str
  | some (ns, _) => ns
  | none => rdfNS
def typName : Option (Str × Str) → Str
  | some (_, name) => name
  | none => n_Description

mutual
def renderNode : PNode → Node
  | .mk sc subj typ pattrs props =>
    .elem (typNs typ) (typName typ)
      (stdAttrs (subj.info sc (pattrs.map PAttr.render))) (renderProps props)
def renderProps : List PProp → List Node
  | [] => []
  | p :: ps => renderProp p :: renderProps ps
def renderProp : PProp → Node
  | .lit sc nm id lex _ =>
    .elem nm.ns nm.name (stdAttrs { base := sc.base, lang := sc.lang, id := PId.val id }) [.text lex]
  | .typed sc nm id lex _ ref =>
    .elem nm.ns nm.name (stdAttrs { base := sc.base, lang := sc.lang, id := PId.val id, datatype := some ref })
      [.text lex]
  | .empty sc nm id _ =>
    .elem nm.ns nm.name (stdAttrs { base := sc.base, lang := sc.lang, id := PId.val id }) []
  | .res sc nm id _ ref pattrs =>
    .elem nm.ns nm.name (stdAttrs { base := sc.base, lang := sc.lang, id := PId.val id, resource := some ref,
                                    props := pattrs.map PAttr.render }) []
  | .bref sc nm id l pattrs =>
    .elem nm.ns nm.name (stdAttrs { base := sc.base, lang := sc.lang, id := PId.val id, nodeID := some l,
                                    props := pattrs.map PAttr.render }) []
  | .banon sc nm id _ dt pattrs =>
    .elem nm.ns nm.name (stdAttrs { base := sc.base, lang := sc.lang, id := PId.val id, datatype := dt,
                                    props := pattrs.map PAttr.render }) []
  | .node sc nm id n =>
    .elem nm.ns nm.name (stdAttrs { base := sc.base, lang := sc.lang, id := PId.val id }) [renderNode n]
  | .ptRes sc nm id _ props =>
    .elem nm.ns nm.name (stdAttrs { base := sc.base, lang := sc.lang, id := PId.val id, parseType := some n_Resource })
      (renderProps props)
  | .ptColl sc nm id _ items =>
    .elem nm.ns nm.name (stdAttrs { base := sc.base, lang := sc.lang, id := PId.val id, parseType := some n_Collection })
      (renderNodes items)
  | .ptLit sc nm id pt content =>
    .elem nm.ns nm.name (stdAttrs { base := sc.base, lang := sc.lang, id := PId.val id, parseType := some pt })
      [.raw content]
def renderNodes : List PNode → List Node
  | [] => []
  | n :: ns => renderNode n :: renderNodes ns
end

def renderDoc (d : PDoc) : Node :=
  .elem rdfNS n_RDF (stdAttrs { base := d.sc.base, lang := d.sc.lang }) (renderNodes d.nodes)

/-! ### well-formedness of a plan (executable)

  `wf*` follow the scoping rules (base, language, `rdf:li` counter, generated blank node counter,
  used `rdf:ID`s) and return the state after the construct, or `none` when the plan is rejected.
  Besides agreement of written forms with intended values they require what makes the rendered tree
  an XML element tree that can be serialised: local names are NCNames, namespaces are non-empty,
  attribute names are pairwise distinct.  Nothing in `denote_render` depends on `wf*` being *complete*;
  a plan that `wf*` rejects is simply not covered.
-/

def attrKey (a : Attr) : Str × Str := (a.ns, a.name)

def wfPAttr (rs : Str → Str → Str) (env : Env) : PAttr → Bool
  | .lit ns name val lang =>
    isPropAttr ⟨ns, name, val⟩ && !(ns = rdfNS && name = n_type) && isNCName name && lang = env.lang
  | .type iri ref => rs env.base ref = iri

def wfPAttrs (rs : Str → Str → Str) (env : Env) (pattrs : List PAttr) : Bool :=
  pattrs.all (wfPAttr rs env) && ((pattrs.map PAttr.render).map attrKey).Nodup

def wfName (li : Nat) : PName → Bool
  | .el ns name => ns ≠ [] && isNCName name && !(ns = rdfNS && (badPropName name || name = n_li))
  | .li p => p = rdfMember (li + 1)

def PName.nextLi (li : Nat) : PName → Nat
  | .el _ _ => li
  | .li _ => li + 1

/-- `rdf:ID` on a property element: written value stands for the intended IRI, NCName, unused -/
def wfId (rs : Str → Str → Str) (env : Env) (id : PId) (st : St) : Option St :=
  match id with
  | none => some st
  | some (iri, v) =>
    if isNCName v && !st.used.contains (env.base, v) && rs env.base (cHash :: v) = iri then
      some { st with used := (env.base, v) :: st.used }
    else none

def wfSubj (rs : Str → Str → Str) (env : Env) (st : St) : Subj → Option St
  | .about iri ref => if rs env.base ref = iri then some st else none
  | .id iri v => wfId rs env (some (iri, v)) st
  | .nodeID l => if isNCName l then some st else none
  | .anon n => if n = st.next then some { st with next := st.next + 1 } else none

def wfTyp : Option (Str × Str) → Bool
  | none => true
  | some (ns, name) =>
    ns ≠ [] && isNCName name && !(ns = rdfNS && (badNodeName name || name = n_Description))

mutual
def wfNode (rs : Str → Str → Str) (env : Env) (st : St) : PNode → Option St
  | .mk sc subj typ pattrs props =>
    let env' := env.push rs sc.base sc.lang
    if wfTyp typ && wfPAttrs rs env' pattrs then
      match wfSubj rs env' st subj with
      | none => none
      | some st1 => wfProps rs env' 0 st1 props
    else none
def wfProps (rs : Str → Str → Str) (env : Env) (li : Nat) (st : St) : List PProp → Option St
  | [] => some st
  | p :: ps =>
    match wfProp rs env li st p with
    | none => none
    | some (li1, st1) => wfProps rs env li1 st1 ps
def wfProp (rs : Str → Str → Str) (env : Env) (li : Nat) (st : St) : PProp → Option (Nat × St)
  | .lit sc nm id lex lang =>
    let env' := env.push rs sc.base sc.lang
    if wfName li nm && lex ≠ [] && lang = env'.lang then
      (wfId rs env' id st).map (nm.nextLi li, ·)
    else none
  | .typed sc nm id lex dt ref =>
    let env' := env.push rs sc.base sc.lang
    if wfName li nm && lex ≠ [] && rs env'.base ref = dt && dt ≠ rdfLangString && dt ≠ rdfDirLangString then
      (wfId rs env' id st).map (nm.nextLi li, ·)
    else none
  | .empty sc nm id lang =>
    let env' := env.push rs sc.base sc.lang
    if wfName li nm && lang = env'.lang then (wfId rs env' id st).map (nm.nextLi li, ·) else none
  | .res sc nm id iri ref pattrs =>
    let env' := env.push rs sc.base sc.lang
    if wfName li nm && rs env'.base ref = iri && wfPAttrs rs env' pattrs then
      (wfId rs env' id st).map (nm.nextLi li, ·)
    else none
  | .bref sc nm id l pattrs =>
    let env' := env.push rs sc.base sc.lang
    if wfName li nm && isNCName l && wfPAttrs rs env' pattrs then
      (wfId rs env' id st).map (nm.nextLi li, ·)
    else none
  | .banon sc nm id n dt pattrs =>
    let env' := env.push rs sc.base sc.lang
    if wfName li nm && (dt.isSome || !pattrs.isEmpty) && wfPAttrs rs env' pattrs then
      match wfId rs env' id st with
      | none => none
      | some st0 => if n = st0.next then some (nm.nextLi li, { st0 with next := st0.next + 1 }) else none
    else none
  | .node sc nm id n =>
    let env' := env.push rs sc.base sc.lang
    if wfName li nm then
      match wfId rs env' id st with
      | none => none
      | some st0 => (wfNode rs env' st0 n).map (nm.nextLi li, ·)
    else none
  | .ptRes sc nm id n props =>
    let env' := env.push rs sc.base sc.lang
    if wfName li nm then
      match wfId rs env' id st with
      | none => none
      | some st0 =>
        if n = st0.next then
          (wfProps rs env' 0 { st0 with next := st0.next + 1 } props).map (nm.nextLi li, ·)
        else none
    else none
  | .ptColl sc nm id cells items =>
    let env' := env.push rs sc.base sc.lang
    if wfName li nm then
      match wfId rs env' id st with
      | none => none
      | some st0 => (wfColl rs env' st0 cells items).map (nm.nextLi li, ·)
    else none
  | .ptLit sc nm id pt _ =>
    let env' := env.push rs sc.base sc.lang
    if wfName li nm && pt ≠ n_Resource && pt ≠ n_Collection then
      (wfId rs env' id st).map (nm.nextLi li, ·)
    else none
def wfColl (rs : Str → Str → Str) (env : Env) (st : St) : List Nat → List PNode → Option St
  | [], [] => some st
  | c :: cs, n :: ns =>
    if c = st.next then
      match wfNode rs env { st with next := st.next + 1 } n with
      | none => none
      | some st1 => wfColl rs env st1 cs ns
    else none
  | _ :: _, [] => none
  | [], _ :: _ => none
end

def wfNodes (rs : Str → Str → Str) (env : Env) (st : St) : List PNode → Option St
  | [] => some st
  | n :: ns =>
    match wfNode rs env st n with
    | none => none
    | some st1 => wfNodes rs env st1 ns

def wfDoc (rs : Str → Str → Str) (env : Env) (d : PDoc) : Bool :=
  (wfNodes rs (env.push rs d.sc.base d.sc.lang) St.init d.nodes).isSome

/-! ## The writer

  A *choice* is a plan together with the correspondence between the blank nodes of the graph and the
  blank nodes of the plan.  `write` validates the choice (the plan is well-formed and its intended
  triples are the graph's, as a multiset) and renders it; an invalid choice falls back to the flat
  plan: one `rdf:Description` per triple, `rdf:about` / `rdf:nodeID` subjects, `rdf:resource` /
  `rdf:nodeID` / text objects, no abbreviation.
-/

/-- the first split of `p` into namespace + NCName local part (shortest namespace) -/
def splitAt (p : Str) : Nat → Nat → Option (Str × Str)
  | 0, _ => none
  | fuel + 1, i =>
    if isNCName (p.drop i) && i ≠ 0 then some (p.take i, p.drop i) else splitAt p fuel (i + 1)

def splitIri (p : Str) : Option (Str × Str) := splitAt p (p.length + 1) 0

/-- a predicate can be written as an element name: it splits, and the element name is not reserved -/
def predOK (p : Str) : Bool :=
  match splitIri p with
  | some (ns, name) => wfName 0 (.el ns name)
  | none => false

def predName (p : Str) : PName :=
  match splitIri p with
  | some (ns, name) => .el ns name
  | none => .el [] []

variable {β : Type}

def flatSubj (label : β → Str) : Term β → Subj
  | .iri i => .about i i
  | .bnode b => .nodeID (label b)
  | .lit _ _ _ => .about [] []

def flatProp1 (label : β → Str) (p : Str) : Term β → PProp
  | .iri i => .res {} (predName p) none i i []
  | .bnode b => .bref {} (predName p) none (label b) []
  | .lit lex _dt (some l) =>
    if lex = [] then .empty { lang := some l } (predName p) none (some l)
    else .lit { lang := some l } (predName p) none lex (some l)
  | .lit lex dt none =>
    if dt = xsdString then
      if lex = [] then .empty {} (predName p) none none else .lit {} (predName p) none lex none
    else .typed {} (predName p) none lex dt dt

def flatPlanNode (label : β → Str) (t : Triple β) : PNode :=
  .mk {} (flatSubj label t.s) none [] [flatProp1 label t.p t.o]

def flatPlan (label : β → Str) (g : List (Triple β)) : PDoc :=
  { sc := {}, nodes := g.map (flatPlanNode label) }

structure Choices (β : Type) where
  plan : PDoc
  rename : β → BN

def write (rs : Str → Str → Str) (base : Str) (label : β → Str) (g : List (Triple β)) (ch : Choices β) : Node :=
  if wfDoc rs ⟨base, none⟩ ch.plan && (flatDoc ch.plan).isPerm (g.map (Triple.map ch.rename)) then
    renderDoc ch.plan
  else renderDoc (flatPlan label g)

end RdfModel.RX
