/-
  Proofs.C16Erase — the instrumented decoder (`NQO`) refines the base decoder (`NQ`): forgetting the
  bookkeeping (sizes, buffer offset, writer history, ranges, error offsets) of any `NQO` scanner
  gives exactly the result of the corresponding `NQ` scanner on the code points. Holds for every
  state `s` (capture on or off, any history) and both values of `legacy`.
-/
import RdfModel.Proofs.C16TW
namespace RdfModel.Proofs.C16
open RdfModel RdfModel.NQ RdfModel.TW RdfModel.NQO

@[simp] theorem erase_ok {α β : Type} (f : α → β) (v : α) (s : S) (rest : List RP) :
    (RO.ok v s rest).erase f = R.ok (f v) (runes rest) := rfl
@[simp] theorem erase_err {α β : Type} (f : α → β) (e : EClass) (o : EOff) :
    (RO.err e o : RO α).erase f = R.err e := rfl

theorem scanIRI_erase (T : Tables) (e : End) (st : SState) (s : S) (inp : List RP) (acc : List Nat)
    (unc : Chunk) :
    (NQO.scanIRI T e st s inp acc unc).erase Prod.fst = NQ.scanIRI T e st (runes inp) acc := by
  fun_induction NQO.scanIRI T e st s inp acc unc <;> simp_all [NQ.scanIRI] <;> (intros; omega)

theorem captureIRI_erase (T : Tables) (urlOk : List Nat → Bool) (e : End) (s : S) (op : RP)
    (inp : List RP) :
    (NQO.captureIRI T urlOk e s op inp).erase Prod.fst = NQ.captureIRI T urlOk e (runes inp) := by
  have h := scanIRI_erase T e .body s inp [] [op]
  unfold NQO.captureIRI NQ.captureIRI
  cases hs : NQO.scanIRI T e .body s inp [] [op] with
  | err c o => simp [hs] at h; simp [← h]
  | ok v s1 rest =>
    simp [hs] at h
    simp only [← h]
    split <;> simp_all

theorem scanLit_erase (T : Tables) (e : End) (st : SState) (s : S) (inp : List RP) (acc : List Nat)
    (unc : Chunk) :
    (NQO.scanLit T e st s inp acc unc).erase Prod.fst = NQ.scanLit T e st (runes inp) acc := by
  fun_induction NQO.scanLit T e st s inp acc unc <;> simp_all [NQ.scanLit] <;> (intros; omega)

theorem langSecondary_erase (e : End) (a0 : RP) (s : S) (inp : List RP) (tagRev : Chunk) :
    (NQO.langSecondary e a0 s inp tagRev).erase Prod.fst = NQ.langSecondary e (runes inp) (runes tagRev) := by
  fun_induction NQO.langSecondary e a0 s inp tagRev <;>
    simp_all [NQ.langSecondary, NQO.langFinish]

theorem langPrimary_erase (e : End) (a0 : RP) (s : S) (inp : List RP) (tagRev : Chunk) :
    (NQO.langPrimary e a0 s inp tagRev).erase Prod.fst = NQ.langPrimary e (runes inp) (runes tagRev) := by
  fun_induction NQO.langPrimary e a0 s inp tagRev <;>
    simp_all [NQ.langPrimary, NQO.langFinish, langSecondary_erase]

theorem captureLiteral_erase (T : Tables) (urlOk : List Nat → Bool) (e : End) (legacy : Bool) (s : S)
    (q : RP) (inp : List RP) :
    (NQO.captureLiteral T urlOk e legacy s q inp).erase Prod.fst
      = NQ.captureLiteral T urlOk e (runes inp) := by
  have h := scanLit_erase T e .body s inp [] [q]
  unfold NQO.captureLiteral NQ.captureLiteral
  cases hs : NQO.scanLit T e .body s inp [] [q] with
  | err c o => simp [hs] at h; simp [← h]
  | ok v s1 rest =>
    simp [hs] at h
    simp only [← h]
    cases rest with
    | nil => cases e <;> simp
    | cons r0 rest0 =>
      simp only [runes_cons]
      split
      · have hl := langPrimary_erase e r0 ((s1.commit v.2).read r0) rest0 []
        cases hp : NQO.langPrimary e r0 ((s1.commit v.2).read r0) rest0 [] <;>
          simp [hp] at hl <;> simp [← hl]
      · split
        · cases rest0 with
          | nil => simp
          | cons r1 rest1 =>
            simp only [runes_cons]
            split
            · simp
            · cases rest1 with
              | nil => simp
              | cons r2 rest2 =>
                simp only [runes_cons]
                split
                · simp
                · have hi := captureIRI_erase T urlOk e
                    ((((s1.commit v.2).read r0).read r1).commit [r0, r1] |>.read r2) r2 rest2
                  cases hc : NQO.captureIRI T urlOk e
                    ((((s1.commit v.2).read r0).read r1).commit [r0, r1] |>.read r2) r2 rest2 <;>
                    simp [hc] at hi <;> simp [← hi]
                  split <;> simp
        · simp

theorem bnFinish_erase (T : Tables) (s : S) (p labRev : Chunk) (rest : List RP) :
    (NQO.bnFinish T s p labRev rest).erase Prod.fst = NQ.bnFinish T (runes labRev) (runes rest) := by
  unfold NQO.bnFinish NQ.bnFinish
  simp only [runes, List.length_map]
  split
  · cases labRev with
    | nil => simp
    | cons l more =>
      simp only [List.map_cons]
      split
      · cases more with
        | nil => simp
        | cons l' more' =>
          simp only [List.map_cons]
          split <;> simp_all [runes]
      · split <;> simp [runes]
  · simp [runes]

theorem bnLoop_erase (T : Tables) (e : End) (p : Chunk) (s : S) (inp : List RP) (labRev : Chunk) :
    (NQO.bnLoop T e p s inp labRev).erase Prod.fst = NQ.bnLoop T e (runes inp) (runes labRev) := by
  fun_induction NQO.bnLoop T e p s inp labRev <;> simp_all [NQ.bnLoop, bnFinish_erase]

theorem captureBNode_erase (T : Tables) (e : End) (s : S) (p : Chunk) (inp : List RP) :
    (NQO.captureBNode T e s p inp).erase Prod.fst = NQ.captureBNode T e (runes inp) := by
  cases inp with
  | nil => simp [NQO.captureBNode, NQ.captureBNode]
  | cons r rest =>
    simp only [NQO.captureBNode, NQ.captureBNode, runes_cons]
    split
    · simpa using bnLoop_erase T e p (s.read r) rest [r]
    · simp

theorem captureTerm_erase (T : Tables) (urlOk : List Nat → Bool) (e : End) (legacy : Bool) (pos : Pos)
    (cm : Option Chunk) (s : S) (inp : List RP) :
    (NQO.captureTerm T urlOk e legacy pos cm s inp).erase Prod.fst
      = NQ.captureTerm T urlOk e pos cm.isSome (runes inp) := by
  fun_induction NQO.captureTerm T urlOk e legacy pos cm s inp
  all_goals (try (simp [NQ.captureTerm, captureLiteral_erase, *]; done))
  case case3 =>
    rename_i cm s r rest h ih
    simpa [NQ.captureTerm, h] using ih
  case case5 =>
    rename_i s r rest h t s3 r' x
    have hh := captureIRI_erase T urlOk e (s.read r) r rest
    rw [x] at hh
    simp at hh
    simp [NQ.captureTerm, h, ← hh]
  case case6 =>
    rename_i s r rest h c o x
    have hh := captureIRI_erase T urlOk e (s.read r) r rest
    rw [x] at hh
    simp at hh
    simp [NQ.captureTerm, h, ← hh]
  case case9 =>
    rename_i s r h1 h2 r2 rest2 h3 t s3 r' x
    have hh := captureBNode_erase T e ((s.read r).read r2) [r, r2] rest2
    rw [x] at hh
    simp at hh h3
    simp [NQ.captureTerm, h1, h2, h3, ← hh]
  case case10 =>
    rename_i s r h1 h2 r2 rest2 h3 c o x
    have hh := captureBNode_erase T e ((s.read r).read r2) [r, r2] rest2
    rw [x] at hh
    simp at hh h3
    simp [NQ.captureTerm, h1, h2, h3, ← hh]
theorem afterObject_erase (T : Tables) (e : End) (cm : Option Chunk) (s : S) (inp : List RP) :
    (NQO.afterObject T e cm s inp).erase id = NQ.afterObject T e cm.isSome (runes inp) := by
  fun_induction NQO.afterObject T e cm s inp <;> simp_all [NQ.afterObject]

theorem expectDot_erase (T : Tables) (e : End) (cm : Option Chunk) (s : S) (inp : List RP) :
    (NQO.expectDot T e cm s inp).erase id = NQ.expectDot T e cm.isSome (runes inp) := by
  fun_induction NQO.expectDot T e cm s inp <;> simp_all [NQ.expectDot]

def eraseEol : NQO.EolRes → NQ.EolRes
  | .start _ rest => .start (runes rest)
  | .done _ => .done
  | .fail e _ => .fail e

theorem toEOL_erase (T : Tables) (e : End) (cm : Option Chunk) (s : S) (inp : List RP) :
    eraseEol (NQO.toEOL T e cm s inp) = NQ.toEOL T e cm.isSome (runes inp) := by
  fun_induction NQO.toEOL T e cm s inp <;> simp_all [NQ.toEOL, eraseEol] <;> (cases e <;> rfl)

def eraseSkip : NQO.SkipRes → Option (List Nat)
  | .stmt _ rest => some (runes rest)
  | .ended _ => none

theorem skipToStmt_erase (T : Tables) (e : End) (cm : Option Chunk) (s : S) (inp : List RP) :
    eraseSkip (NQO.skipToStmt T e cm s inp) = NQ.skipToStmt T cm.isSome (runes inp) := by
  fun_induction NQO.skipToStmt T e cm s inp <;> simp_all [NQ.skipToStmt, eraseSkip]

def eraseStep : NQO.Step → NQ.Step
  | .quad q _ _ rest => .quad q (runes rest)
  | .done _ => .done
  | .fail e _ => .fail e

theorem statement_erase (T : Tables) (urlOk : List Nat → Bool) (e : End) (legacy quads : Bool) (s : S)
    (inp : List RP) :
    eraseStep (NQO.statement T urlOk e legacy quads s inp) = NQ.statement T urlOk e quads (runes inp) := by
  unfold NQO.statement NQ.statement
  have h0 := skipToStmt_erase T e none s inp
  cases hs : NQO.skipToStmt T e none s inp with
  | ended s' =>
    simp [hs, eraseSkip] at h0; simp only [← h0]; cases e <;> simp [eraseStep]
  | stmt s0 inp' =>
    simp [hs, eraseSkip] at h0; simp only [← h0]
    have h1 := captureTerm_erase T urlOk e legacy posSubject none s0 inp'
    cases hc1 : NQO.captureTerm T urlOk e legacy posSubject none s0 inp' with
    | err x o => simp [hc1] at h1; simp [← h1, eraseStep]
    | ok sv s1 r1 =>
      simp [hc1] at h1; simp only [← h1]
      have h2 := captureTerm_erase T urlOk e legacy posPredicate none s1 r1
      cases hc2 : NQO.captureTerm T urlOk e legacy posPredicate none s1 r1 with
      | err x o => simp [hc2] at h2; simp [← h2, eraseStep]
      | ok pv s2 r2 =>
        simp [hc2] at h2; simp only [← h2]
        have h3 := captureTerm_erase T urlOk e legacy posObject none s2 r2
        cases hc3 : NQO.captureTerm T urlOk e legacy posObject none s2 r2 with
        | err x o => simp [hc3] at h3; simp [← h3, eraseStep]
        | ok ov s3 r3 =>
          simp [hc3] at h3; simp only [← h3]
          cases quads with
          | false =>
            simp only [Bool.false_eq_true, if_false]
            have h4 := expectDot_erase T e none s3 r3
            cases hc4 : NQO.expectDot T e none s3 r3 with
            | err x o => simp [hc4] at h4; simp [← h4, eraseStep]
            | ok u s4 r4 => simp [hc4] at h4; simp [← h4, eraseStep]
          | true =>
            simp only [if_true]
            have h4 := afterObject_erase T e none s3 r3
            cases hc4 : NQO.afterObject T e none s3 r3 with
            | err x o => simp [hc4] at h4; simp [← h4, eraseStep]
            | ok g s4 r4 =>
              simp [hc4] at h4; simp only [← h4]
              cases g with
              | none => simp [eraseStep]
              | some gx =>
                simp only
                have h5 := captureTerm_erase T urlOk e legacy posSubject none s4 r4
                cases hc5 : NQO.captureTerm T urlOk e legacy posSubject none s4 r4 with
                | err x o => simp [hc5] at h5; simp [← h5, eraseStep]
                | ok gv s5 r5 =>
                  simp [hc5] at h5; simp only [← h5]
                  have h6 := expectDot_erase T e none s5 r5
                  cases hc6 : NQO.expectDot T e none s5 r5 with
                  | err x o => simp [hc6] at h6; simp [← h6, eraseStep]
                  | ok u s6 r6 => simp [hc6] at h6; simp [← h6, eraseStep]

theorem next_erase (T : Tables) (urlOk : List Nat → Bool) (e : End) (legacy quads started : Bool)
    (s : S) (inp : List RP) :
    eraseStep (NQO.next T urlOk e legacy quads started s inp)
      = NQ.next T urlOk e quads started (runes inp) := by
  unfold NQO.next NQ.next
  cases started with
  | false => simpa using statement_erase T urlOk e legacy quads s inp
  | true =>
    simp only [if_true]
    have h := toEOL_erase T e none s inp
    cases ht : NQO.toEOL T e none s inp with
    | done s' => simp [ht, eraseEol] at h; simp [← h, eraseStep]
    | fail x o => simp [ht, eraseEol] at h; simp [← h, eraseStep]
    | start s' rest =>
      simp [ht, eraseEol] at h; simp only [← h]
      exact statement_erase T urlOk e legacy quads s' rest

theorem runFuel_erase (T : Tables) (urlOk : List Nat → Bool) (e : End) (legacy quads : Bool)
    (fuel : Nat) (started : Bool) (s : S) (inp : List RP) :
    ((NQO.runFuel T urlOk e legacy quads fuel started s inp).stmts.map Prod.fst,
      (NQO.runFuel T urlOk e legacy quads fuel started s inp).verdict)
      = NQ.runFuel T urlOk e quads fuel started (runes inp) := by
  induction fuel generalizing started s inp with
  | zero => simp [NQO.runFuel, NQ.runFuel]
  | succ fuel ih =>
    have h := next_erase T urlOk e legacy quads started s inp
    simp only [NQO.runFuel, NQ.runFuel]
    cases hn : NQO.next T urlOk e legacy quads started s inp with
    | done s' => simp [hn, eraseStep] at h; simp [← h]
    | fail x o => simp [hn, eraseStep] at h; simp [← h]
    | quad q rg s' rest =>
      simp [hn, eraseStep] at h; simp only [← h]
      have := ih true s' rest
      simp only [List.map_cons]
      rw [← this]

end RdfModel.Proofs.C16
