/-
  Audit for C11: axioms used by every theorem of Props/C11.lean
  (expected: a subset of {propext, Classical.choice, Quot.sound}).
-/
import RdfModel.Props.C11
open RdfModel

#print axioms RdfModel.C11.combined_is_union
#print axioms RdfModel.C11.combined_is_union_clean
#print axioms RdfModel.C11.combined_init_failure
#print axioms RdfModel.C11.combined_document
#print axioms RdfModel.C11.no_cross_syntax_identification
#print axioms RdfModel.C11.rdfa_roundtrip
#print axioms RdfModel.C11.rdfa_canonical_block
#print axioms RdfModel.C11.rdfa_hanging_anonymous
#print axioms RdfModel.C11.rdfa_chaining
#print axioms RdfModel.C11.rdfa_inherited_subject
#print axioms RdfModel.C11.rdfa_typed_bnode_object
#print axioms RdfModel.C11.rdfa_rev_property_literal
#print axioms RdfModel.C11.rdfa_inlist_collection
#print axioms RdfModel.C11.microdata_roundtrip_validated
#print axioms RdfModel.C11.microdata_roundtrip_partial
#print axioms RdfModel.C11.jsonld_script_extracted
