/-
  Model of the Next/Err wrapper every decoder of the repository is built around:

      func (d *Decoder) Next() bool {
          if d.err != nil { return false }          -- the guard ("latch")
          … one step of the decoder proper …        -- may yield, end, or fail
          if err != nil { d.err = err; return false }
          return <a statement is available>
      }
      func (d *Decoder) Err() error { return d.err }

  The decoder proper is abstract (`step`); what T2 extracts per decoder (`DecoderFacts`) decides the
  two flags of the wrapper (`Facts`): whether the guard dominates every other effect of Next, and
  whether every false-return that follows an inner error has stored it. The model is executable
  (the driver runs it on scripted inner steps, op `latch.run`) and the theorems of
  `Props/C05Latch.lean` are about this definition.
-/
namespace RdfModel.Latch

/-- what one run of the decoder proper reports: result of Next, error raised (if any), next inner state -/
structure StepResult (σ ε : Type) where
  yielded : Bool
  raised : Option ε
  inner : σ

structure Facts where
  guardFirst : Bool
  storesErr : Bool
  deriving DecidableEq, Repr

structure State (σ ε : Type) where
  err : Option ε
  inner : σ

/-- `Next()`: returns the result and the new state. -/
def next {σ ε : Type} (f : Facts) (step : σ → StepResult σ ε) (s : State σ ε) : Bool × State σ ε :=
  if f.guardFirst && s.err.isSome then (false, s)
  else
    let r := step s.inner
    let err' := match r.raised with
      | some e => if f.storesErr then some e else s.err
      | none => s.err
    (r.yielded, { err := err', inner := r.inner })

/-- `Err()` -/
def err {σ ε : Type} (s : State σ ε) : Option ε := s.err

/-- the state after `n` further calls of Next -/
def iter {σ ε : Type} (f : Facts) (step : σ → StepResult σ ε) : Nat → State σ ε → State σ ε
  | 0, s => s
  | n + 1, s => iter f step n (next f step s).2

/-- the results of `n` successive calls of Next, with Err()≠nil after each -/
def trace {σ ε : Type} (f : Facts) (step : σ → StepResult σ ε) : Nat → State σ ε → List (Bool × Bool)
  | 0, _ => []
  | n + 1, s =>
    let r := next f step s
    (r.1, r.2.err.isSome) :: trace f step n r.2

/-! ### what T2 extracts (Gen.LatchFacts) -/

inductive GuardKind where
  | first        -- the guard is the first statement of Next
  | loopFirst    -- Next is `prelude; for { guard; … }` and the guard is the first statement of the loop
  | afterPrelude -- some other statement of Next runs before the guard
  | delegate     -- Next is `return inner.Next()`
  | none
  deriving DecidableEq, Repr

inductive RetClass where
  | guard   -- the guard's own `return false`
  | stored  -- `d.err = …` immediately before `return false`
  | bare    -- any other `return false`
  deriving DecidableEq, Repr

inductive ErrKind where
  | errField | errDelegate | errUnknown
  deriving DecidableEq, Repr

structure DecoderFacts where
  decoder : String
  guard : GuardKind
  preludeCalls : Nat
  returns : List RetClass
  otherReturns : Nat
  errKind : ErrKind
  deriving Repr

/-- `return false` statements that neither are the guard nor follow a store: (decoder, index in the
    extracted `returns` list, why this is a clean end and not a swallowed error). Hand-written review. -/
def reviewedCleanEnds : List (String × Nat × String) := [
  ("encoding/turtle.Decoder", 1, "state stack empty: end of document; errors of scan are stored by `rsNext, r.err = r.scan(…)` at the end of the loop body and caught by the guard at the top of the next iteration"),
  ("encoding/trig.Decoder", 1, "same as turtle"),
  ("encoding/htmljsonld.Decoder", 2, "all embedded readers consumed: end of document"),
  ("encoding/html/htmldefaults.Decoder", 1, "no nested iterator left: end of document")
]

def returnsOK (d : DecoderFacts) : Bool :=
  (d.returns.zipIdx).all fun (r, i) =>
    r == .guard || r == .stored || (r == .bare && (reviewedCleanEnds.map fun e => (e.1, e.2.1)).contains (d.decoder, i))

/-- the flags of the wrapper model a decoder's extracted facts justify -/
def factsOf (d : DecoderFacts) : Facts :=
  { guardFirst := (d.guard == .first || d.guard == .loopFirst) && d.preludeCalls == 0
    storesErr := returnsOK d }

/-! ### the buffered instance: decoders that parse everything on the first call

  inner state = (index, number of buffered statements); the decoder proper increments the index
  and reports whether it is still inside the buffer. -/

structure Buffered where
  idx : Nat
  len : Nat
  deriving DecidableEq, Repr

def bufferedStep (ε : Type) (b : Buffered) : StepResult Buffered ε :=
  { yielded := decide (b.idx < b.len), raised := none, inner := { b with idx := b.idx + 1 } }

/-! ### scripted inner steps (driver op `latch.run`) -/

/-- a script is the list of (yielded, raised) the decoder proper will report; when it is exhausted
    the decoder proper reports a quiet end forever -/
def scriptStep (sc : List (Bool × Bool)) : StepResult (List (Bool × Bool)) Unit :=
  match sc with
  | [] => { yielded := false, raised := none, inner := [] }
  | (y, r) :: rest => { yielded := y, raised := if r then some () else none, inner := rest }

end RdfModel.Latch
