/-
  Line-protocol handler for Spec.RdfXmlFragment (component `rx`).

  Structured arguments are S-expressions spread over the argument tokens: `(` and `)` are tokens of
  their own, atoms are `x<hex of UTF-8>` strings, `n<decimal>` numbers, `-` (absent) and bare words
  (constructor tags).

    scope  := ( <optstr> <optstr> )                          xml:base, xml:lang
    subj   := ( about xIRI xREF ) | ( id xIRI xNAME ) | ( nodeID xL ) | ( anon nN )
    typ    := - | ( xNS xNAME )
    pattr  := ( lit xNS xNAME xVAL <optstr> ) | ( type xIRI xREF )
    name   := ( el xNS xNAME ) | ( li xP )
    id     := - | ( xIRI xNAME )
    node   := ( node <scope> <subj> <typ> ( pattr* ) ( prop* ) )
    prop   := ( lit <scope> <name> <id> xLEX <optstr> )      | ( typed <scope> <name> <id> xLEX xDT xREF )
            | ( empty <scope> <name> <id> <optstr> )         | ( res <scope> <name> <id> xIRI xREF ( pattr* ) )
            | ( bref <scope> <name> <id> xL ( pattr* ) )     | ( banon <scope> <name> <id> nN <optstr> ( pattr* ) )
            | ( pnode <scope> <name> <id> <node> )           | ( ptRes <scope> <name> <id> nN ( prop* ) )
            | ( ptColl <scope> <name> <id> ( nN* ) ( node* ) ) | ( ptLit <scope> <name> <id> xPT xCONTENT )
    doc    := ( doc <scope> ( node* ) )
    tree   := ( e xNS xNAME ( ( xNS xNAME xVAL )* ) ( tree* ) ) | ( t xS ) | ( r xS )

  Ops
    rx.plan   <xBASE> <doc>   → `<wf 0|1> | <tree> | <denote> | <flat>`
                                 denote = `ok <triples>` | `err:syntax` | `err:unsupported`; flat = triples
    rx.denote <xBASE> <tree>  → `ok <triples>` | `err:syntax` | `err:unsupported`
    rx.write  <xBASE> <knobs> <xml:base|-> <triple>…  → `<auto plan used 0|1> | <tree> | <denote>`
                                 knobs = 8 characters 0/1: group typed attrs li useID hoist nest rel; triples
                                 `S,P,O` with the term tokens of Driver/Wire.lean (`B<hex>` blank node label =
                                 its rdf:nodeID); the tree is `RX.writeAuto` of the graph
  Triples `S,P,O` joined by `;` (`-` for none). Terms: `I<hex>`, `G<n>` generated blank node,
  `N<hex>` rdf:nodeID blank node, `L<hexlex>.<hexdt>.<hexlang|->`.
  Reference resolution is `Spec.RFC3986.resolve`.
-/
import RdfModel.Driver.Wire
import RdfModel.Spec.RdfXmlFragment
import RdfModel.Spec.RdfXmlWriter
import RdfModel.Spec.RFC3986
namespace RdfModel.Driver.RdfXml
open RdfModel RdfModel.Wire RdfModel.RX RdfModel.Desc

inductive SExp where
  | atom (s : String)
  | list (xs : List SExp)
  deriving Inhabited

/-- iterative parser: a stack of reversed partial lists -/
def parseStep (stack : Option (List (List SExp))) (tok : String) : Option (List (List SExp)) :=
  match stack with
  | none => none
  | some st =>
    if tok = "(" then some ([] :: st)
    else if tok = ")" then
      match st with
      | top :: next :: rest => some ((SExp.list top.reverse :: next) :: rest)
      | _ => none
    else
      match st with
      | top :: rest => some ((SExp.atom tok :: top) :: rest)
      | [] => none

def parseSExp (toks : List String) : Option SExp :=
  match toks.foldl parseStep (some [[]]) with
  | some [[x]] => some x
  | _ => none

def str (e : SExp) : Option Str :=
  match e with
  | .atom s => runesTok s
  | _ => none

def optStr (e : SExp) : Option (Option Str) :=
  match e with
  | .atom "-" => some none
  | .atom s => (runesTok s).map some
  | _ => none

def nat (e : SExp) : Option Nat :=
  match e with
  | .atom s =>
    match s.toList with
    | 'n' :: ds => (String.ofList ds).toNat?
    | _ => none
  | _ => none

def scope (e : SExp) : Option Scope :=
  match e with
  | .list [b, l] => do pure { base := ← optStr b, lang := ← optStr l }
  | _ => none

def subj (e : SExp) : Option Subj :=
  match e with
  | .list [.atom "about", i, r] => do pure (.about (← str i) (← str r))
  | .list [.atom "id", i, n] => do pure (.id (← str i) (← str n))
  | .list [.atom "nodeID", l] => do pure (.nodeID (← str l))
  | .list [.atom "anon", n] => do pure (.anon (← nat n))
  | _ => none

def typ (e : SExp) : Option (Option (Str × Str)) :=
  match e with
  | .atom "-" => some none
  | .list [ns, n] => do pure (some (← str ns, ← str n))
  | _ => none

def pattr (e : SExp) : Option PAttr :=
  match e with
  | .list [.atom "lit", ns, n, v, l] => do pure (.lit (← str ns) (← str n) (← str v) (← optStr l))
  | .list [.atom "type", i, r] => do pure (.type (← str i) (← str r))
  | _ => none

def pattrs (e : SExp) : Option (List PAttr) :=
  match e with
  | .list xs => xs.mapM pattr
  | _ => none

def pname (e : SExp) : Option PName :=
  match e with
  | .list [.atom "el", ns, n] => do pure (.el (← str ns) (← str n))
  | .list [.atom "li", p] => do pure (.li (← str p))
  | _ => none

def pid (e : SExp) : Option PId :=
  match e with
  | .atom "-" => some none
  | .list [i, n] => do pure (some (← str i, ← str n))
  | _ => none

def nats (e : SExp) : Option (List Nat) :=
  match e with
  | .list xs => xs.mapM nat
  | _ => none

mutual
def pnode : SExp → Option PNode
  | .list [.atom "node", sc, sj, ty, .list pas, .list ps] => do
    pure (.mk (← scope sc) (← subj sj) (← typ ty) (← pas.mapM pattr) (← pprops ps))
  | _ => none
def pprops : List SExp → Option (List PProp)
  | [] => some []
  | x :: xs => do
    let p ← pprop x
    let ps ← pprops xs
    pure (p :: ps)
def pnodes : List SExp → Option (List PNode)
  | [] => some []
  | x :: xs => do
    let n ← pnode x
    let ns ← pnodes xs
    pure (n :: ns)
def pprop : SExp → Option PProp
  | .list [.atom "lit", sc, nm, id, lex, l] => do
    pure (.lit (← scope sc) (← pname nm) (← pid id) (← str lex) (← optStr l))
  | .list [.atom "typed", sc, nm, id, lex, dt, r] => do
    pure (.typed (← scope sc) (← pname nm) (← pid id) (← str lex) (← str dt) (← str r))
  | .list [.atom "empty", sc, nm, id, l] => do
    pure (.empty (← scope sc) (← pname nm) (← pid id) (← optStr l))
  | .list [.atom "res", sc, nm, id, i, r, pas] => do
    pure (.res (← scope sc) (← pname nm) (← pid id) (← str i) (← str r) (← pattrs pas))
  | .list [.atom "bref", sc, nm, id, l, pas] => do
    pure (.bref (← scope sc) (← pname nm) (← pid id) (← str l) (← pattrs pas))
  | .list [.atom "banon", sc, nm, id, n, dt, pas] => do
    pure (.banon (← scope sc) (← pname nm) (← pid id) (← nat n) (← optStr dt) (← pattrs pas))
  | .list [.atom "pnode", sc, nm, id, n] => do
    pure (.node (← scope sc) (← pname nm) (← pid id) (← pnode n))
  | .list [.atom "ptRes", sc, nm, id, n, .list ps] => do
    pure (.ptRes (← scope sc) (← pname nm) (← pid id) (← nat n) (← pprops ps))
  | .list [.atom "ptColl", sc, nm, id, cells, .list items] => do
    pure (.ptColl (← scope sc) (← pname nm) (← pid id) (← nats cells) (← pnodes items))
  | .list [.atom "ptLit", sc, nm, id, pt, c] => do
    pure (.ptLit (← scope sc) (← pname nm) (← pid id) (← str pt) (← str c))
  | _ => none
end

def pdoc (e : SExp) : Option PDoc :=
  match e with
  | .list [.atom "doc", sc, .list ns] => do pure { sc := ← scope sc, nodes := ← pnodes ns }
  | _ => none

def attr (e : SExp) : Option Attr :=
  match e with
  | .list [ns, n, v] => do pure ⟨← str ns, ← str n, ← str v⟩
  | _ => none

mutual
def tree : SExp → Option Node
  | .list [.atom "e", ns, n, .list as, .list ks] => do
    pure (.elem (← str ns) (← str n) (← as.mapM attr) (← trees ks))
  | .list [.atom "t", s] => do pure (.text (← str s))
  | .list [.atom "r", s] => do pure (.raw (← str s))
  | _ => none
def trees : List SExp → Option (List Node)
  | [] => some []
  | x :: xs => do
    let t ← tree x
    let ts ← trees xs
    pure (t :: ts)
end

/-! ### output -/

def showAttr (a : Attr) : String :=
  "( " ++ tokOfRunes a.ns ++ " " ++ tokOfRunes a.name ++ " " ++ tokOfRunes a.val ++ " )"

mutual
def showTree : Node → String
  | .elem ns n as ks =>
    "( e " ++ tokOfRunes ns ++ " " ++ tokOfRunes n ++ " ( " ++ String.intercalate " " (as.map showAttr) ++
      " ) ( " ++ String.intercalate " " (showTrees ks) ++ " ) )"
  | .text s => "( t " ++ tokOfRunes s ++ " )"
  | .raw s => "( r " ++ tokOfRunes s ++ " )"
def showTrees : List Node → List String
  | [] => []
  | k :: ks => showTree k :: showTrees ks
end

def showBN : Term BN → String
  | .iri v => "I" ++ hexRunes v
  | .bnode (.gen n) => "G" ++ toString n
  | .bnode (.named s) => "N" ++ hexRunes s
  | .lit l d t => "L" ++ hexRunes l ++ "." ++ hexRunes d ++ "." ++
      (match t with | some x => hexRunes x | none => "-")

def showTriple (t : T) : String := showBN t.s ++ ",I" ++ hexRunes t.p ++ "," ++ showBN t.o

def showTriples (ts : List T) : String :=
  if ts.isEmpty then "-" else String.intercalate ";" (ts.map showTriple)

def showResult : Except Err (List T) → String
  | .ok ts => "ok " ++ showTriples ts
  | .error .syntax => "err:syntax"
  | .error .unsupported => "err:unsupported"

def rs : Str → Str → Str := Spec.RFC3986.resolve

def parseTriple (s : String) : Option (Triple Str) :=
  match s.splitOn "," with
  | [a, b, c] => do
    let a ← (← parseTerm a)
    let b ← (← parseTerm b)
    let c ← (← parseTerm c)
    match b with
    | .iri p => pure ⟨a, p, c⟩
    | _ => none
  | _ => none

def parseKnobs (s : String) (base : Option Str) : Option Knobs :=
  match s.toList.map (· == '1') with
  | [a, b, c, d, e, f, g, h] =>
    some { group := a, typed := b, attrs := c, li := d, useID := e, hoist := f, nest := g, rel := h, base := base }
  | _ => none

def handle (op : String) (args : List String) : Option String :=
  match op, args with
  | "plan", base :: rest => do
    let base ← runesTok base
    let d ← pdoc (← parseSExp rest)
    let env : Env := ⟨base, none⟩
    let t := renderDoc d
    pure ((if wfDoc rs env d then "1" else "0") ++ " | " ++ showTree t ++ " | " ++
      showResult (denoteDoc rs env t) ++ " | " ++ showTriples (flatDoc d))
  | "write", base :: kn :: xb :: ts => do
    let base ← runesTok base
    let xb ← (if xb = "-" then some none else (runesTok xb).map some)
    let k ← parseKnobs kn xb
    let g ← ts.mapM parseTriple
    let t := writeAuto rs base id g k
    pure ((if autoPlanUsed rs base id g k then "1" else "0") ++ " | " ++ showTree t ++ " | " ++
      showResult (denoteDoc rs ⟨base, none⟩ t))
  | "denote", base :: rest => do
    let base ← runesTok base
    let t ← tree (← parseSExp rest)
    pure (showResult (denoteDoc rs ⟨base, none⟩ t))
  | _, _ => none

end RdfModel.Driver.RdfXml
