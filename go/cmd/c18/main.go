// Command c18: property C18 (format conversion through the I/O registry and `rdfkit pipe`).
//
//	T3   Model/Pipe.lean (Lean driver, component `pipe`) against the real code called in-process:
//	     filepath.Base/Ext, fileresource names/IRIs, ResolveDecoderType/ResolveEncoderType and
//	     NewDecoder/NewEncoder on random registries and on rdfio.Registry, the triples/quads adapters,
//	     the whole decode→adapt→label→encode loop into N-Triples/N-Quads with the rdfio encoder managers.
//	     (cfg.go) raw `--out-param` lists and encoder bases through the real rdfio encoder managers of all four targets
//	     (documents byte-/token-identical to Model/Pipe.lean `pipeTtlWith` / `pipeRJ` / `pipeNQp`), the encoder base
//	     through Registry.OpenEncoder, and one probe per hypothesis of the Turtle / RDF-JSON composition theorems.
//	E2E  the `rdfkit` binary built from <repo>/cmd/rdfkit converts documents of the eight source formats
//	     into the four target formats; outputs are re-read with the library decoders and compared with the
//	     source dataset up to blank-node isomorphism (default graph only for triples targets, as the
//	     property states); labels are checked on the raw output.
package main

import (
	"encoding/json"
	"flag"
	"fmt"
	"os"
	"path/filepath"
	"strings"

	"verifharness/vh"
)

var (
	tier     = flag.String("tier", "quick", "quick|thorough")
	driver   = flag.String("driver", "/verif/lean/.lake/build/bin/driver", "lean driver binary")
	out      = flag.String("out", "/verif/evidence/.C18.c18.report.json", "report path")
	findings = flag.String("findings", "/verif/known-findings.json", "known findings")
	replay   = flag.String("replay", "", "replay file: a C18-case-*.json written on a violation, or a check replay JSON listing them")
	scale    = flag.Int("scale", 1, "multiply generated case counts (search mode uses 10)")
	nomodel  = flag.Bool("nomodel", false, "end-to-end oracle only (search mode / driver unavailable)")
	hints    = flag.String("hints", "", "protocol lines that disagreed (unused: the end-to-end oracle does not depend on them)")
)

type gen struct {
	r            *vh.Rng
	seed         uint64
	rep          *vh.Report
	items        []item
	corpus       map[string][]corpusDoc
	scratch      string
	bin          string
	server       *docServer
	known        map[string]vh.Finding // C18 findings by predicate
	knownByKey   map[string]vh.Finding // findings of every property with status "known", by key
	allKnown     []vh.Finding
	knownSeen    map[string]int
	replayDir    string
	replaysSaved int
}

func main() {
	flag.Parse()
	seed := vh.SeedFromEnv()
	rep := vh.NewReport("C18", *tier, seed, "T3: random registries (aliases/media types/extensions/magic rules over 5 types, shadowing and suffix-overlapping keys included) and the real registry with every alias/identifier/media type/extension, case variants, double extensions and 15 probe documents; adapter and label runs over labelled, anonymous and foreign blank nodes; option plumbing: random --out-param lists (the words of strconv.ParseBool incl. rejected ones, implied values, repeated and unknown keys, prefix lists mixing rdfa-context / none / user prefixes / malformed entries) × 6 encoder bases × statements over IRIs inside and outside the RDFa-context namespaces and near the base, numeric/boolean shorthand literals, handed to the real encoder managers of the four targets (for sorted or nested Turtle output and RDF/JSON only labelled nodes, for unbuffered nested output one subject: fresh UUID texts / Go's map order would decide the section order). E2E: documents of 8 source formats (library encoders on random datasets, serialisers for TriG/RDF-XML/JSON-LD/HTML+RDFa, hand-written templates with anonymous nodes and collections, W3C suite documents) × 4 targets × parameters × type given by alias, identifier, extension, sniffing, HTTP media type, stdin; one case in eight from the targeted families of miss.go (nearbase: data IRIs = part of the encoder base + remainder class; pnlocal: covered namespaces × composed local names; big: > 2^12 … > 2^16 unlabelled nodes mentioned before and after their descendants; histograms fam:*). Non-trivial = T3 line with a non-empty type/media/magic/name or statement list; E2E case whose source is non-empty and whose output was compared")
	g := &gen{r: vh.NewRng(seed), seed: seed, rep: rep, knownSeen: map[string]int{}}
	fs, err := vh.LoadFindings(*findings)
	if err != nil {
		fmt.Fprintln(os.Stderr, "findings:", err)
		os.Exit(2)
	}
	g.known = vh.KnownKeys(fs, "C18")
	g.knownByKey = map[string]vh.Finding{}
	for _, f := range fs {
		if f.Status == "known" {
			g.knownByKey[f.Key] = f
			g.allKnown = append(g.allKnown, f)
		}
	}
	g.replayDir = filepath.Join(filepath.Dir(filepath.Dir(*out)), "replays")
	g.scratch, err = os.MkdirTemp("", "builder-c18-")
	if err != nil {
		fmt.Fprintln(os.Stderr, err)
		os.Exit(2)
	}
	defer os.RemoveAll(g.scratch)
	fail := func(msg string) {
		rep.Add(vh.Case{Kind: "disagreement", Op: "setup", Detail: msg})
		rep.Write(*out)
		fmt.Println("c18:", msg)
		os.RemoveAll(g.scratch)
		os.Exit(1)
	}
	if g.bin, err = buildBinary(g.scratch); err != nil {
		fail(err.Error())
	}
	if g.server, err = startServer(); err != nil {
		fail("cannot listen on 127.0.0.1: " + err.Error())
	}
	if err := bigIsoSelfTest(); err != nil {
		fail("self-test of the large-dataset comparator: " + err.Error())
	}
	g.corpus = loadCorpus(repoRoot())
	initEncoderSelfNames()
	for _, fm := range vh.SortedKeys(g.corpus) {
		rep.Hist["corpus:"+fm] = len(g.corpus[fm])
	}

	if *replay != "" {
		var paths []string
		if b, err := os.ReadFile(*replay); err == nil {
			var probe struct {
				Format string
			}
			if json.Unmarshal(b, &probe) == nil && probe.Format != "" {
				paths = []string{*replay}
			} else { // a replay written by ./check: run every saved case of this property
				m, _ := filepath.Glob(filepath.Join(g.replayDir, "C18-case-*.json"))
				paths = m
			}
		}
		for i, p := range paths {
			c, err := loadReplay(p)
			if err != nil {
				continue
			}
			c.id = i
			predictTypes(c)
			g.runCase(c)
			v := g.evaluate(c)
			rep.Eval(p, true)
			fmt.Printf("replay %s: %s %s %s\n", p, v.class, v.kind, v.detail)
			if v.kind != "" {
				rep.Add(vh.Case{Kind: v.kind, Key: v.key, Op: "rdfkit " + strings.Join(caseArgs(c), " "), Detail: v.detail})
			}
		}
	} else {
		nT3, nE2E := 600**scale, 2000**scale
		if *tier == "thorough" {
			nT3, nE2E = 8000**scale, 40000**scale
		}
		if !*nomodel {
			g.pathCases(nT3 / 2)
			g.fileCases(nT3/8, g.scratch)
			g.abstractCases(nT3)
			g.realCases(nT3 * 2)
			g.pipeCases(nT3)
			g.cfgCases(nT3)
			g.hypCases()
		}
		g.e2e(nE2E)
	}

	if !*nomodel && len(g.items) > 0 {
		lines := make([]string, len(g.items))
		altAt := map[int]int{}
		for i, it := range g.items {
			lines[i] = it.line
		}
		for i, it := range g.items {
			if it.alt != "" {
				altAt[i] = len(lines)
				lines = append(lines, it.alt)
			}
		}
		res, err := vh.Driver{Path: *driver}.RunParallel(lines)
		if err != nil {
			fmt.Fprintln(os.Stderr, err)
			os.Exit(2)
		}
		for i, it := range g.items {
			rep.Compared++
			allowed := map[string]bool{res[i]: true}
			if j, ok := altAt[i]; ok {
				allowed[res[j]] = true
			}
			if it.set {
				allowed = map[string]bool{}
				for _, a := range strings.Split(res[i], "|") {
					allowed[a] = true
				}
			}
			for _, goR := range it.goR {
				if !allowed[goR] {
					rep.Add(vh.Case{Kind: "disagreement", Op: it.line, Go: goR, Model: res[i], Detail: it.kind})
					break
				}
			}
		}
	}
	if err := rep.Write(*out); err != nil {
		fmt.Fprintln(os.Stderr, err)
		os.Exit(2)
	}
	known := len(rep.Cases) - rep.Failures()
	fmt.Printf("c18: %d evaluations, %d compared with the model, %d failures, %d known\n", rep.Evaluations, rep.Compared, rep.Failures(), known)
	if rep.Failures() > 0 {
		os.RemoveAll(g.scratch)
		os.Exit(1)
	}
}
