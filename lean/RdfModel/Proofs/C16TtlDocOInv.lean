/-
  Proofs for Props/C16TtlDocO.lean, part 2: COMMIT DISCIPLINE and RANGES.  Every scan function of the
  instrumented statement machine, called in a state whose committed text is `txt s` with the input
  `inp` ahead, returns (when it returns normally) a state whose committed text extends `txt s` by
  exactly the runes it consumed (`txt s' ++ rest' = txt s ++ inp`), and every range it stores or
  attaches to a statement lies in the committed text.  Core tactics only.
-/
import RdfModel.Props.C16TtlDocODefs
import RdfModel.Proofs.C16TtlSpec
namespace RdfModel.Proofs.C16TtlDocO
open RdfModel RdfModel.TW RdfModel.NQO RdfModel.TtlDoc RdfModel.TtlDocO RdfModel.C16TtlDocO RdfModel.Proofs.C16Ttl

/-! ### bookkeeping state -/

@[simp] theorem on_read (s : S) (c : RP) : On (s.read c) ↔ On s := Iff.rfl
@[simp] theorem on_readL (s : S) (l : List RP) : On (readL s l) ↔ On s := Iff.rfl
@[simp] theorem on_commit (s : S) (ch : Chunk) : On (s.commit ch) ↔ On s := by
  unfold On S.commit; cases s.doc <;> simp
@[simp] theorem txt_read (s : S) (c : RP) : txt (s.read c) = txt s := rfl
@[simp] theorem txt_readL (s : S) (l : List RP) : txt (readL s l) = txt s := rfl
theorem txt_commit {s : S} (h : On s) (ch : Chunk) : txt (s.commit ch) = txt s ++ ch := by
  unfold On at h; unfold txt S.commit
  cases hd : s.doc with
  | none => simp [hd] at h
  | some d => simp [histRunes]
@[simp] theorem range_read (s : S) (c : RP) (ch : Chunk) : (s.read c).range ch = s.range ch := rfl
@[simp] theorem range_readL (s : S) (l : List RP) (ch : Chunk) : (readL s l).range ch = s.range ch := rfl
@[simp] theorem commit_read (s : S) (c : RP) (ch : Chunk) : (s.read c).commit ch = (s.commit ch).read c := rfl

/-! ### ranges -/

theorem rgIn_none (D : List RP) : RgIn D none := by intro r h; cases h

theorem rgIn_mono {D D' : List RP} {rg : Rg} (h : RgIn D rg) (hp : D <+: D') : RgIn D' rg := by
  intro r hr; exact ⟨(h r hr).1, (h r hr).2.trans hp⟩

theorem rgIn_app {D : List RP} {rg : Rg} (h : RgIn D rg) (X : List RP) : RgIn (D ++ X) rg :=
  rgIn_mono h (List.prefix_append D X)

/-- the range `commitForTextOffsetRange(ch)` returns is in the committed text afterwards -/
theorem rgIn_range (s : S) (ch X : Chunk) : RgIn (txt s ++ ch ++ X) (s.range ch) := by
  intro r hr
  unfold S.range at hr
  cases hd : s.doc with
  | none => simp [hd] at hr
  | some d =>
    simp only [hd, Option.map_some, Option.some.injEq] at hr
    subst hr
    simp only [txt, hd, histRunes]
    exact ⟨List.prefix_append _ _, by simp [List.append_assoc]⟩

theorem rgIn_range_cons (s : S) (c : RP) (X : Chunk) : RgIn (txt s ++ c :: X) (s.range [c]) := by
  have := rgIn_range s [c] X; simpa using this

theorem rgIn_range0 (s : S) (ch : Chunk) : RgIn (txt s ++ ch) (s.range ch) := by
  have := rgIn_range s ch []; simpa using this

/-- `From: blankNodeRange.From, Until: closeOffsets.Until` with a fresh closing range -/
theorem rgIn_span_fresh {s : S} {a : Rg} (h : RgIn (txt s) a) (ch : Chunk) :
    RgIn (txt s ++ ch) (NQO.span a (s.range ch)) := by
  intro r hr
  cases a with
  | none => simp [NQO.span] at hr
  | some ar =>
    unfold S.range at hr
    cases hd : s.doc with
    | none => simp [hd, NQO.span] at hr
    | some d =>
      simp only [hd, Option.map_some, NQO.span, Option.some.injEq] at hr
      subst hr
      have ha := h ar rfl
      simp only [txt, hd] at ha ⊢
      simp only [histRunes]
      exact ⟨(ha.1.trans ha.2).trans (List.prefix_append _ _), List.prefix_refl _⟩

theorem ctxIn_app {D : List RP} {x : EctxO} (h : CtxIn D x) (X : List RP) : CtxIn (D ++ X) x :=
  ⟨rgIn_app h.1 X, rgIn_app h.2.1 X, rgIn_app h.2.2 X⟩

theorem ctxIn_mono {D D' : List RP} {x : EctxO} (h : CtxIn D x) (hp : D <+: D') : CtxIn D' x :=
  ⟨rgIn_mono h.1 hp, rgIn_mono h.2.1 hp, rgIn_mono h.2.2 hp⟩

theorem ctxIn_withSubj {D : List RP} {x : EctxO} (h : CtxIn D x) (t : T) {rg : Rg} (hr : RgIn D rg) :
    CtxIn D (x.withSubj t rg) := ⟨hr, h.2.1, h.2.2⟩
theorem ctxIn_withPred {D : List RP} {x : EctxO} (h : CtxIn D x) (t : T) {rg : Rg} (hr : RgIn D rg) :
    CtxIn D (x.withPred t rg) := ⟨h.1, hr, h.2.2⟩
theorem ctxIn_withGraph {D : List RP} {x : EctxO} (h : CtxIn D x) (t : T) {rg : Rg} (hr : RgIn D rg) :
    CtxIn D (x.withGraph t rg) := ⟨h.1, h.2.1, hr⟩

theorem frameIn_mono {D D' : List RP} {f : FrameO} (h : FrameIn D f) (hp : D <+: D') : FrameIn D' f :=
  ⟨ctxIn_mono h.1 hp, rgIn_mono h.2 hp⟩

theorem stmtIn_mono {D D' : List RP} {m : StmtO} (h : StmtIn D m) (hp : D <+: D') : StmtIn D' m :=
  ⟨rgIn_mono h.1 hp, rgIn_mono h.2.1 hp, rgIn_mono h.2.2.1 hp, rgIn_mono h.2.2.2 hp⟩

/-! ### what a successful producer call did (from Proofs/C16TtlSpec) -/

/-- Successful token: capture still on, committed text extended by exactly the consumed runes `x`,
    `x ++ rest = inp`, the token's range in the new committed text. -/
def TokOK (s : S) (inp : List RP) (rg : Rg) (s' : S) (rest : List RP) : Prop :=
  On s' ∧ ∃ x, txt s' = txt s ++ x ∧ x ++ rest = inp ∧ RgIn (txt s') rg

theorem tokOK_one {s s' : S} {inp tok rest : List RP} {rg : Rg} (hOn : On s)
    (h : OneChunk s inp tok rg s' rest) : TokOK s inp rg s' rest := by
  obtain ⟨rfl, rfl, rfl⟩ := h
  unfold On at hOn
  cases hd : s.doc with
  | none => simp [hd] at hOn
  | some d =>
    refine ⟨by simp [On], tok, by simp [txt, hd, histRunes], rfl, ?_⟩
    intro r hr
    simp only [Option.map_some, Option.some.injEq] at hr
    subst hr
    simp only [txt, histRunes]
    exact ⟨List.prefix_append _ _, List.prefix_refl _⟩

theorem tokOK_two {w : Bool} {s s' : S} {inp pre body rest : List RP} {rg : Rg} (hOn : On s)
    (h : TwoChunk w s inp pre body rg s' rest) : TokOK s inp rg s' rest := by
  obtain ⟨rfl, rfl, rfl⟩ := h
  unfold On at hOn
  cases hd : s.doc with
  | none => simp [hd] at hOn
  | some d =>
    refine ⟨by simp [On], pre ++ body, by simp [txt, hd, histRunes], by simp, ?_⟩
    intro r hr
    simp only [Option.map_some, Option.some.injEq] at hr
    subst hr
    simp only [txt, histRunes]
    refine ⟨?_, List.prefix_refl _⟩
    cases w
    · simp only [histRunes, Bool.false_eq_true, if_false]; exact List.prefix_append _ _
    · simp only [if_true]; rw [List.append_assoc]; exact List.prefix_append _ _

def IriOK (s : S) (inp : List RP) (r : IriResO) : Prop :=
  ∀ i rg s' rest, r = .ok i rg s' rest → TokOK s inp rg s' rest

def TermOK (s : S) (inp : List RP) (r : TermResO) : Prop :=
  ∀ t rg s' rest env', r = .ok t rg s' rest env' → TokOK s inp rg s' rest

theorem iriIRIREFO_ok (C : CfgO) (e : End) (env : Env) {s : S} (hOn : On s) (inp : List RP) :
    IriOK s inp (iriIRIREFO C e env s inp) := by
  intro i rg s' rest h
  unfold iriIRIREFO at h
  split at h
  · cases h
  · cases h
  · rename_i v rg0 s0 rest0 hp
    split at h
    · cases h
    · cases h
      obtain ⟨tok, h1, _⟩ := produceIRIREF_ok _ _ _ _ _ _ _ _ hp
      exact tokOK_one hOn h1

theorem iriPNameO_ok (C : CfgO) (e : End) (env : Env) {s : S} (hOn : On s) (inp : List RP) :
    IriOK s inp (iriPNameO C e env s inp) := by
  intro i rg s' rest h
  unfold iriPNameO at h
  split at h
  · cases h
  · cases h
  · rename_i ns loc rg0 s0 rest0 hp
    split at h
    · cases h
    · cases h
      obtain ⟨a, b, h1, _⟩ := producePrefixedName_ok _ _ _ _ _ _ _ _ _ hp
      exact tokOK_two hOn h1

theorem toTerm_ok {s : S} {inp : List RP} {r : IriResO} (h : IriOK s inp r) (env : Env) :
    TermOK s inp (r.toTerm env) := by
  intro t rg s' rest env' ht
  cases r with
  | ok i rg0 s0 rest0 => simp only [IriResO.toTerm, TermResO.ok.injEq] at ht; obtain ⟨_, rfl, rfl, rfl, _⟩ := ht; exact h _ _ _ _ rfl
  | err c o => cases ht
  | panic => cases ht

theorem termIRIREFO_ok (C : CfgO) (e : End) (env : Env) {s : S} (hOn : On s) (inp : List RP) :
    TermOK s inp (termIRIREFO C e env s inp) := toTerm_ok (iriIRIREFO_ok C e env hOn inp) env

theorem termPNameO_ok (C : CfgO) (e : End) (env : Env) {s : S} (hOn : On s) (inp : List RP) :
    TermOK s inp (termPNameO C e env s inp) := toTerm_ok (iriPNameO_ok C e env hOn inp) env

theorem termBNodeO_ok (C : CfgO) (e : End) (env : Env) {s : S} (hOn : On s) (inp : List RP) :
    TermOK s inp (termBNodeO C e env s inp) := by
  intro t rg s' rest env' h
  unfold termBNodeO at h
  split at h
  · cases h
  · cases h
  · rename_i l rg0 s0 rest0 hp
    cases h
    obtain ⟨c0, c1, lab, h1, _⟩ := produceBlankNode_ok _ _ _ _ _ _ _ _ _ hp
    exact tokOK_two hOn h1

/-! ### scan functions -/

def OutIn (D : List RP) (o : OutO) : Prop :=
  (∀ f, o.cur = some f → FrameIn D f) ∧ (∀ f ∈ o.push, FrameIn D f) ∧ (∀ m, o.emit = some m → StmtIn D m)

/-- A scan function that returns normally: capture still on, the committed text grew by exactly the runes
    `X` it consumed (`X ++ rest' = inp`), every range it stores / emits is in the committed text. -/
def StepOK (s : S) (inp : List RP) (res : FnResO) : Prop :=
  ∀ o, res = .ok o → On o.s ∧ (∃ X, txt o.s = txt s ++ X ∧ X ++ o.inp = inp) ∧ OutIn (txt o.s) o

theorem stepOK_err (s : S) (inp : List RP) (e : EClass) (o : EOff) : StepOK s inp (.err e o) := by
  intro o h; cases h
theorem stepOK_panic (s : S) (inp : List RP) : StepOK s inp .panic := by intro o h; cases h

theorem frameIn_iff (D : List RP) (x : EctxO) (k : Cont) (r : Rg) : FrameIn D ⟨x, k, r⟩ ↔ CtxIn D x ∧ RgIn D r := Iff.rfl

/-- build `StepOK` for a concrete result -/
theorem stepOK_ok {s : S} {inp : List RP} {o : OutO} (X : List RP) (h1 : On o.s) (h2 : txt o.s = txt s ++ X)
    (h3 : X ++ o.inp = inp) (h4 : OutIn (txt s ++ X) o) : StepOK s inp (.ok o) := by
  intro o' ho; cases ho; exact ⟨h1, ⟨X, h2, h3⟩, h2 ▸ h4⟩

/-- closes range-validity goals from the context -/
macro "rg_tac" : tactic => `(tactic| first
  | exact rgIn_none _
  | assumption
  | exact rgIn_app (by assumption) _
  | exact rgIn_range0 _ _
  | exact rgIn_range _ _ _
  | exact rgIn_range_cons _ _ _
  | exact rgIn_span_fresh (by assumption) _
  | (simp only [List.append_nil]; assumption))

/-- closes `OutIn D o` for a concrete `o` -/
macro "out_tac" : tactic => `(tactic|
  (simp only [OutIn, Option.some.injEq, List.mem_cons, List.mem_singleton, List.not_mem_nil, forall_eq_or_imp,
      forall_eq, forall_eq', false_imp_iff, imp_false, implies_true, and_true, true_and, reduceCtorEq,
      frameIn_iff, CtxIn, StmtIn, range_read, range_readL, EctxO.withSubj, EctxO.withPred, EctxO.withGraph, mkStmtO, List.append_nil,
      List.mem_append, or_imp, forall_and, ↓reduceIte, if_true, if_false, Bool.false_eq_true]
   <;> (try and_intros) <;> (try rg_tac)))

theorem subjectOfO_ok {s : S} {inp : List RP} {x : EctxO} {r : TermResO} (hx : CtxIn (txt s) x)
    (ht : TermOK s inp r) : StepOK s inp (subjectOfO x r) := by
  cases r with
  | err c o => exact stepOK_err _ _ _ _
  | panic => exact stepOK_panic _ _
  | ok t rg s' rest env' =>
    obtain ⟨hOn', X, h1, h2, h3⟩ := ht _ _ _ _ _ rfl
    obtain ⟨hs, hp, hg⟩ := hx
    rw [h1] at h3
    exact stepOK_ok X hOn' h1 h2 (by out_tac)

theorem labelOrSubjectO_ok {s : S} {inp : List RP} {x : EctxO} {r : TermResO} (hx : CtxIn (txt s) x)
    (ht : TermOK s inp r) : StepOK s inp (labelOrSubjectO x r) := by
  cases r with
  | err c o => exact stepOK_err _ _ _ _
  | panic => exact stepOK_panic _ _
  | ok t rg s' rest env' =>
    obtain ⟨hOn', X, h1, h2, h3⟩ := ht _ _ _ _ _ rfl
    obtain ⟨hs, hp, hg⟩ := hx
    rw [h1] at h3
    exact stepOK_ok X hOn' h1 h2 (by out_tac)

theorem polOfTermO_ok {s : S} {inp : List RP} {x : EctxO} {r : TermResO} (hx : CtxIn (txt s) x)
    (ht : TermOK s inp r) : StepOK s inp (polOfTermO x r) := by
  cases r with
  | err c o => exact stepOK_err _ _ _ _
  | panic => exact stepOK_panic _ _
  | ok t rg s' rest env' =>
    obtain ⟨hOn', X, h1, h2, h3⟩ := ht _ _ _ _ _ rfl
    obtain ⟨hs, hp, hg⟩ := hx
    rw [h1] at h3
    exact stepOK_ok X hOn' h1 h2 (by out_tac)

theorem emitOfTermO_ok {s : S} {inp : List RP} {x : EctxO} {r : TermResO} (hx : CtxIn (txt s) x)
    (ht : TermOK s inp r) : StepOK s inp (emitOfTermO x r) := by
  cases r with
  | err c o => exact stepOK_err _ _ _ _
  | panic => exact stepOK_panic _ _
  | ok t rg s' rest env' =>
    obtain ⟨hOn', X, h1, h2, h3⟩ := ht _ _ _ _ _ rfl
    obtain ⟨hs, hp, hg⟩ := hx
    rw [h1] at h3
    exact stepOK_ok X hOn' h1 h2 (by out_tac)

theorem commit_readL (s : S) (l : List RP) (ch : Chunk) : (readL s l).commit ch = readL (s.commit ch) l := rfl

theorem kwFallbackO_ok (C : CfgO) (e : End) {x : EctxO} (env : Env) {s : S} (hOn : On s) (hx : CtxIn (txt s) x)
    (inp : List RP) : StepOK s inp (kwFallbackO C e x env s inp) := by
  unfold kwFallbackO
  split
  · exact labelOrSubjectO_ok hx (termPNameO_ok C e env hOn inp)
  · obtain ⟨hs, hp, hg⟩ := hx
    exact stepOK_ok [] hOn (by simp) (by simp) (by out_tac)

theorem withSelfO_ok {s : S} {inp : List RP} {x : EctxO} {r : FnResO} (hx : CtxIn (txt s) x)
    (h : StepOK s inp r) : StepOK s inp (withSelfO x r) := by
  cases r with
  | err c o => exact stepOK_err _ _ _ _
  | panic => exact stepOK_panic _ _
  | ok o =>
    obtain ⟨h1, ⟨X, h2, h3⟩, h4, h5, h6⟩ := h o rfl
    intro o' ho
    simp only [withSelfO, FnResO.ok.injEq] at ho
    subst ho
    refine ⟨h1, ⟨X, h2, h3⟩, h4, ?_, h6⟩
    intro f hf
    simp only [List.mem_cons] at hf
    rcases hf with rfl | hf
    · exact ⟨ctxIn_mono hx (h2 ▸ List.prefix_append _ _), rgIn_none _⟩
    · exact h5 f hf

theorem matchKwO_ok : ∀ (ks : List (Nat × Nat)) (inp acc rd r : List RP),
    matchKwO ks inp acc = .ok rd r → rd ++ r = acc.reverse ++ inp
  | [], inp, acc, rd, r, h => by simp only [matchKwO, KwO.ok.injEq] at h; obtain ⟨rfl, rfl⟩ := h; rfl
  | _ :: _, [], acc, rd, r, h => by simp [matchKwO] at h
  | (u, l) :: ks, c :: rest, acc, rd, r, h => by
    simp only [matchKwO] at h
    split at h
    · have := matchKwO_ok ks rest (c :: acc) rd r h
      simpa using this
    · cases h

theorem matchKeywordO_ok : ∀ (ks : List Nat) (inp acc rd r : List RP),
    matchKeywordO ks inp acc = .ok rd r → rd ++ r = acc.reverse ++ inp
  | [], inp, acc, rd, r, h => by simp only [matchKeywordO, KwO.ok.injEq] at h; obtain ⟨rfl, rfl⟩ := h; rfl
  | _ :: _, [], acc, rd, r, h => by simp [matchKeywordO] at h
  | k :: ks, c :: rest, acc, rd, r, h => by
    simp only [matchKeywordO] at h
    split at h
    · have := matchKeywordO_ok ks rest (c :: acc) rd r h
      simpa using this
    · cases h

theorem stepWrappedGraphO_ok (dbl : Bool) (e : End) {x : EctxO} (env : Env) {s : S} (hOn : On s) (hx : CtxIn (txt s) x)
    (c : RP) (rest : List RP) : StepOK s (c :: rest) (stepWrappedGraphO dbl e x env s (.rune c rest)) := by
  obtain ⟨hs, hp, hg⟩ := hx
  simp only [stepWrappedGraphO]
  split
  · exact stepOK_err _ _ _ _
  · exact stepOK_ok [c] (by simp [hOn]) (by simp [txt_commit, hOn]) (by simp) (by out_tac)

theorem stepAtDirectiveO_ok (e : End) {x : EctxO} (env : Env) {s : S} (hOn : On s) (hx : CtxIn (txt s) x)
    (c0 : RP) (rest : List RP) : StepOK s (c0 :: rest) (stepAtDirectiveO e x env s c0 rest) := by
  obtain ⟨hs, hp, hg⟩ := hx
  cases rest with
  | nil => exact stepOK_err _ _ _ _
  | cons r1 rest1 =>
    simp only [stepAtDirectiveO]
    split
    · cases hm : matchKwO (kwExact "ase") rest1 [] with
      | eoi rd => exact stepOK_err _ _ _ _
      | mismatch rd c => exact stepOK_err _ _ _ _
      | ok rd r =>
        have := matchKwO_ok _ _ _ _ _ hm
        simp only [List.reverse_nil, List.nil_append] at this
        exact stepOK_ok (c0 :: r1 :: rd) (by simp [hOn]) (by simp [commit_readL, txt_commit, hOn]) (by simp [this])
          (by out_tac)
    · split
      · cases hm : matchKwO (kwExact "refix") rest1 [] with
        | eoi rd => exact stepOK_err _ _ _ _
        | mismatch rd c => exact stepOK_err _ _ _ _
        | ok rd r =>
          have := matchKwO_ok _ _ _ _ _ hm
          simp only [List.reverse_nil, List.nil_append] at this
          exact stepOK_ok (c0 :: r1 :: rd) (by simp [hOn]) (by simp [commit_readL, txt_commit, hOn]) (by simp [this])
            (by out_tac)
      · exact stepOK_err _ _ _ _

theorem stepKwBaseO_ok (C : CfgO) (e : End) {x : EctxO} (env : Env) {s : S} (hOn : On s) (hx : CtxIn (txt s) x)
    (c : RP) (rest : List RP) : StepOK s (c :: rest) (stepKwBaseO C e x env s c rest) := by
  have hx' := hx
  obtain ⟨hs, hp, hg⟩ := hx
  simp only [stepKwBaseO]
  cases hm : matchKwO (kwCI "ASE") rest [] with
  | eoi rd => exact stepOK_err _ _ _ _
  | mismatch rd c' => exact kwFallbackO_ok C e env hOn hx' _
  | ok rd r =>
    have := matchKwO_ok _ _ _ _ _ hm
    simp only [List.reverse_nil, List.nil_append] at this
    subst this
    cases r with
    | nil => exact stepOK_err _ _ _ _
    | cons r4 rest4 =>
      simp only []
      split
      · exact stepOK_ok (c :: rd) (by simp [hOn]) (by simp [commit_readL, txt_commit, hOn]) (by simp) (by out_tac)
      · split
        · exact kwFallbackO_ok C e env hOn hx' _
        · exact stepOK_ok (c :: rd ++ [r4]) (by simp [hOn]) (by simp [commit_readL, txt_commit, hOn]) (by simp)
            (by out_tac)

theorem stepKwSpaceO_ok (C : CfgO) (e : End) {x : EctxO} (env : Env) {s : S} (hOn : On s) (hx : CtxIn (txt s) x)
    (kw : List (Nat × Nat)) (k : Cont) (c : RP) (rest : List RP) :
    StepOK s (c :: rest) (stepKwSpaceO C e x env s kw k c rest) := by
  have hx' := hx
  obtain ⟨hs, hp, hg⟩ := hx
  simp only [stepKwSpaceO]
  cases hm : matchKwO kw rest [] with
  | eoi rd => exact stepOK_err _ _ _ _
  | mismatch rd c' => exact kwFallbackO_ok C e env hOn hx' _
  | ok rd r =>
    have := matchKwO_ok _ _ _ _ _ hm
    simp only [List.reverse_nil, List.nil_append] at this
    subst this
    cases r with
    | nil => exact stepOK_err _ _ _ _
    | cons r6 rest6 =>
      simp only []
      split
      · exact kwFallbackO_ok C e env hOn hx' _
      · exact stepOK_ok (c :: rd ++ [r6]) (by simp [hOn]) (by simp [commit_readL, txt_commit, hOn]) (by simp)
          (by out_tac)

theorem stepSubjectStartO_ok (C : CfgO) (e : End) {x : EctxO} (env : Env) {s : S} (hOn : On s)
    (hx : CtxIn (txt s) x) (c : RP) (rest : List RP) :
    StepOK s (c :: rest) (stepSubjectStartO C e x env s c rest) := by
  have hx' := hx
  obtain ⟨hs, hp, hg⟩ := hx
  simp only [stepSubjectStartO]
  split
  · split
    · exact labelOrSubjectO_ok hx' (termIRIREFO_ok C e env hOn _)
    · exact stepOK_ok [] hOn (by simp) (by simp) (by out_tac)
  · split
    · split
      · exact labelOrSubjectO_ok hx' (termBNodeO_ok C e env hOn _)
      · exact stepOK_ok [] hOn (by simp) (by simp) (by out_tac)
    · split
      · split
        · exact stepOK_ok [c] (by simp [hOn]) (by simp [txt_commit, hOn]) (by simp) (by out_tac)
        · exact stepOK_ok [c] (by simp [hOn]) (by simp [txt_commit, hOn]) (by simp) (by out_tac)
      · split
        · exact stepOK_ok [c] (by simp [hOn]) (by simp [txt_commit, hOn]) (by simp) (by out_tac)
        · split
          · split
            · exact labelOrSubjectO_ok hx' (termPNameO_ok C e env hOn _)
            · exact stepOK_ok [] hOn (by simp) (by simp) (by out_tac)
          · exact stepOK_err _ _ _ _

theorem stepStatementRuneO_ok (C : CfgO) (e : End) {x : EctxO} (env : Env) {s : S} (hOn : On s)
    (hx : CtxIn (txt s) x) (c : RP) (rest : List RP) :
    StepOK s (c :: rest) (stepStatementRuneO C e x env s c rest) := by
  simp only [stepStatementRuneO]
  split
  · exact stepAtDirectiveO_ok e env hOn hx c rest
  · split
    · exact stepKwBaseO_ok C e env hOn hx c rest
    · split
      · exact stepKwSpaceO_ok C e env hOn hx _ _ c rest
      · split
        · exact stepKwSpaceO_ok C e env hOn hx _ _ c rest
        · split
          · exact stepWrappedGraphO_ok C.dbl e env hOn hx c rest
          · exact stepSubjectStartO_ok C e env hOn hx c rest

theorem stepCollectionO_ok {x : EctxO} (env : Env) {s : S} (hOn : On s) (hx : CtxIn (txt s) x) (c : RP)
    (rest : List RP) (o : T) {org : Rg} (hr : RgIn (txt s) org) :
    StepOK s (c :: rest) (stepCollectionO x env s c rest o org) := by
  obtain ⟨hs, hp, hg⟩ := hx
  simp only [stepCollectionO]
  split
  · exact stepOK_ok [c] (by simp [hOn]) (by simp [txt_commit, hOn]) (by simp) (by out_tac)
  · cases x.x.subj with
    | none => exact stepOK_ok [] hOn (by simp) (by simp) (by out_tac)
    | some _ => exact stepOK_ok [] hOn (by simp) (by simp) (by out_tac)

theorem stepPOLO_ok (C : CfgO) (e : End) {x : EctxO} (env : Env) {s : S} (hOn : On s) (hx : CtxIn (txt s) x)
    (c : RP) (rest : List RP) : StepOK s (c :: rest) (stepPOLO C e x env s c rest) := by
  have hx' := hx
  obtain ⟨hs, hp, hg⟩ := hx
  simp only [stepPOLO]
  split
  · exact polOfTermO_ok hx' (termIRIREFO_ok C e env hOn _)
  · split
    · cases rest with
      | nil => exact stepOK_err _ _ _ _
      | cons r1 rest1 =>
        simp only []
        split
        · exact polOfTermO_ok hx' (termPNameO_ok C e env hOn _)
        · exact stepOK_ok [c, r1] (by simp [hOn])
            (by simp [txt_commit, hOn]) (by simp) (by out_tac)
    · split
      · exact polOfTermO_ok hx' (termPNameO_ok C e env hOn _)
      · exact stepOK_ok [] hOn (by simp) (by simp) (by out_tac)

theorem stepLiteralTailO_ok (C : CfgO) (e : End) {x : EctxO} (env : Env) (lex : List Nat) {lrg : Rg} {s : S}
    (hOn : On s) (hx : CtxIn (txt s) x) (hl : RgIn (txt s) lrg) (rest : List RP) :
    StepOK s rest (stepLiteralTailO C e x env lex lrg s rest) := by
  obtain ⟨hs, hp, hg⟩ := hx
  cases rest with
  | nil => exact stepOK_err _ _ _ _
  | cons c rest0 =>
    simp only [stepLiteralTailO]
    split
    · cases hp' : TtlO.produceLANGTAG e s (c :: rest0) with
      | panic => exact stepOK_panic _ _
      | err k o => exact stepOK_err _ _ _ _
      | ok tag rg' s' r =>
        obtain ⟨a0, tg, h1, _⟩ := produceLANGTAG_ok _ _ _ _ _ _ _ hp'
        obtain ⟨hOn', X, h2, h3, _⟩ := tokOK_two hOn h1
        exact stepOK_ok X hOn' h2 h3 (by out_tac)
    · split
      · cases rest0 with
        | nil => exact stepOK_err _ _ _ _
        | cons c1 rest1 =>
          simp only []
          split
          · exact stepOK_err _ _ _ _
          · cases rest1 with
            | nil => exact stepOK_err _ _ _ _
            | cons c2 rest2 =>
              simp only []
              have hOn3 : On (((s.read c).read c1).commit [c, c1]) := by simp [hOn]
              have ht3 : txt (((s.read c).read c1).commit [c, c1]) = txt s ++ [c, c1] := by simp [txt_commit, hOn]
              have hI : IriOK (((s.read c).read c1).commit [c, c1]) (c2 :: rest2)
                  (if c2.1 = 0x3c then iriIRIREFO C e env (((s.read c).read c1).commit [c, c1]) (c2 :: rest2)
                   else iriPNameO C e env (((s.read c).read c1).commit [c, c1]) (c2 :: rest2)) := by
                split
                · exact iriIRIREFO_ok C e env hOn3 _
                · exact iriPNameO_ok C e env hOn3 _
              generalize (if c2.1 = 0x3c then iriIRIREFO C e env (((s.read c).read c1).commit [c, c1]) (c2 :: rest2)
                   else iriPNameO C e env (((s.read c).read c1).commit [c, c1]) (c2 :: rest2)) = tr at hI
              cases tr with
              | panic => exact stepOK_panic _ _
              | err k o => exact stepOK_err _ _ _ _
              | ok dt rg' s' r =>
                obtain ⟨hOn', X, h2, h3, _⟩ := hI _ _ _ _ rfl
                simp only []
                split
                · exact stepOK_err _ _ _ _
                · exact stepOK_ok ([c, c1] ++ X) hOn' (by rw [h2, ht3, List.append_assoc])
                    (by simp [h3]) (by out_tac)
      · exact stepOK_ok [] hOn (by simp) (by simp) (by out_tac)

/-- a successful instrumented producer call, as `TokOK` -/
def ROOK {α : Type} (s : S) (inp : List RP) (r : TtlO.RO α) : Prop :=
  ∀ v rg s' rest, r = .ok v rg s' rest → TokOK s inp rg s' rest

theorem emitOfNumericO_ok {s : S} {inp : List RP} {x : EctxO} (env : Env)
    {r : TtlO.RO (Ttl.NumKind × List Nat)} (hx : CtxIn (txt s) x) (ht : ROOK s inp r) :
    StepOK s inp (emitOfNumericO x env r) := by
  cases r with
  | err c o => exact stepOK_err _ _ _ _
  | panic => exact stepOK_panic _ _
  | ok v rg s' rest =>
    obtain ⟨k, l⟩ := v
    obtain ⟨hOn', X, h1, h2, h3⟩ := ht _ _ _ _ rfl
    obtain ⟨hs, hp, hg⟩ := hx
    rw [h1] at h3
    exact stepOK_ok X hOn' h1 h2 (by out_tac)

theorem numeric_ROOK (e : End) {s : S} (hOn : On s) (inp : List RP) :
    ROOK s inp (TtlO.produceNumericLiteral e s inp) := by
  intro v rg s' rest h
  obtain ⟨tok, h1, _⟩ := produceNumericLiteral_ok _ _ _ _ _ _ _ h
  exact tokOK_one hOn h1

theorem scanBooleanO_ok (inp : List RP) (b : Bool) (rd r : List RP) (h : scanBooleanO inp = .bool b rd r) :
    ∃ c, inp = c :: (rd ++ r) := by
  cases inp with
  | nil => simp [scanBooleanO] at h
  | cons c rest =>
    refine ⟨c, ?_⟩
    simp only [scanBooleanO] at h
    split at h
    · cases hm : matchKeywordO (asc "rue") rest [] with
      | ok rd' r' =>
        rw [hm] at h; simp only [BoolResO.bool.injEq] at h; obtain ⟨_, rfl, rfl⟩ := h
        have := matchKeywordO_ok _ _ _ _ _ hm; simp at this; rw [this]
      | mismatch _ _ => rw [hm] at h; cases h
      | eoi _ => rw [hm] at h; cases h
    · split at h
      · cases hm : matchKeywordO (asc "alse") rest [] with
        | ok rd' r' =>
          rw [hm] at h; simp only [BoolResO.bool.injEq] at h; obtain ⟨_, rfl, rfl⟩ := h
          have := matchKeywordO_ok _ _ _ _ _ hm; simp at this; rw [this]
        | mismatch _ _ => rw [hm] at h; cases h
        | eoi _ => rw [hm] at h; cases h
      · cases h

theorem stepObjectO_ok (C : CfgO) (e : End) {x : EctxO} (env : Env) {s : S} (hOn : On s) (hx : CtxIn (txt s) x)
    (c : RP) (rest : List RP) : StepOK s (c :: rest) (stepObjectO C e x env s c rest) := by
  have hx' := hx
  obtain ⟨hs, hp, hg⟩ := hx
  simp only [stepObjectO]
  split
  · exact emitOfTermO_ok hx' (termIRIREFO_ok C e env hOn _)
  · split
    · exact emitOfTermO_ok hx' (termBNodeO_ok C e env hOn _)
    · split
      · exact stepOK_ok [c] (by simp [hOn]) (by simp [txt_commit, hOn]) (by simp) (by out_tac)
      · split
        · exact stepOK_ok [c] (by simp [hOn]) (by simp [txt_commit, hOn]) (by simp) (by out_tac)
        · split
          · cases hp' : TtlO.produceString C.T e false s (c :: rest) with
            | panic => exact stepOK_panic _ _
            | err k o => exact stepOK_err _ _ _ _
            | ok lex lrg s' r =>
              obtain ⟨tok, q, h1, _⟩ := produceString_ok _ _ _ _ _ _ _ _ hp'
              obtain ⟨hOn', X, h2, h3, h4⟩ := tokOK_one hOn h1
              have hx2 : CtxIn (txt s') x := h2 ▸ ctxIn_app hx' X
              have := stepLiteralTailO_ok C e env lex hOn' hx2 h4 r
              intro o ho
              obtain ⟨g1, ⟨Y, g2, g3⟩, g4⟩ := this o ho
              exact ⟨g1, ⟨X ++ Y, by rw [g2, h2, List.append_assoc], by rw [List.append_assoc, g3, h3]⟩, g4⟩
          · split
            · split
              · cases rest with
                | nil => exact stepOK_err _ _ _ _
                | cons r1 rest1 =>
                  simp only []
                  split
                  · exact stepOK_err _ _ _ _
                  · exact emitOfNumericO_ok env hx' (numeric_ROOK e hOn _)
              · exact emitOfNumericO_ok env hx' (numeric_ROOK e hOn _)
            · split
              · cases hb : scanBooleanO (c :: rest) with
                | err rd => exact stepOK_err _ _ _ _
                | other => exact stepOK_ok [] hOn (by simp) (by simp) (by out_tac)
                | bool b rd r =>
                  obtain ⟨c', hc⟩ := scanBooleanO_ok _ _ _ _ hb
                  simp only [List.cons.injEq] at hc
                  obtain ⟨rfl, rfl⟩ := hc
                  exact stepOK_ok (c :: rd) (by simp [hOn]) (by simp [commit_readL, txt_commit, hOn]) (by simp)
                    (by out_tac)
              · split
                · exact stepOK_ok [] hOn (by simp) (by simp) (by out_tac)
                · exact stepOK_err _ _ _ _

theorem stepTriplesO_ok (C : CfgO) {x : EctxO} (env : Env) {s : S} (hOn : On s) (hx : CtxIn (txt s) x)
    (c : RP) (rest : List RP) : StepOK s (c :: rest) (stepTriplesO C x env s c rest) := by
  obtain ⟨hs, hp, hg⟩ := hx
  simp only [stepTriplesO]
  split
  · exact stepOK_ok [] hOn (by simp) (by simp) (by out_tac)
  · split
    · exact stepOK_ok [] hOn (by simp) (by simp) (by out_tac)
    · split
      · exact stepOK_ok [c] (by simp [hOn]) (by simp [txt_commit, hOn]) (by simp) (by out_tac)
      · split
        · exact stepOK_ok [c] (by simp [hOn]) (by simp [txt_commit, hOn]) (by simp) (by out_tac)
        · split
          · exact stepOK_ok [] hOn (by simp) (by simp) (by out_tac)
          · exact stepOK_err _ _ _ _

/-- what a scan function sees: the rune and the input after it, or the zero rune -/
def argInp : ArgO → List RP
  | .rune c rest => c :: rest
  | .fail => [((0, 0) : RP)]

theorem orNul_argInp (a : ArgO) : a.orNul.1 :: a.orNul.2 = argInp a := by cases a <;> rfl

theorem stepParenO_ok (top : Bool) {x : EctxO} (env : Env) (bn : T) {rg : Rg} {s : S} (hOn : On s)
    (hx : CtxIn (txt s) x) (hr : RgIn (txt s) rg) (a : ArgO) :
    StepOK s (argInp a) (stepParenO top x env bn rg s a) := by
  obtain ⟨hs, hp, hg⟩ := hx
  rw [← orNul_argInp]
  simp only [stepParenO]
  split
  · cases top
    · exact stepOK_ok [a.orNul.1] (by simp [hOn]) (by simp [txt_commit, hOn]) (by simp) (by out_tac)
    · exact stepOK_ok [a.orNul.1] (by simp [hOn]) (by simp [txt_commit, hOn]) (by simp) (by out_tac)
  · cases top
    · exact stepOK_ok [] hOn (by simp) (by simp) (by out_tac)
    · exact stepOK_ok [] hOn (by simp) (by simp) (by out_tac)

theorem iriref_ROOK (C : CfgO) (e : End) {s : S} (hOn : On s) (inp : List RP) :
    ROOK s inp (TtlO.produceIRIREF C.T e s inp) := by
  intro v rg s' rest h
  obtain ⟨tok, h1, _⟩ := produceIRIREF_ok _ _ _ _ _ _ _ _ h
  exact tokOK_one hOn h1

/-- the directive closures reading an IRIREF: whatever they do with the resolved IRI, the bookkeeping is
    that of the token -/
theorem iriDirective_ok (C : CfgO) (e : End) (env : Env) {s : S} (hOn : On s) (inp : List RP)
    (f : List Nat → S → List RP → FnResO)
    (hf : ∀ b s' r X, On s' → txt s' = txt s ++ X → X ++ r = inp → StepOK s inp (f b s' r)) :
    StepOK s inp (match TtlO.produceIRIREF C.T e s inp with
      | .panic => FnResO.panic
      | .err t o => .err (ofTok t) o
      | .ok v rg s' r =>
        match resolveURL C.base env v with
        | none => .err .resolve (rangeErr rg)
        | some b => f b s' r) := by
  cases hp : TtlO.produceIRIREF C.T e s inp with
  | panic => exact stepOK_panic _ _
  | err t o => exact stepOK_err _ _ _ _
  | ok v rg s' r =>
    obtain ⟨hOn', X, h1, h2, _⟩ := iriref_ROOK C e hOn inp _ _ _ _ hp
    simp only []
    cases resolveURL C.base env v with
    | none => exact stepOK_err _ _ _ _
    | some b => exact hf b s' r X hOn' h1 h2

theorem stepFnO_ok (C : CfgO) (e : End) (k : Cont) {r : Rg} {x : EctxO} (env : Env) {s : S} (hOn : On s)
    (hx : CtxIn (txt s) x) (hr : RgIn (txt s) r) (a : ArgO) (hna : ¬(k = .statement ∧ a = .fail)) :
    StepOK s (argInp a) (stepFnO C e k r x env s a) := by
  have hx' := hx
  obtain ⟨hs, hp, hg⟩ := hx
  cases k with
  | statement =>
    cases a with
    | fail => exact absurd ⟨rfl, rfl⟩ hna
    | rune c rest =>
      simp only [stepFnO, argInp]
      exact withSelfO_ok hx' (stepStatementRuneO_ok C e env hOn hx' c rest)
  | atBaseIRI =>
    cases a with
    | fail => exact stepOK_err _ _ _ _
    | rune c rest =>
      simp only [stepFnO, argInp]
      refine iriDirective_ok C e env hOn _ _ ?_
      intro b s' r X h1 h2 h3
      exact stepOK_ok X h1 h2 h3 (by out_tac)
  | sparqlBaseIRI =>
    cases a with
    | fail => exact stepOK_err _ _ _ _
    | rune c rest =>
      simp only [stepFnO, argInp]
      refine iriDirective_ok C e env hOn _ _ ?_
      intro b s' r X h1 h2 h3
      exact stepOK_ok X h1 h2 h3 (by out_tac)
  | atBaseDot b =>
    cases a with
    | fail => exact stepOK_err _ _ _ _
    | rune c rest =>
      simp only [stepFnO, argInp]
      split
      · exact stepOK_err _ _ _ _
      · exact stepOK_ok [c] (by simp [hOn]) (by simp [txt_commit, hOn]) (by simp) (by out_tac)
  | atPrefixNS =>
    cases a with
    | fail => exact stepOK_err _ _ _ _
    | rune c rest =>
      simp only [stepFnO, argInp]
      cases hp' : TtlO.producePNAME_NS C.T e C.trig s (c :: rest) with
      | panic => exact stepOK_panic _ _
      | err t o => exact stepOK_err _ _ _ _
      | ok ns rg s' r' =>
        obtain ⟨tok, h1, _⟩ := producePNAME_NS_ok _ _ _ _ _ _ _ _ _ hp'
        obtain ⟨hOn', X, h2, h3, _⟩ := tokOK_one hOn h1
        exact stepOK_ok X hOn' h2 h3 (by out_tac)
  | sparqlPrefixNS =>
    cases a with
    | fail => exact stepOK_err _ _ _ _
    | rune c rest =>
      simp only [stepFnO, argInp]
      cases hp' : TtlO.producePNAME_NS C.T e C.trig s (c :: rest) with
      | panic => exact stepOK_panic _ _
      | err t o => exact stepOK_err _ _ _ _
      | ok ns rg s' r' =>
        obtain ⟨tok, h1, _⟩ := producePNAME_NS_ok _ _ _ _ _ _ _ _ _ hp'
        obtain ⟨hOn', X, h2, h3, _⟩ := tokOK_one hOn h1
        exact stepOK_ok X hOn' h2 h3 (by out_tac)
  | atPrefixIRI ns =>
    cases a with
    | fail => exact stepOK_err _ _ _ _
    | rune c rest =>
      simp only [stepFnO, argInp]
      refine iriDirective_ok C e env hOn _ _ ?_
      intro b s' r X h1 h2 h3
      exact stepOK_ok X h1 h2 h3 (by out_tac)
  | sparqlPrefixIRI ns =>
    cases a with
    | fail => exact stepOK_err _ _ _ _
    | rune c rest =>
      simp only [stepFnO, argInp]
      refine iriDirective_ok C e env hOn _ _ ?_
      intro b s' r X h1 h2 h3
      exact stepOK_ok X h1 h2 h3 (by out_tac)
  | atPrefixDot ns b =>
    cases a with
    | fail => exact stepOK_err _ _ _ _
    | rune c rest =>
      simp only [stepFnO, argInp]
      split
      · exact stepOK_err _ _ _ _
      · exact stepOK_ok [c] (by simp [hOn]) (by simp [txt_commit, hOn]) (by simp) (by out_tac)
  | subjAnonOrBNPL =>
    cases a with
    | fail => exact stepOK_err _ _ _ _
    | rune c rest =>
      simp only [stepFnO, argInp]
      split
      · exact stepOK_ok [c] (by simp [hOn]) (by simp [txt_commit, hOn]) (by simp) (by out_tac)
      · exact stepOK_ok [] hOn (by simp) (by simp) (by out_tac)
  | triplesEnd =>
    cases a with
    | fail => exact stepOK_err _ _ _ _
    | rune c rest =>
      simp only [stepFnO, argInp]
      split
      · exact stepOK_ok [c] (by simp [hOn]) (by simp [txt_commit, hOn]) (by simp) (by out_tac)
      · split <;> exact stepOK_err _ _ _ _
  | subjIRIREF =>
    cases a with
    | fail => exact stepOK_err _ _ _ _
    | rune c rest => simp only [stepFnO, argInp]; exact subjectOfO_ok hx' (termIRIREFO_ok C e env hOn _)
  | subjPName =>
    cases a with
    | fail => exact stepOK_err _ _ _ _
    | rune c rest => simp only [stepFnO, argInp]; exact subjectOfO_ok hx' (termPNameO_ok C e env hOn _)
  | subjBNode =>
    cases a with
    | fail => exact stepOK_err _ _ _ _
    | rune c rest => simp only [stepFnO, argInp]; exact subjectOfO_ok hx' (termBNodeO_ok C e env hOn _)
  | pol =>
    cases a with
    | fail => exact stepOK_err _ _ _ _
    | rune c rest => simp only [stepFnO, argInp]; exact stepPOLO_ok C e env hOn hx' c rest
  | polContinue =>
    cases a with
    | fail => exact stepOK_err _ _ _ _
    | rune c rest =>
      simp only [stepFnO, argInp]
      split
      · exact stepOK_ok [c] (by simp [hOn]) (by simp [txt_commit, hOn]) (by simp) (by out_tac)
      · exact stepOK_ok [] hOn (by simp) (by simp) (by out_tac)
  | polRequired =>
    cases a with
    | fail => exact stepOK_err _ _ _ _
    | rune c rest =>
      simp only [stepFnO, argInp]
      have := stepPOLO_ok C e env hOn hx' c rest
      cases hq : stepPOLO C e x env s c rest with
      | panic => exact stepOK_panic _ _
      | err k o => exact stepOK_err _ _ _ _
      | ok o =>
        rw [hq] at this
        simp only []
        split
        · exact stepOK_err _ _ _ _
        · exact this
  | objListContinue =>
    cases a with
    | fail => exact stepOK_err _ _ _ _
    | rune c rest =>
      simp only [stepFnO, argInp]
      split
      · exact stepOK_ok [c] (by simp [hOn]) (by simp [txt_commit, hOn]) (by simp) (by out_tac)
      · exact stepOK_ok [] hOn (by simp) (by simp) (by out_tac)
  | object =>
    cases a with
    | fail => exact stepOK_err _ _ _ _
    | rune c rest => simp only [stepFnO, argInp]; exact stepObjectO_ok C e env hOn hx' c rest
  | objectPName =>
    cases a with
    | fail => exact stepOK_err _ _ _ _
    | rune c rest => simp only [stepFnO, argInp]; exact emitOfTermO_ok hx' (termPNameO_ok C e env hOn _)
  | collOpenObj =>
    cases a with
    | fail => exact stepOK_err _ _ _ _
    | rune c rest => simp only [stepFnO, argInp]; exact stepCollectionO_ok _ hOn hx' c rest _ hr
  | collOpenSubj o =>
    simp only [stepFnO]
    rw [← orNul_argInp]
    exact stepCollectionO_ok _ hOn hx' _ _ _ hr
  | collContinue =>
    cases a with
    | fail => exact stepOK_err _ _ _ _
    | rune c rest =>
      simp only [stepFnO, argInp]
      split
      · exact stepOK_ok [c] (by simp [hOn]) (by simp [txt_commit, hOn]) (by simp) (by out_tac)
      · exact stepOK_ok [] hOn (by simp) (by simp) (by out_tac)
  | bnplEnd =>
    cases a with
    | fail => exact stepOK_err _ _ _ _
    | rune c rest =>
      simp only [stepFnO, argInp]
      split
      · exact stepOK_ok [c] (by simp [hOn]) (by simp [txt_commit, hOn]) (by simp) (by out_tac)
      · exact stepOK_err _ _ _ _
  | parenTop bn => exact stepParenO_ok true env bn hOn hx' hr a
  | parenBlock bn => exact stepParenO_ok false env bn hOn hx' hr a
  | graphLabel =>
    cases a with
    | fail => exact stepOK_err _ _ _ _
    | rune c rest =>
      simp only [stepFnO, argInp]
      split
      · exact stepOK_ok [c] (by simp [hOn]) (by simp [txt_commit, hOn]) (by simp) (by out_tac)
      · have hT : TermOK s (c :: rest) (if c.1 = 0x5f then termBNodeO C e env s (c :: rest)
              else if c.1 = 0x3c then termIRIREFO C e env s (c :: rest) else termPNameO C e env s (c :: rest)) := by
          split
          · exact termBNodeO_ok C e env hOn _
          · split
            · exact termIRIREFO_ok C e env hOn _
            · exact termPNameO_ok C e env hOn _
        generalize (if c.1 = 0x5f then termBNodeO C e env s (c :: rest)
              else if c.1 = 0x3c then termIRIREFO C e env s (c :: rest) else termPNameO C e env s (c :: rest)) = tr at hT
        cases tr with
        | panic => exact stepOK_panic _ _
        | err t o => exact stepOK_err _ _ _ _
        | ok g rg s' rr env' =>
          obtain ⟨hOn', X, h1, h2, h3⟩ := hT _ _ _ _ _ rfl
          rw [h1] at h3
          exact stepOK_ok X hOn' h1 h2 (by out_tac)
  | graphAnonClose =>
    simp only [stepFnO]
    rw [← orNul_argInp]
    split
    · exact stepOK_err _ _ _ _
    · exact stepOK_ok [a.orNul.1] (by simp [hOn]) (by simp [txt_commit, hOn]) (by simp) (by out_tac)
  | wrappedGraph =>
    cases a with
    | fail => exact stepOK_err _ _ _ _
    | rune c rest => exact stepWrappedGraphO_ok C.dbl e env hOn hx' c rest
  | wrappedGraphEnd =>
    cases a with
    | fail => exact stepOK_err _ _ _ _
    | rune c rest =>
      simp only [stepFnO, argInp]
      split
      · exact stepOK_err _ _ _ _
      · exact stepOK_ok [c] (by simp [hOn]) (by simp [txt_commit, hOn]) (by simp) (by out_tac)
  | triplesBlock =>
    cases a with
    | fail => exact stepOK_err _ _ _ _
    | rune c rest =>
      simp only [stepFnO, argInp]
      split
      · exact stepOK_ok [] hOn (by simp) (by simp) (by out_tac)
      · exact stepOK_ok [] hOn (by simp) (by simp) (by out_tac)
  | triplesBlockQuest =>
    cases a with
    | fail => exact stepOK_err _ _ _ _
    | rune c rest =>
      simp only [stepFnO, argInp]
      split
      · exact stepOK_ok [c] (by simp [hOn]) (by simp [txt_commit, hOn]) (by simp) (by out_tac)
      · split
        · exact stepOK_ok [] hOn (by simp) (by simp) (by out_tac)
        · exact stepOK_ok [] hOn (by simp) (by simp) (by out_tac)
  | triples =>
    cases a with
    | fail => exact stepOK_err _ _ _ _
    | rune c rest => simp only [stepFnO, argInp]; exact stepTriplesO_ok C env hOn hx' c rest
  | tgE1 v =>
    simp only [stepFnO]
    rw [← orNul_argInp]
    split
    · exact stepOK_ok [a.orNul.1] (by simp [hOn]) (by simp [txt_commit, hOn]) (by simp) (by out_tac)
    · cases v with
      | lit l d t => exact stepOK_panic _ _
      | iri i => exact stepOK_ok [] hOn (by simp) (by simp) (by out_tac)
      | bnode b => exact stepOK_ok [] hOn (by simp) (by simp) (by out_tac)
  | tgBracket bn =>
    simp only [stepFnO]
    rw [← orNul_argInp]
    split
    · exact stepOK_ok [a.orNul.1] (by simp [hOn]) (by simp [txt_commit, hOn]) (by simp) (by out_tac)
    · exact stepOK_ok [] hOn (by simp) (by simp) (by out_tac)
  | triples2BNPL =>
    cases a with
    | fail => exact stepOK_err _ _ _ _
    | rune c rest =>
      simp only [stepFnO, argInp]
      split
      · exact stepOK_ok [c] (by simp [hOn]) (by simp [txt_commit, hOn]) (by simp) (by out_tac)
      · exact stepOK_ok [] hOn (by simp) (by simp) (by out_tac)

/-! ### scan: white space and comments -/

def SkipOK (s : S) (unc : Chunk) (inp : List RP) : SkipO → Prop
  | .rune s' c rest => On s' ∧ ∃ ws, txt s' = txt s ++ (unc.reverse ++ ws) ∧ ws ++ c :: rest = inp
  | .end_ s' => On s' ∧ (txt s' = txt s ∨ txt s' = txt s ++ (unc.reverse ++ inp))
  | .commentIo => True

theorem skipOK_step {s : S} {c : RP} {unc : Chunk} {rest : List RP} {r : SkipO}
    (h : SkipOK (s.read c) (c :: unc) rest r) : SkipOK s unc (c :: rest) r := by
  cases r with
  | commentIo => trivial
  | end_ s' =>
    obtain ⟨h1, h2⟩ := h
    refine ⟨h1, ?_⟩
    rcases h2 with h2 | h2
    · exact Or.inl h2
    · exact Or.inr (by rw [h2]; simp)
  | rune s' c' rest' =>
    obtain ⟨h1, ws, h2, h3⟩ := h
    exact ⟨h1, c :: ws, by rw [h2]; simp, by simp [h3]⟩

theorem skipWsO_ok (C : CfgO) (e : End) : ∀ (inp : List RP) (b : Bool) (s : S) (unc : Chunk), On s →
    SkipOK s unc inp (skipWsO C e b s inp unc)
  | [], false, s, unc, hOn => ⟨hOn, Or.inl rfl⟩
  | [], true, s, unc, hOn => by
    cases e
    · exact ⟨by simp [hOn], Or.inr (by simp [txt_commit, hOn])⟩
    · trivial
  | c :: rest, true, s, unc, hOn => by
    simp only [skipWsO]
    split
    · exact skipOK_step (skipWsO_ok C e rest false (s.read c) (c :: unc) (by simpa using hOn))
    · exact skipOK_step (skipWsO_ok C e rest true (s.read c) (c :: unc) (by simpa using hOn))
  | c :: rest, false, s, unc, hOn => by
    simp only [skipWsO]
    split
    · exact skipOK_step (skipWsO_ok C e rest true (s.read c) (c :: unc) (by simpa using hOn))
    · split
      · exact skipOK_step (skipWsO_ok C e rest false (s.read c) (c :: unc) (by simpa using hOn))
      · exact ⟨by simp [hOn], [], by simp [txt_commit, hOn], by simp⟩

/-! ### discipline across one scan -/

theorem allNul_append {a b : List RP} : AllNul (a ++ b) ↔ AllNul a ∧ AllNul b := by
  simp [AllNul, or_imp, forall_and]

theorem allNul_nil : AllNul [] := by intro z hz; cases hz

/-- consumed `Y` from the front of the buffer and committed exactly `Y` -/
theorem disc_advance {inp0 : List RP} {s s2 : S} {rest rest2 Y : List RP} (hD : Disc inp0 s rest) (hOn2 : On s2)
    (ht : txt s2 = txt s ++ Y) (hr : Y ++ rest2 = rest) : Disc inp0 s2 rest2 := by
  obtain ⟨_, hD⟩ := hD
  refine ⟨hOn2, ?_⟩
  rcases hD with hL | ⟨pre, zs, h1, h2, h3, h4⟩
  · exact Or.inl (by rw [ht, List.append_assoc, hr, hL])
  · subst hr
    rw [allNul_append] at h4
    exact Or.inr ⟨pre, zs ++ Y, by rw [ht, h1, List.append_assoc], h2, allNul_append.2 ⟨h3, h4.1⟩, h4.2⟩

/-- the reader ended: everything left was read, `Y` (nothing or all of it) committed, then zero runes -/
theorem disc_dead {inp0 : List RP} {s s2 : S} {rest rest2 Y Z : List RP} (hD : Disc inp0 s rest) (hOn2 : On s2)
    (ht : txt s2 = txt s ++ Y ++ Z) (hY : Y = [] ∨ Y = rest) (hZ : AllNul Z) (hr : AllNul rest2) :
    Disc inp0 s2 rest2 := by
  obtain ⟨_, hD⟩ := hD
  refine ⟨hOn2, Or.inr ?_⟩
  rcases hD with hL | ⟨pre, zs, h1, h2, h3, h4⟩
  · rcases hY with rfl | rfl
    · exact ⟨txt s, Z, by rw [ht]; simp, hL ▸ List.prefix_append _ _, hZ, hr⟩
    · exact ⟨inp0, Z, by rw [ht, hL], List.prefix_refl _, hZ, hr⟩
  · have hYn : AllNul Y := by rcases hY with rfl | rfl; exact allNul_nil; exact h4
    exact ⟨pre, zs ++ Y ++ Z, by rw [ht, h1]; simp [List.append_assoc], h2,
      allNul_append.2 ⟨allNul_append.2 ⟨h3, hYn⟩, hZ⟩, hr⟩

theorem allNul_of_append_eq {X r : List RP} (h : X ++ r = [((0, 0) : RP)]) : AllNul X ∧ AllNul r := by
  have : AllNul (X ++ r) := by rw [h]; intro z hz; simpa using hz
  exact allNul_append.1 this

theorem scanFnO_ok (C : CfgO) (e : End) (f : FrameO) (inp0 rest : List RP) (env : Env) (s : S)
    (hD : Disc inp0 s rest) (hf : FrameIn (txt s) f) :
    ∀ o, scanFnO C e f rest env s = .ok o → Disc inp0 o.s o.inp ∧ txt s <+: txt o.s ∧ OutIn (txt o.s) o := by
  intro o ho
  have hOn := hD.1
  have hsk := skipWsO_ok C e rest false s [] hOn
  unfold scanFnO at ho
  cases hq : skipWsO C e false s rest [] with
  | commentIo => rw [hq] at ho; cases ho
  | end_ s' =>
    rw [hq] at ho hsk
    obtain ⟨hOn', ht'⟩ := hsk
    simp only [List.reverse_nil, List.nil_append] at ht'
    have hpre : txt s <+: txt s' := by
      rcases ht' with h | h <;> rw [h]
      · exact List.prefix_refl _
      · exact List.prefix_append _ _
    have ht'' : ∃ Y, txt s' = txt s ++ Y ∧ (Y = [] ∨ Y = rest) := by
      rcases ht' with h | h
      · exact ⟨[], by simp [h], Or.inl rfl⟩
      · exact ⟨rest, h, Or.inr rfl⟩
    obtain ⟨Y, hY1, hY2⟩ := ht''
    simp only at ho
    by_cases hk : f.k = .statement
    · -- reader_scanStatement / reader_scan_trigDoc at the end of the input: terminate()
      rw [hk] at ho
      cases e with
      | ioerr => simp [stepFnO] at ho
      | eof =>
        simp only [stepFnO, FnResO.ok.injEq] at ho
        subst ho
        refine ⟨disc_dead hD hOn' (Z := []) (by simpa using hY1) hY2 allNul_nil allNul_nil, hpre, ?_⟩
        unfold OutIn
        exact ⟨fun f h => (by cases h), fun f h => (by cases h), fun m h => (by cases h)⟩
    · have hstep := stepFnO_ok C e f.k env hOn' (ctxIn_mono hf.1 hpre) (rgIn_mono hf.2 hpre) .fail
        (by intro h; exact hk h.1)
      obtain ⟨g1, ⟨X, g2, g3⟩, g4⟩ := hstep o ho
      obtain ⟨hX, hr⟩ := allNul_of_append_eq g3
      exact ⟨disc_dead hD g1 (by rw [g2, hY1]) hY2 hX hr, hpre.trans (g2 ▸ List.prefix_append _ _), g4⟩
  | rune s' c rest' =>
    rw [hq] at ho hsk
    obtain ⟨hOn', ws, ht', hws⟩ := hsk
    simp only [List.reverse_nil, List.nil_append] at ht'
    have hpre : txt s <+: txt s' := ht' ▸ List.prefix_append _ _
    simp only at ho
    have hstep := stepFnO_ok C e f.k env hOn' (ctxIn_mono hf.1 hpre) (rgIn_mono hf.2 hpre) (.rune c rest')
      (by intro h; cases h.2)
    obtain ⟨g1, ⟨X, g2, g3⟩, g4⟩ := hstep o ho
    refine ⟨disc_advance hD g1 (Y := ws ++ X) (by rw [g2, ht', List.append_assoc]) ?_,
      hpre.trans (g2 ▸ List.prefix_append _ _), g4⟩
    rw [List.append_assoc, g3]; exact hws

/-! ### the decoder object -/

def InvC (inp : List RP) (cur : Option FrameO) (st : StO) : Prop :=
  Inv inp st ∧ ∀ f, cur = some f → FrameIn (txt st.s) f

theorem scanO_inv (C : CfgO) (e : End) (f : FrameO) (st : StO) (inp : List RP) (hI : Inv inp st)
    (hf : FrameIn (txt st.s) f) : ∀ cur st2, scanO C e f st = .ok cur st2 → InvC inp cur st2 := by
  intro cur st2 h
  unfold scanO at h
  cases hq : scanFnO C e f st.inp st.env st.s with
  | panic => rw [hq] at h; cases h
  | err k o => rw [hq] at h; cases h
  | ok o =>
    rw [hq] at h
    simp only [ScanResO.ok.injEq] at h
    obtain ⟨rfl, rfl⟩ := h
    obtain ⟨hD, hpre, hc, hpush, hemit⟩ := scanFnO_ok C e f inp st.inp st.env st.s hI.1 hf o hq
    refine ⟨⟨hD, ?_, ?_⟩, hc⟩
    · intro g hg
      simp only [applyOutO] at hg
      split at hg
      · cases hg
      · simp only [List.mem_append, List.mem_reverse] at hg
        rcases hg with hg | hg
        · exact hpush g hg
        · exact frameIn_mono (hI.2.1 g hg) hpre
    · intro m hm
      simp only [applyOutO, List.mem_append, Option.mem_toList] at hm
      rcases hm with hm | hm
      · exact stmtIn_mono (hI.2.2 m hm) hpre
      · exact hemit m hm

def NextInv (inp : List RP) : NextResO → Prop
  | .yes st => Inv inp st
  | .no st => Inv inp st
  | .panic => True
  | .outOfFuel => True

theorem nextLoopO_inv (C : CfgO) (e : End) (inp : List RP) : ∀ (fuel : Nat) (cur : Option FrameO) (st : StO),
    InvC inp cur st → NextInv inp (nextLoopO C e fuel cur st)
  | 0, _, _, _ => trivial
  | fuel + 1, cur, st, h => by
    simp only [nextLoopO]
    split
    · exact h.1
    · split
      · -- Next() = true: rsNext is pushed back
        cases cur with
        | none => exact h.1
        | some f =>
          refine ⟨h.1.1, ?_, h.1.2.2⟩
          intro g hg
          simp only [pushCurO, List.mem_cons] at hg
          rcases hg with rfl | hg
          · exact h.2 g rfl
          · exact h.1.2.1 g hg
      · cases hq : popFrameO cur st with
        | none => exact h.1
        | some p =>
          obtain ⟨f, st1⟩ := p
          have hp : Inv inp st1 ∧ FrameIn (txt st1.s) f := by
            cases cur with
            | some g =>
              simp only [popFrameO, Option.some.injEq, Prod.mk.injEq] at hq
              obtain ⟨rfl, rfl⟩ := hq
              exact ⟨h.1, h.2 g rfl⟩
            | none =>
              simp only [popFrameO] at hq
              cases hs : st.stack with
              | nil => rw [hs] at hq; cases hq
              | cons g rest =>
                rw [hs] at hq
                simp only [Option.some.injEq, Prod.mk.injEq] at hq
                obtain ⟨rfl, rfl⟩ := hq
                refine ⟨⟨h.1.1, ?_, h.1.2.2⟩, h.1.2.1 g (by rw [hs]; exact List.mem_cons_self)⟩
                intro g' hg'
                exact h.1.2.1 g' (by rw [hs]; exact List.mem_cons_of_mem _ hg')
          simp only []
          cases hs : scanO C e f st1 with
          | panic => trivial
          | err k o => exact nextLoopO_inv C e inp fuel none _ ⟨⟨hp.1.1, hp.1.2.1, hp.1.2.2⟩, fun g hg => by cases hg⟩
          | ok cur' st2 => exact nextLoopO_inv C e inp fuel cur' st2 (scanO_inv C e f st1 inp hp.1 hp.2 cur' st2 hs)

theorem nextO_inv (C : CfgO) (e : End) (inp : List RP) (st : StO) (h : Inv inp st) :
    NextInv inp (nextO C e st) := by
  unfold nextO
  refine nextLoopO_inv C e inp _ none _ ⟨⟨h.1, h.2.1, ?_⟩, fun g hg => by cases hg⟩
  intro m hm
  exact h.2.2 m (List.mem_of_mem_drop hm)

theorem initO_inv (base : Option (List Nat)) (prefixes : List (List Nat × List Nat)) (inp : List RP) :
    Inv inp (initO true base prefixes inp) := by
  refine ⟨⟨rfl, Or.inl rfl⟩, ?_, fun m hm => by cases hm⟩
  intro f hf
  simp only [initO, List.mem_singleton] at hf
  subst hf
  exact ⟨⟨rgIn_none _, rgIn_none _, rgIn_none _⟩, rgIn_none _⟩

/-! ### ranges inside the document -/

theorem prefix_of_append {l p zs : List RP} (h : l <+: p ++ zs) : ∃ p' zs', l = p' ++ zs' ∧ p' <+: p ∧ zs' <+: zs := by
  induction p generalizing l with
  | nil => exact ⟨[], l, rfl, List.prefix_refl _, by simpa using h⟩
  | cons a p ih =>
    cases l with
    | nil => exact ⟨[], [], rfl, List.nil_prefix, List.nil_prefix⟩
    | cons b l =>
      simp only [List.cons_append, List.cons_prefix_cons] at h
      obtain ⟨rfl, h⟩ := h
      obtain ⟨p', zs', h1, h2, h3⟩ := ih h
      exact ⟨b :: p', zs', by simp [h1], by simp [List.cons_prefix_cons, h2], h3⟩

theorem rgInside_of {inp : List RP} {s : S} {rest : List RP} {rg : Rg} (hD : Disc inp s rest)
    (h : RgIn (txt s) rg) : RgInside inp rg := by
  intro r hr
  obtain ⟨h1, h2⟩ := h r hr
  refine ⟨h1, ?_⟩
  rcases hD.2 with hL | ⟨pre, zs, g1, g2, g3, _⟩
  · exact ⟨histRunes r.2, [], by simp, h2.trans (hL ▸ List.prefix_append _ _), allNul_nil⟩
  · rw [g1] at h2
    obtain ⟨p', zs', k1, k2, k3⟩ := prefix_of_append h2
    refine ⟨p', zs', k1, k2.trans g2, ?_⟩
    intro z hz
    exact g3 z (k3.subset hz)

/-- every range of a statement lies inside the document -/
def StmtInside (inp : List RP) (m : StmtO) : Prop :=
  RgInside inp m.rg.s ∧ RgInside inp m.rg.p ∧ RgInside inp m.rg.o ∧ RgInside inp m.rg.g

theorem runLoopO_inside (C : CfgO) (e : End) (inp : List RP) : ∀ (n : Nat) (st : StO), Inv inp st →
    ∀ m ∈ (runLoopO C e n st).stmts, StmtInside inp m
  | 0, _, _ => by intro m hm; cases hm
  | n + 1, st, h => by
    intro m hm
    simp only [runLoopO] at hm
    have hn := nextO_inv C e inp st h
    cases hq : nextO C e st with
    | panic => rw [hq] at hm; cases hm
    | outOfFuel => rw [hq] at hm; cases hm
    | no st' =>
      rw [hq] at hm
      simp only at hm
      split at hm <;> cases hm
    | yes st' =>
      rw [hq] at hm hn
      simp only at hm
      cases hs : st'.stmts with
      | nil => rw [hs] at hm; cases hm
      | cons s0 ss =>
        rw [hs] at hm
        simp only [List.mem_cons] at hm
        rcases hm with rfl | hm
        · have := hn.2.2 m (by rw [hs]; exact List.mem_cons_self)
          exact ⟨rgInside_of hn.1 this.1, rgInside_of hn.1 this.2.1, rgInside_of hn.1 this.2.2.1,
            rgInside_of hn.1 this.2.2.2⟩
        · exact runLoopO_inside C e inp n st' hn m hm

end RdfModel.Proofs.C16TtlDocO
