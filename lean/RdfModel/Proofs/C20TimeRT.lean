/-
  C20 (date/time family): parse ∘ format. Per layout element, `GoTime.step` applied to the text
  `GoTime.fmtTok` writes for an in-range field reads that field back and leaves the rest.
-/
import RdfModel.Proofs.C20Time
namespace RdfModel.Proofs.C20Time
open RdfModel RdfModel.GoTime
open RdfModel.Xsd (Tok Bytes layoutToks nextIsFrac)

theorem isDigit_add {x : Nat} (h : x < 10) : Xsd.isDigit (0x30 + x) = true := by
  simp [Xsd.isDigit]; omega

theorem dig_add (x : Nat) : dig (0x30 + x) = x := by simp [dig]

theorem getnum2_pad2 {n : Nat} (h : n < 100) (rest : Bytes) : getnum2 (pad2 n ++ rest) = some (n, rest) := by
  have h1 : n / 10 % 10 < 10 := Nat.mod_lt _ (by decide)
  have h2 : n % 10 < 10 := Nat.mod_lt _ (by decide)
  simp only [pad2, List.cons_append, List.nil_append, getnum2, isDigit_add h1, isDigit_add h2, dig_add, Bool.and_self, if_true]
  congr 2; omega

theorem getnum1_pad2 {n : Nat} (h : n < 100) (rest : Bytes) : getnum1 (pad2 n ++ rest) = some (n, rest, false) := by
  have h1 : n / 10 % 10 < 10 := Nat.mod_lt _ (by decide)
  have h2 : n % 10 < 10 := Nat.mod_lt _ (by decide)
  simp only [pad2, List.cons_append, List.nil_append, getnum1, isDigit_add h1, isDigit_add h2, dig_add]
  simp; omega

theorem getYear_pad4 {y : Nat} (h : y < 10000) (rest : Bytes) : getYear (pad4 y ++ rest) = some (y, rest) := by
  have h1 : y / 1000 % 10 < 10 := Nat.mod_lt _ (by decide)
  have h2 : y / 100 % 10 < 10 := Nat.mod_lt _ (by decide)
  have h3 : y / 10 % 10 < 10 := Nat.mod_lt _ (by decide)
  have h4 : y % 10 < 10 := Nat.mod_lt _ (by decide)
  simp only [pad4, List.cons_append, List.nil_append, getYear, isDigit_add h1, isDigit_add h2, isDigit_add h3, isDigit_add h4,
    dig_add, Bool.and_self, if_true]
  congr 2; omega

theorem sf_lit (ts : List Tok) (b : Nat) (st : PS) (rest : Bytes) : step ts (.lit b) st (b :: rest) = some (st, rest) := by
  simp [step]

theorem sf_year (ts : List Tok) (st : PS) {y : Nat} (h : y < 10000) (rest : Bytes) :
    step ts .year st (pad4 y ++ rest) = some ({ st with t := { st.t with year := y } }, rest) := by
  simp [step, getYear_pad4 h]

theorem sf_month (ts : List Tok) (st : PS) {m : Nat} (h1 : 1 ≤ m) (h2 : m ≤ 12) (rest : Bytes) :
    step ts .month st (pad2 m ++ rest) = some ({ st with t := { st.t with month := some m } }, rest) := by
  have : ¬ (m = 0 ∨ 12 < m) := by omega
  simp [step, getnum2_pad2 (by omega : m < 100), this]

theorem sf_day (ts : List Tok) (st : PS) {d : Nat} (h : d < 100) (rest : Bytes) :
    step ts .day st (pad2 d ++ rest) = some ({ st with t := { st.t with day := some d } }, rest) := by
  simp [step, getnum2_pad2 h]

theorem sf_hour (ts : List Tok) (st : PS) {h : Nat} (hh : h < 24) (rest : Bytes) :
    step ts .hour st (pad2 h ++ rest) = some ({ t := { st.t with hour := h }, n := { st.n with hour1 := false } }, rest) := by
  have : ¬ 24 ≤ h := by omega
  simp [step, getnum1_pad2 (by omega : h < 100), this]

theorem sf_minute (ts : List Tok) (st : PS) {m : Nat} (h : m < 60) (rest : Bytes) :
    step ts .minute st (pad2 m ++ rest) = some ({ st with t := { st.t with min := m } }, rest) := by
  have : ¬ 60 ≤ m := by omega
  simp [step, getnum2_pad2 (by omega : m < 100), this]

/-- the seconds element when no fraction follows in the text, or the layout continues with one -/
theorem sf_second (ts : List Tok) (st : PS) {s : Nat} (h : s < 60) {rest : Bytes}
    (hr : nextIsFrac ts = true ∨ TailHead rest) :
    step ts .second st (pad2 s ++ rest) = some ({ st with t := { st.t with sec := s } }, rest) := by
  have : ¬ 60 ≤ s := by omega
  simp only [step, getnum2_pad2 (by omega : s < 100), this, if_false]
  match rest, hr with
  | [], _ => rfl
  | [_], _ => rfl
  | p :: d :: r2, hr =>
    simp only
    rcases hr with hf | ht
    · simp [hf]
    · have := ht p (d :: r2) rfl
      have hp : ¬ (p = 0x2E ∨ p = 0x2C) := by omega
      simp [hp]
theorem natVal_pad9 {ns : Nat} (h : ns < 1000000000) : natVal (pad9 ns) 0 = ns := by
  simp only [pad9, natVal, dig_add]
  omega

theorem pad9_digits (ns : Nat) : (pad9 ns).all Xsd.isDigit = true := by
  simp only [pad9, List.all_cons, List.all_nil, Bool.and_true, Bool.and_eq_true]
  refine ⟨?_, ?_, ?_, ?_, ?_, ?_, ?_, ?_, ?_⟩ <;> exact isDigit_add (Nat.mod_lt _ (by decide))

theorem atoi_digits {c : Nat} {t : Bytes} (h : (c :: t).all Xsd.isDigit = true) :
    atoi (c :: t) = some (false, false, natVal (c :: t) 0) := by
  have hc : Xsd.isDigit c = true := by
    simp only [List.all_cons, Bool.and_eq_true] at h; exact h.1
  have h1 : ¬ c = 0x2D := by intro e; subst e; revert hc; decide
  have h2 : ¬ c = 0x2B := by intro e; subst e; revert hc; decide
  simp only [atoi, h1, h2, if_false, h, if_true]

theorem parseNanos_pad9 {ns : Nat} (h : ns < 1000000000) (rest : Bytes) :
    parseNanos (0x2E :: pad9 ns ++ rest) 10 = some { ns := ns, comma := false, signed := false } := by
  have hd := pad9_digits ns
  have hv := natVal_pad9 h
  have htake : List.take 9 (pad9 ns ++ rest) = pad9 ns := by simp [pad9]
  have ha : atoi (pad9 ns) = some (false, false, ns) := by
    have := atoi_digits (c := 0x30 + ns / 100000000 % 10) (t := (pad9 ns).tail) (by simpa [pad9] using hd)
    have e : (0x30 + ns / 100000000 % 10) :: (pad9 ns).tail = pad9 ns := by simp [pad9]
    rw [e, hv] at this; exact this
  simp [parseNanos, htake, ha]

theorem sf_frac (ts : List Tok) (st : PS) {ns : Nat} (h : ns < 1000000000) (rest : Bytes) :
    step ts (.frac0 9 0x2E) st (0x2E :: pad9 ns ++ rest) =
      some ({ t := { st.t with nsec := ns }, n := { st.n with comma := false, fsign := false } }, rest) := by
  have hl : ¬ (0x2E :: pad9 ns ++ rest).length < 1 + 9 := by simp [pad9]
  have hdrop : (0x2E :: pad9 ns ++ rest).drop (1 + 9) = rest := by simp [pad9]
  simp only [step, hl, if_false, parseNanos_pad9 h, hdrop]

/-- the zone element on `Z` -/
theorem sf_tz_Z (ts : List Tok) (st : PS) (rest : Bytes) :
    step ts .tz st (0x5A :: rest) = some ({ st with t := { st.t with zone := some 0 } }, rest) := by
  simp [step]

/-- the zone element on `±hh:mm` as Format writes it -/
theorem sf_tz_num (ts : List Tok) (st : PS) {sg hr mm : Nat} (hs : sg = 0x2B ∨ sg = 0x2D) (h1 : hr ≤ 24) (h2 : mm ≤ 59)
    (rest : Bytes) :
    step ts .tz st (sg :: (pad2 hr ++ [0x3A] ++ pad2 mm) ++ rest) =
      some ({ t := { st.t with zone := some (if sg = 0x2B then (((hr * 60 + mm) * 60 : Nat) : Int)
                                              else -(((hr * 60 + mm) * 60 : Nat) : Int)) },
              n := { st.n with tzWide := !tzInXsd hr mm } }, rest) := by
  have e1 := getnum2_pad2 (by omega : hr < 100) []
  have e2 := getnum2_pad2 (by omega : mm < 100) []
  simp only [pad2, List.cons_append, List.nil_append] at e1 e2
  have hz : ¬ sg = 0x5A := by omega
  have hrange : ¬ (hr > 24 ∨ mm > 60) := by omega
  simp only [step, pad2, List.cons_append, List.nil_append, hz, if_false, e1, e2, hrange, ne_eq, not_true_eq_false]
  rcases hs with rfl | rfl <;> simp

/-! ### composition over a layout prefix -/

/-- the field a layout element carries, copied from `v` (month/day as time.Parse stores them) -/
def setT (v : PT) : Tok → PT → PT
  | .year, s => { s with year := v.year }
  | .month, s => { s with month := some (v.month.getD 1) }
  | .day, s => { s with day := some (v.day.getD 1) }
  | .hour, s => { s with hour := v.hour }
  | .minute, s => { s with min := v.min }
  | .second, s => { s with sec := v.sec }
  | .frac0 _ _, s => { s with nsec := v.nsec }
  | _, s => s

/-- what reading a text written by Format does to the notes -/
def setN : Tok → Notes → Notes
  | .hour, n => { n with hour1 := false }
  | .frac0 _ _, n => { n with comma := false, fsign := false }
  | _, n => n

def stepSt (v : PT) (tok : Tok) (st : PS) : PS := { t := setT v tok st.t, n := setN tok st.n }

/-- the field of `v` that a (non-zone) layout element prints is in the range Format/Parse agree on -/
def TokOK (v : PT) : Tok → Prop
  | .lit _ => True
  | .year => v.year < 10000
  | .month => 1 ≤ v.month.getD 1 ∧ v.month.getD 1 ≤ 12
  | .day => v.day.getD 1 < 100
  | .hour => v.hour < 24
  | .minute => v.min < 60
  | .second => v.sec < 60
  | .frac0 n sep => n = 9 ∧ sep = 0x2E ∧ v.nsec < 1000000000
  | .tz => False
  | .unknown => False

theorem step_fmt (v : PT) (ts : List Tok) (tok : Tok) (st : PS) (rest : Bytes) (hok : TokOK v tok)
    (hsec : tok = .second → nextIsFrac ts = true ∨ TailHead rest) :
    step ts tok st (fmtTok v tok ++ rest) = some (stepSt v tok st, rest) := by
  cases tok with
  | lit b => exact sf_lit ts b st rest
  | year => exact sf_year ts st hok rest
  | month => exact sf_month ts st hok.1 hok.2 rest
  | day => exact sf_day ts st hok rest
  | hour => exact sf_hour ts st hok rest
  | minute => exact sf_minute ts st hok rest
  | second => exact sf_second ts st hok (hsec rfl)
  | frac0 n sep =>
    obtain ⟨rfl, rfl, hns⟩ := hok
    have : fmtTok v (.frac0 9 0x2E) = 0x2E :: pad9 v.nsec := by simp [fmtTok, pad9]
    rw [this]
    exact sf_frac ts st hns rest
  | tz => exact absurd hok (by simp [TokOK])
  | unknown => exact absurd hok (by simp [TokOK])

/-- a layout prefix without zone element whose fields are in range and whose seconds are followed
    either by a fraction element or by text that is not a fraction -/
def WF (v : PT) (ts2 : List Tok) (rest : Bytes) : List Tok → Prop
  | [] => True
  | tok :: p => TokOK v tok ∧ (tok = .second → nextIsFrac (p ++ ts2) = true ∨ TailHead (formatWith p v ++ rest)) ∧
      WF v ts2 rest p

def foldSt (v : PT) : List Tok → PS → PS
  | [], st => st
  | tok :: p, st => foldSt v p (stepSt v tok st)

/-- parse ∘ format over a layout prefix, any continuation -/
theorem rt_prefix (v : PT) (ts2 : List Tok) (rest : Bytes) :
    ∀ (pre : List Tok) (st : PS), WF v ts2 rest pre →
      parseToks (pre ++ ts2) st (formatWith pre v ++ rest) = parseToks ts2 (foldSt v pre st) rest := by
  intro pre
  induction pre with
  | nil => intro st _; simp [formatWith, foldSt]
  | cons tok p ih =>
    intro st hwf
    obtain ⟨hok, hsec, hwf'⟩ := hwf
    have hf : formatWith (tok :: p) v ++ rest = fmtTok v tok ++ (formatWith p v ++ rest) := by
      simp [formatWith, List.flatMap_cons, List.append_assoc]
    rw [hf, List.cons_append]
    simp only [parseToks]
    rw [step_fmt v (p ++ ts2) tok st _ hok hsec]
    simp only [Option.bind_some, foldSt]
    exact ih _ hwf'

end RdfModel.Proofs.C20Time
