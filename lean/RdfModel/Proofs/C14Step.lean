/-
  C14 helper lemmas, part 2: every step extends the state (`Ext`) and preserves the invariant (`Inv`).
-/
import RdfModel.Proofs.C14Basic
namespace RdfModel.Proofs.C14
open RdfModel.BN RdfModel.C14

/-! ### `Ext` is a preorder -/

theorem Ext.refl (s : State) : Ext s s where
  dflt := Nat.le_refl _
  bnfs := fun _ c h => ⟨c, h, Nat.le_refl _⟩
  strfs := fun _ _ h => h
  int64s := fun _ p h => ⟨p, h, rfl, fun _ _ h => h⟩
  uuids := fun _ p h => ⟨p, h, rfl, fun _ _ h => h⟩
  mappers := fun _ p h => ⟨p, h, rfl, fun _ _ h => h⟩
  uuidPos := Nat.le_refl _

theorem Ext.trans {a b c : State} (h1 : Ext a b) (h2 : Ext b c) : Ext a c where
  dflt := Nat.le_trans h1.dflt h2.dflt
  bnfs := fun f x hx => by
    obtain ⟨y, hy, hxy⟩ := h1.bnfs f x hx
    obtain ⟨z, hz, hyz⟩ := h2.bnfs f y hy
    exact ⟨z, hz, Nat.le_trans hxy hyz⟩
  strfs := fun j x hx => h2.strfs j x (h1.strfs j x hx)
  int64s := fun i p hp => by
    obtain ⟨q, hq, hf, hk⟩ := h1.int64s i p hp
    obtain ⟨r, hr, hf', hk'⟩ := h2.int64s i q hq
    exact ⟨r, hr, hf'.trans hf, fun k v h => hk' k v (hk k v h)⟩
  uuids := fun i p hp => by
    obtain ⟨q, hq, hf, hk⟩ := h1.uuids i p hp
    obtain ⟨r, hr, hf', hk'⟩ := h2.uuids i q hq
    exact ⟨r, hr, hf'.trans hf, fun k v h => hk' k v (hk k v h)⟩
  mappers := fun i p hp => by
    obtain ⟨q, hq, hf, hk⟩ := h1.mappers i p hp
    obtain ⟨r, hr, hf', hk'⟩ := h2.mappers i q hq
    exact ⟨r, hr, hf'.trans hf, fun k v h => hk' k v (hk k v h)⟩
  uuidPos := Nat.le_trans h1.uuidPos h2.uuidPos

theorem issued_mono {s s' : State} (h : Ext s s') {id : Ident} (hi : Issued s id) : Issued s' id := by
  cases id with
  | bn f v =>
    obtain ⟨c, hc, hv⟩ := hi
    obtain ⟨c', hc', hcc⟩ := h.bnfs f c hc
    exact ⟨c', hc', Nat.le_trans hv hcc⟩
  | bnDefault v => exact Nat.le_trans hi h.dflt
  | bnString f v => trivial

theorem lt_length_of_getElem? {α : Type} {l : List α} {i : Nat} {x : α} (h : l[i]? = some x) : i < l.length :=
  (List.getElem?_eq_some_iff.mp h).1

theorem validFactory_mono {s s' : State} (h : Ext s s') {f : FactoryRef} (hv : validFactory s f = true) :
    validFactory s' f = true := by
  cases f with
  | dflt => rfl
  | bnf i =>
    simp [validFactory] at hv ⊢
    obtain ⟨c', hc', _⟩ := h.bnfs i s.bnfs[i] (by simp [hv])
    exact lt_length_of_getElem? hc'
  | strf j =>
    simp [validFactory] at hv ⊢
    have := h.strfs j s.strfs[j] (by simp [hv])
    exact lt_length_of_getElem? this

/-- appending to a list keeps the existing entries -/
theorem getElem?_append_some {α : Type} {l : List α} {i : Nat} {x : α} (y : List α) (h : l[i]? = some x) :
    (l ++ y)[i]? = some x := by
  rw [List.getElem?_append_left (lt_length_of_getElem? h)]; exact h

/-! ### `fresh` -/

theorem ext_of_fresh {s s' : State} {f : FactoryRef} {id : Ident} (h : fresh s f = some (s', id)) : Ext s s' := by
  obtain ⟨h1, h2, h3, h4, h5, _, h7, h8, _, _⟩ := fresh_spec h
  exact {
    dflt := h7
    bnfs := h8
    strfs := fun j a ha => by rw [h1]; exact ha
    int64s := fun i p hp => ⟨p, by rw [h2]; exact hp, rfl, fun _ _ h => h⟩
    uuids := fun i p hp => ⟨p, by rw [h3]; exact hp, rfl, fun _ _ h => h⟩
    mappers := fun i p hp => ⟨p, by rw [h4]; exact hp, rfl, fun _ _ h => h⟩
    uuidPos := by rw [h5]; exact Nat.le_refl _ }

theorem inv_of_fresh {s s' : State} {f : FactoryRef} {id : Ident} (hI : Inv s) (h : fresh s f = some (s', id)) :
    Inv s' := by
  have hE := ext_of_fresh h
  obtain ⟨h1, h2, h3, h4, h5, h6, _, _, _, _⟩ := fresh_spec h
  exact {
    strfs_valid := fun j a ha => by rw [h1] at ha; rw [h6]; exact hI.strfs_valid j a ha
    mapper_factory := fun m mp hm => by rw [h4] at hm; exact validFactory_mono hE (hI.mapper_factory m mp hm)
    mapper_issued := fun m mp hm k v hk => by rw [h4] at hm; exact issued_mono hE (hI.mapper_issued m mp hm k v hk)
    mapper_inj := fun m mp hm => by rw [h4] at hm; exact hI.mapper_inj m mp hm
    int64_bound := fun i p hp => by rw [h2] at hp; exact hI.int64_bound i p hp
    int64_inj := fun i p hp => by rw [h2] at hp; exact hI.int64_inj i p hp
    uuid_bound := fun i p hp => by rw [h3] at hp; rw [h5]; exact hI.uuid_bound i p hp
    uuid_inj := fun i p hp => by rw [h3] at hp; exact hI.uuid_inj i p hp }

/-- under the invariant, a valid factory always delivers -/
theorem fresh_isSome {s : State} (hI : Inv s) {f : FactoryRef} (hv : validFactory s f = true) :
    ∃ s' id, fresh s f = some (s', id) := by
  cases f with
  | dflt => exact ⟨_, _, rfl⟩
  | bnf i =>
    simp [validFactory] at hv
    simp [fresh, List.getElem?_eq_getElem hv]
  | strf j =>
    simp [validFactory] at hv
    have ha := hI.strfs_valid j s.strfs[j] (by simp [hv])
    simp [fresh, List.getElem?_eq_getElem hv, List.getElem?_eq_getElem ha]

/-! ### `getLabel` -/

theorem getLabel_ext (U : Nat → Bytes) (s : State) (p : ProvRef) (n : Node) : Ext s (getLabel U s p n).1 := by
  induction p with
  | int64 i =>
    simp only [getLabel]
    split
    · exact Ext.refl s
    · rename_i pr hp
      split
      · exact Ext.refl s
      · rename_i hn
        refine { Ext.refl s with int64s := ?_ }
        intro i' p' hp'
        simp only [List.getElem?_set]
        by_cases hii : i = i'
        · subst hii
          rw [hp] at hp'; cases hp'
          simp [lt_length_of_getElem? hp]
          intro k v hk
          exact assoc_cons_of_none hn hk
        · simp [hii]; exact ⟨p', hp', rfl, fun _ _ h => h⟩
  | uuid i =>
    simp only [getLabel]
    split
    · exact Ext.refl s
    · rename_i pr hp
      split
      · exact Ext.refl s
      · rename_i hn
        refine { Ext.refl s with uuids := ?_, uuidPos := by simp }
        intro i' p' hp'
        simp only [List.getElem?_set]
        by_cases hii : i = i'
        · subst hii
          rw [hp] at hp'; cases hp'
          simp [lt_length_of_getElem? hp]
          intro k v hk
          exact assoc_cons_of_none hn hk
        · simp [hii]; exact ⟨p', hp', rfl, fun _ _ h => h⟩
  | pass scope fb ih =>
    simp only [getLabel]
    split
    · split
      · exact Ext.refl s
      · exact ih
    · exact ih

theorem getLabel_inv (U : Nat → Bytes) {s : State} (hI : Inv s) (p : ProvRef) (n : Node) :
    Inv (getLabel U s p n).1 := by
  induction p with
  | int64 i =>
    simp only [getLabel]
    split
    · exact hI
    · rename_i pr hp
      split
      · exact hI
      · rename_i hn
        have hlt := lt_length_of_getElem? hp
        refine { hI with int64_bound := ?_, int64_inj := ?_ }
        · intro i' p' hp' k v hk
          simp only [List.getElem?_set] at hp'
          by_cases hii : i = i'
          · subst hii
            simp [hlt] at hp'; subst hp'
            simp at hk ⊢
            rcases hk with ⟨_, rfl⟩ | hk
            · omega
            · have := hI.int64_bound i pr hp k v hk; omega
          · simp [hii] at hp'; exact hI.int64_bound i' p' hp' k v hk
        · intro i' p' hp' k k' v hk hk'
          simp only [List.getElem?_set] at hp'
          by_cases hii : i = i'
          · subst hii
            simp [hlt] at hp'; subst hp'
            simp at hk hk'
            rcases hk with ⟨rfl, rfl⟩ | hk <;> rcases hk' with ⟨rfl, hv⟩ | hk'
            · rfl
            · have := hI.int64_bound i pr hp k' _ hk'; omega
            · have := hI.int64_bound i pr hp k _ hk; omega
            · exact hI.int64_inj i pr hp k k' v hk hk'
          · simp [hii] at hp'; exact hI.int64_inj i' p' hp' k k' v hk hk'
  | uuid i =>
    simp only [getLabel]
    split
    · exact hI
    · rename_i pr hp
      split
      · exact hI
      · rename_i hn
        have hlt := lt_length_of_getElem? hp
        refine { hI with uuid_bound := ?_, uuid_inj := ?_ }
        · intro i' p' hp' k v hk
          simp only [List.getElem?_set] at hp'
          by_cases hii : i = i'
          · subst hii
            simp [hlt] at hp'; subst hp'
            simp at hk ⊢
            rcases hk with ⟨_, rfl⟩ | hk
            · omega
            · have := hI.uuid_bound i pr hp k v hk; omega
          · simp [hii] at hp'
            have := hI.uuid_bound i' p' hp' k v hk
            simp; omega
        · intro i' p' hp' k k' v hk hk'
          simp only [List.getElem?_set] at hp'
          by_cases hii : i = i'
          · subst hii
            simp [hlt] at hp'; subst hp'
            simp at hk hk'
            rcases hk with ⟨rfl, rfl⟩ | hk <;> rcases hk' with ⟨rfl, hv⟩ | hk'
            · rfl
            · have := hI.uuid_bound i pr hp k' _ hk'; omega
            · have := hI.uuid_bound i pr hp k _ hk; omega
            · exact hI.uuid_inj i pr hp k k' v hk hk'
          · simp [hii] at hp'; exact hI.uuid_inj i' p' hp' k k' v hk hk'
  | pass scope fb ih =>
    simp only [getLabel]
    split
    · split
      · exact hI
      · exact ih
    · exact ih

end RdfModel.Proofs.C14
