package main

// Correspondence of the Next/Err wrapper with the Lean model RdfModel.Model.Latch (driver op
// "latch.run"): for the buffered decoders the observable trace of a run is determined by
// (statements yielded, error or not); the model replays the wrapper on that script and must
// predict the same tail: Next stays false, Err stays what it was.

import (
	"fmt"

	"verifharness/vh"
)

type latchObservation struct {
	Format string
	N      int
	Err    bool
	LifeOK bool
}

var decoderType = map[string]string{
	"nt": "encoding/ntriples.Decoder", "nq": "encoding/nquads.Decoder", "ttl": "encoding/turtle.Decoder", "trig": "encoding/trig.Decoder",
	"rdfjson": "encoding/rdfjson.Decoder", "rdfxml": "encoding/rdfxml.Decoder", "jsonld": "encoding/jsonld.Decoder", "rdfa": "encoding/htmlrdfa.Decoder",
	"microdata": "encoding/htmlmicrodata.Decoder", "htmljsonld": "encoding/htmljsonld.Decoder", "html": "encoding/html/htmldefaults.Decoder",
}

func (e *engine) latchCorrespondence(driver string) {
	if len(e.latchObs) == 0 {
		return
	}
	var lines []string
	for _, o := range e.latchObs {
		n := o.N
		if n > 50 {
			n = 50
		}
		lines = append(lines, fmt.Sprintf("latch.run %s %d %s 3", decoderType[o.Format], n, b01(o.Err)))
	}
	res, err := vh.Driver{Path: driver}.Run(lines)
	if err != nil {
		e.rep.Add(vh.Case{Kind: "disagreement", Op: "latch.run", Detail: "driver: " + err.Error()})
		return
	}
	for i, o := range e.latchObs {
		n := o.N
		if n > 50 {
			n = 50
		}
		// what Go showed: n times true, then false four times, error flag constant after the first false
		want := fmt.Sprintf("T%d F4 err=%s stable", n, b01(o.Err))
		if !o.LifeOK {
			want = "life-cycle oracle failed on the implementation"
		}
		e.rep.Compared++
		if res[i] != want {
			e.rep.Add(vh.Case{Kind: "disagreement", Op: lines[i], Go: want, Model: res[i], Detail: "Next/Err wrapper trace differs from Model.Latch"})
		}
	}
}
