/-
  Part C12W — the fragment layer of `url.Parse`, `ParseIRI` and `ParsedIRI.String` on `InLang`.
-/
import RdfModel.Proofs.C12WrapParse
namespace RdfModel.C12W
open RdfModel.GoUrlFull RdfModel.PIRI
open RdfModel.Spec.RFC3986 (Parts recompose schemePart authorityPart queryPart fragmentPart)

theorem reclass_stable {u : URL} (h : (reclassify u).1 = u) : reclassGuard u = true → u.path = [] := by
  intro hg
  cases hp : u.path with
  | nil => rfl
  | cons c p =>
    exfalso
    unfold reclassify at h
    simp only [hg, if_true, hp, List.isEmpty_cons, Bool.not_false] at h
    have := congrArg URL.path h
    simp [hp] at this

theorem reclass_of_stable (u : URL) (h : reclassGuard u = true → u.path = []) : (reclassify u).1 = u := by
  unfold reclassify
  by_cases hg : reclassGuard u = true
  · have hp := h hg
    have ho : u.opaq = [] := by
      unfold reclassGuard at hg
      simp only [Bool.and_eq_true] at hg
      exact List.isEmpty_iff.mp hg.2
    cases u
    simp_all
  · simp [hg]

theorem str_with_frag (u : URL) (hf : u.fragment = []) (frag rf : Str) (hne : frag ≠ []) :
    ({ u with fragment := frag, rawFragment := rf } : URL).str =
      u.str ++ 0x23 :: ({ u with fragment := frag, rawFragment := rf } : URL).escapedFragment := by
  unfold URL.str
  simp only [hf, List.isEmpty_nil, Bool.not_true, Bool.false_eq_true, if_false, isEmpty_false_of_ne hne, Bool.not_false, if_true]
  rfl

theorem frag_facts {f : Str} (h : fragOk f = true) :
    (∃ r, unescape .fragment f = .ok r) ∧ 0x23 ∉ f := by
  unfold fragOk at h
  simp only [Bool.and_eq_true, Bool.not_eq_true', List.contains_eq_mem, decide_eq_false_iff_not] at h
  exact ⟨unescOk_elim h.1, h.2⟩

theorem scheme_noHash {s : Str} (h : schemeOk s = true) : 0x23 ∉ s := by
  cases s with
  | nil => simp
  | cons c t =>
    simp only [schemeOk, Bool.and_eq_true] at h
    intro hm
    rcases List.mem_cons.mp hm with e | e
    · rw [← e] at h; exact absurd h.1 (by decide)
    · exact not_mem_of_all h.2 (by decide) e

theorem pre_noHash (P : Parts) (h : InLang P = true) : 0x23 ∉ preOf P := by
  unfold InLang at h
  simp only [Bool.and_eq_true, Bool.not_eq_true'] at h
  obtain ⟨⟨⟨⟨⟨⟨hsch, hauth⟩, hpath⟩, _⟩, hq⟩, _⟩, _⟩ := h
  unfold preOf
  simp only [List.mem_append, not_or]
  refine ⟨⟨⟨?_, ?_⟩, (path_facts hpath).2.2.2⟩, ?_⟩
  · cases hs : P.scheme with
    | none => simp [schemePart]
    | some s =>
      rw [hs] at hsch
      have := scheme_noHash hsch
      simp [schemePart, this, RdfModel.Spec.RFC3986.cColon]
  · cases ha : P.authority with
    | none => simp [authorityPart]
    | some a =>
      rw [ha] at hauth
      have := (authority_facts hauth).2.2.2.2.2.2.1
      simp [authorityPart, this, RdfModel.Spec.RFC3986.cSlash]
  · cases hQ : P.query with
    | none => simp [queryPart]
    | some q =>
      rw [hQ] at hq
      simp only [Bool.not_eq_true', List.contains_eq_mem, decide_eq_false_iff_not] at hq
      simp [queryPart, hq, RdfModel.Spec.RFC3986.cQuest]

/-- `ParsedIRI.String` when the raw-path substitution is a no-op and there is no fragment -/
theorem str_noFrag (u : URL) (ff opq : Bool) (hf : u.fragment = []) (hrf : u.rawFragment = [])
    (hrp : u.rawPath = [] ∨ u.escapedPath = u.rawPath) :
    ({ u := u, forceFragment := ff, isOpaque := opq } : ParsedIRI).str =
      if ff && !u.str.contains 0x23 then u.str ++ [0x23] else u.str := by
  unfold ParsedIRI.str
  have h1 : (if (!u.rawPath.isEmpty) = true then RdfModel.IRI.replaceFirst u.str u.escapedPath u.rawPath else u.str) = u.str := by
    rcases hrp with h | h
    · simp [h]
    · rw [h, replaceFirst_same]; simp
  simp only [h1, hrf, List.isEmpty_nil, Bool.not_true, Bool.false_eq_true, if_false]

theorem reclassify_snd (u : URL) : (reclassify u).2 = reclassGuard u := by
  unfold reclassify
  split
  · split <;> simp_all
  · simp_all

theorem parseIRI_inLang_ex (P : Parts) (h : InLang P = true) :
    ∃ p, parseIRI (recompose P) = .ok p ∧ p.str = recompose P ∧ p = pOf P := by
  obtain ⟨hparse, hstr, hf, hrf, hrp, hrc⟩ := parseNoFrag_good P h
  generalize hu : urlNoFrag P = u at hparse hstr hf hrf hrp hrc
  have hnh := pre_noHash P h
  have hfr : (match P.fragment with | some f => fragOk f | none => true) = true := by
    unfold InLang at h
    simp only [Bool.and_eq_true] at h
    exact h.1.2
  rw [recompose_eq]
  cases hF : P.fragment with
  | none =>
    have hcut : cut 0x23 (preOf P ++ fragmentPart none) = (preOf P, none) := by
      simp [fragmentPart, cut_none _ _ hnh]
    have hff : ((preOf P ++ fragmentPart none).getLast? == some 0x23) = false := by
      simp only [fragmentPart, List.append_nil, beq_eq_false_iff_ne, ne_eq]
      exact fun e => hnh (List.mem_of_getLast? e)
    refine ⟨{ u := u, forceFragment := (preOf P ++ fragmentPart none).getLast? == some 0x23, isOpaque := (reclassify u).2 }, ?_, ?_, ?_⟩
    · unfold parseIRI parse
      rw [hcut]
      simp only [hparse, hrc]
    · rw [str_noFrag u _ _ hf hrf hrp, hstr]
      rw [hff]
      simp [fragmentPart]
    · rw [hff, reclassify_snd]
      simp [pOf, urlOf, fragNonEmpty, hF, hu]
  | some f =>
    rw [hF] at hfr
    have hcut : cut 0x23 (preOf P ++ fragmentPart (some f)) = (preOf P, some f) := by
      simp [fragmentPart, RdfModel.Spec.RFC3986.cHash, cut_append_sep _ _ _ hnh]
    by_cases hfe : f = []
    · subst hfe
      refine ⟨{ u := u, forceFragment := (preOf P ++ fragmentPart (some [])).getLast? == some 0x23, isOpaque := (reclassify u).2 }, ?_, ?_, ?_⟩
      · unfold parseIRI parse
        rw [hcut]
        simp only [hparse, hrc, List.isEmpty_nil, if_true]
      · rw [str_noFrag u _ _ hf hrf hrp, hstr]
        have hc : (preOf P).contains 0x23 = false := by simp [hnh]
        simp [fragmentPart, RdfModel.Spec.RFC3986.cHash, hnh]
      · rw [reclassify_snd]
        simp [pOf, urlOf, fragNonEmpty, hF, hu, fragmentPart, RdfModel.Spec.RFC3986.cHash]
    · obtain ⟨⟨frag, hfrag⟩, hfh⟩ := frag_facts hfr
      have hset : setFragment u f = .ok { u with fragment := frag, rawFragment := if escape .fragment frag = f then [] else f } := by
        simp [setFragment, hfrag]
      have hfragne : frag ≠ [] := unescape_ne_nil hfrag hfe
      obtain ⟨U, hU⟩ : ∃ U : URL, U = { u with fragment := frag, rawFragment := if escape .fragment frag = f then [] else f } := ⟨_, rfl⟩
      rw [← hU] at hset
      have e1 : U.rawPath = u.rawPath := by rw [hU]
      have e2 : U.escapedPath = u.escapedPath := by rw [hU]; rfl
      have e4 : U.rawFragment = if escape .fragment frag = f then [] else f := by rw [hU]
      have hst : reclassGuard U = true → U.path = [] := by
        have := reclass_stable hrc
        rw [hU]; exact fun hg => this hg
      have hUrc : (reclassify U).1 = U := reclass_of_stable U hst
      have hUstr : U.str = preOf P ++ 0x23 :: U.escapedFragment := by
        have := str_with_frag u hf frag (if escape .fragment frag = f then [] else f) hfragne
        rw [← hU, hstr] at this
        exact this
      have hff : ((preOf P ++ fragmentPart (some f)).getLast? == some 0x23) = false := by
        simp only [beq_eq_false_iff_ne, ne_eq]
        intro e
        have hm := List.mem_of_getLast? e
        cases f with
        | nil => exact hfe rfl
        | cons c t =>
          have e' : (c :: t).getLast? = some 0x23 := by
            simpa [fragmentPart, List.getLast?_append, List.getLast?_cons_cons] using e
          exact hfh (List.mem_of_getLast? e')
      have hpof : ({ u := U, forceFragment := (preOf P ++ fragmentPart (some f)).getLast? == some 0x23, isOpaque := (reclassify U).2 } : ParsedIRI) = pOf P := by
        rw [hff, reclassify_snd, hU]
        have hud : unescD .fragment f = frag := by simp [unescD, hfrag]
        have hfe' : f.isEmpty = false := isEmpty_false_of_ne hfe
        simp [pOf, urlOf, fragNonEmpty, hF, hu, hfe, hfe', rawOf, hud, reclassGuard]
      refine ⟨{ u := U, forceFragment := (preOf P ++ fragmentPart (some f)).getLast? == some 0x23, isOpaque := (reclassify U).2 }, ?_, ?_, hpof⟩
      · unfold parseIRI parse
        rw [hcut]
        simp only [hparse, isEmpty_false_of_ne hfe, Bool.false_eq_true, if_false, hset, hUrc]
      · unfold ParsedIRI.str
        have h1 : (if (!U.rawPath.isEmpty) = true then RdfModel.IRI.replaceFirst U.str U.escapedPath U.rawPath else U.str) = U.str := by
          rw [e1, e2]
          rcases hrp with h | h
          · simp [h]
          · rw [h, replaceFirst_same]; simp
        simp only [h1]
        by_cases he : escape .fragment frag = f
        · have e3 : U.escapedFragment = f := by
            rw [hU]; simp [URL.escapedFragment, he]
          simp only [e4, he, if_true, List.isEmpty_nil, Bool.not_true, Bool.false_eq_true, if_false, hUstr, e3]
          have hc : (preOf P ++ 0x23 :: f).contains 0x23 = true := by simp
          simp [hc, fragmentPart, RdfModel.Spec.RFC3986.cHash]
        · simp only [e4, he, if_false, isEmpty_false_of_ne hfe, Bool.not_false, if_true, hUstr]
          have := replaceFirst_at 0x23 U.escapedFragment (0x23 :: f) [] (preOf P) hnh
          simp only [List.append_nil] at this
          rw [this]
          simp [fragmentPart, RdfModel.Spec.RFC3986.cHash]

/-- `ParseIRI` on a recomposition inside `InLang`: the explicit result, and `String()` gives the string back -/
theorem parseIRI_eq_pOf (P : Parts) (h : InLang P = true) :
    parseIRI (recompose P) = .ok (pOf P) ∧ (pOf P).str = recompose P := by
  obtain ⟨p, h1, h2, h3⟩ := parseIRI_inLang_ex P h
  subst h3
  exact ⟨h1, h2⟩

theorem parseIRI_inLang (P : Parts) (h : InLang P = true) :
    ∃ p, parseIRI (recompose P) = .ok p ∧ p.str = recompose P :=
  ⟨pOf P, parseIRI_eq_pOf P h⟩

end RdfModel.C12W
