/-
  Definitions used by the statement-layer theorems of C16 (`Props/C16TtlDocO.lean`): the committed text
  of a bookkeeping state, validity of ranges with respect to a committed text, and the state invariant
  of the instrumented decoder (`Model.TurtleDocOffsets`).
-/
import RdfModel.Model.TurtleDocOffsets
namespace RdfModel.C16TtlDocO
open RdfModel RdfModel.TW RdfModel.NQO RdfModel.TtlDoc RdfModel.TtlDocO

/-- Offset capture is on: the decoder has a text writer. -/
def On (s : S) : Prop := s.doc.isSome = true

/-- The committed text: every rune written to the text writer so far, in order. -/
def txt (s : S) : List RP :=
  match s.doc with
  | some h => histRunes h
  | none => []

/-- A reported range is *in* the committed text `D`: the text before its start is a prefix of the text
    before its end, which is a prefix of `D`.  (`nil` ranges are vacuously fine.) -/
def RgIn (D : List RP) (rg : Rg) : Prop :=
  ∀ r, rg = some r → histRunes r.1 <+: histRunes r.2 ∧ histRunes r.2 <+: D

def CtxIn (D : List RP) (x : EctxO) : Prop := RgIn D x.sl ∧ RgIn D x.pl ∧ RgIn D x.gl

def FrameIn (D : List RP) (f : FrameO) : Prop := CtxIn D f.x ∧ RgIn D f.r

def StmtIn (D : List RP) (m : StmtO) : Prop := RgIn D m.rg.s ∧ RgIn D m.rg.p ∧ RgIn D m.rg.o ∧ RgIn D m.rg.g

/-- the zero `DecodedRune` a Go closure sees when it ignores a failed read -/
def AllNul (l : List RP) : Prop := ∀ z ∈ l, z = ((0, 0) : RP)

/-- **Commit discipline**, the invariant of the decoder object for the document `inp`.
    `live`: the committed text followed by the unread input (runes handed back included) IS the document:
    every consumed rune has been committed exactly once, in order.
    `ended`: the reader has reported its end.  The committed text is a prefix of the document (white
    space read just before the end is never committed: `scan` drops it) possibly followed by zero
    runes — the zero `DecodedRune` of size 0 that closures ignoring `err` hand back to the buffer — and
    only such zero runes are left in the buffer. -/
def Disc (inp : List RP) (s : S) (rest : List RP) : Prop :=
  On s ∧ (txt s ++ rest = inp ∨
          (∃ pre zs, txt s = pre ++ zs ∧ pre <+: inp ∧ AllNul zs ∧ AllNul rest))

/-- Invariant of the decoder object: discipline, and every range held anywhere (evaluation contexts
    and closures on the stack, pending statements) is in the committed text. -/
def Inv (inp : List RP) (st : StO) : Prop :=
  Disc inp st.s st.inp ∧ (∀ f ∈ st.stack, FrameIn (txt st.s) f) ∧ (∀ m ∈ st.stmts, StmtIn (txt st.s) m)

/-- A range lies inside the document `inp` up to trailing zero runes: its end text is a prefix `p` of
    the document followed by zero runes (none at all unless the reader had already ended), and its start
    text is a prefix of its end text. -/
def RgInside (inp : List RP) (rg : Rg) : Prop :=
  ∀ r, rg = some r → histRunes r.1 <+: histRunes r.2 ∧
    ∃ p zs, histRunes r.2 = p ++ zs ∧ p <+: inp ∧ AllNul zs

end RdfModel.C16TtlDocO
