/-
  C19 helper lemmas: every operation of the dataset refines the corresponding operation on a plain
  set of quads; lifted over histories.
-/
import RdfModel.Proofs.C19Ops
namespace RdfModel.Proofs.C19
open RdfModel.DS RdfModel.C19
open RdfModel.Spec

/-- refinement relation between a dataset state and a plain set -/
def Rel (s : State) (S : List Quad) : Prop := Inv s ∧ S.Nodup ∧ ∀ x, x ∈ abs s ↔ x ∈ S

theorem Rel.perm {s : State} {S : List Quad} (h : Rel s S) : (abs s).Perm S :=
  (List.perm_ext_iff_of_nodup (nodup_abs h.1) h.2.1).2 h.2.2

theorem inv_empty : Inv ⟨[], [], 0⟩ :=
  ⟨by intro k n h; simp [alookup] at h, by simp [keys], by intro g G h; simp at h, by intro g G h; simp at h⟩

theorem inv_init : Inv init := createGraph_inv _ none inv_empty trivial

theorem rel_init : Rel init [] := ⟨inv_init, by simp, by intro x; simp [init, abs, createGraph, aset]⟩

/-! ### per-graph views -/

theorem mem_graphAll_g {g : Option Term} {G : SubjMap} {x : Quad} (h : x ∈ graphAll g G) : x.g = g := by
  unfold graphAll at h
  simp only [List.mem_flatMap, List.mem_map] at h
  obtain ⟨_, _, _, _, rfl⟩ := h
  rfl

theorem filter_graph_aux (g : Option Term) : ∀ (l : List (Option Term × SubjMap)), (keys l).Nodup →
    (l.flatMap (fun e => graphAll e.1 e.2)).filter (fun q => decide (q.g = g))
      = match alookup g l with | some G => graphAll g G | none => [] := by
  intro l
  induction l with
  | nil => intro _; simp [alookup]
  | cons e l ih =>
    obtain ⟨g', G'⟩ := e
    intro hnd
    simp only [keys, List.map_cons, List.nodup_cons] at hnd
    simp only [List.flatMap_cons, List.filter_append, alookup]
    by_cases hgg : g' = g
    · subst hgg
      have h1 : (graphAll g' G').filter (fun q => decide (q.g = g')) = graphAll g' G' :=
        List.filter_eq_self.2 (fun x hx => by simp [mem_graphAll_g hx])
      have h2 : (l.flatMap (fun e => graphAll e.1 e.2)).filter (fun q => decide (q.g = g')) = [] := by
        rw [ih hnd.2]
        have : alookup g' l = none := alookup_none_iff.2 hnd.1
        rw [this]
      rw [h1, h2]; simp
    · have h1 : (graphAll g' G').filter (fun q => decide (q.g = g)) = [] := by
        rw [List.filter_eq_nil_iff]; intro x hx; simp [mem_graphAll_g hx, hgg]
      rw [h1, ih hnd.2]; simp [hgg]

theorem filter_graph {s : State} (hk : (keys s.graphs).Nodup) (g : Option Term) {G : SubjMap}
    (hG : alookup g s.graphs = some G) :
    (abs s).filter (fun q => decide (q.g = g)) = graphAll g G := by
  rw [abs_eq_graphAll, filter_graph_aux g _ hk, hG]

theorem ensureGraph_gkeys (s : State) (g : Option Term) (hk : (keys s.graphs).Nodup) :
    (keys (ensureGraph s g).graphs).Nodup := by
  rcases ensureGraph_graphs s g with h | ⟨hn, h⟩
  · rw [h]; exact hk
  · rw [h]; unfold keys; rw [List.map_append, List.nodup_append]
    refine ⟨hk, by simp, ?_⟩
    intro a ha b hb; simp at hb; subst hb
    intro e; subst e; exact (alookup_none_iff.1 hn) ha

/-- `GetGraph(g).NewTripleIterator(ms...)` returns the triples of the stored quads of graph `g`
    that satisfy all matchers (list equation with the traversal). -/
theorem viewTriples_eq {s : State} (hk : (keys s.graphs).Nodup) (g : Option Term) (ms : List TrM) :
    viewTriples (ensureGraph s g) g ms
      = (((abs s).filter (fun q => decide (q.g = g))).map Quad.triple).filter
          (fun t => ms.all (fun m => m.matches t)) := by
  obtain ⟨G, hG⟩ := ensureGraph_has s g
  unfold viewTriples
  simp only [hG]
  rw [graphTriples_eq, ← filter_graph (ensureGraph_gkeys s g hk) g hG, abs_ensureGraph]

/-! ### one step -/

theorem asQuad_toIn (t : Triple) (g : Option Term) : (tripleIn t).asQuad g = (t.asQuad g).toIn := rfl

theorem wf_asQuad {t : Triple} {g : Option Term} (hg : WFGraphName g) (ht : WFTriple t) : WFQuad (t.asQuad g) :=
  ⟨ht.1, ht.2.1, ht.2.2, hg⟩

theorem rel_ensureGraph {s : State} {S : List Quad} (h : Rel s S) (g : Option Term) (hg : WFGraphName g) :
    Rel (ensureGraph s g) S :=
  ⟨ensureGraph_inv s g h.1 hg, h.2.1, by rw [abs_ensureGraph]; exact h.2.2⟩

theorem rel_add {s : State} {S : List Quad} (h : Rel s S) (q : Quad) (hq : WFQuad q) :
    Rel (addQuad s q.toIn).1 (QuadSet.add S q) ∧ (addQuad s q.toIn).2 = .unit := by
  obtain ⟨hi, ho, hm⟩ := addQuad_spec s q h.1 hq
  refine ⟨⟨hi, QuadSet.nodup_add S q h.2.1, ?_⟩, ho⟩
  intro x; rw [hm, QuadSet.mem_add, h.2.2]

theorem rel_del {s : State} {S : List Quad} (h : Rel s S) (q : Quad) (hq : WFQuad q) :
    Rel (deleteQuad s q.toIn).1 (QuadSet.del S q) ∧ (deleteQuad s q.toIn).2 = .unit := by
  obtain ⟨hi, ho, hm, _⟩ := deleteQuad_spec s q h.1 hq
  refine ⟨⟨hi, QuadSet.nodup_del S q h.2.1, ?_⟩, ho⟩
  intro x; rw [hm, QuadSet.mem_del, h.2.2]

theorem rel_has {s : State} {S : List Quad} (h : Rel s S) (q : Quad) (hq : WFQuad q) :
    Rel (hasQuad s q.toIn).1 S ∧ (hasQuad s q.toIn).2 = .bool (decide (q ∈ S)) := by
  obtain ⟨hi, ha, ho⟩ := hasQuad_spec s q h.1 hq
  refine ⟨⟨hi, h.2.1, by rw [ha]; exact h.2.2⟩, ?_⟩
  rw [ho]; congr 1; simp [h.2.2]

theorem step_refines (s : State) (S : List Quad) (op : POp) (hop : op.WF) (h : Rel s S) :
    Rel (step s op.toOp).1 (QuadSet.step S op.spec).1 ∧
      OutAgrees (step s op.toOp).2 (QuadSet.step S op.spec).2 := by
  cases op with
  | addQuad q =>
    obtain ⟨hr, ho⟩ := rel_add h q hop
    exact ⟨hr, by simp only [POp.toOp, step, ho, POp.spec, QuadSet.step, OutAgrees]⟩
  | deleteQuad q =>
    obtain ⟨hr, ho⟩ := rel_del h q hop
    exact ⟨hr, by simp only [POp.toOp, step, ho, POp.spec, QuadSet.step, OutAgrees]⟩
  | hasQuad q =>
    obtain ⟨hr, ho⟩ := rel_has h q hop
    exact ⟨hr, by simp only [POp.toOp, step, ho, POp.spec, QuadSet.step, OutAgrees]⟩
  | iterQuads ms =>
    refine ⟨h, ?_⟩
    simp only [POp.toOp, step, POp.spec, QuadSet.step, OutAgrees]
    rw [iterQuads_eq]
    exact h.perm.filter _
  | getGraph g =>
    exact ⟨rel_ensureGraph h g hop, trivial⟩
  | viewAdd g t =>
    obtain ⟨hr, ho⟩ := rel_add (rel_ensureGraph h g hop.1) (t.asQuad g) (wf_asQuad hop.1 hop.2)
    exact ⟨hr, by simp only [POp.toOp, step, asQuad_toIn, ho, POp.spec, QuadSet.step, OutAgrees]⟩
  | viewDelete g t =>
    obtain ⟨hr, ho⟩ := rel_del (rel_ensureGraph h g hop.1) (t.asQuad g) (wf_asQuad hop.1 hop.2)
    exact ⟨hr, by simp only [POp.toOp, step, asQuad_toIn, ho, POp.spec, QuadSet.step, OutAgrees]⟩
  | viewHas g t =>
    obtain ⟨hr, ho⟩ := rel_has (rel_ensureGraph h g hop.1) (t.asQuad g) (wf_asQuad hop.1 hop.2)
    exact ⟨hr, by simp only [POp.toOp, step, asQuad_toIn, ho, POp.spec, QuadSet.step, OutAgrees]⟩
  | viewIter g ms =>
    refine ⟨rel_ensureGraph h g hop, ?_⟩
    simp only [POp.toOp, step, POp.spec, QuadSet.step, OutAgrees]
    rw [viewTriples_eq h.1.gkeys, List.filter_map, List.filter_filter]
    refine List.Perm.map _ ?_
    have := h.perm.filter (fun q => decide (q.g = g) && ms.all (fun m => m.matches q.triple))
    refine List.Perm.trans (List.Perm.of_eq ?_) this
    apply List.filter_congr
    intro x _; simp [Bool.and_comm]

/-! ### histories -/

theorem run_refines : ∀ (ops : List POp), (∀ op ∈ ops, op.WF) → ∀ (s : State) (S : List Quad), Rel s S →
    Rel (run s (ops.map POp.toOp)).1 (QuadSet.run S (ops.map POp.spec)).1 ∧
      OutsAgree (run s (ops.map POp.toOp)).2 (QuadSet.run S (ops.map POp.spec)).2 := by
  intro ops
  induction ops with
  | nil => intro _ s S h; exact ⟨h, trivial⟩
  | cons op ops ih =>
    intro hwf s S h
    obtain ⟨h1, o1⟩ := step_refines s S op (hwf op (List.mem_cons_self)) h
    obtain ⟨h2, o2⟩ := ih (fun o ho => hwf o (List.mem_cons_of_mem _ ho)) _ _ h1
    exact ⟨h2, o1, o2⟩

theorem inv_of_reachable {s : State} (h : Reachable s) : Inv s := by
  obtain ⟨ops, hwf, rfl⟩ := h
  exact (run_refines ops hwf init [] rel_init).1.1

end RdfModel.Proofs.C19
