/-
  Audit for the Turtle ⊂ TriG simulation instantiated with the real token producers
  (Props/C07Doc.lean; the abstract theorem is audited in Audit/C05Ttl.lean).
-/
import RdfModel.Props.C07Doc

#print axioms RdfModel.C07.spaceOK_unicode_minus_ogham
#print axioms RdfModel.C07.ttl_sub_trig_real_partial
#print axioms RdfModel.C07.ttl_sub_trig_unicode_partial
#print axioms RdfModel.C07.ntCfg_real
#print axioms RdfModel.C07.nt_sub_ttl_partial
#print axioms RdfModel.C07.finding_bnode_label_colon
#print axioms RdfModel.C07.nt_sub_ttl_refuted
#print axioms RdfModel.C07.ttl_sub_trig_driver_partial
