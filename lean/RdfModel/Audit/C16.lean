/-
  Audit for C16 (N-Triples / N-Quads part): axioms used by every theorem of Props/C16.lean
  (expected: a subset of {propext, Classical.choice, Quot.sound}), and the main theorems
  instantiated at the regenerated tables.
-/
import RdfModel.Props.C16
open RdfModel RdfModel.NQ RdfModel.TW RdfModel.NQO RdfModel.C16

#print axioms RdfModel.C16.offsets_do_not_change_statements
#print axioms RdfModel.C16.capture_irrelevant
#print axioms RdfModel.C16.no_ranges_without_capture
#print axioms RdfModel.C16.commit_discipline
#print axioms RdfModel.C16.commit_discipline_offset
#print axioms RdfModel.C16.commit_discipline_final
#print axioms RdfModel.C16.offsets_exact
#print axioms RdfModel.C16.offsets_inside
#print axioms RdfModel.C16.offsets_shift
#print axioms RdfModel.C16.token_reparses
#print axioms RdfModel.C16.error_offsets_inside
#print axioms RdfModel.C16.gen_nquads_pn
#print axioms RdfModel.C16.gen_ntriples_pn
#print axioms RdfModel.C16.error_offsets_inside_fails_legacy

/-- `token_reparses` at the regenerated N-Quads and N-Triples tables (its table hypothesis holds). -/
theorem RdfModel.C16.token_reparses_nquads (urlOk : List Nat → Bool) (e : End) (legacy : Bool)
    (inp : List RP) (q : Quad (List Nat)) (rg : Ranges)
    (hmem : (q, rg) ∈ (NQO.run Gen.nquads urlOk e legacy true true inp).stmts) :
    ∀ x ∈ slots q rg, ∃ fr un pre tok post, x.2.2 = some (fr, un) ∧ inp = pre ++ tok ++ post ∧
      histRunes fr = pre ∧ histRunes un = pre ++ tok ∧
      ∀ e' y, NQ.captureTerm Gen.nquads urlOk e' x.1 false (runes tok ++ 0x20 :: y) = .ok x.2.1 (0x20 :: y) :=
  token_reparses Gen.nquads gen_nquads_pn urlOk e legacy true inp q rg hmem

theorem RdfModel.C16.token_reparses_ntriples (urlOk : List Nat → Bool) (e : End) (legacy : Bool)
    (inp : List RP) (q : Quad (List Nat)) (rg : Ranges)
    (hmem : (q, rg) ∈ (NQO.run Gen.ntriples urlOk e legacy false true inp).stmts) :
    ∀ x ∈ slots q rg, ∃ fr un pre tok post, x.2.2 = some (fr, un) ∧ inp = pre ++ tok ++ post ∧
      histRunes fr = pre ∧ histRunes un = pre ++ tok ∧
      ∀ e' y, NQ.captureTerm Gen.ntriples urlOk e' x.1 false (runes tok ++ 0x20 :: y) = .ok x.2.1 (0x20 :: y) :=
  token_reparses Gen.ntriples gen_ntriples_pn urlOk e legacy false inp q rg hmem

#print axioms RdfModel.C16.token_reparses_nquads
#print axioms RdfModel.C16.token_reparses_ntriples
