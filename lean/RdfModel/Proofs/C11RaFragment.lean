/-
  Proofs.C11RaFragment — (a) the resolver of the modelled decoder on attribute TEXT: absolute IRIs whose scheme is not a prefix
  in scope and CURIEs whose prefix is in scope resolve without looking at base, vocabulary, term mappings, oracle or state;
  (b) symbolic execution of the modelled walkNode on further blocks of the RDFa fragment, stated on the attribute text.
  Core-only.
-/
import RdfModel.Proofs.C11RaBlocks
namespace RdfModel.Rdfad
open RdfModel RdfModel.Desc
open RdfModel.Mdd (Node Attr Bytes Subj fields trimSpace typeTokens textContent)

/-- the attribute text `v` is a reference the decoder takes literally: `scheme:rest` whose scheme is not a prefix in scope
    and contains none of `/ ? #`, not bracketed, not `_:` (every absolute IRI whose scheme is not declared as a prefix) -/
def absRef (prefixes : List (Bytes × Bytes)) (v : Bytes) : Bool :=
  !v.isEmpty && !isSafeCurie v && !hasPrefix [0x5f, 0x3a] v &&
    (match splitColon v with
     | some (p, _) => (alookup p prefixes).isNone && !containsPathish p && !p.isEmpty
     | none => false)

/-- the attribute text `v` is a CURIE `p:ref` whose prefix is in scope; its expansion -/
def curieRef (prefixes : List (Bytes × Bytes)) (v : Bytes) : Option Bytes :=
  if !v.isEmpty && !isSafeCurie v && !hasPrefix [0x5f, 0x3a] v then
    match splitColon v with
    | some (p, ref) => (alookup p prefixes).map (· ++ ref)
    | none => none
  else none

/-- what an IRI-valued attribute text denotes without looking at base, vocabulary, terms or the oracle -/
def refIRI (prefixes : List (Bytes × Bytes)) (v : Bytes) : Option Bytes :=
  if absRef prefixes v then some v else curieRef prefixes v

theorem resolveIRI_ref (E : Env) (st : St) (prefixes : List (Bytes × Bytes)) (v : Bytes) (base : Option Bytes)
    (dv : Option Vocab) (safe terms : Bool) (i : Bytes) (h : refIRI prefixes v = some i) :
    resolveIRI E st prefixes v base dv safe terms = (some (.iri i), st) := by
  unfold refIRI at h
  split at h
  · rename_i ha
    simp only [Option.some.injEq] at h
    subst h
    unfold absRef at ha
    simp only [Bool.and_eq_true, Bool.not_eq_true'] at ha
    obtain ⟨⟨⟨h1, h2⟩, h3⟩, h4⟩ := ha
    cases hs : splitColon v with
    | none => rw [hs] at h4; cases h4
    | some pr =>
      obtain ⟨p, ref⟩ := pr
      rw [hs] at h4
      simp only [Bool.and_eq_true, Option.isNone_iff_eq_none, Bool.not_eq_true'] at h4
      obtain ⟨⟨h5, h6⟩, h7⟩ := h4
      simp [resolveIRI, unbracket, h1, h2, h3, hs, resolveCurie, h5, tryResolve, h6, h7]
      cases base <;> simp
  · unfold curieRef at h
    split at h
    · rename_i hc
      simp only [Bool.and_eq_true, Bool.not_eq_true'] at hc
      obtain ⟨⟨h1, h2⟩, h3⟩ := hc
      cases hs : splitColon v with
      | none => rw [hs] at h; cases h
      | some pr =>
        obtain ⟨p, ref⟩ := pr
        rw [hs] at h
        simp only at h
        cases ha : alookup p prefixes with
        | none => rw [ha] at h; cases h
        | some e =>
          rw [ha] at h
          simp only [Option.map_some, Option.some.injEq] at h
          subst h
          simp [resolveIRI, unbracket, h1, h2, h3, hs, resolveCurie, ha]
    · cases h

/-- a one-token predicate attribute: the IRI it denotes -/
def predIRI (prefixes : List (Bytes × Bytes)) (pv : Bytes) : Option Bytes :=
  match fields (trimSpace pv) with
  | [tok] => refIRI prefixes tok
  | _ => none

theorem resolveTokens_pred (E : Env) (st : St) (prefixes : List (Bytes × Bytes)) (pv : Bytes) (dv : Option Vocab)
    (terms : Bool) (p : Bytes) (h : predIRI prefixes pv = some p) :
    resolveTokens E prefixes dv terms (fields (trimSpace pv)) st = ([p], st) := by
  unfold predIRI at h
  split at h
  · rename_i tok hf
    rw [hf]
    simp [resolveTokens, resolveAsIRI, resolveIRI_ref E st prefixes tok none dv false terms p h]
  · cases h

/-! ## blocks, on the attribute text -/

theorem literal_block_text (E : Env) (cfg : Cfg) (ctx : Ctx) (st : St) (i : Nat) (s pv c lg S p : Bytes)
    (hbad : st.bad = none) (hinc : ctx.incomplete = []) (hmap : st.getMap ctx.listMapping = [])
    (hs : refIRI ctx.prefixes s = some S) (hp : predIRI ctx.prefixes pv = some p) :
    (walk E cfg false ctx st (litBlock i s pv c lg)).bad = none ∧
    (walk E cfg false ctx st (litBlock i s pv c lg)).out = st.out ++ [⟨.iri S, p, plainLit c lg⟩] :=
  literal_block E cfg ctx st i s pv c lg (.iri S) p hbad hinc hmap
    (fun _ => resolveIRI_ref E _ _ s _ _ true true S hs) (fun _ => resolveTokens_pred E _ _ pv _ true p hp)

theorem resource_block_text (E : Env) (cfg : Cfg) (ctx : Ctx) (st : St) (i : Nat) (s pv r S O p : Bytes)
    (hbad : st.bad = none) (hinc : ctx.incomplete = []) (hmap : st.getMap ctx.listMapping = [])
    (hs : refIRI ctx.prefixes s = some S) (ho : refIRI ctx.prefixes r = some O) (hp : predIRI ctx.prefixes pv = some p) :
    (walk E cfg false ctx st (resBlock i s pv r)).bad = none ∧
    (walk E cfg false ctx st (resBlock i s pv r)).out = st.out ++ [⟨.iri S, p, .iri O⟩] :=
  resource_block E cfg ctx st i s pv r (.iri S) (.iri O) p hbad hinc hmap
    (fun _ => resolveIRI_ref E _ _ s _ _ true true S hs) (fun _ => resolveIRI_ref E _ _ r _ _ true true O ho)
    (fun _ => resolveTokens_pred E _ _ pv _ true p hp)

attribute [local simp] enter pre Node.typ Node.atom Node.attrs Node.id stepVocab locals0 step34
  prefixEntries rule7 filterRel step56 step5 step5a step5b resOpt res orElseSt stepTypeof step8 step910 step11 propertyValue
  datatypeIRI step12 childCtx walkKids leave St.newMap St.getMap St.emit emitEach emitTypes flushLists flushCount applyLang
  stepLang plainLit step6 res3 step9 step9a step9b step9c step10 step10rel step10rev relTokens relIgnored resolveAsIRI
  St.fresh St.pushList isHeadBody Mdd.Subj.term

/-! ### typed literal: `<span about property content datatype lang="">` -/

set_option maxRecDepth 4000 in
theorem scan_typed_block (E : Env) (x : Bool) (b s pv c d : Bytes) :
    scanAttrs E x [⟨[], asc "about", s⟩, ⟨[], asc "property", pv⟩, ⟨[], asc "content", c⟩, ⟨[], asc "datatype", d⟩,
        ⟨[], asc "lang", []⟩] { localBase := b } =
      { about := some s, property := some pv, content := some c, datatype := some d, lang := some [], localBase := b } := by
  simp [scanAttrs, asc]

def typedBlock (i : Nat) (s pv c d : Bytes) : Node :=
  .mk i 3 [] (asc "span") [] [⟨[], asc "about", s⟩, ⟨[], asc "property", pv⟩, ⟨[], asc "content", c⟩,
    ⟨[], asc "datatype", d⟩, ⟨[], asc "lang", []⟩] []

set_option linter.unusedSimpArgs false in
set_option maxRecDepth 4000 in
theorem typed_block_text (E : Env) (cfg : Cfg) (ctx : Ctx) (st : St) (i : Nat) (s pv c d S p dt : Bytes)
    (hbad : st.bad = none) (hinc : ctx.incomplete = []) (hmap : st.getMap ctx.listMapping = [])
    (hs : refIRI ctx.prefixes s = some S) (hp : predIRI ctx.prefixes pv = some p) (hd : refIRI ctx.prefixes d = some dt)
    (hd0 : dt ≠ []) (hd1 : dt ≠ rdfLangString) (hd2 : dt ≠ rdfDirLangString) (hd3 : dt ≠ rdfXMLLiteral) (hd4 : dt ≠ rdfHTML)
 :
    (walk E cfg false ctx st (typedBlock i s pv c d)).bad = none ∧
    (walk E cfg false ctx st (typedBlock i s pv c d)).out = st.out ++ [⟨.iri S, p, .lit c dt none⟩] := by
  have hS : ∀ st b dv sf tm, resolveIRI E st ctx.prefixes s b dv sf tm = (some (.iri S), st) :=
    fun st b dv sf tm => resolveIRI_ref E st _ s b dv sf tm S hs
  have hD : ∀ st b dv sf tm, resolveIRI E st ctx.prefixes d b dv sf tm = (some (.iri dt), st) :=
    fun st b dv sf tm => resolveIRI_ref E st _ d b dv sf tm dt hd
  have hP : ∀ st dv tm, resolveTokens E ctx.prefixes dv tm (fields (trimSpace pv)) st = ([p], st) :=
    fun st dv tm => resolveTokens_pred E st _ pv dv tm p hp
  obtain ⟨f1, f2, f3, f4, f5⟩ := span_facts
  have hm1 := getMap_setMaps_nil st _ hmap
  have hm2 : (st.maps ++ [[]]).getD st.maps.length [] = [] := by simp
  unfold St.getMap at hmap
  have hmap' : st.maps[ctx.listMapping]?.getD [] = [] := by simpa [List.getD_eq_getElem?_getD] using hmap
  unfold typedBlock walk
  simp only [hbad, Option.isSome_none, Bool.false_eq_true, ↓reduceIte]
  cases hq : ctx.parentSubject with
  | none =>
    simp [f1, f2, f3, f4, f5, scan_typed_block, hS, hD, hP, hq, hinc, hm1, hm2, hmap, hmap', hd0, hd1, hd2, hd3, hd4]
    simp [hbad]
  | some q =>
    by_cases hqe : subjEq q (.iri S) = true
    · simp [f1, f2, f3, f4, f5, scan_typed_block, hS, hD, hP, hq, hqe, hinc, hm1, hm2, hmap, hmap', hd0, hd1, hd2, hd3, hd4]
      simp [hbad]
    · simp [f1, f2, f3, f4, f5, scan_typed_block, hS, hD, hP, hq, hqe, hinc, hm1, hm2, hmap, hmap', hd0, hd1, hd2, hd3, hd4]
      simp [hbad]

/-! ### @typeof: `<span about typeof>` -/

set_option maxRecDepth 4000 in
theorem scan_typeof_block (E : Env) (x : Bool) (b s ty : Bytes) :
    scanAttrs E x [⟨[], asc "about", s⟩, ⟨[], asc "typeof", ty⟩] { localBase := b } =
      { about := some s, typeof := some ty, localBase := b } := by
  simp [scanAttrs, asc]

def typeofBlock (i : Nat) (s ty : Bytes) : Node :=
  .mk i 3 [] (asc "span") [] [⟨[], asc "about", s⟩, ⟨[], asc "typeof", ty⟩] []

/-- a one-token @typeof value: the class IRI it denotes -/
def typeIRI (prefixes : List (Bytes × Bytes)) (ty : Bytes) : Option Bytes :=
  match typeTokens ty with
  | [tok] => refIRI prefixes tok
  | _ => none

theorem resolveTokens_type (E : Env) (st : St) (prefixes : List (Bytes × Bytes)) (ty : Bytes) (dv : Option Vocab)
    (terms : Bool) (t : Bytes) (h : typeIRI prefixes ty = some t) :
    resolveTokens E prefixes dv terms (typeTokens ty) st = ([t], st) := by
  unfold typeIRI at h
  split at h
  · rename_i tok hf
    rw [hf]
    simp [resolveTokens, resolveAsIRI, resolveIRI_ref E st prefixes tok none dv false terms t h]
  · cases h

set_option linter.unusedSimpArgs false in
set_option maxRecDepth 4000 in
theorem typeof_block_text (E : Env) (cfg : Cfg) (ctx : Ctx) (st : St) (i : Nat) (s ty S T : Bytes)
    (hbad : st.bad = none) (hinc : ctx.incomplete = []) (hmap : st.getMap ctx.listMapping = [])
    (hs : refIRI ctx.prefixes s = some S) (ht : typeIRI ctx.prefixes ty = some T) :
    (walk E cfg false ctx st (typeofBlock i s ty)).bad = none ∧
    (walk E cfg false ctx st (typeofBlock i s ty)).out = st.out ++ [⟨.iri S, rdfType, .iri T⟩] := by
  have hS : ∀ st b dv sf tm, resolveIRI E st ctx.prefixes s b dv sf tm = (some (.iri S), st) :=
    fun st b dv sf tm => resolveIRI_ref E st _ s b dv sf tm S hs
  have hT : ∀ st dv tm, resolveTokens E ctx.prefixes dv tm (typeTokens ty) st = ([T], st) :=
    fun st dv tm => resolveTokens_type E st _ ty dv tm T ht
  obtain ⟨f1, f2, f3, f4, f5⟩ := span_facts
  have hm1 := getMap_setMaps_nil st _ hmap
  have hm2 : (st.maps ++ [[]]).getD st.maps.length [] = [] := by simp
  unfold St.getMap at hmap
  have hmap' : st.maps[ctx.listMapping]?.getD [] = [] := by simpa [List.getD_eq_getElem?_getD] using hmap
  unfold typeofBlock walk
  simp only [hbad, Option.isSome_none, Bool.false_eq_true, ↓reduceIte]
  cases hq : ctx.parentSubject with
  | none =>
    simp [f1, f2, f3, f4, f5, scan_typeof_block, hS, hT, hq, hinc, hm1, hm2, hmap, hmap']
    simp [hbad]
  | some q =>
    by_cases hqe : subjEq q (.iri S) = true
    · simp [f1, f2, f3, f4, f5, scan_typeof_block, hS, hT, hq, hqe, hinc, hm1, hm2, hmap, hmap']
      simp [hbad]
    · simp [f1, f2, f3, f4, f5, scan_typeof_block, hS, hT, hq, hqe, hinc, hm1, hm2, hmap, hmap']
      simp [hbad]

/-! ### chaining across one nesting level: `<div about=s rel=pv><span about=o property=qv content=c lang=lg/></div>`
    (the hanging @rel makes a blank node and an incomplete triple; the child completes it) -/

set_option maxRecDepth 4000 in
theorem scan_rel_block (E : Env) (x : Bool) (b s pv : Bytes) :
    scanAttrs E x [⟨[], asc "about", s⟩, ⟨[], asc "rel", pv⟩] { localBase := b } =
      { about := some s, rel := some pv, localBase := b } := by
  simp [scanAttrs, asc]

def chainBlock (i j : Nat) (s pv o qv c lg : Bytes) : Node :=
  .mk i 3 [] (asc "div") [] [⟨[], asc "about", s⟩, ⟨[], asc "rel", pv⟩] [litBlock j o qv c lg]

theorem div_facts : (asc "div" ≠ asc "html") ∧ (asc "div" ≠ asc "base") ∧ (asc "div" ≠ asc "time") ∧
    (asc "div" ≠ asc "head") ∧ (asc "div" ≠ asc "body") ∧ (asc "div" ≠ asc "form") ∧ (asc "div" ≠ asc "a") ∧
    (asc "div" ≠ asc "area") ∧ (asc "div" ≠ asc "link") := by decide

theorem getD_append_nil (L : List (List (Bytes × Nat))) (k : Nat) (h : L[k]?.getD [] = []) : (L ++ [[]])[k]?.getD [] = [] := by
  by_cases hk : k < L.length
  · rw [List.getElem?_append_left hk]; exact h
  · rw [List.getElem?_append_right (by omega)]
    cases hh : ([[]] : List (List (Bytes × Nat)))[k - L.length]? with
    | none => rfl
    | some v =>
      have := List.mem_of_getElem? hh
      simp at this; subst this; rfl

theorem filter_true (l : List Bytes) : l.filter (fun _ => true) = l := by induction l <;> simp_all

set_option linter.unusedSimpArgs false in
set_option maxRecDepth 8000 in
set_option maxHeartbeats 1600000 in
theorem chain_block_text (E : Env) (cfg : Cfg) (ctx : Ctx) (st : St) (i j : Nat) (s pv o qv c lg S p O q : Bytes)
    (hbad : st.bad = none) (hinc : ctx.incomplete = []) (hmap : st.getMap ctx.listMapping = [])
    (hs : refIRI ctx.prefixes s = some S) (hp : predIRI ctx.prefixes pv = some p)
    (ho : refIRI ctx.prefixes o = some O) (hq : predIRI ctx.prefixes qv = some q) :
    (walk E cfg false ctx st (chainBlock i j s pv o qv c lg)).bad = none ∧
    (walk E cfg false ctx st (chainBlock i j s pv o qv c lg)).out =
      st.out ++ [⟨.iri O, q, plainLit c lg⟩, ⟨.iri S, p, .iri O⟩] := by
  have hS : ∀ st b dv sf tm, resolveIRI E st ctx.prefixes s b dv sf tm = (some (.iri S), st) :=
    fun st b dv sf tm => resolveIRI_ref E st _ s b dv sf tm S hs
  have hO : ∀ st b dv sf tm, resolveIRI E st ctx.prefixes o b dv sf tm = (some (.iri O), st) :=
    fun st b dv sf tm => resolveIRI_ref E st _ o b dv sf tm O ho
  have hP : ∀ st dv tm, resolveTokens E ctx.prefixes dv tm (fields (trimSpace pv)) st = ([p], st) :=
    fun st dv tm => resolveTokens_pred E st _ pv dv tm p hp
  have hQ : ∀ st dv tm, resolveTokens E ctx.prefixes dv tm (fields (trimSpace qv)) st = ([q], st) :=
    fun st dv tm => resolveTokens_pred E st _ qv dv tm q hq
  obtain ⟨f1, f2, f3, f4, f5⟩ := span_facts
  obtain ⟨g1, g2, g3, g4, g5, g6, g7, g8, g9⟩ := div_facts
  have hm1 := getMap_setMaps_nil st _ hmap
  have hm2 : (st.maps ++ [[]]).getD st.maps.length [] = [] := by simp
  unfold St.getMap at hmap
  have hmap' : st.maps[ctx.listMapping]?.getD [] = [] := by simpa [List.getD_eq_getElem?_getD] using hmap
  have k1 := getD_append_nil _ _ hmap'
  have k2 := getD_append_nil _ _ k1
  have k3 : (st.maps ++ [[]])[st.maps.length]?.getD [] = [] := by simp
  have k4 : (st.maps ++ [[]] ++ [[]])[st.maps.length]?.getD [] = [] := by simp
  have k5 : (st.maps ++ [[]] ++ [[]])[st.maps.length + 1]?.getD [] = [] := by simp
  unfold chainBlock litBlock walk
  simp only [hbad, Option.isSome_none, Bool.false_eq_true, ↓reduceIte]
  by_cases hlg : lg = []
  all_goals by_cases hso : subjEq (.iri S) (.iri O) = true
  all_goals cases hps : ctx.parentSubject with
    | none =>
      simp [walk, f1, f2, f3, f4, f5, g1, g2, g3, g4, g5, g6, g7, g8, g9, scan_rel_block, scan_literal_block, filter_true,
        hS, hO, hP, hQ, hps, hso, hinc, hm1, hm2, hmap, hmap', hlg, k1, k2, k3, k4, k5]
      try simp [hbad, hmap', hm1, hm2, flushLists, flushCount, k1, k2, k3, k4, k5]
    | some z =>
      by_cases hz : subjEq z (.iri S) = true
      · simp [walk, f1, f2, f3, f4, f5, g1, g2, g3, g4, g5, g6, g7, g8, g9, scan_rel_block, scan_literal_block, filter_true,
          hS, hO, hP, hQ, hps, hz, hso, hinc, hm1, hm2, hmap, hmap', hlg, k1, k2, k3, k4, k5]
        try simp [hbad, hmap', hm1, hm2, flushLists, flushCount, k1, k2, k3, k4, k5]
      · simp [walk, f1, f2, f3, f4, f5, g1, g2, g3, g4, g5, g6, g7, g8, g9, scan_rel_block, scan_literal_block, filter_true,
          hS, hO, hP, hQ, hps, hz, hso, hinc, hm1, hm2, hmap, hmap', hlg, k1, k2, k3, k4, k5]
        try simp [hbad, hmap', hm1, hm2, flushLists, flushCount, k1, k2, k3, k4, k5]

/-! ### @inlist: `<span about property content lang inlist>` whose subject differs from the parent subject: a one-item list -/

attribute [local simp] enter pre Node.typ Node.atom Node.attrs Node.id stepVocab locals0 step34
  prefixEntries rule7 filterRel step56 step5 step5a step5b resOpt res orElseSt stepTypeof step8 step910 step11 propertyValue
  datatypeIRI step12 childCtx walkKids leave St.newMap St.getMap St.emit emitEach emitTypes flushLists flushCount applyLang
  stepLang plainLit step6 res3 step9 step9a step9b step9c step10 step10rel step10rev relTokens relIgnored resolveAsIRI
  St.fresh St.pushList isHeadBody Mdd.Subj.term pushTo St.ensureList St.newList St.setMap St.getList freshN listCells alookup aset

set_option maxRecDepth 4000 in
theorem scan_inlist_block (E : Env) (x : Bool) (b s pv c lg : Bytes) :
    scanAttrs E x [⟨[], asc "about", s⟩, ⟨[], asc "property", pv⟩, ⟨[], asc "content", c⟩, ⟨[], asc "lang", lg⟩,
      ⟨[], asc "inlist", []⟩] { localBase := b } =
      { about := some s, property := some pv, content := some c, lang := some lg, inlist := some [], localBase := b } := by
  simp [scanAttrs, asc]

def inlistBlock (i : Nat) (s pv c lg : Bytes) : Node :=
  .mk i 3 [] (asc "span") [] [⟨[], asc "about", s⟩, ⟨[], asc "property", pv⟩, ⟨[], asc "content", c⟩, ⟨[], asc "lang", lg⟩,
    ⟨[], asc "inlist", []⟩] []

set_option linter.unusedSimpArgs false in
set_option maxRecDepth 8000 in
theorem inlist_block_text (E : Env) (cfg : Cfg) (ctx : Ctx) (st : St) (i : Nat) (s pv c lg S p : Bytes)
    (hbad : st.bad = none) (hinc : ctx.incomplete = [])
    (hps : ∀ z, ctx.parentSubject = some z → subjEq z (.iri S) = false)
    (hlm : ctx.listMapping < st.maps.length) (hfresh : alookup p (st.getMap ctx.listMapping) ≠ some st.lists.length)
    (hs : refIRI ctx.prefixes s = some S) (hp : predIRI ctx.prefixes pv = some p) :
    (walk E cfg false ctx st (inlistBlock i s pv c lg)).bad = none ∧
    (walk E cfg false ctx st (inlistBlock i s pv c lg)).out =
      st.out ++ [⟨.bn st.nextBn, rdfFirst, plainLit c lg⟩, ⟨.bn st.nextBn, rdfRest, .iri rdfNil⟩,
                 ⟨.iri S, p, .bnode st.nextBn⟩] := by
  have hS : ∀ st b dv sf tm, resolveIRI E st ctx.prefixes s b dv sf tm = (some (.iri S), st) :=
    fun st b dv sf tm => resolveIRI_ref E st _ s b dv sf tm S hs
  have hP : ∀ st dv tm, resolveTokens E ctx.prefixes dv tm (fields (trimSpace pv)) st = ([p], st) :=
    fun st dv tm => resolveTokens_pred E st _ pv dv tm p hp
  obtain ⟨f1, f2, f3, f4, f5⟩ := span_facts
  have hk : ∀ x, (st.maps ++ [x])[ctx.listMapping]? = st.maps[ctx.listMapping]? := fun x => List.getElem?_append_left hlm
  unfold St.getMap at hfresh
  rw [List.getD_eq_getElem?_getD] at hfresh
  unfold inlistBlock walk
  simp only [hbad, Option.isSome_none, Bool.false_eq_true, ↓reduceIte]
  by_cases hlg : lg = []
  all_goals cases hq : ctx.parentSubject with
    | none =>
      simp [f1, f2, f3, f4, f5, scan_inlist_block, hS, hP, hq, hinc, hlg, hk, hfresh]
      try simp [hbad, hk, hfresh]
    | some z =>
      have hz := hps z hq
      simp [f1, f2, f3, f4, f5, scan_inlist_block, hS, hP, hq, hz, hinc, hlg, hk, hfresh]
      try simp [hbad, hk, hfresh]

/-! ### @rev chaining across one nesting level: `<div about=s rev=pv><span about=o property=qv content=c lang=lg/></div>` -/

set_option maxRecDepth 4000 in
theorem scan_rev_block (E : Env) (x : Bool) (b s pv : Bytes) :
    scanAttrs E x [⟨[], asc "about", s⟩, ⟨[], asc "rev", pv⟩] { localBase := b } =
      { about := some s, rev := some pv, localBase := b } := by
  simp [scanAttrs, asc]

def revChainBlock (i j : Nat) (s pv o qv c lg : Bytes) : Node :=
  .mk i 3 [] (asc "div") [] [⟨[], asc "about", s⟩, ⟨[], asc "rev", pv⟩] [litBlock j o qv c lg]

set_option linter.unusedSimpArgs false in
set_option maxRecDepth 8000 in
set_option maxHeartbeats 1600000 in
theorem rev_chain_block_text (E : Env) (cfg : Cfg) (ctx : Ctx) (st : St) (i j : Nat) (s pv o qv c lg S p O q : Bytes)
    (hbad : st.bad = none) (hinc : ctx.incomplete = []) (hmap : st.getMap ctx.listMapping = [])
    (hs : refIRI ctx.prefixes s = some S) (hp : predIRI ctx.prefixes pv = some p)
    (ho : refIRI ctx.prefixes o = some O) (hq : predIRI ctx.prefixes qv = some q) :
    (walk E cfg false ctx st (revChainBlock i j s pv o qv c lg)).bad = none ∧
    (walk E cfg false ctx st (revChainBlock i j s pv o qv c lg)).out =
      st.out ++ [⟨.iri O, q, plainLit c lg⟩, ⟨.iri O, p, .iri S⟩] := by
  have hS : ∀ st b dv sf tm, resolveIRI E st ctx.prefixes s b dv sf tm = (some (.iri S), st) :=
    fun st b dv sf tm => resolveIRI_ref E st _ s b dv sf tm S hs
  have hO : ∀ st b dv sf tm, resolveIRI E st ctx.prefixes o b dv sf tm = (some (.iri O), st) :=
    fun st b dv sf tm => resolveIRI_ref E st _ o b dv sf tm O ho
  have hP : ∀ st dv tm, resolveTokens E ctx.prefixes dv tm (fields (trimSpace pv)) st = ([p], st) :=
    fun st dv tm => resolveTokens_pred E st _ pv dv tm p hp
  have hQ : ∀ st dv tm, resolveTokens E ctx.prefixes dv tm (fields (trimSpace qv)) st = ([q], st) :=
    fun st dv tm => resolveTokens_pred E st _ qv dv tm q hq
  obtain ⟨f1, f2, f3, f4, f5⟩ := span_facts
  obtain ⟨g1, g2, g3, g4, g5, g6, g7, g8, g9⟩ := div_facts
  have hm1 := getMap_setMaps_nil st _ hmap
  have hm2 : (st.maps ++ [[]]).getD st.maps.length [] = [] := by simp
  unfold St.getMap at hmap
  have hmap' : st.maps[ctx.listMapping]?.getD [] = [] := by simpa [List.getD_eq_getElem?_getD] using hmap
  have k1 := getD_append_nil _ _ hmap'
  have k2 := getD_append_nil _ _ k1
  have k3 : (st.maps ++ [[]])[st.maps.length]?.getD [] = [] := by simp
  have k4 : (st.maps ++ [[]] ++ [[]])[st.maps.length]?.getD [] = [] := by simp
  have k5 : (st.maps ++ [[]] ++ [[]])[st.maps.length + 1]?.getD [] = [] := by simp
  unfold revChainBlock litBlock walk
  simp only [hbad, Option.isSome_none, Bool.false_eq_true, ↓reduceIte]
  by_cases hlg : lg = []
  all_goals by_cases hso : subjEq (.iri S) (.iri O) = true
  all_goals cases hps : ctx.parentSubject with
    | none =>
      simp [walk, f1, f2, f3, f4, f5, g1, g2, g3, g4, g5, g6, g7, g8, g9, scan_rev_block, scan_literal_block, filter_true,
        hS, hO, hP, hQ, hps, hso, hinc, hm1, hm2, hmap, hmap', hlg, k1, k2, k3, k4, k5]
      try simp [hbad, hmap', hm1, hm2, flushLists, flushCount, k1, k2, k3, k4, k5]
    | some z =>
      by_cases hz : subjEq z (.iri S) = true
      · simp [walk, f1, f2, f3, f4, f5, g1, g2, g3, g4, g5, g6, g7, g8, g9, scan_rev_block, scan_literal_block, filter_true,
          hS, hO, hP, hQ, hps, hz, hso, hinc, hm1, hm2, hmap, hmap', hlg, k1, k2, k3, k4, k5]
        try simp [hbad, hmap', hm1, hm2, flushLists, flushCount, k1, k2, k3, k4, k5]
      · simp [walk, f1, f2, f3, f4, f5, g1, g2, g3, g4, g5, g6, g7, g8, g9, scan_rev_block, scan_literal_block, filter_true,
          hS, hO, hP, hQ, hps, hz, hso, hinc, hm1, hm2, hmap, hmap', hlg, k1, k2, k3, k4, k5]
        try simp [hbad, hmap', hm1, hm2, flushLists, flushCount, k1, k2, k3, k4, k5]

end RdfModel.Rdfad
