/-
  RdfModel.Model.TurtleEncoder — executable model of the *document layer* of the Turtle encoder
  (property C02, component `ttle`):

    encoding/turtle/encoder.go          NewEncoder, AddTriple, AddResource, putResourceStatements,
                                        writeResourceStatement, writeSubjectValue, writeIRI,
                                        writeObjectValue, normalizedListSyntax, writeResourceList, Close
    encoding/turtle/encoder_config.go   EncoderConfig (options, apply, newEncoder)
    encoding/turtle/directives.go       WriteDirectives
    iri/iriutil/prefix_tracker.go       UsagePrefixMapper (which prefixes end up in a buffered header)
    rdfdescription/rdfdescriptionutil/buffered_triples_encoder.go   BufferedTriplesEncoder
                                        (ResourceListBuilder → ExportResources → AddResource → Close)

  built ON  Model/TurtleTokens.lean (formatIRI, formatLiteralLexicalForm, format_PN_LOCAL, literalShorthand),
            Model/Prefix.lean (PrefixManager.CompactPrefix, BaseIRI.RelativizeIRI),
            Model/Description.lean (ResourceListBuilder export, Resource / Statement trees).

  ## Conventions

  * Text is a list of code points (`List Nat`), as in Model/TurtleTokens.lean; the bytes Go writes are
    the UTF-8 encoding of that list (T3 compares bytes). Go strings are identified with their scalar
    sequences; the byte-level operations of PrefixManager / BaseIRI (`HasPrefix`, slicing at the end of a
    matched prefix, comparing with ASCII delimiters) and the bytewise orders (`strings.Compare`,
    `bytes.Compare`) are run on code points here. For well-formed UTF-8 the two agree (UTF-8 is
    prefix-free and order-preserving); that agreement is NOT proved, it is part of what T3 checks
    (namespaces, bases and IRIs with non-ASCII characters are generated).
  * Three outcomes: `ok`, `err` (the Go method returns an error), `panic` (Go run-time panic:
    `RelativizeIRI` index arithmetic on an insane base, see `Prefix.relativizeB`).
  * The blank-node labeller (`blanknodes.StringProvider`) is a function parameter `label`.
  * Go map iteration: the subject map of `ResourceListBuilder` (two loops of `ExportResources`) is the
    explicit order parameter `ord1`, `ord2` of `encodeResources`; `GroupByPredicate` / `GetUsedPrefixes`
    are sorted by the Go code before use (modelled by an insertion sort on the code-point order);
    the unstable `slices.SortFunc` inside `PrefixManager` is `Prefix.Sorter` (parameter `S`), or the
    already constructed manager is passed (`newEncoderWith`).
  * Recursion over statement trees regroups and sorts the children, so it is recursion on a *fuel*
    argument bounding the nesting depth (`Res.err`-free `none` = fuel exhausted; `depth + 1` suffices,
    `stmtsDepth`).

  ## Faithfully kept oddities

  * `newEncoder` writes the header of an UNBUFFERED encoder *before* it applies
    `baseDirectiveMode` / `prefixDirectiveMode`: an unbuffered encoder always writes `@base` /
    `@prefix` lines, also when `DirectiveMode_SPARQL` or `DirectiveMode_Disabled` was requested.
  * `WriteDirectives` writes namespace IRIs, the base IRI and prefix labels verbatim (`<%s>`, no
    `formatIRI`).
  * `writeResourceStatement` ignores the error of `writeObjectValue`.
  * D7 (`normalizedListSyntax`): see `listSyntax` — the model is of the REPAIRED code (patch
    `c02doc-1-fix-D7-typed-list`): a node that carries an `rdf:type` statement is not written with
    the `( … )` syntax. `listSyntaxD7` keeps the unrepaired decision for the witness theorem.

  Not modelled: `io.Writer` errors, `DirectiveMode` values other than the three constants,
  `GetContentMetadata`, text offsets.
-/
import RdfModel.Model.TurtleTokens
import RdfModel.Model.Prefix
import RdfModel.Model.Description
import RdfModel.Model.StrOrd
namespace RdfModel.TtlEnc
open RdfModel RdfModel.Desc

/-! ## Outcomes -/

inductive Res (α : Type) where
  | ok (a : α)
  | err
  | panic
  deriving Repr, DecidableEq

def Res.bind {α γ : Type} (r : Res α) (f : α → Res γ) : Res γ :=
  match r with
  | .ok a => f a
  | .err => .err
  | .panic => .panic

def Res.map {α γ : Type} (f : α → γ) (r : Res α) : Res γ := r.bind (fun a => .ok (f a))

/-! ## Configuration -/

/-- `turtle.DirectiveMode` -/
inductive DirMode where
  | at        -- DirectiveMode_At:      `@base` / `@prefix`
  | sparql    -- DirectiveMode_SPARQL:  `BASE` / `PREFIX`
  | disabled  -- DirectiveMode_Disabled
  deriving Repr, DecidableEq, Inhabited

/-- `turtle.EncoderConfig` after all options were applied (`none` = option never set). The
    blank-node string provider is the separate parameter `label`. -/
structure Config where
  base : Option (List Nat) := none
  prefixes : List Prefix.Mapping := []
  buffered : Option Bool := none
  bufferedSort : Option Bool := none
  baseMode : Option DirMode := none
  prefixMode : Option DirMode := none
  deriving Repr

def rdfNS : String := "http://www.w3.org/1999/02/22-rdf-syntax-ns#"
def rdfType : List Nat := asc (rdfNS ++ "type")
def rdfList : List Nat := asc (rdfNS ++ "List")

/-! ## Sorting (what the Go code sorts before use) -/

/-- insertion into a list sorted by `le` -/
def insertBy {α : Type} (le : α → α → Bool) (a : α) : List α → List α
  | [] => [a]
  | x :: xs => if le a x then a :: x :: xs else x :: insertBy le a xs

/-- insertion sort (stable); `slices.SortFunc` is not stable, which is unobservable where it is used
    here: elements that compare equal are equal (sections, labels, predicates) or have distinct keys
    (prefix mappings of a manager). -/
def isortBy {α : Type} (le : α → α → Bool) : List α → List α
  | [] => []
  | x :: xs => insertBy le x (isortBy le xs)

/-- `slices.SortFunc(sections, bytes.Compare)` / `slices.SortFunc(prefixes, strings.Compare)` -/
def sortStrs (l : List (List Nat)) : List (List Nat) := isortBy strLe l

/-- `slices.SortFunc(mappings, iri.ComparePrefixMappingByPrefix)` -/
def sortMappings (l : List Prefix.Mapping) : List Prefix.Mapping := isortBy (fun a b => strLe a.pfx b.pfx) l

/-- remove later duplicates (keys of a Go map) -/
def dedup : List (List Nat) → List (List Nat)
  | [] => []
  | x :: xs => if x ∈ xs then dedup xs else x :: dedup xs

/-! ## Directives (directives.go) -/

def sp : Nat := 0x20
def nl : Nat := 0x0a
def tab : Nat := 0x09

/-- the base line of `WriteDirectives` -/
def baseDirective (mode : DirMode) (b : List Nat) : List Nat :=
  if b.isEmpty then []
  else match mode with
    | .disabled => []
    | .sparql => asc "BASE <" ++ b ++ asc ">\n"
    | .at => asc "@base <" ++ b ++ asc "> .\n"

/-- one prefix line of `WriteDirectives` -/
def prefixDirective (mode : DirMode) (m : Prefix.Mapping) : List Nat :=
  match mode with
  | .disabled => []
  | .sparql => asc "PREFIX " ++ m.pfx ++ asc ": <" ++ m.expanded ++ asc ">\n"
  | .at => asc "@prefix " ++ m.pfx ++ asc ": <" ++ m.expanded ++ asc "> .\n"

/-- `WriteDirectives` (the bytes; `written` is their number) -/
def writeDirectives (b : List Nat) (baseMode : DirMode) (ms : List Prefix.Mapping) (prefixMode : DirMode) : List Nat :=
  baseDirective baseMode b ++ ms.flatMap (prefixDirective prefixMode)

/-- directives, followed by an empty line when anything was written -/
def header (b : List Nat) (baseMode : DirMode) (ms : List Prefix.Mapping) (prefixMode : DirMode) : List Nat :=
  let d := writeDirectives b baseMode ms prefixMode
  if d.isEmpty then [] else d ++ [nl]

/-! ## The static part of an encoder: what `writeIRI` and the term writers look at -/

structure Ctx (β : Type) where
  T : Ttl.Tables
  pm : Prefix.PM
  base : Option Prefix.BaseIRI
  label : β → List Nat

/-- How `writeIRI` wrote an IRI. -/
inductive Written where
  | pname (pfx loc out : List Nat)   -- `pfx:out`, `out = format_PN_LOCAL loc`
  | rel (r : List Nat)               -- `<formatIRI r>`, `r` from `RelativizeIRI`
  | full (v : List Nat)              -- `<formatIRI v>`
  deriving Repr, DecidableEq

/-- the first `if` of `writeIRI`: `CompactPrefix` succeeded *and* `format_PN_LOCAL` did -/
def compactLocal (T : Ttl.Tables) (pm : Prefix.PM) (v : List Nat) : Option (List Nat × List Nat × List Nat) :=
  match Prefix.compact pm v with
  | none => none
  | some pr => (Ttl.format_PN_LOCAL T pr.reference).map (fun out => (pr.pfx, pr.reference, out))

/-- `writeIRI`: the decision -/
def writeIRIForm {β : Type} (c : Ctx β) (v : List Nat) : Res Written :=
  match compactLocal c.T c.pm v with
  | some (p, loc, out) => .ok (.pname p loc out)
  | none =>
    match c.base with
    | none => .ok (.full v)
    | some rb =>
      match Prefix.relativizeB rb v with
      | .panic => .panic
      | .some r => .ok (.rel r)
      | .none => .ok (.full v)

def Written.text (T : Ttl.Tables) : Written → List Nat
  | .pname p _ out => p ++ 0x3a :: out
  | .rel r => 0x3c :: (Ttl.formatIRI T false r ++ [0x3e])
  | .full v => 0x3c :: (Ttl.formatIRI T false v ++ [0x3e])

/-- `writeIRI`: the text -/
def writeIRI {β : Type} (c : Ctx β) (v : List Nat) : Res (List Nat) := (writeIRIForm c v).map (Written.text c.T)

/-- the prefix `UsagePrefixMapper.CompactPrefix` marks as used while `writeIRI v` runs (also when
    `format_PN_LOCAL` then declines) -/
def usedOfIRI (pm : Prefix.PM) (v : List Nat) : List (List Nat) :=
  match Prefix.compact pm v with
  | none => []
  | some pr => [pr.pfx]

/-- predicate position: `a` for rdf:type, else `writeIRI` -/
def writePredicate {β : Type} (c : Ctx β) (p : List Nat) : Res (List Nat) :=
  if p = rdfType then .ok [0x61] else writeIRI c p

def usedOfPredicate (pm : Prefix.PM) (p : List Nat) : List (List Nat) :=
  if p = rdfType then [] else usedOfIRI pm p

/-- `writeSubjectValue` -/
def writeSubject {β : Type} (c : Ctx β) : Term β → Res (List Nat)
  | .bnode b => .ok (0x5f :: 0x3a :: c.label b)
  | .iri v => writeIRI c v
  | .lit .. => .err                       -- "invalid type" (excluded by Go's static types)

def usedOfSubject {β : Type} (pm : Prefix.PM) : Term β → List (List Nat)
  | .iri v => usedOfIRI pm v
  | _ => []

/-- `writeObjectValue` -/
def writeObject {β : Type} (c : Ctx β) : Term β → Res (List Nat)
  | .bnode b => .ok (0x5f :: 0x3a :: c.label b)
  | .iri v => writeIRI c v
  | .lit lex dt lang =>
    if Ttl.literalShorthand dt lex then .ok lex
    else if dt = rdfLangString then
      .ok (Ttl.formatLiteralLexicalForm c.T false lex ++
        (match lang with
          | some t => 0x40 :: t
          | none => []))
    else if dt = xsdString then .ok (Ttl.formatLiteralLexicalForm c.T false lex)
    else (writeIRI c dt).map (fun d => Ttl.formatLiteralLexicalForm c.T false lex ++ 0x5e :: 0x5e :: d)

def usedOfObject {β : Type} (pm : Prefix.PM) : Term β → List (List Nat)
  | .iri v => usedOfIRI pm v
  | .bnode _ => []
  | .lit lex dt _ =>
    if Ttl.literalShorthand dt lex then []
    else if dt = rdfLangString then []
    else if dt = xsdString then []
    else usedOfIRI pm dt

/-! ## AddTriple: one section per triple -/

/-- the buffer `AddTriple` fills: `S P O .\n` -/
def tripleSection {β : Type} (c : Ctx β) (t : Triple β) : Res (List Nat) :=
  (writeSubject c t.s).bind fun s =>
  (writePredicate c t.p).bind fun p =>
  (writeObject c t.o).bind fun o =>
  .ok (s ++ sp :: (p ++ sp :: (o ++ [sp, 0x2e, nl])))

def usedOfTriple {β : Type} (pm : Prefix.PM) (t : Triple β) : List (List Nat) :=
  usedOfSubject pm t.s ++ usedOfPredicate pm t.p ++ usedOfObject pm t.o

/-! ## AddResource: nested `[ ]` and `( )` -/

def stmtPred {β : Type} : Stmt β → List Nat
  | .obj p _ => p
  | .anon p _ => p

/-- `GroupByPredicate()[p]`: the statements with predicate `p`, in order -/
def withPred {β : Type} (p : List Nat) (l : List (Stmt β)) : List (Stmt β) := l.filter (fun s => stmtPred s == p)

/-- the predicate list of `putResourceStatements`: keys of the grouping, sorted, rdf:type first -/
def predicateList {β : Type} (l : List (Stmt β)) : List (List Nat) :=
  let sorted := sortStrs (dedup (l.map stmtPred))
  if rdfType ∈ sorted then rdfType :: sorted.filter (· != rdfType) else sorted

mutual
def stmtDepth {β : Type} : Stmt β → Nat
  | .obj _ _ => 0
  | .anon _ l => stmtsDepth l + 1
def stmtsDepth {β : Type} : List (Stmt β) → Nat
  | [] => 0
  | s :: l => max (stmtDepth s) (stmtsDepth l)
end

/-- What `normalizedListSyntax` finds on one list node. -/
inductive Cell (β : Type) where
  | last (first : Stmt β)                            -- rdf:rest is the object rdf:nil
  | more (first : Stmt β) (rest : List (Stmt β))     -- rdf:rest is an inlined node
  | notList

/-- One round of the `for` loop of `normalizedListSyntax` (REPAIRED, D7: any rdf:type statement makes
    the node an ordinary node). `typedOK` = the unrepaired code's tolerance for exactly one
    `rdf:type rdf:List` object statement. -/
def listCellOf {β : Type} [DecidableEq β] (typedOK : Bool) (l : List (Stmt β)) : Cell β :=
  let types := withPred rdfType l
  let firsts := withPred Desc.rdfFirst l
  let rests := withPred Desc.rdfRest l
  let others := l.filter (fun s => stmtPred s != rdfType && stmtPred s != Desc.rdfFirst && stmtPred s != Desc.rdfRest)
  let typeOK : Bool :=
    match types with
    | [] => true
    | [.obj _ o] => typedOK && decide (o = Term.iri rdfList)
    | _ => false
  if !others.isEmpty || !typeOK then .notList
  else match firsts, rests with
    | [f], [.obj _ o] => if o = Term.iri Desc.rdfNil then .last f else .notList
    | [f], [.anon _ sub] => .more f sub
    | _, _ => .notList

/-- `normalizedListSyntax`: the entries (the rdf:first statements) of a well-formed collection.
    `some none` = not a collection; `none` = fuel exhausted. -/
def listSyntaxAux {β : Type} [DecidableEq β] (typedOK : Bool) : Nat → List (Stmt β) → Option (Option (List (Stmt β)))
  | 0, _ => none
  | fuel + 1, l =>
    match listCellOf typedOK l with
    | .notList => some none
    | .last f => some (some [f])
    | .more f sub =>
      match listSyntaxAux typedOK fuel sub with
      | none => none
      | some none => some none
      | some (some es) => some (some (f :: es))

/-- repaired code -/
def listSyntax {β : Type} [DecidableEq β] := @listSyntaxAux β _ false
/-- unrepaired code (D7): the `rdf:type rdf:List` statement of every cell is silently dropped -/
def listSyntaxD7 {β : Type} [DecidableEq β] := @listSyntaxAux β _ true

def tabs (n : Nat) : List Nat := List.replicate n tab

/-- fuel-limited computations that may fail: `none` = fuel exhausted -/
abbrev OR (α : Type) := Option (Res α)

def OR.bind {α γ : Type} (r : OR α) (f : α → OR γ) : OR γ :=
  match r with
  | none => none
  | some (.ok a) => f a
  | some .err => some .err
  | some .panic => some .panic

def OR.ok {α : Type} (a : α) : OR α := some (.ok a)

/-- run `f` on every element, stop at the first failure -/
def mapOR {α γ : Type} (f : α → OR γ) : List α → OR (List γ)
  | [] => OR.ok []
  | a :: l => (f a).bind fun b => (mapOR f l).bind fun bs => OR.ok (b :: bs)

def mapRes {α γ : Type} (f : α → Res γ) : List α → Res (List γ)
  | [] => .ok []
  | a :: l => (f a).bind fun b => (mapRes f l).bind fun bs => .ok (b :: bs)

/-- `a sep b sep c` (what the `if idx > 0 { buf.WriteString(sep) }` loops produce) -/
def joinSep (sep : List Nat) : List (List Nat) → List Nat
  | [] => []
  | [a] => a
  | a :: b :: l => a ++ sep ++ joinSep sep (b :: l)

/-- text, `multiline` flag, prefixes marked as used -/
structure Piece where
  text : List Nat
  multi : Bool
  used : List (List Nat)
  deriving Repr

/-- The three mutually recursive writers of encoder.go as one function over a job description.
    `ind` is the length of `linePrefix` (which only ever consists of tabs). -/
inductive Job (β : Type) where
  | put (ind : Nat) (l : List (Stmt β))      -- putResourceStatements(ctx, buf, linePrefix, l)
  | stmt (ind : Nat) (s : Stmt β)            -- writeResourceStatement(ctx, buf, linePrefix, s)
  | list (ind : Nat) (es : List (Stmt β))    -- writeResourceList(ctx, buf, linePrefix, es)

/-- `writeObjectValue` as called from `writeResourceStatement` (its error is dropped) -/
def objectPiece {β : Type} (c : Ctx β) (o : Term β) : OR Piece :=
  match writeObject c o with
  | .ok t => OR.ok ⟨t, false, usedOfObject c.pm o⟩
  | .err => OR.ok ⟨[], false, usedOfObject c.pm o⟩
  | .panic => some .panic

/-- lead-in of an element of a group: `"\n" + linePrefix` when the group has several elements, else `" "` -/
def lead (multi : Bool) (ind : Nat) : List Nat := if multi then nl :: tabs ind else [sp]

/-- `d7 = true` selects the unrepaired list decision. -/
def write {β : Type} [DecidableEq β] (c : Ctx β) (d7 : Bool) : Nat → Job β → OR Piece
  | 0, _ => none
  | _ + 1, .stmt _ (.obj _ o) => objectPiece c o
  | fuel + 1, .stmt ind (.anon _ sub) =>
    if sub.isEmpty then OR.ok ⟨asc "[]", false, []⟩
    else
      match listSyntaxAux d7 (stmtsDepth sub + 1) sub with
      | none => none
      | some (some es) => write c d7 fuel (.list ind es)
      | some none =>
        (write c d7 fuel (.put ind sub)).bind fun r =>
          OR.ok ⟨0x5b :: (r.text ++ (if r.multi then nl :: (tabs ind ++ [0x5d]) else [sp, 0x5d])), r.multi, r.used⟩
  | fuel + 1, .list ind es =>
    if es.isEmpty then OR.ok ⟨asc "()", false, []⟩
    else
      (mapOR (fun e => write c d7 fuel (.stmt (ind + 1) e)) es).bind fun rs =>
        OR.ok ⟨0x28 :: ((rs.flatMap (fun r => nl :: (tabs (ind + 1) ++ r.text))) ++ nl :: (tabs ind ++ [0x29])),
               true, rs.flatMap (·.used)⟩
  | fuel + 1, .put ind l =>
    let preds := predicateList l
    let multi := decide (preds.length > 1)
    let ind1 := if multi then ind + 1 else ind
    (mapOR (fun p =>
      match writePredicate c p with
      | .err => some .err
      | .panic => some .panic
      | .ok pt =>
        let group := withPred p l
        let pMulti := decide (group.length > 1)
        let ind2 := if pMulti then ind1 + 1 else ind1
        (mapOR (fun s => write c d7 fuel (.stmt ind2 s)) group).bind fun rs =>
          OR.ok (⟨lead multi ind1 ++ pt ++ joinSep [sp, 0x2c] (rs.map (fun r => lead pMulti ind2 ++ r.text)),
                  pMulti || rs.any (·.multi),
                  usedOfPredicate c.pm p ++ rs.flatMap (·.used)⟩ : Piece)) preds).bind fun gs =>
      OR.ok ⟨joinSep [sp, 0x3b] (gs.map (·.text)), multi || gs.any (·.multi), gs.flatMap (·.used)⟩

/-- enough fuel for `write … (.put _ l)` -/
def fuelFor {β : Type} (l : List (Stmt β)) : Nat := 3 * stmtsDepth l + 3

/-- `AddResource`: the section (`none` inside = nothing is written: no statements) and the prefixes used -/
def resourceSection {β : Type} [DecidableEq β] (c : Ctx β) (d7 : Bool) (r : Resource β) :
    OR (Option (List Nat) × List (List Nat)) :=
  let (subj, st) : Option (Term β) × List (Stmt β) :=
    match r with
    | .subject s st => (s, st)
    | .anon st => (none, st)
  if st.isEmpty then OR.ok (none, [])
  else
    let subjText : Res (List Nat) :=
      match subj with
      | none => .ok (asc "[]")
      | some s => writeSubject c s
    match subjText with
    | .err => some .err
    | .panic => some .panic
    | .ok s =>
      (write c d7 (fuelFor st) (.put 0 st)).bind fun r =>
        OR.ok (some (s ++ r.text ++ [sp, 0x2e, nl]),
               (match subj with | some x => usedOfSubject c.pm x | none => []) ++ r.used)

/-! ## NewEncoder … Close: the whole document -/

/-- `e.buffered` -/
def Config.isBuffered (cfg : Config) : Bool := cfg.buffered == some true

/-- `e.bufferedSort`: follows `buffered` unless set explicitly -/
def Config.isSorted (cfg : Config) : Bool := cfg.bufferedSort.getD cfg.isBuffered

/-- `base.String()` (recorded assumption: `ParseBaseIRI(b).String() = b`) -/
def Config.baseStr (cfg : Config) : List Nat := cfg.base.getD []

/-- the header `newEncoder` writes for an unbuffered encoder: always `@`-style (the directive modes
    are applied only afterwards) -/
def headerUnbuffered (cfg : Config) (pm : Prefix.PM) : List Nat :=
  if cfg.base.isSome || !cfg.prefixes.isEmpty then
    header cfg.baseStr .at (sortMappings (Prefix.getMappings pm)) .at
  else []

/-- the mappings `Close` lists in a buffered header: the used prefixes, sorted -/
def usedMappings (pm : Prefix.PM) (used : List (List Nat)) : List Prefix.Mapping :=
  (sortStrs (dedup used)).filterMap (fun l => (Prefix.expand pm ⟨l, []⟩).map (fun e => ⟨l, e⟩))

/-- the header `Close` writes for a buffered encoder -/
def headerBuffered (cfg : Config) (pm : Prefix.PM) (used : List (List Nat)) : List Nat :=
  if cfg.base.isSome || !(dedup used).isEmpty then
    header cfg.baseStr (cfg.baseMode.getD .at) (usedMappings pm used) (cfg.prefixMode.getD .at)
  else []

/-- everything written to `w` from `NewEncoder` to `Close`, given the sections the `Add…` calls
    produced (in call order) and the prefixes they marked as used -/
def document (cfg : Config) (pm : Prefix.PM) (secs : List (List Nat)) (used : List (List Nat)) : List Nat :=
  if !cfg.isBuffered then headerUnbuffered cfg pm ++ secs.flatten
  else if secs.isEmpty then []
  else headerBuffered cfg pm used ++ (if cfg.isSorted then sortStrs secs else secs).flatten

def ctxOf {β : Type} (T : Ttl.Tables) (cfg : Config) (pm : Prefix.PM) (label : β → List Nat) : Ctx β :=
  { T := T, pm := pm, base := cfg.base.map Prefix.newBaseIRI, label := label }

/-- `NewEncoder(cfg)`, `AddTriple(t)` for every `t`, `Close()`; `pm` is the prefix manager
    `NewPrefixManager(cfg.prefixes)` built (parameter: its internal order among equally long namespaces) -/
def encodePlainWith {β : Type} (T : Ttl.Tables) (cfg : Config) (pm : Prefix.PM) (label : β → List Nat)
    (ts : List (Triple β)) : Res (List Nat) :=
  (mapRes (tripleSection (ctxOf T cfg pm label)) ts).map fun secs =>
    document cfg pm secs (ts.flatMap (usedOfTriple pm))

def encodePlain {β : Type} (T : Ttl.Tables) (S : Prefix.Sorter) (cfg : Config) (label : β → List Nat)
    (ts : List (Triple β)) : Res (List Nat) :=
  encodePlainWith T cfg (Prefix.new S cfg.prefixes) label ts

/-- `NewEncoder(cfg)`, `AddResource(r)` for every `r`, `Close()` -/
def encodeResourceListWith {β : Type} [DecidableEq β] (T : Ttl.Tables) (d7 : Bool) (cfg : Config) (pm : Prefix.PM)
    (label : β → List Nat) (rs : List (Resource β)) : OR (List Nat) :=
  (mapOR (resourceSection (ctxOf T cfg pm label) d7) rs).bind fun xs =>
    OR.ok (document cfg pm (xs.filterMap (·.1)) (xs.flatMap (·.2)))

/-- `BufferedTriplesEncoder` around the Turtle encoder (turtlerdfio with `resources=true`):
    `AddTriple` collects into a `ResourceListBuilder`, `Close` exports with the default options
    (`ord1`, `ord2`: iteration orders of the two loops over the subject map) into `AddResource`,
    then closes the encoder. -/
def encodeResourcesWith {β : Type} [DecidableEq β] (T : Ttl.Tables) (d7 : Bool) (cfg : Config) (pm : Prefix.PM)
    (label : β → List Nat) (ord1 ord2 : List (Term β)) (ts : List (Triple β)) : OR (List Nat) :=
  match (build ts).exportResourcesV Opts.default ord1 ord2 (ts.length + 1) with
  | none => none
  | some rs => encodeResourceListWith T d7 cfg pm label rs

def encodeResources {β : Type} [DecidableEq β] (T : Ttl.Tables) (S : Prefix.Sorter) (cfg : Config)
    (label : β → List Nat) (ord1 ord2 : List (Term β)) (ts : List (Triple β)) : OR (List Nat) :=
  encodeResourcesWith T false cfg (Prefix.new S cfg.prefixes) label ord1 ord2 ts

end RdfModel.TtlEnc
