/-
  Part C09D2: nesting depth of the token stream of an XML tree (Model/RdfXmlTokens.lean): the stream of a tree is
  balanced, and every proper non-empty prefix of the stream of an element leaves at least one element open.
-/
import RdfModel.Proofs.C09Dec2Proto
import RdfModel.Model.RdfXmlTokens
namespace RdfModel.RXD
open RdfModel RdfModel.Desc RdfModel.RX

theorem depthAfter_append (d : Nat) (a b : List Tok) : depthAfter d (a ++ b) = depthAfter (depthAfter d a) b := by
  simp [depthAfter, List.foldl_append]

/-- no prefix dips below the starting depth -/
def PrefixOK (L : List Tok) : Prop := ∀ d p q, L = p ++ q → d ≤ depthAfter d p
def Bal (L : List Tok) : Prop := ∀ d, depthAfter d L = d

theorem prefixOK_append {A B : List Tok} (hA : PrefixOK A) (bA : Bal A) (hB : PrefixOK B) : PrefixOK (A ++ B) := by
  intro d p q h
  rcases List.append_eq_append_iff.mp h with ⟨a', h1, h2⟩ | ⟨c', h1, h2⟩
  · -- p = A ++ a', B = a' ++ q
    rw [h1, depthAfter_append, bA d]
    exact hB d a' q h2
  · -- A = p ++ c'
    exact hA d p c' h1

theorem bal_append {A B : List Tok} (bA : Bal A) (bB : Bal B) : Bal (A ++ B) := by
  intro d; rw [depthAfter_append, bA, bB]

theorem prefixOK_single_chars (s : Str) : PrefixOK [.chars s] ∧ Bal [.chars s] := by
  refine ⟨?_, fun d => rfl⟩
  intro d p q h
  cases p with
  | nil => simp [depthAfter]
  | cons a p' =>
    simp only [List.cons_append, List.cons.injEq] at h
    obtain ⟨rfl, h2⟩ := h
    have : p' = [] := by
      cases p' with
      | nil => rfl
      | cons _ _ => simp at h2
    subst this
    simp [depthAfter, tokDepth]

theorem elem_ok {ns name : Str} {attrs : List Attr} {K : List Tok} (hK : PrefixOK K) (bK : Bal K) :
    PrefixOK (.start ns name attrs :: (K ++ [.end_ ns name])) ∧ Bal (.start ns name attrs :: (K ++ [.end_ ns name])) ∧
    (∀ d p q, .start ns name attrs :: (K ++ [.end_ ns name]) = p ++ q → p ≠ [] → q ≠ [] → d + 1 ≤ depthAfter d p) := by
  have hbal : Bal (.start ns name attrs :: (K ++ [.end_ ns name])) := by
    intro d
    show depthAfter (d + 1) (K ++ [.end_ ns name]) = d
    rw [depthAfter_append, bK]
    simp [depthAfter, tokDepth]
  have hin : ∀ d p q, .start ns name attrs :: (K ++ [.end_ ns name]) = p ++ q → p ≠ [] → q ≠ [] → d + 1 ≤ depthAfter d p := by
    intro d p q h hp hq
    cases p with
    | nil => exact absurd rfl hp
    | cons a p' =>
      simp only [List.cons_append, List.cons.injEq] at h
      obtain ⟨rfl, h2⟩ := h
      show d + 1 ≤ depthAfter (d + 1) p'
      rcases List.append_eq_append_iff.mp h2 with ⟨a', h1, h3⟩ | ⟨c', h1, h3⟩
      · -- p' = K ++ a', [end] = a' ++ q, q ≠ [] ⇒ a' = []
        have : a' = [] := by
          cases a' with
          | nil => rfl
          | cons x xs =>
            simp only [List.cons_append, List.cons.injEq] at h3
            have h4 := h3.2.symm
            rw [List.append_eq_nil_iff] at h4
            exact absurd h4.2 hq
        subst this
        rw [h1, List.append_nil, bK]
        exact Nat.le_refl _
      · exact hK (d + 1) p' c' h1
  refine ⟨?_, hbal, hin⟩
  intro d p q h
  by_cases hp : p = []
  · subst hp; simp [depthAfter]
  · by_cases hq : q = []
    · subst hq
      rw [List.append_nil] at h
      rw [← h, hbal]
      exact Nat.le_refl _
    · exact Nat.le_of_succ_le (hin d p q h hp hq)

mutual
theorem tokens_ok : ∀ (n : Node), PrefixOK (tokens n) ∧ Bal (tokens n)
  | .elem ns name attrs kids => by
    obtain ⟨h1, h2⟩ := tokensList_ok kids
    obtain ⟨a, b, _⟩ := elem_ok (ns := ns) (name := name) (attrs := attrs) h1 h2
    simpa [tokens] using And.intro a b
  | .text s => by simpa [tokens] using prefixOK_single_chars s
  | .raw s => by simpa [tokens] using prefixOK_single_chars s
theorem tokensList_ok : ∀ (ks : List Node), PrefixOK (tokensList ks) ∧ Bal (tokensList ks)
  | [] => by
    refine ⟨?_, fun d => rfl⟩
    intro d p q h
    simp only [tokensList] at h
    have : p = [] := by
      cases p with
      | nil => rfl
      | cons _ _ => simp at h
    subst this; simp [depthAfter]
  | k :: ks => by
    obtain ⟨a1, b1⟩ := tokens_ok k
    obtain ⟨a2, b2⟩ := tokensList_ok ks
    simp only [tokensList]
    exact ⟨prefixOK_append a1 b1 a2, bal_append b1 b2⟩
end

/-- a document cut strictly inside its root element leaves an element open -/
theorem cut_inside_root (ns name : Str) (attrs : List Attr) (kids : List Node) (p q : List Tok)
    (h : tokensDoc (.elem ns name attrs kids) = p ++ q) (hp : p ≠ []) (hq : q ≠ []) : 0 < depthAfter 0 p := by
  obtain ⟨h1, h2⟩ := tokensList_ok kids
  obtain ⟨_, _, hin⟩ := elem_ok (ns := ns) (name := name) (attrs := attrs) h1 h2
  have := hin 0 p q (by simpa [tokensDoc, tokens] using h) hp hq
  omega

end RdfModel.RXD
