/-
  C20 (date/time family): parse ∘ format. Per layout element, `GoTime.step` applied to the text
  `GoTime.fmtTok` writes for an in-range field reads that field back and leaves the rest.
-/
import RdfModel.Proofs.C20Time
import RdfModel.Proofs.C20Int
namespace RdfModel.Proofs.C20Time
open RdfModel RdfModel.GoTime
open RdfModel.Xsd (Tok Bytes layoutToks nextIsFrac)

theorem isDigit_add {x : Nat} (h : x < 10) : Xsd.isDigit (0x30 + x) = true := by
  simp [Xsd.isDigit]; omega

theorem dig_add (x : Nat) : dig (0x30 + x) = x := by simp [dig]

theorem getnum2_pad2 {n : Nat} (h : n < 100) (rest : Bytes) : getnum2 (pad2 n ++ rest) = some (n, rest) := by
  have h1 : n / 10 % 10 < 10 := Nat.mod_lt _ (by decide)
  have h2 : n % 10 < 10 := Nat.mod_lt _ (by decide)
  simp only [pad2, List.cons_append, List.nil_append, getnum2, isDigit_add h1, isDigit_add h2, dig_add, Bool.and_self, if_true]
  congr 2; omega

theorem getnum1_pad2 {n : Nat} (h : n < 100) (rest : Bytes) : getnum1 (pad2 n ++ rest) = some (n, rest, false) := by
  have h1 : n / 10 % 10 < 10 := Nat.mod_lt _ (by decide)
  have h2 : n % 10 < 10 := Nat.mod_lt _ (by decide)
  simp only [pad2, List.cons_append, List.nil_append, getnum1, isDigit_add h1, isDigit_add h2, dig_add]
  simp; omega

theorem getYear_pad4 {y : Nat} (h : y < 10000) (rest : Bytes) : getYear (pad4 y ++ rest) = some (y, rest) := by
  have h1 : y / 1000 % 10 < 10 := Nat.mod_lt _ (by decide)
  have h2 : y / 100 % 10 < 10 := Nat.mod_lt _ (by decide)
  have h3 : y / 10 % 10 < 10 := Nat.mod_lt _ (by decide)
  have h4 : y % 10 < 10 := Nat.mod_lt _ (by decide)
  simp only [pad4, List.cons_append, List.nil_append, getYear, isDigit_add h1, isDigit_add h2, isDigit_add h3, isDigit_add h4,
    dig_add, Bool.and_self, if_true]
  congr 2; omega

theorem sf_lit (ts : List Tok) (b : Nat) (st : PS) (rest : Bytes) : step ts (.lit b) st (b :: rest) = some (st, rest) := by
  simp [step]

theorem sf_year (ts : List Tok) (st : PS) {y : Nat} (h : y < 10000) (rest : Bytes) :
    step ts .year st (pad4 y ++ rest) = some ({ st with t := { st.t with year := y } }, rest) := by
  simp [step, getYear_pad4 h]

theorem sf_month (ts : List Tok) (st : PS) {m : Nat} (h1 : 1 ≤ m) (h2 : m ≤ 12) (rest : Bytes) :
    step ts .month st (pad2 m ++ rest) = some ({ st with t := { st.t with month := some m } }, rest) := by
  have : ¬ (m = 0 ∨ 12 < m) := by omega
  simp [step, getnum2_pad2 (by omega : m < 100), this]

theorem sf_day (ts : List Tok) (st : PS) {d : Nat} (h : d < 100) (rest : Bytes) :
    step ts .day st (pad2 d ++ rest) = some ({ st with t := { st.t with day := some d } }, rest) := by
  simp [step, getnum2_pad2 h]

theorem sf_hour (ts : List Tok) (st : PS) {h : Nat} (hh : h < 24) (rest : Bytes) :
    step ts .hour st (pad2 h ++ rest) = some ({ t := { st.t with hour := h }, n := { st.n with hour1 := false } }, rest) := by
  have : ¬ 24 ≤ h := by omega
  simp [step, getnum1_pad2 (by omega : h < 100), this]

theorem sf_minute (ts : List Tok) (st : PS) {m : Nat} (h : m < 60) (rest : Bytes) :
    step ts .minute st (pad2 m ++ rest) = some ({ st with t := { st.t with min := m } }, rest) := by
  have : ¬ 60 ≤ m := by omega
  simp [step, getnum2_pad2 (by omega : m < 100), this]

/-- the seconds element when no fraction follows in the text, or the layout continues with one -/
theorem sf_second (ts : List Tok) (st : PS) {s : Nat} (h : s < 60) {rest : Bytes}
    (hr : nextIsFrac ts = true ∨ TailHead rest) :
    step ts .second st (pad2 s ++ rest) = some ({ st with t := { st.t with sec := s } }, rest) := by
  have : ¬ 60 ≤ s := by omega
  simp only [step, getnum2_pad2 (by omega : s < 100), this, if_false]
  match rest, hr with
  | [], _ => rfl
  | [_], _ => rfl
  | p :: d :: r2, hr =>
    simp only
    rcases hr with hf | ht
    · simp [hf]
    · have := ht p (d :: r2) rfl
      have hp : ¬ (p = 0x2E ∨ p = 0x2C) := by omega
      simp [hp]
theorem natVal_pad9 {ns : Nat} (h : ns < 1000000000) : natVal (pad9 ns) 0 = ns := by
  simp only [pad9, natVal, dig_add]
  omega

theorem pad9_digits (ns : Nat) : (pad9 ns).all Xsd.isDigit = true := by
  simp only [pad9, List.all_cons, List.all_nil, Bool.and_true, Bool.and_eq_true]
  refine ⟨?_, ?_, ?_, ?_, ?_, ?_, ?_, ?_, ?_⟩ <;> exact isDigit_add (Nat.mod_lt _ (by decide))

theorem atoi_digits {c : Nat} {t : Bytes} (h : (c :: t).all Xsd.isDigit = true) :
    atoi (c :: t) = some (false, false, natVal (c :: t) 0) := by
  have hc : Xsd.isDigit c = true := by
    simp only [List.all_cons, Bool.and_eq_true] at h; exact h.1
  have h1 : ¬ c = 0x2D := by intro e; subst e; revert hc; decide
  have h2 : ¬ c = 0x2B := by intro e; subst e; revert hc; decide
  simp only [atoi, h1, h2, if_false, h, if_true]

theorem parseNanos_pad9 {ns : Nat} (h : ns < 1000000000) (rest : Bytes) :
    parseNanos (0x2E :: pad9 ns ++ rest) 10 = some { ns := ns, comma := false, signed := false } := by
  have hd := pad9_digits ns
  have hv := natVal_pad9 h
  have htake : List.take 9 (pad9 ns ++ rest) = pad9 ns := by simp [pad9]
  have ha : atoi (pad9 ns) = some (false, false, ns) := by
    have := atoi_digits (c := 0x30 + ns / 100000000 % 10) (t := (pad9 ns).tail) (by simpa [pad9] using hd)
    have e : (0x30 + ns / 100000000 % 10) :: (pad9 ns).tail = pad9 ns := by simp [pad9]
    rw [e, hv] at this; exact this
  simp [parseNanos, htake, ha]

theorem sf_frac (ts : List Tok) (st : PS) {ns : Nat} (h : ns < 1000000000) (rest : Bytes) :
    step ts (.frac0 9 0x2E) st (0x2E :: pad9 ns ++ rest) =
      some ({ t := { st.t with nsec := ns }, n := { st.n with comma := false, fsign := false } }, rest) := by
  have hl : ¬ (0x2E :: pad9 ns ++ rest).length < 1 + 9 := by simp [pad9]
  have hdrop : (0x2E :: pad9 ns ++ rest).drop (1 + 9) = rest := by simp [pad9]
  simp only [step, hl, if_false, parseNanos_pad9 h, hdrop]

/-- the zone element on `Z` -/
theorem sf_tz_Z (ts : List Tok) (st : PS) (rest : Bytes) :
    step ts .tz st (0x5A :: rest) = some ({ st with t := { st.t with zone := some 0 } }, rest) := by
  simp [step]

/-- the zone element on `±hh:mm` as Format writes it -/
theorem sf_tz_num (ts : List Tok) (st : PS) {sg hr mm : Nat} (hs : sg = 0x2B ∨ sg = 0x2D) (h1 : hr ≤ 24) (h2 : mm ≤ 59)
    (rest : Bytes) :
    step ts .tz st (sg :: (pad2 hr ++ [0x3A] ++ pad2 mm) ++ rest) =
      some ({ t := { st.t with zone := some (if sg = 0x2B then (((hr * 60 + mm) * 60 : Nat) : Int)
                                              else -(((hr * 60 + mm) * 60 : Nat) : Int)) },
              n := { st.n with tzWide := !tzInXsd hr mm } }, rest) := by
  have e1 := getnum2_pad2 (by omega : hr < 100) []
  have e2 := getnum2_pad2 (by omega : mm < 100) []
  simp only [pad2, List.cons_append, List.nil_append] at e1 e2
  have hz : ¬ sg = 0x5A := by omega
  have hrange : ¬ (hr > 24 ∨ mm > 60) := by omega
  simp only [step, pad2, List.cons_append, List.nil_append, hz, if_false, e1, e2, hrange, ne_eq, not_true_eq_false]
  rcases hs with rfl | rfl <;> simp

/-! ### composition over a layout prefix -/

/-- the field a layout element carries, copied from `v` (month/day as time.Parse stores them) -/
def setT (v : PT) : Tok → PT → PT
  | .year, s => { s with year := v.year }
  | .month, s => { s with month := some (v.month.getD 1) }
  | .day, s => { s with day := some (v.day.getD 1) }
  | .hour, s => { s with hour := v.hour }
  | .minute, s => { s with min := v.min }
  | .second, s => { s with sec := v.sec }
  | .frac0 _ _, s => { s with nsec := v.nsec }
  | _, s => s

/-- what reading a text written by Format does to the notes -/
def setN : Tok → Notes → Notes
  | .hour, n => { n with hour1 := false }
  | .frac0 _ _, n => { n with comma := false, fsign := false }
  | _, n => n

def stepSt (v : PT) (tok : Tok) (st : PS) : PS := { t := setT v tok st.t, n := setN tok st.n }

/-- the field of `v` that a (non-zone) layout element prints is in the range Format/Parse agree on -/
def TokOK (v : PT) : Tok → Prop
  | .lit _ => True
  | .year => v.year < 10000
  | .month => 1 ≤ v.month.getD 1 ∧ v.month.getD 1 ≤ 12
  | .day => v.day.getD 1 < 100
  | .hour => v.hour < 24
  | .minute => v.min < 60
  | .second => v.sec < 60
  | .frac0 n sep => n = 9 ∧ sep = 0x2E ∧ v.nsec < 1000000000
  | .tz => False
  | .unknown => False

theorem step_fmt (v : PT) (ts : List Tok) (tok : Tok) (st : PS) (rest : Bytes) (hok : TokOK v tok)
    (hsec : tok = .second → nextIsFrac ts = true ∨ TailHead rest) :
    step ts tok st (fmtTok v tok ++ rest) = some (stepSt v tok st, rest) := by
  cases tok with
  | lit b => exact sf_lit ts b st rest
  | year => exact sf_year ts st hok rest
  | month => exact sf_month ts st hok.1 hok.2 rest
  | day => exact sf_day ts st hok rest
  | hour => exact sf_hour ts st hok rest
  | minute => exact sf_minute ts st hok rest
  | second => exact sf_second ts st hok (hsec rfl)
  | frac0 n sep =>
    obtain ⟨rfl, rfl, hns⟩ := hok
    have : fmtTok v (.frac0 9 0x2E) = 0x2E :: pad9 v.nsec := by simp [fmtTok, pad9]
    rw [this]
    exact sf_frac ts st hns rest
  | tz => exact absurd hok (by simp [TokOK])
  | unknown => exact absurd hok (by simp [TokOK])

/-- a layout prefix without zone element whose fields are in range and whose seconds are followed
    either by a fraction element or by text that is not a fraction -/
def WF (v : PT) (ts2 : List Tok) (rest : Bytes) : List Tok → Prop
  | [] => True
  | tok :: p => TokOK v tok ∧ (tok = .second → nextIsFrac (p ++ ts2) = true ∨ TailHead (formatWith p v ++ rest)) ∧
      WF v ts2 rest p

def foldSt (v : PT) : List Tok → PS → PS
  | [], st => st
  | tok :: p, st => foldSt v p (stepSt v tok st)

/-- parse ∘ format over a layout prefix, any continuation -/
theorem rt_prefix (v : PT) (ts2 : List Tok) (rest : Bytes) :
    ∀ (pre : List Tok) (st : PS), WF v ts2 rest pre →
      parseToks (pre ++ ts2) st (formatWith pre v ++ rest) = parseToks ts2 (foldSt v pre st) rest := by
  intro pre
  induction pre with
  | nil => intro st _; simp [formatWith, foldSt]
  | cons tok p ih =>
    intro st hwf
    obtain ⟨hok, hsec, hwf'⟩ := hwf
    have hf : formatWith (tok :: p) v ++ rest = fmtTok v tok ++ (formatWith p v ++ rest) := by
      simp [formatWith, List.flatMap_cons, List.append_assoc]
    rw [hf, List.cons_append]
    simp only [parseToks]
    rw [step_fmt v (p ++ ts2) tok st _ hok hsec]
    simp only [Option.bind_some, foldSt]
    exact ih _ hwf'

/-! ### zone element -/

/-- a zone as time.Parse produces it and Format prints it faithfully: none, or ±(hh:mm) with hh ≤ 24,
    mm ≤ 59; `narrow`: additionally within XSD's ±14:00 -/
def ZoneOK (narrow : Bool) (z : Option Int) : Prop :=
  z = none ∨ ∃ hr mm, hr ≤ 24 ∧ mm ≤ 59 ∧ (narrow = true → tzInXsd hr mm = true) ∧
    (z = some (((hr * 60 + mm) * 60 : Nat) : Int) ∨ z = some (-(((hr * 60 + mm) * 60 : Nat) : Int)))

theorem tdiv_pos (k : Nat) : Int.tdiv (((k * 60 : Nat) : Int)) 60 = (k : Int) := by
  rw [Int.natCast_mul]; exact Int.mul_tdiv_cancel _ (by decide)

theorem tdiv_neg (k : Nat) : Int.tdiv (-((k * 60 : Nat) : Int)) 60 = -(k : Int) := by
  rw [Int.neg_tdiv, tdiv_pos]

theorem fmt_tz_cases {nw : Bool} {v : PT} (h : ZoneOK nw v.zone) :
    (fmtTok v .tz = [0x5A] ∧ v.zone.getD 0 = 0) ∨
    ∃ sg hr mm, (sg = 0x2B ∨ sg = 0x2D) ∧ hr ≤ 24 ∧ mm ≤ 59 ∧ (nw = true → tzInXsd hr mm = true) ∧
      fmtTok v .tz = sg :: (pad2 hr ++ [0x3A] ++ pad2 mm) ∧
      v.zone.getD 0 = (if sg = 0x2B then (((hr * 60 + mm) * 60 : Nat) : Int) else -(((hr * 60 + mm) * 60 : Nat) : Int)) := by
  rcases h with h | ⟨hr, mm, h1, h2, h3, h⟩
  · left; simp [fmtTok, h]
  · by_cases hk : hr * 60 + mm = 0
    · left
      rcases h with h | h <;> simp [fmtTok, h, hk]
    · right
      have hq : (hr * 60 + mm) / 60 = hr := by omega
      have hm : (hr * 60 + mm) % 60 = mm := by omega
      rcases h with h | h
      · refine ⟨0x2B, hr, mm, Or.inl rfl, h1, h2, h3, ?_, by simp [h]⟩
        have hne : ¬ (((hr * 60 + mm) * 60 : Nat) : Int) = 0 := by omega
        have hnn : ¬ ((hr * 60 + mm : Nat) : Int) < 0 := by omega
        simp only [fmtTok, h, Option.getD_some, hne, if_false, tdiv_pos, hnn, Int.natAbs_natCast, hq, hm]
      · refine ⟨0x2D, hr, mm, Or.inr rfl, h1, h2, h3, ?_, by simp [h]⟩
        have hne : ¬ (-(((hr * 60 + mm) * 60 : Nat) : Int)) = 0 := by omega
        have hnn : (-((hr * 60 + mm : Nat) : Int)) < 0 := by omega
        simp only [fmtTok, h, Option.getD_some, hne, if_false, tdiv_neg, hnn, if_true, Int.natAbs_neg, Int.natAbs_natCast, hq, hm]

theorem fmt_tz_head {nw : Bool} {v : PT} (h : ZoneOK nw v.zone) (rest : Bytes) : TailHead (fmtTok v .tz ++ rest) := by
  rcases fmt_tz_cases h with ⟨e, _⟩ | ⟨sg, hr, mm, hs, _, _, _, e, _⟩
  · rw [e]; intro c r' he; cases he; simp
  · rw [e]; intro c r' he; cases he; rcases hs with rfl | rfl <;> simp

/-- the zone element reads back what Format wrote -/
theorem rt_tz {nw : Bool} (v : PT) (ts : List Tok) (st : PS) (rest : Bytes) (h : ZoneOK nw v.zone) :
    ∃ w, step ts .tz st (fmtTok v .tz ++ rest) =
        some ({ t := { st.t with zone := some (v.zone.getD 0) }, n := { st.n with tzWide := w } }, rest) ∧
      (st.n.tzWide = false → nw = true → w = false) := by
  rcases fmt_tz_cases h with ⟨e, e0⟩ | ⟨sg, hr, mm, hs, h1, h2, h3, e, e0⟩
  · refine ⟨st.n.tzWide, ?_, fun hw _ => hw⟩
    rw [e, e0]; exact sf_tz_Z ts st rest
  · refine ⟨!tzInXsd hr mm, ?_, fun _ hn => by simp [h3 hn]⟩
    rw [e, e0]; exact sf_tz_num ts st hs h1 h2 rest

/-! ### whole layouts -/

/-- the state after the tail of a layout read the text Format wrote for it -/
def tailSt (v : PT) (tl : Tail) (w : Bool) (s : PS) : PS :=
  match tl with
  | .tz => { t := { s.t with zone := some (v.zone.getD 0) }, n := { s.n with tzWide := w } }
  | _ => s

theorem formatWith_append (a b : List Tok) (v : PT) : formatWith (a ++ b) v = formatWith a v ++ formatWith b v := by
  simp [formatWith, List.flatMap_append]

theorem tailHead_tail {nw : Bool} {v : PT} (hz : ZoneOK nw v.zone) (tl : Tail) : TailHead (formatWith tl.toks v) := by
  cases tl with
  | none => exact tailHead_nil
  | z => intro c r' he; simp [formatWith, Tail.toks, fmtTok] at he; simp [he.1]
  | tz =>
    have := fmt_tz_head hz []
    simpa [formatWith, Tail.toks] using this

theorem dayOK_tail (v : PT) (tl : Tail) (w : Bool) (s : PS) : dayOK (tailSt v tl w s).t = dayOK s.t := by
  cases tl <;> rfl

/-- parse ∘ format for a whole layout `pre ++ tail` -/
theorem rt_layout {nw : Bool} (v : PT) (pre : List Tok) (tl : Tail)
    (hwf : WF v tl.toks (formatWith tl.toks v) pre) (hz : ZoneOK nw v.zone) (hd : dayOK (foldSt v pre {}).t = true) :
    ∃ w, parseWith (pre ++ tl.toks) (formatWith (pre ++ tl.toks) v) = some (tailSt v tl w (foldSt v pre {})) ∧
      (nw = true → (foldSt v pre {}).n.tzWide = false → w = false) := by
  have hp := rt_prefix v tl.toks (formatWith tl.toks v) pre {} hwf
  have key : ∃ w, parseToks tl.toks (foldSt v pre {}) (formatWith tl.toks v) = some (tailSt v tl w (foldSt v pre {})) ∧
      (nw = true → (foldSt v pre {}).n.tzWide = false → w = false) := by
    cases tl with
    | none => exact ⟨false, by simp [Tail.toks, parseToks, formatWith, tailSt], fun _ _ => rfl⟩
    | z => exact ⟨false, by simp [Tail.toks, parseToks, formatWith, tailSt, fmtTok, sf_lit], fun _ _ => rfl⟩
    | tz =>
      obtain ⟨w, hw, hn⟩ := rt_tz v [] (foldSt v pre {}) [] hz
      refine ⟨w, ?_, fun a b => hn b a⟩
      simp only [Tail.toks, parseToks, formatWith, List.flatMap_cons, List.flatMap_nil, tailSt]
      rw [hw]; simp
  obtain ⟨w, hw, hn⟩ := key
  refine ⟨w, ?_, hn⟩
  simp only [parseWith, formatWith_append, hp, hw, dayOK_tail, hd, if_true]

/-! ### invariant of the parse loop -/

theorem getYear_lt {v r : Bytes} {y : Nat} (h : getYear v = some (y, r)) : y < 10000 := by
  match v with
  | [] | [_] | [_, _] | [_, _, _] => simp [getYear] at h
  | a :: b :: c :: d :: r0 =>
    simp only [getYear] at h
    split at h
    · next hd => simp [dig] at h; simp [Xsd.isDigit] at hd; omega
    · simp at h

theorem step_tz_inv {ts : List Tok} {st st' : PS} {v r : Bytes} (h : step ts .tz st v = some (st', r)) :
    st' = { st with t := { st.t with zone := some 0 } } ∨
    ∃ hr mm o, hr ≤ 24 ∧ mm ≤ 60 ∧ (o = (((hr * 60 + mm) * 60 : Nat) : Int) ∨ o = -(((hr * 60 + mm) * 60 : Nat) : Int)) ∧
      st' = { t := { st.t with zone := some o }, n := { st.n with tzWide := !tzInXsd hr mm } } := by
  simp only [step] at h
  grind

/-- what every state reachable by the parse loop satisfies -/
def ZInv (st : PS) : Prop :=
  st.t.zone = none ∨ st.t.zone = some 0 ∨
  ∃ hr mm, hr ≤ 24 ∧ mm ≤ 60 ∧
    (st.t.zone = some (((hr * 60 + mm) * 60 : Nat) : Int) ∨ st.t.zone = some (-(((hr * 60 + mm) * 60 : Nat) : Int))) ∧
    st.n.tzWide = !tzInXsd hr mm

def Inv (st : PS) : Prop :=
  st.t.year < 10000 ∧ (∀ m, st.t.month = some m → 1 ≤ m ∧ m ≤ 12) ∧ st.t.hour < 24 ∧ st.t.min < 60 ∧ st.t.sec < 60 ∧ ZInv st

theorem inv_init : Inv {} := by
  refine ⟨by decide, ?_, by decide, by decide, by decide, Or.inl rfl⟩
  intro m h; cases h

theorem step_inv {ts : List Tok} {tok : Tok} {st st' : PS} {v r : Bytes} (h : step ts tok st v = some (st', r))
    (hi : Inv st) : Inv st' := by
  obtain ⟨h1, h2, h3, h4, h5, h6⟩ := hi
  cases tok with
  | lit b => rw [step_lit_iff] at h; rw [h.2]; exact ⟨h1, h2, h3, h4, h5, h6⟩
  | year =>
    rw [step_year_iff] at h
    obtain ⟨y, hy, rfl⟩ := h
    exact ⟨getYear_lt hy, h2, h3, h4, h5, h6⟩
  | month =>
    rw [step_month_iff] at h
    obtain ⟨m, _, hm1, hm2, rfl⟩ := h
    refine ⟨h1, ?_, h3, h4, h5, h6⟩
    intro m' e; simp at e; subst e; exact ⟨hm1, hm2⟩
  | day =>
    rw [step_day_iff] at h
    obtain ⟨d, _, rfl⟩ := h
    exact ⟨h1, h2, h3, h4, h5, h6⟩
  | hour =>
    rw [step_hour_iff] at h
    obtain ⟨hh, one, _, hlt, rfl⟩ := h
    exact ⟨h1, h2, hlt, h4, h5, h6⟩
  | minute =>
    rw [step_minute_iff] at h
    obtain ⟨m, _, hlt, rfl⟩ := h
    exact ⟨h1, h2, h3, hlt, h5, h6⟩
  | second =>
    obtain ⟨s, r1, _, hlt, hc⟩ := step_second_inv h
    rcases hc with ⟨_, rfl⟩ | ⟨_, p, d, r2, f, _, _, _, _, rfl⟩
    · exact ⟨h1, h2, h3, h4, hlt, h6⟩
    · exact ⟨h1, h2, h3, h4, hlt, h6⟩
  | frac0 n sep =>
    obtain ⟨_, f, _, _, rfl⟩ := step_frac0_inv h
    exact ⟨h1, h2, h3, h4, h5, h6⟩
  | tz =>
    rcases step_tz_inv h with rfl | ⟨hr, mm, o, hh, hm, ho, rfl⟩
    · exact ⟨h1, h2, h3, h4, h5, Or.inr (Or.inl rfl)⟩
    · refine ⟨h1, h2, h3, h4, h5, Or.inr (Or.inr ⟨hr, mm, hh, hm, ?_, rfl⟩)⟩
      rcases ho with rfl | rfl
      · exact Or.inl rfl
      · exact Or.inr rfl
  | unknown => simp [step] at h

theorem parseToks_inv : ∀ (toks : List Tok) (st stf : PS) (a : Bytes), parseToks toks st a = some stf → Inv st → Inv stf := by
  intro toks
  induction toks with
  | nil =>
    intro st stf a h hi
    obtain ⟨_, rfl⟩ := end_inv (by simpa [parseToks] using h)
    exact hi
  | cons tok ts ih =>
    intro st stf a h hi
    simp only [parseToks, Option.bind_eq_some_iff, Prod.exists] at h
    obtain ⟨s1, r1, hs, hrest⟩ := h
    exact ih _ _ _ hrest (step_inv hs hi)

/-- the invariant gives the zone in the form the round trip needs -/
theorem zoneOK_of_inv {st : PS} (hi : Inv st) (hw : st.n.tzWide = false) : ZoneOK true st.t.zone := by
  rcases hi.2.2.2.2.2 with h | h | ⟨hr, mm, hh, hm, hz, hwz⟩
  · exact Or.inl h
  · exact Or.inr ⟨0, 0, by omega, by omega, fun _ => by decide, Or.inl (by simpa using h)⟩
  · rw [hw] at hwz
    have hx : tzInXsd hr mm = true := by simpa using hwz.symm
    have : mm ≤ 59 := by
      simp [tzInXsd] at hx; omega
    exact Or.inr ⟨hr, mm, hh, this, fun _ => hx, hz⟩

/-! ### one layout's text read by a sibling layout -/

theorem app_congr {a b c d : Bytes} (h1 : a = b) (h2 : c = d) : a ++ c = b ++ d := by rw [h1, h2]

theorem toks_none : Tail.none.toks = [] := rfl
theorem toks_z : Tail.z.toks = [.lit 0x5A] := rfl
theorem toks_tz : Tail.tz.toks = [.tz] := rfl

theorem fmtTok_tz_zone (t : PT) (x : Int) : fmtTok { t with zone := some x } .tz = fmtTok { zone := some x } .tz := by
  simp [fmtTok]

theorem fmtTok_tz_getD (v : PT) : fmtTok { zone := some (v.zone.getD 0) } .tz = fmtTok v .tz := by
  simp [fmtTok]

/-- the text written with layout `pre ++ tl`, read with `pre ++ tl'` (same prefix, another tail):
    if it is accepted, it is written back identically and nothing lax was used -/
theorem cross_plain (v : PT) (pre : List Tok) (tl tl' : Tail)
    (hwf : ∀ ts2, WF v ts2 (formatWith tl.toks v) pre) (hz : ZoneOK true v.zone)
    (hfmt : ∀ z, formatWith pre { (foldSt v pre {}).t with zone := z } = formatWith pre v)
    (hfmt0 : formatWith pre (foldSt v pre {}).t = formatWith pre v)
    (hn : (foldSt v pre {}).n = {})
    {st'' : PS} (h : parseWith (pre ++ tl'.toks) (formatWith (pre ++ tl.toks) v) = some st'') :
    formatWith (pre ++ tl'.toks) st''.t = formatWith (pre ++ tl.toks) v ∧ st''.n.clean = true := by
  obtain ⟨hp, _⟩ := parseWith_inv h
  rw [formatWith_append, rt_prefix v tl'.toks (formatWith tl.toks v) pre {} (hwf _)] at hp
  rw [formatWith_append, formatWith_append]
  cases tl' with
  | none =>
    simp only [toks_none, parseToks] at hp
    obtain ⟨he, rfl⟩ := end_inv hp
    rw [he, hfmt0, hn]; exact ⟨by simp [toks_none, formatWith], by decide⟩
  | z =>
    simp only [toks_z] at hp
    unfold_parse at hp
    obtain ⟨s2, r2, ⟨he, rfl⟩, hend⟩ := hp
    obtain ⟨rfl, rfl⟩ := end_inv hend
    rw [he, hfmt0, hn]; exact ⟨by simp [toks_z, formatWith, fmtTok], by decide⟩
  | tz =>
    simp only [toks_tz] at hp
    unfold_parse at hp
    obtain ⟨s2, r2, htz, hend⟩ := hp
    obtain ⟨rfl, rfl⟩ := end_inv hend
    cases tl with
    | none => simp [Tail.toks, formatWith, step] at htz
    | z =>
      have e : formatWith Tail.z.toks v = 0x5A :: [] := by simp [Tail.toks, formatWith, fmtTok]
      rw [e, sf_tz_Z] at htz
      simp only [Option.some.injEq, Prod.mk.injEq, and_true] at htz
      subst htz
      rw [e]
      refine ⟨?_, by simp [hn]; decide⟩
      exact app_congr (hfmt _) (by simp [toks_tz, formatWith, fmtTok])
    | tz =>
      have e : formatWith Tail.tz.toks v = fmtTok v .tz ++ [] := by simp [Tail.toks, formatWith]
      obtain ⟨w, hw, hwf'⟩ := rt_tz v [] (foldSt v pre {}) [] hz
      rw [e, hw] at htz
      simp only [Option.some.injEq, Prod.mk.injEq, and_true] at htz
      subst htz
      have hw0 : w = false := hwf' (by rw [hn]) rfl
      subst hw0
      refine ⟨?_, by simp [hn]; decide⟩
      refine app_congr (hfmt _) ?_
      simp only [toks_tz, formatWith, List.flatMap_cons, List.flatMap_nil, List.append_nil]
      rw [fmtTok_tz_zone, fmtTok_tz_getD]

/-- the same text is refused by the layout with a ".000000000" element after the seconds -/
theorem cross_frac (v : PT) (pre : List Tok) (tl tl' : Tail)
    (hwf : ∀ ts2, WF v ts2 (formatWith tl.toks v) pre) (hz : ZoneOK true v.zone) :
    parseWith (pre ++ (.frac0 9 0x2E :: tl'.toks)) (formatWith (pre ++ tl.toks) v) = none := by
  have hlen : (formatWith tl.toks v).length < 10 := by
    cases tl with
    | none => simp [Tail.toks, formatWith]
    | z => simp [Tail.toks, formatWith, fmtTok]
    | tz =>
      rcases fmt_tz_cases hz with ⟨e, _⟩ | ⟨sg, hr, mm, _, _, _, _, e, _⟩ <;>
        simp [Tail.toks, formatWith, e, pad2]
  simp only [parseWith]
  rw [formatWith_append, rt_prefix v _ (formatWith tl.toks v) pre {} (hwf _)]
  simp [parseToks, step, hlen]

/-! ### the layout prefixes in use -/

def preD : List Tok := [.year, .lit 0x2D, .month, .lit 0x2D, .day]
def preC : List Tok := [.hour, .lit 0x3A, .minute, .lit 0x3A, .second]
def preDT : List Tok := [.year, .lit 0x2D, .month, .lit 0x2D, .day, .lit 0x54, .hour, .lit 0x3A, .minute, .lit 0x3A, .second]
def preGD : List Tok := [.lit 0x2D, .lit 0x2D, .lit 0x2D, .day]
def preGM : List Tok := [.lit 0x2D, .lit 0x2D, .month]
def preGMD : List Tok := [.lit 0x2D, .lit 0x2D, .month, .lit 0x2D, .day]
def preGY : List Tok := [.year]
def preGYM : List Tok := [.year, .lit 0x2D, .month]

/-- the calendar and clock fields of a value are in the range time.Parse produces -/
structure Fields (v : PT) : Prop where
  year : v.year < 10000
  m1 : 1 ≤ v.month.getD 1
  m2 : v.month.getD 1 ≤ 12
  hour : v.hour < 24
  min : v.min < 60
  sec : v.sec < 60
  d1 : 1 ≤ v.day.getD 1
  d2 : v.day.getD 1 ≤ daysIn (v.month.getD 1) v.year

/-- what the cross-layout lemmas need of a layout prefix -/
structure PreOK (v : PT) (pre : List Tok) : Prop where
  wf : ∀ ts2 rest, TailHead rest → WF v ts2 rest pre
  fmt : ∀ z, formatWith pre { (foldSt v pre {}).t with zone := z } = formatWith pre v
  fmt0 : formatWith pre (foldSt v pre {}).t = formatWith pre v
  notes : (foldSt v pre {}).n = {}
  day : dayOK (foldSt v pre {}).t = true

theorem daysIn_mono0 (m y : Nat) : daysIn m y ≤ daysIn m 0 := by
  unfold daysIn; split <;> (try split) <;> simp [isLeap]
theorem daysIn_ge (m y : Nat) : 1 ≤ daysIn m y := by
  unfold daysIn; split <;> (try split) <;> omega

theorem preOK_D {v : PT} (h : Fields v) : PreOK v preD := by
  have hd31 := Nat.le_trans h.d2 (daysIn_le _ _)
  refine ⟨?_, ?_, ?_, ?_, ?_⟩
  · intro ts2 rest _
    simp [preD, WF, TokOK, h.year, h.m1, h.m2]; omega
  · intro z; simp [preD, formatWith, foldSt, stepSt, setT, fmtTok]
  · simp [preD, formatWith, foldSt, stepSt, setT, fmtTok]
  · simp [preD, foldSt, stepSt, setN]
  · simp [preD, foldSt, stepSt, setT, dayOK, h.d1, h.d2]

theorem preOK_C {v : PT} (h : Fields v) : PreOK v preC := by
  refine ⟨?_, ?_, ?_, ?_, ?_⟩
  · intro ts2 rest hr
    simp [preC, WF, TokOK, h.hour, h.min, h.sec, formatWith]; exact Or.inr hr
  · intro z; simp [preC, formatWith, foldSt, stepSt, setT, fmtTok]
  · simp [preC, formatWith, foldSt, stepSt, setT, fmtTok]
  · simp [preC, foldSt, stepSt, setN]
  · simp [preC, foldSt, stepSt, setT, dayOK, daysIn]

theorem preOK_DT {v : PT} (h : Fields v) : PreOK v preDT := by
  have hd31 := Nat.le_trans h.d2 (daysIn_le _ _)
  refine ⟨?_, ?_, ?_, ?_, ?_⟩
  · intro ts2 rest hr
    simp [preDT, WF, TokOK, h.year, h.m1, h.m2, h.hour, h.min, h.sec, formatWith]
    exact ⟨by omega, Or.inr hr⟩
  · intro z; simp [preDT, formatWith, foldSt, stepSt, setT, fmtTok]
  · simp [preDT, formatWith, foldSt, stepSt, setT, fmtTok]
  · simp [preDT, foldSt, stepSt, setN]
  · simp [preDT, foldSt, stepSt, setT, dayOK, h.d1, h.d2]

theorem preOK_GD {v : PT} (h : Fields v) : PreOK v preGD := by
  have hd31 := Nat.le_trans h.d2 (daysIn_le _ _)
  refine ⟨?_, ?_, ?_, ?_, ?_⟩
  · intro ts2 rest _
    simp [preGD, WF, TokOK]; omega
  · intro z; simp [preGD, formatWith, foldSt, stepSt, setT, fmtTok]
  · simp [preGD, formatWith, foldSt, stepSt, setT, fmtTok]
  · simp [preGD, foldSt, stepSt, setN]
  · simp [preGD, foldSt, stepSt, setT, dayOK, h.d1, daysIn]; exact hd31

theorem preOK_GM {v : PT} (h : Fields v) : PreOK v preGM := by
  refine ⟨?_, ?_, ?_, ?_, ?_⟩
  · intro ts2 rest _
    simp [preGM, WF, TokOK, h.m1, h.m2]
  · intro z; simp [preGM, formatWith, foldSt, stepSt, setT, fmtTok]
  · simp [preGM, formatWith, foldSt, stepSt, setT, fmtTok]
  · simp [preGM, foldSt, stepSt, setN]
  · simp [preGM, foldSt, stepSt, setT, dayOK]; exact daysIn_ge _ _

theorem preOK_GMD {v : PT} (h : Fields v) : PreOK v preGMD := by
  have hd31 := Nat.le_trans h.d2 (daysIn_le _ _)
  refine ⟨?_, ?_, ?_, ?_, ?_⟩
  · intro ts2 rest _
    simp [preGMD, WF, TokOK, h.m1, h.m2]; omega
  · intro z; simp [preGMD, formatWith, foldSt, stepSt, setT, fmtTok]
  · simp [preGMD, formatWith, foldSt, stepSt, setT, fmtTok]
  · simp [preGMD, foldSt, stepSt, setN]
  · simp [preGMD, foldSt, stepSt, setT, dayOK, h.d1]; exact Nat.le_trans h.d2 (daysIn_mono0 _ _)

theorem preOK_GY {v : PT} (h : Fields v) : PreOK v preGY := by
  refine ⟨?_, ?_, ?_, ?_, ?_⟩
  · intro ts2 rest _
    simp [preGY, WF, TokOK, h.year]
  · intro z; simp [preGY, formatWith, foldSt, stepSt, setT, fmtTok]
  · simp [preGY, formatWith, foldSt, stepSt, setT, fmtTok]
  · simp [preGY, foldSt, stepSt, setN]
  · simp [preGY, foldSt, stepSt, setT, dayOK]; exact daysIn_ge _ _

theorem preOK_GYM {v : PT} (h : Fields v) : PreOK v preGYM := by
  refine ⟨?_, ?_, ?_, ?_, ?_⟩
  · intro ts2 rest _
    simp [preGYM, WF, TokOK, h.year, h.m1, h.m2]
  · intro z; simp [preGYM, formatWith, foldSt, stepSt, setT, fmtTok]
  · simp [preGYM, formatWith, foldSt, stepSt, setT, fmtTok]
  · simp [preGYM, foldSt, stepSt, setN]
  · simp [preGYM, foldSt, stepSt, setT, dayOK]; exact daysIn_ge _ _

/-- the fields of a state the parse loop produced, with the day-of-month test passed -/
theorem fields_of_inv {st : PS} (hi : Inv st) (hd : dayOK st.t = true) : Fields st.t := by
  obtain ⟨h1, h2, h3, h4, h5, _⟩ := hi
  simp [dayOK] at hd
  refine ⟨h1, ?_, ?_, h3, h4, h5, hd.1, hd.2⟩
  · cases hm : st.t.month with
    | none => simp
    | some m => simpa using (h2 m hm).1
  · cases hm : st.t.month with
    | none => simp
    | some m => simpa using (h2 m hm).2

/-! ### the written text has no white space -/

theorem isWs_ge {b : Nat} (h : 33 ≤ b) : Spec.Xsd.isWs b = false := by
  simp [Spec.Xsd.isWs]; omega

/-- literal bytes of a layout element are not white space -/
def LitOK : Tok → Prop
  | .lit b => 33 ≤ b
  | .frac0 _ sep => 33 ≤ sep
  | _ => True

theorem mem_pad2 {n b : Nat} (h : b ∈ pad2 n) : 33 ≤ b := by
  simp [pad2] at h; omega
theorem mem_pad4 {n b : Nat} (h : b ∈ pad4 n) : 33 ≤ b := by
  simp [pad4] at h; omega
theorem mem_pad9 {n b : Nat} (h : b ∈ pad9 n) : 33 ≤ b := by
  simp [pad9] at h; omega

theorem fmtTok_ge (v : PT) (tok : Tok) (hl : LitOK tok) : ∀ b ∈ fmtTok v tok, 33 ≤ b := by
  intro b hb
  cases tok with
  | lit c => simp [fmtTok] at hb; subst hb; exact hl
  | year => exact mem_pad4 hb
  | month => exact mem_pad2 hb
  | day => exact mem_pad2 hb
  | hour => exact mem_pad2 hb
  | minute => exact mem_pad2 hb
  | second => exact mem_pad2 hb
  | frac0 n sep =>
    simp only [fmtTok, List.mem_cons] at hb
    rcases hb with rfl | hb
    · exact hl
    · exact mem_pad9 (List.mem_of_mem_take hb)
  | tz =>
    simp only [fmtTok] at hb
    split at hb
    · simp at hb; omega
    · simp only [List.mem_cons, List.mem_append] at hb
      rcases hb with rfl | (hb | hb) | hb
      · split <;> omega
      · exact mem_pad2 hb
      · simp at hb; omega
      · exact mem_pad2 hb
  | unknown => simp [fmtTok] at hb

theorem formatWith_noWs (toks : List Tok) (v : PT) (h : ∀ tok ∈ toks, LitOK tok) : C20.NoWs (formatWith toks v) := by
  intro b hb
  simp only [formatWith, List.mem_flatMap] at hb
  obtain ⟨tok, ht, hb⟩ := hb
  exact isWs_ge (fmtTok_ge v tok (h tok ht) b hb)

/-! ### re-mapping the written text -/

theorem firstParse_good {ls : List Bytes} {w : Bytes} {P : TVal → Notes → Prop}
    (hex : ∃ l ∈ ls, (timeParse l w).isSome = true)
    (hall : ∀ l' ∈ ls, ∀ st, timeParse l' w = some st → P { t := st.t, layout := l' } st.n) :
    ∃ v' n', firstParse ls w = some (v', n') ∧ P v' n' := by
  induction ls with
  | nil => obtain ⟨l, hl, _⟩ := hex; cases hl
  | cons l0 ls ih =>
    simp only [firstParse]
    cases h0 : timeParse l0 w with
    | some st => exact ⟨_, _, rfl, hall l0 List.mem_cons_self st h0⟩
    | none =>
      simp only
      apply ih
      · obtain ⟨l, hl, hs⟩ := hex
        rcases List.mem_cons.mp hl with rfl | hl'
        · rw [h0] at hs; cases hs
        · exact ⟨l, hl', hs⟩
      · intro l' hl' st hst; exact hall l' (List.mem_cons_of_mem _ hl') st hst

/-- the text written for a value with layout `l = pre ++ tl` (no fraction element) maps again, through
    whichever sibling layout comes first, to a value that writes the same text, with nothing lax used -/
theorem canon_of {ls : List Bytes} {pre : List Tok}
    (hls : ∀ l' ∈ ls, ∃ tl' : Tail, layoutToks l' = pre ++ tl'.toks ∨ layoutToks l' = pre ++ (.frac0 9 0x2E :: tl'.toks))
    {v : PT} (hpre : PreOK v pre) (hz : ZoneOK true v.zone) {tl : Tail} {l : Bytes} (hl : l ∈ ls)
    (hlt : layoutToks l = pre ++ tl.toks) :
    ∃ v' n', firstParse ls (timeFormat l v) = some (v', n') ∧ lexTime v' = timeFormat l v ∧ n'.clean = true := by
  have hwf : ∀ ts2, WF v ts2 (formatWith tl.toks v) pre := fun ts2 => hpre.wf ts2 _ (tailHead_tail hz tl)
  have hw : timeFormat l v = formatWith (pre ++ tl.toks) v := by simp [timeFormat, hlt]
  apply firstParse_good
  · refine ⟨l, hl, ?_⟩
    obtain ⟨w, hw', _⟩ := rt_layout v pre tl (hwf _) hz hpre.day
    simp [timeParse, hlt, timeFormat, hw']
  · intro l' hl' st hst
    obtain ⟨tl', h' | h'⟩ := hls l' hl'
    · rw [timeParse, h', hw] at hst
      have := cross_plain v pre tl tl' hwf hz hpre.fmt hpre.fmt0 hpre.notes hst
      refine ⟨?_, this.2⟩
      simp only [lexTime, timeFormat, h', hlt]; exact this.1
    · rw [timeParse, h', hw, cross_frac v pre tl tl' hwf hz] at hst
      cases hst

def preCF : List Tok := [.hour, .lit 0x3A, .minute, .lit 0x3A, .second, .frac0 9 0x2E]
def preDTF : List Tok :=
  [.year, .lit 0x2D, .month, .lit 0x2D, .day, .lit 0x54, .hour, .lit 0x3A, .minute, .lit 0x3A, .second, .frac0 9 0x2E]

theorem wf_CF {v : PT} (h : Fields v) (hns : v.nsec < 1000000000) (ts2 : List Tok) (rest : Bytes) : WF v ts2 rest preCF := by
  simp [preCF, WF, TokOK, h.hour, h.min, h.sec, hns, nextIsFrac]

theorem wf_DTF {v : PT} (h : Fields v) (hns : v.nsec < 1000000000) (ts2 : List Tok) (rest : Bytes) : WF v ts2 rest preDTF := by
  have hd31 := Nat.le_trans h.d2 (daysIn_le _ _)
  simp [preDTF, WF, TokOK, h.year, h.m1, h.m2, h.hour, h.min, h.sec, hns, nextIsFrac]; omega

theorem day_CF (v : PT) : dayOK (foldSt v preCF {}).t = true := by
  simp [preCF, foldSt, stepSt, setT, dayOK, daysIn]

theorem day_DTF {v : PT} (h : Fields v) : dayOK (foldSt v preDTF {}).t = true := by
  simp [preDTF, foldSt, stepSt, setT, dayOK, h.d1, h.d2]

end RdfModel.Proofs.C20Time
