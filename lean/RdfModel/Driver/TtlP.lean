/-
  Driver handler for the Turtle/TriG DOCUMENT level of C08 (component `ttlp`):
  `Spec/TurtleAbstract.lean` (abstract syntax, `denote`, `print`) against the decoder model
  `Model/TurtleDoc.lean`.

    ttlp.doc <pkg:turtle|trig> <base:x<hex>|-> <doc> <choices>
        →  <wf:0|1><flat:0|1><chok:0|1><nobool:0|1>|<printed:x<hex>>|<denote>|<run stmts>|<verdict>
           (wf = `docWf`, chok = no slot has glue, nobool = `docNoBoolPfx`: the hypotheses of `C08.decode_print_partial`)
           denote = none  |  s,p,o,g;…      (statements as in `ttld.dec`, blank nodes renumbered by
           first occurrence on both sides);   run = `TtlDoc.run` of the printed text

  <doc>: tokens separated by `,` in prefix notation (values are hex of UTF-8):
      iri      R<ref> | N<prefix>.<local>
      literal  S<lex> | G<lex>.<tag> | D<lex> iri | M<numeric token> | T | F
      verb     a | iri
      object   iri | B<label> | A | literal | [<n> po×n | (<n> object×n
      po       P<n> verb object×n
      triples  t<n> subject po×n                    (subject = object without literals)
      dir      p<prefix>.<ref> (@prefix) | b<ref> (@base) | q<prefix>.<ref> (PREFIX) | c<ref> (BASE)
      block    dir | triples | g<kw:0|1><n> label triples×n       (label = - | iri | B<label> | A)
  <choices>: slots separated by `/` (`-` = none), slot = lay:cs:sty:n:glue:lay2
      lay / lay2  items separated by `_`: w0 SP, w1 TAB, w2 LF, w3 CR, c<eol:0-3><hex text>
      cs          one letter per rune (r e u l U L as in `ttl.print`);  sty 0-3;  n decimal;  glue 0|1
-/
import RdfModel.Driver.TtlDoc
import RdfModel.Driver.Ttl
import RdfModel.Props.C08DocDefs
namespace RdfModel.Driver.TtlP
open RdfModel RdfModel.Wire RdfModel.TA

def hexRunesOf (s : String) : Option (List Nat) := (unhex s).map utf8Decode

def pair (s : String) : Option (List Nat × List Nat) :=
  match s.splitOn "." with
  | [a, b] => do
    let x ← hexRunesOf a
    let y ← hexRunesOf b
    pure (x, y)
  | _ => none

def tail (s : String) : String := String.ofList s.toList.tail

def parseIri (t : String) : Option IriS :=
  match t.toList with
  | 'R' :: r => (hexRunesOf (String.ofList r)).map .ref
  | 'N' :: r => (pair (String.ofList r)).map (fun p => .pn p.1 p.2)
  | _ => none

abbrev Toks := List String

def parseLit (t : String) (rest : Toks) : Option (Lit × Toks) :=
  match t.toList with
  | 'S' :: r => (hexRunesOf (String.ofList r)).map (fun l => (.plain l, rest))
  | 'G' :: r => (pair (String.ofList r)).map (fun p => (.lang p.1 p.2, rest))
  | 'D' :: r =>
    (match rest with
      | d :: rest' => do
        let l ← hexRunesOf (String.ofList r)
        let i ← parseIri d
        pure (.typed l i, rest')
      | [] => none)
  | 'M' :: r => (hexRunesOf (String.ofList r)).map (fun l => (.num l, rest))
  | ['T'] => some (.bool true, rest)
  | ['F'] => some (.bool false, rest)
  | _ => none

def parseVerb (t : String) : Option Verb :=
  if t = "a" then some .a else (parseIri t).map .iri

mutual
def parseObj : Nat → Toks → Option (Obj × Toks)
  | 0, _ => none
  | _, [] => none
  | fuel + 1, t :: rest =>
    match t.toList with
    | ['A'] => some (.anon, rest)
    | 'B' :: r => (hexRunesOf (String.ofList r)).map (fun l => (.bn l, rest))
    | '[' :: r => (match (String.ofList r).toNat? with
        | none => none
        | some n => (parsePOs fuel n rest).map (fun p => (.bnpl p.1, p.2)))
    | '(' :: r => (match (String.ofList r).toNat? with
        | none => none
        | some n => (parseObjs fuel n rest).map (fun p => (.coll p.1, p.2)))
    | _ =>
      match parseIri t with
      | some i => some (.iri i, rest)
      | none => (parseLit t rest).map (fun p => (.lit p.1, p.2))
def parseObjs : Nat → Nat → Toks → Option (List Obj × Toks)
  | 0, _, _ => none
  | _, 0, rest => some ([], rest)
  | fuel + 1, n + 1, rest =>
    match parseObj fuel rest with
    | none => none
    | some (o, rest1) => (parseObjs fuel n rest1).map (fun p => (o :: p.1, p.2))
def parsePOs : Nat → Nat → Toks → Option (List PO × Toks)
  | 0, _, _ => none
  | _, 0, rest => some ([], rest)
  | _, _ + 1, [] => none
  | fuel + 1, n + 1, t :: rest =>
    match t.toList with
    | 'P' :: r =>
      (match (String.ofList r).toNat?, rest with
        | some k, v :: rest1 =>
          (match parseVerb v, parseObjs fuel k rest1 with
            | some vb, some (os, rest2) => (parsePOs fuel n rest2).map (fun p => (.mk vb os :: p.1, p.2))
            | _, _ => none)
        | _, _ => none)
    | _ => none
end

def subjOf : Obj → Option Subj
  | .iri i => some (.iri i)
  | .bn l => some (.bn l)
  | .anon => some .anon
  | .bnpl p => some (.bnpl p)
  | .coll os => some (.coll os)
  | .lit _ => none

def parseTriples (fuel : Nat) : Toks → Option (Triples × Toks)
  | [] => none
  | t :: rest =>
    match t.toList with
    | 't' :: r => do
      let n ← (String.ofList r).toNat?
      let (o, rest1) ← parseObj fuel rest
      let s ← subjOf o
      let (pos, rest2) ← parsePOs fuel n rest1
      pure (⟨s, pos⟩, rest2)
    | _ => none

def parseBody (fuel : Nat) : Nat → Toks → Option (List Triples × Toks)
  | 0, rest => some ([], rest)
  | n + 1, rest => do
    let (t, rest1) ← parseTriples fuel rest
    let (ts, rest2) ← parseBody fuel n rest1
    pure (t :: ts, rest2)

def parseLabel (t : String) : Option (Option GLabel) :=
  if t = "-" then some none
  else if t = "A" then some (some .anon)
  else match t.toList with
    | 'B' :: r => (hexRunesOf (String.ofList r)).map (fun l => some (.bn l))
    | _ => (parseIri t).map (fun i => some (.iri i))

def parseBlock (fuel : Nat) : Toks → Option (Block × Toks)
  | [] => none
  | t :: rest =>
    match t.toList with
    | 'p' :: r => (pair (String.ofList r)).map (fun p => (.dir (.prefixAt p.1 p.2), rest))
    | 'q' :: r => (pair (String.ofList r)).map (fun p => (.dir (.prefixKw p.1 p.2), rest))
    | 'b' :: r => (hexRunesOf (String.ofList r)).map (fun x => (.dir (.baseAt x), rest))
    | 'c' :: r => (hexRunesOf (String.ofList r)).map (fun x => (.dir (.baseKw x), rest))
    | 'g' :: kw :: r =>
      (match rest with
        | l :: rest1 => do
          let n ← (String.ofList r).toNat?
          let g ← parseLabel l
          let (body, rest2) ← parseBody fuel n rest1
          pure (.graph (kw = '1') g body, rest2)
        | [] => none)
    | _ => (parseTriples fuel (t :: rest)).map (fun p => (.triples p.1, p.2))

def parseDoc (fuel : Nat) : Nat → Toks → Option Doc
  | _, [] => some []
  | 0, _ => none
  | k + 1, toks => do
    let (b, rest) ← parseBlock fuel toks
    let bs ← parseDoc fuel k rest
    pure (b :: bs)

def docOf (s : String) : Option Doc :=
  if s = "-" then some []
  else
    let toks := s.splitOn ","
    parseDoc (2 * toks.length + 8) (toks.length + 1) toks

/-! choices -/

def parseItem (s : String) : Option LItem :=
  match s.toList with
  | ['w', d] => some (.ws (d.toNat - 48))
  | 'c' :: d :: r => (hexRunesOf (String.ofList r)).map (fun t => .comment t (d.toNat - 48))
  | _ => none

def parseLay (s : String) : Option (List LItem) :=
  if s = "" then some [] else (s.splitOn "_").mapM parseItem

def styleOf (s : String) : Spec.TtlPrint.Style :=
  if s = "1" then .sq else if s = "2" then .ldq else if s = "3" then .lsq else .dq

def parseSlot (s : String) : Option Slot :=
  match s.splitOn ":" with
  | [lay, cs, sty, n, glue, lay2] => do
    let l ← parseLay lay
    let l2 ← parseLay lay2
    pure { lay := l, cs := Driver.Ttl.choices cs, sty := styleOf sty, n := n.toNat?.getD 0, glue := glue = "1", lay2 := l2 }
  | _ => none

def choicesOf (s : String) : Option Choices :=
  if s = "-" then some [] else (s.splitOn "/").mapM parseSlot

def bit (b : Bool) : String := if b then "1" else "0"

def handle (op : String) (args : List String) : Option String :=
  match op, args with
  | "doc", [pkg, base, doc, chs] => do
    let C ← Driver.TtlDoc.cfgOf pkg
    let T ← Driver.Ttl.tablesOf pkg
    let base ← Driver.TtlDoc.optRunes base
    let d ← docOf doc
    let ch ← choicesOf chs
    let text := TA.print T d ch
    let den := match TA.denote C.resolve base [] d with
      | none => "none"
      | some qs => String.intercalate ";" (Driver.TtlDoc.showStmts [] (qs.map C08.toStmt))
    let (ss, v) := TtlDoc.run C .eof base [] text
    pure (bit (C08.docWf T C.trig d) ++ bit (C08.docFlat d) ++ bit (C08.choicesOK ch) ++ bit (C08.docNoBoolPfx d) ++ "|" ++
      tokOfRunes text ++ "|" ++ den ++ "|" ++
      String.intercalate ";" (Driver.TtlDoc.showStmts [] ss) ++ "|" ++ Driver.TtlDoc.showVerdict v)
  | _, _ => none

end RdfModel.Driver.TtlP
