/-
  Property C18, Turtle / RDF-JSON targets: NON-VACUITY of the composition theorems of Props/C18Targets.lean —
  the default command line (`rdfkit pipe -o /tmp/x/out.ttl`, no parameters; and `--out-param resources`) on concrete
  datasets: every hypothesis is discharged (the configuration obligations by `decide` on the regenerated RDFa
  context and Turtle tables), the theorems are instantiated, and the document the model writes is exhibited.
-/
import RdfModel.Props.C18Targets
namespace RdfModel.C18
open RdfModel RdfModel.Pipe RdfModel.BN
open scoped List

/-! ## Non-vacuity: the default command line on a concrete dataset -/

namespace Example
open Gen.PipeCfgFacts

/-- `rdfkit pipe -o /tmp/x/out.ttl` without any `--out-param`: the encoder base is the output file's IRI -/
def base : List Nat := encoderBase { name := asc "/tmp/x/out.ttl" }

/-- … and this is the configuration the Turtle encoder gets (`ttl_options_default`) -/
def cfg : TtlEnc.Config := { base := some base, prefixes := rdfaContext, buffered := some true }

theorem opt : ttlOptions rdfaContext [] base = some (cfg, false) := ttl_options_default _ _

set_option maxRecDepth 100000 in
/-- The configuration obligations of `pipe_preserves_ttl_plain` HOLD for the default command line with the
    regenerated RDFa context (every label PN_PREFIX-like and safe, every namespace of IRI characters and stable
    under the base `file:///tmp/x/out.ttl`, the base itself absolute and a fixed point of the resolver). -/
theorem cfg_ok : C02.ConfigOK C02.docCfg.isSpace Gen.turtle cfg (Prefix.new Prefix.mergeSorter cfg.prefixes) where
  agree := C02.new_pm_agree _ _
  labels := by decide
  ns := by decide
  base := by
    intro b hb
    have : b = base := by simpa [cfg] using hb.symm
    subst this
    decide
  empty := by decide

theorem U_ok (k : Nat) : C02.labelOK Gen.turtle (Witness.U k) = true ∧ C02.Scalars (Witness.U k) := by
  have h1 : inRanges Gen.turtle.pnCharsU 0x75 = true := by decide
  have h2 : inRanges Gen.turtle.pnChars 0x75 = true := by decide
  refine ⟨?_, ?_⟩
  · simp only [Witness.U, List.replicate_succ, C02.labelOK, h1, Bool.true_or, Bool.true_and, Bool.and_eq_true,
      List.all_eq_true]
    refine ⟨fun x hx => ?_, ?_⟩
    · rw [List.eq_of_mem_replicate hx]; simp [h2]
    · cases hk : (List.replicate k 0x75).getLast? with
      | none => rfl
      | some z =>
        have hz : z ∈ List.replicate k 0x75 := List.mem_of_getLast? hk
        simp only
        rw [List.eq_of_mem_replicate hz]; exact h2
  · intro c hc
    unfold Witness.U at hc
    rw [List.eq_of_mem_replicate hc]
    decide

/-- a quads source: `_:x` (labelled) and an anonymous node; a prefixed name of the RDFa context, a bare integer,
    a relative reference, the document itself (`<>`), a language-tagged literal, a named graph (dropped: D20) -/
def quads : List (Quad (Fin 2)) :=
  [ ⟨.bnode 0, .iri (asc "http://schema.org/name"), .lit (asc "5") (asc "http://www.w3.org/2001/XMLSchema#integer") none,
      some (.iri (asc "http://example.org/g"))⟩,
    ⟨.bnode 1, .iri (asc "file:///tmp/x/p"), .bnode 0, none⟩,
    ⟨.iri base, .iri TtlEnc.rdfType, .lit [0x68, 0xe9] rdfLangString (some (asc "en-GB")), none⟩ ]

def ts : List (Desc.Triple (Fin 2)) :=
  [ ⟨.bnode 0, asc "http://schema.org/name", .lit (asc "5") (asc "http://www.w3.org/2001/XMLSchema#integer") none⟩,
    ⟨.bnode 1, asc "file:///tmp/x/p", .bnode 0⟩,
    ⟨.iri base, TtlEnc.rdfType, .lit [0x68, 0xe9] rdfLangString (some (asc "en-GB"))⟩ ]

theorem hts : Proofs.C18.triplesOf quads = some ts := by decide

set_option maxRecDepth 100000 in
theorem ts_ok : ∀ t ∈ ts, C02.TripleOK
    (TtlEnc.ctxOf Gen.turtle cfg (Prefix.new Prefix.mergeSorter cfg.prefixes) (fun _ : Fin 2 => [])) cfg.base t := by
  intro t ht
  simp only [ts, List.mem_cons, List.mem_nil_iff, or_false] at ht
  rcases ht with rfl | rfl | rfl
  · exact ⟨trivial, ⟨by decide, by decide⟩, ⟨by decide, by decide, by decide, by decide, by decide⟩⟩
  · exact ⟨trivial, ⟨by decide, by decide⟩, trivial⟩
  · exact ⟨⟨by decide, by decide⟩, ⟨by decide, by decide⟩, ⟨by decide, by decide, by decide⟩⟩

theorem scope : ∀ b v, Witness.node b = some (.bnString 0 v) →
    (C02.labelOK Gen.turtle v = true ∧ C02.Scalars v) ∧ ∀ k, v ≠ Witness.U k := by
  intro b v h
  match b with
  | 0 =>
    simp only [Witness.node, Option.some.injEq, Ident.bnString.injEq, true_and] at h
    subst h
    refine ⟨⟨by decide, by decide⟩, fun k hk => ?_⟩
    have := congrArg List.head? hk
    simp [Witness.U, List.replicate_succ] at this
    revert this; decide
  | 1 => simp [Witness.node] at h

/-- every hypothesis of `pipe_preserves_ttl_plain` holds here: the theorem instantiated -/
theorem ttl_roundtrip (ord1 ord2 : List (Term Bytes)) :
    ∃ (doc : List Nat) (out : List TtlDoc.Stmt) (tr : List (Desc.Triple TtlDoc.BN)),
      pipeTtl Gen.turtle rdfaContext Prefix.mergeSorter [] base ord1 ord2 Witness.U Witness.s0 (some (.strf 0)) .quads
        (quads.map (Quad.map Witness.node)) = .ok doc ∧
      TtlDoc.run C02.docCfg .eof none [] doc = (out, .clean) ∧
      out.map C02.tripleOfStmt = tr.map some ∧ Spec.Iso tr ts :=
  pipe_preserves_ttl_plain Prefix.mergeSorter [] base cfg opt cfg_ok Witness.U Witness.U_inj U_ok Witness.s0 Witness.s0_inv 0
    (by decide) Witness.node Witness.node_inj .quads quads ts hts (by decide) scope ts_ok ord1 ord2

set_option maxRecDepth 100000 in
/-- … and this is the document (buffered: sections sorted, only the used prefix declared; the anonymous node
    carries the first UUID text of the process) -/
example : pipeTtl Gen.turtle rdfaContext Prefix.mergeSorter [] base [] [] Witness.U Witness.s0 (some (.strf 0)) .quads
    (quads.map (Quad.map Witness.node)) = .ok (asc (
      "@base <file:///tmp/x/out.ttl> .\n@prefix schema: <http://schema.org/> .\n\n" ++
      "<> a \"h\u00e9\"@en-GB .\n" ++
      "_:u <p> _:x .\n" ++
      "_:x schema:name 5 .\n")) := by decide

theorem rj_scope : ∀ b l, Witness.node b = some (.bnString 0 l) → l ≠ [] ∧ ∀ k, l ≠ Witness.U k := by
  intro b l h
  obtain ⟨⟨h1, _⟩, h2⟩ := scope b l h
  refine ⟨?_, h2⟩
  intro hl; subst hl; simp [C02.labelOK] at h1

theorem rj_wf : ∀ q ∈ quads, C01RJ.WFTriple (toRJ q) := by
  intro q hq
  simp only [quads, List.mem_cons, List.mem_nil_iff, or_false] at hq
  rcases hq with rfl | rfl | rfl
  · exact ⟨trivial, trivial, by decide, by decide, by decide⟩
  · exact ⟨trivial, trivial, trivial⟩
  · exact ⟨by show RJ.bnPrefix? base = none; decide, trivial, by decide, by decide, rfl, by decide⟩

/-- every hypothesis of `pipe_preserves_rdfjson` holds for the same dataset -/
theorem rj_roundtrip (v : RJ.Variant) :
    ∃ (toks : List RJ.Tok) (out : List (RJ.Triple RJ.BNode)),
      pipeRJ [] Witness.U Witness.s0 (some (.strf 0)) .quads (quads.map (Quad.map Witness.node)) = .ok toks ∧
      RJ.parseRoot v toks .eof = .done out .clean ∧ IsoRJ out (quads.map toRJ) :=
  pipe_preserves_rdfjson v Witness.U Witness.U_inj (by intro k; simp [Witness.U]) Witness.s0 Witness.s0_inv 0 (by decide)
    Witness.node Witness.node_inj .quads quads (by decide) rj_scope rj_wf

/-! ### `resources=true`: a dataset on which the export inlines nothing -/

namespace Res

/-- `--out-param resources` -/
def raw : List (List Nat) := [asc "resources"]

theorem opt : ttlOptions rdfaContext raw base = some (cfg, true) := by rfl

/-- one labelled node `_:x`, referenced twice (so never inlined) -/
def node : Unit → Node := fun _ => some (.bnString 0 (BN.asc "x"))

theorem node_inj : Function.Injective node := fun _ _ _ => rfl

def s1 : List Nat := asc "file:///tmp/x/s1"
def s2 : List Nat := asc "http://schema.org/s2"
def q : List Nat := asc "http://xmlns.com/foaf/0.1/knows"

def quads : List (Quad Unit) :=
  [ ⟨.bnode (), .iri (asc "http://schema.org/name"), .lit (asc "5") (asc "http://www.w3.org/2001/XMLSchema#integer") none, none⟩,
    ⟨.iri s1, .iri q, .bnode (), none⟩,
    ⟨.iri s2, .iri q, .bnode (), none⟩,
    ⟨.iri s1, .iri TtlEnc.rdfType, .iri (asc "http://schema.org/Person"), none⟩ ]

def ts : List (Desc.Triple Unit) :=
  [ ⟨.bnode (), asc "http://schema.org/name", .lit (asc "5") (asc "http://www.w3.org/2001/XMLSchema#integer") none⟩,
    ⟨.iri s1, q, .bnode ()⟩, ⟨.iri s2, q, .bnode ()⟩, ⟨.iri s1, TtlEnc.rdfType, .iri (asc "http://schema.org/Person")⟩ ]

/-- the flat resources the export yields (three subjects) -/
def rs : List (Proofs.C02Doc.FlatRes Unit) :=
  [ (.bnode (), [(asc "http://schema.org/name", .lit (asc "5") (asc "http://www.w3.org/2001/XMLSchema#integer") none)]),
    (.iri s1, [(q, .bnode ()), (TtlEnc.rdfType, .iri (asc "http://schema.org/Person"))]),
    (.iri s2, [(q, .bnode ())]) ]

/-- the subject map iterated in insertion order -/
def ord : List (Term Bytes) := [.bnode (BN.asc "x"), .iri s1, .iri s2]

theorem hts : Proofs.C18.triplesOf quads = some ts := by decide

theorem scope : ∀ b v, node b = some (.bnString 0 v) →
    (C02.labelOK Gen.turtle v = true ∧ C02.Scalars v) ∧ ∀ k, v ≠ Witness.U k := by
  intro b v h
  simp only [node, Option.some.injEq, Ident.bnString.injEq, true_and] at h
  subst h
  refine ⟨⟨by decide, by decide⟩, fun k hk => ?_⟩
  have := congrArg List.head? hk
  simp [Witness.U, List.replicate_succ] at this
  revert this; decide

set_option maxRecDepth 100000 in
theorem hflat : ∀ σ : Unit → List Nat, Function.Injective σ → (∀ b v, node b = some (.bnString 0 v) → σ b = v) →
    TtlEnc.encodeResourcesWith Gen.turtle false cfg (Prefix.new Prefix.mergeSorter cfg.prefixes) id ord ord
        (ts.map (Desc.Triple.map σ)) =
      TtlEnc.encodeResourceListWith Gen.turtle false cfg (Prefix.new Prefix.mergeSorter cfg.prefixes) σ
        (rs.map (·.toResource)) := by
  intro σ _ hown
  have hσ : σ = fun _ => BN.asc "x" := funext (fun b => hown b _ rfl)
  subst hσ
  decide

set_option maxRecDepth 100000 in
theorem rs_ok : ∀ r ∈ rs, Proofs.C02Doc.FlatOK
    (TtlEnc.ctxOf Gen.turtle cfg (Prefix.new Prefix.mergeSorter cfg.prefixes) (fun _ : Unit => [])) cfg.base r := by
  intro r hr
  simp only [rs, List.mem_cons, List.mem_nil_iff, or_false] at hr
  rcases hr with rfl | rfl | rfl
  · refine ⟨by decide, trivial, ?_⟩
    intro po hpo
    simp only [List.mem_cons, List.mem_nil_iff, or_false] at hpo
    subst hpo
    exact ⟨⟨by decide, by decide⟩, ⟨by decide, by decide, by decide, by decide, by decide⟩⟩
  · refine ⟨by decide, ⟨by decide, by decide⟩, ?_⟩
    intro po hpo
    simp only [List.mem_cons, List.mem_nil_iff, or_false] at hpo
    rcases hpo with rfl | rfl
    · exact ⟨⟨by decide, by decide⟩, trivial⟩
    · exact ⟨⟨by decide, by decide⟩, ⟨by decide, by decide⟩⟩
  · refine ⟨by decide, ⟨by decide, by decide⟩, ?_⟩
    intro po hpo
    simp only [List.mem_cons, List.mem_nil_iff, or_false] at hpo
    subst hpo
    exact ⟨⟨by decide, by decide⟩, trivial⟩

/-- every hypothesis of `pipe_preserves_ttl_resources_partial` holds here -/
theorem ttl_resources_roundtrip :
    ∃ (doc : List Nat) (out : List TtlDoc.Stmt) (tr : List (Desc.Triple TtlDoc.BN)),
      pipeTtl Gen.turtle rdfaContext Prefix.mergeSorter raw base ord ord Witness.U Witness.s0 (some (.strf 0)) .triples
        (quads.map (Quad.map node)) = .ok doc ∧
      TtlDoc.run C02.docCfg .eof none [] doc = (out, .clean) ∧
      out.map C02.tripleOfStmt = tr.map some ∧ Spec.Iso tr ts :=
  pipe_preserves_ttl_resources_partial Prefix.mergeSorter raw base cfg opt cfg_ok Witness.U Witness.U_inj U_ok Witness.s0
    Witness.s0_inv 0 (by decide) node node_inj .triples quads ts hts (fun _ => (by decide : () ∈ nodesOf (quads.map quadAsTriple)))
    scope ord ord rs hflat rs_ok (by decide)

end Res

/-! ### `resources=true`, full theorem: a dataset with an inlined anonymous node -/

namespace Nest

/-- `_:x` (labelled, referenced twice) and an anonymous node referenced once: written as `[ … ]` -/
def quads : List (Quad (Fin 2)) :=
  [ ⟨.bnode 1, .iri (asc "http://xmlns.com/foaf/0.1/knows"), .bnode 0, none⟩,
    ⟨.iri (asc "file:///tmp/x/s"), .iri (asc "http://schema.org/author"), .bnode 1, none⟩,
    ⟨.bnode 0, .iri (asc "http://schema.org/name"), .lit (asc "5") (asc "http://www.w3.org/2001/XMLSchema#integer") none, none⟩,
    ⟨.iri (asc "file:///tmp/x/s"), .iri (asc "http://schema.org/about"), .bnode 0, none⟩ ]

def ts : List (Desc.Triple (Fin 2)) :=
  [ ⟨.bnode 1, asc "http://xmlns.com/foaf/0.1/knows", .bnode 0⟩,
    ⟨.iri (asc "file:///tmp/x/s"), asc "http://schema.org/author", .bnode 1⟩,
    ⟨.bnode 0, asc "http://schema.org/name", .lit (asc "5") (asc "http://www.w3.org/2001/XMLSchema#integer") none⟩,
    ⟨.iri (asc "file:///tmp/x/s"), asc "http://schema.org/about", .bnode 0⟩ ]

theorem hts : Proofs.C18.triplesOf quads = some ts := by decide

set_option maxRecDepth 100000 in
theorem ts_ok : ∀ t ∈ ts, C02.TripleOK
    (TtlEnc.ctxOf Gen.turtle cfg (Prefix.new Prefix.mergeSorter cfg.prefixes) (fun _ : Fin 2 => [])) cfg.base t := by
  intro t ht
  simp only [ts, List.mem_cons, List.mem_nil_iff, or_false] at ht
  rcases ht with rfl | rfl | rfl | rfl
  · exact ⟨trivial, ⟨by decide, by decide⟩, trivial⟩
  · exact ⟨⟨by decide, by decide⟩, ⟨by decide, by decide⟩, trivial⟩
  · exact ⟨trivial, ⟨by decide, by decide⟩, ⟨by decide, by decide, by decide, by decide, by decide⟩⟩
  · exact ⟨⟨by decide, by decide⟩, ⟨by decide, by decide⟩, trivial⟩

/-- every hypothesis of the full statement holds here (subject map iterated in insertion order, both loops) -/
theorem ttl_resources_full :
    ∃ (σ : Fin 2 → List Nat) (doc : List Nat) (out : List TtlDoc.Stmt) (tr : List (Desc.Triple TtlDoc.BN)),
      pipeTtl Gen.turtle rdfaContext Prefix.mergeSorter Res.raw base
        (Desc.build (ts.map (Desc.Triple.map σ))).subjects (Desc.build (ts.map (Desc.Triple.map σ))).subjects
        Witness.U Witness.s0 (some (.strf 0)) .triples (quads.map (Quad.map Witness.node)) = .ok doc ∧
      TtlDoc.run C02.docCfg .eof none [] doc = (out, .clean) ∧
      out.map C02.tripleOfStmt = tr.map some ∧ Spec.Iso tr ts :=
  pipe_preserves_ttl_resources_holds (Fin 2) Prefix.mergeSorter Res.raw base cfg Res.opt cfg_ok Witness.U Witness.U_inj U_ok
    Witness.s0 Witness.s0_inv 0 (by decide) Witness.node Witness.node_inj .triples quads ts hts (by decide) scope ts_ok
    (fun σ => (Desc.build (ts.map (Desc.Triple.map σ))).subjects) (fun σ => (Desc.build (ts.map (Desc.Triple.map σ))).subjects)
    (fun _ => List.Perm.refl _) (fun _ => List.Perm.refl _)

set_option maxRecDepth 100000 in
/-- the document: the anonymous node is inlined (its fresh label `u` is drawn by the model but never written) -/
example : pipeTtl Gen.turtle rdfaContext Prefix.mergeSorter Res.raw base
    [.bnode (BN.asc "u"), .iri (asc "file:///tmp/x/s"), .bnode (BN.asc "x")]
    [.bnode (BN.asc "u"), .iri (asc "file:///tmp/x/s"), .bnode (BN.asc "x")]
    Witness.U Witness.s0 (some (.strf 0)) .triples (quads.map (Quad.map Witness.node)) = .ok (asc (
      "@base <file:///tmp/x/out.ttl> .\n@prefix foaf: <http://xmlns.com/foaf/0.1/> .\n@prefix schema: <http://schema.org/> .\n\n" ++
      "<s>\n\tschema:about _:x ;\n\tschema:author [ foaf:knows _:x ] .\n" ++
      "_:x schema:name 5 .\n")) := by decide

/-- the assignment-parametric theorem on the same dataset with ANOTHER admissible assignment (the anonymous node
    labelled `zz`, as if drawn in a different order): hypotheses satisfiable -/
def assign : Node → Bytes
  | some (.bnString _ v) => v
  | _ => BN.asc "zz"

theorem assign_ok : C02.LabelOK Gen.turtle (assign ∘ Witness.node) where
  inj := by
    intro a b h
    match a, b with
    | 0, 0 => rfl
    | 1, 1 => rfl
    | 0, 1 => exact absurd h (by decide)
    | 1, 0 => exact absurd h (by decide)
  ok := by
    intro b
    match b with
    | 0 => exact ⟨by decide, by decide⟩
    | 1 => exact ⟨by decide, by decide⟩

example (ord1 ord2 : List (Term Bytes))
    (h1 : ord1.Perm (Desc.build (ts.map (Desc.Triple.map (assign ∘ Witness.node)))).subjects)
    (h2 : ord2.Perm (Desc.build (ts.map (Desc.Triple.map (assign ∘ Witness.node)))).subjects) :
    ∃ (doc : List Nat) (out : List TtlDoc.Stmt) (tr : List (Desc.Triple TtlDoc.BN)),
      pipeTtlAssign Gen.turtle rdfaContext (Prefix.new Prefix.mergeSorter) Res.raw base ord1 ord2 assign .triples
        (quads.map (Quad.map Witness.node)) = .ok doc ∧
      TtlDoc.run C02.docCfg .eof none [] doc = (out, .clean) ∧
      out.map C02.tripleOfStmt = tr.map some ∧ Spec.Iso tr ts :=
  pipe_preserves_ttl_assign Prefix.mergeSorter Res.raw base cfg true Res.opt cfg_ok Witness.node assign assign_ok .triples
    quads ts hts ts_ok ord1 ord2 (fun _ => h1) (fun _ => h2)

end Nest

end Example

end RdfModel.C18
