package main

// Document generators for Turtle / TriG. The grammar-directed generator is a copy of go/cmd/c16x/ttl.go
// (tgen: multi-line, CRLF, lone CR, multi-byte and astral characters, ill-formed bytes, comments,
// several statements per line, prefixed names, relative references, blank node labels, long strings,
// numeric/boolean shorthand, `a`, nested [ ] and ( ), graph blocks, directives) with one addition:
// `safe` mode keeps every IRI that goes through IRI *resolution* inside the fragment on which the
// model's resolver (Driver.TtlDoc.resolveSafe, RFC 3986) is defined, so that the whole document is
// compared and not only the prefix up to the first resolver skip.

import (
	"strings"

	"verifharness/vh"
)

const rdfNS = "http://www.w3.org/1999/02/22-rdf-syntax-ns#"
const xsdNS = "http://www.w3.org/2001/XMLSchema#"

var ttlSimplePool = []string{"é", "ÿ", "ǆ", "中", "文", "\U00010000", "\U00010080", "\U0001F600", "¡", "ʰ", "\u00a0", "~"}
var ttlNonSimplePool = []string{"e\u0301", "\u200d", "\U0001F1E6\U0001F1FA", "\u1100\u1161", "\u2028", "α", "\u3000", "\U000E0001", "\u0903", "\u1680"}
var ttlBadBytes = []string{"\xff", "\xc3", "\xe4\xb8", "\x80", "\xf0\x9f\x98", "\xed\xa0\x80", "\xc0\xaf"}

type tgen struct {
	r        *vh.Rng
	trig     bool
	safe     bool // IRIs subject to resolution stay inside the resolver's safe fragment
	based    bool // a base is (or may come) in force: IRIREFs are resolved
	prefixes []string
	depth    int
}

func (g *tgen) word() string {
	s := g.r.LangTag()
	if len(s) > 6 {
		s = s[:6]
	}
	s = strings.Trim(s, "-")
	if s == "" {
		s = "w"
	}
	return s
}

func (g *tgen) spice(lit bool) string {
	switch g.r.Intn(16) {
	case 0, 1, 2:
		return vh.Pick(g.r, ttlSimplePool)
	case 3:
		return vh.Pick(g.r, []string{"\\u00e9", "\\U0001F600", "\\u4E2D", "\\u0041", "\\U00010000"})
	case 4:
		if lit {
			return vh.Pick(g.r, []string{"\\n", "\\\"", "\\\\", "\\t", "\\r", "\\'", "\\b", "\\f", " ", "\t", "<", ">", "#", ". ", "^^", "@en", "'", "_:x", "[", "("})
		}
		return "/"
	case 5:
		if g.r.Chance(25) {
			return vh.Pick(g.r, ttlNonSimplePool)
		}
		return "y"
	case 6:
		if g.r.Chance(12) {
			return vh.Pick(g.r, ttlBadBytes)
		}
		return "z"
	case 7:
		if !lit {
			return vh.Pick(g.r, []string{"#f", "?q=1", "../", "./", "%41", ":", "a:b"})
		}
		return "x"
	default:
		return g.word()
	}
}

func (g *tgen) iriref() string {
	if g.safe && g.based {
		s := vh.Pick(g.r, []string{"http://e.example/", "http://e.example/a/b", "rel", "x/y", "/abs", "#frag", "?q=1", "", "../up", "./x", "http://e.example/p?q=1#f"})
		if g.r.Chance(40) {
			s += g.word()
		}
		return "<" + s + ">"
	}
	var s string
	switch g.r.Intn(8) {
	case 0, 1, 2:
		s = vh.Pick(g.r, []string{"http://e/", "a:", "urn:x:", "https://example.org/p#", "http://e/a/b?q#"})
	case 3:
		s = vh.Pick(g.r, []string{"", "#", "#frag", "rel", "../up", "./x", "/abs", "?q", "//host/p", "x/y/"})
	default:
		s = "http://e/"
	}
	for i, n := 0, g.r.Intn(3); i < n; i++ {
		s += g.spice(false)
	}
	return "<" + s + ">"
}

func (g *tgen) pname() string {
	p := ""
	if len(g.prefixes) > 0 && g.r.Chance(92) {
		p = vh.Pick(g.r, g.prefixes)
	} else if g.r.Chance(50) {
		p = "undeclared"
	}
	local := ""
	switch g.r.Intn(12) {
	case 0:
	case 1:
		local = vh.Pick(g.r, []string{"a.b", "a..b", "x\\.", "\\.x", "a\\-b", "%41b", "a%2Fb", "a:b", ":a", "0", "9z", "_u", "a\\~\\!\\$", "é", "中文", "\U00010000x", "x·y", "a-b"})
	case 2:
		local = g.word() + vh.Pick(g.r, ttlSimplePool)
	case 3:
		local = vh.Pick(g.r, []string{"true", "false", "a", "BASE", "prefix", "graph"})
	default:
		local = g.word()
	}
	return p + ":" + local
}

func (g *tgen) bnode() string {
	s := "_:" + vh.Pick(g.r, []string{"a", "b0", "_x", "9", "n-1", "a.b", "é", "x·y", "a..b", "中", "B", "g"})
	if g.r.Chance(10) {
		s += g.word()
	}
	return s
}

func (g *tgen) iri() string {
	if g.r.Chance(45) && (len(g.prefixes) > 0 || g.r.Chance(6)) {
		return g.pname()
	}
	return g.iriref()
}

func (g *tgen) str() string {
	style := g.r.Intn(8)
	q, long := "\"", false
	switch style {
	case 0, 1:
		q = "'"
	case 2:
		q, long = "\"", true
	case 3:
		q, long = "'", true
	}
	body := ""
	for i, n := 0, g.r.Intn(4); i < n; i++ {
		sp := g.spice(true)
		if !long {
			sp = strings.NewReplacer("\n", "\\n", "\r", "\\r").Replace(sp)
			if strings.Contains(sp, q) && !strings.Contains(sp, "\\"+q) {
				sp = strings.ReplaceAll(sp, q, "\\"+q)
			}
		}
		body += sp
	}
	if long {
		if g.r.Chance(60) {
			body += vh.Pick(g.r, []string{"\n", "\r\n", "\r", "\n\n  ", q, q + q, " " + q + " ", "\\" + q})
			body += g.word()
		}
		for strings.HasSuffix(body, q) && !strings.HasSuffix(body, "\\"+q) {
			body += " "
		}
		return q + q + q + body + q + q + q
	}
	return q + body + q
}

func (g *tgen) literal() string {
	switch g.r.Intn(12) {
	case 0:
		return vh.Pick(g.r, []string{"1", "-5", "+0", "007", "1.5", "-.5", ".5", "1e3", "1.E0", "-1.5e-7", "1E+2", ".1e1", "12345678901234567890", "1.0"})
	case 1:
		return vh.Pick(g.r, []string{"true", "false"})
	case 2:
		return vh.Pick(g.r, []string{"\"\"", "''", "\"\"\"\"\"\"", "''''''"}) + vh.Pick(g.r, []string{"", "", "@en", "^^<a:t>"})
	}
	s := g.str()
	switch g.r.Intn(6) {
	case 0, 1:
		s += "@" + g.r.LangTag()
	case 2:
		s += "^^" + g.iriref()
	case 3:
		if len(g.prefixes) > 0 || g.r.Chance(6) {
			s += "^^" + g.pname()
		}
	}
	return s
}

func (g *tgen) ws(required bool) string {
	switch g.r.Intn(14) {
	case 0:
		if !required {
			return ""
		}
		return " "
	case 1:
		return "\t"
	case 2:
		return "  "
	case 3:
		return vh.Pick(g.r, []string{" # c\n", "#\n", " #" + vh.Pick(g.r, ttlSimplePool) + "\n ", "\n", "\r\n", " \r ", "\r", "\u00a0", "\u2028", " #" + vh.Pick(g.r, ttlNonSimplePool) + "\r", "\n\n\t", " # x\r\n"})
	case 4:
		return "\n  "
	default:
		return " "
	}
}

func (g *tgen) object() string {
	g.depth++
	defer func() { g.depth-- }()
	n := g.r.Intn(20)
	if g.depth > 3 && n >= 14 {
		n = 0
	}
	switch {
	case n < 4:
		return g.iri()
	case n < 6:
		return g.bnode()
	case n < 14:
		return g.literal()
	case n < 16:
		if g.r.Chance(30) {
			return "[" + g.ws(false) + "]"
		}
		return "[" + g.ws(false) + g.poList() + g.ws(false) + "]"
	default:
		k := g.r.Intn(4)
		s := "("
		for i := 0; i < k; i++ {
			s += g.ws(i > 0) + g.object()
		}
		return s + g.ws(false) + ")"
	}
}

func (g *tgen) verb() string {
	if g.r.Chance(25) {
		return "a"
	}
	return g.iri()
}

func (g *tgen) poList() string {
	s := ""
	for i, n := 0, 1+g.r.Intn(3); i < n; i++ {
		if i > 0 {
			s += g.ws(false) + ";" + g.ws(false)
			if g.r.Chance(10) {
				s += ";" + g.ws(false)
			}
		}
		s += g.verb() + g.ws(true)
		for k, m := 0, 1+g.r.Intn(3); k < m; k++ {
			if k > 0 {
				s += g.ws(false) + "," + g.ws(false)
			}
			s += g.object()
		}
	}
	if g.r.Chance(8) {
		s += g.ws(false) + ";"
	}
	return s
}

func (g *tgen) subject() string {
	switch g.r.Intn(12) {
	case 0, 1:
		return g.bnode()
	case 2:
		return "(" + g.ws(false) + ")"
	case 3:
		return "(" + g.ws(false) + g.object() + g.ws(true) + g.object() + g.ws(false) + ")"
	default:
		return g.iri()
	}
}

func (g *tgen) triples() string {
	if g.r.Chance(8) {
		s := "[" + g.ws(false) + g.poList() + g.ws(false) + "]"
		if g.r.Chance(60) {
			s += g.ws(false) + g.poList()
		}
		return s
	}
	if g.r.Chance(4) {
		return "[" + g.ws(false) + "]" + g.ws(false) + g.poList()
	}
	return g.subject() + g.ws(true) + g.poList()
}

func (g *tgen) directive() string {
	if g.r.Chance(30) && !(g.safe && !g.based) {
		b := vh.Pick(g.r, []string{"http://b.example/x/", "http://b.example/x/y", "rel/", "../", "urn:b:", "http://é.example/中/", "http://b.example/x/y?q"})
		if g.safe {
			b = vh.Pick(g.r, []string{"http://b.example/x/", "http://b.example/x/y", "rel/", "http://b.example/x/y/z"})
		}
		if g.r.Chance(50) {
			return "@base" + g.ws(true) + "<" + b + ">" + g.ws(false) + "."
		}
		return vh.Pick(g.r, []string{"BASE", "base", "Base"}) + g.ws(g.r.Chance(70)) + "<" + b + ">"
	}
	p := vh.Pick(g.r, []string{"", "ex", "p", "foo.bar", "é", "a", "b", "grap", "graph", "tr", "fals", "pre", "bas", "P-1", "rdf", "xsd"})
	ns := vh.Pick(g.r, []string{"http://n.example/", "http://n.example/ns#", "urn:n:", "rel/ns#", "#", "http://n.example/é/", rdfNS, xsdNS})
	if g.safe {
		ns = vh.Pick(g.r, []string{"http://n.example/", "http://n.example/ns#", "http://n.example/a/b/", rdfNS, xsdNS, "http://n.example/p?q=1"})
		if g.based && g.r.Chance(25) {
			ns = vh.Pick(g.r, []string{"rel/ns#", "#", "x/", "/abs/"})
		}
	}
	if !contains(g.prefixes, p) {
		g.prefixes = append(g.prefixes, p)
	}
	if g.r.Chance(55) {
		return "@prefix" + g.ws(true) + p + ":" + g.ws(false) + "<" + ns + ">" + g.ws(false) + "."
	}
	return vh.Pick(g.r, []string{"PREFIX", "prefix", "Prefix"}) + g.ws(true) + p + ":" + g.ws(false) + "<" + ns + ">"
}

func contains(xs []string, x string) bool {
	for _, y := range xs {
		if y == x {
			return true
		}
	}
	return false
}

func (g *tgen) graphName() string {
	switch g.r.Intn(8) {
	case 0:
		return g.bnode()
	case 1:
		return "[" + g.ws(false) + "]"
	default:
		return g.iri()
	}
}

func (g *tgen) block() string {
	if g.trig && g.r.Chance(45) {
		s := ""
		switch g.r.Intn(4) {
		case 0:
			s = "{"
		case 1:
			s = vh.Pick(g.r, []string{"GRAPH", "graph", "Graph"}) + g.ws(true) + g.graphName() + g.ws(false) + "{"
		default:
			s = g.graphName() + g.ws(false) + "{"
		}
		n := g.r.Intn(4)
		for i := 0; i < n; i++ {
			s += g.ws(false) + g.triples()
			if i < n-1 || g.r.Chance(50) {
				s += g.ws(false) + "."
			}
		}
		return s + g.ws(false) + "}"
	}
	return g.triples() + g.ws(false) + "."
}

// genTtl: one document. based = a default base is configured (IRIREFs are resolved from the start).
func genTtl(trig, safe, based bool, r *vh.Rng) []byte {
	g := &tgen{r: r, trig: trig, safe: safe, based: based}
	var sb strings.Builder
	if r.Chance(10) {
		sb.WriteString(vh.Pick(r, []string{"\n", "# head\n", "  ", "\r\n", "\ufeff", "#é\r"}))
	}
	for i, n := 0, r.Intn(3); i < n; i++ {
		sb.WriteString(g.directive())
		sb.WriteString(g.eol())
	}
	n := 1 + r.Intn(5)
	for i := 0; i < n; i++ {
		if r.Chance(12) {
			sb.WriteString(g.directive())
			sb.WriteString(g.eol())
		}
		sb.WriteString(g.block())
		if i < n-1 || r.Chance(70) {
			sb.WriteString(g.eol())
		}
	}
	if r.Chance(8) {
		sb.WriteString("# trailing comment without newline")
	}
	return []byte(sb.String())
}

func (g *tgen) eol() string {
	switch g.r.Intn(14) {
	case 0:
		return "\r\n"
	case 1:
		return "\r"
	case 2:
		return " # " + g.word() + vh.Pick(g.r, ttlSimplePool) + "\n"
	case 3:
		return "\n\n"
	case 4:
		return "\r\n\r\n# c\r\n"
	case 5:
		return " \t\n  "
	case 6, 7:
		return " "
	case 8:
		return ""
	default:
		return "\n"
	}
}

func cornerDocs(trig bool) []string {
	docs := []string{
		"<a> <b> \"\" .\n<a> <b> <c> .",
		"<a> <b> '' .\n<a> <b> <c> .",
		"<a> <b> \"\"\"\"\"\" .\n<a> <b> <c> .",
		"<a> <b> \"\"@en, ''^^<t> .\n<a> <b> <c> .",
		"<a> <b> \"\"",
		"<a> <b> \"\".",
		"@prefix : <http://e.example/> .\n:a :b :c\\. .\n:a :b :c. :a :b :c.d.",
		"@prefix p: <http://e.example/> . p:a p:b _:x.y. _:x.y. p:b p:c .\r\n_:a.b p:b 1. _:c p:b 1.5. _:c p:b 1.e0 .",
		"@base <http://e.example/a/b> .\n<> <#f> <../c> .\nBASE <x/>\n<y> <?q> </z> .",
		"BASE<http://e.example/a/b>\n<x> <y> <z> .\nbase <http://e.example/c/>\t<x> <y> <z> .",
		"PREFIX ex: <http://e.example/>\nex:s a ex:C ; ex:p [ ex:q ( 1 2.0 3e0 true \"x\" ) ] , ( ) , [ ] .\n( ) ex:p ( ) .\n( 1 ) ex:p 2 .\n[ ex:p 1 ] ex:q 2 .\n[ ] ex:q 2 .",
		"PREFIX ex: <http://e.example/>\n( ( 1 [ ex:p ( ) ] ) ( ) ) ex:p ( ( ) ) ; ex:q [ ex:r [ ] , ( [ ] ) ] .",
		"<a> <b> \"\"\"a\nb\r\nc\rd\"\"\" , '''x'y''z''' .\n<a> <b> <c> .",
		"<a>\u00a0<b>\u2028<c>\u3000.\n<a> <b> <c> .",
		"<a> <b> \"é中\U0001F600\" ; <b> \"e\u0301\" .\n<a> <b> <c> .",
		"# c\n<a> # c\n <b> #d\r\n <c> # e\n . # f\n<a> <b> <c> .",
		"<a> <b> <c> . # c",
		"<a> <b> <c> .  \n \t ",
		"<a> <b> <c> . # c\r",
		"<a> <b> <c> . <d> <e> <f> . <g> <h> <i> .",
		"<a> a <c> ; a<d> ; a\t<e> , <f> ;; <g> <h> ; .",
		"<a> <b> true, false ,true;<c> tru , falsy, f , t .",
		"<a> <b> \"x\"@en- .", "<a> <b> \"x\"^ .", "<a> <b> \"x\"^^ .", "<a> <b> \"abcdefgh\"^x", "<a> <b> 1e .", "<a> <b> .5 .", "<a> <b> . ", "<a> <b> .", "_", "_:", "<http://a", "@prefix", "@prefix p", "@base <", "@", "@b", "@ba", "@bas", "@base", "@bax", "@x", "@p", "@prefi", "@prefiz", "B", "BA", "BAS", "BASE", "BASE ", "BASEx", "P", "PREFI", "PREFIX", "PREFIX ", "PREFIXx:a <b> <c> .", "t", "<a> <b> t", "<a> <b> tr", "<a> <b> tru", "<a> <b> f", "<a> <b> fals", "<a> a", "<a> <b> <c> ;", "<a> <b> <c> ,", "<a> <b> (", "<a> <b> [", "(", "[", "( 1", "[ <p> 1", "<a> <b> undeclared:x .", "<a> <b> \"x\"^^undeclared:x .",
		"<a> <b> \"\\uD800\" .", "<a> <b> \"\\U00110000\" .", "<a\\x> <b> <c> .", "<a> <b> \"\xff\xfe\" .\n<a> <b> <c\xc3> .",
		"<a> <b> <http://a b> .", "<http://%zz> <b> <c> .",
		"@prefix a: <http://e.example/> .\na:a a a:a .\na:a a:a a:a .",
		"@prefix tr: <http://e.example/> . @prefix fals: <http://f.example/> .\n<a> <b> tr:ue , fals:e , true, false.",
		"@prefix b: <http://e.example/> . @prefix p: <http://e.example/> .\nb:x b:y b:z . p:x p:y p:z . base:x <b> <c> . prefi:x <b> <c> .",
		// errors raised after the offending rune was handed back (D45): multi-byte runes that are neither
		// white space nor PN_CHARS_BASE, at the start of the document and later
		"[]‰", "()‰", "[]\u2030x", "<s> .", "<s> ‰", "<s> <p> .x", "<s> <p> .‰", "<s> <p> <o> ‰", "<s> <p> <o> ; ‰", "[ ] ‰", "( ) ‰", "()\U0001F600", "[]\U0001F600",
	}
	if trig {
		docs = append(docs,
			"<g> { <a> <b> \"\" . <a> <b> <c> }\n<g2> { <a> <b> <c> . }",
			"GRAPH <g> { <a> <b> <c> } GRAPH _:g { <a> <b> <c> } GRAPH [ ] { <a> <b> <c> } [] { <a> <b> <c> } _:h { <a> <b> <c> . }",
			"@prefix g: <http://g.example/> .\ng:raph { <a> <b> <c> }\ngraph:x { <a> <b> <c> }\nGRAPH g:x { <a> <b> <c> . <d> <e> <f> }",
			"{ <a> <b> <c> } <a> <b> <c> . { }",
			"<g> { ( 1 2 ) <b> ( ) . [ <p> 1 ] <q> 2 }",
			"<g> { ( ) <b> 1 . ( ) <b> 2 } ( ) <b> 3 . [ ] <b> 4 . [ <p> 1 ] . [ <p> 1 ] <q> 2 ; <r> 3 .",
			"<g> {", "GRAPH", "GRAPH ", "GRAP", "GRAPHx", "GRAPH <g>", "GRAPH [ x", "GRAPH [", "GRAPH [ ]", "GRAPH <g> x", "<g> { <a> <b> <c> ", "<g> { <a> <b> <c> x", "<g> { <a> <b> <c> . x", "<g> x", "[ ] x", "[", "[ ", "{ <a> <b> <c> } }", "{ ( 1 ) <p> 2 . [ ] <p> 3 }",
			"G", "g:x <b> <c> .", "<a> <b> <c> x",
			"<g> ‰", "GRAPH <g> ‰", "<g> { <a> <b> <c> ‰", "<g> { <a> <b> <c> . ‰", "{ ‰", "{ <a> <b> <c> } ‰", "<g> { ‰",
		)
	}
	return docs
}
