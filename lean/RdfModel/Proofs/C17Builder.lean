/-
  C17 helper lemmas, part 1: association lists and what `build T` contains.
-/
import RdfModel.Props.C17Defs
namespace RdfModel.Proofs.C17
open RdfModel RdfModel.Desc RdfModel.C17

section AL
variable {κ α : Type} [DecidableEq κ]

theorem alGet_alUpd (d : α) (f : α → α) (l : List (κ × α)) (x y : κ) :
    alGet d (alUpd d f l x) y = if x = y then f (alGet d l x) else alGet d l y := by
  induction l with
  | nil => simp [alUpd, alGet]
  | cons e rest ih =>
    obtain ⟨k, v⟩ := e
    by_cases hkx : k = x
    · subst hkx
      by_cases hky : k = y
      · simp [alUpd, alGet, hky]
      · simp [alUpd, alGet, hky]
    · by_cases hky : k = y
      · subst hky
        have : ¬ x = k := fun h => hkx h.symm
        simp [alUpd, alGet, hkx, this]
      · simp [alUpd, alGet, hkx, hky, ih]

theorem keys_alUpd (d : α) (f : α → α) (l : List (κ × α)) (x : κ) :
    (alUpd d f l x).map (·.1) = if x ∈ l.map (·.1) then l.map (·.1) else l.map (·.1) ++ [x] := by
  induction l with
  | nil => simp [alUpd]
  | cons e rest ih =>
    obtain ⟨k, v⟩ := e
    by_cases hkx : k = x
    · subst hkx; simp [alUpd]
    · have hxk : ¬ x = k := fun h => hkx h.symm
      simp only [alUpd, hkx, if_false, List.map_cons, ih, List.mem_cons, hxk, false_or]
      split <;> simp

theorem alGet_of_not_mem (d : α) (l : List (κ × α)) (x : κ) (h : x ∉ l.map (·.1)) : alGet d l x = d := by
  induction l with
  | nil => rfl
  | cons e rest ih =>
    obtain ⟨k, v⟩ := e
    simp only [List.map_cons, List.mem_cons, not_or] at h
    have : ¬ k = x := fun h' => h.1 h'.symm
    simp [alGet, this, ih h.2]

end AL

variable {β : Type} [DecidableEq β]

def poOf (t : Triple β) : PO β := (t.p, t.o)

theorem stmts_add1 (B : Builder β) (t : Triple β) (s : Term β) :
    (B.add1 t).stmts s = if t.s = s then B.stmts t.s ++ [poOf t] else B.stmts s := by
  simp [Builder.add1, Builder.stmts, alGet_alUpd, poOf]

theorem refCount_add1 (B : Builder β) (t : Triple β) (b : β) :
    (B.add1 t).refCount b = B.refCount b + (if t.o = Term.bnode b then 1 else 0) := by
  unfold Builder.add1 Builder.refCount
  cases ho : t.o with
  | iri v => simp
  | lit l d g => simp
  | bnode c =>
    simp only [alGet_alUpd, Term.bnode.injEq]
    by_cases h : c = b
    · subst h; simp
    · simp [h]

theorem stmts_add (B : Builder β) (T : List (Triple β)) (s : Term β) :
    (B.add T).stmts s = B.stmts s ++ (T.filter (fun t => t.s = s)).map poOf := by
  induction T generalizing B with
  | nil => simp [Builder.add]
  | cons t rest ih =>
    have : B.add (t :: rest) = (B.add1 t).add rest := rfl
    rw [this, ih, stmts_add1]
    by_cases h : t.s = s
    · subst h; simp
    · simp [h]

theorem refCount_add (B : Builder β) (T : List (Triple β)) (b : β) :
    (B.add T).refCount b = B.refCount b + refs T b := by
  induction T generalizing B with
  | nil => simp [Builder.add, refs]
  | cons t rest ih =>
    have : B.add (t :: rest) = (B.add1 t).add rest := rfl
    rw [this, ih, refCount_add1]
    by_cases h : t.o = Term.bnode b
    · simp [refs, h]; omega
    · simp [refs, h]

theorem subjects_add1 (B : Builder β) (t : Triple β) :
    (B.add1 t).subjects = if t.s ∈ B.subjects then B.subjects else B.subjects ++ [t.s] := by
  simp only [Builder.add1, Builder.subjects]
  exact keys_alUpd _ _ _ _

theorem subjects_add_nodup (B : Builder β) (T : List (Triple β)) (h : B.subjects.Nodup) :
    (B.add T).subjects.Nodup := by
  induction T generalizing B with
  | nil => simpa [Builder.add] using h
  | cons t rest ih =>
    have : B.add (t :: rest) = (B.add1 t).add rest := rfl
    rw [this]
    apply ih
    rw [subjects_add1]
    split
    · exact h
    · rename_i hn
      rw [List.nodup_append]
      refine ⟨h, by simp, ?_⟩
      intro a ha b hb
      simp at hb; subst hb
      intro hab; subst hab; exact hn ha

theorem mem_subjects_add (B : Builder β) (T : List (Triple β)) (s : Term β) :
    s ∈ (B.add T).subjects ↔ s ∈ B.subjects ∨ ∃ t ∈ T, t.s = s := by
  induction T generalizing B with
  | nil => simp [Builder.add]
  | cons t rest ih =>
    have : B.add (t :: rest) = (B.add1 t).add rest := rfl
    rw [this, ih, subjects_add1]
    by_cases hm : t.s ∈ B.subjects
    · simp only [hm, if_true, List.mem_cons, exists_eq_or_imp]
      constructor
      · rintro (h | h)
        · exact Or.inl h
        · exact Or.inr (Or.inr h)
      · rintro (h | h | h)
        · exact Or.inl h
        · exact Or.inl (h ▸ hm)
        · exact Or.inr h
    · simp only [hm, if_false, List.mem_append, List.mem_cons, List.not_mem_nil, or_false, exists_eq_or_imp]
      constructor
      · rintro ((h | h) | h)
        · exact Or.inl h
        · exact Or.inr (Or.inl h.symm)
        · exact Or.inr (Or.inr h)
      · rintro (h | h | h)
        · exact Or.inl (Or.inl h)
        · exact Or.inl (Or.inr h.symm)
        · exact Or.inr h

/-! ### `build T` -/

theorem stmts_build (T : List (Triple β)) (s : Term β) :
    (build T).stmts s = (T.filter (fun t => t.s = s)).map poOf := by
  rw [build, stmts_add]; simp [Builder.empty, Builder.stmts, alGet]

theorem refCount_build (T : List (Triple β)) (b : β) : (build T).refCount b = refs T b := by
  rw [build, refCount_add]; simp [Builder.empty, Builder.refCount, alGet]

theorem subjects_build_nodup (T : List (Triple β)) : (build T).subjects.Nodup :=
  subjects_add_nodup _ _ (by simp [Builder.empty, Builder.subjects])

theorem mem_subjects_build (T : List (Triple β)) (s : Term β) :
    s ∈ (build T).subjects ↔ ∃ t ∈ T, t.s = s := by
  rw [build, mem_subjects_add]; simp [Builder.empty, Builder.subjects]

theorem isInl_build (T : List (Triple β)) (opts : Opts) (x : Term β) :
    (build T).isInl opts x = (opts.inline && once T x) := by
  cases x <;> simp [Builder.isInl, once, refCount_build]

end RdfModel.Proofs.C17
