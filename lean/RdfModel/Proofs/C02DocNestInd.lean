/-
  Proofs.C02DocNestInd — the induction over the fuel of `TtlEnc.write` (see Proofs/C02DocNestWrite.lean
  for the invariants): for every well-formed statement tree and enough fuel the three writers succeed and
  their result satisfies `StmtInv` / `PutInv` / `ListInv`.
-/
import RdfModel.Proofs.C02DocNestWrite
namespace RdfModel.Proofs.C02Doc
open RdfModel RdfModel.Ttl RdfModel.TtlEnc RdfModel.C02 RdfModel.Desc RdfModel.Spec.TtlPrint

variable {T : Tables} {β : Type} [DecidableEq β] {C : TtlDoc.Cfg} {c : Ctx β} {base : Option (List Nat)}

abbrev mkS (x : TA.Obj) (sl : List Nat → List TA.Slot) (text : List Nat) (s' : Stmt β) (used : List (List Nat))
    (multi : Bool) : SItem β := { x := x, sl := sl, text := text, s' := s', used := used, multi := multi }

abbrev mkG (po : TA.PO) (sl : List Nat → List TA.Slot) (body : List Nat) (l' : List (Stmt β)) (used : List (List Nat))
    (multi : Bool) : GW β := { po := po, sl := sl, body := body, l' := l', used := used, multi := multi }

theorem all2_objsyn {l : List (Stmt β)} {ws : List (SItem β)} (h : All2 (StmtInv T C c base) l ws) :
    ∀ o ∈ ws.map (·.toOItem), ObjSyn T o.x o.sl o.text := by
  intro o ho
  obtain ⟨w, hw, rfl⟩ := List.mem_map.1 ho
  obtain ⟨_, _, hq⟩ := forall2_mem_right h w hw
  exact hq.1

theorem write_inv (S : Setup C T c base) (hC : NestCfgOK C T) (tp : TokPrint T) : ∀ (fuel : Nat),
    (∀ (ind : Nat) (s : Stmt β), StmtOK c base s → 2 * stmtDepth s + 1 ≤ fuel →
      ∃ w : SItem β, write c false fuel (.stmt ind s) = OR.ok w.piece ∧ StmtInv T C c base s w) ∧
    (∀ (ind : Nat) (l : List (Stmt β)), l ≠ [] → StmtsOK c base l → 2 * stmtsDepth l + 2 ≤ fuel →
      ∃ r : Piece, write c false fuel (.put ind l) = OR.ok r ∧ PutInv T C c base l r) ∧
    (∀ (ind : Nat) (es : List (Stmt β)), es ≠ [] → (∀ e ∈ es, StmtOK c base e) → 2 * stmtsDepth es + 2 ≤ fuel →
      ∃ r : Piece, write c false fuel (.list ind es) = OR.ok r ∧ ListInv T C c base ind es r) := by
  intro fuel
  induction fuel with
  | zero =>
    exact ⟨fun _ _ _ h => absurd h (by omega), fun _ _ _ _ h => absurd h (by omega),
      fun _ _ _ _ h => absurd h (by omega)⟩
  | succ fuel ih =>
    obtain ⟨ihS, ihP, ihL⟩ := ih
    refine ⟨?_, ?_, ?_⟩
    · -- writeResourceStatement
      intro ind s hok hfuel
      cases s with
      | obj p o =>
        have hok' : iriTermOK c base p ∧ objectOK c base o := by simpa [StmtOK] using hok
        obtain ⟨text, x, sl, hw, hsyn, hden⟩ := object_syn S hC tp o hok'.2
        refine ⟨mkS x sl text (.obj p o) (usedOfObject c.pm o) false, ?_,
          hsyn, DP.refl _, rfl, objDen_of_simple hden⟩
        rw [write]
        simp only [objectPiece, hw]
        rfl
      | anon p sub =>
        have hok' : iriTermOK c base p ∧ StmtsOK c base sub := by simpa [StmtOK] using hok
        simp only [stmtDepth] at hfuel
        by_cases hsub : sub = []
        · subst hsub
          refine ⟨mkS TA.Obj.anon (fun t => [tokSlot [] [], tokSlot [] t]) (asc "[]") (Stmt.anon p []) [] false, ?_,
            anon_syn, DP.refl _, rfl, anon_den p⟩
          rw [write]
          rfl
        · have hemp : sub.isEmpty = false := by
            cases sub with
            | nil => exact absurd rfl hsub
            | cons _ _ => rfl
          have hls := listSyntax_fuel (stmtsDepth sub + 1) sub (by omega)
          cases hl : listSyntaxAux false (stmtsDepth sub + 1) sub with
          | none => exact absurd hl hls
          | some res =>
            cases res with
            | some es =>
              obtain ⟨hne, hpred, hdep, hokes, hdp⟩ := listSyntax_chain (c := c) (base := base) _ sub es hl
              have hdle : stmtsDepth es ≤ stmtsDepth sub := stmtsDepth_le_of_forall hdep
              obtain ⟨r, hr, ws, hws, rfl⟩ := ihL ind es hne (hokes hok'.2) (by omega)
              have hos := all2_objsyn hws
              have hwne : ws ≠ [] := forall2_ne_nil hws hne
              have hone : ws.map (·.toOItem) ≠ [] := by simpa using hwne
              have hall2 : All2 (fun e e' => DP [e] [e']) es (ws.map (·.s')) :=
                all2_map_right (fun w : SItem β => w.s') (fun _ _ hq => hq.2.1) hws
              have hden : ∀ o ∈ ws.map (·.toDItem), ObjDen C c base o.x o.s' o.used ∧ stmtPred o.s' = Desc.rdfFirst := by
                intro o ho
                obtain ⟨w, hw, rfl⟩ := List.mem_map.1 ho
                obtain ⟨e, he, hq⟩ := forall2_mem_right hws w hw
                exact ⟨hq.2.2.2, by rw [hq.2.2.1]; exact hpred e he⟩
              have hcd := coll_den (ws.map (·.toDItem)) (by simpa using hwne) p hden
              simp only [List.map_map, Function.comp_def, List.flatMap_map] at hcd
              refine ⟨mkS (.coll ((ws.map (·.toOItem)).map (·.x)))
                (fun t => tokSlot [] (nl :: tabs (ind + 1)) ::
                  (itemsSl (nl :: tabs (ind + 1)) (nl :: tabs ind) (ws.map (·.toOItem)) ++ [tokSlot [] t]))
                (0x28 :: ((nl :: tabs (ind + 1)) ++
                  itemsBody (nl :: tabs (ind + 1)) (nl :: tabs ind) (ws.map (·.toOItem)) ++ [0x29]))
                (.anon p (chain (ws.map (·.s')))) (ws.flatMap (·.used)) true, ?_,
                coll_syn _ _ (ws_nltabs _).1 (ws_nltabs _).2 (ws_nltabs _).1 (ws_nltabs _).2 _ hos hone,
                .anon p (hdp _ hall2) .nil, rfl, ?_⟩
              · rw [write]
                simp only [hemp, Bool.false_eq_true, ↓reduceIte, hl]
                exact hr
              · simpa [List.map_map, Function.comp_def] using hcd
            | none =>
              obtain ⟨r, hr, pos, sl, ld, body, l', htext, hld, hldn, hsyn, hdp, hden⟩ :=
                ihP ind sub hsub hok'.2 (by omega)
              have hlast : WS (if r.multi then nl :: tabs ind else [sp]) ∧ (if r.multi then nl :: tabs ind else [sp]) ≠ [] := by
                cases r.multi
                · exact ws_sp
                · exact ws_nltabs ind
              refine ⟨mkS (.bnpl pos)
                (fun t => tokSlot [] ld :: (sl (if r.multi then nl :: tabs ind else [sp]) ++ [tokSlot [] t]))
                (0x5b :: (ld ++ body ++ (if r.multi then nl :: tabs ind else [sp]) ++ [0x5d]))
                (.anon p l') r.used r.multi, ?_,
                bnpl_syn pos sl body ld _ hsyn hld hldn hlast.1 hlast.2, .anon p hdp .nil, rfl,
                bnpl_den pos l' r.used p hden⟩
              rw [write]
              simp only [hemp, Bool.false_eq_true, ↓reduceIte, hl, hr, OR.bind, OR.ok, SItem.piece, htext]
              cases r.multi <;> simp
    · -- putResourceStatements
      intro ind l hne hok hfuel
      rw [write]
      dsimp only
      generalize hmulti : decide ((predicateList l).length > 1) = multi
      generalize hind1 : (if multi = true then ind + 1 else ind) = ind1
      obtain ⟨hld, hldn⟩ := ws_lead multi ind1
      have hpne : predicateList l ≠ [] := by
        obtain ⟨s0, l0, rfl⟩ := List.exists_cons_of_ne_nil hne
        intro h
        have : stmtPred s0 ∈ predicateList (s0 :: l0) := mem_predicateList.2 ⟨s0, List.mem_cons_self, rfl⟩
        rw [h] at this
        cases this
      refine bind_mapOR_step (GW.piece (lead multi ind1)) id
        (Q := fun p gw => POSyn T gw.toGItem ∧ DP (withPred p l) gw.l' ∧ PODen C c base gw.po gw.l' gw.used)
        (P := fun r => PutInv T C c base l r) (predicateList l) ?_ ?_
      · -- one predicate
        intro p hp
        obtain ⟨s0, hs0, hs0p⟩ := mem_predicateList.1 hp
        have hpOK : iriTermOK c base p := hs0p ▸ stmtOK_pred ((stmtsOK_iff c base l).1 hok s0 hs0)
        obtain ⟨pt, v, csv, hpt, hvwf, hvpr, hvden⟩ := predicate_syn S hC tp p hpOK
        rw [hpt]
        dsimp only
        generalize hpm : decide ((withPred p l).length > 1) = pMulti
        generalize hind2 : (if pMulti = true then ind1 + 1 else ind1) = ind2
        obtain ⟨hld2, hld2n⟩ := ws_lead pMulti ind2
        have hgne : withPred p l ≠ [] := by
          intro h
          have := mem_withPred.2 ⟨hs0, hs0p⟩
          rw [h] at this
          cases this
        refine bind_mapOR_step SItem.piece (GW.piece (lead multi ind1)) (Q := StmtInv T C c base)
          (P := fun gw => POSyn T gw.toGItem ∧ DP (withPred p l) gw.l' ∧ PODen C c base gw.po gw.l' gw.used)
          (withPred p l) ?_ ?_
        · intro s hs
          obtain ⟨hsl, _⟩ := mem_withPred.1 hs
          have hd := stmtDepth_le_of_mem hsl
          exact ihS ind2 s ((stmtsOK_iff c base l).1 hok s hsl) (by omega)
        · intro ws hws
          have hos := all2_objsyn hws
          have hwne : ws ≠ [] := forall2_ne_nil hws hgne
          have hone : ws.map (·.toOItem) ≠ [] := by simpa using hwne
          refine ⟨mkG (.mk v ((ws.map (·.toOItem)).map (·.x)))
            (fun t => tokSlot csv (lead pMulti ind2) :: objsSl (lead pMulti ind2) (ws.map (·.toOItem)) t)
            (pt ++ (lead pMulti ind2 ++ objsBody (lead pMulti ind2) (ws.map (·.toOItem))))
            (ws.map (·.s')) (usedOfPredicate c.pm p ++ ws.flatMap (·.used))
            (pMulti || ws.any (·.multi)), ?_,
            po_syn v csv pt hvwf hvpr _ hld2 hld2n _ hos hone, ?_, ?_⟩
          · simp only [OR.ok, GW.piece, List.map_map, Function.comp_def, SItem.piece, List.flatMap_map, List.any_map]
            have := joinSep_objs (lead pMulti ind2) (ws.map (·.toOItem)) hone
            simp only [List.map_map, Function.comp_def] at this
            rw [this]
            simp
          · exact dp_of_forall2 (all2_map_right (fun w : SItem β => w.s') (fun _ _ hq => hq.2.1) hws)
          · intro D st hst hD sN
            have hD1 : ∀ l ∈ usedOfPredicate c.pm p, D l := fun l hl => hD l (List.mem_append_left _ hl)
            have hden : ∀ o ∈ ws.map (·.toDItem), ObjDen C c base o.x o.s' o.used ∧ stmtPred o.s' = p := by
              intro o ho
              obtain ⟨w, hw, rfl⟩ := List.mem_map.1 ho
              obtain ⟨e, he, hq⟩ := forall2_mem_right hws w hw
              exact ⟨hq.2.2.2, by rw [hq.2.2.1]; exact (mem_withPred.1 he).2⟩
            obtain ⟨ts, h1, hp1⟩ := objs_den p (ws.map (·.toDItem)) hden D st hst (by
              intro o ho l hl
              obtain ⟨w, hw, rfl⟩ := List.mem_map.1 ho
              exact hD l (List.mem_append_right _ (List.mem_flatMap.2 ⟨w, hw, hl⟩))) sN
            refine ⟨ts, ?_, ?_⟩
            · simp only [List.map_map, Function.comp_def] at h1 ⊢
              simp only [TA.dPO, hvden D st hst hD1, h1]
            · simpa [List.map_map, Function.comp_def] using hp1
      · -- all predicates
        intro gws hgws
        have hgs : ∀ g ∈ gws.map (·.toGItem), POSyn T g := by
          intro g hg
          obtain ⟨gw, hgw, rfl⟩ := List.mem_map.1 hg
          obtain ⟨_, _, hq⟩ := forall2_mem_right hgws gw hgw
          exact hq.1
        have hgne : gws ≠ [] := forall2_ne_nil hgws hpne
        have hgone : gws.map (·.toGItem) ≠ [] := by simpa using hgne
        have hsyn := pos_syn (lead multi ind1) hld hldn _ hgs hgone
        have hpd := pos_den (C := C) (c := c) (base := base) (gws.map (·.toDGItem)) (by
          intro g hg
          obtain ⟨gw, hgw, rfl⟩ := List.mem_map.1 hg
          obtain ⟨_, _, hq⟩ := forall2_mem_right hgws gw hgw
          exact hq.2.2)
        simp only [List.map_map, Function.comp_def, List.flatMap_map] at hpd hsyn
        refine ⟨_, rfl, (gws.map (·.toGItem)).map (·.po), posSl (lead multi ind1) (gws.map (·.toGItem)),
          lead multi ind1, posBody (lead multi ind1) (gws.map (·.toGItem)), gws.flatMap (·.l'), ?_, hld, hldn, ?_, ?_, ?_⟩
        · simp only [id, GW.piece, List.map_map, Function.comp_def]
          have := joinSep_pos (lead multi ind1) (gws.map (·.toGItem)) hgone
          simpa [List.map_map, Function.comp_def] using this
        · simpa [List.map_map, Function.comp_def] using hsyn
        · have hall : ∀ s ∈ l, stmtPred s ∈ predicateList l := fun s hs => mem_predicateList.2 ⟨s, hs, rfl⟩
          refine .trans (DP.of_perm (withPred_regroup _ l (predicateList_nodup l) hall).symm) ?_
          exact dp_flatMap (fun p => withPred p l) (fun gw : GW β => gw.l')
            (all2_map_right (fun gw : GW β => gw) (fun _ _ hq => hq.2.1) hgws |> fun h => by simpa using h)
        · simpa [id, GW.piece, List.map_map, Function.comp_def, List.flatMap_map] using hpd
    · -- writeResourceList
      intro ind es hne hok hfuel
      rw [write]
      have hemp : es.isEmpty = false := by
        cases es with
        | nil => exact absurd rfl hne
        | cons _ _ => rfl
      simp only [hemp, Bool.false_eq_true, ↓reduceIte]
      refine bind_mapOR_step SItem.piece id (Q := StmtInv T C c base) (P := fun r => ListInv T C c base ind es r) es ?_ ?_
      · intro e he
        have hd := stmtDepth_le_of_mem he
        exact ihS (ind + 1) e (hok e he) (by omega)
      · intro ws hws
        have hwne : ws ≠ [] := forall2_ne_nil hws hne
        have hone : ws.map (·.toOItem) ≠ [] := by simpa using hwne
        refine ⟨_, rfl, ws, hws, ?_⟩
        have := flatMap_items (nl :: tabs (ind + 1)) (nl :: tabs ind) (ws.map (·.toOItem)) hone
        simp only [List.flatMap_map] at this
        simp only [id, OR.ok, List.flatMap_map, SItem.piece, Piece.mk.injEq, List.cons.injEq, true_and, and_true]
        rw [← this]
        simp

end RdfModel.Proofs.C02Doc
