/-
  Line-protocol handler for property C11 (component `html`).

  Tree tokens (space separated):   <tag  @name=HEX …  +itemscope  >  children…  /      and  "HEX  for text
    tag names: html head body base title script div span section b i em a area link img meta time data meter
               object audio video embed iframe source track other
    attribute names: about resource href src typeof property rel rev content datatype inlist prefix vocab lang
                     itemid itemtype itemprop itemref id data value datetime type
  Graph token: triples `S,P,O` (terms of Driver/Wire.lean) joined by `;`, `-` for the empty graph.
  Output terms: IRIs/literals as in Wire; blank nodes `Bn<hex label>` (named, RDFa), `Ba<n>` (processor-made,
  RDFa), `Bp<i.j.k>` (Microdata item position).

  Ops (answers start with `ok:`):
    html.rdfa    <location> <tree…>                   → triples of Spec.Rdfa.denote (initial context: Gen.HtmlFacts); the base is
                                                        Html.docBase: the location, or the first <base href> resolved against it
    html.md      <location> <tree…>                   → triples of Spec.Microdata.denote | `outside`   (same base rule)
    html.docbase <location> <tree…>                   → x<hex> of Html.docBase
    html.scripts <tree…>                              → HEX;HEX… texts of the JSON-LD script elements
    html.rdfaw   <base> <graph> <skel> <pat>…         → <#blocks>.<#canonical>:<tree tokens>|<triples of denote>
    html.mdw     <base> <graph> <mdpat>               → <validated 0/1><known-good 0/1>:<tree tokens>|<triples of denote>
    html.chain   <init 0/1> <n:e>…                    → statements yielded (as `i.k`), `|`, final error flag
    html.facts                                        → the T2 facts the theorems consume
    html.hostvocab                                    → x<hex> of Gen.HtmlFacts.hostDefaultVocabulary (T2: htmlrdfa decoder.go)
-/
import RdfModel.Driver.Wire
import RdfModel.Spec.RdfaPatterns
import RdfModel.Spec.MicrodataPatterns
import RdfModel.Model.HtmlCombined
import RdfModel.Gen.HtmlFacts
namespace RdfModel.Driver.Html
open RdfModel RdfModel.Wire RdfModel.Spec.Html RdfModel.Desc

abbrev L := List Nat

def tagOfName (s : String) : Tag :=
  match s with
  | "html" => .html | "head" => .head | "body" => .body | "base" => .base | "title" => .title | "script" => .script
  | "div" => .div | "span" => .span | "section" => .sect | "b" => .b | "i" => .i | "em" => .em
  | "a" => .a | "area" => .area | "link" => .link | "img" => .img | "meta" => .metaEl | "time" => .time
  | "data" => .data | "meter" => .meter | "object" => .object | "audio" => .audio | "video" => .video
  | "embed" => .embed | "iframe" => .iframe | "source" => .source | "track" => .track
  | _ => .other

def nameOfTag : Tag → String
  | .html => "html" | .head => "head" | .body => "body" | .base => "base" | .title => "title" | .script => "script"
  | .div => "div" | .span => "span" | .sect => "section" | .b => "b" | .i => "i" | .em => "em"
  | .a => "a" | .area => "area" | .link => "link" | .img => "img" | .metaEl => "meta" | .time => "time"
  | .data => "data" | .meter => "meter" | .object => "object" | .audio => "audio" | .video => "video"
  | .embed => "embed" | .iframe => "iframe" | .source => "source" | .track => "track" | .other => "other"

def setAttr (a : Attrs) (name : String) (v : L) : Option Attrs :=
  match name with
  | "about" => some { a with about := some v } | "resource" => some { a with resource := some v }
  | "href" => some { a with href := some v } | "src" => some { a with src := some v }
  | "typeof" => some { a with typeof := some v } | "property" => some { a with property := some v }
  | "rel" => some { a with rel := some v } | "rev" => some { a with rev := some v }
  | "content" => some { a with content := some v } | "datatype" => some { a with datatype := some v }
  | "inlist" => some { a with inlist := some v } | "prefix" => some { a with pfx := some v }
  | "vocab" => some { a with vocab := some v } | "lang" => some { a with lang := some v }
  | "itemid" => some { a with itemid := some v } | "itemtype" => some { a with itemtype := some v }
  | "itemprop" => some { a with itemprop := some v } | "itemref" => some { a with itemref := some v }
  | "id" => some { a with id := some v } | "data" => some { a with data := some v }
  | "value" => some { a with value := some v } | "datetime" => some { a with datetime := some v }
  | "type" => some { a with type := some v }
  | _ => none

def attrList (a : Attrs) : List (String × L) :=
  let f (n : String) (v : Option L) : List (String × L) := match v with | some x => [(n, x)] | none => []
  f "about" a.about ++ f "resource" a.resource ++ f "href" a.href ++ f "src" a.src ++ f "typeof" a.typeof ++
  f "property" a.property ++ f "rel" a.rel ++ f "rev" a.rev ++ f "content" a.content ++ f "datatype" a.datatype ++
  f "inlist" a.inlist ++ f "prefix" a.pfx ++ f "vocab" a.vocab ++ f "lang" a.lang ++ f "itemid" a.itemid ++
  f "itemtype" a.itemtype ++ f "itemprop" a.itemprop ++ f "itemref" a.itemref ++ f "id" a.id ++ f "data" a.data ++
  f "value" a.value ++ f "datetime" a.datetime ++ f "type" a.type

def hexStr (v : L) : String := hexOfBytes (utf8Encode v)
def unhexStr (s : String) : Option L := (unhex s).map utf8Decode

mutual
def showTree : Tree → List String
  | .text s => ["\"" ++ hexStr s]
  | .elem tag a ks =>
    ["<" ++ nameOfTag tag] ++ (attrList a).map (fun x => "@" ++ x.1 ++ "=" ++ hexStr x.2) ++
    (if a.itemscope then ["+itemscope"] else []) ++ [">"] ++ showTrees ks ++ ["/"]
def showTrees : List Tree → List String
  | [] => []
  | k :: ks => showTree k ++ showTrees ks
end

def parseAttrs : List String → Attrs → Option (Attrs × List String)
  | [], _ => none
  | tok :: rest, a =>
    if tok = ">" then some (a, rest)
    else if tok = "+itemscope" then parseAttrs rest { a with itemscope := true }
    else
      match tok.toList with
      | '@' :: cs =>
        match (String.ofList cs).splitOn "=" with
        | [n, h] => (match unhexStr h with
                     | some v => (match setAttr a n v with | some a' => parseAttrs rest a' | none => none)
                     | none => none)
        | _ => none
      | _ => none

/-- parse a forest up to the closing `/` (or the end of input at top level) -/
def parseForest : Nat → List String → Option (List Tree × List String)
  | 0, _ => none
  | _ + 1, [] => some ([], [])
  | fuel + 1, tok :: rest =>
    if tok = "/" then some ([], rest)
    else
      match tok.toList with
      | '"' :: cs =>
        (match unhexStr (String.ofList cs) with
         | some v => (match parseForest fuel rest with
                      | some (ts, r) => some (.text v :: ts, r)
                      | none => none)
         | none => none)
      | '<' :: cs =>
        (match parseAttrs rest {} with
         | some (a, r1) =>
           (match parseForest fuel r1 with
            | some (kids, r2) =>
              (match parseForest fuel r2 with
               | some (sibs, r3) => some (.elem (tagOfName (String.ofList cs)) a kids :: sibs, r3)
               | none => none)
            | none => none)
         | none => none)
      | _ => none

def parseTree (toks : List String) : Option Tree :=
  match parseForest (toks.length + 1) toks with
  | some ([t], []) => some t
  | _ => none

/-! terms -/

def showBId : Spec.Rdfa.BId → String
  | .named l => "Bn" ++ hexStr l
  | .anon n => "Ba" ++ toString n

def showRT : Term Spec.Rdfa.BId → String
  | .iri v => "I" ++ hexRunes v
  | .bnode b => showBId b
  | .lit l d t => showTerm (.lit l d t)

def showRTr (t : Spec.Rdfa.Tr) : String := showRT t.s ++ "," ++ "I" ++ hexRunes t.p ++ "," ++ showRT t.o

def showPath (p : List Nat) : String := "Bp" ++ String.intercalate "." (p.map toString)

def showMT : Term Spec.Microdata.Path → String
  | .iri v => "I" ++ hexRunes v
  | .bnode b => showPath b
  | .lit l d t => showTerm (.lit l d t)

def showMTr (t : Spec.Microdata.Tr) : String := showMT t.s ++ "," ++ "I" ++ hexRunes t.p ++ "," ++ showMT t.o

def joinTriples (l : List String) : String := if l.isEmpty then "-" else String.intercalate ";" l

def parseIri (s : String) : Option L :=
  match parseTerm s with
  | some (some (.iri v)) => some v
  | _ => none

def parseTriple (s : String) : Option (Triple L) :=
  match s.splitOn "," with
  | [a, b, c] => do
    let a ← (← parseTerm a)
    let b ← parseIri b
    let c ← (← parseTerm c)
    pure ⟨a, b, c⟩
  | _ => none

def parseGraph (s : String) : Option (List (Triple L)) :=
  if s = "-" then some [] else (s.splitOn ";").mapM parseTriple

def optHex (s : String) : Option (Option L) := if s = "-" then some none else (unhexStr s).map some

def natList (s : String) : List Nat := if s = "" then [] else (s.splitOn ".").map (fun x => x.toNat!)

def optHexList (s : String) : Option (List (Option L)) := if s = "" then some [] else (s.splitOn ".").mapM optHex

def parseAlt (s : String) : Option Spec.Rdfa.Alt :=
  match s.splitOn "~" with
  | [a, b, c, d] => do
    let a ← optHex a; let b ← optHex b; let c ← optHex c; let d ← optHex d
    pure { s := a, p := b, o := c, dt := d }
  | _ => none

/-- `P<take>.<shape>.<wrap>.<junk>.<vocab>[.<ids>]/<form>/<tags>/<pfx>/<wlang>/<alt+alt+…>` -/
def parsePat (s : String) : Option Spec.Rdfa.Pat :=
  match s.toList with
  | 'P' :: cs =>
    match (String.ofList cs).splitOn "/" with
    | [h, form, tags, pfx, wlang, alts] =>
      let mk (take shape wrap junk voc ids : Nat) : Option Spec.Rdfa.Pat := do
        let pfx ← optHex pfx
        let wlang ← optHex wlang
        let alts ← (if alts = "" then some [] else (alts.splitOn "+").mapM parseAlt)
        pure { take := take, shape := shape, wrap := wrap, junk := junk, form := natList form, tags := natList tags,
               pfx := pfx, wlang := wlang, alts := alts, vocab := voc == 1, ids := ids }
      match natList h with
      | [take, shape, wrap, junk, voc] => mk take shape wrap junk voc 0
      | [take, shape, wrap, junk, voc, ids] => mk take shape wrap junk voc ids
      | _ => none
    | _ => none
  | _ => none

/-- `K<htmlPfx>/<htmlLang>/<bodyPfx>/<bodyLang>` -/
def parseSkel (s : String) : Option Spec.Rdfa.Skel :=
  match s.toList with
  | 'K' :: cs =>
    match (String.ofList cs).splitOn "/" with
    | [a, b, c, d] => do
      let a ← optHex a; let b ← optHex b; let c ← optHex c; let d ← optHex d
      pure { htmlPfx := a, htmlLang := b, bodyPfx := c, bodyLang := d }
    | _ => none
  | _ => none

/-- `M<nest>.<useType>.<junk>[.<wrapId>]/<form>/<tags>/<detach>/<names>/<objs>/<ids>` -/
def parseMdPat (s : String) : Option Spec.Microdata.MdPat :=
  match s.toList with
  | 'M' :: cs =>
    match (String.ofList cs).splitOn "/" with
    | [h, form, tags, detach, names, objs, ids] =>
      let mk (nest useType junk wrapId : Nat) : Option Spec.Microdata.MdPat := do
        let names ← optHexList names
        let objs ← optHexList objs
        let ids ← optHexList ids
        pure { nest := nest, useType := useType, junk := junk, form := natList form, tags := natList tags,
               detach := natList detach, names := names, objs := objs, ids := ids, wrapId := wrapId }
      match natList h with
      | [nest, useType, junk] => mk nest useType junk 0
      | [nest, useType, junk, wrapId] => mk nest useType junk wrapId
      | _ => none
    | _ => none
  | _ => none

def rdfaDenote (base : L) (t : Tree) : List Spec.Rdfa.Tr :=
  Spec.Rdfa.denote base Gen.HtmlFacts.initialPrefixes Gen.HtmlFacts.terms11 t

def isCanon (t : Tree) : Bool :=
  match t with
  | .elem .span a [] => a.about.isSome && (a.content.isSome || a.resource.isSome) && a.pfx.isNone
  | _ => false

/-- which choices produced a block that validated (development statistics; same recursion as `writeBlocks`) -/
def blockFlags (C : Spec.Rdfa.Ctx) : Nat → Nat → List Spec.Rdfa.Pat → List (Triple L) → List Bool
  | 0, _, _, _ => []
  | _, _, _, [] => []
  | _, _, [], _ => []
  | fuel + 1, n, c :: cs, t :: ts =>
    let chunk := (t :: ts).take (c.take + 1)
    let cand := Spec.Rdfa.Pat.build (fun (l : L) => l) C c chunk
    let ok := Spec.Rdfa.validBlock C n cand (Spec.Rdfa.expect (fun (l : L) => l) chunk)
    ok :: blockFlags C fuel (if ok then (Spec.Rdfa.procNode C [] n cand).next else n) cs (ts.drop c.take)

def parseIter (k : Nat) (s : String) : Option (RdfModel.Html.Iter (Nat × Nat)) :=
  match s.splitOn ":" with
  | [n, e] => some { items := (List.range n.toNat!).map (fun i => (k, i)), err := e = "1" }
  | _ => none

def parseIters : Nat → List String → Option (List (RdfModel.Html.Iter (Nat × Nat)))
  | _, [] => some []
  | k, s :: rest => do
    let it ← parseIter k s
    let r ← parseIters (k + 1) rest
    pure (it :: r)

def b01 (b : Bool) : String := if b then "1" else "0"

def handle (op : String) (args : List String) : Option String :=
  match op, args with
  | "rdfa", b :: toks => do
    let location ← runesTok b
    let t ← parseTree toks
    let base := RdfModel.Html.docBase location t
    pure ("ok:" ++ joinTriples ((rdfaDenote base t).map showRTr))
  | "md", b :: toks => do
    let location ← runesTok b
    let t ← parseTree toks
    let base := RdfModel.Html.docBase location t
    if Spec.Microdata.inFragment t then
      pure ("ok:" ++ joinTriples ((Spec.Microdata.denote base t).map showMTr))
    else pure "outside"
  | "docbase", b :: toks => do
    let location ← runesTok b
    let t ← parseTree toks
    pure ("ok:" ++ tokOfRunes (RdfModel.Html.docBase location t))
  | "scripts", toks => do
    let t ← parseTree toks
    pure ("ok:" ++ String.intercalate ";" ((RdfModel.Html.scriptsNode t).map hexStr))
  | "rdfaw", b :: g :: sk :: pats => do
    let base ← runesTok b
    let g ← parseGraph g
    let sk ← parseSkel sk
    let pats ← pats.mapM parsePat
    let doc := Spec.Rdfa.write base Gen.HtmlFacts.initialPrefixes Gen.HtmlFacts.terms11 (fun (l : L) => l)
      Spec.Rdfa.Pat.takeOf (fun C P ch => Spec.Rdfa.Pat.build (fun (l : L) => l) C P ch) sk pats g
    let blocks := match doc with
      | .elem _ _ [_, .elem _ _ bs] => bs
      | _ => []
    let sk' := if Spec.Rdfa.expressible (Spec.Rdfa.bodyCtx base Gen.HtmlFacts.initialPrefixes Gen.HtmlFacts.terms11 sk).env g then sk else {}
    let flags := blockFlags (Spec.Rdfa.bodyCtx base Gen.HtmlFacts.initialPrefixes Gen.HtmlFacts.terms11 sk') (g.length + 1) 0 pats g
    pure ("ok:" ++ toString blocks.length ++ "." ++ toString (blocks.filter isCanon).length ++ "." ++
          String.ofList (flags.map (fun b => if b then '1' else '0')) ++ ":" ++
          String.intercalate " " (showTree doc) ++ "|" ++ joinTriples ((rdfaDenote base doc).map showRTr))
  | "mdw", [b, g, pat] => do
    let base ← runesTok b
    let g ← parseGraph g
    let P ← parseMdPat pat
    let c := Spec.Microdata.MdPat.build (fun (l : L) => l) P g
    let valid := Spec.Microdata.validDoc base g c.1 c.2
    let w := Spec.Microdata.write base g c.1 c.2
    pure ("ok:" ++ b01 valid ++ b01 w.2 ++ ":" ++ String.intercalate " " (showTree w.1) ++ "|" ++
          joinTriples ((Spec.Microdata.denote base w.1).map showMTr))
  | "chain", i :: its => do
    let iters ← parseIters 0 its
    let init := if i = "1" then some iters else none
    let total := (iters.map (fun it => it.items.length)).sum
    let r := RdfModel.Html.drain init (total + 2) RdfModel.Html.Dec.new
    pure ("ok:" ++ String.intercalate "," (r.1.map (fun q => toString q.1 ++ "." ++ toString q.2)) ++ "|" ++ b01 r.2.err)
  | "hostvocab", [] =>
    -- the T2 fact the harness's generator constant `hostVocab` is checked against
    pure ("ok:" ++ tokOfRunes Gen.HtmlFacts.hostDefaultVocabulary)
  | "facts", [] =>
    pure ("ok:" ++ String.intercalate "," (Gen.HtmlFacts.subFacts.map (fun f => b01 f.passesFactory ++ b01 f.defaultFresh)) ++
          "|" ++ b01 Gen.HtmlFacts.jsonldDecoderPerScript ++ "|" ++ toString Gen.HtmlFacts.chainOrder.length ++
          "|" ++ b01 Gen.HtmlFacts.microdataResolverIsItemtype ++ "|" ++ toString Gen.HtmlFacts.unknowns.length)
  | _, _ => none

end RdfModel.Driver.Html
