/-
  Proofs.C02DocNestWrite — the three mutually recursive writers of the Turtle encoder's nested-resource
  mode (`TtlEnc.write`: putResourceStatements / writeResourceStatement / writeResourceList) produce, for
  every well-formed statement tree and enough fuel, the PRINTED FORM (`TA.pObj` / `TA.pPOs`, layout = the
  encoder's tabs and line feeds) of an abstract syntax tree that is well-formed for C08's theorem and
  DENOTES the flattening of a deep permutation of the tree (fresh blank nodes numbered in document order).
-/
import RdfModel.Proofs.C02DocNestDen
namespace RdfModel.Proofs.C02Doc
open RdfModel RdfModel.Ttl RdfModel.TtlEnc RdfModel.C02 RdfModel.Desc RdfModel.Spec.TtlPrint

variable {T : Tables} {β : Type} [DecidableEq β] {C : TtlDoc.Cfg} {c : Ctx β} {base : Option (List Nat)}

/-! ### small facts -/

/-- pointwise relation between two lists (core has no `Forall₂`) -/
inductive All2 {α γ : Type} (Q : α → γ → Prop) : List α → List γ → Prop
  | nil : All2 Q [] []
  | cons {a : α} {b : γ} {l : List α} {l' : List γ} : Q a b → All2 Q l l' → All2 Q (a :: l) (b :: l')

theorem stmtDepth_le_of_mem {s : Stmt β} : ∀ {l : List (Stmt β)}, s ∈ l → stmtDepth s ≤ stmtsDepth l
  | [], h => by cases h
  | x :: l, h => by
    simp only [stmtsDepth]
    rcases List.mem_cons.1 h with rfl | h
    · exact Nat.le_max_left _ _
    · exact Nat.le_trans (stmtDepth_le_of_mem h) (Nat.le_max_right _ _)

theorem stmtsDepth_le_of_forall {l : List (Stmt β)} {d : Nat} (h : ∀ s ∈ l, stmtDepth s ≤ d) : stmtsDepth l ≤ d := by
  induction l with
  | nil => simp [stmtsDepth]
  | cons x l ih =>
    simp only [stmtsDepth]
    exact Nat.max_le.2 ⟨h x List.mem_cons_self, ih (fun s hs => h s (List.mem_cons_of_mem _ hs))⟩

theorem stmtOK_pred {s : Stmt β} (h : StmtOK c base s) : iriTermOK c base (stmtPred s) := by
  cases s with
  | obj p o =>
    have h' : iriTermOK c base p ∧ objectOK c base o := by simpa [StmtOK] using h
    exact h'.1
  | anon p l =>
    have h' : iriTermOK c base p ∧ StmtsOK c base l := by simpa [StmtOK] using h
    exact h'.1

theorem mem_withPred {p : List Nat} {l : List (Stmt β)} {s : Stmt β} : s ∈ withPred p l ↔ s ∈ l ∧ stmtPred s = p := by
  simp [withPred, List.mem_filter]

/-- regrouping by predicate is a permutation -/
theorem withPred_regroup (ps : List (List Nat)) (l : List (Stmt β)) (hnd : ps.Nodup) (hall : ∀ s ∈ l, stmtPred s ∈ ps) :
    (ps.flatMap (fun p => withPred p l)).Perm l := by
  have h := regroup_perm ps (l.map (fun s => (stmtPred s, s))) hnd (by
    intro po hpo
    obtain ⟨s, hs, rfl⟩ := List.mem_map.1 hpo
    exact hall s hs)
  have h2 := h.map Prod.snd
  simp only [List.map_flatMap, List.map_map, Function.comp_def, List.map_id'] at h2
  have e : ∀ p, List.map (fun po : List Nat × Stmt β => po.2)
      (List.filter (fun po => po.1 == p) (List.map (fun s => (stmtPred s, s)) l)) = withPred p l := by
    intro p
    simp [List.filter_map, Function.comp_def, withPred]
  simpa [e] using h2

theorem dp_of_forall2 : ∀ {a a' : List (Stmt β)}, All2 (fun s s' => DP [s] [s']) a a' → DP a a'
  | _, _, .nil => .nil
  | _, _, .cons h t => DP.append (a := [_]) (a' := [_]) h (dp_of_forall2 t)

theorem dp_flatMap {α γ : Type} (f : α → List (Stmt β)) (g : γ → List (Stmt β)) :
    ∀ {ps : List α} {gs : List γ}, All2 (fun p w => DP (f p) (g w)) ps gs → DP (ps.flatMap f) (gs.flatMap g)
  | _, _, .nil => .nil
  | _, _, .cons h t => by
    simp only [List.flatMap_cons]
    exact DP.append h (dp_flatMap f g t)

/-- `mapOR` over a list on which the function succeeds with results of the form `g w` -/
theorem mapOR_wit {α γ W : Type} {f : α → OR γ} (g : W → γ) {Q : α → W → Prop} : ∀ (l : List α),
    (∀ a ∈ l, ∃ w, f a = OR.ok (g w) ∧ Q a w) → ∃ ws : List W, mapOR f l = OR.ok (ws.map g) ∧ All2 Q l ws
  | [], _ => ⟨[], rfl, .nil⟩
  | a :: l, h => by
    obtain ⟨w, hw, hq⟩ := h a List.mem_cons_self
    obtain ⟨ws, hws, hqs⟩ := mapOR_wit g l (fun x hx => h x (List.mem_cons_of_mem _ hx))
    refine ⟨w :: ws, ?_, .cons hq hqs⟩
    simp only [mapOR, hw, hws, OR.bind, OR.ok, List.map_cons]

theorem forall2_mem_right {α γ : Type} {Q : α → γ → Prop} : ∀ {l : List α} {ws : List γ}, All2 Q l ws →
    ∀ w ∈ ws, ∃ a ∈ l, Q a w
  | _, _, .nil, w, hw => by cases hw
  | _, _, .cons h t, w, hw => by
    rcases List.mem_cons.1 hw with rfl | hw
    · exact ⟨_, List.mem_cons_self, h⟩
    · obtain ⟨a, ha, hq⟩ := forall2_mem_right t w hw
      exact ⟨a, List.mem_cons_of_mem _ ha, hq⟩

theorem forall2_ne_nil {α γ : Type} {Q : α → γ → Prop} {l : List α} {ws : List γ} (h : All2 Q l ws)
    (hl : l ≠ []) : ws ≠ [] := by
  cases h with
  | nil => exact absurd rfl hl
  | cons _ _ => simp

/-! ### the list-cell decision -/

/-- `listCellOf` as a function of the four filtered lists -/
def cellDecide (ty fi re ot : List (Stmt β)) : Cell β :=
  let typeOK : Bool :=
    match ty with
    | [] => true
    | [.obj _ o] => false && decide (o = Term.iri rdfList)
    | _ => false
  if !ot.isEmpty || !typeOK then .notList
  else match fi, re with
    | [f], [.obj _ o] => if o = Term.iri Desc.rdfNil then .last f else .notList
    | [f], [.anon _ sub] => .more f sub
    | _, _ => .notList

theorem listCellOf_eq (l : List (Stmt β)) :
    listCellOf false l = cellDecide (withPred TtlEnc.rdfType l) (withPred Desc.rdfFirst l) (withPred Desc.rdfRest l)
      (l.filter (fun s => stmtPred s != TtlEnc.rdfType && stmtPred s != Desc.rdfFirst && stmtPred s != Desc.rdfRest)) := rfl

theorem cellDecide_spec (ty fi re ot : List (Stmt β)) (cl : Cell β) (h : cellDecide ty fi re ot = cl) :
    (∀ f, cl = .last f → ty = [] ∧ ot = [] ∧ fi = [f] ∧ ∃ p, re = [.obj p (.iri Desc.rdfNil)]) ∧
    (∀ f sub, cl = .more f sub → ty = [] ∧ ot = [] ∧ fi = [f] ∧ ∃ p, re = [.anon p sub]) := by
  subst h
  unfold cellDecide
  rcases ot with _ | ⟨o1, ot⟩
  · rcases ty with _ | ⟨t1, ty⟩
    · rcases fi with _ | ⟨f1, _ | ⟨f2, fi⟩⟩
      · refine ⟨fun f h => ?_, fun f sub h => ?_⟩ <;> simp at h
      · rcases re with _ | ⟨r1, _ | ⟨r2, re⟩⟩
        · refine ⟨fun f h => ?_, fun f sub h => ?_⟩ <;> simp at h
        · cases r1 with
          | obj p o =>
            by_cases ho : o = Term.iri Desc.rdfNil
            · subst ho
              refine ⟨fun f h => ?_, fun f sub h => ?_⟩
              · simp at h
                subst h
                exact ⟨rfl, rfl, rfl, p, rfl⟩
              · simp at h
            · refine ⟨fun f h => ?_, fun f sub h => ?_⟩ <;> simp [ho] at h
          | anon p sub =>
            refine ⟨fun f h => ?_, fun f sub' h => ?_⟩
            · simp at h
            · simp at h
              obtain ⟨h1, h2⟩ := h
              subst h1 h2
              exact ⟨rfl, rfl, rfl, p, rfl⟩
        · refine ⟨fun f h => ?_, fun f sub h => ?_⟩ <;> simp at h
      · refine ⟨fun f h => ?_, fun f sub h => ?_⟩ <;> simp at h
    · rcases ty with _ | ⟨t2, ty⟩
      · cases t1 <;> (refine ⟨fun f h => ?_, fun f sub h => ?_⟩ <;> simp at h)
      · refine ⟨fun f h => ?_, fun f sub h => ?_⟩ <;> simp at h
  · refine ⟨fun f h => ?_, fun f sub h => ?_⟩ <;> simp at h

theorem listCell_perm (l : List (Stmt β)) (f r : Stmt β)
    (ho : l.filter (fun s => stmtPred s != TtlEnc.rdfType && stmtPred s != Desc.rdfFirst && stmtPred s != Desc.rdfRest) = [])
    (ht : withPred TtlEnc.rdfType l = []) (hf : withPred Desc.rdfFirst l = [f]) (hr : withPred Desc.rdfRest l = [r]) :
    l.Perm [f, r] ∧ stmtPred f = Desc.rdfFirst ∧ stmtPred r = Desc.rdfRest := by
  have hall : ∀ s ∈ l, stmtPred s ∈ [TtlEnc.rdfType, Desc.rdfFirst, Desc.rdfRest] := by
    intro s hs
    have hn : s ∉ l.filter (fun s => stmtPred s != TtlEnc.rdfType && stmtPred s != Desc.rdfFirst &&
        stmtPred s != Desc.rdfRest) := by
      rw [ho]; simp
    simp only [List.mem_cons, List.mem_nil_iff, or_false]
    by_cases h1 : stmtPred s = TtlEnc.rdfType
    · exact Or.inl h1
    · by_cases h2 : stmtPred s = Desc.rdfFirst
      · exact Or.inr (Or.inl h2)
      · by_cases h3 : stmtPred s = Desc.rdfRest
        · exact Or.inr (Or.inr h3)
        · exact absurd (List.mem_filter.2 ⟨hs, by simp [h1, h2, h3]⟩) hn
  have hnd : [TtlEnc.rdfType, Desc.rdfFirst, Desc.rdfRest].Nodup := by
    refine List.nodup_cons.2 ⟨?_, List.nodup_cons.2 ⟨?_, List.nodup_cons.2 ⟨by simp, List.nodup_nil⟩⟩⟩
    · intro h
      simp only [List.mem_cons, List.mem_nil_iff, or_false] at h
      rcases h with h | h <;> exact absurd h (by decide)
    · intro h
      simp only [List.mem_cons, List.mem_nil_iff, or_false] at h
      exact absurd h (by decide)
  have hp := withPred_regroup [TtlEnc.rdfType, Desc.rdfFirst, Desc.rdfRest] l hnd hall
  simp only [List.flatMap_cons, List.flatMap_nil, ht, hf, hr, List.nil_append, List.append_nil,
    List.cons_append] at hp
  refine ⟨hp.symm, ?_, ?_⟩
  · exact (mem_withPred.1 (by rw [hf]; exact List.mem_cons_self)).2
  · exact (mem_withPred.1 (by rw [hr]; exact List.mem_cons_self)).2

theorem listCellOf_spec (l : List (Stmt β)) :
    (∀ f, listCellOf false l = .last f →
      l.Perm [f, .obj Desc.rdfRest (.iri Desc.rdfNil)] ∧ stmtPred f = Desc.rdfFirst) ∧
    (∀ f sub, listCellOf false l = .more f sub →
      l.Perm [f, .anon Desc.rdfRest sub] ∧ stmtPred f = Desc.rdfFirst) := by
  obtain ⟨k1, k2⟩ := cellDecide_spec _ _ _ _ _ (listCellOf_eq l).symm
  constructor
  · intro f h
    obtain ⟨ht, ho, hf, p, hr⟩ := k1 f h
    obtain ⟨hp, h1, h2⟩ := listCell_perm l _ _ ho ht hf hr
    simp only [stmtPred] at h2
    subst h2
    exact ⟨hp, h1⟩
  · intro f sub h
    obtain ⟨ht, ho, hf, p, hr⟩ := k2 f sub h
    obtain ⟨hp, h1, h2⟩ := listCell_perm l _ _ ho ht hf hr
    simp only [stmtPred] at h2
    subst h2
    exact ⟨hp, h1⟩

/-- enough fuel: `listSyntaxAux` never runs out with `stmtsDepth + 1` -/
theorem listSyntax_fuel : ∀ (fuel : Nat) (sub : List (Stmt β)), stmtsDepth sub < fuel →
    listSyntaxAux false fuel sub ≠ none
  | 0, _, h => by cases h
  | fuel + 1, sub, h => by
    unfold listSyntaxAux
    split
    · simp
    · simp
    · next f sub2 hc =>
      have hmem : ∃ pr, Stmt.anon pr sub2 ∈ sub := by
        have := ((listCellOf_spec sub).2 f sub2 hc).1
        exact ⟨_, this.mem_iff.2 (List.mem_cons_of_mem _ List.mem_cons_self)⟩
      obtain ⟨pr, hm⟩ := hmem
      have hd := stmtDepth_le_of_mem hm
      simp only [stmtDepth] at hd
      have := listSyntax_fuel fuel sub2 (by omega)
      split
      · next h0 => exact absurd h0 this
      · simp
      · simp

theorem forall2_cons_left {α γ : Type} {Q : α → γ → Prop} {a : α} {l : List α} {ws : List γ}
    (h : All2 Q (a :: l) ws) : ∃ w ws', ws = w :: ws' ∧ Q a w ∧ All2 Q l ws' := by
  cases h with
  | cons h t => exact ⟨_, _, rfl, h, t⟩

/-- the entries `normalizedListSyntax` (repaired) returns, and the cell chain they stand for -/
theorem listSyntax_chain : ∀ (fuel : Nat) (sub es : List (Stmt β)), listSyntaxAux false fuel sub = some (some es) →
    es ≠ [] ∧ (∀ e ∈ es, stmtPred e = Desc.rdfFirst) ∧ (∀ e ∈ es, stmtDepth e ≤ stmtsDepth sub) ∧
    (StmtsOK c base sub → ∀ e ∈ es, StmtOK c base e) ∧
    (∀ es', All2 (fun e e' => DP [e] [e']) es es' → DP sub (chain es'))
  | 0, _, _, h => by simp [listSyntaxAux] at h
  | fuel + 1, sub, es, h => by
    unfold listSyntaxAux at h
    split at h
    · cases h
    · next f hc =>
      injection h with h
      injection h with h
      subst h
      obtain ⟨hp, hf⟩ := (listCellOf_spec sub).1 f hc
      have hfm : f ∈ sub := hp.mem_iff.2 List.mem_cons_self
      refine ⟨by simp, ?_, ?_, ?_, ?_⟩
      · intro e he; simp only [List.mem_singleton] at he; subst he; exact hf
      · intro e he; simp only [List.mem_singleton] at he; subst he; exact stmtDepth_le_of_mem hfm
      · intro hok e he
        simp only [List.mem_singleton] at he; subst he
        exact (stmtsOK_iff c base sub).1 hok _ hfm
      · intro es' hes
        obtain ⟨f', es2, rfl, hff, hnil⟩ := forall2_cons_left hes
        cases hnil
        exact .trans (DP.of_perm hp) (DP.append (a := [f]) (a' := [f']) hff (DP.refl _))
    · next f sub2 hc =>
      obtain ⟨hp, hf⟩ := (listCellOf_spec sub).2 f sub2 hc
      have hfm : f ∈ sub := hp.mem_iff.2 List.mem_cons_self
      have ham : Stmt.anon Desc.rdfRest sub2 ∈ sub := hp.mem_iff.2 (List.mem_cons_of_mem _ List.mem_cons_self)
      have hd2 : stmtsDepth sub2 + 1 ≤ stmtsDepth sub := by
        have := stmtDepth_le_of_mem ham
        simpa [stmtDepth] using this
      split at h
      · cases h
      · cases h
      · next es2 h2 =>
        injection h with h
        injection h with h
        subst h
        obtain ⟨hne, hpred, hdep, hok, hdp⟩ := listSyntax_chain fuel sub2 es2 h2
        refine ⟨by simp, ?_, ?_, ?_, ?_⟩
        · intro e he
          rcases List.mem_cons.1 he with rfl | he
          · exact hf
          · exact hpred e he
        · intro e he
          rcases List.mem_cons.1 he with rfl | he
          · exact stmtDepth_le_of_mem hfm
          · exact Nat.le_trans (hdep e he) (by omega)
        · intro hsub e he
          rcases List.mem_cons.1 he with rfl | he
          · exact (stmtsOK_iff c base sub).1 hsub _ hfm
          · have := (stmtsOK_iff c base sub).1 hsub _ ham
            exact hok (by simpa [StmtOK] using this.2) e he
        · intro es' hes
          obtain ⟨f', es2', rfl, hff, htl⟩ := forall2_cons_left hes
          have hne2 : es2' ≠ [] := forall2_ne_nil htl hne
          have hch : chain (f' :: es2') = [f', .anon Desc.rdfRest (chain es2')] := by
            cases es2' with
            | nil => exact absurd rfl hne2
            | cons _ _ => rfl
          rw [hch]
          refine .trans (DP.of_perm hp) ?_
          exact DP.append (a := [f]) (a' := [f']) hff (.anon Desc.rdfRest (hdp es2' htl) .nil)

/-! ### invariants -/

/-- a written statement (object position) with everything known about it -/
structure SItem (β : Type) extends DItem β where
  multi : Bool

def SItem.piece (w : SItem β) : Piece := ⟨w.text, w.multi, w.used⟩

/-- what `write … (.stmt ind s)` returns -/
def StmtInv (T : Tables) (C : TtlDoc.Cfg) (c : Ctx β) (base : Option (List Nat)) (s : Stmt β) (w : SItem β) : Prop :=
  ObjSyn T w.x w.sl w.text ∧ DP [s] [w.s'] ∧ stmtPred w.s' = stmtPred s ∧ ObjDen C c base w.x w.s' w.used

/-- what `write … (.put ind l)` returns: `ld` is the white space before the first predicate -/
def PutInv (T : Tables) (C : TtlDoc.Cfg) (c : Ctx β) (base : Option (List Nat)) (l : List (Stmt β)) (r : Piece) : Prop :=
  ∃ (pos : List TA.PO) (sl : List Nat → List TA.Slot) (ld body : List Nat) (l' : List (Stmt β)),
    r.text = ld ++ body ∧ WS ld ∧ ld ≠ [] ∧ PosSyn T pos sl body ∧ DP l l' ∧ PosDen C c base pos l' r.used

/-- what `write … (.list ind es)` returns -/
def ListInv (T : Tables) (C : TtlDoc.Cfg) (c : Ctx β) (base : Option (List Nat)) (ind : Nat) (es : List (Stmt β))
    (r : Piece) : Prop :=
  ∃ ws : List (SItem β), All2 (StmtInv T C c base) es ws ∧
    r = ⟨0x28 :: ((nl :: tabs (ind + 1)) ++ itemsBody (nl :: tabs (ind + 1)) (nl :: tabs ind) (ws.map (·.toOItem)) ++ [0x29]),
         true, ws.flatMap (·.used)⟩

/-- a group of `putResourceStatements` -/
structure GW (β : Type) extends DGItem β where
  multi : Bool

def GW.piece (ld : List Nat) (g : GW β) : Piece := ⟨ld ++ g.body, g.multi, g.used⟩

theorem objDen_of_simple {x : TA.Obj} {p : List Nat} {o : Term β} {used : List (List Nat)}
    (h : ∀ (D : List Nat → Prop) (st : TA.DState), StOK base c.pm D st → (∀ l ∈ used, D l) →
      TA.dObj C.resolve none st x = some (o.map (fun b => TA.B.lbl (c.label b)), [], st)) :
    ObjDen C c base x (.obj p o) used := by
  intro D st hst hD sN
  refine ⟨o.map (fun b => TA.B.lbl (c.label b)), [], ?_, ?_⟩
  · rw [h D st hst hD]
    cases st
    rfl
  · simp only [Stmt.newTriples, List.map_cons, List.map_nil, stmtPred, Triple.map, map_orig_sig]
    exact List.Perm.refl _


theorem all2_map_right {α γ δ : Type} {Q : α → γ → Prop} {Q' : α → δ → Prop} (f : γ → δ)
    (h : ∀ a w, Q a w → Q' a (f w)) : ∀ {l : List α} {ws : List γ}, All2 Q l ws → All2 Q' l (ws.map f)
  | _, _, .nil => .nil
  | _, _, .cons hq t => .cons (h _ _ hq) (all2_map_right f h t)

theorem all2_mem_left {α γ : Type} {Q : α → γ → Prop} : ∀ {l : List α} {ws : List γ}, All2 Q l ws →
    ∀ a ∈ l, ∃ w ∈ ws, Q a w
  | _, _, .nil, a, ha => by cases ha
  | _, _, .cons h t, a, ha => by
    rcases List.mem_cons.1 ha with rfl | ha
    · exact ⟨_, List.mem_cons_self, h⟩
    · obtain ⟨w, hw, hq⟩ := all2_mem_left t a ha
      exact ⟨w, List.mem_cons_of_mem _ hw, hq⟩

/-- one `mapOR … bind` step of the writers -/
theorem bind_mapOR_step {α γ δ W W' : Type} {f : α → OR γ} {k : List γ → OR δ} (g : W → γ) (g' : W' → δ)
    {Q : α → W → Prop} {P : W' → Prop} (l : List α) (h1 : ∀ a ∈ l, ∃ w, f a = OR.ok (g w) ∧ Q a w)
    (h2 : ∀ ws, All2 Q l ws → ∃ w', k (ws.map g) = OR.ok (g' w') ∧ P w') :
    ∃ w', (mapOR f l).bind k = OR.ok (g' w') ∧ P w' := by
  obtain ⟨ws, hws, hall⟩ := mapOR_wit g l h1
  obtain ⟨w', hk, hp⟩ := h2 ws hall
  refine ⟨w', ?_, hp⟩
  rw [hws]
  exact hk

/-! ### denotation of the three bracket forms -/

theorem anon_den (p : List Nat) : ObjDen C c base .anon (.anon p []) [] := by
  intro D st _ _ sN
  refine ⟨.bnode (.anon st.next), [], rfl, ?_⟩
  simp only [Stmt.newTriples, stmtsNewTriples, List.nil_append, List.map_cons, List.map_nil, stmtPred]
  exact List.Perm.refl _

theorem bnpl_den (pos : List TA.PO) (l' : List (Stmt β)) (used : List (List Nat)) (p : List Nat)
    (h : PosDen C c base pos l' used) : ObjDen C c base (.bnpl pos) (.anon p l') used := by
  intro D st hst hD sN
  obtain ⟨ts, h1, hp1⟩ := h D { st with next := st.next + 1 } (hst.next _) hD (.bnode (.fresh st.next))
  refine ⟨.bnode (.anon st.next), ts, ?_, ?_⟩
  · simp only [TA.dObj, TA.DState.fresh]
    have e : (Term.bnode (Desc.BN.fresh st.next) : Term (Desc.BN β)).map (sig c.label) = .bnode (.anon st.next) := rfl
    rw [e] at h1
    rw [h1]
    rfl
  · simp only [Stmt.newTriples, List.map_append, List.map_cons, List.map_nil, stmtPred]
    exact (List.Perm.cons _ hp1).trans (List.perm_append_singleton _ _).symm

theorem coll_den (os : List (DItem β)) (hne : os ≠ []) (p : List Nat)
    (h : ∀ o ∈ os, ObjDen C c base o.x o.s' o.used ∧ stmtPred o.s' = Desc.rdfFirst) :
    ObjDen C c base (.coll (os.map (·.x))) (.anon p (chain (os.map (·.s')))) (os.flatMap (·.used)) := by
  intro D st hst hD sN
  obtain ⟨ts, h1, hp1⟩ := items_den os hne h D { st with next := st.next + 1 } (hst.next _)
    (fun o ho l hl => hD l (List.mem_flatMap.2 ⟨o, ho, hl⟩)) st.next
  refine ⟨.bnode (.anon st.next), ts, ?_, ?_⟩
  · obtain ⟨o, os', rfl⟩ := List.exists_cons_of_ne_nil hne
    simp only [List.map_cons] at h1 ⊢
    simp only [TA.dObj, TA.DState.fresh, h1]
    rfl
  · simp only [Stmt.newTriples, List.map_append, List.map_cons, List.map_nil, stmtPred]
    exact (List.Perm.cons _ hp1).trans (List.perm_append_singleton _ _).symm

end RdfModel.Proofs.C02Doc
