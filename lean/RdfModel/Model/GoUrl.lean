/-
  RdfModel.Model.GoUrl — executable model of the *acceptance* behaviour of Go's `net/url.Parse`
  (go1.25) plus `URL.IsAbs`, over code points. Used as the `urlOk` parameter of the decoders when
  the driver runs; theorems never depend on it (they are stated for an arbitrary `urlOk`).
  Tied by correspondence (`nq.url`, `iriu.url` ops) and, since round 3, proved equal to the acceptance of
  the full net/url model (Model/GoUrlFull.lean, which is tied exactly to the code by the `piri.*` ops) on every
  input that model covers: Props/IriUnify.lean `goUrl_accepts_eq_full_partial`. IP literals go through the
  same model of `netip.ParseAddr` as GoUrlFull (`parseAddrIs6`; the earlier stand-alone approximation
  rejected embedded IPv4 such as `[::1.2.3.4]`, which Go accepts); RFC 6874 zones (`%25…`) are modelled
  here (acceptance only) and are the one class GoUrlFull declines (`PErr.unmodelled`).
-/
import RdfModel.Model.Rune
import RdfModel.Model.GoUrlFull
namespace RdfModel.GoUrl

def isAlphaC (c : Nat) : Bool := (0x61 ≤ c && c ≤ 0x7a) || (0x41 ≤ c && c ≤ 0x5a)
def isDigitC (c : Nat) : Bool := 0x30 ≤ c && c ≤ 0x39
def isHexC (c : Nat) : Bool := isDigitC c || (0x61 ≤ c && c ≤ 0x66) || (0x41 ≤ c && c ≤ 0x46)

/-- `strings.Cut(s, sep)` for a one-rune separator. -/
def cut (sep : Nat) : List Nat → List Nat × Option (List Nat)
  | [] => ([], none)
  | c :: rest =>
    if c = sep then ([], some rest)
    else let (a, b) := cut sep rest; (c :: a, b)

def hasCTL (s : List Nat) : Bool := s.any (fun c => c < 0x20 || c = 0x7f)

/-- `getScheme`: `none` = error ("missing protocol scheme"); `some (scheme, rest)`. -/
def getSchemeAux : List Nat → List Nat → Nat → Option (List Nat × List Nat)
  | whole, [], _ => some ([], whole)
  | whole, c :: rest, i =>
    if isAlphaC c then getSchemeAux whole rest (i + 1)
    else if isDigitC c || c = 0x2b || c = 0x2d || c = 0x2e then
      (if i = 0 then some ([], whole) else getSchemeAux whole rest (i + 1))
    else if c = 0x3a then
      (if i = 0 then none else some (whole.take i, rest))
    else some ([], whole)

def getScheme (s : List Nat) : Option (List Nat × List Nat) := getSchemeAux s s 0

/-- `unescape` well-formedness in the modes that only check `%XX`. -/
def pctOk : List Nat → Bool
  | [] => true
  | 0x25 :: a :: b :: rest => isHexC a && isHexC b && pctOk rest
  | 0x25 :: _ => false
  | _ :: rest => pctOk rest

def hostCharOk (c : Nat) : Bool :=
  c ≥ 0x80 || isAlphaC c || isDigitC c ||
  [0x21, 0x24, 0x26, 0x27, 0x28, 0x29, 0x2a, 0x2b, 0x2c, 0x3b, 0x3d, 0x3a, 0x5b, 0x5d, 0x3c, 0x3e, 0x22,
   0x2d, 0x5f, 0x2e, 0x7e].contains c

def unhexC (c : Nat) : Nat :=
  if isDigitC c then c - 0x30 else if 0x61 ≤ c && c ≤ 0x66 then c - 0x61 + 10 else c - 0x41 + 10

/-- `unescape(s, encodeHost)` succeeds. -/
def hostEscOk : List Nat → Bool
  | [] => true
  | 0x25 :: a :: b :: rest =>
    isHexC a && isHexC b && (unhexC a ≥ 8 || (a = 0x32 && b = 0x35)) && hostEscOk rest
  | 0x25 :: _ => false
  | c :: rest => hostCharOk c && hostEscOk rest

def validOptionalPort : List Nat → Bool
  | [] => true
  | c :: rest => c = 0x3a && rest.all isDigitC

def validUserinfo (s : List Nat) : Bool :=
  s.all (fun r => isAlphaC r || isDigitC r ||
    [0x2d, 0x2e, 0x5f, 0x3a, 0x7e, 0x21, 0x24, 0x26, 0x27, 0x28, 0x29, 0x2a, 0x2b, 0x2c, 0x3b, 0x3d, 0x25, 0x40].contains r)

/-- index of the last occurrence -/
def lastIndexOf (c : Nat) (s : List Nat) : Option Nat :=
  let rec go : List Nat → Nat → Option Nat → Option Nat
    | [], _, acc => acc
    | x :: xs, i, acc => go xs (i + 1) (if x = c then some i else acc)
  go s 0 none

/-- index of the first `"%25"` (`strings.Index(hostname, "%25")`) -/
def indexPct25 : List Nat → Option Nat
  | [] => none
  | c :: rest =>
    if [0x25, 0x32, 0x35].isPrefixOf (c :: rest) then some 0 else (indexPct25 rest).map (· + 1)

/-- `unescape(s, encodeZone)` succeeds: `%XX` must be `%25`, a space, or a byte host mode leaves alone. -/
def zoneEscOk : List Nat → Bool
  | [] => true
  | 0x25 :: a :: b :: rest =>
    isHexC a && isHexC b &&
      ((a = 0x32 && b = 0x35) || unhexC a * 16 + unhexC b = 0x20 ||
        !GoUrlFull.shouldEscape (unhexC a * 16 + unhexC b) .host) && zoneEscOk rest
  | 0x25 :: _ => false
  | c :: rest => hostCharOk c && zoneEscOk rest

/-- The text between `[` and `]` is accepted by `parseHost`: `unescape` (host mode; after the first `%25`
    zone mode) succeeds, `netip.ParseAddr` accepts the result and it is not an IPv4 address.
    `netip.ParseAddr` itself is the model shared with Model/GoUrlFull.lean (`parseAddrIs6`: groups, one `::`,
    embedded IPv4 in the last 32 bits). An accepted address consists of hex digits, `:` and `.` only, so
    a `%XX` escape in the address part (which can only produce a byte ≥ 0x80) is always rejected by
    `ParseAddr`; a zone must be non-empty after its `%`. -/
def ipLiteralOk (hostname : List Nat) : Bool :=
  match indexPct25 hostname with
  | some z =>
    let hp := hostname.take z
    let zp := hostname.drop z
    hostEscOk hp && zoneEscOk zp && !hp.contains 0x25 && zp.length > 3 && GoUrlFull.parseAddrIs6 hp hp
  | none =>
    hostEscOk hostname && !hostname.contains 0x25 && GoUrlFull.parseAddrIs6 hostname hostname

def parseHostOk (host : List Nat) : Bool :=
  match lastIndexOf 0x5b host with
  | some ob =>
    match lastIndexOf 0x5d host with
    | none => false
    | some cb =>
      let colonPort := host.drop (cb + 1)
      validOptionalPort colonPort && hostEscOk colonPort &&
        (let hostname := (host.take cb).drop (ob + 1)
         cb > ob && ipLiteralOk hostname)
  | none =>
    (match lastIndexOf 0x3a host with
      | some i => validOptionalPort (host.drop i)
      | none => true) && hostEscOk host

def parseAuthorityOk (auth : List Nat) : Bool :=
  match lastIndexOf 0x40 auth with
  | none => parseHostOk auth
  | some i =>
    parseHostOk (auth.drop (i + 1)) &&
      (let ui := auth.take i; validUserinfo ui && pctOk ui)

def startsWith (p s : List Nat) : Bool := p.isPrefixOf s

/-- `parse(u, false)` succeeds; returns the scheme when it does. -/
def parseNoFrag (u : List Nat) : Option (List Nat) :=
  if hasCTL u then none
  else if u = [0x2a] then some []
  else match getScheme u with
    | none => none
    | some (scheme, rest0) =>
      let rest := (cut 0x3f rest0).1
      if !startsWith [0x2f] rest then
        if !scheme.isEmpty then some scheme
        else if ((cut 0x2f rest).1).contains 0x3a then none
        else (if pctOk rest then some scheme else none)
      else if (!scheme.isEmpty || !startsWith [0x2f, 0x2f, 0x2f] rest) && startsWith [0x2f, 0x2f] rest then
        let a := rest.drop 2
        let (authority, tail) := cut 0x2f a
        let path := match tail with | some t => 0x2f :: t | none => []
        if parseAuthorityOk authority && pctOk path then some scheme else none
      else if pctOk rest then some scheme else none

/-- `url.Parse(s)` succeeds and `IsAbs()`. -/
def parseAbsOk (s : List Nat) : Bool :=
  let (u, frag) := cut 0x23 s
  match parseNoFrag u with
  | none => false
  | some scheme =>
    (match frag with
      | some f => pctOk f
      | none => true) && !scheme.isEmpty

/-- `url.Parse(s)` succeeds (relative references allowed). -/
def parseOk (s : List Nat) : Bool :=
  let (u, frag) := cut 0x23 s
  match parseNoFrag u with
  | none => false
  | some _ => (match frag with | some f => pctOk f | none => true)

end RdfModel.GoUrl
