package main

// Stages: W3C corpus, writer documents, mutations, flat documents, synthetic trees, value objects.

import (
	"archive/tar"
	"compress/gzip"
	"encoding/hex"
	"encoding/json"
	"fmt"
	"io"
	"math"
	"os"
	"path/filepath"
	"sort"
	"strings"

	"verifharness/vh"

	"github.com/dpb587/rdfkit-go/encoding/jsonld"
)

const w3cPrefix = "https://w3c.github.io/json-ld-api/tests/"

type w3cTest struct {
	ID     string   `json:"@id"`
	Type   []string `json:"@type"`
	Input  string   `json:"input"`
	Option struct {
		Base           string `json:"base"`
		ProcessingMode string `json:"processingMode"`
		SpecVersion    string `json:"specVersion"`
		ExpandContext  string `json:"expandContext"`
		RDFDirection   string `json:"rdfDirection"`
	} `json:"option"`
}

type corpusDoc struct {
	id   string
	text []byte
	o    opts
}

func loadTar(rel, manifest string) (map[string][]byte, []w3cTest, error) {
	f, err := os.Open(filepath.Join(repoDir(), rel))
	if err != nil {
		return nil, nil, err
	}
	defer f.Close()
	gz, err := gzip.NewReader(f)
	if err != nil {
		return nil, nil, err
	}
	files := map[string][]byte{}
	tr := tar.NewReader(gz)
	for {
		hd, err := tr.Next()
		if err == io.EOF {
			break
		}
		if err != nil {
			return nil, nil, err
		}
		if hd.Typeflag != tar.TypeReg {
			continue
		}
		b, err := io.ReadAll(tr)
		if err != nil {
			return nil, nil, err
		}
		files[strings.TrimPrefix(hd.Name, "./")] = b
	}
	var m struct {
		Sequence []w3cTest `json:"sequence"`
	}
	if err := json.Unmarshal(files[manifest], &m); err != nil {
		return nil, nil, fmt.Errorf("%s: %v", manifest, err)
	}
	return files, m.Sequence, nil
}

var corpusCache []corpusDoc

// corpusDocs: the input of every test of the two W3C suites shipped in /repo, with its manifest options.
func (h *harness) corpusDocs() []corpusDoc {
	if corpusCache != nil {
		return corpusCache
	}
	var out []corpusDoc
	for _, suite := range []struct{ rel, manifest, tag string }{
		{"encoding/jsonld/testsuites/w3c-github-json-ld-api-toRdf/testdata.tar.gz", "toRdf-manifest.jsonld", "toRdf"},
		{"encoding/jsonld/internal/jsonldinternal/testsuites/w3c-github-json-ld-api-expand/testdata.tar.gz", "expand-manifest.jsonld", "expand"},
	} {
		files, tests, err := loadTar(suite.rel, suite.manifest)
		if err != nil {
			h.rep.Add(vh.Case{Kind: "disagreement", Detail: "cannot read the W3C corpus " + suite.rel + ": " + err.Error()})
			continue
		}
		sort.Slice(tests, func(i, j int) bool { return tests[i].ID < tests[j].ID })
		for _, t := range tests {
			raw, ok := files[t.Input]
			if !ok {
				continue
			}
			o := opts{base: t.Option.Base, dir: t.Option.RDFDirection}
			if o.base == "" {
				o.base = w3cPrefix + t.Input
			}
			switch {
			case t.Option.ProcessingMode != "":
				o.mode = t.Option.ProcessingMode
			case t.Option.SpecVersion == "json-ld-1.0":
				o.mode = "json-ld-1.0"
			}
			if t.Option.ExpandContext != "" {
				o.expandContext = files[t.Option.ExpandContext]
			}
			if o.dir != "" && o.dir != "i18n-datatype" && o.dir != "compound-literal" {
				o.dir = ""
			}
			out = append(out, corpusDoc{suite.tag + t.ID, raw, o})
		}
	}
	corpusCache = out
	return out
}

func (h *harness) corpus() {
	docs := h.corpusDocs()
	for _, cd := range docs {
		h.docCase("corpus "+cd.id, cd.text, cd.o)
		// the other rdfDirection modes where a direction occurs, and the other processing mode
		if strings.Contains(string(cd.text), "@direction") {
			for _, d := range []string{"", "i18n-datatype", "compound-literal"} {
				if d != cd.o.dir {
					o := cd.o
					o.dir = d
					h.docCase("corpus-dir "+cd.id, cd.text, o)
				}
			}
		}
		o := cd.o
		if o.mode == "json-ld-1.0" {
			o.mode = "json-ld-1.1"
		} else {
			o.mode = "json-ld-1.0"
		}
		h.docCase("corpus-mode "+cd.id, cd.text, o)
	}
	h.rep.Exhaustive = append(h.rep.Exhaustive, fmt.Sprintf("every input document of the W3C toRdf and expand suites shipped in /repo (%d tests) under its manifest options, under the other processing mode, and (documents mentioning @direction) under all three rdfDirection settings", len(docs)))
}

// ---------------------------------------------------------------- writer documents

func (h *harness) randDir() string {
	switch h.r.Intn(6) {
	case 0:
		return "i18n-datatype"
	case 1:
		return "compound-literal"
	}
	return ""
}

func (h *harness) writeCases(n int) {
	for i := 0; i < n; i++ {
		r := h.r
		o := dsOpts{graphs: r.Chance(50), lists: r.Chance(70), nested: r.Chance(70), cycles: r.Chance(15), natives: r.Chance(60), exoticIR: r.Chance(20)}
		ds := h.genDataset(o)
		ch, _ := h.genChoices(ds.quads)
		cj, lj := "-", "-"
		if ch.context != nil {
			cj = ch.context.wire()
		}
		if ch.local != nil {
			lj = ch.local.wire()
		}
		line := fmt.Sprintf("jl.write %s %s %s %s %s %s", modeTok(ch.mode11), baseTok(ch.base), ch.wire(), cj, lj, gquadsWire(ds.quads))
		dir := h.randDir()
		mutate := i%2 == 0
		rm := h.r.Fork()
		if *nomodel {
			continue
		}
		h.add(line, func(model string) {
			if !strings.HasPrefix(model, "ok:") {
				h.rep.Add(vh.Case{Kind: "disagreement", Op: line, Model: model, Detail: "driver (jl.write)"})
				return
			}
			f := strings.Fields(model[3:])
			doc, err := parseWire(f[0])
			if err != nil {
				h.rep.Add(vh.Case{Kind: "disagreement", Op: line, Model: model, Detail: "document token unreadable: " + err.Error()})
				return
			}
			op := opts{base: ch.base, dir: dir, mode: "json-ld-1.0"}
			if ch.mode11 {
				op.mode = "json-ld-1.1"
			}
			h.rep.Count("write:path:" + f[1])
			h.docCase("write", doc.text(), op)
			if mutate {
				saved := h.r
				h.r = rm
				m := h.mutateDoc(doc)
				h.r = saved
				if m.wf() {
					h.docCase("mutated-write", m.text(), op)
				}
			}
		})
	}
}

// ---------------------------------------------------------------- mutations of corpus documents

var hotBytes = []byte("{}[]\":,@_ #\\ntfu0123456789.eE-+/<>")

func (h *harness) mutateCases(n int) {
	docs := h.corpusDocs()
	if len(docs) == 0 {
		return
	}
	for i := 0; i < n; i++ {
		cd := vh.Pick(h.r, docs)
		o := cd.o
		if h.r.Chance(20) {
			o.dir = h.randDir()
		}
		if h.r.Chance(15) {
			o.base = ""
		}
		if h.r.Chance(15) {
			o.mode = vh.Pick(h.r, []string{"", "json-ld-1.0", "json-ld-1.1"})
		}
		if i%3 == 0 {
			// malformed stream: byte-level edits, strict or lax tokenizer
			o.lax = h.r.Chance(40)
			text := cd.text
			for k, nk := 0, 1+h.r.Intn(3); k < nk; k++ {
				text = h.r.Mutate(text, hotBytes)
			}
			h.docCase("bytes-mutated "+cd.id, text, o)
			continue
		}
		doc, err := parseJSONText(cd.text)
		if err != nil {
			continue
		}
		m := h.mutateDoc(doc)
		if !m.wf() {
			continue
		}
		if h.r.Chance(30) {
			h.injectValueObject(m)
		}
		h.docCase("mutated "+cd.id, m.text(), o)
	}
}

// injectValueObject adds a property with value objects that exercise @direction / @json / natives.
func (h *harness) injectValueObject(doc *JV) {
	var nodes []*JV
	h.collect(doc, &nodes)
	var objs []*JV
	for _, v := range nodes {
		if v.kind == jObj && v.get("@value") == nil && v.get("@context") == nil {
			objs = append(objs, v)
		}
	}
	if len(objs) == 0 {
		return
	}
	v := vh.Pick(h.r, objs)
	var vo *JV
	switch h.r.Intn(6) {
	case 0:
		vo = jobj(jm("@value", jstr("x")), jm("@direction", jstr(vh.Pick(h.r, []string{"ltr", "rtl", "up"}))))
	case 1:
		vo = jobj(jm("@value", jstr("x")), jm("@language", jstr(vh.Pick(h.r, []string{"en", "EN-us", "a b", ""}))), jm("@direction", jstr("rtl")))
	case 2:
		vo = jobj(jm("@value", vh.Pick(h.r, []*JV{jobj(jm("b", jint(1)), jm("a", jarr(jnull(), jbool(true)))), jarr(jint(1), jstr("é<>&")), jstr("s"), jnull(), jdbl("1.5E0")})), jm("@type", jstr("@json")))
	case 3:
		vo = jobj(jm("@value", h.randomScalar()), jm("@type", jstr(vh.Pick(h.r, []string{xsdNS + "double", xsdNS + "integer", "http://example.org/dt", rdfNS + "langString"}))))
	case 4:
		vo = jobj(jm("@list", jarr(h.randomScalar(), jobj(jm("@list", jarr(h.randomScalar()))))))
	default:
		vo = h.randomScalar()
	}
	v.ms = append(v.ms, jmember{vh.Pick(h.r, []string{"http://example.org/injected", "urn:ex:p", "_:bp"}), jarr(vo)})
}

// ---------------------------------------------------------------- flat documents (expandFlat)

func asciiOnly(s string) string {
	b := []byte(s)
	for i, c := range b {
		if c >= 0x80 {
			b[i] = 'x'
		}
	}
	return string(b)
}

func asciiTerm(t vh.GTerm) vh.GTerm {
	t.IRI, t.Lex, t.DT, t.Lang = asciiOnly(t.IRI), asciiOnly(t.Lex), asciiOnly(t.DT), asciiOnly(t.Lang)
	return t
}

// stripJText removes the JSON-text field of every primitive from a tree token.
func stripJText(tree string) string {
	var sb strings.Builder
	i := 0
	for i < len(tree) {
		c := tree[i]
		sb.WriteByte(c)
		i++
		switch c {
		case 'O':
		case 'P':
			// pval
			pv := tree[i]
			sb.WriteByte(pv)
			i++
			if pv == 's' || pv == 'd' {
				j := strings.IndexByte(tree[i:], ';')
				sb.WriteString(tree[i : i+j+1])
				i += j + 1
			}
			// jtxt
			if tree[i] == 'j' {
				j := strings.IndexByte(tree[i:], ';')
				i += j + 1
			} else {
				i++
			}
			sb.WriteByte('-')
		default:
			if (c >= '0' && c <= '9') || (c >= 'a' && c <= 'f') || c == ';' {
				// member name
				if c != ';' {
					j := strings.IndexByte(tree[i:], ';')
					sb.WriteString(tree[i : i+j+1])
					i += j + 1
				}
			}
		}
	}
	return sb.String()
}

func (h *harness) flatCases(n int) {
	for i := 0; i < n; i++ {
		r := h.r
		ds := h.genDataset(dsOpts{graphs: r.Chance(60), lists: r.Chance(30), nested: r.Chance(50), cycles: r.Chance(15), natives: r.Chance(40)})
		qs := make([]vh.GQuad, len(ds.quads))
		for k, q := range ds.quads {
			qs[k] = vh.GQuad{S: asciiTerm(q.S), P: asciiTerm(q.P), O: asciiTerm(q.O)}
			if q.G != nil {
				g := asciiTerm(*q.G)
				qs[k].G = &g
			}
		}
		line := "jld.flat " + gquadsWire(qs)
		mode11 := r.Bool()
		h.stable(line)
		if *nomodel {
			continue
		}
		h.add(line, func(model string) {
			h.rep.Count("op:flat")
			f := strings.Fields(model)
			if len(f) != 2 {
				h.rep.Add(vh.Case{Kind: "disagreement", Op: line, Model: model, Detail: "driver (jld.flat)"})
				return
			}
			doc, err := parseWire(f[1])
			if err != nil {
				h.rep.Add(vh.Case{Kind: "disagreement", Op: line, Model: model, Detail: "document token unreadable: " + err.Error()})
				return
			}
			o := opts{mode: "json-ld-1.0"}
			if mode11 {
				o.mode = "json-ld-1.1"
			}
			text := doc.text()
			tree, stg, herr := hookExpand(text, o)
			desc := fmt.Sprintf("flat %s doc=%s", o, clip(string(text), 600))
			h.rep.Eval(desc, len(qs) > 0)
			if stg != "" {
				h.rep.Add(vh.Case{Kind: "disagreement", Op: line, Go: stg + ": " + fmt.Sprint(herr), Model: f[0], Detail: "the real expansion fails on a JL.writeFlat document — " + desc})
				return
			}
			if got := stripJText(tree); got != f[0] {
				h.rep.Add(vh.Case{Kind: "disagreement", Op: line, Go: clip(got, 1500), Model: clip(f[0], 1500), Detail: "C10D.expandFlat differs from jsonldinternal.Expand on a JL.writeFlat document — " + desc})
				return
			}
			// the model on the real tree = the decoder = (theorem jld_refines_fragment_partial) the dataset itself, labels kept
			dec := runDecoder(text, o)
			h.add("jld.run - "+tree, func(model string) {
				h.compareRun(replayDoc(text, o), desc, model, dec)
				want := make([]string, len(qs))
				for k, q := range qs {
					g := "-"
					if q.G != nil {
						g = q.G.Wire(labelOf)
					}
					want[k] = q.S.Wire(labelOf) + "," + q.P.Wire(labelOf) + "," + q.O.Wire(labelOf) + "," + g
				}
				if model != "done "+joinOrDash(want)+" -" {
					h.rep.Add(vh.Case{Kind: "disagreement", Op: line, Model: clip(model, 1500), Go: clip(joinOrDash(want), 1500), Detail: "the model does not read a JL.writeFlat document back as the dataset (contradicts theorem jld_flat_roundtrip) — " + desc})
				}
			})
		})
	}
}

// ---------------------------------------------------------------- synthetic expanded trees

var synthFloats = []float64{0, math.Copysign(0, -1), 1, -1, 1.5, -2.5e-3, 10, 100, 1e20, 1e21, 999999999999999868928, 1.0000000000000001e21,
	123456789012345680000, 5e-324, 1.7976931348623157e308, 9007199254740992, 9007199254740994, 0.1, 1e-7, 1e-6, 123.456, 1e22, 1.5e300,
	-1e21, 4.2e1, 12345678901234567890, 0.000001234, math.NaN(), math.Inf(1), math.Inf(-1), 2147483648, -0.5, 1e15, 1.2e-5}

func (h *harness) synthNum() float64 {
	if h.r.Chance(20) {
		return math.Float64frombits(h.r.U64())
	}
	if h.r.Chance(15) {
		return float64(int64(h.r.U64()>>(h.r.U64()%64))) * vh.Pick(h.r, []float64{1, -1, 0.5, 1e3, 1e-3})
	}
	return vh.Pick(h.r, synthFloats)
}

func primStr(s string) string {
	t, _ := jsonText(s)
	return "Ps" + hx(s) + ";j" + hx(t) + ";"
}

func primNum(f float64) string {
	t, ok := jsonText(f)
	jt := "e"
	if ok {
		jt = "j" + hx(t) + ";"
	}
	return "Pd" + jsonld.VerifNumber(f) + ";" + jt
}

func primBool(b bool) string {
	if b {
		return "Ptj" + hx("true") + ";"
	}
	return "Pfj" + hx("false") + ";"
}

const primNull = "Pnj6e756c6c;"
const primNil = "Pz-"

var synthJSON = []string{`{}`, `[]`, `{"a":1,"b":[true,null]}`, `[1.5,"x"]`, `{"é":"<&>"}`}

func primComposite(text string) string {
	k := "a"
	if strings.HasPrefix(text, "{") {
		k = "o"
	}
	return "P" + k + "j" + hx(text) + ";"
}

var synthIRIs = []string{"http://e/a", "http://e/b#f", "urn:x:y", "rel", "", "http://e/ sp", "http://e/a#b#c", "_:", "a:b", "http://e/\x01", "http://é/ü", "@keyword", "http://e/{x}"}
var synthIDs = []string{"_:b", "_:b", "_:c1", "_:", "_:é"}
var synthKeys = []string{"http://e/p", "http://e/q", "http://e/p#x", "urn:ex:p", "_:bp", "_:", "rel", "@foo", "@", "", "http://e/ sp", "a:b#c#d", "@index", "@nest"}
var synthTypes = []string{xsdNS + "double", xsdNS + "integer", xsdNS + "boolean", xsdNS + "string", "@json", rdfNS + "langString", rdfNS + "dirLangString", "", "http://e/dt", "rel", rdfNS + "JSON"}
var synthLangs = []string{"en", "EN-us", "de-CH-1996", "", "a b", " ", "x", "Fr"}
var synthDirs = []string{"ltr", "rtl", "", "LTR", "auto"}

func (h *harness) synthScalarPrim() string {
	switch h.r.Intn(12) {
	case 0:
		return primNull
	case 1:
		return primNil
	case 2, 3:
		return primNum(h.synthNum())
	case 4:
		return primBool(h.r.Bool())
	case 5:
		return primComposite(vh.Pick(h.r, synthJSON))
	case 6:
		return primStr(vh.Pick(h.r, synthIRIs))
	case 7:
		return primStr(vh.Pick(h.r, synthIDs))
	default:
		return primStr(vh.Pick(h.r, []string{"x", "", "hello world", "é", "1", "true", "\n\"\\", "<a>"}))
	}
}

// wrongShape: something of a shape the decoder does not expect at most places.
func (h *harness) wrongShape(depth int) string {
	switch h.r.Intn(5) {
	case 0:
		return "N"
	case 1:
		return h.synthScalarPrim()
	case 2:
		return "A]"
	case 3:
		return "O}"
	default:
		return h.synthElement(depth+2, true)
	}
}

func renderObj(ms map[string]string) string {
	ks := make([]string, 0, len(ms))
	for k := range ms {
		ks = append(ks, k)
	}
	sort.Strings(ks)
	var sb strings.Builder
	sb.WriteByte('O')
	for _, k := range ks {
		sb.WriteString(hex.EncodeToString([]byte(k)))
		sb.WriteByte(';')
		sb.WriteString(ms[k])
	}
	sb.WriteByte('}')
	return sb.String()
}

func (h *harness) synthArray(depth int, valuesOK bool) string {
	if h.r.Chance(4) {
		return h.wrongShape(depth)
	}
	var sb strings.Builder
	sb.WriteByte('A')
	for i, n := 0, h.r.Intn(4); i < n; i++ {
		sb.WriteString(h.synthElement(depth+1, valuesOK))
	}
	sb.WriteByte(']')
	return sb.String()
}

func (h *harness) synthValueObject() string {
	r := h.r
	ms := map[string]string{}
	if r.Chance(95) {
		switch r.Intn(10) {
		case 0, 1, 2, 3:
			ms["@value"] = primStr(vh.Pick(r, []string{"x", "", "hello", "é", "1.5"}))
		default:
			ms["@value"] = h.synthScalarPrim()
		}
	} else {
		ms["@value"] = h.wrongShape(9)
	}
	if r.Chance(45) {
		if r.Chance(92) {
			ms["@type"] = primStr(vh.Pick(r, synthTypes))
		} else {
			ms["@type"] = h.wrongShape(9)
		}
	}
	if r.Chance(40) {
		if r.Chance(92) {
			ms["@language"] = primStr(vh.Pick(r, synthLangs))
		} else {
			ms["@language"] = h.wrongShape(9)
		}
	}
	if r.Chance(35) {
		if r.Chance(92) {
			ms["@direction"] = primStr(vh.Pick(r, synthDirs))
		} else {
			ms["@direction"] = h.wrongShape(9)
		}
	}
	if r.Chance(10) {
		ms["@index"] = primStr("i")
	}
	return renderObj(ms)
}

func (h *harness) synthNode(depth int) string {
	r := h.r
	ms := map[string]string{}
	if r.Chance(70) {
		switch r.Intn(12) {
		case 0:
			ms["@id"] = primNull
		case 1:
			ms["@id"] = h.wrongShape(9)
		case 2, 3, 4:
			ms["@id"] = primStr(vh.Pick(r, synthIDs))
		default:
			ms["@id"] = primStr(vh.Pick(r, synthIRIs))
		}
	}
	if r.Chance(35) {
		if r.Chance(90) {
			var sb strings.Builder
			sb.WriteByte('A')
			for i, n := 0, r.Intn(4); i < n; i++ {
				switch r.Intn(10) {
				case 0:
					sb.WriteString(primNull)
				case 1:
					sb.WriteString(h.wrongShape(9))
				case 2:
					sb.WriteString(primStr(vh.Pick(r, synthIDs)))
				default:
					sb.WriteString(primStr(vh.Pick(r, synthIRIs)))
				}
			}
			sb.WriteByte(']')
			ms["@type"] = sb.String()
		} else {
			ms["@type"] = h.wrongShape(9)
		}
	}
	if depth < 4 {
		if r.Chance(15) {
			ms["@graph"] = h.synthArray(depth, false)
		}
		if r.Chance(10) {
			ms["@included"] = h.synthArray(depth, false)
		}
		if r.Chance(15) {
			if r.Chance(90) {
				rm := map[string]string{}
				for i, n := 0, 1+r.Intn(2); i < n; i++ {
					rm[vh.Pick(r, synthKeys)] = h.synthArray(depth, true)
				}
				ms["@reverse"] = renderObj(rm)
			} else {
				ms["@reverse"] = h.wrongShape(9)
			}
		}
		for i, n := 0, r.Intn(4); i < n; i++ {
			ms[vh.Pick(r, synthKeys)] = h.synthArray(depth, true)
		}
	}
	if r.Chance(5) {
		ms["@value"] = primStr("stray")
	}
	return renderObj(ms)
}

func (h *harness) synthElement(depth int, valuesOK bool) string {
	r := h.r
	if depth > 5 {
		return vh.Pick(r, []string{"N", "O}", primStr("x")})
	}
	switch k := r.Intn(20); {
	case k == 0:
		return "N"
	case k == 1:
		return h.synthScalarPrim()
	case k == 2:
		return h.synthArray(depth, valuesOK)
	case k < 9 && valuesOK:
		return h.synthValueObject()
	case k < 12 && valuesOK:
		ms := map[string]string{"@list": h.synthArray(depth, true)}
		if r.Chance(10) {
			ms["@id"] = primStr("http://e/ignored")
		}
		return renderObj(ms)
	default:
		return h.synthNode(depth)
	}
}

func (h *harness) syntheticCases(n int) {
	dirs := []string{"-", "-", "-", "i18n", "compound", "other"}
	for i := 0; i < n; i++ {
		var tree string
		if h.r.Chance(50) {
			var sb strings.Builder
			sb.WriteByte('A')
			for k, nk := 0, 1+h.r.Intn(3); k < nk; k++ {
				sb.WriteString(h.synthNode(0))
			}
			sb.WriteByte(']')
			tree = sb.String()
		} else {
			tree = h.synthElement(0, false)
		}
		h.treeCase("synthetic", tree, vh.Pick(h.r, dirs))
	}
	// native numbers one by one: {p: [{@value: x (, @type: dt)}]}
	for i := 0; i < n; i++ {
		vo := map[string]string{"@value": primNum(h.synthNum())}
		if h.r.Chance(50) {
			vo["@type"] = primStr(vh.Pick(h.r, []string{xsdNS + "double", xsdNS + "integer", xsdNS + "decimal", "http://e/dt", "@json"}))
		}
		tree := renderObj(map[string]string{"http://e/p": "A" + renderObj(vo) + "]"})
		h.treeCase("number", tree, "-")
	}
}

// valueObjectsExhaustive: every value object over a small alphabet of member values, under all four
// rdfDirection settings, as the single value of a property.
func (h *harness) valueObjectsExhaustive() {
	values := []string{primStr("x"), primStr(""), primNum(1), primNum(1.5), primNum(1e21), primBool(true), primNull, primNil, primComposite(`{"a":1}`), "A]", "N"}
	types := []string{"", primStr(xsdNS + "double"), primStr(xsdNS + "integer"), primStr("@json"), primStr(rdfNS + "langString"), primStr(rdfNS + "dirLangString"), primStr("http://e/dt"), primStr(""), primNull, "A]"}
	langs := []string{"", primStr("en"), primStr("EN-us"), primStr(""), primStr("a b"), primNum(1), "N"}
	dirs := []string{"", primStr("ltr"), primStr("rtl"), primStr("up"), primNull, "O}"}
	cnt := 0
	for _, v := range values {
		for _, t := range types {
			for _, l := range langs {
				for _, d := range dirs {
					vo := map[string]string{"@value": v}
					if t != "" {
						vo["@type"] = t
					}
					if l != "" {
						vo["@language"] = l
					}
					if d != "" {
						vo["@direction"] = d
					}
					tree := renderObj(map[string]string{"@id": primStr("http://e/s"), "http://e/p": "A" + renderObj(vo) + "]"})
					for _, dt := range []string{"-", "i18n", "compound", "other"} {
						h.treeCase("value-object", tree, dt)
						cnt++
					}
				}
			}
		}
	}
	h.rep.Exhaustive = append(h.rep.Exhaustive, fmt.Sprintf("value objects: @value over %d shapes × @type over %d × @language over %d × @direction over %d × 4 rdfDirection settings = %d trees through the real decodeValueNode", len(values), len(types), len(langs), len(dirs), cnt))
}
