/-
  Proofs.C04NDegree — Hash N-Degree Quads: whenever the Go code (model) returns a result, the
  specification returns the corresponding result (same hash, corresponding issuer).
-/
import RdfModel.Proofs.C04Hash
namespace RdfModel.Proofs.C04
open RdfModel RdfModel.Proofs.StrOrd RdfModel.C04

set_option linter.unusedSectionVars false

variable {β : Type} [DecidableEq β]

theorem prune_eq (chosen path : Str) : Rdfcanon.prune chosen path = Spec.RDFC10.prune chosen path := by
  unfold Rdfcanon.prune Spec.RDFC10.prune
  cases chosen <;> simp

/-! ### 5.4.4 -/

theorem pathLoop_rel {cm : Rdfcanon.Issuer β} {cs : Spec.RDFC10.Issuer β} (hc : CRel cm cs) (chosen : Str) :
    ∀ (l : List β) (path : Str) (mic : Rdfcanon.Issuer β) (sic : Spec.RDFC10.Issuer β) (recl : List β),
    IRel mic sic →
    (Rdfcanon.pathLoop cm chosen l (path, mic, recl) = none →
      Spec.RDFC10.pathLoop cs chosen l (path, sic, recl) = none) ∧
    (∀ p ic r, Rdfcanon.pathLoop cm chosen l (path, mic, recl) = some (p, ic, r) →
      ∃ sic', Spec.RDFC10.pathLoop cs chosen l (path, sic, recl) = some (p, sic', r) ∧ IRel ic sic' ∧
        path.length + 2 * l.length ≤ p.length)
  | [], path, mic, sic, recl, hi => by
    constructor
    · intro h; simp [Rdfcanon.pathLoop] at h
    · intro p ic r h
      simp only [Rdfcanon.pathLoop, Option.some.injEq, Prod.mk.injEq] at h
      obtain ⟨rfl, rfl, rfl⟩ := h
      exact ⟨sic, by simp [Spec.RDFC10.pathLoop], hi, by simp⟩
  | related :: rest, path, mic, sic, recl, hi => by
    unfold Rdfcanon.pathLoop Spec.RDFC10.pathLoop
    rw [hc.getIfKnown related, hi.getIfKnown related]
    cases hcan : cs.get? related with
    | some id =>
      simp only [prune_eq]
      have e : path ++ [0x5f, 0x3a] ++ id = path ++ 0x5f :: 0x3a :: id := by simp
      rw [e]
      by_cases hp : Spec.RDFC10.prune chosen (path ++ 0x5f :: 0x3a :: id) = true
      · simp [hp]
      · simp only [hp, Bool.false_eq_true, if_false]
        obtain ⟨h1, h2⟩ := pathLoop_rel hc chosen rest (path ++ 0x5f :: 0x3a :: id) mic sic recl hi
        refine ⟨h1, ?_⟩
        intro p ic r h
        obtain ⟨sic', h3, h4, h5⟩ := h2 p ic r h
        exact ⟨sic', h3, h4, by simp at h5 ⊢; omega⟩
    | none =>
      obtain ⟨hg1, hg2⟩ := hi.get related
      simp only [prune_eq]
      have e : path ++ [0x5f, 0x3a] ++ (mic.get related).1 = path ++ 0x5f :: 0x3a :: (sic.issue related).1 := by
        rw [hg1]; simp
      rw [e]
      by_cases hp : Spec.RDFC10.prune chosen (path ++ 0x5f :: 0x3a :: (sic.issue related).1) = true
      · simp [hp]
      · simp only [hp, Bool.false_eq_true, if_false]
        obtain ⟨h1, h2⟩ := pathLoop_rel hc chosen rest (path ++ 0x5f :: 0x3a :: (sic.issue related).1)
          (mic.get related).2 (sic.issue related).2
          (if (sic.get? related).isNone = true then recl ++ [related] else recl) hg2
        refine ⟨h1, ?_⟩
        intro p ic r h
        obtain ⟨sic', h3, h4, h5⟩ := h2 p ic r h
        exact ⟨sic', h3, h4, by simp at h5 ⊢; omega⟩

/-! ### 5.4.5 -/

def NDRel (mr : Rdfcanon.NDResult β) (sr : Spec.RDFC10.NDResult β) : Prop :=
  mr.hash = sr.hash ∧ IRel mr.issuer sr.issuer

/-- The recursive calls correspond: a model result is matched by the specification. -/
def RecRel (mrec : β → Rdfcanon.Issuer β → Rdfcanon.Res (Rdfcanon.NDResult β))
    (srec : β → Spec.RDFC10.Issuer β → Option (Spec.RDFC10.NDResult β)) : Prop :=
  ∀ b mi si, IRel mi si → ∀ mr, mrec b mi = .ok mr → ∃ sr, srec b si = some sr ∧ NDRel mr sr

theorem recLoop_rel {mrec : β → Rdfcanon.Issuer β → Rdfcanon.Res (Rdfcanon.NDResult β)}
    {srec : β → Spec.RDFC10.Issuer β → Option (Spec.RDFC10.NDResult β)} (hrec : RecRel mrec srec)
    (chosen : Str) :
    ∀ (l : List β) (path : Str) (mic : Rdfcanon.Issuer β) (sic : Spec.RDFC10.Issuer β), IRel mic sic →
    (Rdfcanon.recLoop mrec chosen l path mic = .skip → Spec.RDFC10.recLoop srec chosen l path sic = .skip) ∧
    (∀ p ic, Rdfcanon.recLoop mrec chosen l path mic = .ok (p, ic) →
      ∃ sic', Spec.RDFC10.recLoop srec chosen l path sic = .ok (p, sic') ∧ IRel ic sic' ∧
        path.length ≤ p.length)
  | [], path, mic, sic, hi => by
    constructor
    · intro h; simp [Rdfcanon.recLoop] at h
    · intro p ic h
      simp only [Rdfcanon.recLoop, Rdfcanon.Try.ok.injEq, Prod.mk.injEq] at h
      obtain ⟨rfl, rfl⟩ := h
      exact ⟨sic, by simp [Spec.RDFC10.recLoop], hi, by simp⟩
  | related :: rest, path, mic, sic, hi => by
    unfold Rdfcanon.recLoop Spec.RDFC10.recLoop
    cases hm : mrec related mic with
    | limit l => simp
    | panic => simp
    | ok mr =>
      obtain ⟨sr, hs, hh, hri⟩ := hrec related mic sic hi mr hm
      rw [hs]
      simp only [prune_eq]
      have e : path ++ [0x5f, 0x3a] ++ (mic.get related).1 ++ [0x3c] ++ mr.hash ++ [0x3e]
          = path ++ 0x5f :: 0x3a :: (sic.issue related).1 ++ 0x3c :: (sr.hash ++ [0x3e]) := by
        rw [(hi.get related).1, hh]; simp
      rw [e]
      have hlen : path.length ≤
          (path ++ 0x5f :: 0x3a :: (sic.issue related).1 ++ 0x3c :: (sr.hash ++ [0x3e])).length := by
        simp
      generalize (path ++ 0x5f :: 0x3a :: (sic.issue related).1 ++ 0x3c :: (sr.hash ++ [0x3e])) = np at hlen ⊢
      by_cases hp : Spec.RDFC10.prune chosen np = true
      · simp only [hp, if_true]
        exact ⟨fun _ => trivial, fun p ic h => by cases h⟩
      · simp only [hp, Bool.false_eq_true, if_false]
        obtain ⟨h1, h2⟩ := recLoop_rel hrec chosen rest np mr.issuer sr.issuer hri
        refine ⟨h1, ?_⟩
        intro p ic h
        obtain ⟨sic', h3, h4, h5⟩ := h2 p ic h
        exact ⟨sic', h3, h4, by omega⟩

/-! ### 5.4: the permutations -/

/-- A model `permLoop` that returns normally has not run out of budget. -/
theorem permLoop_ok_length (mrec : β → Rdfcanon.Issuer β → Rdfcanon.Res (Rdfcanon.NDResult β))
    (cm issuer : Rdfcanon.Issuer β) :
    ∀ (ps : List (List β)) (budget : Nat) (cp : Str) (ci : Rdfcanon.Issuer β) r,
    Rdfcanon.permLoop mrec cm issuer ps budget cp ci = .ok r → ps.length ≤ budget
  | [], _, _, _, _, _ => by simp
  | p :: ps, 0, cp, ci, r, h => by simp [Rdfcanon.permLoop] at h
  | p :: ps, budget + 1, cp, ci, r, h => by
    unfold Rdfcanon.permLoop at h
    simp only [List.length_cons, Nat.add_le_add_iff_right]
    split at h
    · exact permLoop_ok_length mrec cm issuer ps budget _ _ _ h
    · split at h
      · simp at h
      · exact permLoop_ok_length mrec cm issuer ps budget _ _ _ h
      · split at h
        · exact permLoop_ok_length mrec cm issuer ps budget _ _ _ h
        · exact permLoop_ok_length mrec cm issuer ps budget _ _ _ h

theorem permLoop_rel {mrec : β → Rdfcanon.Issuer β → Rdfcanon.Res (Rdfcanon.NDResult β)}
    {srec : β → Spec.RDFC10.Issuer β → Option (Spec.RDFC10.NDResult β)} (hrec : RecRel mrec srec)
    {cm : Rdfcanon.Issuer β} {cs : Spec.RDFC10.Issuer β} (hc : CRel cm cs)
    {mi : Rdfcanon.Issuer β} {si : Spec.RDFC10.Issuer β} (hi : IRel mi si) :
    ∀ (ps : List (List β)) (budget : Nat) (cp : Str) (cim : Rdfcanon.Issuer β) (cis : Spec.RDFC10.Issuer β),
    (cp ≠ [] → IRel cim cis) → (∀ p ∈ ps, p ≠ []) →
    ∀ rp rim, Rdfcanon.permLoop mrec cm mi ps budget cp cim = .ok (rp, rim) →
      ∃ ris, Spec.RDFC10.permLoop srec cs si ps cp cis = some (rp, ris) ∧ (rp ≠ [] → IRel rim ris) ∧
        ((cp ≠ [] ∨ ps ≠ []) → rp ≠ [])
  | [], budget, cp, cim, cis, hcp, _, rp, rim, h => by
    simp only [Rdfcanon.permLoop, Rdfcanon.Res.ok.injEq, Prod.mk.injEq] at h
    obtain ⟨rfl, rfl⟩ := h
    exact ⟨cis, by simp [Spec.RDFC10.permLoop], hcp, by simp⟩
  | p :: ps, 0, cp, cim, cis, _, _, rp, rim, h => by simp [Rdfcanon.permLoop] at h
  | p :: ps, budget + 1, cp, cim, cis, hcp, hne, rp, rim, h => by
    have hp : p ≠ [] := hne p (by simp)
    have hne' : ∀ p ∈ ps, p ≠ [] := fun p hp => hne p (by simp [hp])
    have hplen : 0 < p.length := List.length_pos_iff.mpr hp
    unfold Rdfcanon.permLoop at h
    unfold Spec.RDFC10.permLoop
    obtain ⟨hpl1, hpl2⟩ := pathLoop_rel hc cp p [] mi si [] (by simpa [Rdfcanon.Issuer.clone] using hi)
    simp only [Rdfcanon.Issuer.clone] at h
    cases hpm : Rdfcanon.pathLoop cm cp p ([], mi, []) with
    | none =>
      rw [hpm] at h
      rw [hpl1 hpm]
      obtain ⟨ris, h1, h2, h3⟩ := permLoop_rel hrec hc hi ps budget cp cim cis hcp hne' rp rim h
      refine ⟨ris, h1, h2, ?_⟩
      intro hor
      rcases hor with hor | _
      · exact h3 (Or.inl hor)
      · -- the first permutation is never pruned when nothing is chosen yet
        by_cases hcpe : cp = []
        · subst hcpe
          exfalso
          have : Rdfcanon.prune [] = fun _ => false := by funext x; simp [Rdfcanon.prune]
          -- pathLoop with an empty chosen path never returns none
          have hnone : ∀ (l : List β) st, Rdfcanon.pathLoop cm [] l st ≠ none := by
            intro l
            induction l with
            | nil => intro st; simp [Rdfcanon.pathLoop]
            | cons a rest ih =>
              intro st
              obtain ⟨a1, a2, a3⟩ := st
              unfold Rdfcanon.pathLoop
              simp only [this]
              simp only [Bool.false_eq_true, if_false]
              exact ih _
          exact hnone p _ hpm
        · exact h3 (Or.inl hcpe)
    | some st =>
      obtain ⟨path, ic, recl⟩ := st
      rw [hpm] at h
      obtain ⟨sic', hs1, hs2, hs3⟩ := hpl2 path ic recl hpm
      rw [hs1]
      simp only at h ⊢
      obtain ⟨hr1, hr2⟩ := recLoop_rel hrec cp recl path ic sic' hs2
      have hpathlen : 0 < path.length := by
        have h0 : ([] : Str).length = 0 := rfl
        omega
      cases hrm : Rdfcanon.recLoop mrec cp recl path ic with
      | err l => rw [hrm] at h; simp at h
      | skip =>
        rw [hrm] at h
        rw [hr1 hrm]
        simp only at h ⊢
        obtain ⟨ris, h1, h2, h3⟩ := permLoop_rel hrec hc hi ps budget cp cim cis hcp hne' rp rim h
        refine ⟨ris, h1, h2, ?_⟩
        intro _
        by_cases hcpe : cp = []
        · subst hcpe
          exfalso
          -- recLoop with an empty chosen path never skips
          have hns : ∀ (l : List β) pa i, Rdfcanon.recLoop mrec [] l pa i ≠ .skip := by
            intro l
            induction l with
            | nil => intro pa i; simp [Rdfcanon.recLoop]
            | cons a rest ih =>
              intro pa i
              unfold Rdfcanon.recLoop
              cases mrec a i with
              | limit _ => simp
              | panic => simp
              | ok x => simp [Rdfcanon.prune]; exact ih _ _
          exact hns recl path ic hrm
        · exact h3 (Or.inl hcpe)
      | ok x =>
        obtain ⟨path', ic'⟩ := x
        rw [hrm] at h
        obtain ⟨sic'', hq1, hq2, hq3⟩ := hr2 path' ic' hrm
        rw [hq1]
        simp only at h ⊢
        have hpath' : path' ≠ [] := by
          intro hh
          have h0 : path'.length = 0 := by rw [hh]; rfl
          omega
        have econd : (cp.length = 0 || strLt path' cp) = (cp.isEmpty || strLt path' cp) := by
          cases cp <;> simp
        rw [econd] at h
        by_cases hcond : (cp.isEmpty || strLt path' cp) = true
        · simp only [hcond, if_true] at h ⊢
          obtain ⟨ris, h1, h2, h3⟩ := permLoop_rel hrec hc hi ps budget path' ic' sic'' (fun _ => hq2) hne' rp rim h
          exact ⟨ris, h1, h2, fun _ => h3 (Or.inl hpath')⟩
        · simp only [hcond, Bool.false_eq_true, if_false] at h ⊢
          obtain ⟨ris, h1, h2, h3⟩ := permLoop_rel hrec hc hi ps budget cp cim cis hcp hne' rp rim h
          refine ⟨ris, h1, h2, fun _ => h3 (Or.inl ?_)⟩
          intro hh; subst hh; simp at hcond

/-! ### the Go permuter only rearranges -/

theorem swapAt_length (l : List β) (i j : Nat) : (Rdfcanon.swapAt l i j).length = l.length := by
  unfold Rdfcanon.swapAt
  split <;> simp

theorem heapNext_length : ∀ (fuel : Nat) (arr : List β) (c : List Nat) (i : Nat) arr' c',
    Rdfcanon.heapNext fuel arr c i = some (arr', c') → arr'.length = arr.length
  | 0, _, _, _, _, _, h => by simp [Rdfcanon.heapNext] at h
  | fuel + 1, arr, c, i, arr', c', h => by
    unfold Rdfcanon.heapNext at h
    by_cases h1 : i ≥ arr.length
    · simp [h1] at h
    · simp only [h1, if_false] at h
      by_cases h2 : c.getD i 0 < i
      · simp only [h2, if_true, Option.some.injEq, Prod.mk.injEq] at h
        rw [← h.1, swapAt_length]
      · simp only [h2, if_false] at h
        exact heapNext_length fuel arr _ _ arr' c' h

theorem heapPermsFrom_length : ∀ (n : Nat) (arr : List β) (c : List Nat),
    ∀ p ∈ Rdfcanon.heapPermsFrom n arr c, p.length = arr.length
  | 0, _, _, p, hp => by simp [Rdfcanon.heapPermsFrom] at hp
  | n + 1, arr, c, p, hp => by
    unfold Rdfcanon.heapPermsFrom at hp
    simp only [List.mem_cons] at hp
    rcases hp with hp | hp
    · rw [hp]
    · split at hp
      · simp at hp
      · next arr' c' hnext =>
        rw [heapPermsFrom_length n arr' c' p hp, heapNext_length _ _ _ _ _ _ hnext]

theorem heapPerms_length (n : Nat) (l : List β) : ∀ p ∈ Rdfcanon.heapPerms n l, p.length = l.length :=
  heapPermsFrom_length n l _

theorem heapPerms_succ_ne_nil (n : Nat) (l : List β) : Rdfcanon.heapPerms (n + 1) l ≠ [] := by
  simp [Rdfcanon.heapPerms, Rdfcanon.heapPermsFrom]

/-! ### 5: the related-hash groups -/

theorem groupLoop_rel {mrec : β → Rdfcanon.Issuer β → Rdfcanon.Res (Rdfcanon.NDResult β)}
    {srec : β → Spec.RDFC10.Issuer β → Option (Spec.RDFC10.NDResult β)} (hrec : RecRel mrec srec)
    {cm : Rdfcanon.Issuer β} {cs : Spec.RDFC10.Issuer β} (hc : CRel cm cs)
    (maxPerm : Nat) (perms : List β → List (List β)) (hperms : PermsAgree maxPerm perms) :
    ∀ (gs : List (Str × List β)) (data : Str) (mi : Rdfcanon.Issuer β) (si : Spec.RDFC10.Issuer β),
    IRel mi si → (∀ g ∈ gs, g.2 ≠ []) →
    ∀ d ri, Rdfcanon.groupLoop mrec cm maxPerm gs data mi = .ok (d, ri) →
      ∃ rsi, Spec.RDFC10.groupLoop srec cs perms gs data si = some (d, rsi) ∧ IRel ri rsi
  | [], data, mi, si, hi, _, d, ri, h => by
    simp only [Rdfcanon.groupLoop, Rdfcanon.Res.ok.injEq, Prod.mk.injEq] at h
    obtain ⟨rfl, rfl⟩ := h
    exact ⟨si, by simp [Spec.RDFC10.groupLoop], hi⟩
  | (rh, bl) :: rest, data, mi, si, hi, hne, d, ri, h => by
    have hbl : bl ≠ [] := hne (rh, bl) (by simp)
    unfold Rdfcanon.groupLoop at h
    unfold Spec.RDFC10.groupLoop
    cases hpm : Rdfcanon.permLoop mrec cm mi (Rdfcanon.heapPerms (maxPerm + 1) bl) maxPerm [] Rdfcanon.zeroIssuer with
    | limit l => rw [hpm] at h; simp at h
    | panic => rw [hpm] at h; simp at h
    | ok x =>
      obtain ⟨cp, ci⟩ := x
      rw [hpm] at h
      simp only at h
      have hlen := permLoop_ok_length mrec cm mi _ _ _ _ _ hpm
      rw [hperms bl hlen]
      have hpne : ∀ p ∈ Rdfcanon.heapPerms (maxPerm + 1) bl, p ≠ [] := by
        intro p hp hh
        have := heapPerms_length (maxPerm + 1) bl p hp
        rw [hh] at this
        exact hbl (List.length_eq_zero_iff.mp this.symm)
      obtain ⟨ris, h1, h2, h3⟩ := permLoop_rel hrec hc hi (Rdfcanon.heapPerms (maxPerm + 1) bl) maxPerm []
        Rdfcanon.zeroIssuer si (fun hh => absurd rfl hh) hpne cp ci hpm
      rw [h1]
      simp only
      have hcp : cp ≠ [] := h3 (Or.inr (heapPerms_succ_ne_nil maxPerm bl))
      exact groupLoop_rel hrec hc maxPerm perms hperms rest (data ++ rh ++ cp) ci ris (h2 hcp)
        (fun g hg => hne g (by simp [hg])) d ri h

/-! ### 4.8.3 as a whole -/

theorem foldl_addToMap_nonempty {α : Type} (l : List α) (f : α → List (Str × β)) :
    ∀ (m : List (Str × List β)), (∀ e ∈ m, e.2 ≠ []) →
    ∀ e ∈ l.foldl (fun h a => (f a).foldl (fun h cp => addToMap h cp.1 cp.2) h) m, e.2 ≠ [] := by
  induction l with
  | nil => intro m hm; simpa using hm
  | cons a rest ih =>
    intro m hm
    simp only [List.foldl_cons]
    apply ih
    generalize f a = kvs
    induction kvs generalizing m with
    | nil => simpa using hm
    | cons kv kvs ih2 =>
      simp only [List.foldl_cons]
      exact ih2 _ (addToMap_nonempty m kv.1 kv.2 hm)

theorem hashToRelated_nonempty (H : Str → Str) (sb : Spec.RDFC10.B2Q β) (cs si : Spec.RDFC10.Issuer β)
    (identifier : β) : ∀ e ∈ Spec.RDFC10.hashToRelated H sb cs si identifier, e.2 ≠ [] := by
  unfold Spec.RDFC10.hashToRelated
  exact foldl_addToMap_nonempty (getList sb identifier)
    (fun q => (Spec.RDFC10.relatedOf identifier q).map
      (fun cp => (Spec.RDFC10.hashRelated H sb cs si cp.1 q cp.2, cp.1))) [] (by simp)
    |> fun h => by simpa [List.foldl_map] using h

theorem hashNDegree_rel (T : NQ.Tables) (henc : EncOK T) (H : Str → Str)
    {st : Rdfcanon.State β} {sb : Spec.RDFC10.B2Q β} {cs : Spec.RDFC10.Issuer β}
    (hb : BRel T st.b2q sb) (hc : CRel st.canon cs)
    (maxPerm : Nat) (perms : List β → List (List β)) (hperms : PermsAgree maxPerm perms) :
    ∀ fuel, RecRel (Rdfcanon.hashNDegree H st maxPerm fuel) (Spec.RDFC10.hashNDegree H perms sb cs fuel)
  | 0 => by intro b mi si _ mr h; simp [Rdfcanon.hashNDegree] at h
  | fuel + 1 => by
    intro b mi si hi mr h
    unfold Rdfcanon.hashNDegree at h
    unfold Spec.RDFC10.hashNDegree
    rw [hashToRelated_eq T henc H hb hc hi b] at h
    simp only at h ⊢
    cases hg : Rdfcanon.groupLoop (Rdfcanon.hashNDegree H st maxPerm fuel) st.canon maxPerm
        (sortByKey (Spec.RDFC10.hashToRelated H sb cs si b)) [] mi with
    | limit l => rw [hg] at h; simp at h
    | panic => rw [hg] at h; simp at h
    | ok x =>
      obtain ⟨d, ri⟩ := x
      rw [hg] at h
      simp only [Rdfcanon.Res.ok.injEq] at h
      have hne : ∀ g ∈ sortByKey (Spec.RDFC10.hashToRelated H sb cs si b), g.2 ≠ [] := by
        intro g hgm
        have : g ∈ Spec.RDFC10.hashToRelated H sb cs si b := by
          simpa [sortByKey] using hgm
        exact hashToRelated_nonempty H sb cs si b g this
      obtain ⟨rsi, h1, h2⟩ := groupLoop_rel (hashNDegree_rel T henc H hb hc maxPerm perms hperms fuel) hc
        maxPerm perms hperms _ [] mi si hi hne d ri hg
      rw [h1]
      refine ⟨_, rfl, ?_⟩
      rw [← h]
      exact ⟨rfl, h2⟩

end RdfModel.Proofs.C04
