/-
  C20 (date/time family) helper lemmas: inversion of one iteration of Model.GoTime.step per layout
  element, and the bridges from the model's readers (getYear, getnum2, getnum1, the fraction rule,
  the zone element, daysIn) to the recognisers of Spec.XsdLexical (yearFrag, two, monthFrag, dayFrag,
  timeFrag, tzEnd, daysInMonth).
-/
import RdfModel.Model.GoTime
namespace RdfModel.Proofs.C20Time
open RdfModel RdfModel.GoTime
open RdfModel.Xsd (Tok Bytes layoutToks nextIsFrac)

/-! ### one loop iteration, inverted -/

theorem step_lit_iff {ts : List Tok} {b : Nat} {st st' : PS} {v r : Bytes} :
    step ts (.lit b) st v = some (st', r) ↔ v = b :: r ∧ st' = st := by
  cases v with
  | nil => simp [step]
  | cons c r0 => simp only [step]; grind

theorem step_year_iff {ts : List Tok} {st st' : PS} {v r : Bytes} :
    step ts .year st v = some (st', r) ↔
      ∃ y, getYear v = some (y, r) ∧ st' = { st with t := { st.t with year := y } } := by
  simp only [step]; grind

theorem step_month_iff {ts : List Tok} {st st' : PS} {v r : Bytes} :
    step ts .month st v = some (st', r) ↔
      ∃ m, getnum2 v = some (m, r) ∧ 1 ≤ m ∧ m ≤ 12 ∧ st' = { st with t := { st.t with month := some m } } := by
  simp only [step]; grind

theorem step_day_iff {ts : List Tok} {st st' : PS} {v r : Bytes} :
    step ts .day st v = some (st', r) ↔
      ∃ d, getnum2 v = some (d, r) ∧ st' = { st with t := { st.t with day := some d } } := by
  simp only [step]; grind

theorem step_hour_iff {ts : List Tok} {st st' : PS} {v r : Bytes} :
    step ts .hour st v = some (st', r) ↔
      ∃ h one, getnum1 v = some (h, r, one) ∧ h < 24 ∧
        st' = { t := { st.t with hour := h }, n := { st.n with hour1 := one } } := by
  simp only [step]; grind

theorem step_minute_iff {ts : List Tok} {st st' : PS} {v r : Bytes} :
    step ts .minute st v = some (st', r) ↔
      ∃ m, getnum2 v = some (m, r) ∧ m < 60 ∧ st' = { st with t := { st.t with min := m } } := by
  simp only [step]; grind

/-! ### readers -/

theorem isDigit_eq (b : Nat) : Xsd.isDigit b = Spec.Xsd.isDigit b := rfl

theorem two_eq (v : Bytes) : Spec.Xsd.two v = getnum2 v := by
  match v with
  | [] => rfl
  | [_] => rfl
  | a :: b :: r => rfl

theorem getnum2_lt {v r : Bytes} {n : Nat} (h : getnum2 v = some (n, r)) : n < 100 := by
  match v with
  | [] => simp [getnum2] at h
  | [_] => simp [getnum2] at h
  | a :: b :: r0 =>
    simp only [getnum2] at h
    split at h
    · next hd => simp [dig] at h; simp [Xsd.isDigit] at hd; omega
    · simp at h

/-- a string that does not begin with a digit -/
def NoDigitHead (r : Bytes) : Prop := ∀ c r', r = c :: r' → Spec.Xsd.isDigit c = false

theorem spanDigits_stop {r : Bytes} (h : NoDigitHead r) : Spec.Xsd.spanDigits r = ([], r) := by
  cases r with
  | nil => rfl
  | cons c r' => have := h c r' rfl; simp [Spec.Xsd.spanDigits, this]

theorem yearFrag_of_getYear {v r : Bytes} {y : Nat} (h : getYear v = some (y, r)) (hr : NoDigitHead r) :
    Spec.Xsd.yearFrag v = some ((y : Int), r) := by
  match v with
  | [] | [_] | [_, _] | [_, _, _] => simp [getYear] at h
  | a :: b :: c :: d :: r0 =>
    simp only [getYear] at h
    split at h
    · next hd =>
      simp only [Option.some.injEq, Prod.mk.injEq] at h
      obtain ⟨hy, rfl⟩ := h
      simp only [Bool.and_eq_true, isDigit_eq] at hd
      obtain ⟨⟨⟨ha, hb⟩, hc⟩, hdd⟩ := hd
      have ha' : a ≠ 0x2D := by
        intro e; subst e; revert ha; decide
      simp [Spec.Xsd.yearFrag, ha', Spec.Xsd.spanDigits, ha, hb, hc, hdd, spanDigits_stop hr, Spec.Xsd.natValue]
      simp [dig] at hy; omega
    · simp at h

/-! ### calendar -/

theorem isLeap_eq (y : Nat) : isLeap y = Spec.Xsd.isLeap (y : Int) := by
  unfold isLeap Spec.Xsd.isLeap
  rw [Bool.eq_iff_iff]
  simp only [Bool.and_eq_true, Bool.or_eq_true, beq_iff_eq, bne_iff_ne, ne_eq]
  omega

theorem daysIn_eq (m y : Nat) : daysIn m y = Spec.Xsd.daysInMonth (some (y : Int)) m := by
  unfold daysIn Spec.Xsd.daysInMonth
  rw [isLeap_eq]

theorem daysIn_zero (m : Nat) : daysIn m 0 = Spec.Xsd.daysInMonth none m := by
  unfold daysIn Spec.Xsd.daysInMonth
  simp [isLeap]

theorem daysIn_le (m y : Nat) : daysIn m y ≤ 31 := by
  unfold daysIn; split <;> (try split) <;> omega

/-! ### zone element -/

theorem getnum2_two {a b : Nat} {n : Nat} {x : Bytes} (h : getnum2 [a, b] = some (n, x)) (rest : Bytes) :
    getnum2 (a :: b :: rest) = some (n, rest) := by
  simp only [getnum2] at h ⊢
  split at h
  · next hd => simp at h; simp [hd, h.1]
  · simp at h

theorem step_tz_end {ts : List Tok} {st st' : PS} {v : Bytes} (h : step ts .tz st v = some (st', [])) :
    ∃ o w, st' = { t := { st.t with zone := some o }, n := { st.n with tzWide := w } } ∧
      (w = false → ∀ req, Spec.Xsd.tzEnd req v = true) := by
  simp only [step] at h
  match v with
  | [] => simp at h
  | z :: r0 =>
    simp only at h
    by_cases hz : z = 0x5A
    · subst hz
      simp at h
      obtain ⟨rfl, rfl⟩ := h
      exact ⟨0, st.n.tzWide, rfl, fun _ req => by cases req <;> rfl⟩
    · rw [if_neg hz] at h
      match r0 with
      | [] | [_] | [_, _] | [_, _, _] | [_, _, _, _] => simp at h
      | h1 :: h2 :: c :: m1 :: m2 :: r =>
        simp only at h
        split at h
        · simp at h
        · next hc =>
          have hc' : c = 0x3A := by simpa using hc
          subst hc'
          split at h
          · next hr x mm y e1 e2 =>
            split at h
            · simp at h
            · next hrange =>
              have e1' := getnum2_two e1 (0x3A :: m1 :: m2 :: r)
              have e2' := getnum2_two e2 r
              split at h
              · next hs =>
                simp at h; obtain ⟨rfl, rfl⟩ := h
                refine ⟨_, _, rfl, ?_⟩
                intro hw req
                simp [tzInXsd] at hw
                simp [Spec.Xsd.tzEnd, two_eq, e1', Spec.Xsd.expect, e2', hs]
                omega
              · split at h
                · next hs hs2 =>
                  simp at h; obtain ⟨rfl, rfl⟩ := h
                  refine ⟨_, _, rfl, ?_⟩
                  intro hw req
                  simp [tzInXsd] at hw
                  simp [Spec.Xsd.tzEnd, two_eq, e1', Spec.Xsd.expect, e2', hs2]
                  omega
                · simp at h
          · simp at h

/-! ### per layout: date -/

theorem noDigitHead_nil : NoDigitHead [] := by intro c r h; cases h
theorem noDigitHead_cons {c : Nat} {r : Bytes} (h : Spec.Xsd.isDigit c = false) : NoDigitHead (c :: r) := by
  intro c' r' e; cases e; exact h

theorem parseWith_inv {toks : List Tok} {a : Bytes} {st : PS} (h : parseWith toks a = some st) :
    parseToks toks {} a = some st ∧ dayOK st.t = true := by
  simp only [parseWith] at h
  split at h
  · split at h
    · simp at h; subst h; exact ⟨by assumption, by assumption⟩
    · simp at h
  · simp at h

theorem end_inv {r : Bytes} {s st : PS} (h : (if r = [] then some s else none) = some st) : r = [] ∧ s = st := by
  split at h
  · simp at h; exact ⟨by assumption, h⟩
  · simp at h

theorem dateFrag_of {a r2 r4 r5 : Bytes} {y m d : Nat} (hy : getYear a = some (y, 0x2D :: r2))
    (hm : getnum2 r2 = some (m, 0x2D :: r4)) (hm1 : 1 ≤ m) (hm2 : m ≤ 12) (hd : getnum2 r4 = some (d, r5))
    (hd1 : 1 ≤ d) (hd2 : d ≤ daysIn m y) : Spec.Xsd.dateFrag a = some r5 := by
  have hy' := yearFrag_of_getYear hy (noDigitHead_cons (by decide))
  have : d ≤ 31 := Nat.le_trans hd2 (daysIn_le m y)
  simp [Spec.Xsd.dateFrag, hy', Spec.Xsd.expect, Spec.Xsd.monthFrag, Spec.Xsd.dayFrag, two_eq, hm, hd, hm1, hm2, hd1, this,
    ← daysIn_eq, hd2]

theorem sound_date1 {a : Bytes} {st : PS}
    (h : parseWith [.year, .lit 0x2D, .month, .lit 0x2D, .day] a = some st) :
    Spec.Xsd.dateLexOK a = true := by
  obtain ⟨hp, hd⟩ := parseWith_inv h
  simp only [parseToks, Option.bind_eq_some_iff, Prod.exists, step_lit_iff, step_year_iff, step_month_iff, step_day_iff] at hp
  obtain ⟨s1, r1, ⟨y, hy, rfl⟩, s2, r2, ⟨rfl, rfl⟩, s3, r3, ⟨m, hm, hm1, hm2, rfl⟩, s4, r4, ⟨rfl, rfl⟩, s5, r5, ⟨d, hdd, rfl⟩, hend⟩ := hp
  obtain ⟨rfl, rfl⟩ := end_inv hend
  simp [dayOK] at hd
  simp [Spec.Xsd.dateLexOK, dateFrag_of hy hm hm1 hm2 hdd hd.1 hd.2, Spec.Xsd.tzEnd]

theorem sound_date2 {a : Bytes} {st : PS}
    (h : parseWith [.year, .lit 0x2D, .month, .lit 0x2D, .day, .tz] a = some st) (hc : st.n.clean = true) :
    Spec.Xsd.dateLexOK a = true := by
  obtain ⟨hp, hd⟩ := parseWith_inv h
  simp only [parseToks, Option.bind_eq_some_iff, Prod.exists, step_lit_iff, step_year_iff, step_month_iff, step_day_iff] at hp
  obtain ⟨s1, r1, ⟨y, hy, rfl⟩, s2, r2, ⟨rfl, rfl⟩, s3, r3, ⟨m, hm, hm1, hm2, rfl⟩, s4, r4, ⟨rfl, rfl⟩, s5, r5, ⟨d, hdd, rfl⟩, s6, r6, htz, hend⟩ := hp
  obtain ⟨rfl, rfl⟩ := end_inv hend
  obtain ⟨o, w, rfl, htz'⟩ := step_tz_end htz
  simp [dayOK] at hd
  simp [Notes.clean] at hc
  simp [Spec.Xsd.dateLexOK, dateFrag_of hy hm hm1 hm2 hdd hd.1 hd.2, htz' hc]

/-! ### per layout: gYear, gYearMonth, gMonth, gDay, gMonthDay -/

theorem step_tz_head {ts : List Tok} {st st' : PS} {v r : Bytes} (h : step ts .tz st v = some (st', r)) :
    NoDigitHead v := by
  simp only [step] at h
  match v with
  | [] => simp at h
  | z :: r0 =>
    simp only at h
    by_cases hz : z = 0x5A
    · subst hz; exact noDigitHead_cons (by decide)
    · rw [if_neg hz] at h
      match r0 with
      | [] | [_] | [_, _] | [_, _, _] | [_, _, _, _] => simp at h
      | h1 :: h2 :: c :: m1 :: m2 :: r =>
        simp only at h
        split at h
        · simp at h
        · split at h
          · split at h
            · simp at h
            · split at h
              · next hs => subst hs; exact noDigitHead_cons (by decide)
              · split at h
                · next hs => subst hs; exact noDigitHead_cons (by decide)
                · simp at h
          · simp at h

macro "unfold_parse" "at" h:ident : tactic =>
  `(tactic| simp only [parseToks, Option.bind_eq_some_iff, Prod.exists, step_lit_iff, step_year_iff, step_month_iff,
      step_day_iff, step_hour_iff, step_minute_iff] at $h:ident)

theorem sound_gYear1 {a : Bytes} {st : PS} (h : parseWith [.year] a = some st) : Spec.Xsd.gYearLexOK a = true := by
  obtain ⟨hp, hd⟩ := parseWith_inv h
  unfold_parse at hp
  obtain ⟨s1, r1, ⟨y, hy, rfl⟩, hend⟩ := hp
  obtain ⟨rfl, rfl⟩ := end_inv hend
  simp [Spec.Xsd.gYearLexOK, yearFrag_of_getYear hy noDigitHead_nil, Spec.Xsd.tzEnd]

theorem sound_gYear2 {a : Bytes} {st : PS} (h : parseWith [.year, .tz] a = some st) (hc : st.n.clean = true) :
    Spec.Xsd.gYearLexOK a = true := by
  obtain ⟨hp, hd⟩ := parseWith_inv h
  unfold_parse at hp
  obtain ⟨s1, r1, ⟨y, hy, rfl⟩, s6, r6, htz, hend⟩ := hp
  obtain ⟨rfl, rfl⟩ := end_inv hend
  have hh := step_tz_head htz
  obtain ⟨o, w, rfl, htz'⟩ := step_tz_end htz
  simp [Notes.clean] at hc
  simp [Spec.Xsd.gYearLexOK, yearFrag_of_getYear hy hh, htz' hc]

theorem ymFrag_of {a r2 r3 : Bytes} {y m : Nat} (hy : getYear a = some (y, 0x2D :: r2))
    (hm : getnum2 r2 = some (m, r3)) (hm1 : 1 ≤ m) (hm2 : m ≤ 12) :
    (do let (_, r) ← Spec.Xsd.yearFrag a; let r ← Spec.Xsd.expect 0x2D r; let (_, r) ← Spec.Xsd.monthFrag r; pure r) = some r3 := by
  have hy' := yearFrag_of_getYear hy (noDigitHead_cons (by decide))
  simp [hy', Spec.Xsd.expect, Spec.Xsd.monthFrag, two_eq, hm, hm1, hm2]

theorem sound_gYearMonth1 {a : Bytes} {st : PS} (h : parseWith [.year, .lit 0x2D, .month] a = some st) :
    Spec.Xsd.gYearMonthLexOK a = true := by
  obtain ⟨hp, hd⟩ := parseWith_inv h
  unfold_parse at hp
  obtain ⟨s1, r1, ⟨y, hy, rfl⟩, s2, r2, ⟨rfl, rfl⟩, s3, r3, ⟨m, hm, hm1, hm2, rfl⟩, hend⟩ := hp
  obtain ⟨rfl, rfl⟩ := end_inv hend
  simp only [Spec.Xsd.gYearMonthLexOK, ymFrag_of hy hm hm1 hm2]; rfl

theorem sound_gYearMonth2 {a : Bytes} {st : PS} (h : parseWith [.year, .lit 0x2D, .month, .tz] a = some st)
    (hc : st.n.clean = true) : Spec.Xsd.gYearMonthLexOK a = true := by
  obtain ⟨hp, hd⟩ := parseWith_inv h
  unfold_parse at hp
  obtain ⟨s1, r1, ⟨y, hy, rfl⟩, s2, r2, ⟨rfl, rfl⟩, s3, r3, ⟨m, hm, hm1, hm2, rfl⟩, s6, r6, htz, hend⟩ := hp
  obtain ⟨rfl, rfl⟩ := end_inv hend
  obtain ⟨o, w, rfl, htz'⟩ := step_tz_end htz
  simp [Notes.clean] at hc
  simp only [Spec.Xsd.gYearMonthLexOK, ymFrag_of hy hm hm1 hm2]; exact htz' hc _

theorem sound_gMonth1 {a : Bytes} {st : PS} (h : parseWith [.lit 0x2D, .lit 0x2D, .month] a = some st) :
    Spec.Xsd.gMonthLexOK a = true := by
  obtain ⟨hp, hd⟩ := parseWith_inv h
  unfold_parse at hp
  obtain ⟨s1, r1, ⟨rfl, rfl⟩, s2, r2, ⟨rfl, rfl⟩, s3, r3, ⟨m, hm, hm1, hm2, rfl⟩, hend⟩ := hp
  obtain ⟨rfl, rfl⟩ := end_inv hend
  simp [Spec.Xsd.gMonthLexOK, Spec.Xsd.expect, Spec.Xsd.monthFrag, two_eq, hm, hm1, hm2, Spec.Xsd.tzEnd]

theorem sound_gMonth2 {a : Bytes} {st : PS} (h : parseWith [.lit 0x2D, .lit 0x2D, .month, .tz] a = some st)
    (hc : st.n.clean = true) : Spec.Xsd.gMonthLexOK a = true := by
  obtain ⟨hp, hd⟩ := parseWith_inv h
  unfold_parse at hp
  obtain ⟨s1, r1, ⟨rfl, rfl⟩, s2, r2, ⟨rfl, rfl⟩, s3, r3, ⟨m, hm, hm1, hm2, rfl⟩, s6, r6, htz, hend⟩ := hp
  obtain ⟨rfl, rfl⟩ := end_inv hend
  obtain ⟨o, w, rfl, htz'⟩ := step_tz_end htz
  simp [Notes.clean] at hc
  simp [Spec.Xsd.gMonthLexOK, Spec.Xsd.expect, Spec.Xsd.monthFrag, two_eq, hm, hm1, hm2, htz' hc]

theorem sound_gDay1 {a : Bytes} {st : PS} (h : parseWith [.lit 0x2D, .lit 0x2D, .lit 0x2D, .day] a = some st) :
    Spec.Xsd.gDayLexOK a = true := by
  obtain ⟨hp, hd⟩ := parseWith_inv h
  unfold_parse at hp
  obtain ⟨s1, r1, ⟨rfl, rfl⟩, s2, r2, ⟨rfl, rfl⟩, s3, r3, ⟨rfl, rfl⟩, s5, r5, ⟨d, hdd, rfl⟩, hend⟩ := hp
  obtain ⟨rfl, rfl⟩ := end_inv hend
  simp [dayOK, daysIn] at hd
  simp [Spec.Xsd.gDayLexOK, Spec.Xsd.expect, Spec.Xsd.dayFrag, two_eq, hdd, hd, Spec.Xsd.tzEnd]

theorem sound_gDay2 {a : Bytes} {st : PS} (h : parseWith [.lit 0x2D, .lit 0x2D, .lit 0x2D, .day, .tz] a = some st)
    (hc : st.n.clean = true) : Spec.Xsd.gDayLexOK a = true := by
  obtain ⟨hp, hd⟩ := parseWith_inv h
  unfold_parse at hp
  obtain ⟨s1, r1, ⟨rfl, rfl⟩, s2, r2, ⟨rfl, rfl⟩, s3, r3, ⟨rfl, rfl⟩, s5, r5, ⟨d, hdd, rfl⟩, s6, r6, htz, hend⟩ := hp
  obtain ⟨rfl, rfl⟩ := end_inv hend
  obtain ⟨o, w, rfl, htz'⟩ := step_tz_end htz
  simp [dayOK, daysIn] at hd
  simp [Notes.clean] at hc
  simp [Spec.Xsd.gDayLexOK, Spec.Xsd.expect, Spec.Xsd.dayFrag, two_eq, hdd, hd, htz' hc]

theorem mdFrag_of {r2 r4 r5 : Bytes} {m d : Nat}
    (hm : getnum2 r2 = some (m, 0x2D :: r4)) (hm1 : 1 ≤ m) (hm2 : m ≤ 12) (hd : getnum2 r4 = some (d, r5))
    (hd1 : 1 ≤ d) (hd2 : d ≤ daysIn m 0) :
    (do let r ← Spec.Xsd.expect 0x2D (0x2D :: 0x2D :: r2); let r ← Spec.Xsd.expect 0x2D r; let (m, r) ← Spec.Xsd.monthFrag r
        let r ← Spec.Xsd.expect 0x2D r; let (d, r) ← Spec.Xsd.dayFrag r
        if d ≤ Spec.Xsd.daysInMonth none m then some r else none) = some r5 := by
  have : d ≤ 31 := Nat.le_trans hd2 (daysIn_le m 0)
  simp [Spec.Xsd.expect, Spec.Xsd.monthFrag, Spec.Xsd.dayFrag, two_eq, hm, hd, hm1, hm2, hd1, this, ← daysIn_zero, hd2]

theorem sound_gMonthDay1 {a : Bytes} {st : PS}
    (h : parseWith [.lit 0x2D, .lit 0x2D, .month, .lit 0x2D, .day] a = some st) : Spec.Xsd.gMonthDayLexOK a = true := by
  obtain ⟨hp, hd⟩ := parseWith_inv h
  unfold_parse at hp
  obtain ⟨s1, r1, ⟨rfl, rfl⟩, s2, r2, ⟨rfl, rfl⟩, s3, r3, ⟨m, hm, hm1, hm2, rfl⟩, s4, r4, ⟨rfl, rfl⟩, s5, r5, ⟨d, hdd, rfl⟩, hend⟩ := hp
  obtain ⟨rfl, rfl⟩ := end_inv hend
  simp [dayOK] at hd
  simp only [Spec.Xsd.gMonthDayLexOK, mdFrag_of hm hm1 hm2 hdd hd.1 hd.2]; rfl

theorem sound_gMonthDay2 {a : Bytes} {st : PS}
    (h : parseWith [.lit 0x2D, .lit 0x2D, .month, .lit 0x2D, .day, .tz] a = some st) (hc : st.n.clean = true) :
    Spec.Xsd.gMonthDayLexOK a = true := by
  obtain ⟨hp, hd⟩ := parseWith_inv h
  unfold_parse at hp
  obtain ⟨s1, r1, ⟨rfl, rfl⟩, s2, r2, ⟨rfl, rfl⟩, s3, r3, ⟨m, hm, hm1, hm2, rfl⟩, s4, r4, ⟨rfl, rfl⟩, s5, r5, ⟨d, hdd, rfl⟩, s6, r6, htz, hend⟩ := hp
  obtain ⟨rfl, rfl⟩ := end_inv hend
  obtain ⟨o, w, rfl, htz'⟩ := step_tz_end htz
  simp [dayOK] at hd
  simp [Notes.clean] at hc
  simp only [Spec.Xsd.gMonthDayLexOK, mdFrag_of hm hm1 hm2 hdd hd.1 hd.2]; exact htz' hc _

/-! ### clock: seconds, fraction, timeFrag -/

theorem step_second_inv {ts : List Tok} {st st' : PS} {v r : Bytes} (h : step ts .second st v = some (st', r)) :
    ∃ s r1, getnum2 v = some (s, r1) ∧ s < 60 ∧
      ((r = r1 ∧ st' = { st with t := { st.t with sec := s } }) ∨
       (nextIsFrac ts = false ∧ ∃ p d r2 f, r1 = p :: d :: r2 ∧ Xsd.isDigit d = true ∧
          parseNanos r1 (2 + (r2.takeWhile Xsd.isDigit).length) = some f ∧
          r = r1.drop (2 + (r2.takeWhile Xsd.isDigit).length) ∧
          st' = { t := { st.t with sec := s, nsec := f.ns },
                  n := { st.n with comma := f.comma, fracDropped := decide (f.ns ≠ 0) } })) := by
  simp only [step] at h
  grind

theorem step_frac0_inv {ts : List Tok} {n sep : Nat} {st st' : PS} {v r : Bytes}
    (h : step ts (.frac0 n sep) st v = some (st', r)) :
    1 + n ≤ v.length ∧ ∃ f, parseNanos v (1 + n) = some f ∧ r = v.drop (1 + n) ∧
      st' = { t := { st.t with nsec := f.ns }, n := { st.n with comma := f.comma, fsign := f.signed } } := by
  simp only [step] at h
  grind

theorem getnum1_two {v r : Bytes} {h : Nat} (e : getnum1 v = some (h, r, false)) : getnum2 v = some (h, r) := by
  match v with
  | [] => simp [getnum1] at e
  | [a] => simp [getnum1] at e
  | a :: b :: r0 =>
    simp only [getnum1] at e
    split at e
    · simp at e
    · next ha =>
      split at e
      · next hb => simp at e; simp at ha; simp [getnum2, ha, hb, e.1, e.2]
      · simp at e

theorem spanDigits_eq (s : Bytes) :
    Spec.Xsd.spanDigits s = (s.takeWhile Spec.Xsd.isDigit, s.dropWhile Spec.Xsd.isDigit) := by
  induction s with
  | nil => rfl
  | cons b r ih =>
    simp only [Spec.Xsd.spanDigits, List.takeWhile, List.dropWhile]
    split <;> simp_all

theorem drop_takeWhile (p : Nat → Bool) (l : Bytes) : l.drop (l.takeWhile p).length = l.dropWhile p := by
  induction l with
  | nil => rfl
  | cons b r ih => simp only [List.takeWhile, List.dropWhile]; split <;> simp_all

theorem noDigitHead_dropWhile (l : Bytes) : NoDigitHead (l.dropWhile Spec.Xsd.isDigit) := by
  intro c r' e
  induction l with
  | nil => simp at e
  | cons b r ih =>
    simp only [List.dropWhile] at e
    split at e
    · exact ih e
    · next hb => cases e; simpa using hb

theorem spanDigits_append {ds r : Bytes} (hd : ds.all Spec.Xsd.isDigit = true) (hr : NoDigitHead r) :
    Spec.Xsd.spanDigits (ds ++ r) = (ds, r) := by
  induction ds with
  | nil => exact spanDigits_stop hr
  | cons b t ih =>
    simp only [List.all_cons, Bool.and_eq_true] at hd
    simp [Spec.Xsd.spanDigits, hd.1, ih hd.2]

theorem parseNanos_comma {c : Nat} {t : Bytes} {n : Nat} {f : Frac} (h : parseNanos (c :: t) n = some f) :
    (c = 0x2E ∨ c = 0x2C) ∧ f.comma = decide (c = 0x2C) := by
  simp only [parseNanos] at h
  grind

theorem atoi_unsigned {s : Bytes} {neg : Bool} {m : Nat} (h : atoi s = some (false, neg, m)) :
    s.all Xsd.isDigit = true := by
  simp only [atoi] at h
  grind

theorem parseNanos_unsigned {v : Bytes} {n : Nat} {f : Frac} (h : parseNanos v n = some f) (hs : f.signed = false) :
    ((v.take (if n > 10 then 10 else n)).drop 1).all Xsd.isDigit = true := by
  match v with
  | [] => simp [parseNanos] at h
  | c :: t =>
    simp only [parseNanos] at h
    split at h
    · simp at h
    · split at h
      · simp at h
      · next sg neg m e =>
        split at h
        · simp at h
        · simp at h; subst h; simp at hs; subst hs; exact atoi_unsigned e

theorem timeFrag_F0 {a r2 r4 r6 : Bytes} {h m s : Nat} (hh : getnum2 a = some (h, 0x3A :: r2)) (hlt : h < 24)
    (hm : getnum2 r2 = some (m, 0x3A :: r4)) (hmlt : m < 60) (hs : getnum2 r4 = some (s, r6)) (hslt : s < 60)
    (hnd : ∀ r', r6 ≠ 0x2E :: r') : Spec.Xsd.timeFrag a = some r6 := by
  have e1 : (h ≤ 23) := by omega
  have e2 : (m ≤ 59) := by omega
  have e3 : (s ≤ 59) := by omega
  simp only [Spec.Xsd.timeFrag, two_eq, hh, Spec.Xsd.expect, hm, hs, Option.bind_eq_bind, Option.bind_some, if_true]
  match r6, hnd with
  | [], _ => simp [e1, e2, e3]
  | c :: t, hnd =>
    have : c ≠ 0x2E := fun e => hnd t (by rw [e])
    simp [e1, e2, e3]

theorem timeFrag_F1 {a r2 r4 ds r6 : Bytes} {h m s : Nat} (hh : getnum2 a = some (h, 0x3A :: r2)) (hlt : h < 24)
    (hm : getnum2 r2 = some (m, 0x3A :: r4)) (hmlt : m < 60) (hs : getnum2 r4 = some (s, 0x2E :: (ds ++ r6))) (hslt : s < 60)
    (hne : ds ≠ []) (hd : ds.all Spec.Xsd.isDigit = true) (hr : NoDigitHead r6) : Spec.Xsd.timeFrag a = some r6 := by
  have e1 : (h ≤ 23) := by omega
  have e2 : (m ≤ 59) := by omega
  have e3 : (s ≤ 59) := by omega
  have : ds.isEmpty = false := by cases ds <;> simp_all
  simp [Spec.Xsd.timeFrag, two_eq, hh, Spec.Xsd.expect, hm, hs, spanDigits_append hd hr, this, e1, e2, e3]

/-- what can follow the seconds in a layout of the family: nothing, `Z`, or a signed offset -/
def TailHead (r : Bytes) : Prop := ∀ c r', r = c :: r' → c = 0x5A ∨ c = 0x2B ∨ c = 0x2D

theorem tailHead_nil : TailHead [] := by intro c r h; cases h
theorem tailHead_noDigit {r : Bytes} (h : TailHead r) : NoDigitHead r := by
  intro c r' e
  rcases h c r' e with rfl | rfl | rfl <;> decide
theorem tailHead_noDot {r : Bytes} (h : TailHead r) : ∀ r', r ≠ 0x2E :: r' := by
  intro r' e
  rcases h _ _ e with h | h | h <;> simp at h

/-- hh:mm:ss with the "fraction not in the layout" rule, any continuation without a fraction element -/
theorem clock_inv {ts : List Tok} {st stf : PS} {v : Bytes}
    (h : parseToks (.hour :: .lit 0x3A :: .minute :: .lit 0x3A :: .second :: ts) st v = some stf) :
    ∃ hh m s ns one cm fd r6,
      parseToks ts { t := { st.t with hour := hh, min := m, sec := s, nsec := ns },
                     n := { st.n with hour1 := one, comma := cm, fracDropped := fd } } r6 = some stf ∧
      (one = false → cm = false → TailHead r6 → Spec.Xsd.timeFrag v = some r6) := by
  unfold_parse at h
  obtain ⟨s1, r1, ⟨hh, one, e1, hlt, rfl⟩, s2, r2, ⟨rfl, rfl⟩, s3, r3, ⟨m, e2, mlt, rfl⟩, s4, r4, ⟨rfl, rfl⟩, s5, r5, hsec, hrest⟩ := h
  obtain ⟨s, r5', e3, slt, hcase⟩ := step_second_inv hsec
  rcases hcase with ⟨rfl, rfl⟩ | ⟨_, p, d, r2', f, rfl, hd, hpn, rfl, rfl⟩
  · refine ⟨hh, m, s, st.t.nsec, one, st.n.comma, st.n.fracDropped, r5, hrest, ?_⟩
    intro h1 _ htl
    subst h1
    exact timeFrag_F0 (getnum1_two e1) hlt e2 mlt e3 slt (tailHead_noDot htl)
  · refine ⟨hh, m, s, f.ns, one, f.comma, decide (f.ns ≠ 0), _, hrest, ?_⟩
    intro h1 hcm _
    subst h1
    obtain ⟨hp, hcomma⟩ := parseNanos_comma hpn
    have hp' : p = 0x2E := by
      rw [hcm] at hcomma
      have : ¬ p = 0x2C := by simpa using hcomma.symm
      omega
    subst hp'
    have hdrop : (0x2E :: d :: r2').drop (2 + (r2'.takeWhile Xsd.isDigit).length) = r2'.dropWhile Spec.Xsd.isDigit := by
      rw [Nat.add_comm]; simp only [List.drop_succ_cons]; exact drop_takeWhile _ _
    rw [hdrop]
    have e3' : getnum2 r4 = some (s, 0x2E :: ((d :: r2'.takeWhile Spec.Xsd.isDigit) ++ r2'.dropWhile Spec.Xsd.isDigit)) := by
      rw [e3]; simp [List.takeWhile_append_dropWhile]
    exact timeFrag_F1 (getnum1_two e1) hlt e2 mlt e3' slt (by simp) (by simp [← isDigit_eq, hd]) (noDigitHead_dropWhile _)

/-- hh:mm:ss.000000000 -/
theorem clockF_inv {ts : List Tok} {st stf : PS} {v : Bytes}
    (h : parseToks (.hour :: .lit 0x3A :: .minute :: .lit 0x3A :: .second :: .frac0 9 0x2E :: ts) st v = some stf) :
    ∃ hh m s ns one cm fs r6,
      parseToks ts { t := { st.t with hour := hh, min := m, sec := s, nsec := ns },
                     n := { st.n with hour1 := one, comma := cm, fsign := fs } } r6 = some stf ∧
      (one = false → cm = false → fs = false → TailHead r6 → Spec.Xsd.timeFrag v = some r6) := by
  unfold_parse at h
  obtain ⟨s1, r1, ⟨hh, one, e1, hlt, rfl⟩, s2, r2, ⟨rfl, rfl⟩, s3, r3, ⟨m, e2, mlt, rfl⟩, s4, r4, ⟨rfl, rfl⟩, s5, r5, hsec, s6, r6, hfr, hrest⟩ := h
  obtain ⟨s, r5', e3, slt, hcase⟩ := step_second_inv hsec
  rcases hcase with ⟨rfl, rfl⟩ | ⟨hnf, _⟩
  · obtain ⟨hlen, f, hpn, rfl, rfl⟩ := step_frac0_inv hfr
    refine ⟨hh, m, s, f.ns, one, f.comma, f.signed, _, hrest, ?_⟩
    intro h1 hcm hfs htl
    subst h1
    match r5, hlen, hpn, e3 with
    | c :: t, hlen, hpn, e3 =>
      obtain ⟨hp, hcomma⟩ := parseNanos_comma hpn
      have hp' : c = 0x2E := by
        rw [hcm] at hcomma
        have : ¬ c = 0x2C := by simpa using hcomma.symm
        omega
      subst hp'
      have hds := parseNanos_unsigned hpn hfs
      simp only [Nat.lt_irrefl, if_false] at hds
      have hds' : (t.take 9).all Spec.Xsd.isDigit = true := by
        simpa [← isDigit_eq] using hds
      have hne : t.take 9 ≠ [] := by
        intro e
        have h1 : (t.take 9).length = min 9 t.length := List.length_take
        rw [e] at h1
        simp only [List.length_cons, List.length_nil] at hlen h1
        omega
      have e3' : getnum2 r4 = some (s, 0x2E :: (t.take 9 ++ t.drop 9)) := by
        rw [e3, List.take_append_drop]
      have : (0x2E :: t).drop (1 + 9) = t.drop 9 := by simp
      rw [this]
      exact timeFrag_F1 (getnum1_two e1) hlt e2 mlt e3' slt hne hds' (tailHead_noDigit htl)
  · simp [nextIsFrac] at hnf

/-! ### per layout: time -/

theorem step_tz_tailHead {ts : List Tok} {st st' : PS} {v r : Bytes} (h : step ts .tz st v = some (st', r)) :
    TailHead v := by
  simp only [step] at h
  match v with
  | [] => simp at h
  | z :: r0 =>
    simp only at h
    by_cases hz : z = 0x5A
    · subst hz; intro c r' e; cases e; simp
    · rw [if_neg hz] at h
      match r0 with
      | [] | [_] | [_, _] | [_, _, _] | [_, _, _, _] => simp at h
      | h1 :: h2 :: c :: m1 :: m2 :: r =>
        simp only at h
        split at h
        · simp at h
        · split at h
          · split at h
            · simp at h
            · split at h
              · next hs => subst hs; intro c r' e; cases e; simp
              · split at h
                · next hs => subst hs; intro c r' e; cases e; simp
                · simp at h
          · simp at h

/-- the three tails of the family -/
inductive Tail | none | z | tz

def Tail.toks : Tail → List Tok
  | .none => [] | .z => [.lit 0x5A] | .tz => [.tz]

/-- the tail always carries a zone -/
def Tail.req : Tail → Bool
  | .tz => true | _ => false

/-- after the clock part: the rest is a zone (or nothing), and the final state is explicit -/
theorem tail_inv {tl : Tail} {s1 stf : PS} {r6 : Bytes} (h : parseToks tl.toks s1 r6 = some stf) :
    TailHead r6 ∧ ∃ zo w, stf = { t := { s1.t with zone := zo }, n := { s1.n with tzWide := w } } ∧
      (w = false → Spec.Xsd.tzEnd tl.req r6 = true) := by
  cases tl with
  | none =>
    simp only [Tail.toks, parseToks] at h
    obtain ⟨rfl, rfl⟩ := end_inv h
    exact ⟨tailHead_nil, s1.t.zone, s1.n.tzWide, rfl, fun _ => rfl⟩
  | z =>
    simp only [Tail.toks] at h
    unfold_parse at h
    obtain ⟨s2, r2, ⟨rfl, rfl⟩, hend⟩ := h
    obtain ⟨rfl, rfl⟩ := end_inv hend
    refine ⟨?_, s2.t.zone, s2.n.tzWide, rfl, fun _ => rfl⟩
    intro c r' e; cases e; simp
  | tz =>
    simp only [Tail.toks] at h
    unfold_parse at h
    obtain ⟨s2, r2, htz, hend⟩ := h
    obtain ⟨rfl, rfl⟩ := end_inv hend
    have hh := step_tz_tailHead htz
    obtain ⟨o, w, rfl, htz'⟩ := step_tz_end htz
    exact ⟨hh, some o, w, rfl, fun hw => htz' hw _⟩

theorem tzEnd_mono {r : Bytes} (h : Spec.Xsd.tzEnd true r = true) : Spec.Xsd.tzEnd false r = true := by
  match r with
  | [] => simp [Spec.Xsd.tzEnd] at h
  | [c] => by_cases hc : c = 0x5A <;> simp_all [Spec.Xsd.tzEnd]
  | c :: d :: t => simpa [Spec.Xsd.tzEnd] using h

theorem sound_time_plain {tl : Tail} {a : Bytes} {st : PS}
    (h : parseWith (.hour :: .lit 0x3A :: .minute :: .lit 0x3A :: .second :: tl.toks) a = some st)
    (hc : st.n.clean = true) : Spec.Xsd.timeLexOK a = true := by
  obtain ⟨hp, hd⟩ := parseWith_inv h
  obtain ⟨hh, m, s, ns, one, cm, fd, r6, hrest, hT⟩ := clock_inv hp
  obtain ⟨htl, zo, w, rfl, hz⟩ := tail_inv hrest
  simp [Notes.clean] at hc
  have hT' := hT (by simp [hc]) (by simp [hc]) htl
  have hz' := hz (by simp [hc])
  simp only [Spec.Xsd.timeLexOK, hT']
  cases tl <;> first | exact hz' | exact tzEnd_mono hz'

theorem sound_time_frac {tl : Tail} {a : Bytes} {st : PS}
    (h : parseWith (.hour :: .lit 0x3A :: .minute :: .lit 0x3A :: .second :: .frac0 9 0x2E :: tl.toks) a = some st)
    (hc : st.n.clean = true) : Spec.Xsd.timeLexOK a = true := by
  obtain ⟨hp, hd⟩ := parseWith_inv h
  obtain ⟨hh, m, s, ns, one, cm, fs, r6, hrest, hT⟩ := clockF_inv hp
  obtain ⟨htl, zo, w, rfl, hz⟩ := tail_inv hrest
  simp [Notes.clean] at hc
  have hT' := hT (by simp [hc]) (by simp [hc]) (by simp [hc]) htl
  have hz' := hz (by simp [hc])
  simp only [Spec.Xsd.timeLexOK, hT']
  cases tl <;> first | exact hz' | exact tzEnd_mono hz'

/-! ### per layout: dateTime, dateTimeStamp -/

theorem ymdT_inv {ts : List Tok} {st stf : PS} {v : Bytes}
    (h : parseToks (.year :: .lit 0x2D :: .month :: .lit 0x2D :: .day :: .lit 0x54 :: ts) st v = some stf) :
    ∃ y m d r2 r4 r6, getYear v = some (y, 0x2D :: r2) ∧ getnum2 r2 = some (m, 0x2D :: r4) ∧ 1 ≤ m ∧ m ≤ 12 ∧
      getnum2 r4 = some (d, 0x54 :: r6) ∧
      parseToks ts { st with t := { st.t with year := y, month := some m, day := some d } } r6 = some stf := by
  unfold_parse at h
  obtain ⟨s1, r1, ⟨y, hy, rfl⟩, s2, r2, ⟨rfl, rfl⟩, s3, r3, ⟨m, hm, hm1, hm2, rfl⟩, s4, r4, ⟨rfl, rfl⟩, s5, r5, ⟨d, hdd, rfl⟩,
    s6, r6, ⟨rfl, rfl⟩, hrest⟩ := h
  exact ⟨y, m, d, r2, r4, r6, hy, hm, hm1, hm2, hdd, hrest⟩

theorem sound_dateTime_plain {tl : Tail} {a : Bytes} {st : PS}
    (h : parseWith (.year :: .lit 0x2D :: .month :: .lit 0x2D :: .day :: .lit 0x54 ::
          .hour :: .lit 0x3A :: .minute :: .lit 0x3A :: .second :: tl.toks) a = some st)
    (hc : st.n.clean = true) : Spec.Xsd.dateTimeLexOK tl.req a = true := by
  obtain ⟨hp, hd⟩ := parseWith_inv h
  obtain ⟨y, mo, d, r2, r4, rT, hy, hm, hm1, hm2, hdd, hp'⟩ := ymdT_inv hp
  obtain ⟨hh, m, s, ns, one, cm, fd, r6, hrest, hT⟩ := clock_inv hp'
  obtain ⟨htl, zo, w, rfl, hz⟩ := tail_inv hrest
  simp [Notes.clean] at hc
  simp [dayOK] at hd
  have hT' := hT (by simp [hc]) (by simp [hc]) htl
  have hz' := hz (by simp [hc])
  simp [Spec.Xsd.dateTimeLexOK, dateFrag_of hy hm hm1 hm2 hdd hd.1 hd.2, Spec.Xsd.expect, hT', hz']

theorem sound_dateTime_frac {tl : Tail} {a : Bytes} {st : PS}
    (h : parseWith (.year :: .lit 0x2D :: .month :: .lit 0x2D :: .day :: .lit 0x54 ::
          .hour :: .lit 0x3A :: .minute :: .lit 0x3A :: .second :: .frac0 9 0x2E :: tl.toks) a = some st)
    (hc : st.n.clean = true) : Spec.Xsd.dateTimeLexOK tl.req a = true := by
  obtain ⟨hp, hd⟩ := parseWith_inv h
  obtain ⟨y, mo, d, r2, r4, rT, hy, hm, hm1, hm2, hdd, hp'⟩ := ymdT_inv hp
  obtain ⟨hh, m, s, ns, one, cm, fs, r6, hrest, hT⟩ := clockF_inv hp'
  obtain ⟨htl, zo, w, rfl, hz⟩ := tail_inv hrest
  simp [Notes.clean] at hc
  simp [dayOK] at hd
  have hT' := hT (by simp [hc]) (by simp [hc]) (by simp [hc]) htl
  have hz' := hz (by simp [hc])
  simp [Spec.Xsd.dateTimeLexOK, dateFrag_of hy hm hm1 hm2 hdd hd.1 hd.2, Spec.Xsd.expect, hT', hz']

theorem dateTime_stamp_weaken {a : Bytes} (h : Spec.Xsd.dateTimeLexOK true a = true) : Spec.Xsd.dateTimeLexOK false a = true := by
  simp only [Spec.Xsd.dateTimeLexOK] at h ⊢
  split at h
  · exact tzEnd_mono h
  · simp at h

end RdfModel.Proofs.C20Time
