/-
  Property C09 — RDF/XML decoding of any grammatical document yields the graph it denotes
  (level: fragment).  Theorems only; helper lemmas live in RdfModel/Proofs/C09*.lean.

  The objects (all in Spec/RdfXmlFragment.lean, executable, run by the driver):
    `denoteDoc rs env tree`   the RDF/XML grammar (RDF 1.1 XML Syntax §7) as a denotation of an abstract
                              XML element tree; `rs` is reference resolution (RFC 3986 in the driver)
    `PDoc` (plans)            a way of writing a graph: striping, node element form (typed or
                              rdf:Description; rdf:about / rdf:ID / rdf:nodeID / anonymous), property attributes,
                              rdf:resource, rdf:nodeID, rdf:datatype, parseType Resource / Collection / Literal,
                              rdf:li, reification by rdf:ID, xml:base and xml:lang on any element, relative
                              references — each written form paired with the value it is meant to denote
    `renderDoc`, `flatDoc`    the tree of a plan; the intended triples of a plan (read off, no context)
    `wfDoc`                   executable check that written forms stand for their intended values under the
                              scoping rules and that the tree is grammatical
    `write rs base label g ch`  the writer: validates the choice `ch` (a plan plus the correspondence of
                              blank nodes) against the graph `g` and renders it, else renders the flat plan

  What is proved: for every graph of the fragment and every choice, the denotation of what the writer
  produces is the graph up to blank-node renaming (`write_denote`); the same for the switch-driven writer
  `writeAuto` of Spec/RdfXmlWriter.lean under every switch setting (`writeAuto_denote`); more generally the
  denotation of every well-formed plan is exactly its intended triples (`denote_render`), and every graph
  of the fragment has a well-formed plan (`flatPlan_ok`).  Well-definedness: attribute order does not
  influence what `denoteDoc` reads from an element (`attr_order`, at the level of the attribute record
  only: that the triples are then a permutation is not proved), insignificant white space is ignored
  (`ws_*`).  Props/C09Rfc.lean discharges the IRI side condition for RFC 3986 resolution,
  Props/C09Facts.lean ties the reserved-name sets and rdf:ID validity to the Go source (T1/T2),
  Props/C09Findings.lean records what the grammar says on the witnesses of the five decoder defects.

  What ties this to Go: go/cmd/c09 serialises the trees produced by `renderDoc` (and the W3C test
  documents parsed into trees) to XML text with random prefixes, references, attribute order and
  white space, runs rdfxml.Decoder with text-offset capture off and on, and compares with
  `denoteDoc` computed by the driver, up to blank-node isomorphism (T3).

  NOT covered by any theorem here: the XML text layer (encoding/xml, inspectxml: well-formedness
  errors, namespaces, entity and character references, DTD-defined entities); canonicalisation of
  rdf:parseType="Literal" content (the content is an opaque string); attributes without namespace;
  well-formedness of IRIs and language tags; reference resolution itself (parameter `rs`, see C12).
-/
import RdfModel.Props.C09Defs
import RdfModel.Spec.GraphIso
import RdfModel.Spec.RFC3986
import RdfModel.Proofs.C09Write
import RdfModel.Spec.RdfXmlWriter
namespace RdfModel.C09
open RdfModel RdfModel.Desc RdfModel.RX

variable {β : Type}

/-- **Round trip, plan form.**  For every resolution function, every environment and every
    well-formed plan, the denotation of the rendered tree is exactly the list of intended triples
    (same order, generated blank nodes numbered in document order). -/
theorem denote_render (rs : Str → Str → Str) (env : Env) (d : PDoc) (h : wfDoc rs env d = true) :
    denoteDoc rs env (renderDoc d) = .ok (flatDoc d) :=
  denoteDoc_render rs env d h

/-- The same for a single node element in an arbitrary state: subject, triples and final state. -/
theorem denote_render_node (rs : Str → Str → Str) (env : Env) (n : PNode) (st st' : St)
    (h : wfNode rs env st n = some st') :
    nodeElt rs env (renderNode n) st = .ok (n.subj, flatNode n, st') :=
  nodeElt_render rs n env st st' h

/-- **Every graph of the fragment can be written.**  The flat plan is well-formed and its intended
    triples are the graph with every blank node `b` named `label b`. -/
theorem flatPlan_ok (rs : Str → Str → Str) (base : Str) (label : β → Str) (hl : LabelsOK label)
    (g : List (Triple β)) (hg : ∀ t ∈ g, TripleOK rs base t) :
    wfDoc rs ⟨base, none⟩ (flatPlan label g) = true ∧
    flatDoc (flatPlan label g) = g.map (Triple.map (fun b => BN.named (label b))) :=
  ⟨flatPlan_wf rs base label hl g hg, flatPlan_flat rs base label g hg⟩

/-- **C09 (fragment).**  For every graph `g` of the fragment and every choice `ch` of how to write it
    (a plan and an injective correspondence of blank nodes), the document the writer produces denotes
    `g` up to blank-node renaming. -/
theorem write_denote (rs : Str → Str → Str) (base : Str) (label : β → Str) (hl : LabelsOK label)
    (g : List (Triple β)) (hg : ∀ t ∈ g, TripleOK rs base t) (ch : Choices β)
    (hσ : Function.Injective ch.rename) :
    ∃ out, denoteDoc rs ⟨base, none⟩ (write rs base label g ch) = .ok out ∧ Spec.Iso out g :=
  RX.write_denote rs base label hl g hg ch hσ

/-- **C09 (fragment), switch-driven writer.**  For every graph of the fragment and every setting of the
    switches (grouping, typed node elements, property attributes, rdf:li, rdf:ID, language hoisting,
    striping, xml:base with relative references) the document `writeAuto` produces denotes the graph up to
    blank-node renaming. -/
theorem writeAuto_denote [DecidableEq β] (rs : Str → Str → Str) (base : Str) (label : β → Str)
    (hl : LabelsOK label) (g : List (Triple β)) (hg : ∀ t ∈ g, TripleOK rs base t) (k : Knobs) :
    ∃ out, denoteDoc rs ⟨base, none⟩ (writeAuto rs base label g k) = .ok out ∧ Spec.Iso out g :=
  RX.write_denote rs base label hl g hg ⟨autoPlan rs base k label g, fun b => BN.named (label b)⟩
    (fun _ _ h => hl.inj (BN.named.inj h))

/-- The writer uses the chosen plan whenever it is a valid way of writing `g`. -/
theorem write_uses_choice (rs : Str → Str → Str) (base : Str) (label : β → Str) (g : List (Triple β))
    (ch : Choices β) (h1 : wfDoc rs ⟨base, none⟩ ch.plan = true)
    (h2 : (flatDoc ch.plan).Perm (g.map (Triple.map ch.rename))) :
    write rs base label g ch = renderDoc ch.plan := by
  unfold write
  rw [if_pos]
  simp only [Bool.and_eq_true, List.isPerm_iff]
  exact ⟨h1, h2⟩

/-! ### well-definedness: insignificant white space

  White-space text between property elements, between node elements, around the node element of a
  resource property element and between the items of a collection does not change the denotation
  (the serialiser of the harness inserts such text at random). -/

theorem ws_propList (rs : Str → Str → Str) (env : Env) (s : Term BN) (ws : Str) (hws : ws.all isWs = true)
    (ks : List Node) (li : Nat) (st : St) :
    propList rs env s (.text ws :: ks) li st = propList rs env s ks li st := by
  simp only [propList, propElt, hws, if_true]
  cases propList rs env s ks li st with
  | error e => rfl
  | ok r => obtain ⟨ts, st2⟩ := r; simp

theorem ws_nodeList (rs : Str → Str → Str) (env : Env) (ws : Str) (hws : ws.all isWs = true)
    (ks : List Node) (st : St) : nodeList rs env (.text ws :: ks) st = nodeList rs env ks st := by
  simp only [nodeList, hws, if_true]

theorem ws_resKids (rs : Str → Str → Str) (env : Env) (ws : Str) (hws : ws.all isWs = true)
    (ks : List Node) (st : St) : resKids rs env (.text ws :: ks) st = resKids rs env ks st := by
  simp only [resKids, hws, if_true]

theorem ws_collKids (rs : Str → Str → Str) (env : Env) (s : Term BN) (p : Str) (ws : Str)
    (hws : ws.all isWs = true) (ks : List Node) (st : St) :
    collKids rs env s p (.text ws :: ks) st = collKids rs env s p ks st := by
  simp only [collKids, hws, if_true]

/-! ### well-definedness: attribute order

  XML attributes are unordered. `denoteDoc` reads an element's attributes through `info`; for an attribute
  list with pairwise distinct names every permutation gives the same named attributes and a permutation
  of the property attributes (which only permutes the triples they produce). -/

theorem attr_order (as bs : List Attr) (h : as.Perm bs) (hn : (as.map attrKey).Nodup) :
    (info as).base = (info bs).base ∧ (info as).lang = (info bs).lang ∧ (info as).id = (info bs).id ∧
    (info as).about = (info bs).about ∧ (info as).nodeID = (info bs).nodeID ∧
    (info as).resource = (info bs).resource ∧ (info as).datatype = (info bs).datatype ∧
    (info as).parseType = (info bs).parseType ∧ (info as).props.Perm (info bs).props ∧
    (info as).bad = (info bs).bad ∧ (info as).unsup = (info bs).unsup :=
  info_perm h hn

/-! ### non-vacuity -/

namespace Witness

def s (x : String) : Str := asc x
def ex : Str := s "http://e/"
def base : Str := s "http://b/d/doc"
def label : Bool → Str
  | true => s "x"
  | false => s "y"

theorem labelsOK : LabelsOK label :=
  ⟨by intro a b h; cases a <;> cases b <;> first | rfl | (exact absurd h (by decide)),
   by intro b; cases b <;> decide⟩

/-- a graph of the fragment: IRI / blank subjects, plain, tagged and typed literals -/
def g : List (Triple Bool) :=
  [⟨.iri (s "http://b/d/a"), ex ++ s "p", .lit (s "v") xsdString none⟩,
   ⟨.bnode true, ex ++ s "q", .bnode false⟩,
   ⟨.bnode false, rdfMember 1, .lit (s "w") rdfLangString (some (s "en"))⟩,
   ⟨.iri (s "http://b/d/a"), ex ++ s "r", .lit (s "1") (s "http://e/dt") none⟩]

theorem g_ok : ∀ t ∈ g, TripleOK Spec.RFC3986.resolve base t := by
  intro t ht
  simp only [g, List.mem_cons, List.not_mem_nil, or_false] at ht
  rcases ht with rfl | rfl | rfl | rfl
  · exact ⟨by simp only [SubjOK, IriOK]; decide, by decide, Or.inl rfl⟩
  · exact ⟨trivial, by decide, trivial⟩
  · exact ⟨trivial, by decide, ⟨by decide, rfl⟩⟩
  · exact ⟨by simp only [SubjOK, IriOK]; decide, by decide,
      Or.inr ⟨by decide, by simp only [IriOK]; decide⟩⟩

/-- a way of writing `g` that uses a typed-free striped form: relative `rdf:about` under `xml:base`,
    a property attribute, an anonymous nested node element, `rdf:li`, inherited `xml:lang`,
    `rdf:datatype` -/
def plan : PDoc :=
  { sc := { base := some (s "http://b/d/"), lang := some (s "en") }
    nodes := [
      .mk {} (.anon 0) none []
        [.node {} (.el ex (s "q")) none
          (.mk {} (.anon 1) none [] [.lit {} (.li (rdfMember 1)) none (s "w") (some (s "en"))])],
      .mk { lang := some [] } (.about (s "http://b/d/a") (s "a")) none [.lit ex (s "p") (s "v") none]
        [.typed {} (.el ex (s "r")) none (s "1") (s "http://e/dt") (s "/dt")] ] }

/- `/dt` resolves against `http://b/d/` to `http://b/dt`, not `http://e/dt`: the plan above is rejected … -/
example : wfDoc Spec.RFC3986.resolve ⟨base, none⟩ plan = false := by decide

/-- … and this one is accepted -/
def plan2 : PDoc :=
  { plan with nodes := [
      .mk {} (.anon 0) none []
        [.node {} (.el ex (s "q")) none
          (.mk {} (.anon 1) none [] [.lit {} (.li (rdfMember 1)) none (s "w") (some (s "en"))])],
      .mk { lang := some [] } (.about (s "http://b/d/a") (s "a")) none [.lit ex (s "p") (s "v") none]
        [.typed { base := some (s "http://e/x") } (.el ex (s "r")) none (s "1") (s "http://e/dt") (s "dt")] ] }

theorem plan2_wf : wfDoc Spec.RFC3986.resolve ⟨base, none⟩ plan2 = true := by decide

def rename : Bool → BN
  | true => .gen 0
  | false => .gen 1

theorem rename_inj : Function.Injective rename := by
  intro a b h; cases a <;> cases b <;> first | rfl | (exact absurd h (by decide))

theorem plan2_writes_g : (flatDoc plan2).Perm (g.map (Triple.map rename)) := by
  rw [← List.isPerm_iff]; decide

/-- all switches on: the automatic plan for the witness graph is a valid way of writing it (so
    `writeAuto` renders it rather than the flat plan) -/
def knobs : Knobs :=
  { group := true, typed := true, attrs := true, li := true, useID := true, hoist := true, nest := true,
    rel := true, base := some (s "http://b/d/") }

theorem auto_used : autoPlanUsed Spec.RFC3986.resolve base label g knobs = true := by decide

end Witness

end RdfModel.C09
