/-
  C17 helper lemmas, part 2: `mapOpt`, the name-reusing closure `cw` (what the export of a subject
  flattens to when every anonymous resource keeps the blank node it was made from), and the local
  correspondence between the real flattening (fresh nodes from a counter) and `cw`.
-/
import RdfModel.Proofs.C17Builder
namespace RdfModel.Proofs.C17
open RdfModel RdfModel.Desc RdfModel.C17

/-! ### mapOpt -/
section MapOpt
variable {α γ : Type}

theorem mapOpt_cons_some {f : α → Option γ} {a : α} {l : List α} {r : List γ} :
    mapOpt f (a :: l) = some r ↔ ∃ b bs, f a = some b ∧ mapOpt f l = some bs ∧ r = b :: bs := by
  simp only [mapOpt]
  cases hfa : f a with
  | none => simp
  | some b =>
    cases hl : mapOpt f l with
    | none => simp
    | some bs =>
      simp only [Option.some.injEq]
      constructor
      · intro h; exact ⟨b, bs, rfl, rfl, h.symm⟩
      · rintro ⟨b', bs', hb, hbs, rfl⟩; cases hb; cases hbs; rfl

theorem mapOpt_nil {f : α → Option γ} : mapOpt f [] = some [] := rfl

theorem mapOpt_append {f : α → Option γ} {l₁ l₂ : List α} {r : List γ} :
    mapOpt f (l₁ ++ l₂) = some r ↔
      ∃ r₁ r₂, mapOpt f l₁ = some r₁ ∧ mapOpt f l₂ = some r₂ ∧ r = r₁ ++ r₂ := by
  induction l₁ generalizing r with
  | nil => simp [mapOpt_nil]
  | cons a l ih =>
    simp only [List.cons_append, mapOpt_cons_some, ih]
    constructor
    · rintro ⟨b, bs, hb, ⟨r₁, r₂, h₁, h₂, rfl⟩, rfl⟩
      exact ⟨b :: r₁, r₂, ⟨b, r₁, hb, h₁, rfl⟩, h₂, rfl⟩
    · rintro ⟨_, r₂, ⟨b, r₁, hb, h₁, rfl⟩, h₂, rfl⟩
      exact ⟨b, r₁ ++ r₂, hb, ⟨r₁, r₂, h₁, h₂, rfl⟩, rfl⟩

theorem mapOpt_congr_some {f g : α → Option γ} {l : List α} {r : List γ}
    (h : ∀ a ∈ l, ∀ b, f a = some b → g a = some b) (hf : mapOpt f l = some r) : mapOpt g l = some r := by
  induction l generalizing r with
  | nil => simpa [mapOpt_nil] using hf
  | cons a l ih =>
    obtain ⟨b, bs, hb, hbs, rfl⟩ := mapOpt_cons_some.1 hf
    exact mapOpt_cons_some.2 ⟨b, bs, h a (by simp) b hb, ih (fun a' ha' => h a' (by simp [ha'])) hbs, rfl⟩

theorem mapOpt_isSome {f : α → Option γ} {l : List α} (h : ∀ a ∈ l, (f a).isSome) :
    (mapOpt f l).isSome := by
  induction l with
  | nil => rfl
  | cons a l ih =>
    have ha := h a (by simp)
    have hl := ih (fun a' ha' => h a' (by simp [ha']))
    obtain ⟨b, hb⟩ := Option.isSome_iff_exists.1 ha
    obtain ⟨bs, hbs⟩ := Option.isSome_iff_exists.1 hl
    simp [mapOpt, hb, hbs]

theorem mapOpt_none_of_mem {f : α → Option γ} {l : List α} {a : α} (ha : a ∈ l) (hf : f a = none) :
    mapOpt f l = none := by
  induction l with
  | nil => cases ha
  | cons x l ih =>
    rcases List.mem_cons.1 ha with rfl | h
    · simp [mapOpt, hf]
    · simp only [mapOpt, ih h]
      cases f x <;> rfl

theorem mapOpt_some_mem {f : α → Option γ} {l : List α} {r : List γ} (hf : mapOpt f l = some r)
    {a : α} (ha : a ∈ l) : ∃ b, f a = some b := by
  cases h : f a with
  | none => rw [mapOpt_none_of_mem ha h] at hf; cases hf
  | some b => exact ⟨b, rfl⟩

theorem mapOpt_perm {f : α → Option γ} {l l' : List α} (hp : l.Perm l') :
    ∀ {r : List γ}, mapOpt f l = some r → ∃ r', mapOpt f l' = some r' ∧ r.Perm r' := by
  induction hp with
  | nil => intro r h; exact ⟨r, h, List.Perm.refl _⟩
  | cons x _ ih =>
    intro r h
    obtain ⟨b, bs, hb, hbs, rfl⟩ := mapOpt_cons_some.1 h
    obtain ⟨r', hr', hp'⟩ := ih hbs
    exact ⟨b :: r', mapOpt_cons_some.2 ⟨b, r', hb, hr', rfl⟩, hp'.cons b⟩
  | swap x y l =>
    intro r h
    obtain ⟨b, bs, hb, hbs, rfl⟩ := mapOpt_cons_some.1 h
    obtain ⟨c, cs, hc, hcs, rfl⟩ := mapOpt_cons_some.1 hbs
    exact ⟨c :: b :: cs, mapOpt_cons_some.2 ⟨c, b :: cs, hc, mapOpt_cons_some.2 ⟨b, cs, hb, hcs, rfl⟩, rfl⟩,
      List.Perm.swap _ _ _⟩
  | trans _ _ ih₁ ih₂ =>
    intro r h
    obtain ⟨r', hr', hp'⟩ := ih₁ h
    obtain ⟨r'', hr'', hp''⟩ := ih₂ hr'
    exact ⟨r'', hr'', hp'.trans hp''⟩

theorem mapOpt_length {f : α → Option γ} {l : List α} {r : List γ} (h : mapOpt f l = some r) :
    r.length = l.length := by
  induction l generalizing r with
  | nil => simp [mapOpt_nil] at h; subst h; rfl
  | cons a l ih =>
    obtain ⟨b, bs, _, hbs, rfl⟩ := mapOpt_cons_some.1 h
    simp [ih hbs]

end MapOpt

variable {β : Type} [DecidableEq β]

/-- the triple a statement of subject `y` stands for -/
def tr (y : Term β) (po : PO β) : Triple β := ⟨y, po.1, po.2⟩

/-- one statement of ExportResourceStatements at depth budget `k` -/
def expStmt (B : Builder β) (opts : Opts) (k : Nat) (po : PO β) : Option (Stmt β) :=
  if B.isInl opts po.2 then (B.exportStatements opts k po.2).map (Stmt.anon po.1)
  else some (Stmt.obj po.1 po.2)

theorem exportStatements_succ (B : Builder β) (opts : Opts) (k : Nat) (s : Term β) :
    B.exportStatements opts (k + 1) s = mapOpt (expStmt B opts k) (B.stmts s) := rfl

theorem exportStatements_zero (B : Builder β) (opts : Opts) (s : Term β) :
    B.exportStatements opts 0 s = none := rfl

/-- Name-reusing closure: the triples below subject `y`, nested descriptions first, link triple after
    (the order `AnonResourceStatement.NewTriples` produces), with the *original* blank nodes. -/
def cw (B : Builder β) (opts : Opts) : Nat → Term β → Option (List (Triple β))
  | 0, _ => none
  | k + 1, y =>
    (mapOpt (fun (po : PO β) =>
      if B.isInl opts po.2 then (cw B opts k po.2).map (fun w => w ++ [tr y po])
      else some [tr y po]) (B.stmts y)).map List.flatten

def cwStmt (B : Builder β) (opts : Opts) (k : Nat) (y : Term β) (po : PO β) : Option (List (Triple β)) :=
  if B.isInl opts po.2 then (cw B opts k po.2).map (fun w => w ++ [tr y po]) else some [tr y po]

theorem cw_succ (B : Builder β) (opts : Opts) (k : Nat) (y : Term β) :
    cw B opts (k + 1) y = (mapOpt (cwStmt B opts k y) (B.stmts y)).map List.flatten := rfl

theorem isInl_bnode {B : Builder β} {opts : Opts} {x : Term β} (h : B.isInl opts x = true) :
    ∃ b, x = Term.bnode b := by
  cases x with
  | bnode b => exact ⟨b, rfl⟩
  | iri v => simp [Builder.isInl] at h
  | lit l d t => simp [Builder.isInl] at h

/-! ### counters -/

omit [DecidableEq β] in
theorem split_alloc (σ : β → BN β) (al₁ al₂ : List β) (n : Nat) :
    (al₁ ++ al₂).map σ = (List.range' n (al₁.length + al₂.length)).map BN.fresh ↔
      al₁.map σ = (List.range' n al₁.length).map BN.fresh ∧
      al₂.map σ = (List.range' (n + al₁.length) al₂.length).map BN.fresh := by
  have h : List.range' n (al₁.length + al₂.length) =
      List.range' n al₁.length ++ List.range' (n + al₁.length) al₂.length := by
    rw [← List.range'_append]; simp
  rw [h, List.map_append, List.map_append]
  constructor
  · intro e
    exact List.append_inj e (by simp)
  · rintro ⟨e₁, e₂⟩; rw [e₁, e₂]


/-! ### flattening equations -/

omit [DecidableEq β] in
theorem stmtsNewTriples_nil (x : Term (BN β)) (n : Nat) : stmtsNewTriples x ([] : List (Stmt β)) n = ([], n) := by
  simp [stmtsNewTriples]

omit [DecidableEq β] in
theorem stmtsNewTriples_cons (x : Term (BN β)) (st : Stmt β) (l : List (Stmt β)) (n : Nat) :
    stmtsNewTriples x (st :: l) n =
      ((Stmt.newTriples x st n).1 ++ (stmtsNewTriples x l (Stmt.newTriples x st n).2).1,
       (stmtsNewTriples x l (Stmt.newTriples x st n).2).2) := by
  simp [stmtsNewTriples]

omit [DecidableEq β] in
theorem newTriples_obj (x : Term (BN β)) (p : List Nat) (o : Term β) (n : Nat) :
    Stmt.newTriples x (Stmt.obj p o) n = ([⟨x, p, o.map BN.orig⟩], n) := by
  simp [Stmt.newTriples]

omit [DecidableEq β] in
theorem newTriples_anon (x : Term (BN β)) (p : List Nat) (l : List (Stmt β)) (n : Nat) :
    Stmt.newTriples x (Stmt.anon p l) n =
      ((stmtsNewTriples (Term.bnode (BN.fresh n)) l (n + 1)).1 ++ [⟨x, p, Term.bnode (BN.fresh n)⟩],
       (stmtsNewTriples (Term.bnode (BN.fresh n)) l (n + 1)).2) := by
  simp [Stmt.newTriples]

/-! ### the local correspondence -/

/-- What is known about the statements `L` exported for subject `y`, their name-reusing flattening `W`
    and the blank nodes `al` that the real flattening replaces by fresh ones (in allocation order). -/
structure Good (B : Builder β) (opts : Opts) (y : Term β) (L : List (Stmt β)) (W : List (Triple β))
    (al : List β) : Prop where
  /-- the allocated nodes are exactly the inlined objects of `W` -/
  perm : (al.map Term.bnode).Perm ((W.map (·.o)).filter (B.isInl opts))
  /-- the counter advances by one per allocated node -/
  count : ∀ (x : Term (BN β)) (n : Nat), (stmtsNewTriples x L n).2 = n + al.length
  /-- the real flattening is the image of `W` under every renaming that sends `y` to the subject in
      use, the allocated nodes to their fresh nodes, and every other referenced node to itself -/
  image : ∀ (x : Term (BN β)) (n : Nat) (σ : β → BN β), y.map σ = x →
    al.map σ = (List.range' n al.length).map BN.fresh →
    (∀ b, 1 ≤ B.refCount b → B.isInl opts (Term.bnode b) = false → σ b = BN.orig b) →
    (stmtsNewTriples x L n).1 = W.map (Triple.map σ)

/-- builder invariant: an object that is a blank node has been counted -/
def RefsOK (B : Builder β) : Prop := ∀ y p b, ((p, Term.bnode b) : PO β) ∈ B.stmts y → 1 ≤ B.refCount b

theorem refsOK_build (T : List (Triple β)) : RefsOK (build T) := by
  intro y p b h
  rw [stmts_build] at h
  rw [refCount_build]
  simp only [List.mem_map, List.mem_filter] at h
  obtain ⟨t, ⟨ht, _⟩, hpo⟩ := h
  simp only [poOf, Prod.mk.injEq] at hpo
  unfold refs
  exact List.countP_pos_iff.2 ⟨t, ht, by simp [hpo.2]⟩

omit [DecidableEq β] in
theorem term_map_congr (o : Term β) (σ τ : β → BN β) (h : ∀ b, o = Term.bnode b → σ b = τ b) :
    o.map σ = o.map τ := by
  cases o with
  | bnode b => simp [Term.map, h b rfl]
  | iri v => rfl
  | lit l d t => rfl

theorem local_inner (B : Builder β) (opts : Opts) (hB : RefsOK B) (k : Nat)
    (ih : ∀ y L, B.exportStatements opts k y = some L → ∃ W al, cw B opts k y = some W ∧ Good B opts y L W al)
    (y : Term β) :
    ∀ (l : List (PO β)) (Ls : List (Stmt β)), (∀ po ∈ l, po ∈ B.stmts y) →
      mapOpt (expStmt B opts k) l = some Ls →
      ∃ Ws al, mapOpt (cwStmt B opts k y) l = some Ws ∧ Good B opts y Ls Ws.flatten al := by
  intro l
  induction l with
  | nil =>
    intro Ls _ h
    simp only [mapOpt_nil, Option.some.injEq] at h; subst h
    refine ⟨[], [], rfl, ?_, ?_, ?_⟩
    · simp
    · intro x n; simp [stmtsNewTriples_nil]
    · intro x n σ _ _ _; simp [stmtsNewTriples_nil]
  | cons po rest ihl =>
    intro Ls hmem h
    obtain ⟨st, Ls', hst, hLs', rfl⟩ := mapOpt_cons_some.1 h
    obtain ⟨Ws', al', hWs', g'⟩ := ihl Ls' (fun q hq => hmem q (by simp [hq])) hLs'
    by_cases hin : B.isInl opts po.2 = true
    · -- inlined: AnonResourceStatement
      obtain ⟨b, hb⟩ := isInl_bnode hin
      simp only [expStmt, hin, if_true, Option.map_eq_some_iff] at hst
      obtain ⟨Lb, hLb, rfl⟩ := hst
      obtain ⟨Wb, alb, hWb, gb⟩ := ih po.2 Lb hLb
      refine ⟨(Wb ++ [tr y po]) :: Ws', b :: (alb ++ al'), ?_, ?_, ?_, ?_⟩
      · exact mapOpt_cons_some.2 ⟨_, _, by simp [cwStmt, hin, hWb], hWs', rfl⟩
      · -- perm
        have h1 := gb.perm
        have h2 := g'.perm
        simp only [List.flatten_cons, List.map_append, List.map_cons, List.map_nil, List.filter_append,
          List.filter_cons, List.filter_nil, tr, hin, if_true]
        rw [← hb]
        have : (po.2 :: (alb.map Term.bnode ++ al'.map Term.bnode)).Perm
            (alb.map Term.bnode ++ po.2 :: al'.map Term.bnode) := List.perm_middle.symm
        refine this.trans ?_
        exact List.Perm.append h1 (List.Perm.cons _ h2) |>.trans (by simp)
      · -- count
        intro x n
        rw [stmtsNewTriples_cons, newTriples_anon]
        simp only [gb.count, g'.count, List.length_cons, List.length_append]
        omega
      · -- image
        intro x n σ hy hal hrest
        have hal' : ([b] ++ (alb ++ al')).map σ =
            (List.range' n ([b].length + (alb ++ al').length)).map BN.fresh := by
          simpa [Nat.add_comm] using hal
        obtain ⟨hσb, hal2⟩ := (split_alloc σ [b] (alb ++ al') n).1 hal'
        simp only [List.length_append] at hal2
        obtain ⟨halb, hal'2⟩ := (split_alloc σ alb al' (n + [b].length)).1 hal2
        simp only [List.map_cons, List.map_nil, List.length_cons, List.length_nil, Nat.zero_add,
          List.range'_one, List.cons.injEq, and_true] at hσb
        simp only [List.length_cons, List.length_nil, Nat.zero_add] at halb hal'2
        rw [stmtsNewTriples_cons, newTriples_anon]
        simp only [gb.count]
        have e1 := gb.image (Term.bnode (BN.fresh n)) (n + 1) σ (by rw [hb]; simp [Term.map, hσb]) halb hrest
        have e2 := g'.image x (n + 1 + alb.length) σ hy hal'2 hrest
        rw [e1, e2]
        simp only [List.flatten_cons, List.map_append, List.map_cons, List.append_assoc,
          List.cons_append, List.nil_append]
        congr 2
        simp only [tr, Triple.map, hy]
        rw [hb]; simp [Term.map, hσb]
    · -- not inlined: ObjectStatement
      have hin' : B.isInl opts po.2 = false := by simpa using hin
      simp only [expStmt, hin', Bool.false_eq_true, if_false, Option.some.injEq] at hst
      subst hst
      refine ⟨[tr y po] :: Ws', al', ?_, ?_, ?_, ?_⟩
      · exact mapOpt_cons_some.2 ⟨_, _, by simp [cwStmt, hin'], hWs', rfl⟩
      · simpa [tr, hin'] using g'.perm
      · intro x n
        rw [stmtsNewTriples_cons, newTriples_obj]
        exact g'.count x n
      · intro x n σ hy hal hrest
        rw [stmtsNewTriples_cons, newTriples_obj]
        simp only [g'.image x n σ hy hal hrest, List.flatten_cons, List.map_cons,
          List.cons_append, List.nil_append, List.cons.injEq, and_true]
        simp only [tr, Triple.map, hy]
        congr 1
        apply term_map_congr
        intro b' hb'
        symm
        apply hrest b'
        · exact hB y po.1 b' (by rw [← hb']; exact hmem po (by simp))
        · rw [← hb']; exact hin'

/-- Local correspondence: whenever ExportResourceStatements returns (within depth `k`), the closure
    `cw` is defined and the real flattening of the result is its renamed image. -/
theorem local_good (B : Builder β) (opts : Opts) (hB : RefsOK B) :
    ∀ k y L, B.exportStatements opts k y = some L → ∃ W al, cw B opts k y = some W ∧ Good B opts y L W al := by
  intro k
  induction k with
  | zero => intro y L h; simp [exportStatements_zero] at h
  | succ k ih =>
    intro y L h
    rw [exportStatements_succ] at h
    obtain ⟨Ws, al, hWs, g⟩ := local_inner B opts hB k ih y (B.stmts y) L (fun _ h => h) h
    exact ⟨Ws.flatten, al, by simp [cw_succ, hWs], g⟩

end RdfModel.Proofs.C17
