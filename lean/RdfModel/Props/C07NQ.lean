/-
  Property C07 (decoder side) — every document the N-Triples decoder accepts is accepted by the
  N-Quads decoder with the same statements, all in the default graph. Model `RdfModel.NQ`
  (`quads := false` is N-Triples). Theorems only; proofs in RdfModel/Proofs/C07NQ.lean.
  All theorems hold for every input, both stream endings and arbitrary tables (no table facts).
-/
import RdfModel.Model.NQuads
import RdfModel.Gen.NQTables
import RdfModel.Props.C07NQDefs
import RdfModel.Proofs.C07NQ
namespace RdfModel.C07NQ
open RdfModel RdfModel.NQ

/-- Per step: a statement produced by the N-Triples `Next()` is produced identically (same statement,
    same remaining input) by the N-Quads `Next()`, and it has no graph name. -/
theorem next_nt_quad (T : Tables) (urlOk : List Nat → Bool) (e : End) (started : Bool)
    (inp rest : List Nat) (q : Quad (List Nat))
    (h : next T urlOk e false started inp = .quad q rest) :
    next T urlOk e true started inp = .quad q rest ∧ q.g = none :=
  Proofs.C07NQ.next_nt_quad T urlOk e started inp rest q h

/-- Per step: a clean end for N-Triples is a clean end for N-Quads. (Errors need not correspond:
    N-Quads accepts a graph label where N-Triples reports a syntax error.) -/
theorem next_nt_done (T : Tables) (urlOk : List Nat → Bool) (e : End) (started : Bool)
    (inp : List Nat) (h : next T urlOk e false started inp = .done) :
    next T urlOk e true started inp = .done :=
  Proofs.C07NQ.next_nt_done T urlOk e started inp h

/-- (1) A document the N-Triples decoder accepts is accepted by the N-Quads decoder (same tables)
    with exactly the same statements. -/
theorem nt_sub_nq (T : Tables) (urlOk : List Nat → Bool) (e : End) (inp : List Nat)
    (qs : List (Quad (List Nat))) (h : run T urlOk e false inp = (qs, .clean)) :
    run T urlOk e true inp = (qs, .clean) :=
  Proofs.C07NQ.nt_sub_nq T urlOk e inp qs h

/-- (2) Every statement the N-Triples decoder yields (also before an error) is in the default graph. -/
theorem nt_statements_default_graph (T : Tables) (urlOk : List Nat → Bool) (e : End) (inp : List Nat) :
    ∀ q ∈ (run T urlOk e false inp).1, q.g = none :=
  Proofs.C07NQ.nt_statements_default_graph T urlOk e inp

/-- The decoder model reads only `hexDec`, `pnCharsU`, `pnChars`, `space`. -/
theorem run_congr (T T' : Tables) (h : DecoderTablesEqual T T') (urlOk : List Nat → Bool) (e : End)
    (quads : Bool) (inp : List Nat) : run T urlOk e quads inp = run T' urlOk e quads inp :=
  Proofs.C07NQ.run_congr h urlOk e quads inp

/-- (3) The regenerated tables of the two packages agree on every decoder-relevant field … -/
theorem gen_decoder_tables_equal : DecoderTablesEqual Gen.ntriples Gen.nquads :=
  ⟨by decide, by decide, by decide, by decide⟩

/-- … and on the IRI escape table (both option values). -/
theorem gen_iriEsc_equal : ∀ a, Gen.ntriples.iriEsc a = Gen.nquads.iriEsc a := by
  intro a; cases a <;> decide

/-- (3) in one statement: what is equal between `Gen.ntriples` and `Gen.nquads`. -/
theorem gen_tables_equal :
    DecoderTablesEqual Gen.ntriples Gen.nquads ∧ (∀ a, Gen.ntriples.iriEsc a = Gen.nquads.iriEsc a) :=
  ⟨gen_decoder_tables_equal, gen_iriEsc_equal⟩

/-- Informational (encoder-only tables, not used by any theorem here): on this run the literal
    escape tables of the two writers differ — only the N-Quads writer produces canonical escapes. -/
theorem gen_writer_tables_differ :
    (∀ a, Gen.ntriples.litEsc a ≠ Gen.nquads.litEsc a) ∧ Gen.ntriples.echar ≠ Gen.nquads.echar :=
  ⟨by intro a; cases a <;> decide, by decide⟩

/-- (1) for the two real packages: what `encoding/ntriples` accepts, `encoding/nquads` accepts with
    the same statements. -/
theorem nt_sub_nq_real (urlOk : List Nat → Bool) (e : End) (inp : List Nat)
    (qs : List (Quad (List Nat))) (h : run Gen.ntriples urlOk e false inp = (qs, .clean)) :
    run Gen.nquads urlOk e true inp = (qs, .clean) :=
  Proofs.C07NQ.nt_sub_nq_tables gen_decoder_tables_equal urlOk e inp qs h

end RdfModel.C07NQ
