/-
  Definitions for C07 (N-Triples ⊆ N-Quads), in a file of their own so the proofs can mention them.
-/
import RdfModel.Model.NQuads
namespace RdfModel.C07NQ
open RdfModel RdfModel.NQ

/-- Two table sets agree on everything the *decoder* model reads (`iriEsc`, `litEsc`, `echar` are
    only read by the encoder model). -/
structure DecoderTablesEqual (T T' : Tables) : Prop where
  hexDec : T.hexDec = T'.hexDec
  pnCharsU : T.pnCharsU = T'.pnCharsU
  pnChars : T.pnChars = T'.pnChars
  space : T.space = T'.space

end RdfModel.C07NQ
