/-
  Driver handler for the Turtle/TriG token layer (component `ttl`).
    ttl.tok <kind> <pkg:turtle|trig> <end:eof|io> <bytes>  →  ok <value>[,<value>] <rest> | err:<class> | panic
    ttl.fmt iri|lit <ascii:0|1> <bytes>                    →  <bytes>
    ttl.fmt local <bytes>                                  →  some <bytes> | none
    ttl.fmt bare <bytes>                                   →  some <datatype bytes> | none
    ttl.bool <end> <bytes>                                 →  bool:true | bool:false | nobool
    ttl.print iriref <choices> <value> | string <style 0-3> <choices> <value>
            | pname <choices> <prefix> <local> | numeric - <value>   →  <bytes> | unprintable
      choices: one letter per rune, r raw, e ECHAR / PN_LOCAL_ESC, u \\uXXXX, l \\uxxxx, U \\UXXXXXXXX, L \\Uxxxxxxxx; `-` = none
-/
import RdfModel.Driver.Wire
import RdfModel.Model.TurtleTokens
import RdfModel.Gen.TtlTables
import RdfModel.Spec.TurtlePrinter
namespace RdfModel.Driver.Ttl
open RdfModel RdfModel.Wire RdfModel.Ttl

def tablesOf (pkg : String) : Option Tables :=
  if pkg = "turtle" then some Gen.turtle
  else if pkg = "trig" then some Gen.trig
  else none

def showClass : EClass → String
  | .eof => "eof" | .io => "io" | .syntax => "syntax" | .url => "url"

def endOf (e : String) : Option End :=
  if e = "eof" then some NQ.End.eof else if e = "io" then some NQ.End.ioerr else none

def showRes {α : Type} (f : α → String) : Res α → String
  | .ok v rest => "ok " ++ f v ++ " " ++ tokOfRunes rest
  | .err c => "err:" ++ showClass c
  | .panic => "panic"

def showKind : NumKind → String
  | .integer => "INTEGER" | .decimal => "DECIMAL" | .double => "DOUBLE"

def choices (s : String) : List Spec.TtlPrint.Choice :=
  s.toList.filterMap (fun c =>
    if c = 'r' then some .raw else if c = 'e' then some .echar
    else if c = 'u' then some (.u4 false) else if c = 'l' then some (.u4 true)
    else if c = 'U' then some (.u8 false) else if c = 'L' then some (.u8 true) else none)

def handle (op : String) (args : List String) : Option String :=
  match op, args with
  | "tok", [kind, pkg, e, inp] => do
    let T ← tablesOf pkg
    let e ← endOf e
    let rs ← runesTok inp
    if kind = "iriref" then pure (showRes tokOfRunes (produceIRIREF T e rs))
    else if kind = "string" then pure (showRes tokOfRunes (produceString T e rs))
    else if kind = "pname_ns" then pure (showRes tokOfRunes (producePNAME_NS T e rs))
    else if kind = "pname" then
      pure (showRes (fun (p : List Nat × List Nat) => tokOfRunes p.1 ++ "," ++ tokOfRunes p.2) (producePrefixedName T e rs))
    else if kind = "bnode" then pure (showRes tokOfRunes (produceBlankNode T e rs))
    else if kind = "langtag" then pure (showRes tokOfRunes (produceLANGTAG e rs))
    else if kind = "numeric" then
      pure (showRes (fun (p : NumKind × List Nat) => showKind p.1 ++ "," ++ tokOfRunes p.2) (produceNumericLiteral e rs))
    else none
  | "fmt", ["iri", ascii, inp] => do
    let rs ← runesTok inp
    pure (tokOfRunes (formatIRI Gen.turtle (ascii = "1") rs))
  | "fmt", ["lit", ascii, inp] => do
    let rs ← runesTok inp
    pure (tokOfRunes (formatLiteralLexicalForm Gen.turtle (ascii = "1") rs))
  | "fmt", ["local", inp] => do
    let rs ← runesTok inp
    match format_PN_LOCAL Gen.turtle rs with
    | some o => pure ("some " ++ tokOfRunes o)
    | none => pure "none"
  | "fmt", ["bare", inp] => do
    let rs ← runesTok inp
    match bareLiteralDatatype rs with
    | some o => pure ("some " ++ tokOfRunes o)
    | none => pure "none"
  | "bool", [e, inp] => do
    let e ← endOf e
    let rs ← runesTok inp
    match scanBoolean e rs with
    | .bool true _ => pure "bool:true"
    | .bool false _ => pure "bool:false"
    | _ => pure "nobool"
  | "print", ["iriref", chs, v] => do
    let v ← runesTok v
    pure (tokOfRunes (Spec.TtlPrint.printIRIREF (choices chs) v))
  | "print", ["string", st, chs, v] => do
    let v ← runesTok v
    let st ← (if st = "0" then some Spec.TtlPrint.Style.dq else if st = "1" then some .sq
              else if st = "2" then some .ldq else if st = "3" then some .lsq else none)
    pure (tokOfRunes (Spec.TtlPrint.printString st (choices chs) v))
  | "print", ["pname", chs, pfx, loc] => do
    let pfx ← runesTok pfx
    let loc ← runesTok loc
    match Spec.TtlPrint.printPrefixedName Gen.turtle (choices chs) pfx loc with
    | some o => pure (tokOfRunes o)
    | none => pure "unprintable"
  | "print", ["numeric", _, v] => do
    let v ← runesTok v
    match bareLiteralDatatype v with
    | some dt => pure (if dt = xsdBoolean then "unprintable" else tokOfRunes v)
    | none => pure "unprintable"
  | _, _ => none

end RdfModel.Driver.Ttl
