/-
  C08, document level — the token theorems of `Props/C08Tokens.lean` restated against the printer of
  `Spec/TurtleAbstract.lean`: "what follows the token does not clash with it" (`TA.clash … = false`)
  is the stop condition of every producer, including a `.` glued to a name, a label or a number
  (trailing-dot hand-back); and the layout lemmas (`after`, `afterKw`: skipped by `skipWs`, never
  clashing).
-/
import RdfModel.Props.C08Tokens
import RdfModel.Props.C08DocDefs
import RdfModel.Proofs.TtlDocInv
set_option linter.unusedSimpArgs false
namespace RdfModel.C08
open RdfModel RdfModel.TA RdfModel.C02 RdfModel.Ttl RdfModel.Spec.TtlPrint RdfModel.Proofs.C08Tok

/-! ### table facts in usable form -/

theorem isDigit_delim {d : Nat} (h : d ∈ delims) : isDigit d = false := by
  simp only [delims, List.mem_cons, List.not_mem_nil, or_false] at h
  rcases h with h | h | h | h | h | h | h | h | h | h | h | h | h | h | h | h | h | h | h | h | h | h | h | h <;>
    subst h <;> decide

theorem isAlpha_delim {d : Nat} (h : d ∈ delims) : isAlpha d = false := by
  simp only [delims, List.mem_cons, List.not_mem_nil, or_false] at h
  rcases h with h | h | h | h | h | h | h | h | h | h | h | h | h | h | h | h | h | h | h | h | h | h | h | h <;>
    subst h <;> decide

section facts
variable {T : Tables} (hT2 : TablesOK2 T)
include hT2

theorem pn_delim {d : Nat} (h : d ∈ delims) : inRanges T.pnChars d = false := hT2.delim d h

theorem pnU_delim {d : Nat} (h : d ∈ delims) : inRanges T.pnCharsU d = false :=
  Bool.eq_false_iff.2 (fun hh => by
    have := hT2.u_sub d hh
    rw [hT2.delim d h] at this
    exact Bool.noConfusion this)

theorem pnB_delim {d : Nat} (h : d ∈ delims) : inRanges T.pnCharsBase d = false :=
  Bool.eq_false_iff.2 (fun hh => by
    have := hT2.base_sub d hh
    rw [pnU_delim hT2 h] at this
    exact Bool.noConfusion this)

theorem pnB_pn {c : Nat} (h : inRanges T.pnCharsBase c = true) : inRanges T.pnChars c = true :=
  hT2.u_sub c (hT2.base_sub c h)

end facts

/-! ### stop conditions from `clash` -/

section toks
variable {T : Tables} (hT : TablesOK T) (hT2 : TablesOK2 T)

theorem nameCont_false {c : Nat} (h : nameCont T c = false) :
    inRanges T.pnChars c = false ∧ inRanges T.pnCharsU c = false ∧ isDigit c = false ∧
      c ≠ 0x2e ∧ c ≠ 0x3a ∧ c ≠ 0x25 ∧ c ≠ 0x5c := by
  simp only [nameCont, Bool.or_eq_false_iff, decide_eq_false_iff_not] at h
  obtain ⟨⟨⟨⟨⟨⟨a, b⟩, c'⟩, d⟩, e'⟩, f⟩, g⟩ := h
  exact ⟨a, b, c', d, e', f, g⟩

theorem localStop_of_clash {A : List Nat} (h : clash T .name A = false) (hd : ∀ r, A ≠ 0x2e :: r) :
    LocalStop T .eof A := by
  cases A with
  | nil => rfl
  | cons c r =>
    have hc : c ≠ 0x2e := fun hh => hd r (by rw [hh])
    simp only [clash, hc, if_false] at h
    exact nameCont_false h

include hT in
/-- generalisation of `scanLocal_print`: any continuation after which the body loop stops and
    keeps the accumulated name -/
theorem scanLocal_print_gen (e : End) (rest rest' : List Nat)
    (hbase : ∀ acc le, acc ≠ [] → (acc.head? = some 0x2e → le = true) →
      scanLocal T e .body rest acc le = .ok (goString acc.reverse) rest') (loc : List Nat) :
    ∀ (first : Bool) (chs : List Choice) (out acc : List Nat) (le : Bool),
      printLocalFrom T first chs loc = some out →
      (loc = [] → first = false ∧ acc ≠ [] ∧ (acc.head? = some 0x2e → le = true)) →
      scanLocal T e (stOf first) (out ++ rest) acc le = .ok (goString (acc.reverse ++ loc)) rest' := by
  induction loc with
  | nil =>
    intro first chs out acc le h hinv
    obtain ⟨rfl, h1, h2⟩ := hinv rfl
    simp only [printLocalFrom, Option.some.injEq] at h
    subst h
    simp only [stOf, List.nil_append, List.append_nil]
    exact hbase acc le h1 h2
  | cons c loc ih =>
    intro first chs out acc le h _
    obtain ⟨t, ht, hcase⟩ := printLocalFrom_cons T first chs c loc out h
    rcases hcase with ⟨rfl, hraw⟩ | ⟨rfl, hesc⟩ | ⟨rfl, hc, h1, h2, r, rfl, hh1, hh2⟩
    · simp only [List.cons_append]
      rw [scanLocal_raw T e first c (localRawOK_rawTest T first _ c hraw)]
      have := ih false chs.tail t (c :: acc) false ht (by
        intro hl
        subst hl
        refine ⟨rfl, by simp, ?_⟩
        intro hd
        simp only [List.head?_cons, Option.some.injEq] at hd
        exact absurd hd (localRawOK_last_ne_dot T hT first c (by simpa using hraw)))
      simp only [stOf] at this
      rw [this]
      simp
    · simp only [List.cons_append]
      rw [scanLocal_esc T hT e first c (by rw [← localEscapable_eq]; exact hesc)]
      have := ih false chs.tail t (c :: acc) true ht (by
        intro hl
        exact ⟨rfl, by simp, fun _ => rfl⟩)
      simp only [stOf] at this
      rw [this]
      simp
    · obtain ⟨t1, ht1, rfl⟩ := printLocalFrom_hex T chs.tail h1 (h2 :: r) t hh1 ht
      obtain ⟨t2, _, rfl⟩ := printLocalFrom_hex T chs.tail.tail h2 r t1 hh2 ht1
      subst hc
      simp only [List.cons_append]
      rw [scanLocal_pct_raw T hT e first h1 h2 hh1 hh2]
      have := ih false chs.tail (h1 :: h2 :: t2) (0x25 :: acc) false ht (by
        intro hl
        exact absurd hl (by simp))
      simp only [stOf, List.cons_append] at this
      rw [this]
      simp

/-- the body loop on a `.` that is followed by something that cannot continue a name: the dot is
    handed back -/
theorem scanLocal_dot_stop (r : List Nat) (hr : clash T .name (0x2e :: r) = false) (acc : List Nat) (le : Bool)
    (h1 : acc ≠ []) (h2 : acc.head? = some 0x2e → le = true) :
    scanLocal T .eof .body (0x2e :: r) acc le = .ok (goString acc.reverse) (0x2e :: r) := by
  have hstep : scanLocal T .eof .body (0x2e :: r) acc le = scanLocal T .eof .body r (0x2e :: acc) false := by
    rw [scanLocal]; simp
  rw [hstep]
  cases r with
  | nil => rw [scanLocal]; simp [localDone]
  | cons d r' =>
    simp only [clash, if_true] at hr
    obtain ⟨a, _, _, b, c', d', f⟩ := nameCont_false hr
    rw [scanLocal, a]
    simp [b, c', d', f, localDone]

include hT in
/-- Prefixed name followed by anything that does not clash with a name. -/
theorem pname_tok (chs : List Choice) (p l out A : List Nat) (hp : prefixOK T p = true) (hps : Scalars p)
    (hs : Scalars l) (h : printPrefixedName T chs p l = some out) (hA : clash T .name A = false) :
    producePrefixedName T .eof (out ++ A) = .ok (p, l) A := by
  by_cases hd : ∃ r, A = 0x2e :: r
  · obtain ⟨r, rfl⟩ := hd
    simp only [printPrefixedName, Option.map_eq_some_iff] at h
    obtain ⟨lo, hl, rfl⟩ := h
    unfold producePrefixedName
    rw [List.append_assoc, List.cons_append, Proofs.C02Tok.pnameNs_ok T .eof p _ hp hps]
    simp only
    unfold printLocal at hl
    cases l with
    | nil =>
      simp only [printLocalFrom, Option.some.injEq] at hl
      subst hl
      simp only [List.nil_append]
      rw [scanLocal]
      simp [hT.pnU_dot, isDigit, NQ.isDigit]
    | cons c l =>
      have := scanLocal_print_gen hT .eof (0x2e :: r) (0x2e :: r) (scanLocal_dot_stop r hA) (c :: l) true chs lo [] false hl
        (fun hl => absurd hl (by simp))
      simp only [stOf] at this
      rw [this]
      simp [goString_id_of_scalar hs]
  · exact decode_print_pname T hT .eof chs p l out A hp hps hs h
      (localStop_of_clash hA (fun r hr => hd ⟨r, hr⟩))

include hT in
/-- Blank node label followed by anything that does not clash with a label. -/
theorem bnode_tok (l A : List Nat) (hs : Scalars l) (hl : labelOK T l = true) (hA : clash T .label A = false) :
    produceBlankNode T .eof (0x5f :: 0x3a :: l ++ A) = .ok l A := by
  by_cases hd : ∃ r, A = 0x2e :: r
  · obtain ⟨r, rfl⟩ := hd
    have hstop : LabelStop T .eof r := by
      cases r with
      | nil => rfl
      | cons d r' =>
        simp only [clash, if_true, Bool.or_eq_false_iff, decide_eq_false_iff_not] at hA
        exact hA
    have hg : goString l = l := goString_id_of_scalar hs
    cases l with
    | nil => simp [labelOK] at hl
    | cons c xs =>
      simp only [labelOK, Bool.and_eq_true, List.all_eq_true] at hl
      obtain ⟨⟨h1, h2⟩, h3⟩ := hl
      have hc : c ≠ 0x2e := by
        intro hh; subst hh
        rw [hT.pnU_dot] at h1
        simp [isDigit, NQ.isDigit] at h1
      simp only [List.cons_append]
      simp only [produceBlankNode, ne_eq, not_true_eq_false, if_false]
      rw [if_pos h1]
      have hxs : xs ++ 0x2e :: r = (xs ++ [0x2e]) ++ r := by simp
      rw [hxs, Proofs.C02Tok.bnLoop_ok T .eof r hstop (xs ++ [0x2e]) [c] (by
        intro x hx
        rcases List.mem_append.1 hx with hx | hx
        · exact h2 x hx
        · simp at hx; subst hx; simp)]
      rcases List.eq_nil_or_concat xs with rfl | ⟨init, z, rfl⟩
      · simp [bnDone, hc]
        simpa using hg
      · have hz : inRanges T.pnChars z = true := by simpa using h3
        simp [bnDone, hz]
        simpa using hg
  · apply decode_print_bnode T hT .eof l A hs hl
    cases A with
    | nil => rfl
    | cons c r =>
      have hc : c ≠ 0x2e := fun hh => hd ⟨r, by rw [hh]⟩
      simp only [clash, hc, if_false] at hA
      exact ⟨hA, hc⟩

theorem num_tok (lex dt A : List Nat) (h : bareLiteralDatatype lex = some dt) (hdt : dt ≠ xsdBoolean)
    (hA : clash T .num A = false) :
    ∃ k : NumKind, k.datatype = dt ∧ produceNumericLiteral .eof (lex ++ A) = .ok (k, lex) A := by
  apply decode_print_numeric .eof lex dt A h hdt
  cases A with
  | nil => rfl
  | cons c r =>
    simp only [NumStop]
    by_cases hc : c = 0x2e
    · right
      refine ⟨hc, ?_⟩
      simp only [clash, hc, if_true] at hA
      cases r with
      | nil => trivial
      | cons d r' =>
        simp only [numCont, Bool.or_eq_false_iff, decide_eq_false_iff_not] at hA
        simp [hA.1.1, hA.1.2, hA.2]
    · left
      simp only [clash, hc, if_false, numCont, Bool.or_eq_false_iff, decide_eq_false_iff_not] at hA
      simp [numStopRune, hA.1.1, hA.1.2, hA.2, hc]

theorem lang_tok (t A : List Nat) (h : langOK t = true) (hA : clash T .lang A = false) :
    produceLANGTAG .eof (0x40 :: t ++ A) = .ok t A := by
  apply decode_print_langtag .eof t A h
  cases A with
  | nil => rfl
  | cons c r =>
    simp only [clash, Bool.or_eq_false_iff, decide_eq_false_iff_not] at hA
    exact ⟨hA.1.1, hA.1.2, hA.2⟩

include hT in
theorem str_tok (st : Style) (chs : List Choice) (s A : List Nat) (hs : Scalars s)
    (hA : clash T (strKind st s) A = false) :
    produceString T .eof (printString st chs s ++ A) = .ok s A := by
  apply decode_print_string T hT .eof st chs s hs A
  unfold StrStop
  by_cases h1 : st.long = true
  · exact Or.inl h1
  · by_cases h2 : s = []
    · right; right
      subst h2
      cases A with
      | nil => rfl
      | cons c r =>
        simp only [strKind, List.isEmpty_nil, h1, Bool.not_false, Bool.and_self, if_true, clash,
          decide_eq_false_iff_not] at hA
        exact hA
    · exact Or.inr (Or.inl h2)

end toks

/-! ### layout -/

section layout
variable {T : Tables} (hT : TablesOK T) (hT2 : TablesOK2 T) {C : TtlDoc.Cfg} (hC : CfgOK T C)
open TtlDoc

/-- first rune of a rendered layout: white space or `#` -/
def layHead (c : Nat) : Bool := isWsRune c || c = 0x23

theorem wsRune_ws (c : Nat) : isWsRune (wsRune c) = true := by
  unfold wsRune
  split <;> decide

theorem renderItem_head (b : Bool) (it : LItem) : ∃ h t, renderItem b it = h :: t ∧ layHead h = true := by
  cases it with
  | ws c => exact ⟨wsRune c, [], rfl, by simp [layHead, wsRune_ws]⟩
  | comment t eol => exact ⟨0x23, _, rfl, by decide⟩

theorem renderLay_head (b : Bool) (lay : List LItem) :
    renderLay b lay = [] ∨ ∃ h t, renderLay b lay = h :: t ∧ layHead h = true := by
  cases lay with
  | nil => exact Or.inl rfl
  | cons it rest =>
    right
    cases rest with
    | nil => exact renderItem_head b it
    | cons it' rest' =>
      obtain ⟨h, t, ht, hh⟩ := renderItem_head false it
      exact ⟨h, t ++ renderLay b (it' :: rest'), by simp [renderLay, ht], hh⟩

include hT2 in
/-- nothing clashes with a layout character -/
theorem clash_layHead (k : Prev) {h : Nat} (t : List Nat) (hh : layHead h = true) : clash T k (h :: t) = false := by
  have hm : h ∈ delims := by
    simp only [layHead, isWsRune, Bool.or_eq_true, decide_eq_true_eq] at hh
    rcases hh with (((hh | hh) | hh) | hh) | hh <;> subst hh <;> decide
  have hne : h ≠ 0x2e ∧ h ≠ 0x3a ∧ h ≠ 0x25 ∧ h ≠ 0x5c ∧ h ≠ 0x2d ∧ h ≠ 0x65 ∧ h ≠ 0x45 ∧ h ≠ 0x22 ∧ h ≠ 0x27 := by
    simp only [layHead, isWsRune, Bool.or_eq_true, decide_eq_true_eq] at hh
    rcases hh with (((hh | hh) | hh) | hh) | hh <;> subst hh <;> decide
  obtain ⟨n1, n2, n3, n4, n5, n6, n7, n8, n9⟩ := hne
  cases k with
  | punct => rfl
  | name => simp [clash, n1, nameCont, pn_delim hT2 hm, pnU_delim hT2 hm, isDigit_delim hm, n2, n3, n4]
  | label => simp [clash, n1, pn_delim hT2 hm]
  | num => simp [clash, n1, numCont, isDigit_delim hm, n6, n7]
  | lang => simp [clash, isAlpha_delim hm, isDigit_delim hm, n5]
  | emptyStr st => cases st <;> simp [clash, Style.delim, n8, n9]

include hT2 in
theorem after_noclash (k : Prev) (s : Slot) (rest : List Nat) : clash T k (after T k s rest) = false := by
  unfold after
  split
  · exact clash_layHead hT2 k rest (by decide)
  · next hc =>
    rcases renderLay_head rest.isEmpty s.lay with h0 | ⟨h, t, ht, hh⟩
    · rw [h0] at hc ⊢
      simpa using hc
    · rw [ht]
      exact clash_layHead hT2 k _ hh

theorem isWs_of_wsRune {c : Nat} (h : isWsRune c = true) : isWs C c = true := by
  simp only [isWsRune, Bool.or_eq_true, decide_eq_true_eq] at h
  simp only [isWs, Bool.or_eq_true, decide_eq_true_eq]
  rcases h with ((h | h) | h) | h <;> simp [h]

include hC in
theorem skipWs_ws {c : Nat} (h : isWsRune c = true) (r : List Nat) :
    skipWs C .eof false (c :: r) = skipWs C .eof false r := by
  have hne : c ≠ 0x23 := by
    simp only [isWsRune, Bool.or_eq_true, decide_eq_true_eq] at h
    rcases h with ((h | h) | h) | h <;> subst h <;> decide
  rw [skipWs]
  simp [hne, isWs_of_wsRune h]

/-- inside a comment: text without LF / CR, then LF or CR -/
theorem skipWs_comment (t r : List Nat) (ht : ∀ c ∈ t, c ≠ 0x0a ∧ c ≠ 0x0d) (z : Nat) (hz : z = 0x0a ∨ z = 0x0d) :
    skipWs C .eof true (t ++ z :: r) = skipWs C .eof false r := by
  induction t with
  | nil => simp [skipWs, hz]
  | cons c t ih =>
    simp only [List.cons_append]
    rw [skipWs]
    have := ht c List.mem_cons_self
    rw [if_neg (by intro h; rcases h with h | h; exact this.1 h; exact this.2 h)]
    exact ih (fun x hx => ht x (List.mem_cons_of_mem _ hx))

theorem skipWs_comment_end (t : List Nat) (ht : ∀ c ∈ t, c ≠ 0x0a ∧ c ≠ 0x0d) :
    skipWs C .eof true t = .end_ := by
  induction t with
  | nil => simp [skipWs]
  | cons c t ih =>
    rw [skipWs]
    have := ht c List.mem_cons_self
    rw [if_neg (by intro h; rcases h with h | h; exact this.1 h; exact this.2 h)]
    exact ih (fun x hx => ht x (List.mem_cons_of_mem _ hx))

theorem commentText_noEol (t : List Nat) : ∀ c ∈ commentText t, c ≠ 0x0a ∧ c ≠ 0x0d := by
  intro c hc
  simp only [commentText, List.mem_filter, Bool.and_eq_true, bne_iff_ne] at hc
  exact hc.2

include hC in
theorem renderItem_skip (b : Bool) (it : LItem) (r : List Nat) (hb : b = true → r = []) :
    skipWs C .eof false (renderItem b it ++ r) = skipWs C .eof false r := by
  cases it with
  | ws c => exact skipWs_ws hC (wsRune_ws c) r
  | comment t eol =>
    simp only [renderItem, List.cons_append]
    rw [skipWs]
    simp only [if_true]
    have hno := commentText_noEol t
    have lf : skipWs C .eof true (commentText t ++ 0x0a :: r) = skipWs C .eof false r :=
      skipWs_comment _ _ hno 0x0a (Or.inl rfl)
    match eol with
    | 0 => simpa [eolText] using lf
    | 1 =>
      have := skipWs_comment (C := C) (commentText t) (0x0a :: r) hno 0x0d (Or.inr rfl)
      simp only [eolText, List.append_assoc, List.cons_append, List.nil_append]
      rw [this]
      exact skipWs_ws hC (by decide) r
    | 2 =>
      have := skipWs_comment (C := C) (commentText t) r hno 0x0d (Or.inr rfl)
      simpa [eolText] using this
    | 3 =>
      cases b with
      | false => simpa [eolText] using lf
      | true =>
        have hr := hb rfl
        subst hr
        simp only [eolText, if_true, List.append_nil]
        rw [skipWs_comment_end _ hno]
        simp [skipWs]
    | n + 4 => simpa [eolText] using lf

include hC in
theorem renderLay_skip (lay : List LItem) (r : List Nat) :
    skipWs C .eof false (renderLay r.isEmpty lay ++ r) = skipWs C .eof false r := by
  induction lay with
  | nil => rfl
  | cons it rest ih =>
    cases rest with
    | nil =>
      simp only [renderLay]
      exact renderItem_skip hC _ it r (by intro h; simpa using h)
    | cons it' rest' =>
      simp only [renderLay, List.append_assoc]
      rw [renderItem_skip hC false it _ (by intro h; cases h)]
      exact ih

include hC in
/-- same, with `atEnd = false` (layout between repeated semicolons) -/
theorem renderLay_skip_false (lay : List LItem) (r : List Nat) :
    skipWs C .eof false (renderLay false lay ++ r) = skipWs C .eof false r := by
  induction lay with
  | nil => rfl
  | cons it rest ih =>
    cases rest with
    | nil =>
      simp only [renderLay]
      exact renderItem_skip hC _ it r (by intro h; cases h)
    | cons it' rest' =>
      simp only [renderLay, List.append_assoc]
      rw [renderItem_skip hC false it _ (by intro h; cases h)]
      exact ih

include hC in
theorem after_skip (k : Prev) (s : Slot) (hs : slotOK s = true) (rest : List Nat) :
    skipWs C .eof false (after T k s rest) = skipWs C .eof false rest := by
  unfold after
  split
  · exact skipWs_ws hC (by decide) rest
  · exact renderLay_skip hC s.lay rest

include hC in
/-- a keyword's layout (slot without `glue`): a white-space character, then skippable text; `lt`
    (after `BASE`) also allows nothing at all -/
theorem afterKw_form (lt : Bool) (s : Slot) (hs : slotOK s = true) (rest : List Nat) :
    (∃ w tl, afterKw T lt s rest = w :: tl ∧ isWsRune w = true ∧
        skipWs C .eof false tl = skipWs C .eof false rest) ∨
    (lt = true ∧ afterKw T lt s rest = rest) := by
  have hs' := hs
  simp only [slotOK, Bool.not_eq_true'] at hs
  unfold afterKw
  rw [if_neg (by simp [hs])]
  have hsk := renderLay_skip hC s.lay rest
  cases hl : renderLay rest.isEmpty s.lay with
  | nil =>
    simp only
    cases lt with
    | true => exact Or.inr ⟨rfl, by simp⟩
    | false => exact Or.inl ⟨0x20, rest, by simp, by decide, rfl⟩
  | cons c l =>
    simp only
    rw [hl] at hsk
    left
    by_cases hw : isWsRune c = true
    · refine ⟨c, l ++ rest, by simp [hw], hw, ?_⟩
      rw [← hsk, List.cons_append, skipWs_ws hC hw]
    · exact ⟨0x20, c :: l ++ rest, by simp [hw], by decide, by simpa using hsk⟩

end layout

end RdfModel.C08
