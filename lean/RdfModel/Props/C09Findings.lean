/-
  Property C09 — what the grammar says on the witnesses of the five defects found in
  encoding/rdfxml/decoder.go (the decoder is not modelled, so these are facts about the specification;
  the behaviour of the Go code on the same documents is replayed by go/cmd/c09 and quoted in the
  known-findings entries / commit messages of patches rx-1 … rx-5).  Document base
  http://base.example/dir/doc, RFC 3986 resolution.
-/
import RdfModel.Props.C09
namespace RdfModel.C09.Findings
open RdfModel RdfModel.Desc RdfModel.RX RdfModel.C09.Witness

def rs := Spec.RFC3986.resolve
def env : Env := ⟨s "http://base.example/dir/doc", none⟩
def subjS : Term BN := .iri (s "http://a/s")
def p : Str := ex ++ s "p"
def q : Str := ex ++ s "q"
def desc (attrs : List Attr) (kids : List Node) : Node := .elem rdfNS n_Description attrs kids
def about : Attr := ⟨rdfNS, n_about, s "http://a/s"⟩
def el (name : String) (attrs : List Attr) (kids : List Node) : Node := .elem ex (s name) attrs kids
def en : Option Str := some (s "en")

/-- C09-xml-lang-empty: `xml:lang=""` removes the language, the literal is a plain `xsd:string`
    (unpatched decoder: datatype rdf:langString with an empty tag).
    `<rdf:Description rdf:about="http://a/s" xml:lang="en"><ex:p xml:lang="">v</ex:p></rdf:Description>` -/
theorem xml_lang_empty :
    denoteDoc rs env (desc [about, ⟨xmlNS, n_lang, s "en"⟩] [el "p" [⟨xmlNS, n_lang, []⟩] [.text (s "v")]])
      = .ok [⟨subjS, p, .lit (s "v") xsdString none⟩] := by rfl

/-- C09-empty-literal-language: an attribute-less empty property element is the empty literal with the
    language in scope (unpatched decoder: plain `""`).
    `<rdf:Description rdf:about="http://a/s" xml:lang="en"><ex:p/></rdf:Description>` -/
theorem empty_literal_language :
    denoteDoc rs env (desc [about, ⟨xmlNS, n_lang, s "en"⟩] [el "p" [] []])
      = .ok [⟨subjS, p, .lit [] rdfLangString en⟩] := by rfl

/-- C09-property-element-scope: `xml:lang` (and `xml:base`) of a property element are in scope for the node
    element it contains (unpatched decoder: `"v"` without tag, `<http://base.example/dir/rel>`).
    `<ex:p xml:lang="en"><rdf:Description ex:q="v"/></ex:p>`,
    `<ex:p xml:base="http://other/x/"><rdf:Description rdf:about="rel"/></ex:p>` -/
theorem property_element_scope_lang :
    denoteDoc rs env (desc [about] [el "p" [⟨xmlNS, n_lang, s "en"⟩] [desc [⟨ex, s "q", s "v"⟩] []]])
      = .ok [⟨subjS, p, .bnode (.gen 0)⟩, ⟨.bnode (.gen 0), q, .lit (s "v") rdfLangString en⟩] := by rfl

theorem property_element_scope_base :
    denoteDoc rs env (desc [about] [el "p" [⟨xmlNS, n_base, s "http://other/x/"⟩]
        [desc [⟨rdfNS, n_about, s "rel"⟩] []]])
      = .ok [⟨subjS, p, .iri (s "http://other/x/rel")⟩] := by rfl

/-- C09-rdf-ns-property-attr: `rdf:type` and the other RDF-namespace names that are propertyAttributeURIs
    are property attributes of an empty property element (unpatched decoder: "attribute not allowed").
    `<ex:p rdf:type="http://a/T"/>`, `<ex:p rdf:value="v"/>` -/
theorem rdf_ns_property_attr_type :
    denoteDoc rs env (desc [about] [el "p" [⟨rdfNS, n_type, s "http://a/T"⟩] []])
      = .ok [⟨subjS, p, .bnode (.gen 0)⟩, ⟨.bnode (.gen 0), rdfType, .iri (s "http://a/T")⟩] := by rfl

theorem rdf_ns_property_attr_value :
    denoteDoc rs env (desc [about] [el "p" [⟨rdfNS, s "value", s "v"⟩] []])
      = .ok [⟨subjS, p, .bnode (.gen 0)⟩, ⟨.bnode (.gen 0), rdfNS ++ s "value", .lit (s "v") xsdString none⟩] := by
  rfl

/-- C09-property-attr-predicate: the predicate of a property attribute is namespace name + local name as
    written (unpatched decoder, on empty property elements only: `http://%C3%A9.example/ns/q`).
    `<ex:p rdf:resource="http://a/o" n:q="v"/>` with `xmlns:n="http://é.example/ns/"` -/
theorem property_attr_predicate :
    denoteDoc rs env (desc [about] [el "p" [⟨rdfNS, n_resource, s "http://a/o"⟩, ⟨s "http://é.example/ns/", s "q", s "v"⟩] []])
      = .ok [⟨subjS, p, .iri (s "http://a/o")⟩,
             ⟨.iri (s "http://a/o"), s "http://é.example/ns/q", .lit (s "v") xsdString none⟩] := by rfl

end RdfModel.C09.Findings
