/-
  Definitions used by the RDF/JSON theorems (Props/C01RJ.lean): well-formedness of the encoder's
  input (hypothesis of the round trip), well-formedness of emitted statements (C06), the
  "iteration has ended" predicate (C05).
-/
import RdfModel.Model.RdfJson
namespace RdfModel.C01RJ
open RdfModel RdfModel.RJ

variable {β : Type}

/-! ## Input of the encoder (round-trip hypothesis) -/

/-- Subject: a blank node, or an IRI that does not start with `_:` (RDF/JSON writes blank nodes as
    `_:label` keys, so such an "IRI" would be read back as a blank node). -/
def WFSubject : Term β → Prop
  | .iri v => bnPrefix? v = none
  | .bnode _ => True
  | .lit .. => False

def WFPredicate : Term β → Prop
  | .iri _ => True
  | _ => False

/-- Literal: a datatype IRI (non-empty, not rdf:dirLangString — the model has no direction), and a
    non-empty language tag exactly when the datatype is rdf:langString. -/
def WFLit (dt : List Nat) (tag : Option (List Nat)) : Prop :=
  dt ≠ [] ∧ dt ≠ rdfDirLangString ∧
  (match tag with
    | some l => dt = rdfLangString ∧ l ≠ []
    | none => dt ≠ rdfLangString)

/-- Object: IRI (any string), blank node, or well-formed literal (any lexical form). -/
def WFObject : Term β → Prop
  | .lit _ dt tag => WFLit dt tag
  | _ => True

structure WFTriple (t : Triple β) : Prop where
  s : WFSubject t.s
  p : WFPredicate t.p
  o : WFObject t.o

/-- What the decoder turns a label into. -/
def relabel (label : β → List Nat) (t : Triple β) : Triple BNode :=
  t.map (fun b => BNode.named (label b))

/-! ## Output of the decoder (C06) -/

/-- A blank node carries an identity: a non-empty label, or it is a fresh anonymous node. -/
def BNodeOK : BNode → Prop
  | .named l => l ≠ []
  | .anon _ => True

def NodeOK : Term BNode → Prop
  | .iri _ => True
  | .bnode b => BNodeOK b
  | .lit .. => False

/-- `dir = true` adds the clause about rdf:dirLangString (the model's literals carry no direction,
    so such a literal can never be well-formed). -/
def LitOK (dir : Bool) (dt : List Nat) (tag : Option (List Nat)) : Prop :=
  dt ≠ [] ∧ (dir = true → dt ≠ rdfDirLangString) ∧
  (match tag with
    | some l => dt = rdfLangString ∧ l ≠ []
    | none => dt ≠ rdfLangString)

def ObjectOK (dir : Bool) : Term BNode → Prop
  | .lit _ dt tag => LitOK dir dt tag
  | t => NodeOK t

def PredOK : Term BNode → Prop
  | .iri _ => True
  | _ => False

/-- C06 for one statement: subject IRI/blank node, predicate IRI, object IRI/blank node/literal
    with a datatype, a non-empty language tag exactly for rdf:langString. -/
structure WFOut (dir : Bool) (t : Triple BNode) : Prop where
  s : NodeOK t.s
  p : PredOK t.p
  o : ObjectOK dir t.o

/-! ## End of the iteration (C05) -/

/-- `k` further calls of `Next()` all return false and leave `Err()` unchanged. -/
def StaysEnded (v : Variant) (toks : List Tok) (e : TEnd) : Dec → Nat → Prop
  | _, 0 => True
  | d, k + 1 => ∃ d', next v toks e d = .ret d' false ∧ d'.err = d.err ∧ StaysEnded v toks e d' k

/-- What a caller sees of `d.statements`: everything after a clean parse; after an error only the
    first statement (the first `Next()` still returns true, the second one sees `d.err`). -/
def yieldedOf (ss : List (Triple BNode)) : Verdict → List (Triple BNode)
  | .clean => ss
  | .error _ => ss.take 1

end RdfModel.C01RJ
