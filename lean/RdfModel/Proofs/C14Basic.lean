/-
  C14 helper lemmas, part 1: identifier equality, association lists, formatting, `fresh`.
-/
import RdfModel.Props.C14Defs
namespace RdfModel.Proofs.C14
open RdfModel.BN RdfModel.C14

/-! ### identifier equality -/

theorem equals_iff (a b : Ident) : a.equals b = true ↔ a = b := by
  cases a <;> cases b <;> simp [Ident.equals]
  · constructor <;> rintro ⟨h1, h2⟩ <;> exact ⟨h1.symm, h2.symm⟩
  · exact eq_comm
  · constructor <;> rintro ⟨h1, h2⟩ <;> exact ⟨h1.symm, h2.symm⟩

theorem equals_false_iff (a b : Ident) : a.equals b = false ↔ a ≠ b := by
  have := equals_iff a b
  cases h : a.equals b
  · simp [h] at this; simp [this]
  · simp [h] at this; simp [this]

theorem termEquals_some (a b : Ident) : termEquals (some a) (some b) = true ↔ a = b := by
  simp [termEquals, equals_iff]

theorem termEquals_true_iff (x y : Node) : termEquals x y = true ↔ ∃ a, x = some a ∧ y = some a := by
  cases x <;> cases y <;> simp [termEquals, equals_iff]
  exact eq_comm

theorem termEquals_comm (x y : Node) : termEquals x y = termEquals y x := by
  cases hx : termEquals x y <;> cases hy : termEquals y x <;> try rfl
  · rw [termEquals_true_iff] at hy; obtain ⟨a, h1, h2⟩ := hy; subst h1 h2
    have := (termEquals_some a a).mpr rfl; rw [this] at hx; cases hx
  · rw [termEquals_true_iff] at hx; obtain ⟨a, h1, h2⟩ := hx; subst h1 h2
    have := (termEquals_some a a).mpr rfl; rw [this] at hy; cases hy

theorem termEquals_false_of_ne (a : Ident) (y : Node) (h : y ≠ some a) : termEquals y (some a) = false := by
  cases hy : termEquals y (some a)
  · rfl
  · rw [termEquals_true_iff] at hy; obtain ⟨b, h1, h2⟩ := hy
    simp at h2; subst h2; exact absurd h1 h

/-! ### association lists -/

theorem assoc_mem {α β : Type} [DecidableEq α] {k : α} {v : β} {l : List (α × β)} (h : assoc k l = some v) :
    (k, v) ∈ l := by
  induction l with
  | nil => simp [assoc] at h
  | cons e rest ih =>
    obtain ⟨k', v'⟩ := e
    simp only [assoc] at h
    split at h
    · rename_i hk; subst hk; simp at h; subst h; simp
    · simp [ih h]

theorem assoc_cons_of_none {α β : Type} [DecidableEq α] {n k : α} {x v : β} {l : List (α × β)}
    (hn : assoc n l = none) (h : assoc k l = some v) : assoc k ((n, x) :: l) = some v := by
  simp only [assoc]
  split
  · rename_i hk; subst hk; rw [hn] at h; cases h
  · exact h

theorem assoc_cons_self {α β : Type} [DecidableEq α] {n : α} {x : β} {l : List (α × β)} :
    assoc n ((n, x) :: l) = some x := by simp [assoc]

theorem assoc_cons_ne {α β : Type} [DecidableEq α] {n k : α} {x : β} {l : List (α × β)} (h : n ≠ k) :
    assoc k ((n, x) :: l) = assoc k l := by simp [assoc, h]

/-! ### formatting -/

theorem decimal_inj {a b : Nat} (h : decimal a = decimal b) : a = b := by
  unfold decimal at h
  have h' : Nat.toDigits 10 a = Nat.toDigits 10 b :=
    (List.map_inj_right (fun x y hxy => Char.toNat_inj.mp hxy)).mp h
  have := congrArg (fun l => Nat.ofDigitChars 10 l 0) h'
  simpa [Nat.ofDigitChars_ten_toDigits] using this

theorem sprintf1_inj {fmt : Bytes} {verbs : List Nat} {x y l : Bytes}
    (hx : sprintf1 fmt verbs x = .label l) (hy : sprintf1 fmt verbs y = .label l) : x = y := by
  unfold sprintf1 at hx hy
  split at hx
  · rename_i pre suf hs
    rw [hs] at hy
    simp at hx hy
    rw [← hy] at hx
    have := List.append_cancel_left hx
    exact List.append_cancel_right this
  · cases hx

theorem driverU_inj : Function.Injective driverU := by
  intro a b h
  unfold driverU at h
  rw [List.append_assoc, List.append_assoc] at h
  exact decimal_inj (List.append_cancel_right (List.append_cancel_left h))

/-! ### `fresh` -/

theorem fresh_spec {s s' : State} {f : FactoryRef} {id : Ident} (h : fresh s f = some (s', id)) :
    s'.strfs = s.strfs ∧ s'.int64s = s.int64s ∧ s'.uuids = s.uuids ∧ s'.mappers = s.mappers ∧
    s'.uuidPos = s.uuidPos ∧ s'.bnfs.length = s.bnfs.length ∧ s.dfltCtr ≤ s'.dfltCtr ∧
    (∀ (g c : Nat), s.bnfs[g]? = some c → ∃ c', s'.bnfs[g]? = some c' ∧ c ≤ c') ∧
    ¬ Issued s id ∧ Issued s' id := by
  cases f with
  | dflt =>
    simp [fresh] at h; obtain ⟨h1, h2⟩ := h; subst h1 h2
    simp [Issued]
    intro g c hg; exact ⟨c, hg, Nat.le_refl _⟩
  | bnf i =>
    simp only [fresh] at h
    split at h
    · rename_i c hc
      simp at h; obtain ⟨h1, h2⟩ := h; subst h1 h2
      have hlt : i < s.bnfs.length := by
        have := (List.getElem?_eq_some_iff.mp hc).1; exact this
      obtain ⟨_, hval⟩ := List.getElem?_eq_some_iff.mp hc
      simp [Issued, List.getElem?_set, hlt]
      refine ⟨?_, by omega⟩
      intro g c' hg
      by_cases hig : i = g
      · subst hig; rw [hc] at hg; cases hg; simp
      · simp [hig, hg]
    · cases h
  | strf j =>
    simp only [fresh] at h
    split at h
    · rename_i a ha
      split at h
      · rename_i c hc
        simp at h; obtain ⟨h1, h2⟩ := h; subst h1 h2
        have hlt : a < s.bnfs.length := (List.getElem?_eq_some_iff.mp hc).1
        obtain ⟨_, hval⟩ := List.getElem?_eq_some_iff.mp hc
        simp [Issued, List.getElem?_set, hlt]
        refine ⟨?_, by omega⟩
        intro g c' hg
        by_cases hig : a = g
        · subst hig; rw [hc] at hg; cases hg; simp
        · simp [hig, hg]
      · cases h
    · cases h

/-! ### the pass-through provider, by cases on whether the node belongs to its scope -/

theorem pass_cases (sc : Nat) (n : Node) :
    (∃ v, n = some (.bnString sc v)) ∨ (∀ v, n ≠ some (.bnString sc v)) := by
  cases n with
  | none => right; intro v h; cases h
  | some id =>
    cases id with
    | bn f v => right; intro v h; cases h
    | bnDefault v => right; intro v h; cases h
    | bnString f v =>
      by_cases hf : f = sc
      · left; exact ⟨v, by rw [hf]⟩
      · right; intro w h; simp at h; exact hf h.1

theorem getLabel_pass_own (U : Nat → Bytes) (s : State) (sc : Nat) (fb : ProvRef) (v : Bytes) :
    getLabel U s (.pass sc fb) (some (.bnString sc v)) = (s, .label v) := by simp [getLabel]

theorem getLabel_pass_other (U : Nat → Bytes) (s : State) (sc : Nat) (fb : ProvRef) (n : Node)
    (h : ∀ v, n ≠ some (.bnString sc v)) : getLabel U s (.pass sc fb) n = getLabel U s fb n := by
  cases n with
  | none => simp [getLabel]
  | some id =>
    cases id with
    | bn f v => simp [getLabel]
    | bnDefault v => simp [getLabel]
    | bnString f v =>
      simp only [getLabel]
      rw [if_neg]
      intro hf; subst hf; exact h v rfl

theorem peek_pass_own (U : Nat → Bytes) (s : State) (sc : Nat) (fb : ProvRef) (v : Bytes) :
    peek U s (.pass sc fb) (some (.bnString sc v)) = some (.label v) := by simp [peek]

theorem peek_pass_other (U : Nat → Bytes) (s : State) (sc : Nat) (fb : ProvRef) (n : Node)
    (h : ∀ v, n ≠ some (.bnString sc v)) : peek U s (.pass sc fb) n = peek U s fb n := by
  cases n with
  | none => simp [peek]
  | some id =>
    cases id with
    | bn f v => simp [peek]
    | bnDefault v => simp [peek]
    | bnString f v =>
      simp only [peek]
      rw [if_neg]
      intro hf; subst hf; exact h v rfl

theorem getLabel_mappers (U : Nat → Bytes) (s : State) (p : ProvRef) (n : Node) :
    (getLabel U s p n).1.mappers = s.mappers := by
  induction p with
  | int64 i =>
    simp only [getLabel]
    split
    · rfl
    · split <;> rfl
  | uuid i =>
    simp only [getLabel]
    split
    · rfl
    · split <;> rfl
  | pass sc fb ih =>
    rcases pass_cases sc n with ⟨v, rfl⟩ | hno
    · rw [getLabel_pass_own]
    · rw [getLabel_pass_other U s sc fb n hno]; exact ih

end RdfModel.Proofs.C14
