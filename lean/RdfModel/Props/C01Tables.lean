/-
  Property C01 — the table facts for the tables regenerated from /repo on this run, plus
  non-vacuity witnesses for the hypotheses of the round-trip theorems.

  Every proof is `decide` on a Boolean check over the table *entries* (never over code points);
  the checkers and their soundness lemmas are in `Proofs/C01Check.lean`.
-/
import RdfModel.Props.C01Defs
import RdfModel.Gen.NQTables
import RdfModel.Proofs.C01Check
namespace RdfModel.C01
open RdfModel RdfModel.NQ

theorem gen_nquads_ok : TablesOK Gen.nquads :=
  Proofs.C01.tablesOK_of_chk _ (by decide)

theorem gen_ntriples_ok : TablesOK Gen.ntriples :=
  Proofs.C01.tablesOK_of_chk _ (by decide)

theorem gen_nquads_ascii : TablesAscii Gen.nquads :=
  Proofs.C01.tablesAscii_of_chk _ (by decide)

theorem gen_ntriples_ascii : TablesAscii Gen.ntriples :=
  Proofs.C01.tablesAscii_of_chk _ (by decide)

theorem gen_nquads_grammar : TablesGrammar Gen.nquads :=
  Proofs.C01.tablesGrammar_of_chk _ (by decide)

theorem gen_ntriples_grammar : TablesGrammar Gen.ntriples :=
  Proofs.C01.tablesGrammar_of_chk _ (by decide)

/-! ### Non-vacuity: the hypotheses of `nquads_roundtrip` are satisfiable by a non-trivial dataset -/

namespace Witness

/-- Labeller on five blank nodes: `b0 … b4`. -/
def label : Fin 5 → List Nat := fun n => [0x62, 0x30 + n.val]

def p : Term (Fin 5) := .iri (asc "http://example.org/p")

/-- A literal with a quote, a newline, a non-ASCII (é) and an astral (U+1F600) code point;
    a language-tagged literal `en-Latn-US`; blank node `b0` used as subject, object and graph name;
    an IRI graph name; a typed literal. -/
def quads : List (Quad (Fin 5)) :=
  [ ⟨.bnode 0, p, .lit [0x61, 0x22, 0x0a, 0xe9, 0x1F600, 0x5c] xsdString none,
      some (.iri (asc "http://example.org/g"))⟩,
    ⟨.iri (asc "http://example.org/s"), p, .lit (asc "hi") rdfLangString (some (asc "en-Latn-US")),
      none⟩,
    ⟨.bnode 1, p, .bnode 0, some (.bnode 0)⟩,
    ⟨.bnode 0, p, .lit (asc "1") (asc "http://www.w3.org/2001/XMLSchema#integer") none, none⟩ ]

end Witness

theorem Witness.labelsOK : LabelsOK Gen.nquads Witness.label where
  inj := by
    intro a b h
    simp only [Witness.label, List.cons.injEq, and_true, true_and] at h
    exact Fin.ext (by omega)
  wf := by decide

example : LabelsOK Gen.ntriples Witness.label where
  inj := by
    intro a b h
    simp only [Witness.label, List.cons.injEq, and_true, true_and] at h
    exact Fin.ext (by omega)
  wf := by decide

theorem Witness.scalars (s : List Nat) (h : s.all isScalarB = true) : Scalars s := by
  intro c hc
  exact (isScalarB_iff c).1 (List.all_eq_true.1 h c hc)

theorem Witness.inRange (s : List Nat) (h : s.all (fun c => decide (c ≤ 0x10FFFF)) = true) :
    RunesInRange s := by
  intro c hc
  simpa using List.all_eq_true.1 h c hc

open Witness in
theorem Witness.wf : ∀ q ∈ Witness.quads, WFQuad (fun _ => true) q := by
  intro q hq
  simp only [Witness.quads, List.mem_cons, List.not_mem_nil, or_false] at hq
  rcases hq with rfl | rfl | rfl | rfl
  · exact ⟨trivial, ⟨scalars _ (by decide), rfl⟩,
      ⟨scalars _ (by decide), ⟨scalars _ (by decide), rfl⟩, by decide⟩,
      fun g hg => by cases hg; exact ⟨scalars _ (by decide), rfl⟩⟩
  · exact ⟨⟨scalars _ (by decide), rfl⟩, ⟨scalars _ (by decide), rfl⟩,
      ⟨scalars _ (by decide), ⟨scalars _ (by decide), rfl⟩, rfl, by decide⟩,
      fun g hg => by cases hg⟩
  · exact ⟨trivial, ⟨scalars _ (by decide), rfl⟩, trivial, fun g hg => by cases hg; trivial⟩
  · exact ⟨trivial, ⟨scalars _ (by decide), rfl⟩,
      ⟨scalars _ (by decide), ⟨scalars _ (by decide), rfl⟩, by decide⟩,
      fun g hg => by cases hg⟩

/-- … and they are in range, as `ascii_output` asks. -/
theorem Witness.range : ∀ q ∈ Witness.quads, QuadInRange q := by
  intro q hq
  simp only [Witness.quads, List.mem_cons, List.not_mem_nil, or_false] at hq
  rcases hq with rfl | rfl | rfl | rfl
  · exact ⟨trivial, inRange _ (by decide), ⟨inRange _ (by decide), inRange _ (by decide)⟩,
      fun g hg => by cases hg; exact inRange _ (by decide)⟩
  · exact ⟨inRange _ (by decide), inRange _ (by decide),
      ⟨inRange _ (by decide), inRange _ (by decide)⟩, fun g hg => by cases hg⟩
  · exact ⟨trivial, inRange _ (by decide), trivial, fun g hg => by cases hg; trivial⟩
  · exact ⟨trivial, inRange _ (by decide), ⟨inRange _ (by decide), inRange _ (by decide)⟩,
      fun g hg => by cases hg⟩

/-- The hypotheses of `nquads_roundtrip` (at `T := Gen.nquads`, `urlOk := fun _ => true`) hold for a
    concrete four-quad dataset, so that theorem is not vacuous. -/
example : TablesOK Gen.nquads ∧ LabelsOK Gen.nquads Witness.label ∧
    (∀ q ∈ Witness.quads, WFQuad (fun _ => true) q) ∧ Witness.quads.length = 4 :=
  ⟨gen_nquads_ok, Witness.labelsOK, Witness.wf, rfl⟩

end RdfModel.C01
