/- Axiom audit for property C14: output parsed by ./check. -/
import RdfModel.Props.C14

#print axioms RdfModel.C14.termEquals_iff
#print axioms RdfModel.C14.termEquals_symm
#print axioms RdfModel.C14.fresh_unique
#print axioms RdfModel.C14.fresh_pairwise
#print axioms RdfModel.C14.string_factory_eq
#print axioms RdfModel.C14.factories_disjoint
#print axioms RdfModel.C14.provider_function
#print axioms RdfModel.C14.provider_injective
#print axioms RdfModel.C14.passthrough_own_label
#print axioms RdfModel.C14.passthrough_injective_partial
#print axioms RdfModel.C14.propagate_labels_uuid
#print axioms RdfModel.C14.mapper_function
#print axioms RdfModel.C14.mapper_injective
#print axioms RdfModel.C14.mapper_fresh
#print axioms RdfModel.C14.runRefs_sound
#print axioms RdfModel.C14.driverU_injective
#print axioms RdfModel.C14.passthrough_collision
#print axioms RdfModel.C14.passthrough_injective_full_false
#print axioms RdfModel.C14.d15_old_code_unstable
