// Verbatim copy of /repo/encoding/htmlrdfa/decoder_xml_util.go with the (unused) *Decoder receivers removed: Decoder.xmlRender is
// unexported and is a PARAMETER of the Lean model (Env.xmlRender); the harness supplies its value from this copy, so a change of
// the repository's xmlRender shows up as a disagreement on documents with rdf:XMLLiteral properties.
package main

import (
	"bytes"
	"fmt"
	"regexp"
	"slices"
	"strings"

	"golang.org/x/net/html"
)

func xmlRender(n *html.Node) (string, error) {
	xmlnsKnown := make(map[string]string)

	for p := n; p != nil; p = p.Parent {
		if _, exists := xmlnsKnown[""]; !exists {
			switch p.Namespace {
			case "math":
				xmlnsKnown[""] = "http://www.w3.org/1998/Math/MathML"
			case "svg":
				xmlnsKnown[""] = "http://www.w3.org/2000/svg"
			}
		}

		for _, attr := range p.Attr {
			if attr.Namespace != "" {
				continue
			} else if attr.Key == "xmlns" {
				if _, exists := xmlnsKnown[""]; !exists {
					xmlnsKnown[""] = attr.Val
				}
			} else if strings.HasPrefix(attr.Key, "xmlns:") {
				prefix := attr.Key[6:]
				if _, exists := xmlnsKnown[prefix]; !exists {
					xmlnsKnown[prefix] = attr.Val
				}
			} else if attr.Key == "prefix" {
				// rdfa propagated as xmlns
				fields := strings.Fields(strings.TrimSpace(attr.Val))

				for fieldIdx := 0; fieldIdx+1 < len(fields); fieldIdx += 2 {
					prefixTerm := strings.ToLower(fields[fieldIdx])
					if strings.HasSuffix(prefixTerm, ":") {
						prefix := prefixTerm[:len(prefixTerm)-1]
						if _, exists := xmlnsKnown[prefix]; !exists {
							xmlnsKnown[prefix] = fields[fieldIdx+1]
						}
					}
				}
			}
		}
	}

	buf := &bytes.Buffer{}

	for c := n.FirstChild; c != nil; c = c.NextSibling {
		rebuilt, xmlnsHasRoot, _ := xmlRebuild(c, map[string]string{})
		var attrModified bool

		for k, schema := range xmlnsKnown {
			if len(k) == 0 && !xmlnsHasRoot {
				rebuilt.Attr = append(rebuilt.Attr, html.Attribute{
					Key: "xmlns",
					Val: schema,
				})

				continue
			}

			rebuilt.Attr = append(rebuilt.Attr, html.Attribute{
				Key: "xmlns:" + k,
				Val: schema,
			})

			attrModified = true
		}

		if attrModified {
			// not currently trying to do a full, recursive canonicalization
			slices.SortStableFunc(rebuilt.Attr, xmlExtc14n)
		}

		err := html.Render(buf, rebuilt)
		if err != nil {
			return "", fmt.Errorf("render: %v", err)
		}
	}

	raw := buf.String()

	// TODO less hacky
	re := regexp.MustCompile(`<([^/][^\s]*)(|\s+[^>]+)></([^>]+)>`)
	raw = re.ReplaceAllStringFunc(raw, func(match string) string {
		m := re.FindStringSubmatch(match)

		if m[1] == m[3] {
			return "<" + m[1] + m[2] + "/>"
		}

		return match
	})

	return raw, nil
}

func xmlRebuild(n *html.Node, xmlnsKnown map[string]string) (*html.Node, bool, map[string]struct{}) {
	xmlnsFound := map[string]struct{}{}

	nextNode := &html.Node{
		Type:      n.Type,
		DataAtom:  n.DataAtom,
		Data:      n.Data,
		Namespace: n.Namespace,
	}

	if n.DataAtom == 0x0 {
		keySplit := strings.SplitN(n.Data, ":", 2)
		if len(keySplit) == 2 {
			xmlnsFound[keySplit[0]] = struct{}{}
		}
	}

	for _, attr := range n.Attr {
		if attr.Namespace == "" && attr.Key == "xmlns" {
			xmlnsKnown[""] = attr.Val
			xmlnsFound[""] = struct{}{}
		} else if strings.HasPrefix(attr.Key, "xmlns:") {
			xmlnsKnown[attr.Key[6:]] = attr.Val
			xmlnsFound[attr.Key[6:]] = struct{}{}
		} else {
			keySplit := strings.SplitN(attr.Key, ":", 2)
			if len(keySplit) == 2 {
				xmlnsFound[keySplit[0]] = struct{}{}
			}
		}

		nextNode.Attr = append(nextNode.Attr, attr)
	}

	for c := n.FirstChild; c != nil; c = c.NextSibling {
		nextChild, _, xmlnsMissingChild := xmlRebuild(c, xmlnsKnown)
		nextNode.AppendChild(nextChild)

		for k := range xmlnsMissingChild {
			xmlnsFound[k] = struct{}{}
		}
	}

	xmlnsMissing := map[string]struct{}{}

	for k := range xmlnsFound {
		if _, known := xmlnsKnown[k]; !known {
			xmlnsMissing[k] = struct{}{}
		}
	}

	_, xmlnsHasRoot := xmlnsFound[""]

	return nextNode, xmlnsHasRoot, xmlnsMissing
}

func xmlExtc14n(a, b html.Attribute) int {
	aIsDefaultNS := a.Namespace == "" && a.Key == "xmlns"
	bIsDefaultNS := b.Namespace == "" && b.Key == "xmlns"
	if aIsDefaultNS != bIsDefaultNS {
		if aIsDefaultNS {
			return -1
		}

		return 1
	}

	aIsNSDecl := a.Namespace == "" && strings.HasPrefix(a.Key, "xmlns:")
	bIsNSDecl := b.Namespace == "" && strings.HasPrefix(b.Key, "xmlns:")
	if aIsNSDecl && bIsNSDecl {
		return strings.Compare(a.Key, b.Key)
	} else if aIsNSDecl != bIsNSDecl {
		if aIsNSDecl {
			return -1
		}
		return 1
	}

	aIsUnqualified := a.Namespace == ""
	bIsUnqualified := b.Namespace == ""
	if aIsUnqualified && bIsUnqualified {
		return strings.Compare(a.Key, b.Key)
	} else if aIsUnqualified != bIsUnqualified {
		if aIsUnqualified {
			return -1
		}
		return 1
	}

	if a.Namespace != b.Namespace {
		return strings.Compare(a.Namespace, b.Namespace)
	}

	return strings.Compare(a.Key, b.Key)
}
