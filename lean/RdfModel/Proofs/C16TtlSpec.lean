/-
  Proofs.C16TtlSpec — what the instrumented Turtle/TriG token producers do to the bookkeeping on
  success: exactly one `commitForTextOffsetRange` of exactly the runes consumed (plus, for blank node
  labels and language tags, one `commit` of the `_:` / `@` before it).
-/
import RdfModel.Proofs.C16TtlErase
import RdfModel.Props.C16TtlDefs
namespace RdfModel.Proofs.C16Ttl
open RdfModel RdfModel.TW RdfModel.NQO RdfModel.TtlO RdfModel.Proofs.C16 RdfModel.C16Ttl

@[simp] theorem read_bo (s : S) (c : RP) : (s.read c).bo = s.bo + c.2 := rfl
@[simp] theorem read_doc (s : S) (c : RP) : (s.read c).doc = s.doc := rfl
@[simp] theorem unread_bo (s : S) (c : RP) : (s.unread c).bo = s.bo - c.2 := rfl
@[simp] theorem unread_doc (s : S) (c : RP) : (s.unread c).doc = s.doc := rfl
@[simp] theorem commit_bo (s : S) (c : Chunk) : (s.commit c).bo = s.bo := rfl
@[simp] theorem commit_doc (s : S) (c : Chunk) : (s.commit c).doc = s.doc.map (fun h => c :: h) := rfl
@[simp] theorem range_def (s : S) (c : Chunk) : s.range c = s.doc.map (fun h => (h, c :: h)) := rfl

/-- One chunk `tok` committed for its range, `tok` being everything consumed. -/
structure One {α : Type} (s : S) (inp : List RP) (r : TtlO.RO α) (v : α) (tok : Chunk) (rest : List RP) : Prop where
  split : inp = tok ++ rest
  res : r = .ok v (s.doc.map (fun h => (h, tok :: h))) ⟨s.bo + size tok, s.doc.map (fun h => tok :: h)⟩ rest

theorem getLast?_cons_ne {α : Type} (a : α) {l : List α} (h : l ≠ []) : (a :: l).getLast? = l.getLast? := by
  cases l with
  | nil => exact absurd rfl h
  | cons b l => simp [List.getLast?_cons_cons]

theorem runes_ne_nil {l : List RP} (h : l ≠ []) : runes l ≠ [] := by
  simpa using h

/-- One more rune `c` read before a scanner call that ended successfully. -/
theorem ok_step {c : RP} {rest0 rest tok : List RP} {unc : Chunk} {s s' : S} {d : Nat}
    {rg : Option SRange} (hsp : rest0 = tok ++ rest) (h2 : tok ≠ [])
    (h3 : (runes tok).getLast? = some d)
    (hrg : rg = (s.read c).doc.map (fun h => (h, ((c :: unc).reverse ++ tok) :: h)))
    (hs : s' = ⟨(s.read c).bo + size tok, (s.read c).doc.map (fun h => ((c :: unc).reverse ++ tok) :: h)⟩) :
    ∃ tok', c :: rest0 = tok' ++ rest ∧ tok' ≠ [] ∧ (runes tok').getLast? = some d ∧
      rg = s.doc.map (fun h => (h, (unc.reverse ++ tok') :: h)) ∧
      s' = ⟨s.bo + size tok', s.doc.map (fun h => (unc.reverse ++ tok') :: h)⟩ := by
  subst hsp hrg hs
  refine ⟨c :: tok, rfl, by simp, ?_, ?_, ?_⟩
  · simp [getLast?_cons_ne _ (runes_ne_nil h2), h3]
  · simp
  · simp [Nat.add_assoc]

theorem scanIRIREF_ok (T : Tables) (e : End) (st : SState) (s : S) (inp : List RP) (acc : List Nat)
    (unc : Chunk) (v : List Nat) (rg : Option SRange) (s' : S) (rest : List RP)
    (h : TtlO.scanIRIREF T e st s inp acc unc = .ok v rg s' rest) :
    ∃ tok, inp = tok ++ rest ∧ tok ≠ [] ∧ (runes tok).getLast? = some 0x3e ∧
      rg = s.doc.map (fun h => (h, (unc.reverse ++ tok) :: h)) ∧
      s' = ⟨s.bo + size tok, s.doc.map (fun h => (unc.reverse ++ tok) :: h)⟩ := by
  fun_induction TtlO.scanIRIREF T e st s inp acc unc
  all_goals try (simp at h; done)
  case case4 s c rest0 acc unc hc =>
    simp only [done, TtlO.RO.ok.injEq] at h
    obtain ⟨rfl, rfl, rfl, rfl⟩ := h
    exact ⟨[c], by simp, by simp, by simp [hc], by simp, by simp [S.commit]⟩
  all_goals (
    rename_i ih
    obtain ⟨tok, hsp, h2, h3, hrg, hs⟩ := ih h
    exact ok_step hsp h2 h3 hrg hs)

/-- The producer consumed `tok` and committed it as one chunk, for its range. -/
def OneChunk (s : S) (inp tok : List RP) (rg : Option SRange) (s' : S) (rest : List RP) : Prop :=
  inp = tok ++ rest ∧ rg = s.doc.map (fun h => (h, tok :: h)) ∧
    s' = ⟨s.bo + size tok, s.doc.map (fun h => tok :: h)⟩

/-- The producer consumed `pre ++ body`, committed `pre` and then `body`; the range is that of
    `body` (`whole = false`) or runs from the start of `pre` to the end of `body` (`whole = true`). -/
def TwoChunk (whole : Bool) (s : S) (inp pre body : List RP) (rg : Option SRange) (s' : S) (rest : List RP) : Prop :=
  inp = pre ++ body ++ rest ∧
    rg = s.doc.map (fun h => (if whole then h else pre :: h, body :: pre :: h)) ∧
    s' = ⟨s.bo + size pre + size body, s.doc.map (fun h => body :: pre :: h)⟩

theorem consumed_one {s : S} {inp tok : List RP} {rg : Option SRange} {s' : S} {rest : List RP}
    (h : OneChunk s inp tok rg s' rest) : Consumed s inp [] tok rg s' rest := by
  obtain ⟨rfl, rfl, rfl⟩ := h
  refine ⟨by simp, by simp, ?_, ?_, ?_, ?_⟩
  · cases s.doc <;> simp
  · intro h hh; simp [hh]
  · intro h hh; simp only [hh, Option.map_some]; exact ⟨_, _, rfl, by simp, by simp⟩
  · intro hh; simp [hh]

theorem consumed_two_body {s : S} {inp pre body : List RP} {rg : Option SRange} {s' : S} {rest : List RP}
    (h : TwoChunk false s inp pre body rg s' rest) : Consumed s inp pre body rg s' rest := by
  obtain ⟨rfl, rfl, rfl⟩ := h
  refine ⟨rfl, by simp [Nat.add_assoc], ?_, ?_, ?_, ?_⟩
  · cases s.doc <;> simp
  · intro h hh; simp [hh, List.append_assoc]
  · intro h hh; simp only [hh, Option.map_some]; exact ⟨_, _, rfl, by simp, by simp [List.append_assoc]⟩
  · intro hh; simp [hh]

theorem consumed_two_whole {s : S} {inp pre body : List RP} {rg : Option SRange} {s' : S} {rest : List RP}
    (h : TwoChunk true s inp pre body rg s' rest) : Consumed s inp [] (pre ++ body) rg s' rest := by
  obtain ⟨rfl, rfl, rfl⟩ := h
  refine ⟨by simp, by simp [Nat.add_assoc], ?_, ?_, ?_, ?_⟩
  · cases s.doc <;> simp
  · intro h hh; simp [hh, List.append_assoc]
  · intro h hh; simp only [hh, Option.map_some]; exact ⟨_, _, rfl, by simp, by simp [List.append_assoc]⟩
  · intro hh; simp [hh]

theorem produceIRIREF_ok (T : Tables) (e : End) (s : S) (inp : List RP) (v : List Nat)
    (rg : Option SRange) (s' : S) (rest : List RP)
    (h : TtlO.produceIRIREF T e s inp = .ok v rg s' rest) :
    ∃ tok, OneChunk s inp tok rg s' rest ∧ (runes tok).head? = some 0x3c ∧
      (runes tok).getLast? = some 0x3e ∧ 2 ≤ tok.length := by
  cases inp with
  | nil => simp [TtlO.produceIRIREF] at h
  | cons c r =>
    simp only [TtlO.produceIRIREF] at h
    split at h
    · rename_i hc
      obtain ⟨tok, rfl, h2, h3, rfl, rfl⟩ := scanIRIREF_ok _ _ _ _ _ _ _ _ _ _ _ h
      refine ⟨c :: tok, ⟨rfl, by simp, by simp [Nat.add_assoc]⟩, by simp [hc], ?_, ?_⟩
      · simp [getLast?_cons_ne _ (runes_ne_nil h2), h3]
      · cases tok with
        | nil => exact absurd rfl h2
        | cons _ _ => simp
    · simp at h

theorem scanString_ok (T : Tables) (e : End) (delim : Nat) (triple : Bool) (st : SState) (s : S)
    (inp : List RP) (acc : List Nat) (unc : Chunk) (v : List Nat) (rg : Option SRange) (s' : S)
    (rest : List RP) (h : TtlO.scanString T e delim triple st s inp acc unc = .ok v rg s' rest) :
    ∃ tok, inp = tok ++ rest ∧ tok ≠ [] ∧ (runes tok).getLast? = some delim ∧
      rg = s.doc.map (fun h => (h, (unc.reverse ++ tok) :: h)) ∧
      s' = ⟨s.bo + size tok, s.doc.map (fun h => (unc.reverse ++ tok) :: h)⟩ := by
  fun_induction TtlO.scanString T e delim triple st s inp acc unc
  all_goals try (simp at h; done)
  case case4 s c rest0 acc unc _ hc _ =>
    simp only [done, TtlO.RO.ok.injEq] at h
    obtain ⟨rfl, rfl, rfl, rfl⟩ := h
    exact ⟨[c], by simp, by simp, by simp [hc], by simp, by simp [S.commit]⟩
  case case7 s c acc unc _ hc _ c1 hc1 c2 rest0 hc2 =>
    simp only [done, TtlO.RO.ok.injEq] at h
    obtain ⟨rfl, rfl, rfl, rfl⟩ := h
    exact ⟨[c, c1, c2], by simp, by simp, by simp [hc2], by simp, by simp [S.commit, Nat.add_assoc]⟩
  all_goals (
    rename_i ih
    obtain ⟨tok, hsp, h2, h3, hrg, hs⟩ := ih h
    exact ok_step hsp h2 h3 hrg hs)

theorem produceString_ok (T : Tables) (e : End) (s : S) (inp : List RP) (v : List Nat)
    (rg : Option SRange) (s' : S) (rest : List RP)
    (h : TtlO.produceString T e false s inp = .ok v rg s' rest) :
    ∃ tok q, OneChunk s inp tok rg s' rest ∧ (q = 0x22 ∨ q = 0x27) ∧ (runes tok).head? = some q ∧
      (runes tok).getLast? = some q ∧ 2 ≤ tok.length := by
  cases inp with
  | nil => simp [TtlO.produceString] at h
  | cons q r =>
    simp only [TtlO.produceString] at h
    split at h
    · rename_i hq
      cases r with
      | nil => simp at h
      | cons c1 r1 =>
        simp only at h
        split at h
        · rename_i hc1
          cases r1 with
          | nil =>
            cases e <;> simp only [done, Bool.false_eq_true, if_false, TtlO.RO.ok.injEq, reduceCtorEq] at h
            obtain ⟨rfl, rfl, rfl, rfl⟩ := h
            exact ⟨[q, c1], q.1, ⟨rfl, by simp, by simp [S.commit, Nat.add_assoc]⟩, hq, by simp, by simp [hc1], by simp⟩
          | cons c2 r2 =>
            simp only at h
            split at h
            · rename_i hc2
              obtain ⟨tok, rfl, h2, h3, rfl, rfl⟩ := scanString_ok _ _ _ _ _ _ _ _ _ _ _ _ _ h
              refine ⟨q :: c1 :: c2 :: tok, q.1, ⟨rfl, by simp, by simp [Nat.add_assoc]⟩, hq, by simp, ?_, by simp⟩
              simp [getLast?_cons_ne _ (runes_ne_nil h2), h3]
            · simp only [done, Bool.false_eq_true, if_false, TtlO.RO.ok.injEq] at h
              obtain ⟨rfl, rfl, rfl, rfl⟩ := h
              exact ⟨[q, c1], q.1, ⟨rfl, by simp, by simp [S.commit, Nat.add_assoc]⟩, hq, by simp, by simp [hc1], by simp⟩
        · obtain ⟨tok, hsp, h2, h3, rfl, rfl⟩ := scanString_ok _ _ _ _ _ _ _ _ _ _ _ _ _ h
          refine ⟨q :: tok, q.1, ⟨by rw [List.cons_append, ← hsp], by simp, by simp [Nat.add_assoc]⟩, hq, by simp, ?_, ?_⟩
          · simp [getLast?_cons_ne _ (runes_ne_nil h2), h3]
          · cases tok with
            | nil => exact absurd rfl h2
            | cons _ _ => simp
    · simp at h

/-! ### produceLANGTAG -/

/-- Result shape of the LANGTAG loops: `t` further runes consumed; `@` committed, then the tag. -/
def LangOK (a0 : RP) (s : S) (inp : List RP) (tagRev : Chunk) (v : List Nat) (rg : Option SRange) (s' : S)
    (rest : List RP) : Prop :=
  ∃ t, inp = t ++ rest ∧ v = goString (runes (tagRev.reverse ++ t)) ∧
    rg = s.doc.map (fun h => ([a0] :: h, (tagRev.reverse ++ t) :: [a0] :: h)) ∧
    s' = ⟨s.bo + size t, s.doc.map (fun h => (tagRev.reverse ++ t) :: [a0] :: h)⟩

theorem lang_step {c a0 : RP} {rest0 rest : List RP} {tagRev : Chunk} {s s' : S} {v : List Nat}
    {rg : Option SRange} (h : LangOK a0 (s.read c) rest0 (c :: tagRev) v rg s' rest) :
    LangOK a0 s (c :: rest0) tagRev v rg s' rest := by
  obtain ⟨t, rfl, rfl, rfl, rfl⟩ := h
  exact ⟨c :: t, rfl, by simp, by simp, by simp [Nat.add_assoc]⟩

theorem langDone_ok (s : S) (a0 : RP) (tagRev : Chunk) (rest0 : List RP) (v : List Nat)
    (rg : Option SRange) (s' : S) (rest : List RP)
    (h : TtlO.langDone s a0 tagRev rest0 = .ok v rg s' rest) : LangOK a0 s rest0 tagRev v rg s' rest := by
  cases tagRev with
  | nil =>
    simp only [TtlO.langDone, TtlO.RO.ok.injEq] at h
    obtain ⟨rfl, rfl, rfl, rfl⟩ := h
    exact ⟨[], by simp, by simp, by simp [Function.comp_def], by simp [S.commit, Function.comp_def]⟩
  | cons l more =>
    simp only [TtlO.langDone] at h
    split at h
    · simp at h
    · simp only [TtlO.RO.ok.injEq] at h
      obtain ⟨rfl, rfl, rfl, rfl⟩ := h
      exact ⟨[], by simp, by simp, by simp [Function.comp_def], by simp [S.commit, Function.comp_def]⟩

theorem langSecondary_ok (e : End) (a0 : RP) (s : S) (inp : List RP) (tagRev : Chunk) (v : List Nat)
    (rg : Option SRange) (s' : S) (rest : List RP)
    (h : TtlO.langSecondary e a0 s inp tagRev = .ok v rg s' rest) : LangOK a0 s inp tagRev v rg s' rest := by
  fun_induction TtlO.langSecondary e a0 s inp tagRev
  all_goals try (simp at h; done)
  all_goals first
    | exact langDone_ok _ _ _ _ _ _ _ _ h
    | (rename_i ih; exact lang_step (ih h))

theorem langPrimary_ok (e : End) (a0 : RP) (s : S) (inp : List RP) (tagRev : Chunk) (v : List Nat)
    (rg : Option SRange) (s' : S) (rest : List RP)
    (h : TtlO.langPrimary e a0 s inp tagRev = .ok v rg s' rest) : LangOK a0 s inp tagRev v rg s' rest := by
  fun_induction TtlO.langPrimary e a0 s inp tagRev
  all_goals try (simp at h; done)
  all_goals first
    | exact langDone_ok _ _ _ _ _ _ _ _ h
    | exact lang_step (langSecondary_ok _ _ _ _ _ _ _ _ _ h)
    | (rename_i ih; exact lang_step (ih h))

theorem produceLANGTAG_ok (e : End) (s : S) (inp : List RP) (v : List Nat)
    (rg : Option SRange) (s' : S) (rest : List RP)
    (h : TtlO.produceLANGTAG e s inp = .ok v rg s' rest) :
    ∃ a0 tag, TwoChunk false s inp [a0] tag rg s' rest ∧ a0.1 = 0x40 ∧ v = goString (runes tag) := by
  cases inp with
  | nil => simp [TtlO.produceLANGTAG] at h
  | cons c r =>
    simp only [TtlO.produceLANGTAG] at h
    split at h
    · rename_i hc
      obtain ⟨t, rfl, rfl, rfl, rfl⟩ := langPrimary_ok _ _ _ _ _ _ _ _ _ h
      exact ⟨c, t, ⟨rfl, by simp, by simp⟩, hc, by simp⟩
    · simp at h

/-! ### produceBlankNode -/

/-- Result shape of the label loop: the label `lab` is what was read before the call (`labRev`) plus
    part of `inp`, possibly minus a handed-back final `.`; it is committed as one chunk. -/
def BnOK (labelOnly : Bool) (h0 : Option Hist) (s : S) (inp : List RP) (labRev : Chunk) (v : List Nat)
    (rg : Option SRange) (s' : S) (rest : List RP) : Prop :=
  ∃ lab, labRev.reverse ++ inp = lab ++ rest ∧ v = goString (runes lab) ∧
    rg = bnRange labelOnly h0 (s.doc.map (fun h => (h, lab :: h))) ∧
    s'.doc = s.doc.map (fun h => lab :: h) ∧ s'.bo + size labRev = s.bo + size lab

theorem bn_step {labelOnly : Bool} {h0 : Option Hist} {c : RP} {rest0 rest : List RP} {labRev : Chunk}
    {s s' : S} {v : List Nat} {rg : Option SRange}
    (h : BnOK labelOnly h0 (s.read c) rest0 (c :: labRev) v rg s' rest) :
    BnOK labelOnly h0 s (c :: rest0) labRev v rg s' rest := by
  obtain ⟨lab, h1, rfl, rfl, h4, h5⟩ := h
  refine ⟨lab, by simpa using h1, rfl, by simp, by simpa using h4, ?_⟩
  simp at h5; omega

theorem bnDone_ok (T : Tables) (labelOnly : Bool) (h0 : Option Hist) (s : S) (labRev : Chunk)
    (rest0 : List RP) (v : List Nat) (rg : Option SRange) (s' : S) (rest : List RP)
    (hbo : size labRev ≤ s.bo)
    (h : TtlO.bnDone T labelOnly h0 s labRev rest0 = .ok v rg s' rest) :
    BnOK labelOnly h0 s rest0 labRev v rg s' rest := by
  cases labRev with
  | nil => simp [TtlO.bnDone] at h
  | cons l more =>
    simp only [TtlO.bnDone] at h
    by_cases hl : l.1 = 0x2e
    · simp only [hl, if_true] at h
      cases more with
      | nil =>
        simp only [TtlO.RO.ok.injEq] at h
        obtain ⟨rfl, rfl, rfl, rfl⟩ := h
        exact ⟨[], by simp, by simp [goString], by simp, by simp, by simp at hbo ⊢; omega⟩
      | cons z more' =>
        simp only at h
        split at h
        · simp at h
        · simp only [TtlO.RO.ok.injEq] at h
          obtain ⟨rfl, rfl, rfl, rfl⟩ := h
          exact ⟨(z :: more').reverse, by simp, by simp, by simp, by simp, by simp at hbo ⊢; omega⟩
    · simp only [hl, if_false] at h
      split at h
      · simp at h
      · simp only [TtlO.RO.ok.injEq] at h
        obtain ⟨rfl, rfl, rfl, rfl⟩ := h
        exact ⟨(l :: more).reverse, by simp, by simp, by simp, by simp, by simp; omega⟩

theorem bnLoop_ok (T : Tables) (e : End) (labelOnly : Bool) (h0 : Option Hist) (s : S) (inp : List RP)
    (labRev : Chunk) (v : List Nat) (rg : Option SRange) (s' : S) (rest : List RP)
    (hbo : size labRev ≤ s.bo)
    (h : TtlO.bnLoop T e labelOnly h0 s inp labRev = .ok v rg s' rest) :
    BnOK labelOnly h0 s inp labRev v rg s' rest := by
  fun_induction TtlO.bnLoop T e labelOnly h0 s inp labRev
  all_goals try (simp at h; done)
  all_goals first
    | exact bnDone_ok _ _ _ _ _ _ _ _ _ _ hbo h
    | (rename_i ih; exact bn_step (ih (by simp at hbo ⊢; omega) h))

theorem produceBlankNode_ok (T : Tables) (e : End) (labelOnly : Bool) (s : S) (inp : List RP)
    (v : List Nat) (rg : Option SRange) (s' : S) (rest : List RP)
    (h : TtlO.produceBlankNode T e labelOnly s inp = .ok v rg s' rest) :
    ∃ c0 c1 lab, TwoChunk (!labelOnly) s inp [c0, c1] lab rg s' rest ∧ c0.1 = 0x5f ∧ c1.1 = 0x3a ∧
      v = goString (runes lab) := by
  cases inp with
  | nil => simp [TtlO.produceBlankNode] at h
  | cons c0 r0 =>
    simp only [TtlO.produceBlankNode] at h
    split at h
    · simp at h
    · rename_i hc0
      cases r0 with
      | nil => simp at h
      | cons c1 r1 =>
        simp only at h
        split at h
        · simp at h
        · rename_i hc1
          cases r1 with
          | nil => simp at h
          | cons c2 r2 =>
            simp only at h
            split at h
            · obtain ⟨lab, h1, rfl, rfl, h4, h5⟩ :=
                bnLoop_ok _ _ _ _ _ _ _ _ _ _ _ (by simp) h
              refine ⟨c0, c1, lab, ⟨?_, ?_, ?_⟩, by simpa using hc0, by simpa using hc1, rfl⟩
              · simp at h1; simp [h1]
              · cases hd : s.doc <;> cases labelOnly <;> simp [bnRange, hd]
              · cases s' with
                | mk bo doc =>
                  simp at h4 h5
                  simp only [S.mk.injEq]
                  exact ⟨by simp only [size_cons, size_nil]; omega, by rw [h4]; cases s.doc <;> simp⟩
            · simp at h

/-! ### produceNumericLiteral -/

def NumOK (s : S) (inp : List RP) (acc : Chunk) (v : Ttl.NumKind × List Nat) (rg : Option SRange) (s' : S)
    (rest : List RP) : Prop :=
  ∃ tok, acc.reverse ++ inp = tok ++ rest ∧ v.2 = goString (runes tok) ∧
    rg = s.doc.map (fun h => (h, tok :: h)) ∧
    s'.doc = s.doc.map (fun h => tok :: h) ∧ s'.bo + size acc = s.bo + size tok

theorem num_step {c : RP} {rest0 rest : List RP} {acc : Chunk} {s s' : S} {v : Ttl.NumKind × List Nat}
    {rg : Option SRange} (h : NumOK (s.read c) rest0 (c :: acc) v rg s' rest) :
    NumOK s (c :: rest0) acc v rg s' rest := by
  obtain ⟨tok, h1, h2, rfl, h4, h5⟩ := h
  refine ⟨tok, by simpa using h1, h2, by simp, by simpa using h4, ?_⟩
  simp at h5; omega

theorem numDone_ok (s : S) (acc : Chunk) (k : Option Ttl.NumKind) (rest0 : List RP)
    (v : Ttl.NumKind × List Nat) (rg : Option SRange) (s' : S) (rest : List RP)
    (hbo : size acc ≤ s.bo) (h : TtlO.numDone s acc k rest0 = .ok v rg s' rest) :
    NumOK s rest0 acc v rg s' rest := by
  cases acc with
  | nil => simp [TtlO.numDone] at h
  | cons l more =>
    simp only [TtlO.numDone] at h
    split at h
    · simp only [done, TtlO.RO.ok.injEq] at h
      obtain ⟨rfl, rfl, rfl, rfl⟩ := h
      exact ⟨more.reverse, by simp, by simp, by simp, by simp, by simp at hbo ⊢; omega⟩
    · split at h
      · simp at h
      · simp only [done, TtlO.RO.ok.injEq] at h
        obtain ⟨rfl, rfl, rfl, rfl⟩ := h
        exact ⟨(l :: more).reverse, by simp, by simp, by simp, by simp, by simp; omega⟩

theorem scanNum_ok (e : End) (st : Ttl.NState) (k : Option Ttl.NumKind) (s : S) (inp : List RP)
    (acc : Chunk) (v : Ttl.NumKind × List Nat) (rg : Option SRange) (s' : S) (rest : List RP)
    (hbo : size acc ≤ s.bo) (h : TtlO.scanNum e st k s inp acc = .ok v rg s' rest) :
    NumOK s inp acc v rg s' rest := by
  fun_induction TtlO.scanNum e st k s inp acc
  all_goals try (simp at h; done)
  all_goals first
    | exact numDone_ok _ _ _ _ _ _ _ _ hbo h
    | (rename_i ih; exact num_step (ih (by simp at hbo ⊢; omega) h))

theorem produceNumericLiteral_ok (e : End) (s : S) (inp : List RP) (v : Ttl.NumKind × List Nat)
    (rg : Option SRange) (s' : S) (rest : List RP)
    (h : TtlO.produceNumericLiteral e s inp = .ok v rg s' rest) :
    ∃ tok, OneChunk s inp tok rg s' rest ∧ v.2 = goString (runes tok) := by
  cases inp with
  | nil => simp [TtlO.produceNumericLiteral] at h
  | cons c r =>
    simp only [TtlO.produceNumericLiteral] at h
    have key : ∀ st k, TtlO.scanNum e st k (s.read c) r [c] = .ok v rg s' rest →
        ∃ tok, OneChunk s (c :: r) tok rg s' rest ∧ v.2 = goString (runes tok) := by
      intro st k hh
      obtain ⟨tok, h1, h2, rfl, h4, h5⟩ := scanNum_ok _ _ _ _ _ _ _ _ _ _ (by simp) hh
      refine ⟨tok, ⟨by simpa using h1, by simp, ?_⟩, h2⟩
      cases s' with
      | mk bo doc =>
        simp at h4 h5
        simp only [S.mk.injEq]
        exact ⟨by omega, h4⟩
    split at h
    · exact key _ _ h
    · split at h
      · exact key _ _ h
      · simp at h

/-! ### producePNAME_NS, producePrefixedName -/

theorem pnameNsLoop_ok (T : Tables) (e : End) (trig : Bool) (s : S) (inp : List RP) (acc : List Nat)
    (unc : Chunk) (v : List Nat) (rg : Option SRange) (s' : S) (rest : List RP)
    (h : TtlO.pnameNsLoop T e trig s inp acc unc = .ok v rg s' rest) :
    ∃ tok, inp = tok ++ rest ∧ tok ≠ [] ∧ (runes tok).getLast? = some 0x3a ∧
      rg = s.doc.map (fun h => (h, (unc.reverse ++ tok) :: h)) ∧
      s' = ⟨s.bo + size tok, s.doc.map (fun h => (unc.reverse ++ tok) :: h)⟩ := by
  fun_induction TtlO.pnameNsLoop T e trig s inp acc unc
  all_goals try (simp at h; done)
  case case2 s c rest0 acc unc hc =>
    simp only [done, TtlO.RO.ok.injEq] at h
    obtain ⟨rfl, rfl, rfl, rfl⟩ := h
    exact ⟨[c], by simp, by simp, by simp [hc], by simp, by simp [S.commit]⟩
  all_goals first
    | (rename_i ih
       obtain ⟨tok, hsp, h2, h3, hrg, hs⟩ := ih h
       exact ok_step hsp h2 h3 hrg hs)
    | (split at h <;> simp at h)

theorem producePNAME_NS_ok (T : Tables) (e : End) (trig : Bool) (s : S) (inp : List RP) (v : List Nat)
    (rg : Option SRange) (s' : S) (rest : List RP)
    (h : TtlO.producePNAME_NS T e trig s inp = .ok v rg s' rest) :
    ∃ tok, OneChunk s inp tok rg s' rest ∧ (runes tok).getLast? = some 0x3a := by
  cases inp with
  | nil => simp [TtlO.producePNAME_NS] at h
  | cons c r =>
    simp only [TtlO.producePNAME_NS] at h
    split at h
    · rename_i hc
      simp only [done, TtlO.RO.ok.injEq] at h
      obtain ⟨rfl, rfl, rfl, rfl⟩ := h
      exact ⟨[c], ⟨rfl, by simp, by simp [S.commit]⟩, by simp [hc]⟩
    · split at h
      · obtain ⟨tok, rfl, h2, h3, rfl, rfl⟩ := pnameNsLoop_ok _ _ _ _ _ _ _ _ _ _ _ h
        exact ⟨c :: tok, ⟨rfl, by simp, by simp [Nat.add_assoc]⟩,
          by simp [getLast?_cons_ne _ (runes_ne_nil h2), h3]⟩
      · simp at h

/-- Result shape of the PN_LOCAL scanner: the chunk `tok` (what was on `unc` plus part of `inp`,
    possibly minus a handed-back final `.`) is committed for its range. -/
def LocalOK (s : S) (inp : List RP) (unc : Chunk) (rg : Option SRange) (s' : S) (rest : List RP) : Prop :=
  ∃ tok, unc.reverse ++ inp = tok ++ rest ∧ rg = s.doc.map (fun h => (h, tok :: h)) ∧
    s'.doc = s.doc.map (fun h => tok :: h) ∧ s'.bo + size unc = s.bo + size tok

/-- In the states from which PN_LOCAL_DONE is reachable: if the last decoded rune was not written as
    an escape, it is the code point of the last raw rune. -/
def LocalInv (st : Ttl.LState) (acc : List Nat) (le : Bool) (unc : Chunk) : Prop :=
  (st = .first ∨ st = .body) → le = false → ∀ l more, acc = l :: more → ∃ u t, unc = u :: t ∧ u.1 = l

theorem local_step {c : RP} {rest0 rest : List RP} {unc : Chunk} {s s' : S} {rg : Option SRange}
    (h : LocalOK (s.read c) rest0 (c :: unc) rg s' rest) : LocalOK s (c :: rest0) unc rg s' rest := by
  obtain ⟨tok, h1, rfl, h4, h5⟩ := h
  refine ⟨tok, by simpa using h1, by simp, by simpa using h4, ?_⟩
  simp at h5; omega

theorem localDone_ok (s : S) (acc : List Nat) (le : Bool) (unc : Chunk) (rest0 : List RP)
    (v : List Nat) (rg : Option SRange) (s' : S) (rest : List RP) (hbo : size unc ≤ s.bo)
    (hinv : LocalInv .body acc le unc)
    (h : TtlO.localDone s acc le unc rest0 = .ok v rg s' rest) : LocalOK s rest0 unc rg s' rest := by
  cases acc with
  | nil => simp [TtlO.localDone] at h
  | cons l more =>
    simp only [TtlO.localDone] at h
    split at h
    · rename_i hdot
      simp only [Bool.and_eq_true, decide_eq_true_eq, Bool.not_eq_true'] at hdot
      obtain ⟨u, t, rfl, hu⟩ := hinv (Or.inr rfl) hdot.2 l more rfl
      simp only [done, List.headD_cons, List.drop_one, List.tail_cons, TtlO.RO.ok.injEq] at h
      obtain ⟨rfl, rfl, rfl, rfl⟩ := h
      have hu' : u = (0x2e, u.2) := by rw [← hdot.1, ← hu]
      refine ⟨t.reverse, ?_, by simp, by simp, by simp at hbo ⊢; omega⟩
      rw [List.reverse_cons, List.append_assoc, List.singleton_append, ← hu']
    · simp only [done, TtlO.RO.ok.injEq] at h
      obtain ⟨rfl, rfl, rfl, rfl⟩ := h
      exact ⟨unc.reverse, by simp, by simp, by simp, by simp⟩

theorem scanLocal_ok (T : Tables) (e : End) (st : Ttl.LState) (s : S) (inp : List RP) (acc : List Nat)
    (le : Bool) (unc : Chunk) (v : List Nat) (rg : Option SRange) (s' : S) (rest : List RP)
    (hbo : size unc ≤ s.bo) (hinv : LocalInv st acc le unc)
    (h : TtlO.scanLocal T e st s inp acc le unc = .ok v rg s' rest) : LocalOK s inp unc rg s' rest := by
  fun_induction TtlO.scanLocal T e st s inp acc le unc
  all_goals try (simp at h; done)
  all_goals first
    | exact localDone_ok _ _ _ _ _ _ _ _ _ hbo (by simpa [LocalInv] using hinv) h
    | (simp only [done, TtlO.RO.ok.injEq] at h
       obtain ⟨rfl, rfl, rfl, rfl⟩ := h
       exact ⟨_, rfl, by simp, by simp, by simp⟩)
    | (rename_i ih
       exact local_step (ih (by simp at hbo ⊢; omega) (by simp [LocalInv]) h))

theorem producePrefixedName_ok (T : Tables) (e : End) (trig : Bool) (s : S) (inp : List RP)
    (v : List Nat × List Nat) (rg : Option SRange) (s' : S) (rest : List RP)
    (h : TtlO.producePrefixedName T e trig s inp = .ok v rg s' rest) :
    ∃ ns loc, TwoChunk true s inp ns loc rg s' rest ∧ (runes ns).getLast? = some 0x3a := by
  unfold TtlO.producePrefixedName at h
  cases hn : TtlO.producePNAME_NS T e trig s inp with
  | err c o => simp [hn] at h
  | panic => simp [hn] at h
  | ok nsv rgNs s1 rest1 =>
    simp only [hn] at h
    obtain ⟨ns, ⟨rfl, rfl, rfl⟩, hlast⟩ := producePNAME_NS_ok _ _ _ _ _ _ _ _ _ hn
    cases hl : TtlO.scanLocal T e .first ⟨s.bo + size ns, s.doc.map (fun h => ns :: h)⟩ rest1 [] false [] with
    | err c o => simp [hl] at h
    | panic => simp [hl] at h
    | ok loc rgLoc s2 rest2 =>
      simp only [hl, TtlO.RO.ok.injEq] at h
      obtain ⟨rfl, rfl, rfl, rfl⟩ := h
      obtain ⟨tok, h1, rfl, h4, h5⟩ := scanLocal_ok _ _ _ _ _ _ _ _ _ _ _ _ (by simp) (by simp [LocalInv]) hl
      refine ⟨ns, tok, ⟨?_, ?_, ?_⟩, hlast⟩
      · simp at h1; simp [h1, List.append_assoc]
      · cases hd : s.doc <;> simp [TtlO.span]
      · cases s2 with
        | mk bo doc =>
          simp at h4 h5
          simp only [S.mk.injEq]
          exact ⟨by omega, by rw [h4]; cases s.doc <;> simp⟩

end RdfModel.Proofs.C16Ttl
