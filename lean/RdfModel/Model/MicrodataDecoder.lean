/-
  RdfModel.Model.MicrodataDecoder — function-by-function executable model of the Go Microdata decoder
  /repo/encoding/htmlmicrodata (decoder.go, decoder_ectx.go, decoder_config.go, vocabulary_resolver.go) and of the
  part of /repo/encoding/html (document.go: GetNodesByID / indexNodesById) it calls, over an ABSTRACT DOM TREE:
  what golang.org/x/net/html hands to the decoder after parsing (node type, namespace, DataAtom name, Data,
  attribute list in document order with namespace, children).  The HTML5 tokenizer / tree builder is outside.

  Strings are Go strings: lists of BYTES (possibly ill-formed UTF-8).

  Go                                                     here
  ------------------------------------------------------ ------------------------------------------------------
  Decoder.Next (first call) → walk(ectx, root)           `decode`  (fuel = `fuelFor doc`, see Props/C11Md)
  Decoder.walk                                           `walk` / `walkKids` / `itemrefs`
  attribute scan at the top of walk                      `scanAttrs`
  the `for len(attrVal) > 0` itemtype loop (two regexps) `typeTokens` + `emitTypes` (the `panic("should not have
                                                          found an empty match")` is the explicit `Bad.panic`)
  Decoder.iterateItemprops                               `propNames` (strings.Fields ∘ strings.TrimSpace, the
                                                          `knownItemprops` set, the resolver's error = skip)
  Decoder.parseMicrodataItemvalue                        `itemValue`  (switch on DataAtom, lax @content, textContent)
  Decoder.parseMicrodataItempropAttr                     `findAttr`
  Decoder.collectTextContent                             `textContent`
  itempropAttrString / IRI / Time / Meter                `strLit`, `iriValue`, `firstMap`
  evaluationContext.ResolveURL                           parameter `Env.resolve` (base folded in; `none` = error)
  url.Parse(v) … .String() on an itemtype token          parameter `Env.normType` (identity when Parse fails)
  VocabularyResolver.ResolveMicrodataProperty            parameter `Env.vocab` (`none` = error)
  xsdobject.MapDate/Time/DateTime/GYearMonth/GYear/      parameters `Env.timeMaps` / `Env.meterMaps`, tried in order
    Duration, MapInteger/MapDecimal
  Document.GetNodesByID(id)[0]                           `findId doc id` (first element in tree order whose FIRST
                                                          un-namespaced `id` attribute equals `id`)
  globalEvaluationContext.ResolvedItemscopes             `St.resolved` (keyed by node identity = `Node.id`)
  evaluationContext.RecursedItemrefs                     `Ctx.recursed`
  rdf.NewBlankNodeFactory().NewBlankNode()               counter `St.nextBn`
  laxContentAttribute / Use / Hook                       `Env.lax`, `Env.laxUse`, `Env.hook`; hook calls recorded in
                                                          `St.hooks` (node identities, in call order)
  text offsets, container resources                      outside the model (they do not influence the triples)

  Node identity (`*html.Node` pointer equality, the key of ResolvedItemscopes): the field `Node.id`.  `relabel`
  numbers a tree in document order, so that distinct nodes have distinct identities; `decode` relabels first.
  The walk itself is defined (and the theorems are proved) for arbitrary `id` fields.

  Recursion: Go's `walk` recurses into children and, through `itemref`, into arbitrary other nodes of the document.
  The model takes a depth budget (`fuel`, one unit per nested call); running out is the explicit outcome
  `Bad.outOfFuel`.  `Props/C11Md.mdd_terminates_no_panic` proves the budget `fuelFor doc` is never exhausted.
  Core-only, executable.
-/
import RdfModel.Model.Description
namespace RdfModel.Mdd
open RdfModel RdfModel.Desc

abbrev Bytes := List Nat

structure Attr where
  ns : Bytes
  key : Bytes
  val : Bytes
  deriving Repr, DecidableEq, Inhabited

/-- html.Node. `typ`: 0 ErrorNode, 1 TextNode, 2 DocumentNode, 3 ElementNode, 4 CommentNode, 5 DoctypeNode,
    6 RawNode. `atom` = `n.DataAtom.String()` (empty for atom 0: unknown element names, text, …). -/
inductive Node where
  | mk (id : Nat) (typ : Nat) (ns : Bytes) (atom : Bytes) (data : Bytes) (attrs : List Attr) (kids : List Node)
  deriving Repr, Inhabited

namespace Node
def id : Node → Nat | .mk i _ _ _ _ _ _ => i
def typ : Node → Nat | .mk _ t _ _ _ _ _ => t
def ns : Node → Bytes | .mk _ _ n _ _ _ _ => n
def atom : Node → Bytes | .mk _ _ _ a _ _ _ => a
def data : Node → Bytes | .mk _ _ _ _ d _ _ => d
def attrs : Node → List Attr | .mk _ _ _ _ _ a _ => a
def kids : Node → List Node | .mk _ _ _ _ _ _ k => k
end Node

/-! ## tree utilities -/

mutual
/-- all nodes, in document (pre-)order -/
def subnodes : Node → List Node
  | .mk i t n a d as ks => .mk i t n a d as ks :: subnodesL ks
def subnodesL : List Node → List Node
  | [] => []
  | k :: ks => subnodes k ++ subnodesL ks
end

mutual
def height : Node → Nat
  | .mk _ _ _ _ _ _ ks => heightL ks + 1
def heightL : List Node → Nat
  | [] => 0
  | k :: ks => max (height k) (heightL ks)
end

mutual
/-- number the nodes in document order starting at `n`; returns the next free number -/
def relabelFrom (n : Nat) : Node → Node × Nat
  | .mk _ t ns a d as ks =>
    let (ks', m) := relabelL (n + 1) ks
    (.mk n t ns a d as ks', m)
def relabelL (n : Nat) : List Node → List Node × Nat
  | [] => ([], n)
  | k :: ks =>
    let (k', m) := relabelFrom n k
    let (ks', m') := relabelL m ks
    (k' :: ks', m')
end

def relabel (t : Node) : Node := (relabelFrom 0 t).1

def kId : Bytes := asc "id"

/-- indexNodesById: only the FIRST un-namespaced `id` attribute of an element is indexed (`break`) -/
def firstIdAttr : List Attr → Option Bytes
  | [] => none
  | a :: rest => if a.ns = [] ∧ a.key = kId then some a.val else firstIdAttr rest

def hasId (id : Bytes) (n : Node) : Bool := n.typ == 3 && firstIdAttr n.attrs == some id

/-- `doc.GetNodesByID(id)` reduced to what the decoder uses: the first node, if any -/
def findId (doc : Node) (id : Bytes) : Option Node := (subnodes doc).find? (hasId id)

/-! ## Go string functions (byte level)

  `unicode.IsSpace` holds for U+0009–000D, U+0020, U+0085, U+00A0, U+1680, U+2000–200A, U+2028, U+2029, U+202F,
  U+205F, U+3000.  Go decodes the string rune by rune (an ill-formed byte is U+FFFD of width 1, not a space);
  because the lead bytes of the multi-byte spaces (C2, E1, E2, E3) are never continuation bytes, the decoder
  is positioned on every such lead byte, so matching the byte patterns at every byte offset finds exactly
  the same spaces.  (Tied by T3 on documents with these sequences and with ill-formed UTF-8.) -/

/-- width of the `unicode.IsSpace` rune at the head of `s`; 0 = none -/
def spaceLen : Bytes → Nat
  | [] => 0
  | c :: r =>
    if c == 9 || c == 10 || c == 11 || c == 12 || c == 13 || c == 32 then 1
    else if c == 0xC2 then
      (match r with
       | d :: _ => if d == 0x85 || d == 0xA0 then 2 else 0
       | [] => 0)
    else if c == 0xE1 then
      (match r with
       | d :: e :: _ => if d == 0x9A && e == 0x80 then 3 else 0
       | _ => 0)
    else if c == 0xE2 then
      (match r with
       | d :: e :: _ =>
         if d == 0x80 && ((0x80 ≤ e && e ≤ 0x8A) || e == 0xA8 || e == 0xA9 || e == 0xAF) then 3
         else if d == 0x81 && e == 0x9F then 3 else 0
       | _ => 0)
    else if c == 0xE3 then
      (match r with
       | d :: e :: _ => if d == 0x80 && e == 0x80 then 3 else 0
       | _ => 0)
    else 0

def flush (acc : Bytes) : List Bytes := if acc.isEmpty then [] else [acc.reverse]

/-- strings.Fields: `skip` = remaining bytes of the space rune being consumed, `acc` = current token reversed -/
def fieldsGo : Nat → Bytes → Bytes → List Bytes
  | _, [], acc => flush acc
  | k + 1, _ :: r, acc => fieldsGo k r acc
  | 0, c :: r, acc =>
    let n := spaceLen (c :: r)
    if n = 0 then fieldsGo 0 r (c :: acc) else flush acc ++ fieldsGo (n - 1) r []

def fields (s : Bytes) : List Bytes := fieldsGo 0 s []

/-- strings.TrimLeftFunc(s, unicode.IsSpace) -/
def trimLeftGo : Nat → Bytes → Bytes
  | _, [] => []
  | k + 1, _ :: r => trimLeftGo k r
  | 0, c :: r =>
    let n := spaceLen (c :: r)
    if n = 0 then c :: r else trimLeftGo (n - 1) r

/-- drop trailing spaces: `pend` = the run of space bytes seen since the last non-space byte (reversed) -/
def trimRightGo : Nat → Bytes → Bytes → Bytes
  | _, [], _ => []
  | k + 1, c :: r, pend => trimRightGo k r (c :: pend)
  | 0, c :: r, pend =>
    let n := spaceLen (c :: r)
    if n = 0 then pend.reverse ++ c :: trimRightGo 0 r [] else trimRightGo (n - 1) r (c :: pend)

/-- strings.TrimSpace -/
def trimSpace (s : Bytes) : Bytes := trimRightGo 0 (trimLeftGo 0 s) []

/-- regexp `\s` (RE2): `[\t\n\f\r ]` — no VT, no Unicode spaces -/
def isReSpace (c : Nat) : Bool := c == 9 || c == 10 || c == 12 || c == 13 || c == 32

/-- the itemtype loop's tokens: maximal runs of non-`\s` bytes, in order -/
def typeTokensGo : Bytes → Bytes → List Bytes
  | [], acc => flush acc
  | c :: r, acc => if isReSpace c then flush acc ++ typeTokensGo r [] else typeTokensGo r (c :: acc)

def typeTokens (s : Bytes) : List Bytes := typeTokensGo s []

/-! ## terms, statements, state -/

/-- rdf.SubjectValue as the decoder makes it: `rdf.IRI(string)` or a factory blank node -/
inductive Subj where
  | iri (v : Bytes)
  | bn (k : Nat)
  deriving Repr, DecidableEq, Inhabited

def Subj.term : Subj → Term Nat
  | .iri v => .iri v
  | .bn k => .bnode k

abbrev Stmt := Triple Nat

def rdfType : Bytes := asc "http://www.w3.org/1999/02/22-rdf-syntax-ns#type"

def strLit (v : Bytes) : Term Nat := .lit v xsdString none

inductive Bad where
  | outOfFuel
  | panic
  deriving Repr, DecidableEq, Inhabited

structure St where
  /-- ResolvedItemscopes (newest first) -/
  resolved : List (Nat × Subj) := []
  nextBn : Nat := 0
  /-- w.statements, newest first -/
  out : List Stmt := []
  /-- laxContentAttributeHook calls (node identity), newest first -/
  hooks : List Nat := []
  /-- number of `walk` calls so far -/
  steps : Nat := 0
  /-- number of item expansions (first visits of an itemscope element) so far -/
  expansions : Nat := 0
  /-- number of RecursedItemrefs entries copied so far (`for k, v := range ectx.RecursedItemrefs` before every
      itemref jump: the cost behind the quadratic behaviour listed as C05X-microdata-itemref) -/
  copies : Nat := 0
  bad : Option Bad := none
  deriving Repr, Inhabited

def St.lookup (st : St) (id : Nat) : Option Subj :=
  match st.resolved.find? (fun e => e.1 == id) with
  | some e => some e.2
  | none => none

def St.emit (st : St) (t : Stmt) : St := { st with out := t :: st.out }
def St.fail (st : St) (b : Bad) : St := { st with bad := (match st.bad with | some x => some x | none => some b) }

structure Env where
  resolve : Bytes → Option Bytes
  normType : Bytes → Bytes
  vocab : List Bytes → Bytes → Option Bytes
  timeMaps : List (Bytes → Option (Term Nat))
  meterMaps : List (Bytes → Option (Term Nat))
  lax : Bool
  laxUse : Bool
  hook : Bool

/-- evaluationContext (the parts that matter for the triples) -/
structure Ctx where
  subj : Option Subj := none
  types : List Bytes := []
  recursed : List Bytes := []
  deriving Repr, Inhabited

structure ItemAttrs where
  itemid : Bytes := []
  itemprop : Bytes := []
  itemref : Bytes := []
  itemscope : Bool := false
  itemtype : Bytes := []
  deriving Repr, DecidableEq, Inhabited

def kItemid : Bytes := asc "itemid"
def kItemprop : Bytes := asc "itemprop"
def kItemref : Bytes := asc "itemref"
def kItemscope : Bytes := asc "itemscope"
def kItemtype : Bytes := asc "itemtype"

/-- the `for attrIdx, attr := range n.Attr` switch: later attributes overwrite earlier ones -/
def scanAttrs : List Attr → ItemAttrs → ItemAttrs
  | [], acc => acc
  | a :: rest, acc =>
    if a.ns ≠ [] then scanAttrs rest acc
    else if a.key = kItemid then scanAttrs rest { acc with itemid := a.val }
    else if a.key = kItemprop then scanAttrs rest { acc with itemprop := a.val }
    else if a.key = kItemref then scanAttrs rest { acc with itemref := a.val }
    else if a.key = kItemscope then scanAttrs rest { acc with itemscope := true }
    else if a.key = kItemtype then scanAttrs rest { acc with itemtype := a.val }
    else scanAttrs rest acc

/-- iterateItemprops: the predicates, in order (`known` = knownItemprops) -/
def propNamesGo (E : Env) (types : List Bytes) : List Bytes → List Bytes → List Bytes
  | [], _ => []
  | tok :: rest, known =>
    if tok.isEmpty then propNamesGo E types rest known
    else if known.contains tok then propNamesGo E types rest known
    else
      match E.vocab types tok with
      | none => propNamesGo E types rest (tok :: known)
      | some p => p :: propNamesGo E types rest (tok :: known)

def propNames (E : Env) (types : List Bytes) (attr : Bytes) : List Bytes :=
  propNamesGo E types (fields (trimSpace attr)) []

def emitAll (s : Subj) (o : Term Nat) : List Bytes → St → St
  | [], st => st
  | p :: ps, st => emitAll s o ps (st.emit ⟨s.term, p, o⟩)

/-- parseMicrodataItempropAttr: the first un-namespaced attribute named `key` -/
def findAttr (key : Bytes) : List Attr → Option Bytes
  | [] => none
  | a :: rest => if a.ns ≠ [] then findAttr key rest else if a.key = key then some a.val else findAttr key rest

mutual
/-- collectTextContent -/
def textContent : Node → Bytes
  | .mk _ t _ _ d _ ks => (if t = 1 then d else []) ++ textContentL ks
def textContentL : List Node → Bytes
  | [] => []
  | k :: ks => textContent k ++ textContentL ks
end

/-- itempropAttrIRI -/
def iriValue (E : Env) (v : Bytes) : Term Nat :=
  match E.resolve v with
  | some r => .iri r
  | none => .iri v

/-- the `if mapped, err := Map…(v); err == nil` chains of itempropAttrTime / itempropAttrMeter -/
def firstMap (v : Bytes) : List (Bytes → Option (Term Nat)) → Term Nat
  | [] => strLit v
  | f :: fs => match f v with | some t => t | none => firstMap v fs

inductive ValueKind where
  | content | src | href | data | value | meter | time | other
  deriving Repr, DecidableEq, Inhabited

def kindOfAtom (a : Bytes) : ValueKind :=
  if a = asc "meta" then .content
  else if a = asc "audio" ∨ a = asc "embed" ∨ a = asc "iframe" ∨ a = asc "img" ∨ a = asc "source" ∨ a = asc "track"
          ∨ a = asc "video" then .src
  else if a = asc "a" ∨ a = asc "area" ∨ a = asc "link" then .href
  else if a = asc "object" then .data
  else if a = asc "data" then .value
  else if a = asc "meter" then .meter
  else if a = asc "time" then .time
  else .other

/-- the tail of parseMicrodataItemvalue: lax @content, else textContent. Returns the value and whether the hook
    was called. -/
def laxOrText (E : Env) (n : Node) : Term Nat × Bool :=
  if E.lax then
    match findAttr (asc "content") n.attrs with
    | some v =>
      if E.hook then
        (if !E.laxUse then (strLit (textContent n), true) else (strLit v, true))
      else (strLit v, false)
    | none => (strLit (textContent n), false)
  else (strLit (textContent n), false)

/-- parseMicrodataItemvalue -/
def itemValue (E : Env) (n : Node) : Term Nat × Bool :=
  match kindOfAtom n.atom with
  | .content => (match findAttr (asc "content") n.attrs with | some v => (strLit v, false) | none => (strLit [], false))
  | .src => (match findAttr (asc "src") n.attrs with | some v => (iriValue E v, false) | none => (strLit [], false))
  | .href => (match findAttr (asc "href") n.attrs with | some v => (iriValue E v, false) | none => (strLit [], false))
  | .data => (match findAttr (asc "data") n.attrs with | some v => (iriValue E v, false) | none => (strLit [], false))
  | .value => (match findAttr (asc "value") n.attrs with | some v => (strLit v, false) | none => (strLit [], false))
  | .meter => (match findAttr (asc "value") n.attrs with | some v => (firstMap v E.meterMaps, false) | none => (strLit [], false))
  | .time => (match findAttr (asc "datetime") n.attrs with | some v => (firstMap v E.timeMaps, false) | none => laxOrText E n)
  | .other => laxOrText E n

/-- the itemtype loop: one rdf:type statement per token; returns nextItemtypes. An empty token is Go's
    `panic("should not have found an empty match")`. -/
def emitTypes (E : Env) (s : Subj) : List Bytes → St → List Bytes × St
  | [], st => ([], st)
  | tok :: rest, st =>
    if tok.isEmpty then ([], st.fail .panic)
    else
      let o := E.normType tok
      let (ts, st') := emitTypes E s rest (st.emit ⟨s.term, rdfType, .iri o⟩)
      (o :: ts, st')

/-- subject of an item element -/
def itemSubject (E : Env) (a : ItemAttrs) (resolved : Option Subj) (st : St) : Subj × St :=
  if a.itemid ≠ [] then
    let v := trimSpace a.itemid
    (match E.resolve v with | some r => .iri r | none => .iri v, st)
  else
    match resolved with
    | some s => (s, st)
    | none => (.bn st.nextBn, { st with nextBn := st.nextBn + 1 })

/-- `for c := n.FirstChild; c != nil; c = c.NextSibling { w.walk(ectx, c) }`, `w` = the recursive call -/
def walkKidsWith (w : Ctx → Node → St → St) (ctx : Ctx) (ks : List Node) (st : St) : St :=
  ks.foldl (fun st k => w ctx k st) st

/-- one round of the `for _, itemref := range strings.Fields(...)` loop of an item element `n` -/
def itemrefStep (w : Ctx → Node → St → St) (doc : Node) (ctx : Ctx) (n : Node) (st : St) (ref : Bytes) : St :=
  if ref.isEmpty then st
  else
    match findId doc ref with
    | none => st
    | some target =>
      if target.id = n.id then st
      else if ctx.recursed.contains ref then st
      else w { ctx with recursed := ref :: ctx.recursed } target { st with copies := st.copies + ctx.recursed.length }

def itemrefsWith (w : Ctx → Node → St → St) (doc : Node) (ctx : Ctx) (n : Node) (refs : List Bytes) (st : St) : St :=
  refs.foldl (itemrefStep w doc ctx n) st

/-- the part of `walk` for an element with `itemscope` that has not been reached before -/
def expandItem (E : Env) (w : Ctx → Node → St → St) (doc : Node) (ctx : Ctx) (n : Node) (a : ItemAttrs) (next : Subj)
    (st : St) : St :=
  let r := if a.itemtype ≠ [] then emitTypes E next (typeTokens a.itemtype) st else ([], st)
  let ctx' : Ctx := { ctx with subj := some next, types := r.1 }
  let st1 : St := { r.2 with resolved := (n.id, next) :: r.2.resolved, expansions := r.2.expansions + 1 }
  let st2 := if a.itemref ≠ [] then itemrefsWith w doc ctx' n (fields (trimSpace a.itemref)) st1 else st1
  walkKidsWith w ctx' n.kids st2

/-- the `itemprop` statements of an item element (subject = the enclosing item, object = this item) -/
def linkItem (E : Env) (ctx : Ctx) (a : ItemAttrs) (next : Subj) (st : St) : St :=
  if a.itemprop ≠ [] then
    match ctx.subj with
    | none => st
    | some cur => emitAll cur next.term (propNames E ctx.types a.itemprop) st
  else st

/-- the `itemprop` statements of an element without `itemscope` -/
def propElem (E : Env) (ctx : Ctx) (n : Node) (a : ItemAttrs) (st : St) : St :=
  if a.itemprop ≠ [] then
    match ctx.subj with
    | none => st
    | some cur =>
      let (o, hooked) := itemValue E n
      let st := if hooked then { st with hooks := n.id :: st.hooks } else st
      emitAll cur o (propNames E ctx.types a.itemprop) st
  else st

/-- the `if attrItemscope { … }` branch of `walk`, `st0` = the state on entry -/
def visitItem (E : Env) (w : Ctx → Node → St → St) (doc : Node) (ctx : Ctx) (n : Node) (a : ItemAttrs) (st0 : St) : St :=
  let r := itemSubject E a (st0.lookup n.id) st0
  let stL := linkItem E ctx a r.1 r.2
  match st0.lookup n.id with
  | some _ => stL
  | none => expandItem E w doc ctx n a r.1 stL

/-- the body of Decoder.walk, `w` = the recursive call -/
def walkStep (E : Env) (w : Ctx → Node → St → St) (doc : Node) (ctx : Ctx) (n : Node) (st : St) : St :=
  let st0 : St := { st with steps := st.steps + 1 }
  if n.ns ≠ [] then walkKidsWith w ctx n.kids st0
  else if (scanAttrs n.attrs {}).itemscope then visitItem E w doc ctx n (scanAttrs n.attrs {}) st0
  else walkKidsWith w ctx n.kids (propElem E ctx n (scanAttrs n.attrs {}) st0)

/-- Decoder.walk with a depth budget -/
def walk (E : Env) (doc : Node) : Nat → Ctx → Node → St → St
  | 0, _, _, st => st.fail .outOfFuel
  | fuel + 1, ctx, n, st => walkStep E (walk E doc fuel) doc ctx n st

/-- depth budget that `Props/C11Md.mdd_terminates_no_panic` proves sufficient:
    (number of nodes + 1) · (height + 1) -/
def fuelFor (doc : Node) : Nat := ((subnodes doc).length + 1) * (height doc + 1)

inductive Outcome where
  | ok (stmts : List Stmt) (hooks : List Nat)
  | outOfFuel
  | panic
  deriving Repr, DecidableEq, Inhabited

def finish (st : St) : Outcome :=
  match st.bad with
  | some .panic => .panic
  | some .outOfFuel => .outOfFuel
  | none => .ok st.out.reverse st.hooks.reverse

/-- the state after the first `Next` on an arbitrary (already identified) tree -/
def run (E : Env) (doc : Node) : St := walk E doc (fuelFor doc) {} doc {}

/-- `Decoder.Next` (first call) on the document whose root is `t`: all statements, in emission order -/
def decode (E : Env) (t : Node) : Outcome := finish (run E (relabel t))

/-- DecoderConfig.newDecoder: a non-empty document base URL that does not parse is the only error -/
def newDecoderOk (baseParses : Bytes → Bool) (base : Bytes) : Bool := base.isEmpty || baseParses base

end RdfModel.Mdd
