/-
  Part C10D (serves C10, C05, C06): theorems about `Model.JsonLdToRdf`, the executable model of the
  deserialize-to-RDF stage of /repo's JSON-LD decoder (the driver op `jld.run` runs these definitions).

  Termination: `decodeElement` and its seven companions are defined by structural recursion on the
  expanded tree (no fuel, no well-founded recursion), so the model is a total function: for EVERY
  tree the inductive type `Exp` admits, every option and every evaluation context it returns one of
  `ok` / `err` / `panic` — accepted by Lean's termination checker; nothing to assume.
-/
import RdfModel.Props.C10DDefs
import RdfModel.Props.C10Defs
import RdfModel.Proofs.C10DPanic
import RdfModel.Proofs.C10DFlat
import RdfModel.Proofs.C10DWf
namespace RdfModel.C10D
open RdfModel RdfModel.Desc RdfModel.JLD

/-- **C05, deserialize stage.** On every expanded tree in which no scalar primitive carries a nil
    inspectjson.Value and no value makes AsBuiltin/json.Encode panic (`ExpOK`, checked by the harness on
    every output of the real expansion), under every rdfDirection setting (also the ones newDecoder
    rejects) and from every evaluation context, decodeElement does not panic. -/
theorem jld_tordf_no_panic (cfg : Cfg) (c : ECtx) (e : Exp) (n : Nat) (h : ExpOK e = true) :
    decodeElement cfg c e n ≠ .panic :=
  Proofs.C10D.decodeElement_np cfg c e n h

/-- the whole run (parseRoot after expansion + the Next protocol) does not panic -/
theorem jld_run_no_panic (cfg : Cfg) (e : Exp) (h : ExpOK e = true) : run cfg e ≠ .panic := by
  have := jld_tordf_no_panic cfg ECtx.root e 0 h
  unfold run decodeRoot
  split <;> simp_all

/-- a tree with several node objects, a list, a typed value and a native number satisfying `ExpOK` -/
def okTree : Exp :=
  .arr [.obj [(kId, .prim (.str (asc "http://e/s")) .absent),
              (asc "http://e/p", .arr [.obj [(kList, .arr [.obj [(kValue, .prim (.num (.fin false [1, 5] 0)) (.text (asc "1.5")))]])],
                                       .obj [(kType, .prim (.str (asc "@json")) .absent), (kValue, .prim .object (.text (asc "{}")))]])]]

example : ExpOK okTree = true := by decide
example : (run ⟨.none⟩ okTree matches .done (_ :: _ :: _ :: _) none) = true := by decide

/-- The invariant is needed: a value object whose `@value` primitive holds a nil inspectjson.Value makes
    the model (and, replayed through the hook, the Go code: `valuePrimitive.GetGrammarName()` on a nil
    interface in the `default:` case of decodeValueNode) panic. -/
def nilValueTree : Exp := .obj [(asc "http://e/p", .arr [.obj [(kValue, .prim .nil .absent)]])]

theorem jld_panics_without_expok : ExpOK nilValueTree = false ∧ run ⟨.none⟩ nilValueTree = .panic := by decide

/-- … and so does `@type: @json` over a value on which AsBuiltin panics. -/
theorem jld_json_panics_without_expok :
    run ⟨.none⟩ (.obj [(asc "http://e/p", .arr [.obj [(kType, .prim (.str kJson) .absent), (kValue, .prim .object .panics)]])]) = .panic := by
  decide


/-- The statement of the task at full strength: for every `C10.WFDataset`. It is FALSE (see
    `flat_drops_untagged`): `C10.WFDataset` admits an untagged literal whose datatype is rdf:langString or
    rdf:dirLangString, the fragment semantics keeps it, the decoder drops it (deliberately: the repair of
    the C06 finding "explicit rdf:langString datatype yielded a tagged-string literal without a tag"). -/
def jld_refines_fragment : Prop :=
  ∀ (cfg : Cfg) (name : Nat → Str), (∀ b, name b ≠ []) → ∀ d : List (DQuad Nat), C10.WFDataset d →
    run cfg (expandFlat (JL.writeFlat name d)) = .done (d.map (toRQ name)) none

/-- **Refinement on flattened expanded documents (partial).** For every well-formed dataset `d`
    (`C10.WFDataset`, as in `writeFlat_denotes`) without untagged rdf:langString / rdf:dirLangString
    literals (`NoUntaggedLangString`, decidable; the only gap to the full statement), every labelling of
    its blank nodes by non-empty labels and every rdfDirection, the decoder model run on the expansion
    of `JL.writeFlat name d` (`expandFlat`, tied to jsonldinternal.Expand by T3) ends without error and
    yields EXACTLY the quads of `d`, in order, blank node `b` as `_:name b` — no blank node is generated. -/
theorem jld_refines_fragment_partial {β : Type} (cfg : Cfg) (name : β → Str) (hne : ∀ b, name b ≠ [])
    (d : List (DQuad β)) (hwf : C10.WFDataset d) (hpl : NoUntaggedLangString d) :
    run cfg (expandFlat (JL.writeFlat name d)) = .done (d.map (toRQ name)) none :=
  Proofs.C10D.run_flat cfg name hne d hwf hpl

/-- the excluded class is really excluded: the fragment semantics keeps the literal, the decoder model
    (and the Go decoder, replayed) yields nothing -/
def untaggedDataset : List (DQuad Nat) :=
  [⟨⟨.iri (asc "http://e.org/s"), asc "http://e.org/p", .lit (asc "x") rdfLangString none⟩, none⟩]

theorem flat_drops_untagged :
    C10.WFDataset untaggedDataset ∧ ¬ NoUntaggedLangString untaggedDataset ∧
    run ⟨.none⟩ (expandFlat (JL.writeFlat (fun _ => asc "b") untaggedDataset)) = .done [] none ∧
    (JL.toRdf true none (JL.writeFlat (fun _ => asc "b") untaggedDataset)).map List.length = some 1 := by decide

theorem jld_refines_fragment_false : ¬ jld_refines_fragment := by
  intro h
  have h1 := h ⟨.none⟩ (fun _ => asc "b") (by intro b; decide) untaggedDataset flat_drops_untagged.1
  rw [flat_drops_untagged.2.2.1] at h1
  exact absurd h1 (by decide)

/-- a quad of the fragment semantics as the decoder emits it -/
def ofQ (q : DQuad B) : RQ := ⟨some q.t.s, q.t.p, some q.t.o, q.g⟩

/-- **Round trip through the decoder MODEL.** Composition of `C10.writeFlat_denotes` (= `Proofs.C10.writeFlat_denotes`, used directly so that this
    part does not import Props/C10.lean, which another builder is editing) with
    `jld_refines_fragment_partial`: for every well-formed dataset without untagged rdf:langString
    literals, every processing mode, base and rdfDirection, the document `writeFlat name d` denotes (by
    the fragment semantics `JL.toRdf`) a dataset `out`, the decoder model run on its expansion yields
    exactly `out` (no error, same order), and `out` is `d` with blank node `b` renamed to `_:name b`. -/
theorem jld_flat_roundtrip {β : Type} (cfg : Cfg) (name : β → Str) (hne : ∀ b, name b ≠ []) (mode11 : Bool) (base : Option Str)
    (d : List (DQuad β)) (hwf : C10.WFDataset d) (hpl : NoUntaggedLangString d) :
    ∃ out, JL.toRdf mode11 base (JL.writeFlat name d) = some out ∧
      run cfg (expandFlat (JL.writeFlat name d)) = .done (out.map ofQ) none ∧
      out = d.map (DQuad.map (fun b => BN.orig (name b))) := by
  refine ⟨_, Proofs.C10.writeFlat_denotes name hne mode11 base d hwf, ?_, rfl⟩
  rw [jld_refines_fragment_partial cfg name hne d hwf hpl, List.map_map]
  rfl

namespace Witness
def name (n : Nat) : Str := JL.natDigits n
def d : List (DQuad Nat) :=
  [⟨⟨.iri (asc "http://e.org/s"), asc "http://e.org/p", .bnode 1⟩, none⟩,
   ⟨⟨.bnode 1, asc "http://e.org/q", .lit (asc "chat") rdfLangString (some (asc "fr"))⟩, some (.iri (asc "http://e.org/g"))⟩,
   ⟨⟨.bnode 1, asc "http://e.org/q", .lit (asc "1") (asc "http://www.w3.org/2001/XMLSchema#integer") none⟩, some (.bnode 2)⟩]
theorem wf : C10.WFDataset d := by decide
theorem plain : NoUntaggedLangString d := by decide
theorem flat_roundtrip : run ⟨.none⟩ (expandFlat (JL.writeFlat name d)) = .done (d.map (toRQ name)) none := by decide
theorem flat_sorted : (expandFlat (JL.writeFlat name d)).membersSorted = true := by decide
theorem flat_spec : (JL.toRdf true none (JL.writeFlat name d)).map (·.map fun q => (⟨some q.t.s, q.t.p, some q.t.o, q.g⟩ : RQ)) = some (d.map (toRQ name)) := by decide
end Witness

/-- **C06, deserialize stage.** Every statement decodeElement appends — also the statements appended
    before an error — is well-formed (`WfRQ`: subject an IRI or blank node, never nil; predicate a
    non-empty IRI; object never nil; a literal has a datatype, and a non-empty language tag exactly when
    its datatype is rdf:langString; no untagged rdf:langString / rdf:dirLangString; graph name nil, IRI
    or blank node), for every expanded tree the type `Exp` admits (no `ExpOK` needed), every counter,
    every evaluation context satisfying `ECtx.ok` (an active property comes with an IRI/blank-node
    subject and is not empty; the graph name is an IRI or blank node) and every rdfDirection newDecoder
    admits (`cfg.dir ≠ .other`; `wf_fails_for_other` shows the hypothesis is needed). -/
theorem jld_emits_wf (cfg : Cfg) (c : ECtx) (e : Exp) (n : Nat) (hdir : cfg.dir ≠ .other) (hc : ECtx.ok c = true) :
    ∀ q ∈ R.quads (decodeElement cfg c e n), WfRQ q = true :=
  Proofs.C10D.decodeElement_wf cfg hdir c (Proofs.C10D.ctxOK_of_ok hc) e n

example : ECtx.ok { graph := some (.bnode (.fresh 0)), subj := some (.iri (asc "http://e/s")), prop := some (asc "http://e/p"), rev := true } = true := by
  decide

/-- … and so is every statement a caller of Next/Quad sees (`run`: parseRoot from the root context,
    then the iteration protocol, which after an error still yields the first appended statement). -/
theorem jld_run_emits_wf (cfg : Cfg) (e : Exp) (hdir : cfg.dir ≠ .other) :
    ∀ qs er, run cfg e = .done qs er → ∀ q ∈ qs, WfRQ q = true := by
  intro qs er h q hq
  have hwf := jld_emits_wf cfg ECtx.root e 0 hdir (by decide)
  unfold run decodeRoot at h
  split at h
  · rename_i qs' n' heq
    simp only [Outcome.done.injEq] at h
    rw [heq] at hwf
    exact hwf q (by simpa [R.quads, h.1] using hq)
  · rename_i er' qs' heq
    simp only [Outcome.done.injEq] at h
    rw [heq] at hwf
    have : q ∈ qs' := by
      rw [← h.1] at hq
      exact List.mem_of_mem_take hq
    exact hwf q (by simpa [R.quads] using this)
  · simp at h

def wfTree : Exp :=
  .arr [.obj [(kId, .prim (.str (asc "_:s")) .absent), (kType, .arr [.prim (.str (asc "http://e/T")) .absent]),
              (asc "http://e/p", .arr [.obj [(kList, .arr [.obj [(kValue, .prim (.num (.fin false [1, 5] 0)) (.text (asc "1.5")))], .obj []])],
                                       .obj [(kDirection, .prim (.str (asc "rtl")) .absent), (kLanguage, .prim (.str (asc "EN")) .absent), (kValue, .prim (.str (asc "x")) .absent)]])]]

theorem wf_witness : ∀ d ∈ [RdfDir.none, .i18n, .compound], ∀ q ∈ R.quads (decodeRoot ⟨d⟩ wfTree), WfRQ q = true := by decide

/-- `cfg.dir ≠ .other` is needed: with an rdfDirection outside the two documented values (rejected by
    newDecoder) a value object with `@direction` but no `@language` yields rdf:dirLangString with an empty language -/
theorem wf_fails_for_other :
    decodeRoot ⟨.other⟩ (.obj [(asc "http://e/p", .arr [.obj [(kDirection, .prim (.str (asc "ltr")) .absent), (kValue, .prim (.str (asc "x")) .absent)]])]) =
      .ok [⟨some (.bnode (.fresh 0)), asc "http://e/p", some (.lit (asc "x") rdfDirLangString (some (asc "--ltr"))), none⟩] 1 := by decide

end RdfModel.C10D
