/-
  Part C09D2 — further theorems about the executable model of the RDF/XML decoder (Model/RdfXmlDecoder.lean, the
  model the driver op `rxd.dec` runs).  Serves C09 (refinement for a larger fragment), C05 (latch of the Next
  protocol), C15 (reader errors and truncation are never a clean end).  New file; nothing in Props/C09Dec.lean is
  changed.

  Proved here
    C09  `rxd_decode_render_full_partial`   decoder model on the tokens of a rendered well-formed plan of the
                                            FULL-PARTIAL fragment (striped fragment + parseType="Collection" whose
                                            items are rdf:about / rdf:nodeID nodes with leaf properties + rdf:type="…" and
                                            other rdf:-namespace property attributes on node elements and on empty
                                            property elements) = the intended
                                            triples up to a permutation, same blank nodes
         `rxd_refines_denote_full_partial`  … hence = `RX.denoteDoc` of the rendered tree up to a permutation
         `rxd_decode_write_full_partial`    decoder ∘ tokens ∘ `RX.write g ch` ≅ g for every choice in that fragment
         `rxd_refines_denote_id_conditional` with rdf:ID on node elements: duplicate-name error OR the denotation
                                            (that the error cannot occur on a well-formed plan stays the def
                                            `RxdNoSpuriousDuplicate`)
    C05  `rxd_latch`                        Next protocol over `decode`: after the first `false`, every further `Next`
                                            is `false`, `Err` and the statements do not change
         `rxd_next_true_has_triple`         after `true`, `Triple()` indexes inside `statements`
         `rxd_next_no_panic`                Next never panics (from `rxd_no_panic`)
    C15  `rxd_ioerr_reported`               terminator io ⇒ never a clean end; a run that is clean with EOF reports
                                            exactly the reader error when the reader fails instead, and every
                                            decoder-level error is the same under both endings
         `rxd_truncation_reported`          a token list that leaves an element open (depth > 0) never ends cleanly,
                                            whatever the terminator; `rxd_cut_inside_root`: every proper non-empty
                                            prefix of the token stream of a document tree is such a list
         determinism / chunk independence: `decode` is a FUNCTION of (parameters, default base, token list,
         terminator); how the reader chunks the bytes is not an input of the model at all (encoding/xml's tokenizer
         sits between the reader and the model and is outside), so there is nothing to prove beyond functionhood —
         `rxd_deterministic` records it.
  Still NOT proved (`RxdRefinesDenote` of Props/C09Dec.lean stays a def): collections whose items generate blank
  nodes (anonymous items, items with nested anonymous nodes / parseType="Resource": the decoder numbers the cell
  after the item, the denotation before — needs the cell/item renaming, witnessed only by the kernel-evaluated
  instance `C09Dec.Witness.rxd_refines_denote_witness`), rdf:ID on node elements (used-ID bookkeeping of the two
  sides: decoder keys by map identity, denotation by base IRI), token streams that are not the canonical stream
  of a rendered plan.
-/
import RdfModel.Props.C09Dec
import RdfModel.Props.C09Dec2Defs
import RdfModel.Proofs.C09Dec2Proto
import RdfModel.Proofs.C09Dec2Trunc
import RdfModel.Proofs.C09Dec2Sim
import RdfModel.Proofs.C09Dec2Id
namespace RdfModel.C09Dec2
open RdfModel RdfModel.Desc RdfModel.RX RdfModel.RXD RdfModel.C09Dec

/-! ## C09: refinement for the full-partial fragment -/

theorem rxd_decode_render_full_partial (rs : Str → Str → Str) (hf : EmptyRefNoFrag rs) (render : List Tok → Option Str)
    (hr : ∀ c, render [.chars c] = some c) (base : Str) (d : PDoc) (hs : fullDoc d = true)
    (hwf : wfDoc rs ⟨base, none⟩ d = true) :
    ∃ ts, decode (mkP rs render) (some base) (tokensDoc (renderDoc d)) .eof = .ok ts ∧ ts.Perm (flatDoc d) :=
  docS2 hf hr base d hs hwf

/-- `RxdRefinesDenote` restricted to rendered plans of the full-partial fragment, with the identity renaming -/
theorem rxd_refines_denote_full_partial (rs : Str → Str → Str) (hf : EmptyRefNoFrag rs) (render : List Tok → Option Str)
    (hr : ∀ c, render [.chars c] = some c) (base : Str) (d : PDoc) (hs : fullDoc d = true)
    (hwf : wfDoc rs ⟨base, none⟩ d = true) :
    ∃ ts ds, decode (mkP rs render) (some base) (tokensDoc (renderDoc d)) .eof = .ok ts ∧
      denoteDoc rs ⟨base, none⟩ (renderDoc d) = .ok ds ∧ ts.Perm ds := by
  obtain ⟨ts, h1, h2⟩ := rxd_decode_render_full_partial rs hf render hr base d hs hwf
  exact ⟨ts, flatDoc d, h1, C09.denote_render rs ⟨base, none⟩ d hwf, h2⟩

theorem rxd_decode_write_full_partial {β : Type} (rs : Str → Str → Str) (hf : EmptyRefNoFrag rs)
    (render : List Tok → Option Str) (hr : ∀ c, render [.chars c] = some c) (base : Str) (label : β → Str)
    (hl : C09.LabelsOK label) (g : List (Triple β)) (hg : ∀ t ∈ g, C09.TripleOK rs base t) (ch : Choices β)
    (hs : fullDoc ch.plan = true) :
    ∃ (out : List T) (σ : β → BN),
      decode (mkP rs render) (some base) (tokensDoc (write rs base label g ch)) .eof = .ok out ∧
      out.Perm (g.map (Triple.map σ)) ∧ (σ = ch.rename ∨ σ = fun b => BN.named (label b)) := by
  unfold write
  split
  · rename_i hc
    simp only [Bool.and_eq_true, List.isPerm_iff] at hc
    obtain ⟨ts, h1, h2⟩ := rxd_decode_render_full_partial rs hf render hr base _ hs hc.1
    exact ⟨ts, ch.rename, h1, h2.trans hc.2, .inl rfl⟩
  · exact ⟨_, _, rxd_decode_write_flat rs hf render hr base label hl g hg, List.Perm.refl _, .inr rfl⟩

namespace Witness
def s (x : String) : Str := asc x
def ex : Str := s "http://e/"

/-- a plan with a reified three-item collection (typed item with a property, rdf:nodeID item, plain item), an empty
    collection inside parseType="Resource", next to the striped productions -/
def cplan : PDoc :=
  { sc := { base := some (s "http://b/d/") }
    nodes := [
      .mk {} (.about (s "http://b/d/a") (s "a")) none
        [.lit rdfNS (s "value") (s "v") none, .type (s "http://b/d/C") (s "C"), .lit ex (s "pa") (s "w") none,
         .lit rdfNS (s "_7") (s "z") none]
        [.ptColl { lang := some (s "en") } (.el ex (s "list")) (some (s "http://b/d/#r", s "r")) [0, 1, 2]
           [.mk {} (.about (s "http://b/d/i1") (s "i1")) (some (ex, s "T")) [.type (s "http://b/d/K") (s "K")]
              [.lit {} (.el ex (s "p")) none (s "x") (some (s "en")),
               .res {} (.el ex (s "q")) none (s "http://b/d/o") (s "o") []],
            .mk {} (.nodeID (s "n")) none [] [],
            .mk {} (.about (s "http://o/i3") (s "http://o/i3")) none [] []],
         .ptRes {} (.el ex (s "u")) none 3 [.ptColl {} (.li (rdfMember 1)) none [] []],
         .res {} (.el ex (s "q")) none (s "http://b/d/o") (s "o") [.type (s "http://b/d/C") (s "C"), .lit ex (s "pb") (s "1") none],
         .node {} (.el ex (s "w")) none (.mk {} (.anon 4) none [] [])] ] }

theorem cplan_full : fullDoc cplan = true := by decide
theorem cplan_wf : wfDoc Spec.RFC3986.resolve ⟨s "http://b/doc", none⟩ cplan = true := by decide

/-- the hypotheses of `rxd_decode_render_full_partial` are satisfiable by a plan with collections -/
example : ∃ ts, decode (mkP Spec.RFC3986.resolve LeafWitness.render) (some (s "http://b/doc")) (tokensDoc (renderDoc cplan)) .eof = .ok ts ∧
    ts.Perm (flatDoc cplan) :=
  rxd_decode_render_full_partial _ C09Dec.emptyRefNoFrag_rfc3986 LeafWitness.render (fun _ => rfl) _ cplan cplan_full cplan_wf
example : (flatDoc cplan).length = 25 := by decide
end Witness


/-! ### rdf:ID on node elements (conditional) -/

/-- **rdf:ID on node elements, conditionally.**  For well-formed plans of the fragment `idDoc` (the full-partial
    fragment with ANY subject form on node elements outside collections, rdf:ID included) the decoder model either
    reports its duplicate-name error or yields the intended triples (= `RX.denoteDoc`) up to a permutation.  What is
    NOT proved is that the first alternative cannot happen (`RxdNoSpuriousDuplicate`): the decoder keys used IDs by the
    identity of the `UsedIDs` map (a fresh map per xml:base attribute), the denotation by the base IRI; relating the
    two needs an invariant over map identities that the simulation lemmas of part C09D do not expose. -/
theorem rxd_refines_denote_id_conditional (rs : Str → Str → Str) (hf : EmptyRefNoFrag rs) (render : List Tok → Option Str)
    (hr : ∀ c, render [.chars c] = some c) (base : Str) (d : PDoc) (hs : idDoc d = true)
    (hwf : wfDoc rs ⟨base, none⟩ d = true) :
    (∃ ts, decode (mkP rs render) (some base) (tokensDoc (renderDoc d)) .eof = .err .duplicateName ts) ∨
    ∃ ts ds, decode (mkP rs render) (some base) (tokensDoc (renderDoc d)) .eof = .ok ts ∧
      denoteDoc rs ⟨base, none⟩ (renderDoc d) = .ok ds ∧ ts.Perm ds := by
  rcases docS3 hf hr base d hs hwf with h | ⟨ts, h1, h2⟩
  · exact .inl h
  · exact .inr ⟨ts, flatDoc d, h1, C09.denote_render rs ⟨base, none⟩ d hwf, h2⟩

/-- the missing half (NOT proved; T3 only): on a well-formed plan the decoder's uniqueness check does not fire -/
def RxdNoSpuriousDuplicate : Prop :=
  ∀ (rs : Str → Str → Str) (render : List Tok → Option Str) (base : Str) (d : PDoc), EmptyRefNoFrag rs →
    idDoc d = true → wfDoc rs ⟨base, none⟩ d = true →
    ∀ ts, decode (mkP rs render) (some base) (tokensDoc (renderDoc d)) .eof ≠ .err .duplicateName ts

namespace Witness
/-- rdf:ID subjects: the same ID value under two different xml:base scopes, and a nested one -/
def iplan : PDoc :=
  { sc := {}
    nodes := [
      .mk { base := some (s "http://b/one") } (.id (s "http://b/one#x") (s "x")) none [] [],
      .mk { base := some (s "http://b/two") } (.id (s "http://b/two#x") (s "x")) (some (ex, s "T")) []
        [.node {} (.el ex (s "p")) none (.mk {} (.id (s "http://b/two#y") (s "y")) none [] [])] ] }

theorem iplan_id : idDoc iplan = true := by decide
theorem iplan_wf : wfDoc Spec.RFC3986.resolve ⟨s "http://b/doc", none⟩ iplan = true := by decide

example : (∃ ts, decode (mkP Spec.RFC3986.resolve LeafWitness.render) (some (s "http://b/doc")) (tokensDoc (renderDoc iplan)) .eof = .err .duplicateName ts) ∨
    ∃ ts ds, decode (mkP Spec.RFC3986.resolve LeafWitness.render) (some (s "http://b/doc")) (tokensDoc (renderDoc iplan)) .eof = .ok ts ∧
      denoteDoc Spec.RFC3986.resolve ⟨s "http://b/doc", none⟩ (renderDoc iplan) = .ok ds ∧ ts.Perm ds :=
  rxd_refines_denote_id_conditional _ C09Dec.emptyRefNoFrag_rfc3986 LeafWitness.render (fun _ => rfl) _ iplan iplan_id iplan_wf

/-- on this instance the second alternative holds (kernel evaluation) -/
example : decode (mkP Spec.RFC3986.resolve LeafWitness.render) (some (s "http://b/doc")) (tokensDoc (renderDoc iplan)) .eof =
    .ok (flatDoc iplan) := by decide
end Witness

/-! ## C05: the Next protocol -/

/-- **Latch.**  For every decoder state in which `Next` has just returned false — whatever the parameters, the
    token stream and the terminator, whether the end was clean, an error, or there was nothing to read — every
    further call of `Next` returns false and neither `Err` nor the statements change. -/
theorem rxd_latch (P : Params) (d : Dec) (h : (d.next P).1 = .no) (n : Nat) :
    (∀ o ∈ (Dec.nextN P n (d.next P).2).1, o = .no) ∧
    (Dec.nextN P n (d.next P).2).2.err = (d.next P).2.err ∧
    (Dec.nextN P n (d.next P).2).2.stmts = (d.next P).2.stmts :=
  nextN_of_done P n _ (done_of_no P d h)

/-- when `Next` returns true the statement accessor indexes inside `d.statements` (states reachable from `Dec.init`
    have `-1 ≤ idx`) -/
theorem rxd_next_true_has_triple (P : Params) (d : Dec) (hd : -1 ≤ d.idx) (h : (d.next P).1 = .yes) :
    ((d.next P).2.triple).isSome :=
  triple_of_yes P d hd h

theorem rxd_next_no_panic (P : Params) (hP : P.EmptyRefOK) (d : Dec) : (d.next P).1 ≠ .panic := by
  unfold Dec.next
  have := rxd_no_panic P hP d.base d.toks d.fin
  repeat' split
  all_goals first | contradiction | (simp; done) | (simp only []; split <;> simp)

/-- non-vacuity: an empty document latches at the first call, a failing one too -/
example : ((Dec.init none [] .eof).next rfcParams).1 = .no := by decide
example : ((Dec.init none [.directive []] .eof).next rfcParams).1 = .no := by decide

/-! ## C15: the terminator is never lost -/

/-- **A reader error is reported.**  With terminator `io` the decoder model never ends cleanly; if the same tokens
    followed by a clean EOF decode to `ts`, the verdict is exactly the reader error (the statements stay hidden);
    and an error of the decoder's own is the same under both endings. -/
theorem rxd_ioerr_reported (P : Params) (base : Option Str) (toks : List Tok) :
    (∀ ts, decode P base toks .io ≠ .ok ts) ∧
    (∀ ts, decode P base toks .eof = .ok ts → decode P base toks .io = .err .io ts) ∧
    (∀ e ts, decode P base toks .eof = .err e ts → e ≠ .eofInside → decode P base toks .io = .err e ts) :=
  run_io P _ _ _ toks

/-- **Truncation is reported.**  A token list after which some element is still open (`depthAfter 0 toks > 0`:
    every start tag counts +1, every end tag −1) never decodes cleanly, whatever the terminator (encoding/xml reports
    `syntax` there; a clean EOF inside an element would be `eofInside`). -/
theorem rxd_truncation_reported (P : Params) (base : Option Str) (toks : List Tok) (fin : Fin)
    (h : 0 < depthAfter 0 toks) : ∀ ts, decode P base toks fin ≠ .ok ts := by
  intro ts hok
  have := (run_ok_depth P _ [] St.init toks fin ts hok).1
  simp only [height, List.map_nil, List.sum_nil] at this
  omega

/-- a clean end needs the clean terminator -/
theorem rxd_clean_needs_eof (P : Params) (base : Option Str) (toks : List Tok) (fin : Fin) (ts : List T)
    (h : decode P base toks fin = .ok ts) : fin = .eof :=
  (run_ok_depth P _ [] St.init toks fin ts h).2

/-- every proper non-empty prefix of the token stream of a document tree leaves the root element open, so by
    `rxd_truncation_reported` a document cut anywhere inside its root element is never decoded cleanly -/
theorem rxd_cut_inside_root (P : Params) (base : Option Str) (ns name : Str) (attrs : List Attr) (kids : List Node)
    (p q : List Tok) (h : tokensDoc (.elem ns name attrs kids) = p ++ q) (hp : p ≠ []) (hq : q ≠ []) (fin : Fin) :
    ∀ ts, decode P base p fin ≠ .ok ts :=
  rxd_truncation_reported P base p fin (cut_inside_root ns name attrs kids p q h hp hq)

/-- the hypothesis of `rxd_cut_inside_root` is satisfiable: the witness tree cut after 5 of its 22 tokens -/
example : ∀ ts, decode rfcParams (some (asc "http://b/doc")) ((tokensDoc C09Dec.Witness.wTree).take 5) .syntax ≠ .ok ts := by
  have h : tokensDoc C09Dec.Witness.wTree = (tokensDoc C09Dec.Witness.wTree).take 5 ++ (tokensDoc C09Dec.Witness.wTree).drop 5 :=
    (List.take_append_drop 5 _).symm
  exact rxd_cut_inside_root rfcParams _ _ _ _ _ _ _ h (by decide) (by decide) .syntax

/-- determinism: the verdict is a function of the token list and the terminator -/
theorem rxd_deterministic (P : Params) (base : Option Str) (toks toks' : List Tok) (fin fin' : Fin)
    (h1 : toks = toks') (h2 : fin = fin') : decode P base toks fin = decode P base toks' fin' := by
  subst h1; subst h2; rfl

end RdfModel.C09Dec2
