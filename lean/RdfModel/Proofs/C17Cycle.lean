/-
  C17 helper lemmas, part 7: the decidable `Acyclic1` agrees with the graph-theoretic statement
  "no closed walk through once-referenced blank nodes"; divergence of the export on such a walk.
-/
import RdfModel.Proofs.C17Term
namespace RdfModel.Proofs.C17
open RdfModel RdfModel.Desc RdfModel.C17

variable {β : Type} [DecidableEq β]

/-! ### walks -/

omit [DecidableEq β] in
theorem walk_cons_cons {T : List (Triple β)} {a c : β} {rest : List β} :
    Walk T (a :: c :: rest) ↔ Edge T c a ∧ Walk T (c :: rest) := Iff.rfl

omit [DecidableEq β] in
theorem walk_tail {T : List (Triple β)} {a : β} {l : List β} (h : Walk T (a :: l)) : Walk T l := by
  cases l with
  | nil => trivial
  | cons c rest => exact h.2

omit [DecidableEq β] in
theorem walk_append_right {T : List (Triple β)} : ∀ (l₁ l₂ : List β), Walk T (l₁ ++ l₂) → Walk T l₂ := by
  intro l₁
  induction l₁ with
  | nil => intro l₂ h; exact h
  | cons a l ih => intro l₂ h; exact ih l₂ (walk_tail h)

omit [DecidableEq β] in
theorem walk_append_left {T : List (Triple β)} : ∀ (l₁ l₂ : List β), Walk T (l₁ ++ l₂) → Walk T l₁ := by
  intro l₁
  induction l₁ with
  | nil => intro _ _; trivial
  | cons a l ih =>
    intro l₂ h
    cases l with
    | nil => trivial
    | cons c rest =>
      exact ⟨h.1, ih l₂ h.2⟩

omit [DecidableEq β] in
/-- every node but the last is referenced by a node of the walk -/
theorem walk_referenced {T : List (Triple β)} : ∀ (l : List β) (z : β), Walk T (l ++ [z]) →
    ∀ b ∈ l, ∃ b' ∈ l ++ [z], Edge T b' b := by
  intro l
  induction l with
  | nil => intro z _ b hb; cases hb
  | cons x l ih =>
    intro z h b hb
    cases l with
    | nil =>
      simp only [List.mem_singleton] at hb
      subst hb
      exact ⟨z, by simp, h.1⟩
    | cons y l' =>
      rcases List.mem_cons.1 hb with rfl | hb'
      · exact ⟨y, by simp, h.1⟩
      · obtain ⟨b', hb'm, he⟩ := ih z h.2 b hb'
        exact ⟨b', by simp at hb'm ⊢; right; exact hb'm, he⟩

omit [DecidableEq β] in
/-- every node but the first references a node of the walk -/
theorem walk_references {T : List (Triple β)} : ∀ (x : β) (l : List β), Walk T (x :: l) →
    ∀ b ∈ l, ∃ b' ∈ x :: l, Edge T b b' := by
  intro x l
  induction l generalizing x with
  | nil => intro _ b hb; cases hb
  | cons y l' ih =>
    intro h b hb
    rcases List.mem_cons.1 hb with rfl | hb'
    · exact ⟨x, by simp, h.1⟩
    · obtain ⟨b', hb'm, he⟩ := ih y h.2 b hb'
      exact ⟨b', by simp at hb'm ⊢; right; exact hb'm, he⟩

/-! ### Acyclic1 ⇒ no cycle -/

theorem climb_false_on_cycle (T : List (Triple β)) (c : List β) (hc : Cycle1 T c) :
    ∀ k, ∀ b ∈ c, climb T k (Term.bnode b) = false := by
  obtain ⟨a, rest, rfl, h1, hw⟩ := hc
  intro k
  induction k with
  | zero => intro b hb; simp [climb, h1 b hb]
  | succ k ih =>
    intro b hb
    obtain ⟨b', hb', p, hp⟩ := walk_referenced (a :: rest) a hw b hb
    have hb'c : b' ∈ a :: rest := by
      rcases List.mem_append.1 hb' with h | h
      · exact h
      · simp at h; subst h; simp
    have hpar := parent_of_once T b (h1 b hb) _ hp rfl
    simp only [climb, h1 b hb, beq_self_eq_true, if_true, hpar]
    exact ih b' hb'c

theorem no_cycle_of_acyclic1 (T : List (Triple β)) (h : Acyclic1 T) : ¬ ∃ c, Cycle1 T c := by
  rintro ⟨c, hc⟩
  obtain ⟨a, rest, rfl, _, _⟩ := id hc
  have h1 := climb_false_on_cycle T _ hc T.length a (by simp)
  rw [climb_all T h] at h1
  cases h1

/-! ### no cycle ⇒ Acyclic1 -/

/-- the nodes a failing climb visits -/
theorem climb_chain (T : List (Triple β)) : ∀ (k : Nat) (b : β), climb T k (Term.bnode b) = false →
    ∃ l : List β, l.length = k ∧ (refs T b = 1) ∧ (∀ x ∈ l, refs T x = 1) ∧ Walk T (b :: l) := by
  intro k
  induction k with
  | zero =>
    intro b h
    simp only [climb, Bool.not_eq_false', beq_iff_eq] at h
    exact ⟨[], rfl, h, by simp, trivial⟩
  | succ k ih =>
    intro b h
    simp only [climb] at h
    by_cases h1 : refs T b = 1
    · simp only [h1, beq_self_eq_true, if_true] at h
      cases hp : parent? T b with
      | none => simp [hp] at h
      | some s =>
        simp only [hp] at h
        cases s with
        | iri v => cases k <;> simp [climb] at h
        | lit l d t => cases k <;> simp [climb] at h
        | bnode b' =>
          obtain ⟨l, hl, hb'1, hall, hw⟩ := ih b' h
          refine ⟨b' :: l, by simp [hl], h1, ?_, ?_⟩
          · intro x hx
            rcases List.mem_cons.1 hx with rfl | hx
            · exact hb'1
            · exact hall x hx
          · refine ⟨?_, hw⟩
            unfold parent? at hp
            obtain ⟨t, ht, hts⟩ := Option.map_eq_some_iff.1 hp
            have hm := List.mem_of_find?_eq_some ht
            have hto := List.find?_some ht
            simp only [decide_eq_true_eq] at hto
            refine ⟨t.p, ?_⟩
            have : t = ⟨Term.bnode b', t.p, Term.bnode b⟩ := by
              cases t; simp_all
            rw [← this]; exact hm
    · simp [h1] at h

theorem nodup_length_le {α : Type} [DecidableEq α] : ∀ (l S : List α), l.Nodup → (∀ x ∈ l, x ∈ S) →
    l.length ≤ S.length := by
  intro l
  induction l with
  | nil => intro S _ _; simp
  | cons x l ih =>
    intro S hn hs
    rw [List.nodup_cons] at hn
    have hx : x ∈ S := hs x (by simp)
    have := ih (S.erase x) hn.2 (fun y hy => by
      have hne : y ≠ x := fun e => hn.1 (e ▸ hy)
      exact (List.mem_erase_of_ne hne).2 (hs y (by simp [hy])))
    rw [List.length_erase_of_mem hx] at this
    have hpos : 0 < S.length := List.length_pos_of_mem hx
    simp only [List.length_cons]
    omega

theorem exists_dup_of_not_nodup {α : Type} [DecidableEq α] : ∀ (l : List α), ¬ l.Nodup →
    ∃ l₁ x l₂ l₃, l = l₁ ++ x :: l₂ ++ x :: l₃ := by
  intro l
  induction l with
  | nil => intro h; exact absurd List.nodup_nil h
  | cons a l ih =>
    intro h
    by_cases ha : a ∈ l
    · obtain ⟨s, t, rfl⟩ := List.append_of_mem ha
      exact ⟨[], a, s, t, by simp⟩
    · have hl : ¬ l.Nodup := fun hn => h (List.nodup_cons.2 ⟨ha, hn⟩)
      obtain ⟨l₁, x, l₂, l₃, rfl⟩ := ih hl
      exact ⟨a :: l₁, x, l₂, l₃, by simp⟩

theorem acyclic1_of_no_cycle (T : List (Triple β)) (h : ¬ ∃ c, Cycle1 T c) : Acyclic1 T := by
  intro t ht
  cases hc : climb T T.length t.o with
  | true => rfl
  | false =>
    exfalso
    apply h
    cases ho : t.o with
    | iri v => rw [ho] at hc; cases hT : T.length <;> simp [hT, climb] at hc
    | lit l d g => rw [ho] at hc; cases hT : T.length <;> simp [hT, climb] at hc
    | bnode b =>
      rw [ho] at hc
      obtain ⟨l, hl, hb1, hall, hw⟩ := climb_chain T T.length b hc
      -- b :: l has |T|+1 once-referenced nodes: one repeats
      have hall' : ∀ x ∈ b :: l, refs T x = 1 := by
        intro x hx
        rcases List.mem_cons.1 hx with rfl | hx
        · exact hb1
        · exact hall x hx
      have hnd : ¬ (b :: l).Nodup := by
        intro hn
        have hn' : ((b :: l).map Term.bnode).Nodup := by
          unfold List.Nodup at hn ⊢
          rw [List.pairwise_map]
          exact hn.imp (fun hne e => hne (by simpa using e))
        have := nodup_length_le ((b :: l).map Term.bnode) (T.map (·.o)) hn' (by
          intro x hx
          obtain ⟨y, hy, rfl⟩ := List.mem_map.1 hx
          have hpos : 0 < refs T y := by rw [hall' y hy]; exact Nat.one_pos
          obtain ⟨t', ht', hto'⟩ := List.countP_pos_iff.1 hpos
          simp only [decide_eq_true_eq] at hto'
          exact List.mem_map.2 ⟨t', ht', hto'⟩)
        simp only [List.length_map, List.length_cons, hl] at this
        omega
      obtain ⟨l₁, x, l₂, l₃, hsplit⟩ := exists_dup_of_not_nodup _ hnd
      refine ⟨x :: l₂, x, l₂, rfl, ?_, ?_⟩
      · intro y hy
        apply hall'
        rw [hsplit]
        simp only [List.mem_append, List.mem_cons] at hy ⊢
        rcases hy with rfl | hy
        · left; right; left; rfl
        · left; right; right; exact hy
      · rw [hsplit] at hw
        have h1 : Walk T (x :: l₂ ++ x :: l₃) := by
          have := walk_append_right l₁ (x :: l₂ ++ x :: l₃) (by simpa using hw)
          exact this
        have h2 : Walk T ((x :: l₂ ++ [x]) ++ l₃) := by simpa using h1
        exact walk_append_left _ _ h2

theorem acyclic1_iff (T : List (Triple β)) : Acyclic1 T ↔ ¬ ∃ c, Cycle1 T c :=
  ⟨no_cycle_of_acyclic1 T, acyclic1_of_no_cycle T⟩

/-! ### divergence on a cycle -/

theorem export_diverges_on_cycle (T : List (Triple β)) (opts : Opts) (hi : opts.inline = true)
    (c : List β) (hc : Cycle1 T c) :
    ∀ fuel, ∀ b ∈ c, (build T).exportStatements opts fuel (Term.bnode b) = none := by
  obtain ⟨a, rest, rfl, h1, hw⟩ := hc
  intro fuel b hb
  apply export_diverges_of_closed (build T) opts (fun y => ∃ b ∈ a :: rest, y = Term.bnode b) _ fuel _ ⟨b, hb, rfl⟩
  rintro y ⟨b, hb, rfl⟩
  -- b references some b' of the cycle
  have hb2 : b ∈ rest ++ [a] := by
    rcases List.mem_cons.1 hb with rfl | h
    · simp
    · simp [h]
  obtain ⟨b', hb', p, hp⟩ := walk_references a (rest ++ [a]) (by simpa using hw) b hb2
  have hb'c : b' ∈ a :: rest := by
    simp only [List.mem_cons, List.mem_append, List.not_mem_nil, or_false] at hb'
    rcases hb' with rfl | h | rfl
    · simp
    · simp [h]
    · simp
  refine ⟨(p, Term.bnode b'), ?_, ?_, ⟨b', hb'c, rfl⟩⟩
  · rw [stmts_build]
    exact List.mem_map.2 ⟨_, List.mem_filter.2 ⟨hp, by simp⟩, rfl⟩
  · simp [Builder.isInl, hi, refCount_build, h1 b' hb'c]

end RdfModel.Proofs.C17
