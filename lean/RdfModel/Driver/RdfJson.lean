/-
  Driver handler for component `rj` (Model/RdfJson.lean).

  rj.enc <triple>…            triple = S,P,O (term tokens of Driver/Wire; `-` = nil)  → token stream
  rj.dec <variant> <end> <toks>   variant = three 0/1 digits (checked, litChecks, dirCheck);
                                  end = eof|ueof|io|syntax; → t1;t2;…|clean  |err:<class>  | panic
  rj.wn <toks>                → true|false   (Model `WellNested`)
  rj.accepts <toks>           → true|false   (Spec `RJG.accepts`: grammatical RDF/JSON document)
  Token stream: comma-joined  O o A a N V S<hex> X<kind>;  empty stream = `-`.
  Anonymous blank nodes are printed as `?anon<k>`, k = order of first appearance in the output.
-/
import RdfModel.Driver.Wire
import RdfModel.Model.RdfJson
import RdfModel.Spec.RdfJsonGrammar
namespace RdfModel.Driver.RdfJson
open RdfModel RdfModel.Wire RdfModel.RJ

def showTok : Tok → String
  | .beginObject => "O" | .endObject => "o" | .beginArray => "A" | .endArray => "a"
  | .nameSep => "N" | .valueSep => "V"
  | .str s => "S" ++ hexRunes s
  | .other k => "X" ++ toString k

def showToks (ts : List Tok) : String :=
  if ts.isEmpty then "-" else String.intercalate "," (ts.map showTok)

def parseTok (s : String) : Option Tok :=
  match s.toList with
  | ['O'] => some .beginObject | ['o'] => some .endObject
  | ['A'] => some .beginArray | ['a'] => some .endArray
  | ['N'] => some .nameSep | ['V'] => some .valueSep
  | 'S' :: rest => (unhexChars rest).map (fun b => .str (utf8Decode b))
  | 'X' :: rest => (String.ofList rest).toNat?.map .other
  | _ => none

def parseToks (s : String) : Option (List Tok) :=
  if s = "-" then some [] else (s.splitOn ",").mapM parseTok

def parseVariant (s : String) : Option Variant :=
  match s.toList with
  | [a, b, c] =>
    if (a = '0' ∨ a = '1') ∧ (b = '0' ∨ b = '1') ∧ (c = '0' ∨ c = '1') then
      some ⟨a = '1', b = '1', c = '1'⟩
    else none
  | _ => none

def parseEnd (s : String) : Option TEnd :=
  if s = "eof" then some .eof else if s = "ueof" then some .ueof
  else if s = "io" then some .io else if s = "syntax" then some .syntax else none

def showErr : Option EClass → String
  | none => "clean"
  | some .eof => "err:eof" | some .io => "err:io" | some .syntax => "err:syntax"

/-- First-appearance numbering of anonymous nodes. -/
def anonLabel (seen : List Nat) (n : Nat) : List Nat × List Nat :=
  match seen.idxOf? n with
  | some k => (seen, asc ("?anon" ++ toString k))
  | none => (seen ++ [n], asc ("?anon" ++ toString seen.length))

def labelTerm (seen : List Nat) : Term BNode → List Nat × Term (List Nat)
  | .iri v => (seen, .iri v)
  | .lit l d t => (seen, .lit l d t)
  | .bnode (.named l) => (seen, .bnode l)
  | .bnode (.anon n) => let (s', l) := anonLabel seen n; (s', .bnode l)

def showTriples : List Nat → List (RJ.Triple BNode) → List String
  | _, [] => []
  | seen, t :: rest =>
    let (s1, s) := labelTerm seen t.s
    let (s2, p) := labelTerm s1 t.p
    let (s3, o) := labelTerm s2 t.o
    (showTerm s ++ "," ++ showTerm p ++ "," ++ showTerm o) :: showTriples s3 rest

def parseTriple (s : String) : Option (Option (Term (List Nat)) × Option (Term (List Nat)) × Option (Term (List Nat))) :=
  match s.splitOn "," with
  | [a, b, c] => do
    let a ← parseTerm a
    let b ← parseTerm b
    let c ← parseTerm c
    pure (a, b, c)
  | _ => none

def handle (op : String) (args : List String) : Option String :=
  match op, args with
  | "enc", ts => do
    let raw ← ts.mapM parseTriple
    let st := raw.foldl (fun st (s, p, o) => (addTripleRaw id st s p o).getD st) ([] : State)
    pure (showToks (encodeTokens st))
  | "dec", [v, e, toks] => do
    let v ← parseVariant v
    let e ← parseEnd e
    let toks ← parseToks toks
    match run v toks e with
    | .panic => pure "panic"
    | .outOfFuel => pure "out-of-fuel"
    | .finished ys err => pure (String.intercalate ";" (showTriples [] ys) ++ "|" ++ showErr err)
  | "wn", [toks] => do
    let toks ← parseToks toks
    pure (toString (WellNested toks))
  | "accepts", [toks] => do
    let toks ← parseToks toks
    pure (toString (Spec.RJG.accepts toks))
  | _, _ => none

end RdfModel.Driver.RdfJson
