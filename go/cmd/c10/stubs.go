package main

func (h *harness) replayFile(path string)  {}
func (h *harness) encodeCases(n int)       {}
