import RdfModel.Props.C11Ra
#print axioms RdfModel.C11Ra.rdfa_terminates_no_panic
#print axioms RdfModel.C11Ra.rdfa_outcomes
#print axioms RdfModel.C11Ra.rdfa_emits_wf
#print axioms RdfModel.C11Ra.rootless_body_panics
#print axioms RdfModel.C11Ra.rdfa_refines_denote_partial
#print axioms RdfModel.C11Ra.rdfa_refines_denote_resource_partial
