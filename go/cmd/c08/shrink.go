package main

// Minimisation of a failing case: remove blocks / statements / predicate-object pairs / objects /
// collection items (the choices of the removed slots are cut out with them), reset choices, drop
// the default base — as long as the same kind of failure remains.

import (
	"fmt"
	"strconv"
	"strings"

	"verifharness/vh"
)

func litSlots(l lit) int {
	if l.kind == lTyped {
		return 2
	}
	return 1
}

func objSlots(o obj) int {
	switch o.kind {
	case oAnon:
		return 2
	case oLit:
		return litSlots(o.lit)
	case oBnpl:
		return 2 + posSlots(o.pos)
	case oColl:
		n := 2
		for _, x := range o.items {
			n += objSlots(x)
		}
		return n
	}
	return 1
}

func poSlots(p po) int {
	n := 2
	for _, o := range p.objs {
		n += objSlots(o) + 1
	}
	return n
}

func posSlots(pos []po) int {
	n := 0
	for _, p := range pos {
		n += poSlots(p)
	}
	return n
}

func triplesSlots(t triples) int { return objSlots(t.s) + posSlots(t.pos) + 1 }

func blockSlots(b block) int {
	switch b.kind {
	case bDir:
		return []int{4, 3, 3, 2}[b.d.kind]
	case bTriples:
		return triplesSlots(b.t)
	}
	n := 3
	if b.label != nil {
		n += objSlots(*b.label)
	}
	for _, t := range b.body {
		n += triplesSlots(t)
	}
	return n
}

// remover rebuilds a document without its target-th removable node and records the slot range that went away.
type remover struct {
	target, counter int
	cutFrom, cutTo  int
}

func (rm *remover) hit(from, n int) bool {
	rm.counter++
	if rm.counter-1 == rm.target {
		rm.cutFrom, rm.cutTo = from, from+n
		return true
	}
	return false
}

func (rm *remover) obj(o obj, i int) obj {
	switch o.kind {
	case oBnpl:
		// `[ pol ]` -> `[]`
		if rm.hit(i+1, posSlots(o.pos)) {
			return obj{kind: oAnon}
		}
		o.pos = rm.pos(o.pos, i+1, len(o.pos) > 1)
	case oColl:
		var items []obj
		j := i + 1
		for _, x := range o.items {
			n := objSlots(x)
			if !rm.hit(j, n) {
				items = append(items, rm.obj(x, j))
			}
			j += n
		}
		o.items = items
	}
	return o
}

func (rm *remover) pos(pos []po, i int, removable bool) []po {
	var out []po
	for _, p := range pos {
		n := poSlots(p)
		if removable && rm.hit(i, n) {
			i += n
			continue
		}
		q := po{a: p.a, v: p.v}
		j := i + 1
		for _, o := range p.objs {
			m := objSlots(o)
			if len(p.objs) > 1 && rm.hit(j, m+1) {
				j += m + 1
				continue
			}
			q.objs = append(q.objs, rm.obj(o, j))
			j += m + 1
		}
		out = append(out, q)
		i += n
	}
	return out
}

func (rm *remover) triples(t triples, i int) triples {
	s := rm.obj(t.s, i)
	i += objSlots(t.s)
	return triples{s: s, pos: rm.pos(t.pos, i, len(t.pos) > 1 || t.s.kind == oBnpl)}
}

func (rm *remover) doc(d doc) doc {
	var out doc
	i := 1
	for _, b := range d {
		n := blockSlots(b)
		if rm.hit(i, n) {
			i += n
			continue
		}
		switch b.kind {
		case bTriples:
			b.t = rm.triples(b.t, i)
		case bGraph:
			j := i + 2
			if b.label != nil {
				j += objSlots(*b.label)
			}
			var body []triples
			for _, t := range b.body {
				m := triplesSlots(t)
				if !rm.hit(j, m) {
					body = append(body, rm.triples(t, j))
				}
				j += m
			}
			b.body = body
		}
		out = append(out, b)
		i += n
	}
	return out
}

func cutChoices(ch choices, from, to int) choices {
	if from >= len(ch) {
		return ch
	}
	out := append(choices(nil), ch[:from]...)
	if to < len(ch) {
		out = append(out, ch[to:]...)
	}
	return out
}

// candidates: all one-step simplifications of a case.
func candidates(k *kase) []*kase {
	var out []*kase
	if k.base != "" {
		out = append(out, &kase{kind: k.kind, pkg: k.pkg, base: "", d: k.d, ch: k.ch})
	}
	if len(k.ch) > 0 {
		out = append(out, &kase{kind: k.kind, pkg: k.pkg, base: k.base, d: k.d, ch: nil})
	}
	for t := 0; ; t++ {
		rm := &remover{target: t}
		d := rm.doc(k.d)
		if rm.counter <= t {
			break
		}
		out = append(out, &kase{kind: k.kind, pkg: k.pkg, base: k.base, d: d, ch: cutChoices(k.ch, rm.cutFrom, rm.cutTo)})
	}
	for i, s := range k.ch {
		if s.wire() == ":::::" {
			continue
		}
		ch := append(choices(nil), k.ch...)
		ch[i] = slot{}
		out = append(out, &kase{kind: k.kind, pkg: k.pkg, base: k.base, d: k.d, ch: ch})
		if len(s.lay) > 0 && (s.cs != "" || s.sty != 0 || s.n != 0 || s.glue || len(s.lay2) > 0) {
			ch2 := append(choices(nil), k.ch...)
			ch2[i].lay = nil
			out = append(out, &kase{kind: k.kind, pkg: k.pkg, base: k.base, d: k.d, ch: ch2})
		}
		if len(s.lay) > 1 {
			for j := range s.lay {
				ch3 := append(choices(nil), k.ch...)
				ch3[i].lay = append(append([]litem(nil), s.lay[:j]...), s.lay[j+1:]...)
				out = append(out, &kase{kind: k.kind, pkg: k.pkg, base: k.base, d: k.d, ch: ch3})
			}
		}
		if len(s.cs) > 0 {
			ch4 := append(choices(nil), k.ch...)
			ch4[i].cs = ""
			out = append(out, &kase{kind: k.kind, pkg: k.pkg, base: k.base, d: k.d, ch: ch4})
		}
	}
	return out
}

func (h *harness) sigsOf(k *kase, resp string) ([]string, []finding, evalInfo) {
	fs, info, err := h.evaluate(k, resp)
	if err != nil {
		return nil, nil, info
	}
	var sigs []string
	for _, f := range fs {
		sigs = append(sigs, f.sig())
	}
	return sigs, fs, info
}

func (h *harness) shrinkAndPrint(k *kase, sig string) {
	cur := &kase{kind: k.kind, pkg: k.pkg, base: k.base, d: k.d, ch: k.ch}
	for round := 0; round < 80; round++ {
		cands := candidates(cur)
		if len(cands) == 0 {
			break
		}
		lines := make([]string, len(cands))
		for i, c := range cands {
			lines[i] = c.line()
		}
		res, err := runDriver(lines)
		if err != nil {
			break
		}
		progressed := false
		for i, c := range cands {
			sigs, _, _ := h.sigsOf(c, res[i])
			for _, s := range sigs {
				if s == sig {
					cur = c
					progressed = true
					break
				}
			}
			if progressed {
				break
			}
		}
		if !progressed {
			break
		}
	}
	res, err := runDriver([]string{cur.line()})
	if err != nil || len(res) != 1 {
		return
	}
	_, fs, info := h.sigsOf(cur, res[0])
	fmt.Printf("MINIMISED (%s)\n   line:    %s\n   text:    %s   pkg=%s base=%q flags(wf,flat,chok,nobool)=%s classes=%v\n", sig, cur.line(), strconv.Quote(string(info.text)), cur.pkg, cur.base, info.flags, info.classes)
	for _, f := range fs {
		if f.sig() != sig {
			continue
		}
		fmt.Printf("   kind:    %s %s\n   go:      %s\n   other:   %s\n   detail:  %s\n", f.kind, f.key, readable(f.goR), readable(f.model), f.detail)
		h.cases = append(h.cases, vh.Case{Kind: f.kind, Key: f.key, Op: cur.line(), Go: clip(f.goR), Model: clip(f.model), Detail: "(minimised) " + f.detail})
	}
	fmt.Printf("   denote:  %s\n", readable(info.den))
}

// readable renders a statement list in wire form with the hex decoded.
func readable(w string) string {
	verdict := ""
	if i := strings.LastIndex(w, "|"); i >= 0 {
		w, verdict = w[:i], " | "+w[i+1:]
	}
	if w == "none" || w == "" {
		return w + verdict
	}
	var out []string
	for _, st := range strings.Split(w, ";") {
		var ts []string
		for _, t := range strings.Split(st, ",") {
			switch {
			case t == "-" || t == "":
				ts = append(ts, t)
			case t[0] == 'I':
				v, _ := unhexS(t[1:])
				ts = append(ts, "<"+v+">")
			case t[0] == 'B':
				v, _ := unhexS(t[1:])
				ts = append(ts, "_:"+v)
			case t[0] == 'L':
				f := strings.Split(t[1:], ".")
				if len(f) == 3 {
					lex, _ := unhexS(f[0])
					dt, _ := unhexS(f[1])
					s := strconv.Quote(lex) + "^^<" + dt + ">"
					if f[2] != "-" {
						tag, _ := unhexS(f[2])
						s += "@" + tag
					}
					ts = append(ts, s)
				} else {
					ts = append(ts, t)
				}
			default:
				ts = append(ts, t)
			}
		}
		out = append(out, strings.Join(ts, " "))
	}
	return strings.Join(out, " ; ") + verdict
}
