/-
  Property C14 — blank nodes keep identity: fresh nodes unique, labels stable and injective
  (theorems only; helper lemmas live in RdfModel/Proofs/C14*.lean).

  All theorems are about `BN.step`, the executable model in Model/BlankNodes.lean that the driver runs
  (`Driver/BlankNodes.lean`, component `bn`). A *history* is `trace U (init d) ops`: the list of
  (operation, result) pairs obtained by running `ops` one after the other from process start, with the
  default factory's counter at an arbitrary value `d`. Operations carry arbitrary node / handle values,
  so the theorems cover in particular every history a Go program can produce (`runRefs_sound`).

  Schedules: every operation is one atomic step (one `atomic.Int64.Add`, or one mutex section followed by
  formatting of a local). `all_ops_atomic` & co. in Props/C14Locks.lean check the syntactic part of that claim on facts
  regenerated from the Go source on every run (T2); that lock sections and atomic adds linearise is the
  Go memory model (trusted). A concurrent execution is then equivalent to one of the sequential histories
  quantified over here.

  `U : Nat → Bytes` is the text of the k-th UUID drawn in the process; uniqueness of UUID labels assumes
  `Function.Injective U` (crypto/rand; trusted).
-/
import RdfModel.Props.C14Defs
import RdfModel.Proofs.C14
namespace RdfModel.C14
open RdfModel.BN

/-! ## Equality of blank nodes (`TermEquals`) -/

/-- `TermEquals` between nodes with identifiers is equality of the identifiers (scope and value);
    it coincides with Go's `==` on the identifier structs, which is what the providers' maps use. -/
theorem termEquals_iff (a b : Ident) : termEquals (some a) (some b) = true ↔ a = b :=
  Proofs.C14.termEquals_some a b

theorem termEquals_symm (x y : Node) : termEquals x y = termEquals y x :=
  Proofs.C14.termEquals_comm x y

/-! ## Fresh nodes -/

/-- In every history, the node returned by `NewBlankNode()` (any factory, incl. the default one and a
    string factory) or `NewStringBlankNode("")` differs from every node returned earlier by any
    operation of any factory, provider or mapper. -/
theorem fresh_unique (U : Nat → Bytes) (d : Nat) (ops : List Op) (i j : Nat) (hij : i < j)
    (opi opj : Op) (ni : Node) (idj : Ident)
    (hi : (trace U (init d) ops)[i]? = some (opi, .node ni))
    (hj : (trace U (init d) ops)[j]? = some (opj, .node (some idj)))
    (hf : FreshOp opj) :
    termEquals ni (some idj) = false ∧ termEquals (some idj) ni = false :=
  Proofs.C14.fresh_unique U d ops i j hij opi opj ni idj hi hj hf

/-- Two different calls that ask for a fresh node never return equal nodes. -/
theorem fresh_pairwise (U : Nat → Bytes) (d : Nat) (ops : List Op) (i j : Nat) (hij : i ≠ j)
    (opi opj : Op) (ni nj : Node)
    (hi : (trace U (init d) ops)[i]? = some (opi, .node ni))
    (hj : (trace U (init d) ops)[j]? = some (opj, .node nj))
    (hfi : FreshOp opi) (hfj : FreshOp opj) :
    termEquals ni nj = false :=
  Proofs.C14.fresh_pairwise U d ops i j hij opi opj ni nj hi hj hfi hfj

/-- Two calls (at different positions of a history) of `NewStringBlankNode`, on string factories `f`, `g`
    with labels `a`, `b`, return equal nodes exactly when it is the same factory and the same non-empty
    label. -/
theorem string_factory_eq (U : Nat → Bytes) (d : Nat) (ops : List Op) (i j : Nat) (hij : i ≠ j)
    (f g : Nat) (a b : Bytes) (x y : Node)
    (hi : (trace U (init d) ops)[i]? = some (.newStringBlankNode f a, .node x))
    (hj : (trace U (init d) ops)[j]? = some (.newStringBlankNode g b, .node y)) :
    termEquals x y = true ↔ (f = g ∧ a = b ∧ a ≠ []) :=
  Proofs.C14.string_factory_eq U d ops i j hij f g a b x y hi hj

/-- Nodes obtained from different factories are never equal. -/
theorem factories_disjoint (U : Nat → Bytes) (d : Nat) (ops : List Op) (i j : Nat)
    (opi opj : Op) (f g : FactoryRef) (x y : Node)
    (hi : (trace U (init d) ops)[i]? = some (opi, .node x))
    (hj : (trace U (init d) ops)[j]? = some (opj, .node y))
    (hf : opFactory opi = some f) (hg : opFactory opj = some g) (hfg : f ≠ g) :
    termEquals x y = false :=
  Proofs.C14.factories_disjoint U d ops i j opi opj f g x y hi hj hf hg hfg

/-! ## Label providers -/

/-- Any provider (int64, UUID, pass-through over any fallback) gives one node the same answer on every
    call, from the first call on, whatever happens in between. (`hb`: the handle was not dangling.) -/
theorem provider_function (U : Nat → Bytes) (d : Nat) (ops : List Op) (i j : Nat) (hij : i < j)
    (p : ProvRef) (n : Node) (oi oj : Out)
    (hi : (trace U (init d) ops)[i]? = some (.getLabel p n, oi))
    (hj : (trace U (init d) ops)[j]? = some (.getLabel p n, oj))
    (hb : oi ≠ .bad) : oj = oi :=
  Proofs.C14.provider_function U d ops i j hij p n oi oj hi hj hb

/-- An int64 or UUID provider gives different nodes different labels (any two calls of a history, in any
    order). int64: for formats with exactly one `%d`/`%v` verb and no other `%` (other formats give
    `Out.unsupported`, never `Out.label`); UUID: for an injective UUID stream. -/
theorem provider_injective (U : Nat → Bytes) (hU : Function.Injective U) (d : Nat) (ops : List Op) (i j : Nat)
    (p : ProvRef) (hp : isLeaf p = true) (n m : Node) (a b : Bytes)
    (hi : (trace U (init d) ops)[i]? = some (.getLabel p n, .label a))
    (hj : (trace U (init d) ops)[j]? = some (.getLabel p m, .label b))
    (hnm : n ≠ m) : a ≠ b :=
  Proofs.C14.provider_injective U hU d ops i j p hp n m a b hi hj hnm

/-- The pass-through provider of a string factory returns the node's own label for that factory's
    string nodes, without touching any state. -/
theorem passthrough_own_label (U : Nat → Bytes) (s : State) (sc : Nat) (fb : ProvRef) (v : Bytes) :
    step U s (.getLabel (.pass sc fb) (some (.bnString sc v))) = (s, .label v) :=
  Proofs.C14.passthrough_own_label U s sc fb v

/-- FULL statement for the pass-through provider (`GetStringProvider(fallback)`, as installed by
    `PropagateDecoderPipeBlankNodeStringProvider`): different nodes get different labels.
    It is FALSE in general — see `passthrough_collision` below — because a label the user chose for a string
    node can coincide with a label the fallback generates. -/
def passthrough_injective_full : Prop :=
  ∀ (U : Nat → Bytes), Function.Injective U → ∀ (d : Nat) (ops : List Op) (i j : Nat) (sc : Nat) (fb : ProvRef),
    isLeaf fb = true → ∀ (n m : Node) (a b : Bytes),
    (trace U (init d) ops)[i]? = some (.getLabel (.pass sc fb) n, .label a) →
    (trace U (init d) ops)[j]? = some (.getLabel (.pass sc fb) m, .label b) →
    n ≠ m → a ≠ b

/-- Proved part: injective provided no label passed through for `n` or `m` is a label the fallback has
    handed out to any node by the end of the history (`hdis`). Missing for the full statement: nothing can
    be proved without `hdis` (counterexample below); pass-through chains (`fb` itself a pass-through) are not
    covered. -/
theorem passthrough_injective_partial (U : Nat → Bytes) (hU : Function.Injective U) (d : Nat) (ops : List Op)
    (i j : Nat) (sc : Nat) (fb : ProvRef) (hfb : isLeaf fb = true) (n m : Node) (a b : Bytes)
    (hi : (trace U (init d) ops)[i]? = some (.getLabel (.pass sc fb) n, .label a))
    (hj : (trace U (init d) ops)[j]? = some (.getLabel (.pass sc fb) m, .label b))
    (hnm : n ≠ m)
    (hdis : ∀ v x, (n = some (.bnString sc v) ∨ m = some (.bnString sc v)) →
      peek U (exec U (init d) ops) fb x ≠ some (.label v)) :
    a ≠ b :=
  Proofs.C14.passthrough_injective_partial U hU d ops i j sc fb hfb n m a b hi hj hnm hdis

/-- Default configuration: the provider installed by `PropagateDecoderPipeBlankNodeStringProvider` (pass-through
    of the decoding string factory over a fresh UUID provider with format "%s") labels every node that is
    not a string node of that factory with the bare text of a drawn UUID. Together with
    `passthrough_injective_partial` (whose `hdis` then only fails for a document label that *is* the text of a
    drawn UUID): two source nodes share a label only if a user-chosen label equals a generated UUID. -/
theorem propagate_labels_uuid (U : Nat → Bytes) (d : Nat) (ops : List Op) (i j : Nat) (hij : i < j)
    (sc : Nat) (p : ProvRef) (n : Node) (a : Bytes)
    (hi : (trace U (init d) ops)[i]? = some (.propagate (some (.strf sc)), .prov p))
    (hj : (trace U (init d) ops)[j]? = some (.getLabel p n, .label a))
    (hn : ∀ v, n ≠ some (.bnString sc v)) : ∃ k, a = U k :=
  Proofs.C14.propagate_labels_uuid U d ops i j hij sc p n a hi hj hn

/-! ## Mapper -/

/-- A mapper sends one node to the same node on every call. -/
theorem mapper_function (U : Nat → Bytes) (d : Nat) (ops : List Op) (i j : Nat) (hij : i < j)
    (m : Nat) (n : Node) (x : Node) (oj : Out)
    (hi : (trace U (init d) ops)[i]? = some (.mapNode m n, .node x))
    (hj : (trace U (init d) ops)[j]? = some (.mapNode m n, oj)) : oj = .node x :=
  Proofs.C14.mapper_function U d ops i j hij m n x oj hi hj

/-- … sends different nodes to different nodes … -/
theorem mapper_injective (U : Nat → Bytes) (d : Nat) (ops : List Op) (i j : Nat)
    (m : Nat) (n n' : Node) (x y : Node)
    (hi : (trace U (init d) ops)[i]? = some (.mapNode m n, .node x))
    (hj : (trace U (init d) ops)[j]? = some (.mapNode m n', .node y))
    (hnn : n ≠ n') : termEquals x y = false :=
  Proofs.C14.mapper_injective U d ops i j m n n' x y hi hj hnn

/-- … and the node it returns the first time it sees `n` is fresh: different from every node returned
    earlier in the history by any operation. -/
theorem mapper_fresh (U : Nat → Bytes) (d : Nat) (ops : List Op) (i j : Nat) (hij : i < j)
    (m : Nat) (n : Node) (opi : Op) (x y : Node)
    (hi : (trace U (init d) ops)[i]? = some (opi, .node x))
    (hj : (trace U (init d) ops)[j]? = some (.mapNode m n, .node y))
    (hfirst : ∀ k, k < j → ops[k]? ≠ some (.mapNode m n)) :
    termEquals x y = false :=
  Proofs.C14.mapper_fresh U d ops i j hij m n opi x y hi hj hfirst

/-! ## Histories written with references to earlier results (what the driver executes) -/

/-- What the driver computes for a line of referential operations is a history in the above sense. -/
theorem runRefs_sound (U : Nat → Bytes) (d : Nat) (rops : List ROp) (tr : List (Op × Out))
    (h : runRefs U (init d) [] rops = some tr) : ∃ ops, tr = trace U (init d) ops := by
  obtain ⟨ops, h⟩ := Proofs.C14.runRefs_sound U (init d) [] rops tr h
  exact ⟨ops, by simpa using h⟩

/-- the driver's UUID texts are pairwise distinct (so `hU` is satisfiable by what the driver runs) -/
theorem driverU_injective : Function.Injective driverU := Proofs.C14.driverU_inj

/-! ## Atomicity of every operation: see Props/C14Locks.lean (T2 facts regenerated from the Go source) -/

/-! ## Non-vacuity: concrete histories satisfying the hypotheses -/

/-- a history touching every kind of object -/
def exOps : List Op :=
  [ .newFactory,                                   -- 0  bnf 0
    .newStringFactory,                             -- 1  strf 0 (anon = bnf 1)
    .newBlankNode (.bnf 0),                        -- 2  bn 0 1
    .newBlankNode .dflt,                           -- 3  bnDefault 8
    .newStringBlankNode 0 [],                      -- 4  bn 1 1
    .newStringBlankNode 0 (asc "x"),               -- 5  bnString 0 "x"
    .newStringBlankNode 0 (asc "x"),               -- 6  bnString 0 "x"
    .newInt64Provider [],                          -- 7  int64 0, format "b%d"
    .getLabel (.int64 0) (some (.bn 0 1)),         -- 8  "b0"
    .getLabel (.int64 0) (some (.bnDefault 8)),    -- 9  "b1"
    .getLabel (.int64 0) (some (.bn 0 1)),         -- 10 "b0"
    .newMapper none,                               -- 11 mapper 0 over the default factory
    .mapNode 0 (some (.bn 0 1)),                   -- 12 bnDefault 9
    .mapNode 0 (some (.bnString 0 (asc "x"))),     -- 13 bnDefault 10
    .mapNode 0 (some (.bn 0 1)),                   -- 14 bnDefault 9
    .propagate (some (.strf 0)),                   -- 15 pass 0 (uuid 0)
    .getLabel (.pass 0 (.uuid 0)) (some (.bn 0 1)),               -- 16 "<U0>"
    .getLabel (.pass 0 (.uuid 0)) (some (.bnString 0 (asc "x"))), -- 17 "x"
    .getLabel (.pass 0 (.uuid 0)) (some (.bn 0 1)) ]              -- 18 "<U0>"

example : (trace driverU (init 7) exOps).map Prod.snd =
    [ .factory (.bnf 0), .factory (.strf 0), .node (some (.bn 0 1)), .node (some (.bnDefault 8)),
      .node (some (.bn 1 1)), .node (some (.bnString 0 (asc "x"))), .node (some (.bnString 0 (asc "x"))),
      .prov (.int64 0), .label (asc "b0"), .label (asc "b1"), .label (asc "b0"),
      .mapper 0, .node (some (.bnDefault 9)), .node (some (.bnDefault 10)), .node (some (.bnDefault 9)),
      .prov (.pass 0 (.uuid 0)), .label (asc "<U0>"), .label (asc "x"), .label (asc "<U0>") ] := by decide

/-- hypotheses of `fresh_unique` (i = 2, j = 4), `string_factory_eq` (5, 6), `provider_function` (8, 10),
    `provider_injective` (8, 9), `mapper_*` (12, 13, 14), `passthrough_injective_partial` (16, 17) hold here -/
example : (trace driverU (init 7) exOps)[4]? = some (.newStringBlankNode 0 [], .node (some (.bn 1 1))) ∧
    FreshOp (.newStringBlankNode 0 []) := ⟨by decide, Or.inr ⟨0, rfl⟩⟩
example : (trace driverU (init 7) exOps)[9]? = some (.getLabel (.int64 0) (some (.bnDefault 8)), .label (asc "b1")) ∧
    isLeaf (.int64 0) = true := by decide
example : ∀ v x, ((some (Ident.bn 0 1) : Node) = some (.bnString 0 v) ∨ (some (Ident.bnString 0 (asc "x")) : Node) = some (.bnString 0 v)) →
    peek driverU (exec driverU (init 7) exOps) (.uuid 0) x ≠ some (.label v) := by
  intro v x h
  rcases h with h | h
  · cases h
  · simp at h; subst h
    have hs : (exec driverU (init 7) exOps).uuids = [{ format := asc "%s", known := [(some (.bn 0 1), 0)] }] := by decide
    simp only [peek, hs]
    by_cases hx : x = some (.bn 0 1)
    · subst hx; decide
    · simp [assoc, Ne.symm hx]
example : runRefs driverU (init 0) []
    [.newStringFactory, .newStringBlankNode (.res 0) (.lit (asc "a")), .newInt64Provider [],
     .getStringProvider (.res 0) (.res 2), .getLabel (.res 3) (.res 1), .getLabel (.res 2) (.res 1)]
    = some [(.newStringFactory, .factory (.strf 0)), (.newStringBlankNode 0 (asc "a"), .node (some (.bnString 0 (asc "a")))),
            (.newInt64Provider [], .prov (.int64 0)), (.getStringProvider 0 (.int64 0), .prov (.pass 0 (.int64 0))),
            (.getLabel (.pass 0 (.int64 0)) (some (.bnString 0 (asc "a"))), .label (asc "a")),
            (.getLabel (.int64 0) (some (.bnString 0 (asc "a"))), .label (asc "b0"))] := by decide

/-! ## Witnesses -/

/-- Pass-through collision: string node `_:b0` of the decoding factory and an anonymous node of the same
    factory both get the label `b0` when the fallback is the int64 provider with its default format. -/
def collisionOps : List Op :=
  [ .newStringFactory, .newInt64Provider [], .newStringBlankNode 0 (asc "b0"), .newBlankNode (.strf 0),
    .getLabel (.pass 0 (.int64 0)) (some (.bn 0 1)),
    .getLabel (.pass 0 (.int64 0)) (some (.bnString 0 (asc "b0"))) ]

theorem passthrough_collision :
    (trace driverU (init 0) collisionOps)[4]? = some (.getLabel (.pass 0 (.int64 0)) (some (.bn 0 1)), .label (asc "b0")) ∧
    (trace driverU (init 0) collisionOps)[5]? = some (.getLabel (.pass 0 (.int64 0)) (some (.bnString 0 (asc "b0"))), .label (asc "b0")) := by
  decide

theorem passthrough_injective_full_false : ¬ passthrough_injective_full := by
  intro h
  have := h driverU driverU_injective 0 collisionOps 4 5 0 (.int64 0) rfl _ _ _ _
    passthrough_collision.1 passthrough_collision.2 (by decide)
  exact this rfl

/-- The same with the UUID fallback that `PropagateDecoderPipeBlankNodeStringProvider` installs: a string
    node whose label is the text of a UUID the provider has generated (here for an anonymous node). Not
    reachable by a document that is decoded before the UUID exists; listed for completeness. -/
theorem passthrough_collision_uuid :
    (trace driverU (init 0)
      [ .newStringFactory, .propagate (some (.strf 0)), .newBlankNode (.strf 0),
        .getLabel (.pass 0 (.uuid 0)) (some (.bn 0 1)),
        .newStringBlankNode 0 (driverU 0),
        .getLabel (.pass 0 (.uuid 0)) (some (.bnString 0 (driverU 0))) ]).map Prod.snd
    = [ .factory (.strf 0), .prov (.pass 0 (.uuid 0)), .node (some (.bn 0 1)), .label (driverU 0),
        .node (some (.bnString 0 (driverU 0))), .label (driverU 0) ] := by decide

/-- D15 (repaired by patch c14-D15-uuid-provider-first-call): before the repair
    `uuidStringProvider.GetBlankNodeString` formatted the map lookup result, i.e. the zero UUID, on the
    first request for a node. `getLabelUuidOld` is that code; the first and second answer differ. -/
def getLabelUuidOld (U : Nat → Bytes) (zero : Bytes) (s : State) (i : Nat) (n : Node) : State × Out :=
  match s.uuids[i]? with
  | none => (s, .bad)
  | some p =>
    match assoc n p.known with
    | some pos => (s, sprintf1 p.format uuidVerbs (U pos))
    | none =>
      ({ s with uuidPos := s.uuidPos + 1, uuids := s.uuids.set i { p with known := (n, s.uuidPos) :: p.known } },
       sprintf1 p.format uuidVerbs zero)    -- `index` (zero value) instead of `value`

theorem d15_old_code_unstable :
    let s0 := (step driverU (init 0) (.newUUIDProvider [])).1
    let r1 := getLabelUuidOld driverU (asc "00000000-0000-0000-0000-000000000000") s0 0 (some (.bnDefault 1))
    let r2 := getLabelUuidOld driverU (asc "00000000-0000-0000-0000-000000000000") r1.1 0 (some (.bnDefault 1))
    r1.2 = .label (asc "00000000-0000-0000-0000-000000000000") ∧ r2.2 = .label (asc "<U0>") := by decide

end RdfModel.C14
