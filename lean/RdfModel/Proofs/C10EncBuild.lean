/-
  C10 helper lemmas, part 8 (encoder direction): induction over the exported statements.

  For the tagged statements `l : List (TStmt β)` of an exported resource: the `graphProperties` map that
  `buildResource` fills from the untagged statements (`buildStmts E label (untags l)`) is related (`GR`) to
  the groups of the expected tree (`groupByKey (stmtTrees E l)`), nested AnonResources included.
-/
import RdfModel.Proofs.C10EncTree
namespace RdfModel.Proofs.C10
open RdfModel RdfModel.Desc RdfModel.JL RdfModel.JLEnc RdfModel.C10

variable {β : Type} [DecidableEq β]

mutual
/-- forget the blank node an AnonResource was made from -/
def untag : TStmt β → Stmt β
  | .obj p o => .obj p o
  | .anon _ p l => .anon p (untags l)
def untags : List (TStmt β) → List (Stmt β)
  | [] => []
  | x :: xs => untag x :: untags xs
end

mutual
/-- the (predicate, object) pairs of the builder a tagged statement was made from -/
def tpos : TStmt β → List (PO β)
  | .obj p o => [(p, o)]
  | .anon b p l => (p, .bnode b) :: tposL l
def tposL : List (TStmt β) → List (PO β)
  | [] => []
  | x :: xs => tpos x ++ tposL xs
end

/-! ### used prefixes -/

def pfxOf (E : Enc) (v : Str) : List Str :=
  match compactPrefix E v with
  | some (q, _) => [q]
  | none => []

theorem vocab_pfx (E : Enc) (v : Str) : (compactVocabIRI E v).2 = pfxOf E v := by
  unfold compactVocabIRI pfxOf
  cases compactPrefix E v with
  | none => rfl
  | some pr => obtain ⟨p, r⟩ := pr; simp only []; split <;> rfl

theorem doc_pfx (E : Enc) (v : Str) : (compactDocumentIRI E v).2 = pfxOf E v := by
  unfold compactDocumentIRI pfxOf
  cases compactPrefix E v with
  | none => simp only []; split <;> (try split) <;> (try split) <;> rfl
  | some pr => obtain ⟨p, r⟩ := pr; simp only []; split <;> (try split) <;> (try split) <;> (try split) <;> rfl

/-- what is known about an IRI of the dataset before it is known which prefixes are used -/
structure IriG (E : Enc) (used names : List Str) (v : Str) : Prop where
  abs : absIri v = true
  free : schemeFree names v = true
  compact : compactOK E v = true
  name : ∀ p r, compactPrefix E v = some (p, r) → p ∈ used → pfxNameOK p = true

theorem iriOK_of {E : Enc} {used names : List Str} {v : Str} (h : IriG E used names v)
    (hu : ∀ q ∈ pfxOf E v, q ∈ used) : IriOK E used names v :=
  ⟨h.abs, h.free, h.compact, fun p r e => hu p (by simp [pfxOf, e]), h.name⟩

/-- what is known about a (predicate, object) pair of the dataset -/
structure POk (E : Enc) (used names : List Str) (bs : Option Str) (po : PO β) : Prop where
  pred : IriG E used names po.1
  wf : wfObj po.2 = true
  iri : ∀ v, po.2 = .iri v → IriG E used names v ∧ ∀ b, bs = some b → relOK E names b v = true
  lit : ∀ lex dt lang, po.2 = .lit lex dt lang →
    (dt == xsdInteger || dt == xsdDouble || dt == xsdBoolean) = false ∧ IriG E used names dt

/-! ### node objects without `@id` -/

theorem keyOK_not_special {c : Ctx} {k p : Str} (h : KeyOK c k p) :
    k ≠ kValue ∧ k ≠ kList ∧ k ≠ kSet ∧ k ≠ kContext ∧ k ≠ kId ∧ k ≠ kGraph := by
  unfold KeyOK at h
  refine ⟨?_, ?_, ?_, ?_, ?_, ?_⟩ <;>
  · intro e
    subst e
    rw [if_neg (by decide)] at h
    revert h
    simp +decide [classifyKey]

theorem propMembers_keys {label : β → Str} {c : Ctx} {props : List (Str × List Json)}
    {groups : List (Str × Str × List (Tree β))} (h : GR label c props groups) :
    (propMembers props).map (·.1) = props.map (·.1) ∧
      ∀ k ∈ props.map (·.1), k ≠ kValue ∧ k ≠ kList ∧ k ≠ kSet ∧ k ≠ kContext ∧ k ≠ kId ∧ k ≠ kGraph := by
  induction h with
  | nil => exact ⟨rfl, by intro k hk; cases hk⟩
  | @cons pj gr props' groups' hg _ ih =>
    obtain ⟨pk, pvs⟩ := pj
    obtain ⟨h1, h2, h3, h4⟩ := hg
    simp only at h1 h3
    constructor
    · cases pvs with
      | nil => exact absurd rfl h3
      | cons v vs =>
        cases vs with
        | nil => simp only [propMembers, List.filterMap_cons, List.map_cons]; rw [← ih.1]; rfl
        | cons v2 vs2 => simp only [propMembers, List.filterMap_cons, List.map_cons]; rw [← ih.1]; rfl
    · intro k hk
      simp only [List.map_cons, List.mem_cons] at hk
      rcases hk with rfl | hk
      · rw [h1]; exact keyOK_not_special h2
      · exact ih.2 k hk

theorem getKey_none_of_not_mem {k : Str} {ms : List (Str × Json)} (h : k ∉ ms.map (·.1)) : getKey k ms = none := by
  induction ms with
  | nil => rfl
  | cons m ms ih =>
    obtain ⟨a, b⟩ := m
    simp only [List.map_cons, List.mem_cons, not_or] at h
    have hne : a ≠ k := fun e => h.1 e.symm
    simp only [getKey, if_neg hne]
    exact ih h.2

theorem hasKey_false_of_not_mem {k : Str} {ms : List (Str × Json)} (h : k ∉ ms.map (·.1)) : hasKey k ms = false := by
  induction ms with
  | nil => rfl
  | cons m ms ih =>
    obtain ⟨a, b⟩ := m
    simp only [List.map_cons, List.mem_cons, not_or] at h
    have : (a == k) = false := by simpa using (fun e : a = k => h.1 e.symm)
    simp only [hasKey, List.any_cons, this, Bool.false_or]
    exact ih h.2

/-- a node object without `@id` and `@context` whose member names are no keywords of value / list / set
    objects: a fresh blank node, its members, then the link -/
theorem evalItem_node (c : Ctx) (td : TermDef) (g : Option T) (s : T) (p : Str) (ms : List (Str × Json)) (n : Nat)
    (hk : ∀ k ∈ ms.map (·.1), k ≠ kValue ∧ k ≠ kList ∧ k ≠ kSet ∧ k ≠ kContext ∧ k ≠ kId ∧ k ≠ kGraph) :
    evalItem c td g s p (.obj ms) n =
      andThen (evalMembers c g (.bnode (.fresh n)) false ms (n + 1)) (fun n1 => some ([quad s p (.bnode (.fresh n)) g], n1)) := by
  have hnm : ∀ k', (k' = kValue ∨ k' = kList ∨ k' = kSet ∨ k' = kContext ∨ k' = kId ∨ k' = kGraph) → k' ∉ ms.map (·.1) := by
    intro k' hk' hm
    obtain ⟨h1, h2, h3, h4, h5, h6⟩ := hk k' hm
    rcases hk' with e | e | e | e | e | e <;> contradiction
  have hhead : nodeHead c false ms n = some (c, .bnode (.fresh n), n + 1, false) := by
    simp [nodeHead, getKey_none_of_not_mem (hnm kContext (by simp)), getKey_none_of_not_mem (hnm kId (by simp)), evalId]
  cases ms with
  | nil =>
    rw [evalItem.eq_5 _ _ _ _ _ _ _ (by intro k xs e; cases e) (by intro k x e; cases e)]
    simp only [hasKey, List.any_nil, Bool.false_eq_true, if_false, hhead]
  | cons m rest =>
    cases rest with
    | nil =>
      obtain ⟨k, x⟩ := m
      obtain ⟨h1, h2, h3, _, _, _⟩ := hk k (by simp)
      by_cases hx : ∃ xs, x = .arr xs
      · obtain ⟨xs, rfl⟩ := hx
        rw [evalItem.eq_3, if_neg h1, if_neg h2, if_neg h3, hhead]
      · rw [evalItem.eq_4 _ _ _ _ _ _ _ _ (by intro xs e; exact hx ⟨xs, e⟩), if_neg h1, if_neg h2, if_neg h3, hhead]
    | cons m2 rest2 =>
      rw [evalItem.eq_5 _ _ _ _ _ _ _ (by intro k xs e; cases e) (by intro k x e; cases e)]
      rw [hasKey_false_of_not_mem (hnm kValue (by simp)), hasKey_false_of_not_mem (hnm kList (by simp)),
        hasKey_false_of_not_mem (hnm kSet (by simp))]
      simp only [Bool.false_eq_true, if_false, hhead]

/-! ### well-formedness of the JSON written -/

theorem mem_keys_alUpd {α : Type} (d : α) (f : α → α) (l : List (Str × α)) (k x : Str) :
    x ∈ (alUpd d f l k).map (·.1) ↔ x ∈ l.map (·.1) ∨ x = k := by
  induction l with
  | nil => simp [alUpd]
  | cons e l ih =>
    obtain ⟨a, b⟩ := e
    simp only [alUpd]
    by_cases h : a = k
    · subst h; simp only [if_true, List.map_cons, List.mem_cons]
      constructor
      · rintro (h | h)
        · exact Or.inl (Or.inl h)
        · exact Or.inl (Or.inr h)
      · rintro ((h | h) | h)
        · exact Or.inl h
        · exact Or.inr h
        · exact Or.inl h
    · simp only [if_neg h, List.map_cons, List.mem_cons, ih]
      constructor
      · rintro (h | h | h)
        · exact Or.inl (Or.inl h)
        · exact Or.inl (Or.inr h)
        · exact Or.inr h
      · rintro ((h | h) | h)
        · exact Or.inl h
        · exact Or.inr (Or.inl h)
        · exact Or.inr (Or.inr h)

theorem nodup_keys_alUpd {α : Type} (d : α) (f : α → α) (l : List (Str × α)) (k : Str)
    (h : (l.map (·.1)).Nodup) : ((alUpd d f l k).map (·.1)).Nodup := by
  induction l with
  | nil => simp [alUpd]
  | cons e l ih =>
    obtain ⟨a, b⟩ := e
    simp only [List.map_cons, List.nodup_cons] at h
    simp only [alUpd]
    by_cases hk : a = k
    · subst hk; simp only [if_true, List.map_cons, List.nodup_cons]; exact h
    · simp only [if_neg hk, List.map_cons, List.nodup_cons]
      refine ⟨?_, ih h.2⟩
      rw [mem_keys_alUpd]
      rintro (h' | h')
      · exact h.1 h'
      · exact hk h'

theorem wfList_of_F2 {label : β → Str} {c : Ctx} {k p : Str} {js : List Json} {ts : List (Tree β)}
    (h : F2 (ValRel label c k p) js ts) : wfList js = true := by
  induction h with
  | nil => rfl
  | cons h1 _ ih => simp [wfList, h1.1, ih]

theorem wfMembers_props {label : β → Str} {c : Ctx} {props : List (Str × List Json)}
    {groups : List (Str × Str × List (Tree β))} (h : GR label c props groups) :
    wfMembers (propMembers props) = true := by
  induction h with
  | nil => rfl
  | @cons pj gr props' groups' hg _ ih =>
    obtain ⟨pk, pvs⟩ := pj
    obtain ⟨h1, h2, h3, h4⟩ := hg
    simp only at h3 h4
    have hw := wfList_of_F2 h4
    cases pvs with
    | nil => exact absurd rfl h3
    | cons v vs =>
      cases vs with
      | nil =>
        simp only [wfList, Bool.and_true] at hw
        simp only [propMembers, List.filterMap_cons, wfMembers, hw, Bool.true_and]
        exact ih
      | cons v2 vs2 =>
        simp only [propMembers, List.filterMap_cons, wfMembers, Json.wf, hw, Bool.true_and]
        exact ih

theorem obj_props_wf {label : β → Str} {c : Ctx} {props : List (Str × List Json)}
    {groups : List (Str × Str × List (Tree β))} (h : GR label c props groups) (hn : (props.map (·.1)).Nodup) :
    (Json.obj (propMembers props)).wf = true := by
  simp only [Json.wf, (propMembers_keys h).1, wfMembers_props h, Bool.and_true, decide_eq_true_eq]
  exact hn

/-! ### the induction over tagged statements -/

section Induction
variable (E : Enc) (label : β → Str) (c : Ctx) (U names : List Str) (bs : Option Str)

/-- one step of `groupByKey` -/
def gstep (acc : List (Str × Str × List (Tree β))) (e : Str × Str × Tree β) : List (Str × Str × List (Tree β)) :=
  alUpd (e.2.1, []) (fun x => (x.1, x.2 ++ [e.2.2])) acc e.1

theorem groupByKey_eq (kps : List (Str × Str × Tree β)) : groupByKey kps = kps.foldl gstep [] := rfl

def PS (x : TStmt β) : Prop :=
  (∀ used0, ∀ q ∈ used0, q ∈ (buildStmt E label (untag x) used0).2.2) ∧
  (∀ used0, (∀ q ∈ (buildStmt E label (untag x) used0).2.2, q ∈ U) → (∀ po ∈ tpos x, POk E U names bs po) →
    (buildStmt E label (untag x) used0).1 = (stmtTree E x).1 ∧
    KeyOK c (stmtTree E x).1 (stmtTree E x).2.1 ∧
    ValRel label c (stmtTree E x).1 (stmtTree E x).2.1 (buildStmt E label (untag x) used0).2.1 (stmtTree E x).2.2)

def PL (l : List (TStmt β)) : Prop :=
  (∀ props used0, ∀ q ∈ used0, q ∈ (buildStmts E label (untags l) props used0).2) ∧
  (∀ props used0, (props.map (·.1)).Nodup → ((buildStmts E label (untags l) props used0).1.map (·.1)).Nodup) ∧
  (∀ props groups used0, (∀ q ∈ (buildStmts E label (untags l) props used0).2, q ∈ U) →
    (∀ po ∈ tposL l, POk E U names bs po) → GR label c props groups →
    GR label c (buildStmts E label (untags l) props used0).1 ((stmtTrees E l).foldl gstep groups))

end Induction

section Steps
variable {E : Enc} {label : β → Str} {c : Ctx} {U names : List Str} {bs : Option Str}

theorem literalValue_shape (E : Enc) (lex dt : Str) (lang : Option Str)
    (hnn : (dt == xsdInteger || dt == xsdDouble || dt == xsdBoolean) = false) :
    (literalValue E lex dt lang).1.wf = true ∧ notArr (literalValue E lex dt lang).1 ∧
      (literalValue E lex dt lang).2 = (if dt = xsdString then [] else pfxOf E dt) := by
  simp only [Bool.or_eq_false_iff, beq_eq_false_iff_ne] at hnn
  obtain ⟨⟨h1, h2⟩, h3⟩ := hnn
  unfold literalValue
  by_cases hs : dt = xsdString
  · simp only [hs, if_true]
    exact ⟨rfl, (fun xs e => by cases e), trivial⟩
  · simp only [hs, if_false, h1, h2, h3, false_and, Bool.false_and, Bool.or_self, Bool.false_eq_true, decide_false]
    split
    · exact ⟨by simp +decide [Json.wf, wfMembers], (fun xs e => by cases e), vocab_pfx E dt⟩
    · exact ⟨by simp +decide [Json.wf, wfMembers], (fun xs e => by cases e), vocab_pfx E dt⟩

theorem PS_obj (hc : GoodCtx E bs U names c) (hbase : bs.isSome = E.base.isSome) (hne : ∀ b, label b ≠ [])
    (p : Str) (o : Term β) : PS E label c U names bs (.obj p o) := by
  constructor
  · intro used0 q hq
    cases o with
    | iri v =>
      simp only [untag, buildStmt]
      split <;> simp [hq]
    | bnode b => simp [untag, buildStmt, hq]
    | lit lex dt lang => simp [untag, buildStmt, hq]
  · intro used0 hU hpo
    have hP := hpo (p, o) (by simp [tpos])
    cases o with
    | iri v =>
      obtain ⟨hvG, hvrel⟩ := hP.iri v rfl
      by_cases hp : p = rdfType
      · subst hp
        simp only [untag, buildStmt, ↓reduceIte, stmtTree, encKey] at hU ⊢
        have hv : IriOK E U names v := iriOK_of hvG (fun q hq => hU q (by simp [vocab_pfx, hq]))
        refine ⟨trivial, by simp [KeyOK], rfl, ?_⟩
        rw [if_pos rfl]
        exact ⟨_, v, rfl, rfl, by rw [(vocabForm hc hv).2.2 true true]; simp [nodeRef, hvG.abs]⟩
      · simp only [untag, buildStmt, hp, ↓reduceIte, stmtTree, encKey] at hU ⊢
        have hv : IriOK E U names v := iriOK_of hvG (fun q hq => hU q (by simp [doc_pfx, hq]))
        have hpI : IriOK E U names p := iriOK_of hP.pred (fun q hq => hU q (by simp [vocab_pfx, hq]))
        have hkne : (compactVocabIRI E p).1 ≠ kType := ne_of_head (by decide) (vocabForm hc hpI).1
        refine ⟨trivial, by unfold KeyOK; rw [if_neg hkne]; exact classifyKey_vocab hc hpI, ?_, ?_⟩
        · simp +decide [Json.wf, wfMembers]
        · rw [if_neg hkne]
          refine ⟨(fun xs e => by cases e), fun g s n => ?_⟩
          rw [evalItem_iriObj hc hbase hv hvrel g s p n]
          simp [denVal, outTerm, Term.map]
    | bnode b =>
      simp only [untag, buildStmt, stmtTree, encKey] at hU ⊢
      have hpI : IriOK E U names p := iriOK_of hP.pred (fun q hq => hU q (by simp [vocab_pfx, hq]))
      have hkne : (compactVocabIRI E p).1 ≠ kType := ne_of_head (by decide) (vocabForm hc hpI).1
      refine ⟨trivial, by unfold KeyOK; rw [if_neg hkne]; exact classifyKey_vocab hc hpI, ?_, ?_⟩
      · simp +decide [Json.wf, wfMembers]
      · rw [if_neg hkne]
        refine ⟨(fun xs e => by cases e), fun g s n => ?_⟩
        rw [evalItem_bnodeObj label hne c g s p b n]
        simp [denVal, outTerm, Term.map]
    | lit lex dt lang =>
      obtain ⟨hnn, hdtG⟩ := hP.lit lex dt lang rfl
      obtain ⟨hw, hna, hpf⟩ := literalValue_shape E lex dt lang hnn
      simp only [untag, buildStmt, stmtTree, encKey] at hU ⊢
      have hpI : IriOK E U names p := iriOK_of hP.pred (fun q hq => hU q (by simp [vocab_pfx, hq]))
      have hkne : (compactVocabIRI E p).1 ≠ kType := ne_of_head (by decide) (vocabForm hc hpI).1
      refine ⟨trivial, by unfold KeyOK; rw [if_neg hkne]; exact classifyKey_vocab hc hpI, hw, ?_⟩
      rw [if_neg hkne]
      refine ⟨hna, fun g s n => ?_⟩
      rw [evalItem_litObj hc lex dt lang hP.wf hnn
        (fun hs => iriOK_of hdtG (fun q hq => hU q (by rw [hpf, if_neg hs]; simp [hq]))) g s p n]
      simp [denVal, outTerm, Term.map]

theorem PS_anon (hc : GoodCtx E bs U names c) (b : β) (p : Str) (l : List (TStmt β))
    (ih : PL E label c U names bs l) : PS E label c U names bs (.anon b p l) := by
  obtain ⟨ih1, ih2, ih3⟩ := ih
  constructor
  · intro used0 q hq
    simp only [untag, buildStmt, List.mem_append]
    exact Or.inl (ih1 [] used0 q hq)
  · intro used0 hU hpo
    have hP := hpo (p, .bnode b) (by simp [tpos])
    simp only [untag, buildStmt, stmtTree, encKey] at hU ⊢
    have hpI : IriOK E U names p := iriOK_of hP.pred (fun q hq => hU q (by simp [vocab_pfx, hq]))
    have hkne : (compactVocabIRI E p).1 ≠ kType := ne_of_head (by decide) (vocabForm hc hpI).1
    have hgr := ih3 [] [] used0 (fun q hq => hU q (by simp [hq]))
      (fun po hpo' => hpo po (by simp [tpos, hpo'])) F2.nil
    have hnd := ih2 [] used0 (by simp)
    refine ⟨trivial, by unfold KeyOK; rw [if_neg hkne]; exact classifyKey_vocab hc hpI, obj_props_wf hgr hnd, ?_⟩
    rw [if_neg hkne]
    refine ⟨(fun xs e => by cases e), fun g s n => ?_⟩
    have hkeys := propMembers_keys hgr
    rw [evalItem_node c _ g s p _ n (by rw [hkeys.1]; exact hkeys.2)]
    have := evalMembers_props label c hgr g (.bnode (.fresh n)) false [] (n + 1)
    rw [List.append_nil] at this
    rw [this]
    simp [andThen_some, evalMembers, denVal, denId, groupByKey_eq]

theorem PL_nil : PL E label c U names bs ([] : List (TStmt β)) := by
  refine ⟨?_, ?_, ?_⟩
  · intro props used0 q hq; simpa [untags, buildStmts] using hq
  · intro props used0 h; simpa [untags, buildStmts] using h
  · intro props groups used0 _ _ h; simpa [untags, buildStmts, stmtTrees] using h

theorem PL_cons (x : TStmt β) (xs : List (TStmt β)) (hx : PS E label c U names bs x)
    (hxs : PL E label c U names bs xs) : PL E label c U names bs (x :: xs) := by
  obtain ⟨hx1, hx2⟩ := hx
  obtain ⟨h1, h2, h3⟩ := hxs
  refine ⟨?_, ?_, ?_⟩
  · intro props used0 q hq
    simp only [untags, buildStmts]
    exact h1 _ _ q (hx1 used0 q hq)
  · intro props used0 hn
    simp only [untags, buildStmts]
    exact h2 _ _ (nodup_keys_alUpd _ _ _ _ hn)
  · intro props groups used0 hU hpo hg
    simp only [untags, buildStmts] at hU ⊢
    obtain ⟨e1, e2, e3⟩ := hx2 used0 (fun q hq => hU q (h1 _ _ q hq)) (fun po h => hpo po (by simp [tposL, h]))
    simp only [stmtTrees, List.foldl_cons]
    apply h3 _ _ _ hU (fun po h => hpo po (by simp [tposL, h]))
    rw [e1]
    exact GR_step label c hg e2 e3

/-- the induction: the property map built from the untagged statements is related to the groups of the
    tagged statements -/
theorem build_rel (hc : GoodCtx E bs U names c) (hbase : bs.isSome = E.base.isSome) (hne : ∀ b, label b ≠ [])
    (l : List (TStmt β)) : PL E label c U names bs l := by
  refine TStmt.rec_1 (motive_1 := fun x => PS E label c U names bs x)
    (motive_2 := fun l => PL E label c U names bs l) ?_ ?_ ?_ ?_ l
  · intro p o; exact PS_obj hc hbase hne p o
  · intro b p l ih; exact PS_anon hc b p l ih
  · exact PL_nil
  · intro x xs hx hxs; exact PL_cons x xs hx hxs

end Steps

end RdfModel.Proofs.C10
