/-
  Statement layer of Turtle/TriG: LOCALITY of the scan functions (statement-layer half of C15
  `prefix_monotone`).  A scan-function call that is given a rune, succeeds and leaves something
  other than nothing or a lone `.` in the buffer (`Rem`) behaves identically on every extension of
  the input: same `rsNext`, same pushes, same statement, same environment, and the buffer extended
  by the same runes (`scanFn_local`).  The producers' part is `Producers.Local`
  (Proofs/TtlDocLocal.lean).
-/
import RdfModel.Proofs.TtlDocLocal
import RdfModel.Proofs.TtlDocSim
namespace RdfModel.TtlDoc
open RdfModel

/-- the buffer is not exhausted: neither empty nor a lone (pushed-back) `.` -/
def Rem (r : List Nat) : Prop := r ≠ [] ∧ r ≠ [0x2e]

/-- the same outcome with `s` appended to the buffer -/
def extOut (s : List Nat) (o : Out) : Out := { o with inp := o.inp ++ s }

variable {C : Cfg}

theorem matchKw_local (s : List Nat) : ∀ (kw : List (Nat × Nat)) (rest : List Nat),
    (∀ r, matchKw kw rest = .ok r → matchKw kw (rest ++ s) = .ok (r ++ s)) ∧
    (matchKw kw rest = .mismatch → matchKw kw (rest ++ s) = .mismatch) := by
  intro kw
  induction kw with
  | nil => intro rest; simp [matchKw]
  | cons p kw ih =>
    intro rest
    obtain ⟨u, l⟩ := p
    cases rest with
    | nil => simp [matchKw]
    | cons c r =>
      simp only [List.cons_append, matchKw]
      by_cases hc : c = u ∨ c = l
      · simp only [hc, if_true]; exact ih r
      · simp [hc]

theorem iriIRIREF_local (hL : C.P.Local) (env : Env) (i v r s : List Nat)
    (h : iriIRIREF C .eof env i = .ok v r) : iriIRIREF C .eof env (i ++ s) = .ok v (r ++ s) := by
  unfold iriIRIREF at h ⊢
  cases hp : C.P.iriref .eof i with
  | panic => rw [hp] at h; cases h
  | err c => rw [hp] at h; cases h
  | ok v' r' =>
    rw [hp] at h; simp only [] at h
    rw [hL.iriref .eof i v' r' s hp]; simp only []
    cases hr : resolveIRI C env v' with
    | none => rw [hr] at h; cases h
    | some i' => rw [hr] at h; simp only [] at h ⊢; injection h with h1 h2; subst h1; subst h2; rfl

theorem iriPName_local (hL : C.P.Local) (env : Env) (i v r s : List Nat)
    (h : iriPName C .eof env i = .ok v r) (hr : Rem r) : iriPName C .eof env (i ++ s) = .ok v (r ++ s) := by
  unfold iriPName at h ⊢
  cases hp : C.P.pname .eof i with
  | panic => rw [hp] at h; cases h
  | err c => rw [hp] at h; cases h
  | ok v' r' =>
    obtain ⟨ns, loc⟩ := v'
    rw [hp] at h; simp only [] at h
    cases hx : env.expand ns loc with
    | none => rw [hx] at h; cases h
    | some i' =>
      rw [hx] at h; simp only [] at h
      injection h with h1 h2; subst h1; subst h2
      rw [hL.pname .eof i (ns, loc) r' s hp hr]; simp only [hx]

theorem termIRIREF_local (hL : C.P.Local) (env env' : Env) (i : List Nat) (t : T) (r s : List Nat)
    (h : termIRIREF C .eof env i = .ok t r env') : termIRIREF C .eof env (i ++ s) = .ok t (r ++ s) env' := by
  unfold termIRIREF at h ⊢
  cases hi : iriIRIREF C .eof env i with
  | panic => rw [hi] at h; cases h
  | err c => rw [hi] at h; cases h
  | ok v r' =>
    rw [hi] at h; simp only [IriRes.toTerm] at h
    injection h with h1 h2 h3; subst h1; subst h2; subst h3
    rw [iriIRIREF_local hL env i v r' s hi]; rfl

theorem termPName_local (hL : C.P.Local) (env env' : Env) (i : List Nat) (t : T) (r s : List Nat)
    (h : termPName C .eof env i = .ok t r env') (hr : Rem r) : termPName C .eof env (i ++ s) = .ok t (r ++ s) env' := by
  unfold termPName at h ⊢
  cases hi : iriPName C .eof env i with
  | panic => rw [hi] at h; cases h
  | err c => rw [hi] at h; cases h
  | ok v r' =>
    rw [hi] at h; simp only [IriRes.toTerm] at h
    injection h with h1 h2 h3; subst h1; subst h2; subst h3
    rw [iriPName_local hL env i v r' s hi hr]; rfl

theorem termBNode_local (hL : C.P.Local) (env env' : Env) (i : List Nat) (t : T) (r s : List Nat)
    (h : termBNode C .eof env i = .ok t r env') (hr : Rem r) : termBNode C .eof env (i ++ s) = .ok t (r ++ s) env' := by
  unfold termBNode at h ⊢
  cases hp : C.P.bnode .eof i with
  | panic => rw [hp] at h; cases h
  | err c => rw [hp] at h; cases h
  | ok l r' =>
    rw [hp] at h; simp only [] at h
    injection h with h1 h2 h3; subst h1; subst h2; subst h3
    rw [hL.bnode .eof i l r' s hp hr]

/-- a `TermRes` with `s` appended to what it leaves -/
def TermRes.ext (s : List Nat) : TermRes → TermRes
  | .ok t r env => .ok t (r ++ s) env
  | x => x

/-- functions that turn a token into an outcome whose buffer is what the token left -/
structure Passes (F : TermRes → FnRes) : Prop where
  ok : ∀ t r env o, F (.ok t r env) = .ok o → o.inp = r ∧ ∀ s, F (.ok t (r ++ s) env) = .ok (extOut s o)
  other : ∀ tr o, F tr = .ok o → ∃ t r env, tr = .ok t r env

theorem passes_subjectOf (x : Ectx) : Passes (subjectOf x) where
  ok := by intro t r env o h; simp only [subjectOf, subjectTail] at h ⊢; injection h with h; subst h; exact ⟨rfl, fun s => rfl⟩
  other := by intro tr o h; cases tr <;> simp [subjectOf] at h; exact ⟨_, _, _, rfl⟩

theorem passes_labelOrSubject (x : Ectx) : Passes (labelOrSubject x) where
  ok := by intro t r env o h; simp only [labelOrSubject] at h ⊢; injection h with h; subst h; exact ⟨rfl, fun s => rfl⟩
  other := by intro tr o h; cases tr <;> simp [labelOrSubject] at h; exact ⟨_, _, _, rfl⟩

theorem passes_polOfTerm (x : Ectx) : Passes (polOfTerm x) where
  ok := by intro t r env o h; simp only [polOfTerm, polGo] at h ⊢; injection h with h; subst h; exact ⟨rfl, fun s => rfl⟩
  other := by intro tr o h; cases tr <;> simp [polOfTerm] at h; exact ⟨_, _, _, rfl⟩

theorem passes_emitOfTerm (x : Ectx) : Passes (emitOfTerm x) where
  ok := by intro t r env o h; simp only [emitOfTerm] at h ⊢; injection h with h; subst h; exact ⟨rfl, fun s => rfl⟩
  other := by intro tr o h; cases tr <;> simp [emitOfTerm] at h; exact ⟨_, _, _, rfl⟩

/-- token kinds, as in the simulation -/
inductive TK where
  | iriref | pname | bnode

def TK.term (C : Cfg) (env : Env) (i : List Nat) : TK → TermRes
  | .iriref => termIRIREF C .eof env i
  | .pname => termPName C .eof env i
  | .bnode => termBNode C .eof env i

theorem passes_local (hL : C.P.Local) {F : TermRes → FnRes} (hF : Passes F) (K : TK) (env : Env) (i : List Nat) (o : Out)
    (s : List Nat) (h : F (K.term C env i) = .ok o) (hr : Rem o.inp) : F (K.term C env (i ++ s)) = .ok (extOut s o) := by
  obtain ⟨t, r, env', htr⟩ := hF.other _ _ h
  rw [htr] at h
  obtain ⟨hinp, hext⟩ := hF.ok t r env' o h
  rw [hinp] at hr
  have : K.term C env (i ++ s) = .ok t (r ++ s) env' := by
    cases K
    · exact termIRIREF_local hL env env' i t r s htr
    · exact termPName_local hL env env' i t r s htr hr
    · exact termBNode_local hL env env' i t r s htr hr
  rw [this]; exact hext s

/-- what "local" means for a function of the input after the current rune -/
def LocalAt (s : List Nat) (F : List Nat → FnRes) (rest : List Nat) : Prop :=
  ∀ o, F rest = .ok o → Rem o.inp → F (rest ++ s) = .ok (extOut s o)

theorem localAt_const {s : List Nat} {rest : List Nat} (mk : List Nat → Out) (hmk : ∀ r, (mk r).inp = r)
    (hext : ∀ r, mk (r ++ s) = extOut s (mk r)) (f : List Nat → List Nat) (hf : f (rest ++ s) = f rest ++ s) :
    LocalAt s (fun r => .ok (mk (f r))) rest := by
  intro o h _
  simp only [] at h ⊢
  injection h with h; subst h
  rw [hf, hext]

theorem kwFallback_local (hL : C.P.Local) (x : Ectx) (env : Env) (c : Nat) (rest s : List Nat) :
    LocalAt s (fun r => kwFallback C .eof x env (c :: r)) rest := by
  intro o h hr
  simp only [kwFallback] at h ⊢
  split
  · next ht =>
    rw [if_pos ht] at h
    exact passes_local hL (passes_labelOrSubject x) .pname env (c :: rest) o s h hr
  · next ht =>
    rw [if_neg ht] at h
    injection h with h; subst h; rfl

theorem stepAtDirective_local (x : Ectx) (env : Env) (rest s : List Nat) :
    LocalAt s (stepAtDirective .eof x env) rest := by
  intro o h _
  cases rest with
  | nil => simp [stepAtDirective] at h
  | cons r1 rest1 =>
    simp only [List.cons_append, stepAtDirective] at h ⊢
    by_cases h1 : r1 = 0x62
    · rw [if_pos h1] at h ⊢
      cases hm : matchKw (kwExact "ase") rest1 with
      | eoi => rw [hm] at h; cases h
      | mismatch => rw [hm] at h; cases h
      | ok r =>
        rw [hm] at h; simp only [] at h
        rw [(matchKw_local s _ _).1 r hm]; simp only []
        injection h with h; subst h; rfl
    · rw [if_neg h1] at h ⊢
      by_cases h2 : r1 = 0x70
      · rw [if_pos h2] at h ⊢
        cases hm : matchKw (kwExact "refix") rest1 with
        | eoi => rw [hm] at h; cases h
        | mismatch => rw [hm] at h; cases h
        | ok r =>
          rw [hm] at h; simp only [] at h
          rw [(matchKw_local s _ _).1 r hm]; simp only []
          injection h with h; subst h; rfl
      · rw [if_neg h2] at h; cases h

theorem stepKwBase_local (hL : C.P.Local) (x : Ectx) (env : Env) (c : Nat) (rest s : List Nat) :
    LocalAt s (stepKwBase C .eof x env c) rest := by
  intro o h hr
  simp only [stepKwBase] at h ⊢
  cases hm : matchKw (kwCI "ASE") rest with
  | eoi => rw [hm] at h; cases h
  | mismatch =>
    rw [hm] at h; simp only [] at h
    rw [(matchKw_local s _ _).2 hm]; simp only []
    exact kwFallback_local hL x env c rest s o h hr
  | ok r =>
    rw [hm] at h; simp only [] at h
    rw [(matchKw_local s _ _).1 r hm]; simp only []
    cases r with
    | nil => simp at h
    | cons r4 rest4 =>
      simp only [List.cons_append] at h ⊢
      by_cases h1 : r4 = 0x3c
      · rw [if_pos h1] at h ⊢; injection h with h; subst h; rfl
      · rw [if_neg h1] at h ⊢
        by_cases h2 : (!C.isSpace r4) = true
        · rw [if_pos h2] at h ⊢; exact kwFallback_local hL x env c rest s o h hr
        · rw [if_neg h2] at h ⊢; injection h with h; subst h; rfl

theorem stepKwSpace_local (hL : C.P.Local) (x : Ectx) (env : Env) (kw : List (Nat × Nat)) (k : Cont) (c : Nat)
    (rest s : List Nat) : LocalAt s (stepKwSpace C .eof x env kw k c) rest := by
  intro o h hr
  simp only [stepKwSpace] at h ⊢
  cases hm : matchKw kw rest with
  | eoi => rw [hm] at h; cases h
  | mismatch =>
    rw [hm] at h; simp only [] at h
    rw [(matchKw_local s _ _).2 hm]; simp only []
    exact kwFallback_local hL x env c rest s o h hr
  | ok r =>
    rw [hm] at h; simp only [] at h
    rw [(matchKw_local s _ _).1 r hm]; simp only []
    cases r with
    | nil => simp at h
    | cons r6 rest6 =>
      simp only [List.cons_append] at h ⊢
      by_cases h2 : (!C.isSpace r6) = true
      · rw [if_pos h2] at h ⊢; exact kwFallback_local hL x env c rest s o h hr
      · rw [if_neg h2] at h ⊢; injection h with h; subst h; rfl

theorem stepSubjectStart_local (hL : C.P.Local) (x : Ectx) (env : Env) (c : Nat) (rest s : List Nat) :
    LocalAt s (stepSubjectStart C .eof x env c) rest := by
  intro o h hr
  simp only [stepSubjectStart] at h ⊢
  by_cases h1 : c = 0x3c
  · rw [if_pos h1] at h ⊢
    by_cases ht : C.trig = true
    · rw [if_pos ht] at h ⊢; exact passes_local hL (passes_labelOrSubject x) .iriref env (c :: rest) o s h hr
    · rw [if_neg ht] at h ⊢; injection h with h; subst h; rfl
  · rw [if_neg h1] at h ⊢
    by_cases h2 : c = 0x5f
    · rw [if_pos h2] at h ⊢
      by_cases ht : C.trig = true
      · rw [if_pos ht] at h ⊢; exact passes_local hL (passes_labelOrSubject x) .bnode env (c :: rest) o s h hr
      · rw [if_neg ht] at h ⊢; injection h with h; subst h; rfl
    · rw [if_neg h2] at h ⊢
      by_cases h3 : c = 0x5b
      · rw [if_pos h3] at h ⊢
        by_cases ht : C.trig = true
        · rw [if_pos ht] at h ⊢; injection h with h; subst h; rfl
        · rw [if_neg ht] at h ⊢; injection h with h; subst h; rfl
      · rw [if_neg h3] at h ⊢
        by_cases h4 : c = 0x28
        · rw [if_pos h4] at h ⊢; injection h with h; subst h; rfl
        · rw [if_neg h4] at h ⊢
          by_cases h5 : c = 0x3a ∨ C.pnBase c = true
          · rw [if_pos h5] at h ⊢
            by_cases ht : C.trig = true
            · rw [if_pos ht] at h ⊢; exact passes_local hL (passes_labelOrSubject x) .pname env (c :: rest) o s h hr
            · rw [if_neg ht] at h ⊢; injection h with h; subst h; rfl
          · rw [if_neg h5] at h; cases h

theorem stepStatementRune_local (hL : C.P.Local) (x : Ectx) (env : Env) (c : Nat) (rest s : List Nat) :
    LocalAt s (stepStatementRune C .eof x env c) rest := by
  intro o h hr
  simp only [stepStatementRune] at h ⊢
  by_cases h1 : c = 0x40
  · rw [if_pos h1] at h ⊢; exact stepAtDirective_local x env rest s o h hr
  · rw [if_neg h1] at h ⊢
    by_cases h2 : c = 0x42 ∨ c = 0x62
    · rw [if_pos h2] at h ⊢; exact stepKwBase_local hL x env c rest s o h hr
    · rw [if_neg h2] at h ⊢
      by_cases h3 : c = 0x50 ∨ c = 0x70
      · rw [if_pos h3] at h ⊢; exact stepKwSpace_local hL x env _ _ c rest s o h hr
      · rw [if_neg h3] at h ⊢
        by_cases h4 : C.trig = true ∧ (c = 0x47 ∨ c = 0x67)
        · rw [if_pos h4] at h ⊢; exact stepKwSpace_local hL x env _ _ c rest s o h hr
        · rw [if_neg h4] at h ⊢
          by_cases h5 : C.trig = true ∧ c = 0x7b
          · rw [if_pos h5] at h ⊢
            simp only [stepWrappedGraph] at h ⊢
            split at h
            · cases h
            · next hc => rw [if_neg hc]; injection h with h; subst h; rfl
          · rw [if_neg h5] at h ⊢; exact stepSubjectStart_local hL x env c rest s o h hr

theorem stepPOL_local (hL : C.P.Local) (x : Ectx) (env : Env) (c : Nat) (rest s : List Nat) :
    LocalAt s (stepPOL C .eof x env c) rest := by
  intro o h hr
  simp only [stepPOL] at h ⊢
  by_cases h1 : c = 0x3c
  · rw [if_pos h1] at h ⊢; exact passes_local hL (passes_polOfTerm x) .iriref env (c :: rest) o s h hr
  · rw [if_neg h1] at h ⊢
    by_cases h2 : c = 0x61
    · rw [if_pos h2] at h ⊢
      cases rest with
      | nil => simp at h
      | cons r1 rest1 =>
        simp only [List.cons_append] at h ⊢
        by_cases h3 : (!C.isSpace r1) = true
        · rw [if_pos h3] at h ⊢; exact passes_local hL (passes_polOfTerm x) .pname env (c :: r1 :: rest1) o s h hr
        · rw [if_neg h3] at h ⊢; simp only [polGo] at h ⊢; injection h with h; subst h; rfl
    · rw [if_neg h2] at h ⊢
      by_cases h3 : c = 0x3a ∨ C.pnBase c = true
      · rw [if_pos h3] at h ⊢; exact passes_local hL (passes_polOfTerm x) .pname env (c :: rest) o s h hr
      · rw [if_neg h3] at h ⊢; injection h with h; subst h; rfl

theorem stepLiteralTail_local (hL : C.P.Local) (x : Ectx) (env : Env) (lex rest s : List Nat) :
    LocalAt s (stepLiteralTail C .eof x env lex) rest := by
  intro o h hr
  cases rest with
  | nil => simp [stepLiteralTail] at h
  | cons c rest0 =>
    simp only [List.cons_append, stepLiteralTail] at h ⊢
    by_cases h1 : c = 0x40
    · rw [if_pos h1] at h ⊢
      cases hp : C.P.langtag .eof (c :: rest0) with
      | panic => rw [hp] at h; cases h
      | err k => rw [hp] at h; cases h
      | ok tag r =>
        rw [hp] at h; simp only [] at h
        injection h with h; subst h
        have := hL.langtag .eof (c :: rest0) tag r s hp hr.1
        rw [List.cons_append] at this
        rw [this]; rfl
    · rw [if_neg h1] at h ⊢
      by_cases h2 : c = 0x5e
      · rw [if_pos h2] at h ⊢
        cases rest0 with
        | nil => simp at h
        | cons c1 rest1 =>
          simp only [List.cons_append] at h ⊢
          by_cases h3 : c1 ≠ 0x5e
          · rw [if_pos h3] at h; cases h
          · rw [if_neg h3] at h ⊢
            cases rest1 with
            | nil => simp at h
            | cons c2 rest2 =>
              simp only [List.cons_append] at h ⊢
              by_cases h4 : c2 = 0x3c
              · simp only [h4, if_true] at h ⊢
                cases hi : iriIRIREF C .eof env (0x3c :: rest2) with
                | panic => rw [hi] at h; cases h
                | err k => rw [hi] at h; cases h
                | ok dt r =>
                  rw [hi] at h; simp only [] at h
                  have := iriIRIREF_local hL env (0x3c :: rest2) dt r s hi
                  rw [List.cons_append] at this
                  rw [this]; simp only []
                  split at h
                  · cases h
                  · next hd => rw [if_neg hd]; injection h with h; subst h; rfl
              · simp only [h4, if_false] at h ⊢
                cases hi : iriPName C .eof env (c2 :: rest2) with
                | panic => rw [hi] at h; cases h
                | err k => rw [hi] at h; cases h
                | ok dt r =>
                  rw [hi] at h; simp only [] at h
                  split at h
                  · cases h
                  · next hd =>
                    injection h with h; subst h
                    have := iriPName_local hL env (c2 :: rest2) dt r s hi hr
                    rw [List.cons_append] at this
                    rw [this]; simp only []
                    rw [if_neg hd]; rfl
      · rw [if_neg h2] at h ⊢; injection h with h; subst h; rfl

theorem emitOfNumeric_local (x : Ectx) (env : Env) (res : Ttl.Res (Ttl.NumKind × List Nat)) (o : Out)
    (h : emitOfNumeric x env res = .ok o) :
    ∃ v r, res = .ok v r ∧ o.inp = r ∧ ∀ s, emitOfNumeric x env (.ok v (r ++ s)) = .ok (extOut s o) := by
  cases res with
  | panic => cases h
  | err k => cases h
  | ok v r =>
    obtain ⟨kind, lex⟩ := v
    simp only [emitOfNumeric] at h
    injection h with h; subst h
    exact ⟨_, _, rfl, rfl, fun s => rfl⟩

theorem stepObject_local (hL : C.P.Local) (x : Ectx) (env : Env) (c : Nat) (rest s : List Nat) :
    LocalAt s (stepObject C .eof x env c) rest := by
  intro o h hr
  have hnum : ∀ o, emitOfNumeric x env (C.P.numeric .eof (c :: rest)) = .ok o → Rem o.inp →
      emitOfNumeric x env (C.P.numeric .eof (c :: (rest ++ s))) = .ok (extOut s o) := by
    intro o h hr
    obtain ⟨v, r, h1, h2, h3⟩ := emitOfNumeric_local x env _ o h
    rw [h2] at hr
    have := hL.numeric .eof (c :: rest) v r s h1 hr
    rw [List.cons_append] at this
    rw [this]; exact h3 s
  simp only [stepObject] at h ⊢
  by_cases h1 : c = 0x3c
  · rw [if_pos h1] at h ⊢; exact passes_local hL (passes_emitOfTerm x) .iriref env (c :: rest) o s h hr
  · rw [if_neg h1] at h ⊢
    by_cases h2 : c = 0x5f
    · rw [if_pos h2] at h ⊢; exact passes_local hL (passes_emitOfTerm x) .bnode env (c :: rest) o s h hr
    · rw [if_neg h2] at h ⊢
      by_cases h3 : c = 0x28
      · rw [if_pos h3] at h ⊢; injection h with h; subst h; rfl
      · rw [if_neg h3] at h ⊢
        by_cases h4 : c = 0x5b
        · rw [if_pos h4] at h ⊢; injection h with h; subst h; rfl
        · rw [if_neg h4] at h ⊢
          by_cases h5 : c = 0x22 ∨ c = 0x27
          · rw [if_pos h5] at h ⊢
            cases hp : C.P.string .eof (c :: rest) with
            | panic => rw [hp] at h; cases h
            | err k => rw [hp] at h; cases h
            | ok lex r =>
              rw [hp] at h; simp only [] at h
              have hne : r ≠ [] := by
                intro hr'; subst hr'; simp [stepLiteralTail] at h
              have := hL.string .eof (c :: rest) lex r s hp hne
              rw [List.cons_append] at this
              rw [this]; simp only []
              exact stepLiteralTail_local hL x env lex r s o h hr
          · rw [if_neg h5] at h ⊢
            by_cases h6 : c = 0x2b ∨ c = 0x2d ∨ (0x30 ≤ c ∧ c ≤ 0x39) ∨ c = 0x2e
            · rw [if_pos h6] at h ⊢
              by_cases h7 : c = 0x2e
              · rw [if_pos h7] at h ⊢
                cases rest with
                | nil => simp at h
                | cons r1 rest1 =>
                  simp only [List.cons_append] at h ⊢
                  by_cases h8 : r1 < 0x30 ∨ r1 > 0x39
                  · rw [if_pos h8] at h; cases h
                  · rw [if_neg h8] at h ⊢; exact hnum o h hr
              · rw [if_neg h7] at h ⊢; exact hnum o h hr
            · rw [if_neg h6] at h ⊢
              by_cases h7 : c = 0x74 ∨ c = 0x66
              · rw [if_pos h7] at h ⊢
                have hb := hL.boolean .eof (c :: rest) s
                rw [List.cons_append] at hb
                cases hp : C.P.boolean .eof (c :: rest) with
                | err k => rw [hp] at h; cases h
                | other =>
                  rw [hp] at h; simp only [] at h
                  rw [hb.2 hp]; simp only []
                  injection h with h; subst h; rfl
                | bool b r =>
                  rw [hp] at h; simp only [] at h
                  rw [hb.1 b r hp]; simp only []
                  injection h with h; subst h; rfl
              · rw [if_neg h7] at h ⊢
                by_cases h8 : C.pnBase c = true ∨ c = 0x3a
                · rw [if_pos h8] at h ⊢; injection h with h; subst h; rfl
                · rw [if_neg h8] at h; cases h

theorem stepTriples_local (x : Ectx) (env : Env) (c : Nat) (rest s : List Nat) :
    LocalAt s (stepTriples C x env c) rest := by
  intro o h _
  simp only [stepTriples] at h ⊢
  split at h
  · next h1 => rw [if_pos h1]; injection h with h; subst h; rfl
  · next h1 =>
    rw [if_neg h1]
    split at h
    · next h2 => rw [if_pos h2]; injection h with h; subst h; rfl
    · next h2 =>
      rw [if_neg h2]
      split at h
      · next h3 => rw [if_pos h3]; injection h with h; subst h; rfl
      · next h3 =>
        rw [if_neg h3]
        split at h
        · next h4 => rw [if_pos h4]; injection h with h; subst h; rfl
        · next h4 =>
          rw [if_neg h4]
          split at h
          · next h5 => rw [if_pos h5]; injection h with h; subst h; rfl
          · cases h

theorem stepCollection_local (x : Ectx) (env : Env) (c : Nat) (o' : T) (rest s : List Nat) :
    LocalAt s (fun r => stepCollection x env c r o') rest := by
  intro o h _
  simp only [stepCollection] at h ⊢
  split at h
  · next h1 => rw [if_pos h1]; injection h with h; subst h; rfl
  · next h1 =>
    rw [if_neg h1]
    cases hx : x.subj with
    | none => rw [hx] at h; simp only [] at h ⊢; injection h with h; subst h; rfl
    | some v => rw [hx] at h; simp only [] at h ⊢; injection h with h; subst h; rfl

theorem stepParen_local (top : Bool) (x : Ectx) (env : Env) (bn : T) (c : Nat) (rest s : List Nat) :
    LocalAt s (fun r => stepParen top x env bn (.rune c r)) rest := by
  intro o h _
  simp only [stepParen, Arg.orNul] at h ⊢
  by_cases h1 : c = 0x29
  · subst h1; simp only [↓reduceIte] at h ⊢; injection h with h; subst h; rfl
  · simp only [h1, ↓reduceIte] at h ⊢; injection h with h; subst h; rfl

theorem withSelf_local (x : Ectx) {s : List Nat} {F : List Nat → FnRes} {rest : List Nat} (hF : LocalAt s F rest) :
    LocalAt s (fun r => withSelf x (F r)) rest := by
  intro o h hr
  simp only [] at h ⊢
  cases hf : F rest with
  | panic => rw [hf] at h; cases h
  | err k => rw [hf] at h; cases h
  | ok o' =>
    rw [hf] at h; simp only [withSelf] at h
    injection h with h; subst h
    rw [hF o' hf hr]; rfl

/-- closures that only compare the rune and pass the rest of the buffer on -/
macro "simple_local" : tactic =>
  `(tactic| (intro o h _
             simp only [stepFn, Arg.orNul, stepWrappedGraph] at h ⊢
             repeat' split at h
             all_goals first
               | (cases h; done)
               | (injection h with h; subst h
                  simp only [*, ↓reduceIte, ne_eq, not_true_eq_false, not_false_eq_true]
                  first | rfl | (split <;> first | rfl | contradiction))))

theorem stepFn_local (hL : C.P.Local) (k : Cont) (x : Ectx) (env : Env) (c : Nat) (rest s : List Nat) :
    LocalAt s (fun r => stepFn C .eof k x env (.rune c r)) rest := by
  cases k with
  | statement =>
    simp only [stepFn]
    exact withSelf_local x (stepStatementRune_local hL x env c rest s)
  | atBaseIRI =>
    intro o h hr
    simp only [stepFn] at h ⊢
    cases hp : C.P.iriref .eof (c :: rest) with
    | panic => rw [hp] at h; cases h
    | err k => rw [hp] at h; cases h
    | ok v r =>
      rw [hp] at h; simp only [] at h
      have := hL.iriref .eof (c :: rest) v r s hp
      rw [List.cons_append] at this
      rw [this]; simp only []
      cases hr' : resolveURL C env v with
      | none => rw [hr'] at h; cases h
      | some b => rw [hr'] at h; simp only [ite_true] at h ⊢; injection h with h; subst h; rfl
  | sparqlBaseIRI =>
    intro o h hr
    simp only [stepFn] at h ⊢
    cases hp : C.P.iriref .eof (c :: rest) with
    | panic => rw [hp] at h; cases h
    | err k => rw [hp] at h; cases h
    | ok v r =>
      rw [hp] at h; simp only [] at h
      have := hL.iriref .eof (c :: rest) v r s hp
      rw [List.cons_append] at this
      rw [this]; simp only []
      cases hr' : resolveURL C env v with
      | none => rw [hr'] at h; cases h
      | some b => rw [hr'] at h; simp only [reduceCtorEq, ite_false] at h ⊢; injection h with h; subst h; rfl
  | atBaseDot b => simple_local
  | atPrefixNS =>
    intro o h hr
    simp only [stepFn] at h ⊢
    cases hp : C.P.pnameNS .eof (c :: rest) with
    | panic => rw [hp] at h; cases h
    | err k => rw [hp] at h; cases h
    | ok v r =>
      rw [hp] at h; simp only [] at h
      have := hL.pnameNS .eof (c :: rest) v r s hp
      rw [List.cons_append] at this
      rw [this]; simp only []
      injection h with h; subst h; rfl
  | sparqlPrefixNS =>
    intro o h hr
    simp only [stepFn] at h ⊢
    cases hp : C.P.pnameNS .eof (c :: rest) with
    | panic => rw [hp] at h; cases h
    | err k => rw [hp] at h; cases h
    | ok v r =>
      rw [hp] at h; simp only [] at h
      have := hL.pnameNS .eof (c :: rest) v r s hp
      rw [List.cons_append] at this
      rw [this]; simp only []
      injection h with h; subst h; rfl
  | atPrefixIRI ns =>
    intro o h hr
    simp only [stepFn] at h ⊢
    cases hp : C.P.iriref .eof (c :: rest) with
    | panic => rw [hp] at h; cases h
    | err k => rw [hp] at h; cases h
    | ok v r =>
      rw [hp] at h; simp only [] at h
      have := hL.iriref .eof (c :: rest) v r s hp
      rw [List.cons_append] at this
      rw [this]; simp only []
      cases hr' : resolveURL C env v with
      | none => rw [hr'] at h; cases h
      | some b => rw [hr'] at h; simp only [] at h ⊢; injection h with h; subst h; rfl
  | sparqlPrefixIRI ns =>
    intro o h hr
    simp only [stepFn] at h ⊢
    cases hp : C.P.iriref .eof (c :: rest) with
    | panic => rw [hp] at h; cases h
    | err k => rw [hp] at h; cases h
    | ok v r =>
      rw [hp] at h; simp only [] at h
      have := hL.iriref .eof (c :: rest) v r s hp
      rw [List.cons_append] at this
      rw [this]; simp only []
      cases hr' : resolveURL C env v with
      | none => rw [hr'] at h; cases h
      | some b => rw [hr'] at h; simp only [] at h ⊢; injection h with h; subst h; rfl
  | atPrefixDot ns b => simple_local
  | subjAnonOrBNPL => simple_local
  | triplesEnd => simple_local
  | subjIRIREF =>
    intro o h hr
    exact passes_local hL (passes_subjectOf x) .iriref env (c :: rest) o s h hr
  | subjPName =>
    intro o h hr
    exact passes_local hL (passes_subjectOf x) .pname env (c :: rest) o s h hr
  | subjBNode =>
    intro o h hr
    exact passes_local hL (passes_subjectOf x) .bnode env (c :: rest) o s h hr
  | pol => simp only [stepFn]; exact stepPOL_local hL x env c rest s
  | polContinue => simple_local
  | polRequired =>
    intro o h hr
    simp only [stepFn] at h ⊢
    cases hp : stepPOL C .eof x env c rest with
    | panic => rw [hp] at h; cases h
    | err k => rw [hp] at h; cases h
    | ok o' =>
      rw [hp] at h; simp only [] at h
      split at h
      · cases h
      · next hc =>
        injection h with h; subst h
        rw [stepPOL_local hL x env c rest s o' hp hr]; simp only []
        rw [if_neg (by simpa [extOut] using hc)]
  | objListContinue => simple_local
  | object => simp only [stepFn]; exact stepObject_local hL x env c rest s
  | objectPName =>
    intro o h hr
    exact passes_local hL (passes_emitOfTerm x) .pname env (c :: rest) o s h hr
  | collOpenObj => simp only [stepFn]; exact stepCollection_local x _ c _ rest s
  | collOpenSubj o' => simp only [stepFn, Arg.orNul]; exact stepCollection_local x _ c _ rest s
  | collContinue => simple_local
  | bnplEnd => simple_local
  | parenTop bn => simp only [stepFn]; exact stepParen_local true x env bn c rest s
  | parenBlock bn => simp only [stepFn]; exact stepParen_local false x env bn c rest s
  | graphLabel =>
    intro o h hr
    simp only [stepFn] at h ⊢
    by_cases h1 : c = 0x5b
    · rw [if_pos h1] at h ⊢; injection h with h; subst h; rfl
    · rw [if_neg h1] at h ⊢
      have key : ∀ K : TK, (match K.term C env (c :: rest) with
            | .panic => FnRes.panic
            | .err t => .err t
            | .ok g r env' => .ok { cur := some ⟨{ x with graph := some g }, .wrappedGraph⟩, inp := r, env := env' }) = .ok o →
          (match K.term C env (c :: (rest ++ s)) with
            | .panic => FnRes.panic
            | .err t => .err t
            | .ok g r env' => .ok { cur := some ⟨{ x with graph := some g }, .wrappedGraph⟩, inp := r, env := env' }) = .ok (extOut s o) := by
        intro K hk
        have hP : Passes (fun tr => match tr with
            | .panic => FnRes.panic
            | .err t => .err t
            | .ok g r env' => .ok { cur := some ⟨{ x with graph := some g }, .wrappedGraph⟩, inp := r, env := env' }) := by
          constructor
          · intro t r env' o h; simp only [] at h ⊢; injection h with h; subst h; exact ⟨rfl, fun s => rfl⟩
          · intro tr o h; cases tr <;> simp at h; exact ⟨_, _, _, rfl⟩
        exact passes_local hL hP K env (c :: rest) o s hk hr
      by_cases h2 : c = 0x5f
      · subst h2; simp only [↓reduceIte] at h ⊢; exact key .bnode h
      · simp only [h2, if_false] at h ⊢
        by_cases h3 : c = 0x3c
        · subst h3; simp only [↓reduceIte] at h ⊢; exact key .iriref h
        · simp only [h3, if_false] at h ⊢; exact key .pname h
  | graphAnonClose =>
    intro o h _
    simp only [stepFn, Arg.orNul] at h ⊢
    by_cases h1 : c = 0x5d
    · subst h1; simp only [ne_eq, not_true_eq_false, ↓reduceIte] at h ⊢; injection h with h; subst h; rfl
    · simp only [ne_eq, h1, not_false_eq_true, ↓reduceIte] at h; cases h
  | wrappedGraph => simple_local
  | wrappedGraphEnd => simple_local
  | triplesBlock => simple_local
  | triplesBlockQuest => simple_local
  | triples => simp only [stepFn]; exact stepTriples_local x env c rest s
  | tgE1 v =>
    intro o h _
    simp only [stepFn, Arg.orNul] at h ⊢
    by_cases h1 : c = 0x7b
    · subst h1; simp only [↓reduceIte] at h ⊢; injection h with h; subst h; rfl
    · simp only [h1, ↓reduceIte] at h ⊢
      cases v with
      | lit lex dt lang => cases h
      | iri i => simp only [] at h ⊢; injection h with h; subst h; rfl
      | bnode b => simp only [] at h ⊢; injection h with h; subst h; rfl
  | tgBracket bn =>
    intro o h _
    simp only [stepFn, Arg.orNul] at h ⊢
    by_cases h1 : c = 0x5d
    · subst h1; simp only [↓reduceIte] at h ⊢; injection h with h; subst h; rfl
    · simp only [h1, ↓reduceIte] at h ⊢; injection h with h; subst h; rfl
  | triples2BNPL => simple_local

theorem skipWs_local (C : Cfg) (s : List Nat) : ∀ (b : Bool) (i : List Nat) (c : Nat) (rest : List Nat),
    skipWs C .eof b i = .rune c rest → skipWs C .eof b (i ++ s) = .rune c (rest ++ s) := by
  intro b i
  induction i generalizing b with
  | nil => intro c rest h; cases b <;> simp [skipWs] at h
  | cons a r ih =>
    intro c rest h
    cases b with
    | true =>
      simp only [List.cons_append, skipWs] at h ⊢
      split at h
      · next h1 => rw [if_pos h1]; exact ih _ _ _ h
      · next h1 => rw [if_neg h1]; exact ih _ _ _ h
    | false =>
      simp only [List.cons_append, skipWs] at h ⊢
      split at h
      · next h1 => rw [if_pos h1]; exact ih _ _ _ h
      · next h1 =>
        rw [if_neg h1]
        split at h
        · next h2 => rw [if_pos h2]; exact ih _ _ _ h
        · next h2 =>
          rw [if_neg h2]
          injection h with q1 q2; subst q1; subst q2; rfl

/-- LOCALITY OF THE STATEMENT LAYER: a scan-function call (white-space skipping included) that is handed
    a rune, succeeds and does not exhaust the buffer gives the same outcome on every extension of
    the input, with the extension appended to the buffer. -/
theorem scanFn_local (hL : C.P.Local) (f : Frame) (i : List Nat) (env : Env) (o : Out) (s : List Nat)
    (hne : skipWs C .eof false i ≠ .end_) (h : scanFn C .eof f i env = .ok o) (hr : Rem o.inp) :
    scanFn C .eof f (i ++ s) env = .ok (extOut s o) := by
  unfold scanFn at h ⊢
  cases hs : skipWs C .eof false i with
  | commentIo => rw [hs] at h; cases h
  | end_ => exact absurd hs hne
  | rune c rest =>
    rw [hs] at h; simp only [] at h
    rw [skipWs_local C s _ _ _ _ hs]; simp only []
    exact stepFn_local hL f.k f.x env c rest s o h hr

/-- the decoder state with `s` appended to its buffer -/
def St.ext (s : List Nat) (st : St) : St := { st with inp := st.inp ++ s }

theorem applyOut_ext (s : List Nat) (st : St) (o : Out) :
    applyOut (st.ext s) (extOut s o) = (applyOut st o).ext s := by
  cases ht : o.term <;> simp [applyOut, St.ext, extOut, ht]

/-- … lifted to one iteration of the loop in `Next`: the run on the prefix and the run on the whole
    input move in lock-step as long as the prefix run's calls are handed a rune and do not exhaust
    its buffer. -/
theorem iter_local (hL : C.P.Local) (cur : Option Frame) (st : St) (s : List Nat) :
    (∀ r, iter C .eof cur st = .done (.yes r) → iter C .eof cur (st.ext s) = .done (.yes (r.ext s))) ∧
    (∀ c2 st2, iter C .eof cur st = .cont c2 st2 → st2.err = none → skipWs C .eof false st.inp ≠ .end_ → Rem st2.inp →
      iter C .eof cur (st.ext s) = .cont c2 (st2.ext s)) := by
  constructor
  · intro r h
    have e1 : (st.ext s).err = st.err := rfl
    have e2 : (st.ext s).stmts = st.stmts := rfl
    unfold iter at h ⊢
    rw [e1, e2]
    split at h
    · cases h
    · next h1 =>
      rw [if_neg h1]
      split at h
      · next h2 =>
        rw [if_pos h2]
        injection h with h; injection h with h; subst h
        cases cur <;> rfl
      · next h2 =>
        exfalso
        cases hp : popFrame cur st with
        | none => rw [hp] at h; cases h
        | some p =>
          rw [hp] at h; simp only [] at h
          cases hsc : scan C .eof p.1 p.2 <;> rw [hsc] at h <;> cases h
  · intro c2 st2 h herr2 hne hrem
    obtain ⟨herr, hst, f, st1, hp⟩ := iter_cont_inv h
    obtain ⟨hs1, he1, hi1, hv1, hfrom⟩ := popFrame_some hp
    have hp' : popFrame cur (st.ext s) = some (f, st1.ext s) := by
      rcases hfrom with ⟨rfl, hstack⟩ | ⟨rfl, hstack⟩
      · simp only [popFrame] at hp ⊢
        injection hp with hp; injection hp with _ hp; subst hp; rfl
      · simp only [popFrame, hstack] at hp
        injection hp with hp; injection hp with _ hp
        obtain ⟨a1, a2, a3, a4, a5⟩ := st1
        simp only [St.mk.injEq] at hp
        obtain ⟨_, rfl, rfl, rfl, rfl⟩ := hp
        simp only [] at hstack
        simp [popFrame, St.ext, hstack]
    rw [iter_pop C .eof herr hst hp] at h
    rw [iter_pop C .eof (st := st.ext s) (by simpa [St.ext] using herr) (by simpa [St.ext] using hst) hp']
    cases hsc : scanFn C .eof f st1.inp st1.env with
    | panic => rw [hsc] at h; cases h
    | err k =>
      rw [hsc] at h; simp only [] at h
      injection h with _ h; subst h; simp at herr2
    | ok o =>
      rw [hsc] at h; simp only [] at h
      injection h with q1 q2; subst q1; subst q2
      have hrem' : Rem o.inp := by simpa [applyOut] using hrem
      have := scanFn_local hL f st1.inp st1.env o s (by rw [hi1]; exact hne) hsc hrem'
      show (match scanFn C .eof f (st1.inp ++ s) st1.env with
        | .panic => Iter.done .panic
        | .err k => .cont none { st1.ext s with err := some k }
        | .ok o => .cont o.cur (applyOut (st1.ext s) o)) = _
      rw [this]; simp only []
      rw [applyOut_ext]; rfl

/-! ### Lock-step of the run on a prefix and the run on the whole input -/

/-- `Next()` of the run on the prefix answers `true` (state `a'`) and every scan-function call on the
    way was handed a rune and did not exhaust the buffer -/
inductive LocalYes (C : Cfg) : Option Frame → St → St → Prop where
  | done {cur a a'} : iter C .eof cur a = .done (.yes a') → LocalYes C cur a a'
  | step {cur a c2 a2 a'} : iter C .eof cur a = .cont c2 a2 → a2.err = none →
      skipWs C .eof false a.inp ≠ .end_ → Rem a2.inp → LocalYes C c2 a2 a' → LocalYes C cur a a'

theorem localYes_ext (hL : C.P.Local) (s : List Nat) {cur : Option Frame} {a a' : St} (h : LocalYes C cur a a') :
    Reach C .eof cur (a.ext s) (.yes (a'.ext s)) := by
  induction h with
  | done hi => exact .done ((iter_local hL _ _ s).1 _ hi)
  | step hi herr hne hrem _ ih => exact .step ((iter_local hL _ _ s).2 _ _ hi herr hne hrem) ih

/-- the state `Next` starts from: the statement handed out last time is dropped -/
def St.dropFirst (a : St) : St := { a with stmts := a.stmts.drop 1 }

/-- the statements yielded by the leading `Next()` calls of the run on the prefix that are local -/
inductive Common (C : Cfg) : St → List Stmt → Prop where
  | nil {a} : Common C a []
  | cons {a a' x rest l} : LocalYes C none a.dropFirst a' → a'.stmts = x :: rest → Common C a' l → Common C a (x :: l)

theorem common_prefix (hL : C.P.Local) (s : List Nat) {a : St} {lc : List Stmt} (h : Common C a lc) :
    ∀ n lf v, runLoop C .eof n (a.ext s) = (lf, v) → v ≠ .outOfFuel → lc <+: lf := by
  induction h with
  | nil => intro n lf v _ _; exact List.nil_prefix
  | @cons a a' x rest l hy hst _ ih =>
    intro n lf v hrun hv
    cases n with
    | zero => simp [runLoop] at hrun; exact absurd hrun.2.symm hv
    | succ n =>
      have hreach := localYes_ext hL s hy
      have hnext : next C .eof (a.ext s) = .yes (a'.ext s) ∨ next C .eof (a.ext s) = .outOfFuel :=
        nextLoop_of_reach hreach _
      unfold runLoop at hrun
      rcases hnext with hn | hn
      · rw [hn] at hrun; simp only [] at hrun
        have hst' : (a'.ext s).stmts = x :: rest := hst
        rw [hst'] at hrun; simp only [] at hrun
        cases hr : runLoop C .eof n (a'.ext s) with
        | mk ss v' =>
          rw [hr] at hrun
          simp only [Prod.mk.injEq] at hrun
          obtain ⟨rfl, rfl⟩ := hrun
          exact List.cons_prefix_cons.mpr ⟨rfl, ih n ss v' hr hv⟩
      · rw [hn] at hrun; simp only [Prod.mk.injEq] at hrun
        exact absurd hrun.2.symm hv

theorem St.ext_nil (a : St) : a.ext [] = a := by cases a; simp [St.ext]

/-- LOCK-STEP (statement-layer half of prefix monotonicity, run level): the statements yielded by the
    local `Next()` calls of the run on a prefix `p` are, in order, the first statements of the run on
    `p` itself AND of the run on every extension `p ++ s`. -/
theorem prefix_lockstep (hC : C.P.Consumes) (hL : C.P.Local) (base : Option (List Nat)) (pf : List (List Nat × List Nat))
    (p s : List Nat) (lc : List Stmt) (h : Common C (init base pf p) lc) :
    lc <+: (run C .eof base pf p).1 ∧ lc <+: (run C .eof base pf (p ++ s)).1 := by
  constructor
  · have := common_prefix hL [] h ((init base pf p).cost + 1) (run C .eof base pf p).1 (run C .eof base pf p).2
      (by rw [St.ext_nil]; rfl) (runLoop_fuel hC _ _ (Nat.lt_succ_self _))
    exact this
  · exact common_prefix hL s h ((init base pf (p ++ s)).cost + 1) (run C .eof base pf (p ++ s)).1
      (run C .eof base pf (p ++ s)).2 rfl (runLoop_fuel hC _ _ (Nat.lt_succ_self _))

/-! ### An executable form of `Common` -/

def Skip.isEnd : Skip → Bool
  | .end_ => true
  | _ => false

def remB (r : List Nat) : Bool := !(r.isEmpty) && !(r == [0x2e])

theorem remB_iff (r : List Nat) : remB r = true → Rem r := by
  intro h
  simp only [remB, Bool.and_eq_true, Bool.not_eq_true', beq_eq_false_iff_ne, ne_eq] at h
  refine ⟨?_, h.2⟩
  intro hr; subst hr; simp at h

/-- follow the iterations of one `Next()` as long as they are local -/
def localNext (C : Cfg) : Nat → Option Frame → St → Option St
  | 0, _, _ => none
  | n + 1, cur, a =>
    match iter C .eof cur a with
    | .done (.yes a') => some a'
    | .done _ => none
    | .cont c2 a2 =>
      if a2.err.isNone && !(skipWs C .eof false a.inp).isEnd && remB a2.inp then localNext C n c2 a2 else none

theorem localNext_sound : ∀ (n : Nat) (cur : Option Frame) (a a' : St),
    localNext C n cur a = some a' → LocalYes C cur a a' := by
  intro n
  induction n with
  | zero => intro cur a a' h; simp [localNext] at h
  | succ n ih =>
    intro cur a a' h
    unfold localNext at h
    cases hi : iter C .eof cur a with
    | done r =>
      rw [hi] at h
      cases r with
      | yes st => simp only [] at h; injection h with h; subst h; exact .done hi
      | no st => simp at h
      | panic => simp at h
      | outOfFuel => simp at h
    | cont c2 a2 =>
      rw [hi] at h; simp only [] at h
      split at h
      · next hc =>
        simp only [Bool.and_eq_true, Bool.not_eq_true', Option.isNone_iff_eq_none] at hc
        obtain ⟨⟨h1, h2⟩, h3⟩ := hc
        refine .step hi h1 ?_ (remB_iff _ h3) (ih _ _ _ h)
        intro he; rw [he] at h2; simp [Skip.isEnd] at h2
      · cases h

/-- the statements of the leading local `Next()` calls, computed -/
def commonRun (C : Cfg) : Nat → St → List Stmt
  | 0, _ => []
  | n + 1, a =>
    match localNext C (a.dropFirst.cost + 1) none a.dropFirst with
    | none => []
    | some a' =>
      match a'.stmts with
      | [] => []
      | x :: _ => x :: commonRun C n a'

theorem commonRun_sound : ∀ (n : Nat) (a : St), Common C a (commonRun C n a) := by
  intro n
  induction n with
  | zero => intro a; exact .nil
  | succ n ih =>
    intro a
    unfold commonRun
    cases hl : localNext C (a.dropFirst.cost + 1) none a.dropFirst with
    | none => exact .nil
    | some a' =>
      simp only []
      cases hs : a'.stmts with
      | nil => exact .nil
      | cons x rest => exact .cons (localNext_sound _ _ _ _ hl) hs (ih a')

/-- `prefix_lockstep` with the computed list. -/
theorem prefix_lockstep_exec (hC : C.P.Consumes) (hL : C.P.Local) (base : Option (List Nat))
    (pf : List (List Nat × List Nat)) (p s : List Nat) (n : Nat) :
    commonRun C n (init base pf p) <+: (run C .eof base pf p).1 ∧
    commonRun C n (init base pf p) <+: (run C .eof base pf (p ++ s)).1 :=
  prefix_lockstep hC hL base pf p s _ (commonRun_sound n _)

end RdfModel.TtlDoc
