/-
  Audit for the C05 / C06 parts that concern decoders without a parsing model
  (Props/C05Latch.lean, Props/C06Sites.lean): axioms used by every theorem
  (expected: a subset of {propext, Classical.choice, Quot.sound}).
-/
import RdfModel.Props.C05Latch
import RdfModel.Props.C06Sites

#print axioms RdfModel.C05X.latch_pattern_present
#print axioms RdfModel.C05X.latch_table_complete
#print axioms RdfModel.C05X.latch_generic
#print axioms RdfModel.C05X.latch_all_decoders
#print axioms RdfModel.C05X.latch_buffered
#print axioms RdfModel.C05X.latch_needs_guard
#print axioms RdfModel.C05X.latch_needs_quiet_absorbing
#print axioms RdfModel.C05X.C05LifeCycleFull_needs_hypothesis
#print axioms RdfModel.C06X.emit_sites_static
#print axioms RdfModel.C06X.emit_sites_understood
#print axioms RdfModel.C06X.emit_sites_cover_packages
#print axioms RdfModel.C06X.emit_sites_no_nil_literal
