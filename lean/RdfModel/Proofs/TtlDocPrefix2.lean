/-
  Statement layer of Turtle/TriG: what the decoder can still yield once its buffer is exhausted
  (C15 `prefix_monotone_d43`, last part).  When the run on a prefix has reached the end of its input —
  the buffer is empty / white space only, a lone pushed-back `.`, or a lone NUL pushed back by one of
  the closures that ignore `err` — every scan function either fails, passes the buffer on without
  yielding anything, or (the collection closures: D43) yields ONE statement and hands over to
  `Object`, which fails on such a buffer.  Hence at most one more statement.
-/
import RdfModel.Proofs.TtlDocPrefix
import RdfModel.Proofs.TtlDocTrunc
namespace RdfModel.TtlDoc
open RdfModel

variable {C : Cfg}

/-- what the token producers must refuse: a lone `.` or NUL starts no IRIREF, name or label; neither is a
    PN_CHARS_BASE rune; NUL is no white space (all true of the real producers and tables) -/
structure TinyFail (C : Cfg) : Prop where
  nul : NulPlain C
  dotBase : C.pnBase 0x2e = false
  iriref : ∀ c, (c = 0x2e ∨ c = 0) → ∃ k, C.P.iriref .eof [c] = .err k
  pname : ∀ c, (c = 0x2e ∨ c = 0) → ∃ k, C.P.pname .eof [c] = .err k
  pnameNS : ∀ c, (c = 0x2e ∨ c = 0) → ∃ k, C.P.pnameNS .eof [c] = .err k
  bnode : ∀ c, (c = 0x2e ∨ c = 0) → ∃ k, C.P.bnode .eof [c] = .err k

def TinyInp (i : List Nat) : Prop := i = [] ∨ i = [0x2e] ∨ i = [0]

/-- the argument of a scan-function call on an exhausted buffer -/
inductive TinyArg : Arg → Prop where
  | fail : TinyArg .fail
  | rune {c} : (c = 0x2e ∨ c = 0) → TinyArg (.rune c [])

/-- the outcome of a call on an exhausted buffer -/
def TinyRes : FnRes → Prop
  | .ok o => TinyInp o.inp ∧ (∀ y, o.emit = some y → o.inp ≠ [] ∧ ∃ x', o.cur = some ⟨x', .object⟩)
  | _ => True

theorem tinyRes_plain {cur : Option Frame} {push : List Frame} {inp : List Nat} {env : Env} {term : Bool}
    (h : TinyInp inp) : TinyRes (.ok { cur := cur, push := push, inp := inp, env := env, term := term }) :=
  ⟨h, fun y hy => by cases hy⟩

theorem tiny_single {c : Nat} (hc : c = 0x2e ∨ c = 0) : TinyInp [c] := by
  rcases hc with rfl | rfl
  · exact Or.inr (Or.inl rfl)
  · exact Or.inr (Or.inr rfl)

theorem termIRIREF_tiny (hT : TinyFail C) (env : Env) {c : Nat} (hc : c = 0x2e ∨ c = 0) :
    ∃ k, termIRIREF C .eof env [c] = .err k := by
  obtain ⟨k, hk⟩ := hT.iriref c hc
  exact ⟨ofTok k, by simp [termIRIREF, iriIRIREF, hk, IriRes.toTerm]⟩

theorem termPName_tiny (hT : TinyFail C) (env : Env) {c : Nat} (hc : c = 0x2e ∨ c = 0) :
    ∃ k, termPName C .eof env [c] = .err k := by
  obtain ⟨k, hk⟩ := hT.pname c hc
  exact ⟨ofTok k, by simp [termPName, iriPName, hk, IriRes.toTerm]⟩

theorem termBNode_tiny (hT : TinyFail C) (env : Env) {c : Nat} (hc : c = 0x2e ∨ c = 0) :
    ∃ k, termBNode C .eof env [c] = .err k := by
  obtain ⟨k, hk⟩ := hT.bnode c hc
  exact ⟨ofTok k, by simp [termBNode, hk]⟩

theorem pnBase_tiny (hT : TinyFail C) {c : Nat} (hc : c = 0x2e ∨ c = 0) : C.pnBase c = false := by
  rcases hc with rfl | rfl
  · exact hT.dotBase
  · exact hT.nul.base

theorem stepObject_tiny (hT : TinyFail C) (x : Ectx) (env : Env) {c : Nat} (hc : c = 0x2e ∨ c = 0) :
    ∃ k, stepObject C .eof x env c [] = .err k := by
  rcases hc with rfl | rfl
  · exact ⟨.eof, by simp [stepObject, endCls]⟩
  · exact ⟨_, stepObject_nul hT.nul x env⟩

theorem stepPOL_tiny (hT : TinyFail C) (x : Ectx) (env : Env) {c : Nat} (hc : c = 0x2e ∨ c = 0) :
    stepPOL C .eof x env c [] = .ok { inp := [c], env := env } := by
  have hb := pnBase_tiny hT hc
  rcases hc with rfl | rfl <;> simp [stepPOL, hb]

theorem stepCollection_tiny (x : Ectx) (env : Env) (o : T) {c : Nat} (hc : c = 0x2e ∨ c = 0) :
    TinyRes (stepCollection x env c [] o) := by
  have hne : c ≠ 0x29 := by rcases hc with rfl | rfl <;> decide
  simp only [stepCollection, hne, if_false]
  cases hx : x.subj with
  | none => exact tinyRes_plain (tiny_single hc)
  | some v => exact ⟨tiny_single hc, fun y _ => ⟨by simp, _, rfl⟩⟩

/-- `Object` (and the prefixed-name continuation of it) fails on an exhausted buffer. -/
theorem object_tiny (hT : TinyFail C) (x : Ectx) (env : Env) {a : Arg} (ha : TinyArg a) :
    (∃ k, stepFn C .eof .object x env a = .err k) := by
  cases ha with
  | fail => exact ⟨_, rfl⟩
  | rune hc => simp only [stepFn]; exact stepObject_tiny hT x env hc

theorem tiny_step_rune (hT : TinyFail C) (k : Cont) (x : Ectx) (env : Env) {c : Nat} (hc : c = 0x2e ∨ c = 0) :
    TinyRes (stepFn C .eof k x env (.rune c [])) := by
  obtain ⟨k1, h1⟩ := hT.iriref c hc
  obtain ⟨k2, h2⟩ := hT.pnameNS c hc
  obtain ⟨k3, h3⟩ := termIRIREF_tiny hT env hc
  obtain ⟨k4, h4⟩ := termPName_tiny hT env hc
  obtain ⟨k5, h5⟩ := termBNode_tiny hT env hc
  obtain ⟨k6, h6⟩ := stepObject_tiny hT x env hc
  have h7 := stepPOL_tiny hT x env hc
  have hb := pnBase_tiny hT hc
  have hcol : ∀ (env' : Env) (o : T), TinyRes (stepCollection x env' c [] o) := fun env' o => stepCollection_tiny x env' o hc
  have hs := tiny_single hc
  cases k with
  | collOpenObj => simp only [stepFn]; exact hcol _ _
  | collOpenSubj o => simp only [stepFn, Arg.orNul]; exact hcol _ _
  | collContinue =>
    have hne : c ≠ 0x29 := by rcases hc with rfl | rfl <;> decide
    simp only [stepFn, hne, if_false]
    exact ⟨hs, fun y _ => ⟨by simp, _, rfl⟩⟩
  | tgE1 v =>
    have hne : c ≠ 0x7b := by rcases hc with rfl | rfl <;> decide
    simp only [stepFn, Arg.orNul, hne, if_false]
    cases v with
    | lit lex dt lang => trivial
    | iri i => exact tinyRes_plain hs
    | bnode b => exact tinyRes_plain hs
  | _ =>
    rcases hc with rfl | rfl <;>
      simp [stepFn, TinyRes, TinyInp, Arg.orNul, stepStatementRune, stepSubjectStart, withSelf, stepParen, stepTriples,
        stepWrappedGraph, subjectOf, emitOfTerm, hb, h1, h2, h3, h4, h5, h6, h7] <;>
      (try (split <;> simp))

theorem tiny_step_fail (k : Cont) (x : Ectx) (env : Env) : TinyRes (stepFn C .eof k x env .fail) := by
  cases k with
  | collOpenSubj o => simp only [stepFn, Arg.orNul]; exact stepCollection_tiny x env o (Or.inr rfl)
  | tgE1 v =>
    simp only [stepFn, Arg.orNul, show ¬ (0 : Nat) = 0x7b by decide, if_false]
    cases v with
    | lit lex dt lang => trivial
    | iri i => exact tinyRes_plain (Or.inr (Or.inr rfl))
    | bnode b => exact tinyRes_plain (Or.inr (Or.inr rfl))
  | _ =>
    simp [stepFn, TinyRes, TinyInp, Arg.orNul, stepParen, stepWrappedGraph] <;>
      (try (split <;> simp))

theorem tiny_step (hT : TinyFail C) (k : Cont) (x : Ectx) (env : Env) {a : Arg} (ha : TinyArg a) :
    TinyRes (stepFn C .eof k x env a) := by
  cases ha with
  | fail => exact tiny_step_fail k x env
  | rune hc => exact tiny_step_rune hT k x env hc

/-! ### Runs on an exhausted buffer -/

/-- the buffer as `scan` sees it is exhausted -/
def TinyS (C : Cfg) (inp : List Nat) : Prop := skipWs C .eof false inp = .end_ ∨ inp = [0x2e] ∨ inp = [0]

theorem tinyS_of_inp {i : List Nat} (h : TinyInp i) : TinyS C i := by
  rcases h with rfl | rfl | rfl
  · exact Or.inl rfl
  · exact Or.inr (Or.inl rfl)
  · exact Or.inr (Or.inr rfl)

theorem tinyS_arg (hT : TinyFail C) {inp : List Nat} (h : TinyS C inp) :
    ∃ a, TinyArg a ∧ ∀ (f : Frame) (env : Env), scanFn C .eof f inp env = stepFn C .eof f.k f.x env a := by
  rcases h with h | rfl | rfl
  · exact ⟨.fail, .fail, fun f env => scanFn_end h f env⟩
  · by_cases hw : isWs C 0x2e = true
    · exact ⟨.fail, .fail, fun f env => by simp [scanFn, skipWs, hw]⟩
    · exact ⟨.rune 0x2e [], .rune (Or.inl rfl), fun f env => by simp [scanFn, skipWs, hw]⟩
  · exact ⟨.rune 0 [], .rune (Or.inr rfl), fun f env => scanFn_nul hT.nul f env⟩

/-- a statement has just been yielded from an exhausted buffer: `Object` is the next to run -/
def AfterEmit (a : St) : Prop :=
  a.err = none ∧ (∃ y, a.stmts = [y]) ∧ (∃ x' s', a.stack = ⟨x', .object⟩ :: s') ∧ TinyInp a.inp ∧ a.inp ≠ []

def YB1 : NextRes → Prop
  | .yes a' => AfterEmit a'
  | _ => True

theorem reach_err_no {e : End} {cur : Option Frame} {st : St} {r : NextRes} (h : st.err.isSome = true)
    (hr : Reach C e cur st r) : r = .no st := by
  cases hr with
  | done hi => rw [iter_of_err h] at hi; injection hi with hi; exact hi.symm
  | step hi _ => rw [iter_of_err h] at hi; cases hi

theorem iter_yes {e : End} {cur : Option Frame} {st : St} (herr : st.err = none) (hs : st.stmts ≠ []) :
    iter C e cur st = .done (.yes (pushCur cur st)) := by
  unfold iter
  rw [if_neg (by simp [herr])]
  rw [if_pos (by cases h : st.stmts <;> simp_all)]

theorem reach_yes {e : End} {cur : Option Frame} {st : St} {r : NextRes} (herr : st.err = none) (hs : st.stmts ≠ [])
    (hr : Reach C e cur st r) : r = .yes (pushCur cur st) := by
  cases hr with
  | done hi => rw [iter_yes herr hs] at hi; injection hi with hi; exact hi.symm
  | step hi _ => rw [iter_yes herr hs] at hi; cases hi

theorem tiny_reach (hT : TinyFail C) {cur : Option Frame} {st : St} {r : NextRes} (h : Reach C .eof cur st r) :
    TinyS C st.inp → st.err = none → st.stmts = [] → YB1 r := by
  induction h with
  | @done cur st r hi =>
    intro _ herr hst
    cases r with
    | yes a' =>
      exfalso
      unfold iter at hi
      rw [if_neg (by simp [herr]), if_neg (by simp [hst])] at hi
      cases hp : popFrame cur st with
      | none => rw [hp] at hi; cases hi
      | some p =>
        rw [hp] at hi; simp only [] at hi
        cases hsc : scan C .eof p.1 p.2 <;> rw [hsc] at hi <;> cases hi
    | _ => trivial
  | @step cur st c2 st2 r hi hr ih =>
    intro htiny herr hst
    obtain ⟨_, _, f, st1, hp⟩ := iter_cont_inv hi
    obtain ⟨hs1, he1, hi1, hv1, _⟩ := popFrame_some hp
    rw [iter_pop C .eof herr hst hp] at hi
    obtain ⟨a, ha, hsc⟩ := tinyS_arg hT (hi1 ▸ htiny)
    rw [hsc] at hi
    have hres := tiny_step hT f.k f.x st1.env ha
    cases hstep : stepFn C .eof f.k f.x st1.env a with
    | panic => rw [hstep] at hi; cases hi
    | err k =>
      rw [hstep] at hi; simp only [] at hi
      injection hi with q1 q2; subst q1; subst q2
      rw [reach_err_no (by simp) hr]; trivial
    | ok o =>
      rw [hstep] at hi hres; simp only [] at hi
      injection hi with q1 q2; subst q1; subst q2
      obtain ⟨hinp, hemit⟩ := hres
      cases hem : o.emit with
      | none =>
        exact ih (tinyS_of_inp (by simpa [applyOut] using hinp)) (by simp [applyOut, he1, herr])
          (by simp [applyOut, hem, hs1, hst])
      | some y =>
        obtain ⟨hne, x', hcur⟩ := hemit y hem
        have := reach_yes (C := C) (by simp [applyOut, he1, herr] : (applyOut st1 o).err = none)
          (by simp [applyOut, hem] : (applyOut st1 o).stmts ≠ []) hr
        rw [this, hcur]
        refine ⟨by simp [pushCur, applyOut, he1, herr], ⟨y, by simp [pushCur, applyOut, hem, hs1, hst]⟩,
          ⟨x', (applyOut st1 o).stack, by simp [pushCur]⟩, by simpa [pushCur, applyOut] using hinp, by simpa [pushCur, applyOut] using hne⟩

/-- after that, `Next()` answers false -/
theorem afterEmit_no (hT : TinyFail C) {a : St} (h : AfterEmit a) :
    ∃ st', Reach C .eof none a.dropFirst (.no st') := by
  obtain ⟨herr, ⟨y, hy⟩, ⟨x', s', hstack⟩, hinp, hne⟩ := h
  have herr0 : a.dropFirst.err = none := herr
  have hst0 : a.dropFirst.stmts = [] := by simp [St.dropFirst, hy]
  have hstack0 : a.dropFirst.stack = ⟨x', .object⟩ :: s' := hstack
  obtain ⟨arg, harg, hsc⟩ := tinyS_arg hT (tinyS_of_inp (C := C) hinp)
  obtain ⟨k, hk⟩ := object_tiny hT x' a.dropFirst.env harg
  have : scanFn C .eof ⟨x', .object⟩ a.dropFirst.inp a.dropFirst.env = .err k := by
    show scanFn C .eof ⟨x', .object⟩ a.inp a.dropFirst.env = .err k
    rw [hsc]; exact hk
  exact ⟨_, reach_latch (k := k) (iter_pop_err herr0 hst0 hstack0 this) rfl⟩

theorem runLoop_nil_of_no {e : End} {a st' : St} (h : Reach C e none a.dropFirst (.no st')) :
    ∀ m, (runLoop C e m a).1 = [] := by
  intro m
  cases m with
  | zero => rfl
  | succ m =>
    unfold runLoop
    have : next C e a = .no st' ∨ next C e a = .outOfFuel := nextLoop_of_reach h _
    rcases this with h1 | h1 <;> rw [h1]

/-- From an exhausted buffer the decoder yields at most ONE more statement. -/
theorem tiny_bound (hT : TinyFail C) (a : St) (htiny : TinyS C a.inp) (herr : a.err = none)
    (hst : a.dropFirst.stmts = []) : ∀ m, (runLoop C .eof m a).1.length ≤ 1 := by
  intro m
  cases m with
  | zero => simp [runLoop]
  | succ m =>
    unfold runLoop
    cases hn : next C .eof a with
    | panic => simp
    | outOfFuel => simp
    | no st' => simp
    | yes a' =>
      simp only []
      have hreach : Reach C .eof none a.dropFirst (.yes a') := by
        have := reach_of_nextLoop C .eof (a.dropFirst.cost + 1) none a.dropFirst
          (by show next C .eof a ≠ .outOfFuel; rw [hn]; simp)
        have e1 : nextLoop C .eof (a.dropFirst.cost + 1) none a.dropFirst = .yes a' := hn
        rw [e1] at this; exact this
      have hae : AfterEmit a' := tiny_reach hT hreach htiny herr hst
      obtain ⟨st', hno⟩ := afterEmit_no hT hae
      obtain ⟨_, ⟨y, hy⟩, _⟩ := hae
      rw [hy]; simp only []
      have := runLoop_nil_of_no hno m
      cases hr : runLoop C .eof m a' with
      | mk ss v => rw [hr] at this; simp only [] at this ⊢; subst this; simp

/-! ### Putting it together: lock-step, then at most two more statements -/

def Bound1 (C : Cfg) : NextRes → Prop
  | .yes a' => ∀ m, (runLoop C .eof m a').1.length ≤ 1
  | _ => True

theorem yb1_bound (hT : TinyFail C) {r : NextRes} (h : YB1 r) : Bound1 C r := by
  cases r with
  | yes a' =>
    obtain ⟨st', hno⟩ := afterEmit_no hT h
    intro m
    rw [runLoop_nil_of_no hno m]; simp
  | _ => trivial

theorem iter_cont_stmts {e : End} {cur : Option Frame} {a : St} {c2 : Option Frame} {a2 : St}
    (hi : iter C e cur a = .cont c2 a2) : a2.stmts.drop 1 = [] := by
  obtain ⟨herr, hst, f, st1, hp⟩ := iter_cont_inv hi
  obtain ⟨hs1, _, _, _, _⟩ := popFrame_some hp
  rw [iter_pop C e herr hst hp] at hi
  cases hsc : scanFn C e f st1.inp st1.env with
  | panic => rw [hsc] at hi; cases hi
  | err k =>
    rw [hsc] at hi; simp only [] at hi
    injection hi with _ q; subst q; simp [hs1, hst]
  | ok o =>
    rw [hsc] at hi; simp only [] at hi
    injection hi with _ q; subst q
    cases hem : o.emit <;> simp [applyOut, hem, hs1, hst]

/-- One `Next()` of the run on the prefix: either all its scan calls are local, or what the run yields
    from the answer on is bounded. -/
theorem next_split (hT : TinyFail C) {cur : Option Frame} {a : St} {r : NextRes} (h : Reach C .eof cur a r) :
    (∃ a', r = .yes a' ∧ LocalYes C cur a a') ∨ Bound1 C r := by
  induction h with
  | @done cur a r hi =>
    cases r with
    | yes a' => exact Or.inl ⟨a', rfl, .done hi⟩
    | _ => exact Or.inr trivial
  | @step cur a c2 a2 r hi hr ih =>
    obtain ⟨herr, hst, _, _, _⟩ := iter_cont_inv hi
    by_cases he2 : a2.err = none
    · by_cases hend : skipWs C .eof false a.inp = .end_
      · exact Or.inr (yb1_bound hT (tiny_reach hT (.step hi hr) (Or.inl hend) herr hst))
      · by_cases hrem : Rem a2.inp
        · rcases ih with ⟨a', rfl, hl⟩ | hb
          · exact Or.inl ⟨a', rfl, .step hi he2 hend hrem hl⟩
          · exact Or.inr hb
        · right
          have htin : TinyInp a2.inp := by
            unfold Rem at hrem
            by_cases h1 : a2.inp = []
            · exact Or.inl h1
            · by_cases h2 : a2.inp = [0x2e]
              · exact Or.inr (Or.inl h2)
              · exact absurd ⟨h1, h2⟩ hrem
          by_cases hs2 : a2.stmts = []
          · exact yb1_bound hT (tiny_reach hT hr (tinyS_of_inp htin) he2 hs2)
          · rw [reach_yes he2 hs2 hr]
            show ∀ m, (runLoop C .eof m (pushCur c2 a2)).1.length ≤ 1
            have hd := iter_cont_stmts hi
            refine tiny_bound hT _ ?_ ?_ ?_
            · cases c2 <;> exact tinyS_of_inp htin
            · cases c2 <;> exact he2
            · cases c2 <;> exact hd
    · right
      rw [reach_err_no (by cases h : a2.err <;> simp_all) hr]
      trivial

theorem prefix_bound (hT : TinyFail C) : ∀ (n : Nat) (a : St) (lp : List Stmt) (v : Verdict),
    runLoop C .eof n a = (lp, v) → v ≠ .outOfFuel →
    ∃ lc extra, lp = lc ++ extra ∧ Common C a lc ∧ extra.length ≤ 2 := by
  intro n
  induction n with
  | zero => intro a lp v h hv; simp [runLoop] at h; exact absurd h.2.symm hv
  | succ n ih =>
    intro a lp v h hv
    unfold runLoop at h
    cases hn : next C .eof a with
    | panic => rw [hn] at h; simp only [Prod.mk.injEq] at h; exact ⟨[], [], by simp [← h.1], .nil, by simp⟩
    | outOfFuel => rw [hn] at h; simp only [Prod.mk.injEq] at h; exact absurd h.2.symm hv
    | no st' => rw [hn] at h; simp only [Prod.mk.injEq] at h; exact ⟨[], [], by simp [← h.1], .nil, by simp⟩
    | yes a' =>
      rw [hn] at h; simp only [] at h
      have hreach : Reach C .eof none a.dropFirst (.yes a') := by
        have := reach_of_nextLoop C .eof (a.dropFirst.cost + 1) none a.dropFirst
          (by show next C .eof a ≠ .outOfFuel; rw [hn]; simp)
        have e1 : nextLoop C .eof (a.dropFirst.cost + 1) none a.dropFirst = .yes a' := hn
        rw [e1] at this; exact this
      cases hs : a'.stmts with
      | nil => rw [hs] at h; simp only [Prod.mk.injEq] at h; exact ⟨[], [], by simp [← h.1], .nil, by simp⟩
      | cons x rest =>
        rw [hs] at h; simp only [] at h
        cases hr : runLoop C .eof n a' with
        | mk ss v' =>
          rw [hr] at h; simp only [Prod.mk.injEq] at h
          obtain ⟨rfl, rfl⟩ := h
          rcases next_split hT hreach with ⟨a'', heq, hl⟩ | hb
          · injection heq with heq; subst heq
            obtain ⟨lc, extra, h1, h2, h3⟩ := ih a' ss v' hr hv
            exact ⟨x :: lc, extra, by simp [h1], .cons hl hs h2, h3⟩
          · have : ss.length ≤ 1 := by
              have := hb n; rw [hr] at this; exact this
            exact ⟨[], x :: ss, rfl, .nil, by simp; omega⟩

theorem dropLast2_prefix (lc extra : List Stmt) (h : extra.length ≤ 2) :
    (lc ++ extra).dropLast.dropLast <+: lc := by
  match extra, h with
  | [], _ =>
    simp only [List.append_nil]
    exact (List.dropLast_prefix _).trans (List.dropLast_prefix _)
  | [x], _ => rw [List.dropLast_concat]; exact List.dropLast_prefix _
  | [x, y], _ =>
    have : lc ++ [x, y] = (lc ++ [x]) ++ [y] := by simp
    rw [this, List.dropLast_concat, List.dropLast_concat]
    exact List.prefix_refl _
  | _ :: _ :: _ :: _, h => simp at h

/-- PREFIX MONOTONICITY with the D43 allowance: the statements decoded from a prefix are, in order,
    statements of the whole document, except possibly the last TWO. -/
theorem prefix_monotone_two (hT : TinyFail C) (hC : C.P.Consumes) (hL : C.P.Local) (base : Option (List Nat))
    (pf : List (List Nat × List Nat)) (p s : List Nat) :
    (run C .eof base pf p).1.dropLast.dropLast <+: (run C .eof base pf (p ++ s)).1 := by
  obtain ⟨lc, extra, h1, h2, h3⟩ := prefix_bound hT ((init base pf p).cost + 1) (init base pf p)
    (run C .eof base pf p).1 (run C .eof base pf p).2 rfl (runLoop_fuel hC _ _ (Nat.lt_succ_self _))
  rw [h1]
  exact (dropLast2_prefix lc extra h3).trans (prefix_lockstep hC hL base pf p s lc h2).2

/-- `TinyFail` for the real token producers. -/
theorem real_tinyFail (T : Ttl.Tables) (trig : Bool) (resolve : Option (List Nat) → List Nat → Option (List Nat))
    (isSpace : Nat → Bool) (h0 : inRanges T.pnCharsBase 0 = false) (hd : inRanges T.pnCharsBase 0x2e = false)
    (hs : isSpace 0 = false) :
    TinyFail { trig := trig, P := Producers.real T, resolve := resolve, isSpace := isSpace, pnBase := inRanges T.pnCharsBase } where
  nul := ⟨hs, h0⟩
  dotBase := hd
  iriref := by
    intro c hc
    rcases hc with rfl | rfl <;> exact ⟨.syntax, by simp [Producers.real, Ttl.produceIRIREF]⟩
  pname := by
    intro c hc
    rcases hc with rfl | rfl
    · exact ⟨.syntax, by simp [Producers.real, Ttl.producePrefixedName, Ttl.producePNAME_NS, hd]⟩
    · exact ⟨.syntax, by simp [Producers.real, Ttl.producePrefixedName, Ttl.producePNAME_NS, h0]⟩
  pnameNS := by
    intro c hc
    rcases hc with rfl | rfl
    · exact ⟨.syntax, by simp [Producers.real, Ttl.producePNAME_NS, hd]⟩
    · exact ⟨.syntax, by simp [Producers.real, Ttl.producePNAME_NS, h0]⟩
  bnode := by
    intro c hc
    rcases hc with rfl | rfl <;> exact ⟨.syntax, by simp [Producers.real, Ttl.produceBlankNode]⟩

end RdfModel.TtlDoc
