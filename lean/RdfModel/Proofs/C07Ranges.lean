/-
  Proofs.C07Ranges — removing one code point from a range set (to compare the N-Triples/N-Quads
  name-character classes, which contain ':', with the Turtle/TriG ones, which do not).
-/
import RdfModel.Model.Rune
namespace RdfModel.Proofs.C07
open RdfModel

theorem inRanges_append (a b : RangeSet) (c : Nat) :
    inRanges (a ++ b) c = (inRanges a c || inRanges b c) := by
  induction a with
  | nil => simp [inRanges]
  | cons x rest ih => obtain ⟨lo, hi⟩ := x; simp [inRanges, ih, Bool.or_assoc]

/-- `rs` without the code point `p` (ranges are split; order is kept). -/
def removePoint (p : Nat) : RangeSet → RangeSet
  | [] => []
  | (lo, hi) :: rest =>
    (if p < lo ∨ hi < p then [(lo, hi)]
     else (if lo < p then [(lo, p - 1)] else []) ++ (if p < hi then [(p + 1, hi)] else []))
    ++ removePoint p rest

theorem inRanges_removePoint (p : Nat) (rs : RangeSet) (c : Nat) :
    inRanges (removePoint p rs) c = (inRanges rs c && c != p) := by
  induction rs with
  | nil => simp [removePoint, inRanges]
  | cons x rest ih =>
    obtain ⟨lo, hi⟩ := x
    simp only [removePoint, inRanges_append, ih, inRanges]
    by_cases hc : c = p
    · subst hc
      by_cases h1 : c < lo ∨ hi < c
      · have : (decide (lo ≤ c) && decide (c ≤ hi)) = false := by
          simp only [Bool.and_eq_false_iff, decide_eq_false_iff_not]; omega
        simp [h1, inRanges, this]
      · simp only [h1, if_false]
        split <;> split <;> simp [inRanges] <;> omega
    · have hne : (c != p) = true := by simp [hc]
      simp only [hne, Bool.and_true]
      congr 1
      by_cases h1 : p < lo ∨ hi < p
      · simp [h1, inRanges]
      · simp only [h1, if_false]
        have hp : lo ≤ p ∧ p ≤ hi := by omega
        rw [Bool.eq_iff_iff]
        by_cases h2 : lo < p <;> by_cases h3 : p < hi <;>
          simp only [h2, h3, if_true, if_false, inRanges, List.nil_append, List.append_nil,
            List.cons_append, Bool.or_false, Bool.or_eq_true, Bool.and_eq_true, decide_eq_true_eq,
            Bool.false_eq_true] <;> (constructor <;> intro h <;> first | omega | exact False.elim h)

/-- If removing `p` from `a` gives `b`, the two sets agree everywhere except at `p`. -/
theorem agree_off_point {a b : RangeSet} {p : Nat} (h : removePoint p a = b) (c : Nat) (hc : c ≠ p) :
    inRanges a c = inRanges b c := by
  have := inRanges_removePoint p a c
  rw [h] at this
  simp [this, hc]

end RdfModel.Proofs.C07
