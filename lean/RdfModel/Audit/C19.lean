import RdfModel.Props.C19
import RdfModel.Props.C19Facts
#print axioms RdfModel.C19.literal_key_injective
#print axioms RdfModel.C19.literal_key_collision_illformed
#print axioms RdfModel.C19.intern_injective
#print axioms RdfModel.C19.termEquals_iff_eq
#print axioms RdfModel.C19.literal_equals_iff_eq
#print axioms RdfModel.C19.termEquals_symm
#print axioms RdfModel.C19.termEquals_iff_eq_identity
#print axioms RdfModel.C19.equals_spec_identity
#print axioms RdfModel.C19.equalsOneOf_mem_identity
#print axioms RdfModel.C19.refines_set
#print axioms RdfModel.C19.reachable_step
#print axioms RdfModel.C19.iterate_matchers
#print axioms RdfModel.C19.iterate_matchers_view
#print axioms RdfModel.C19.no_duplicates
#print axioms RdfModel.C19.no_duplicates_view
#print axioms RdfModel.C19.has_iff_mem
#print axioms RdfModel.C19.delete_absent_noop
#print axioms RdfModel.C19.equals_spec
#print axioms RdfModel.C19.equalsOneOf_spec
#print axioms RdfModel.C19.equalsOneOf_mem
#print axioms RdfModel.C19.view_consistency_write
#print axioms RdfModel.C19.view_consistency_has
#print axioms RdfModel.C19.gen_bindNode_always_writes
#print axioms RdfModel.C19.gen_state_writers
