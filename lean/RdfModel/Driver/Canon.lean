/-
  Driver handler for component `canon` (properties C03, C04).

  canon.runs  <hash> <n> <quad>…        Model.Rdfcanon.canon under order seeds 0..n-1, results joined by `|`
                                        each: `ok x<bytes> <issued> <origidx>` | `limit:<which>` | `panic`
  canon.specs <hash> <twice> <n> <quad>… Spec.RDFC10.canonFuel under order seeds 0..n-1 (seed s shuffles both the
                                        key order of step 3 and every blank node list before its permutations are
                                        enumerated; seed 0 = identity = the order the model uses)
                                        each: `ok x<bytes> <issued>` | `fuel` ; whole answer `limit` if the model
                                        with maxPermutations 5040 refuses the input (the spec has no bound)
  canon.sha   <sha256|sha384> x<bytes>  hex digest (test of Model.Sha2 against Go's crypto)
  canon.opts  <h?p?b?;…>                effective configuration of an option list (last set wins per field)
  canon.lit   <L-term>                  Spec.RDFC10.literal of a literal term (test of canonical escaping)
  quad token: `S,P,O,G` with the term tokens of Driver/Wire.lean.
  hash: sha256 | sha384 | test8 | test2 | test1 (first 8 / 2 / 1 hex digits of SHA-256: provoke collisions).
-/
import RdfModel.Driver.Wire
import RdfModel.Model.Rdfcanon
import RdfModel.Model.Sha2
import RdfModel.Spec.RDFC10
import RdfModel.Gen.NQTables
namespace RdfModel.Driver.Canon
open RdfModel RdfModel.Wire

def hashOf (name : String) : Option (Str → Str) :=
  let s256 := fun (s : Str) => Sha2.hexLower (Sha2.sha256 (utf8Encode s))
  if name = "sha256" then some s256
  else if name = "sha384" then some (fun s => Sha2.hexLower (Sha2.sha384 (utf8Encode s)))
  else if name = "test8" then some (fun s => (s256 s).take 8)
  else if name = "test2" then some (fun s => (s256 s).take 2)
  else if name = "test1" then some (fun s => (s256 s).take 1)
  else none

def parseQuad (tok : String) : Option (Quad (List Nat)) :=
  match tok.splitOn "," with
  | [s, p, o, g] => do
    let s ← (← parseTerm s)
    let p ← (← parseTerm p)
    let o ← (← parseTerm o)
    let g ← parseTerm g
    pure ⟨s, p, o, g⟩
  | _ => none

/-- Blank node labels interned as numbers (first occurrence order). -/
def labelsOf (qs : List (Quad (List Nat))) : List (List Nat) :=
  (qs.flatMap (fun q => Spec.RDFC10.quadBnodes q)).eraseDups

def indexOf (labels : List (List Nat)) (l : List Nat) : Nat := labels.idxOf l

/-- Deterministic shuffle from a seed; seed 0 is the identity. -/
def shuffleAux {α : Type} : Nat → Nat → List α → List α → List α
  | 0, _, l, acc => acc.reverse ++ l
  | fuel + 1, s, l, acc =>
    match l with
    | [] => acc.reverse
    | _ =>
      let s' := (s * 6364136223846793005 + 1442695040888963407) % 18446744073709551616
      let i := (s' / 4294967296) % l.length
      match l[i]? with
      | some x => shuffleAux fuel s' (l.eraseIdx i) (x :: acc)
      | none => acc.reverse ++ l

def shuffle {α : Type} (seed : Nat) (l : List α) : List α :=
  if seed = 0 then l else shuffleAux l.length (seed * 2654435761 + 12345) l []

def showIssued (labels : List (List Nat)) (m : List (Nat × Str)) : String :=
  let ents := m.map (fun e => (hexRunes (labels.getD e.1 []), hexRunes e.2))
  let ents := ents.mergeSort (fun a b => a.1 ≤ b.1)
  if ents.isEmpty then "-" else String.intercalate "," (ents.map (fun e => e.1 ++ ":" ++ e.2))

def showIdx (l : List Nat) : String :=
  if l.isEmpty then "-" else String.intercalate "," (l.map toString)

def showModel (labels : List (List Nat)) : Rdfcanon.Res (Rdfcanon.Out Nat) → String
  | .panic => "panic"
  | .limit .iterations => "limit:iterations"
  | .limit .depth => "limit:depth"
  | .ok o =>
    "ok " ++ tokOfRunes o.bytes ++ " " ++
      showIssued labels (o.canon.order.map (fun b => (b, o.identifier b))) ++ " " ++
      showIdx (o.lines.map (·.idx))

def factorial : Nat → Nat
  | 0 => 1
  | n + 1 => (n + 1) * factorial n

def specPerms (seed : Nat) (l : List Nat) : List (List Nat) :=
  Rdfcanon.heapPerms (factorial (min l.length 7)) (shuffle seed l)

/-- option list token: `h<n|->p<n|->b<0|1|->;` per option value -/
def parseOpt (s : String) : Option Rdfcanon.CanonOpt :=
  match s.toList with
  | ['h', h, 'p', p, 'b', b] =>
    let num := fun (c : Char) => if c = '-' then some (none : Option Nat) else
      if c.isDigit then some (some (c.toNat - 48)) else none
    do
      let h ← num h
      let p ← num p
      let b ← (if b = '-' then some none else if b = '0' then some (some false) else if b = '1' then some (some true) else none)
      pure ⟨h, p, b⟩
  | _ => none

def parseOpts (s : String) : Option (List Rdfcanon.CanonOpt) :=
  ((s.splitOn ";").filter (· ≠ "")).mapM parseOpt

def handle (op : String) (args : List String) : Option String :=
  match op, args with
  | "runs", hash :: n :: quads => do
    let H ← hashOf hash
    let n ← n.toNat?
    let qs ← quads.mapM parseQuad
    let labels := labelsOf qs
    let qs' := qs.map (Quad.map (indexOf labels))
    let outs := (List.range n).map (fun seed =>
      showModel labels (Rdfcanon.canon Gen.nquads H Rdfcanon.defaultLimits (shuffle seed) qs'))
    pure (String.intercalate "|" outs)
  | "specs", hash :: twice :: n :: quads => do
    let H ← hashOf hash
    let n ← n.toNat?
    let qs ← quads.mapM parseQuad
    let labels := labelsOf qs
    let qs' := qs.map (Quad.map (indexOf labels))
    match Rdfcanon.canon Gen.nquads H ⟨5040, 512⟩ id qs' with
    | .limit _ => pure "limit"
    | .panic => pure "panic"
    | .ok _ =>
      let fuel := Spec.RDFC10.defaultFuel qs'
      let outs := (List.range n).map (fun seed =>
        match Spec.RDFC10.canonFuel H (shuffle seed) (specPerms seed) (twice = "1") fuel qs' with
        | none => "fuel"
        | some r => "ok " ++ tokOfRunes r.lines.flatten ++ " " ++ showIssued labels r.issued)
      pure (String.intercalate "|" outs)
  | "opts", [o] => do
    let os ← parseOpts o
    let sh := fun (x : Option Nat) => match x with | some v => toString v | none => "-"
    pure (s!"h{sh (Rdfcanon.effectiveHash os)} p{sh (Rdfcanon.effectiveProv os)} b{if Rdfcanon.effectiveBuild os then 1 else 0}")
  | "sha", [alg, x] => do
    let bs ← bytesTok x
    if alg = "sha256" then pure (String.ofList ((Sha2.hexLower (Sha2.sha256 bs)).map Char.ofNat))
    else if alg = "sha384" then pure (String.ofList ((Sha2.hexLower (Sha2.sha384 bs)).map Char.ofNat))
    else none
  | "lit", [t] => do
    match ← parseTerm t with
    | some (.lit l d g) => pure (tokOfRunes (Spec.RDFC10.literal l d g) ++ " " ++
        tokOfRunes (NQ.writeLiteral Gen.nquads false l d g))
    | _ => none
  | _, _ => none

end RdfModel.Driver.Canon
