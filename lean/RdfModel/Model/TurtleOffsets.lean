/-
  RdfModel.Model.TurtleOffsets — the token producers of encoding/turtle and encoding/trig
  (`Model.TurtleTokens`, namespace `Ttl`) once more, now with the text-offset bookkeeping of the Go
  code (decoder_offsets_util.go: `commit`, `commitForTextOffsetRange`, `getTextOffset`,
  `newOffsetError`; rune buffer offset `RuneBuffer.o`).  `Model.TurtleTokens` deliberately ignores that
  bookkeeping; `Props/C16Ttl.lean` proves that this model refines it (erasure), that every consumed
  rune is committed exactly once, and that the reported range delimits exactly the token.

  Scope: the seven token producers only (produceIRIREF, produceString, producePNAME_NS,
  producePrefixedName, produceBlankNode, produceLANGTAG, produceNumericLiteral).  The statement layer
  (`Model.TurtleDoc`) is NOT instrumented.

  Input: decoded runes `(code point, byte size)` as `RuneBuffer.NextRune` yields them (`TW.RP`), the
  first one being the rune `r0` the Go caller has already read and passes as argument; `s` is the
  bookkeeping state *before* that read (so the producer model starts with `s.read r0`).  `[]` = the
  caller's `NextRune` failed (no producer is called; the hook returns the reader's error unwrapped).

  State, histories, ranges and error offsets are those of `Model.NQOffsets` (`NQO.S`: rune buffer byte
  offset + writer history; `NQO.SRange`; `NQO.EOff` with `S.offErr` = `newOffsetError`, which is the
  same function in all four decoder packages).

  Flags (both `false` = the repaired code, which is what the driver runs):
    * `legacy`  — `produceString` before patch c16x-1 (DESIGN D18): after an empty string `""` followed
      by another rune, that rune is handed back to the buffer *and* committed; after `""` at the end
      of the input only the opening quote is committed.
    * `labelOnly` — `produceBlankNode` before patch c16x-2: the reported range starts after the `_:`
      (which is committed separately) instead of at it.
  `trig` selects the one place where the two packages report different error offsets
  (`producePNAME_NS` without a `:`).
-/
import RdfModel.Model.TurtleTokens
import RdfModel.Model.NQOffsets
namespace RdfModel.TtlO
open RdfModel RdfModel.TW RdfModel.NQO

abbrev End := Ttl.End
abbrev EClass := Ttl.EClass
abbrev Tables := Ttl.Tables
abbrev SState := Ttl.SState

/-- Result of an instrumented producer: value, the token's `Offsets` field, bookkeeping state and
    remaining input; or an error class with the offset attached to the error; or a Go panic. -/
inductive RO (α : Type) where
  | ok (v : α) (rg : Option SRange) (s : S) (rest : List RP)
  | err (e : EClass) (o : EOff)
  | panic
  deriving Repr

/-- Forget the bookkeeping: what `Model.TurtleTokens` returns. -/
def RO.erase {α : Type} : RO α → Ttl.Res α
  | .ok v _ _ rest => .ok v (runes rest)
  | .err e _ => .err e
  | .panic => .panic

/-- `commitForTextOffsetRange(tok)` in state `s` with `rest` left: the common successful exit. -/
def done {α : Type} (v : α) (s : S) (tok : Chunk) (rest : List RP) : RO α :=
  .ok v (s.range tok) (s.commit tok) rest

/-! ## produceIRIREF -/

/-- Body of `produceIRIREF`. `unc` is Go's `uncommitted` (reversed): every rune read since and
    including the `<` (inside an escape also the `\`, `u`/`U` and hex digits read so far). -/
def scanIRIREF (T : Tables) (e : End) : SState → S → List RP → List Nat → Chunk → RO (List Nat)
  | .hex _ _, _, [], _, _ => .err e.cls .none            -- decodeUCHAR: `R_UCHAR.Err(err)`, no offset
  | .body, s, [], _, unc => .err e.cls (s.offErr unc.reverse 0)
  | .esc, s, [], _, unc => .err e.cls (s.offErr unc.reverse 0)
  | .body, s, c :: rest, acc, unc =>
    if c.1 = 0x3e then done (goString acc.reverse) (s.read c) (c :: unc).reverse rest
    else if c.1 = 0x5c then scanIRIREF T e .esc (s.read c) rest acc (c :: unc)
    else if Ttl.iriForbidden c.1 then .err .syntax ((s.read c).offErr unc.reverse c.2)
    else scanIRIREF T e .body (s.read c) rest (c.1 :: acc) (c :: unc)
  | .esc, s, c :: rest, acc, unc =>
    if c.1 = 0x75 then scanIRIREF T e (.hex Ttl.uchar4Maxs 0) (s.read c) rest acc (c :: unc)
    else if c.1 = 0x55 then scanIRIREF T e (.hex Ttl.uchar8Maxs 0) (s.read c) rest acc (c :: unc)
    else .err .syntax ((s.read c).offErr unc.reverse c.2)
  | .hex [] _, _, _ :: _, _, _ => .err .syntax .none
  | .hex (m :: ms) v, s, c :: rest, acc, unc =>
    match lookup T.hexDec 0 c.1 with
    | 0 => .err .syntax ((s.read c).offErr unc.reverse c.2)
    | d + 1 =>
      if d > m then .err .syntax .none                   -- ExceedsMaxUnicodePointErr, no offset
      else match ms with
        | [] => scanIRIREF T e .body (s.read c) rest ((v * 16 + d) :: acc) (c :: unc)
        | _ :: _ => scanIRIREF T e (.hex ms (v * 16 + d)) (s.read c) rest acc (c :: unc)

def produceIRIREF (T : Tables) (e : End) (s : S) : List RP → RO (List Nat)
  | [] => .err e.cls .none
  | c :: rest =>
    if c.1 = 0x3c then scanIRIREF T e .body (s.read c) rest [] [c]
    else .err .syntax ((s.read c).offErr [] c.2)

/-! ## produceString -/

/-- Loop of `produceString` (label START_DELIMITER_DONE). A reader error right after a `\` is
    reported with `uncommitted` *without* that backslash (`unc.drop 1`), as the Go code does. -/
def scanString (T : Tables) (e : End) (delim : Nat) (triple : Bool) :
    SState → S → List RP → List Nat → Chunk → RO (List Nat)
  | .hex _ _, _, [], _, _ => .err e.cls .none
  | .body, s, [], _, unc => .err e.cls (s.offErr unc.reverse 0)
  | .esc, s, [], _, unc => .err e.cls (s.offErr (unc.drop 1).reverse 0)
  | .body, s, c :: rest, acc, unc =>
    if c.1 = 0x22 ∨ c.1 = 0x27 then
      if c.1 = delim then
        if !triple then done (goString acc.reverse) (s.read c) (c :: unc).reverse rest
        else match rest with
          | [] => .err e.cls ((s.read c).offErr (c :: unc).reverse 0)
          | c1 :: r1 =>
            if c1.1 = delim then
              match r1 with
              | [] => .err e.cls (((s.read c).read c1).offErr (c1 :: c :: unc).reverse 0)
              | c2 :: r2 =>
                if c2.1 = delim then
                  done (goString acc.reverse) (((s.read c).read c1).read c2) (c2 :: c1 :: c :: unc).reverse r2
                else scanString T e delim triple .body (s.read c) rest (c.1 :: acc) (c :: unc)   -- BacktrackRunes(r1, r2)
            else scanString T e delim triple .body (s.read c) rest (c.1 :: acc) (c :: unc)       -- BacktrackRunes(r1)
      else scanString T e delim triple .body (s.read c) rest (c.1 :: acc) (c :: unc)
    else if c.1 = 0x5c then scanString T e delim triple .esc (s.read c) rest acc (c :: unc)
    else scanString T e delim triple .body (s.read c) rest (c.1 :: acc) (c :: unc)
  | .esc, s, c :: rest, acc, unc =>
    if c.1 = 0x75 then scanString T e delim triple (.hex Ttl.uchar4Maxs 0) (s.read c) rest acc (c :: unc)
    else if c.1 = 0x55 then scanString T e delim triple (.hex Ttl.uchar8Maxs 0) (s.read c) rest acc (c :: unc)
    else match Ttl.echarDecode c.1 with
      | some d => scanString T e delim triple .body (s.read c) rest (d :: acc) (c :: unc)
      | none => .err .syntax ((s.read c).offErr unc.reverse c.2)
  | .hex [] _, _, _ :: _, _, _ => .err .syntax .none
  | .hex (m :: ms) v, s, c :: rest, acc, unc =>
    match lookup T.hexDec 0 c.1 with
    | 0 => .err .syntax ((s.read c).offErr unc.reverse c.2)
    | d + 1 =>
      if d > m then .err .syntax .none
      else match ms with
        | [] => scanString T e delim triple .body (s.read c) rest ((v * 16 + d) :: acc) (c :: unc)
        | _ :: _ => scanString T e delim triple (.hex ms (v * 16 + d)) (s.read c) rest acc (c :: unc)

def produceString (T : Tables) (e : End) (legacy : Bool) (s : S) : List RP → RO (List Nat)
  | [] => .err e.cls .none
  | q :: rest =>
    if q.1 = 0x22 ∨ q.1 = 0x27 then
      match rest with
      | [] => .err e.cls ((s.read q).offErr [q] 0)
      | c1 :: r1 =>
        if c1.1 = q.1 then
          match r1 with
          | [] =>
            (match e with
              | .eof => done [] ((s.read q).read c1) (if legacy then [q] else [q, c1]) []   -- `""` at the end of input
              | .ioerr => .err .io (((s.read q).read c1).offErr [q, c1] 0))
          | c2 :: r2 =>
            if c2.1 = q.1 then scanString T e q.1 true .body (((s.read q).read c1).read c2) r2 [] [c2, c1, q]
            else done [] ((s.read q).read c1) (if legacy then [q, c1, c2] else [q, c1]) (c2 :: r2)  -- BacktrackRunes(r1)
        else scanString T e q.1 false .body (s.read q) (c1 :: r1) [] [q]                    -- BacktrackRunes(r0)
    else .err .syntax ((s.read q).offErr [] q.2)

/-! ## produceLANGTAG -/

/-- DONE of `produceLANGTAG`. `a0` is the `@`, `tagRev` the tag (reversed); the terminating rune has
    been handed back. Commits `@`, then the tag for its range. -/
def langDone (s : S) (a0 : RP) (tagRev : Chunk) (rest : List RP) : RO (List Nat) :=
  match tagRev with
  | [] => .ok (goString []) ((s.commit [a0]).range []) ((s.commit [a0]).commit []) rest   -- not reachable (callers test)
  | l :: more =>
    if l.1 = 0x2d then .err .syntax (s.offErr (a0 :: more.reverse) l.2)
    else .ok (goString (runes tagRev.reverse)) ((s.commit [a0]).range tagRev.reverse)
            ((s.commit [a0]).commit tagRev.reverse) rest

def langSecondary (e : End) (a0 : RP) : S → List RP → Chunk → RO (List Nat)
  | s, [], tagRev =>
    (match e with
      | .eof => langDone s a0 tagRev []
      | .ioerr => .err .io (s.offErr (a0 :: tagRev.reverse) 0))
  | s, c :: rest, tagRev =>
    if Ttl.isAlpha c.1 || Ttl.isDigit c.1 then langSecondary e a0 (s.read c) rest (c :: tagRev)
    else if c.1 = 0x2d then
      (if (runes tagRev).head? = some 0x2d then .err .syntax ((s.read c).offErr (a0 :: tagRev.reverse) c.2)
       else langSecondary e a0 (s.read c) rest (c :: tagRev))
    else langDone s a0 tagRev (c :: rest)

def langPrimary (e : End) (a0 : RP) : S → List RP → Chunk → RO (List Nat)
  | s, [], tagRev =>
    (match e with
      | .eof => if tagRev.isEmpty then .err .eof (s.offErr [a0] 0) else langDone s a0 tagRev []
      | .ioerr => .err .io (s.offErr (a0 :: tagRev.reverse) 0))
  | s, c :: rest, tagRev =>
    if Ttl.isAlpha c.1 then langPrimary e a0 (s.read c) rest (c :: tagRev)
    else if c.1 = 0x2d then
      (if tagRev.isEmpty then .err .syntax ((s.read c).offErr [a0] c.2)
       else langSecondary e a0 (s.read c) rest (c :: tagRev))
    else if tagRev.isEmpty then .err .syntax ((s.read c).offErr [a0] c.2)
    else langDone s a0 tagRev (c :: rest)

def produceLANGTAG (e : End) (s : S) : List RP → RO (List Nat)
  | [] => .err e.cls .none
  | c :: rest =>
    if c.1 = 0x40 then langPrimary e c (s.read c) rest []
    else .err .syntax ((s.read c).offErr [] c.2)

/-! ## produceBlankNode -/

/-- The token's range: from the `_:` (history `h0` before it was committed) to the end of the label;
    `labelOnly`: the range `commitForTextOffsetRange(label)` returned, unchanged. -/
def bnRange (labelOnly : Bool) (h0 : Option Hist) (r : Option SRange) : Option SRange :=
  if labelOnly then r
  else match h0, r with
    | some h, some x => some (h, x.2)
    | _, _ => none

/-- DONE of `produceBlankNode`; `labRev` is the label read (reversed), `h0` the writer history before
    the `_:` was committed. -/
def bnDone (T : Tables) (labelOnly : Bool) (h0 : Option Hist) (s : S) (labRev : Chunk) (rest : List RP) :
    RO (List Nat) :=
  match labRev with
  | [] => .panic                       -- `uncommitted[len(uncommitted)-1]` on an empty slice
  | l :: more =>
    let s' := if l.1 = 0x2e then s.unread l else s
    let lab := if l.1 = 0x2e then more else labRev
    let rest' := if l.1 = 0x2e then l :: rest else rest
    match lab with
    | [] => .ok [] (bnRange labelOnly h0 (s'.range [])) (s'.commit []) rest'   -- not reachable: the first rune is never '.'
    | z :: more' =>
      if !more'.isEmpty && !inRanges T.pnChars z.1 then .err .syntax (s'.offErr more'.reverse z.2)
      else .ok (goString (runes lab.reverse)) (bnRange labelOnly h0 (s'.range lab.reverse))
              (s'.commit lab.reverse) rest'

def bnLoop (T : Tables) (e : End) (labelOnly : Bool) (h0 : Option Hist) : S → List RP → Chunk → RO (List Nat)
  | s, [], labRev =>
    (match e with
      | .eof => bnDone T labelOnly h0 s labRev []
      | .ioerr => .err .io (s.offErr labRev.reverse 0))
  | s, c :: rest, labRev =>
    if inRanges T.pnChars c.1 || c.1 = 0x2e then bnLoop T e labelOnly h0 (s.read c) rest (c :: labRev)
    else bnDone T labelOnly h0 s labRev (c :: rest)

/-- `produceBlankNode`. A failing read right after `_` is reported as an unexpected rune with an
    empty ignored rune (Go passes the zero `DecodedRune`). -/
def produceBlankNode (T : Tables) (e : End) (labelOnly : Bool) (s : S) : List RP → RO (List Nat)
  | [] => .err e.cls .none
  | c0 :: r0 =>
    if c0.1 ≠ 0x5f then .err .syntax ((s.read c0).offErr [] c0.2)
    else match r0 with
      | [] => .err .syntax ((s.read c0).offErr [c0] 0)
      | c1 :: r1 =>
        if c1.1 ≠ 0x3a then .err .syntax (((s.read c0).read c1).offErr [c0] c1.2)
        else match r1 with
          | [] => .err e.cls (((s.read c0).read c1).offErr [c0, c1] 0)
          | c2 :: r2 =>
            if inRanges T.pnCharsU c2.1 || Ttl.isDigit c2.1 then
              bnLoop T e labelOnly s.doc ((((s.read c0).read c1).read c2).commit [c0, c1]) r2 [c2]
            else .err .syntax ((((s.read c0).read c1).read c2).offErr [c0, c1] c2.2)

/-! ## produceNumericLiteral -/

/-- DONE of `produceNumericLiteral`; `acc` is `uncommitted` (reversed). -/
def numDone (s : S) (acc : Chunk) (k : Option Ttl.NumKind) (rest : List RP) : RO (Ttl.NumKind × List Nat) :=
  match acc with
  | [] => .panic
  | l :: more =>
    if l.1 = 0x2e then
      done (.integer, goString (runes more.reverse)) (s.unread l) more.reverse (l :: rest)  -- BacktrackRunes('.')
    else if l.1 = 0x2d ∨ l.1 = 0x2b ∨ l.1 = 0x65 ∨ l.1 = 0x45 then .err .syntax (s.offErr more.reverse l.2)
    else done (k.getD .integer, goString (runes acc.reverse)) s acc.reverse rest

def scanNum (e : End) : Ttl.NState → Option Ttl.NumKind → S → List RP → Chunk → RO (Ttl.NumKind × List Nat)
  | .exp0, _, s, [], acc => .err e.cls (s.offErr acc.reverse 0)
  | .sign, k, s, [], acc => (match e with | .eof => numDone s acc k [] | .ioerr => .err .io (s.offErr acc.reverse 0))
  | .int, k, s, [], acc => (match e with | .eof => numDone s acc k [] | .ioerr => .err .io (s.offErr acc.reverse 0))
  | .exp, k, s, [], acc => (match e with | .eof => numDone s acc k [] | .ioerr => .err .io (s.offErr acc.reverse 0))
  | .sign, k, s, c :: rest, acc =>
    if Ttl.isDigit c.1 then scanNum e .sign k (s.read c) rest (c :: acc)
    else if c.1 = 0x2e then scanNum e .int (some .decimal) (s.read c) rest (c :: acc)
    else if c.1 = 0x65 ∨ c.1 = 0x45 then scanNum e .exp0 (some .double) (s.read c) rest (c :: acc)
    else numDone s acc k (c :: rest)
  | .int, k, s, c :: rest, acc =>
    if Ttl.isDigit c.1 then scanNum e .int k (s.read c) rest (c :: acc)
    else if c.1 = 0x65 ∨ c.1 = 0x45 then scanNum e .exp0 (some .double) (s.read c) rest (c :: acc)
    else numDone s acc k (c :: rest)
  | .exp0, k, s, c :: rest, acc =>
    if c.1 = 0x2d ∨ c.1 = 0x2b ∨ Ttl.isDigit c.1 then scanNum e .exp k (s.read c) rest (c :: acc)
    else .err .syntax ((s.read c).offErr acc.reverse c.2)
  | .exp, k, s, c :: rest, acc =>
    if Ttl.isDigit c.1 then scanNum e .exp k (s.read c) rest (c :: acc)
    else numDone s acc k (c :: rest)

def produceNumericLiteral (e : End) (s : S) : List RP → RO (Ttl.NumKind × List Nat)
  | [] => .err e.cls .none
  | c :: rest =>
    if c.1 = 0x2d ∨ c.1 = 0x2b ∨ Ttl.isDigit c.1 then scanNum e .sign none (s.read c) rest [c]
    else if c.1 = 0x2e then scanNum e .int (some .decimal) (s.read c) rest [c]
    else .err .syntax ((s.read c).offErr [] c.2)

/-! ## producePNAME_NS, producePrefixedName -/

/-- Loop of `producePNAME_NS`. Without a `:` the turtle copy hands the offending rune back and
    reports a trailing `.` (offset before it) or the missing colon; the trig copy reports the
    offending rune directly (offset after everything read). -/
def pnameNsLoop (T : Tables) (e : End) (trig : Bool) : S → List RP → List Nat → Chunk → RO (List Nat)
  | s, [], _, unc => .err e.cls (s.offErr unc.reverse 0)
  | s, c :: rest, acc, unc =>
    if c.1 = 0x3a then done (goString acc.reverse) (s.read c) (c :: unc).reverse rest
    else if inRanges T.pnChars c.1 || c.1 = 0x2e then pnameNsLoop T e trig (s.read c) rest (c.1 :: acc) (c :: unc)
    else if trig then .err .syntax ((s.read c).offErr unc.reverse c.2)
    else match unc with
      | l :: more =>
        if !more.isEmpty && l.1 = 0x2e then .err .syntax (s.offErr more.reverse l.2)
        else .err .syntax (s.offErr unc.reverse 0)
      | [] => .err .syntax (s.offErr [] 0)

def producePNAME_NS (T : Tables) (e : End) (trig : Bool) (s : S) : List RP → RO (List Nat)
  | [] => .err e.cls .none
  | c :: rest =>
    if c.1 = 0x3a then done [] (s.read c) [c] rest
    else if inRanges T.pnCharsBase c.1 then pnameNsLoop T e trig (s.read c) rest [c.1] [c]
    else .err .syntax ((s.read c).offErr [] c.2)

/-- PN_LOCAL_DONE: a final unescaped `.` is handed back. The rune handed back is the last raw rune
    (`unc` head), which is that `.`; its code point is written out so that erasure holds outright. -/
def localDone (s : S) (acc : List Nat) (lastEsc : Bool) (unc : Chunk) (rest : List RP) : RO (List Nat) :=
  match acc with
  | [] => .panic
  | l :: more =>
    if l = 0x2e && !lastEsc then
      let u := unc.headD (0x2e, 1)
      done (goString more.reverse) (s.unread u) (unc.drop 1).reverse ((0x2e, u.2) :: rest)
    else done (goString acc.reverse) s unc.reverse rest

/-- The PN_LOCAL part of `producePrefixedName`; `unc` is `uncommitted` (reversed), which starts
    empty: the namespace part has been committed by `producePNAME_NS`. Inside `%hh` / `\x` the
    runes read so far are already on `unc`. -/
def scanLocal (T : Tables) (e : End) : Ttl.LState → S → List RP → List Nat → Bool → Chunk → RO (List Nat)
  | .first, s, [], _, _, unc => (match e with | .eof => done [] s unc.reverse [] | .ioerr => .err .io (s.offErr [] 0))
  | .body, s, [], acc, le, unc => (match e with | .eof => localDone s acc le unc [] | .ioerr => .err .io (s.offErr unc.reverse 0))
  | .pct1, s, [], _, _, unc => .err e.cls (s.offErr unc.reverse 0)
  | .pct2 _, s, [], _, _, unc => .err e.cls (s.offErr unc.reverse 0)
  | .esc, s, [], _, _, unc => .err e.cls (s.offErr unc.reverse 0)
  | .first, s, c :: rest, acc, le, unc =>
    if inRanges T.pnCharsU c.1 || c.1 = 0x3a || Ttl.isDigit c.1 then scanLocal T e .body (s.read c) rest (c.1 :: acc) false (c :: unc)
    else if c.1 = 0x25 then scanLocal T e .pct1 (s.read c) rest acc le (c :: unc)
    else if c.1 = 0x5c then scanLocal T e .esc (s.read c) rest acc le (c :: unc)
    else done [] s unc.reverse (c :: rest)
  | .body, s, c :: rest, acc, le, unc =>
    if inRanges T.pnChars c.1 || c.1 = 0x2e || c.1 = 0x3a then scanLocal T e .body (s.read c) rest (c.1 :: acc) false (c :: unc)
    else if c.1 = 0x25 then scanLocal T e .pct1 (s.read c) rest acc le (c :: unc)
    else if c.1 = 0x5c then scanLocal T e .esc (s.read c) rest acc le (c :: unc)
    else localDone s acc le unc (c :: rest)
  | .pct1, s, c :: rest, acc, le, unc =>
    if lookup T.hexDec 0 c.1 = 0 then .err .syntax ((s.read c).offErr unc.reverse c.2)
    else scanLocal T e (.pct2 c.1) (s.read c) rest acc le (c :: unc)
  | .pct2 h, s, c :: rest, acc, _, unc =>
    if lookup T.hexDec 0 c.1 = 0 then .err .syntax ((s.read c).offErr unc.reverse c.2)
    else scanLocal T e .body (s.read c) rest (c.1 :: h :: 0x25 :: acc) false (c :: unc)
  | .esc, s, c :: rest, acc, _, unc =>
    if Ttl.isLocalEsc c.1 then scanLocal T e .body (s.read c) rest (c.1 :: acc) true (c :: unc)
    else .err .syntax ((s.read c).offErr unc.reverse c.2)

/-- `TextOffsetRange{From: namespaceToken.Offsets.From, Until: cr.Until}`. -/
def span : Option SRange → Option SRange → Option SRange
  | some a, some b => some (a.1, b.2)
  | _, _ => none

def producePrefixedName (T : Tables) (e : End) (trig : Bool) (s : S) (inp : List RP) : RO (List Nat × List Nat) :=
  match producePNAME_NS T e trig s inp with
  | .err c o => .err c o
  | .panic => .panic
  | .ok ns rgNs s1 rest =>
    match scanLocal T e .first s1 rest [] false [] with
    | .ok loc rgLoc s2 rest' => .ok (ns, loc) (span rgNs rgLoc) s2 rest'
    | .err c o => .err c o
    | .panic => .panic

end RdfModel.TtlO
