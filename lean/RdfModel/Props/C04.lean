/-
  Property C04 — the serialized canonicalization result is exactly the canonical N-Quads document
  RDFC-1.0 defines (theorems only; proofs in RdfModel/Proofs/C04*.lean).

  Model: `Model/Rdfcanon.lean` (functional translation of /repo/rdfcanon, as repaired by D8, D9, D10,
  D10b).  Specification: `Spec/RDFC10.lean` (the Recommendation, section by section).  The hash is an
  arbitrary function `H` in every theorem ("SHA-256 and any substituted hash function").
  Table facts about the regenerated N-Quads writer tables are in `Props/C04Tables.lean`, structural
  facts read from the Go sources in `Props/C04Facts.lean`.

  What is *tested*, not proved (harness, labelled in the evidence): `Spec.RDFC10` reproduces the 64
  published W3C vectors; `Model/Sha2.lean` = crypto/sha256, crypto/sha512.
-/
import RdfModel.Props.C04Defs
import RdfModel.Props.C04Tables
import RdfModel.Proofs.C04Final
import RdfModel.Proofs.C04Fuel
import RdfModel.Proofs.C04Perms
namespace RdfModel.C04
open RdfModel

variable {β : Type} [DecidableEq β]

/-- **Refinement.** Whenever the Go canonicalizer (model) returns a result — for every hash function,
    every limit configuration, every admissible iteration order `ord` of Go's map, every dataset of
    well-formed quads — that result (sorted lines, issued identifier map) is the result of the
    specification run with the same order parameter, the recursion bound `maxRecursionDepth + 1` and
    any enumeration of permutations that agrees with the Go permuter wherever Go does not give up.
    (`twice := true`: Go adds one reference per position for a quad naming a blank node twice.) -/
theorem canon_refines_spec (T : NQ.Tables) (hT : TablesCanon T) (H : Str → Str) (lim : Rdfcanon.Limits)
    (ord : List β → List β) (hord : OrdOK ord) (perms : List β → List (List β))
    (hperms : PermsAgree lim.maxPermutations perms) (qs : List (Quad β)) (hwf : ∀ q ∈ qs, WFQuad T q)
    (out : Rdfcanon.Out β) (h : Rdfcanon.canon T H lim ord qs = .ok out) :
    Spec.RDFC10.canonFuel H ord perms true (lim.maxRecursionDepth + 1) qs = some (specView out) :=
  Proofs.C04.canon_refines_spec T hT H lim ord hord perms hperms qs hwf out h

/-- The recursion bound is immaterial: once the specification's computation succeeds it returns the
    same result for every larger bound … -/
theorem spec_fuel_mono (H : Str → Str) (ord : List β → List β) (perms : List β → List (List β))
    (twice : Bool) (qs : List (Quad β)) {f f' : Nat} {r : Spec.RDFC10.Result β}
    (h : Spec.RDFC10.canonFuel H ord perms twice f qs = some r) (hle : f ≤ f') :
    Spec.RDFC10.canonFuel H ord perms twice f' qs = some r :=
  Proofs.C04.canonFuel_mono H ord perms twice qs h hle

/-- … hence the Recommendation's (unbounded) result `Canon` is unique. -/
theorem spec_result_unique (H : Str → Str) (ord : List β → List β) (perms : List β → List (List β))
    (twice : Bool) (qs : List (Quad β)) {r r' : Spec.RDFC10.Result β}
    (h : Spec.RDFC10.Canon H ord perms twice qs r) (h' : Spec.RDFC10.Canon H ord perms twice qs r') :
    r = r' :=
  Proofs.C04.Canon_unique H ord perms twice qs h h'

/-- Refinement against the fuel-free relation. -/
theorem canon_refines_Canon (T : NQ.Tables) (hT : TablesCanon T) (H : Str → Str) (lim : Rdfcanon.Limits)
    (ord : List β → List β) (hord : OrdOK ord) (perms : List β → List (List β))
    (hperms : PermsAgree lim.maxPermutations perms) (qs : List (Quad β)) (hwf : ∀ q ∈ qs, WFQuad T q)
    (out : Rdfcanon.Out β) (h : Rdfcanon.canon T H lim ord qs = .ok out) :
    Spec.RDFC10.Canon H ord perms true qs (specView out) :=
  ⟨_, canon_refines_spec T hT H lim ord hord perms hperms qs hwf out h⟩

/-- **Canonical literal escaping**: Go's `nquads.WriteLiteral` (model over the regenerated tables)
    writes every literal exactly in canonical N-Quads form — all lexical forms, all datatypes. -/
theorem canonical_literal_escaping (T : NQ.Tables) (hT : TablesCanon T) (lex dt : Str)
    (lang : Option Str) (h : WFLit T dt lang) :
    NQ.writeLiteral T false lex dt lang = Spec.RDFC10.literal lex dt lang :=
  Proofs.C04.canonical_literal_escaping T hT lex dt lang h

/-- **Canonical IRIs**: an IRI without the characters no IRI may contain is written raw. -/
theorem canonical_iri (T : NQ.Tables) (v : Str) (h : IriRaw T v) :
    NQ.writeIRI T false v = Spec.RDFC10.iriRef v :=
  Proofs.C04.canonical_iri T v h

/-- The hypothesis `PermsAgree` is satisfiable: every longer prefix of the Go permuter's output. -/
theorem permsAgree_heapPerms (maxPerm K : Nat) (hK : maxPerm < K) :
    PermsAgree maxPerm (Rdfcanon.heapPerms K : List β → List (List β)) :=
  Proofs.C04.permsAgree_heapPerms maxPerm K hK

/-! ### Options: the configuration `Canonicalize` runs with ("… for SHA-256 and for any substituted hash
    function") -/

open Rdfcanon in
/-- Over every list of option values passed to `Canonicalize`, each field of the effective
    configuration is the last one set: an option value that does not mention the hash function leaves
    the substituted hash in place, wherever it stands; with no option the defaults (SHA-256, `c14n%d`
    provider, no canonical quads) apply.  The equations below determine the three `effective*`
    functions on every option list (induction from the right). -/
theorem opts_hash_last_set_wins (opts : List CanonOpt) (h : Nat) (p : Option Nat) (b : Option Bool) :
    effectiveHash (opts ++ [⟨some h, p, b⟩]) = some h := by
  simp [effectiveHash, compileOpts, List.foldl_append, CanonOpt.apply]

open Rdfcanon in
theorem opts_hash_unset_keeps (opts : List CanonOpt) (p : Option Nat) (b : Option Bool) :
    effectiveHash (opts ++ [⟨none, p, b⟩]) = effectiveHash opts := by
  simp [effectiveHash, compileOpts, List.foldl_append, CanonOpt.apply]

open Rdfcanon in
theorem opts_prov_last_set_wins (opts : List CanonOpt) (h : Option Nat) (p : Nat) (b : Option Bool) :
    effectiveProv (opts ++ [⟨h, some p, b⟩]) = some p := by
  simp [effectiveProv, compileOpts, List.foldl_append, CanonOpt.apply]

open Rdfcanon in
theorem opts_prov_unset_keeps (opts : List CanonOpt) (h : Option Nat) (b : Option Bool) :
    effectiveProv (opts ++ [⟨h, none, b⟩]) = effectiveProv opts := by
  simp [effectiveProv, compileOpts, List.foldl_append, CanonOpt.apply]

open Rdfcanon in
theorem opts_build_last_set_wins (opts : List CanonOpt) (h p : Option Nat) (b : Bool) :
    effectiveBuild (opts ++ [⟨h, p, some b⟩]) = b := by
  simp [effectiveBuild, compileOpts, List.foldl_append, CanonOpt.apply]

open Rdfcanon in
theorem opts_build_unset_keeps (opts : List CanonOpt) (h p : Option Nat) :
    effectiveBuild (opts ++ [⟨h, p, none⟩]) = effectiveBuild opts := by
  simp [effectiveBuild, compileOpts, List.foldl_append, CanonOpt.apply]

open Rdfcanon in
theorem opts_default : effectiveHash [] = none ∧ effectiveProv [] = none ∧ effectiveBuild [] = false := by
  simp [effectiveHash, effectiveProv, effectiveBuild, compileOpts]

/-! ### Non-vacuity: objects satisfying the hypotheses -/

namespace Witness

def p : Term Nat := .iri (asc "http://example.org/p")

/-- `_:0 p _:1 _:0 . _:1 p "a<TAB>é"@en . _:1 p "x"^^<urn:dt> .` -/
def quads : List (Quad Nat) :=
  [⟨.bnode 0, p, .bnode 1, some (.bnode 0)⟩,
   ⟨.bnode 1, p, .lit [0x61, 0x09, 0xe9] rdfLangString (some (asc "en")), none⟩,
   ⟨.bnode 1, p, .lit (asc "x") (asc "urn:dt") none, some (.iri (asc "urn:g"))⟩]

theorem iri_p : IriRaw Gen.nquads (asc "http://example.org/p") := by decide
theorem iri_dt : IriRaw Gen.nquads (asc "urn:dt") := by decide
theorem iri_g : IriRaw Gen.nquads (asc "urn:g") := by decide
theorem iri_langString : IriRaw Gen.nquads rdfLangString := by decide

theorem wf : ∀ q ∈ quads, WFQuad Gen.nquads q := by
  intro q hq
  simp only [quads, List.mem_cons, List.not_mem_nil, or_false] at hq
  rcases hq with rfl | rfl | rfl
  · exact ⟨trivial, iri_p, trivial, by intro g hg; cases hg; trivial⟩
  · exact ⟨trivial, iri_p, ⟨iri_langString, by simp⟩, by intro g hg; cases hg⟩
  · exact ⟨trivial, iri_p, ⟨iri_dt, by decide⟩, by intro g hg; cases hg; exact iri_g⟩

theorem ordOK_id : OrdOK (id : List Nat → List Nat) := fun l => List.Perm.refl l
theorem ordOK_reverse : OrdOK (List.reverse : List Nat → List Nat) := fun l => List.reverse_perm l

end Witness

end RdfModel.C04
