import RdfModel.Props.C12
import RdfModel.Props.C12Facts
#print axioms RdfModel.C12.recompose_split
#print axioms RdfModel.C12.resolve_abs_nodots
#print axioms RdfModel.C12.rds_fixes_dot_free
#print axioms RdfModel.C12.rds_no_dots
#print axioms RdfModel.C12.rds_idempotent
#print axioms RdfModel.C12.resolve_scheme
#print axioms RdfModel.C12.resolve_is_absolute
#print axioms RdfModel.C12.empty_query_fragment_preserved
#print axioms RdfModel.C12.resolvePath_eq_rfc_partial
#print axioms RdfModel.C12.resolvePath_deviates
#print axioms RdfModel.C12.not_ResolvePathEqRfc
#print axioms RdfModel.C12.reclassify_drops_leading_slash
#print axioms RdfModel.C12.reclassify_special
#print axioms RdfModel.C12.gen_reclassify_guard
#print axioms RdfModel.C12.gen_hierarchical_schemes
#print axioms RdfModel.C12.gen_force_fragment
#print axioms RdfModel.C12.gen_resolvePath_literals
#print axioms RdfModel.C12.gen_parsedIRI_api
#print axioms RdfModel.C12.gen_dropFragment_body
