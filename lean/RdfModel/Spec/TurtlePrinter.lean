/-
  RdfModel.Spec.TurtlePrinter — a small *printer* of Turtle/TriG tokens that covers every lexical
  choice the Turtle 1.1 grammar offers for writing a given token value (property C08, token level):

    IRIREF        each rune raw (when `[^#x00-#x20<>"{}|^`\]` allows it), `\uXXXX` or `\UXXXXXXXX`,
                  hex digits in either case;
    String        the four quoting styles `"…"`, `'…'`, `"""…"""`, `'''…'''`; each rune raw (when the
                  style allows it), as ECHAR (`\t \b \n \r \f \" \' \\`), `\uXXXX` or `\UXXXXXXXX`;
                  inside long strings one or two raw quote characters in a row;
    PrefixedName  PN_LOCAL runes raw or as PN_LOCAL_ESC (`\x`), `%XX` kept as PERCENT or written `\%XX`;
    numeric/boolean shorthand, LANGTAG, blank-node labels, PNAME_NS: the text is the value.

  The printer is written against the grammar, not against the decoder. `Props/C08Tokens.lean` proves
  that the producers of `Model/TurtleTokens.lean` read every printed form back as the value.
  Core-only; executable (driver op `ttl.print`, used by `go/cmd/c02tok` to check the Go producers
  against the same printed forms).
-/
import RdfModel.Model.TurtleTokens
namespace RdfModel.Spec.TtlPrint
open RdfModel

/-- One lexical choice for one rune. `lower` = hex digits in lower case. -/
inductive Choice where
  | raw
  | echar                      -- ECHAR in strings, PN_LOCAL_ESC in local names
  | u4 (lower : Bool)
  | u8 (lower : Bool)
  deriving Repr, DecidableEq, Inhabited

def hexD (lower : Bool) (n : Nat) : Nat := if lower then hexLower n else hexUpper n

def hex4c (l : Bool) (r : Nat) : List Nat :=
  [hexD l (r / 0x1000 % 16), hexD l (r / 0x100 % 16), hexD l (r / 0x10 % 16), hexD l (r % 16)]

def hex8c (l : Bool) (r : Nat) : List Nat :=
  [hexD l (r / 0x10000000 % 16), hexD l (r / 0x1000000 % 16), hexD l (r / 0x100000 % 16),
   hexD l (r / 0x10000 % 16), hexD l (r / 0x1000 % 16), hexD l (r / 0x100 % 16),
   hexD l (r / 0x10 % 16), hexD l (r % 16)]

/-- UCHAR for `c`: the four-digit form when it fits and is asked for, else the eight-digit form. -/
def uchar (wide lower : Bool) (c : Nat) : List Nat :=
  if !wide && c ≤ 0xFFFF then 0x5c :: 0x75 :: hex4c lower c else 0x5c :: 0x55 :: hex8c lower c

/-! ### IRIREF ::= '<' ([^#x00-#x20<>"{}|^`\] | UCHAR)* '>' -/

def iriRawOK (c : Nat) : Bool :=
  !(c ≤ 0x20 || c = 0x3c || c = 0x3e || c = 0x22 || c = 0x7b || c = 0x7d || c = 0x7c || c = 0x5e ||
    c = 0x60 || c = 0x5c)

def printIriRune (ch : Choice) (c : Nat) : List Nat :=
  match ch with
  | .u4 l => uchar false l c
  | .u8 l => uchar true l c
  | _ => if iriRawOK c then [c] else uchar false false c

def printIriBody : List Choice → List Nat → List Nat
  | _, [] => []
  | chs, c :: rest => printIriRune (chs.head?.getD .raw) c ++ printIriBody chs.tail rest

def printIRIREF (chs : List Choice) (s : List Nat) : List Nat :=
  0x3c :: (printIriBody chs s ++ [0x3e])

/-! ### String -/

inductive Style where | dq | sq | ldq | lsq
  deriving Repr, DecidableEq, Inhabited

def Style.delim : Style → Nat
  | .dq | .ldq => 0x22
  | .sq | .lsq => 0x27

def Style.long : Style → Bool
  | .ldq | .lsq => true
  | _ => false

/-- ECHAR ::= '\' [tbnrf"'\] -/
def echarOf (c : Nat) : Option Nat :=
  if c = 0x09 then some 0x74 else if c = 0x08 then some 0x62 else if c = 0x0a then some 0x6e
  else if c = 0x0d then some 0x72 else if c = 0x0c then some 0x66 else if c = 0x22 then some 0x22
  else if c = 0x27 then some 0x27 else if c = 0x5c then some 0x5c else none

/-- May `c` stand raw inside a string of this style (not looking at neighbours)?
    short: `[^#x22#x5C#xA#xD]` resp. `[^#x27#x5C#xA#xD]`; long: `[^"\]` resp. `[^'\]`. -/
def strRawOK (st : Style) (c : Nat) : Bool :=
  c != 0x5c && c != st.delim && (st.long || (c != 0x0a && c != 0x0d))

/-- Escaped form used when the requested form is not available for `c`. -/
def strEsc (c : Nat) : List Nat :=
  match echarOf c with
  | some x => [0x5c, x]
  | none => uchar false false c

def printStrRune (st : Style) (ch : Choice) (c : Nat) : List Nat :=
  match ch with
  | .u4 l => uchar false l c
  | .u8 l => uchar true l c
  | .echar => strEsc c
  | .raw => if strRawOK st c then [c] else strEsc c

/-- Body of a string. `k` counts the raw delimiter characters just written (long styles only): the
    grammar allows at most two in a row, and none right before the closing delimiter. -/
def printStrBody (st : Style) : Nat → List Choice → List Nat → List Nat
  | _, _, [] => []
  | k, chs, c :: rest =>
    let ch := chs.head?.getD .raw
    if st.long && c = st.delim && ch = .raw && k < 2 && !rest.isEmpty then
      c :: printStrBody st (k + 1) chs.tail rest
    else printStrRune st ch c ++ printStrBody st 0 chs.tail rest

def quotes (st : Style) : List Nat :=
  if st.long then [st.delim, st.delim, st.delim] else [st.delim]

def printString (st : Style) (chs : List Choice) (s : List Nat) : List Nat :=
  quotes st ++ printStrBody st 0 chs s ++ quotes st

/-! ### PN_LOCAL ::= (PN_CHARS_U | ':' | [0-9] | PLX) ((PN_CHARS | '.' | ':' | PLX)* (PN_CHARS | ':' | PLX))? -/

def isHex (c : Nat) : Bool :=
  (0x30 ≤ c && c ≤ 0x39) || (0x41 ≤ c && c ≤ 0x46) || (0x61 ≤ c && c ≤ 0x66)

/-- PN_LOCAL_ESC ::= '\' ( '_' | '~' | '.' | '-' | '!' | '$' | '&' | "'" | '(' | ')' | '*' | '+' | ',' | ';' | '=' | '/' | '?' | '#' | '@' | '%' ) -/
def localEscapable (c : Nat) : Bool :=
  c = 0x5f || c = 0x7e || c = 0x2e || c = 0x2d || c = 0x21 || c = 0x24 || c = 0x26 || c = 0x27 ||
  c = 0x28 || c = 0x29 || c = 0x2a || c = 0x2b || c = 0x2c || c = 0x3b || c = 0x3d || c = 0x2f ||
  c = 0x3f || c = 0x23 || c = 0x40 || c = 0x25

/-- May `c` stand raw at this position of a PN_LOCAL? -/
def localRawOK (T : Ttl.Tables) (first last : Bool) (c : Nat) : Bool :=
  if first then inRanges T.pnCharsU c || c = 0x3a || Ttl.isDigit c
  else if last then inRanges T.pnChars c || c = 0x3a
  else inRanges T.pnChars c || c = 0x3a || c = 0x2e

/-- Print a local name; `none` = the value is not the value of any PN_LOCAL (some rune is neither
    allowed raw at its position nor escapable). A `%` followed by two hex digits may stay raw (PERCENT). -/
def printLocalFrom (T : Ttl.Tables) : Bool → List Choice → List Nat → Option (List Nat)
  | _, _, [] => some []
  | first, chs, c :: rest =>
    let ch := chs.head?.getD .raw
    let tail := printLocalFrom T false chs.tail rest
    if c = 0x25 then
      (match ch, rest with
        | .raw, h1 :: h2 :: _ =>
          if isHex h1 && isHex h2 then tail.map (fun t => c :: t) else tail.map (fun t => 0x5c :: c :: t)
        | _, _ => tail.map (fun t => 0x5c :: c :: t))
    else if ch = .raw && localRawOK T first rest.isEmpty c then tail.map (fun t => c :: t)
    else if localEscapable c then tail.map (fun t => 0x5c :: c :: t)
    else if localRawOK T first rest.isEmpty c then tail.map (fun t => c :: t)
    else none

def printLocal (T : Ttl.Tables) (chs : List Choice) (s : List Nat) : Option (List Nat) :=
  printLocalFrom T true chs s

def printPrefixedName (T : Ttl.Tables) (chs : List Choice) (pfx loc : List Nat) : Option (List Nat) :=
  (printLocal T chs loc).map (fun l => pfx ++ 0x3a :: l)

end RdfModel.Spec.TtlPrint
