/-
  C19 helper lemmas about the association lists that stand for Go maps (`alookup`, `aset`).
-/
import RdfModel.Model.Dataset
namespace RdfModel.Proofs.C19
open RdfModel.DS

variable {κ α : Type} [DecidableEq κ]

def keys (l : List (κ × α)) : List κ := l.map (·.1)

theorem alookup_some_mem {k : κ} {v : α} : ∀ {l : List (κ × α)}, alookup k l = some v → (k, v) ∈ l := by
  intro l
  induction l with
  | nil => simp [alookup]
  | cons e l ih =>
    obtain ⟨k', v'⟩ := e
    simp only [alookup]
    split
    · rename_i h; subst h; intro h; simp at h; simp [h]
    · intro h; simp [ih h]

theorem alookup_none_iff {k : κ} : ∀ {l : List (κ × α)}, alookup k l = none ↔ k ∉ keys l := by
  intro l
  induction l with
  | nil => simp [alookup, keys]
  | cons e l ih =>
    obtain ⟨k', v'⟩ := e
    simp only [alookup, keys, List.map_cons, List.mem_cons, not_or]
    split
    · rename_i h; simp [h]
    · rename_i h; rw [ih]; simp [keys]; intro _; exact fun h' => h h'.symm

theorem mem_iff_alookup {k : κ} {v : α} : ∀ {l : List (κ × α)}, (keys l).Nodup →
    ((k, v) ∈ l ↔ alookup k l = some v) := by
  intro l
  induction l with
  | nil => simp [alookup]
  | cons e l ih =>
    obtain ⟨k', v'⟩ := e
    intro hnd
    simp only [keys, List.map_cons, List.nodup_cons] at hnd
    simp only [alookup, List.mem_cons, Prod.mk.injEq]
    split
    · rename_i h; subst h
      constructor
      · rintro (⟨_, rfl⟩ | hm)
        · rfl
        · exact absurd (List.mem_map_of_mem (f := (·.1)) hm) hnd.1
      · intro h; simp at h; simp [h]
    · rename_i h
      rw [← ih hnd.2]
      constructor
      · rintro (⟨rfl, _⟩ | hm)
        · exact absurd rfl h
        · exact hm
      · intro hm; exact Or.inr hm

theorem alookup_aset_self (k : κ) (v : α) : ∀ l : List (κ × α), alookup k (aset k v l) = some v := by
  intro l
  induction l with
  | nil => simp [aset, alookup]
  | cons e l ih =>
    obtain ⟨k', v'⟩ := e
    simp only [aset]
    split
    · simp [alookup]
    · rename_i h; simp [alookup, h, ih]

theorem alookup_aset_ne {k k' : κ} (v : α) (h : k' ≠ k) : ∀ l : List (κ × α),
    alookup k' (aset k v l) = alookup k' l := by
  intro l
  induction l with
  | nil => simp [aset, alookup, Ne.symm h]
  | cons e l ih =>
    obtain ⟨k'', v''⟩ := e
    simp only [aset]
    split
    · rename_i h2; subst h2; simp [alookup, Ne.symm h]
    · simp only [alookup]; split
      · rfl
      · exact ih

theorem alookup_aset (k k' : κ) (v : α) (l : List (κ × α)) :
    alookup k' (aset k v l) = if k' = k then some v else alookup k' l := by
  split
  · rename_i h; subst h; exact alookup_aset_self _ _ _
  · rename_i h; exact alookup_aset_ne v h l

theorem keys_aset (k : κ) (v : α) : ∀ l : List (κ × α),
    keys (aset k v l) = if k ∈ keys l then keys l else keys l ++ [k] := by
  intro l
  induction l with
  | nil => simp [aset, keys]
  | cons e l ih =>
    obtain ⟨k', v'⟩ := e
    simp only [aset]
    split
    · rename_i h; subst h; simp [keys]
    · rename_i h
      simp only [keys, List.map_cons, List.mem_cons] at ih ⊢
      rw [ih]
      have : ¬ k = k' := fun h' => h h'.symm
      simp only [this, false_or]
      split <;> simp_all

theorem nodup_keys_aset (k : κ) (v : α) (l : List (κ × α)) (h : (keys l).Nodup) :
    (keys (aset k v l)).Nodup := by
  rw [keys_aset]
  split
  · exact h
  · rename_i hk
    rw [List.nodup_append]
    refine ⟨h, by simp, ?_⟩
    intro a ha b hb; simp at hb; subst hb; intro hab; subst hab; exact hk ha

theorem mem_aset {k k' : κ} {v v' : α} : ∀ {l : List (κ × α)},
    (k', v') ∈ aset k v l → (k' = k ∧ v' = v) ∨ (k', v') ∈ l := by
  intro l
  induction l with
  | nil => simp [aset]
  | cons e l ih =>
    obtain ⟨k'', v''⟩ := e
    simp only [aset]
    split
    · simp only [List.mem_cons, Prod.mk.injEq]
      rintro (⟨rfl, rfl⟩ | hm)
      · exact Or.inl ⟨rfl, rfl⟩
      · exact Or.inr (Or.inr hm)
    · simp only [List.mem_cons, Prod.mk.injEq]
      rintro (⟨rfl, rfl⟩ | hm)
      · exact Or.inr (Or.inl ⟨rfl, rfl⟩)
      · rcases ih hm with h1 | h1
        · exact Or.inl h1
        · exact Or.inr (Or.inr h1)

theorem aset_of_alookup_none {k : κ} (v : α) : ∀ {l : List (κ × α)}, alookup k l = none →
    aset k v l = l ++ [(k, v)] := by
  intro l
  induction l with
  | nil => simp [aset]
  | cons e l ih =>
    obtain ⟨k', v'⟩ := e
    simp only [alookup, aset]
    split
    · simp
    · intro h; simp [ih h]

theorem alookup_append (k : κ) (l l' : List (κ × α)) :
    alookup k (l ++ l') = match alookup k l with | some v => some v | none => alookup k l' := by
  induction l with
  | nil => simp [alookup]
  | cons e l ih =>
    obtain ⟨k', v'⟩ := e
    simp only [List.cons_append, alookup]
    split
    · rfl
    · exact ih

end RdfModel.Proofs.C19
