/-
  RdfModel.Model.NQOffsets — the N-Triples / N-Quads decoder of `Model.NQuads` once more, now with the
  text-offset bookkeeping of the Go code (encoding/{nquads,ntriples}/decoder*.go, in particular
  decoder_offsets_util.go: `commit`, `commitForTextOffsetRange`, `uncommittedTextOffset`,
  `newOffsetError`).  `Model.NQuads` (namespace `NQ`) deliberately ignores that bookkeeping;
  `Props/C16.lean` proves that this model refines it.

  Input: decoded runes `(code point, byte size)` as `RuneBuffer.NextRune` yields them.

  State threaded through every scanner (`S`):
    * `bo`  — `RuneBuffer.o`, the byte offset of the rune buffer: `+ size` on every `NextRune`,
              `- size` on `BacktrackRunes`.  A rune that Go reads and immediately hands back
              (`NextRune`; `BacktrackRunes(r0)`) is modelled as a peek (net effect on `o`: none).
    * `doc` — `t.doc *cursorio.TextWriter`; `none` when offset capture is off.  The writer is
              represented by its *history*: the list of rune chunks passed to `write`, one entry per
              Go call of `commit` / `commitForTextOffsetRange`, newest first.  The concrete
              `cursorio.TextOffset` the Go writer holds after that history is
              `histOffset cols init h` (= `Model.TextWriter.write` folded over the chunks, oldest
              first, from the configured initial offset).  The decoder never branches on the writer
              (Go reads `t.doc` only inside decoder_offsets_util.go), so offsets stay symbolic
              (`Hist`) inside the decoder and are evaluated where Go exposes them
              (`evalRange`, `evalEOff`): `GetTextOffset()` before/after a commit is the history
              before/after it.

  Every `commit` of Go is a `S.commit` here, in the same order with the same runes: white space rune
  by rune, comments by `drainLine` (whole line incl. LF; at EOF the pending part; nothing on a reader
  error), IRIs/blank node labels/quoted strings as one chunk, `^^` as one chunk, the `@` of a language
  tag separately from the tag, the final `.`.  On error paths the pending (`uncommitted`) runes are
  *not* committed; they only enter the error offset (`S.offErr` = `newOffsetError`).

  `legacy = true` reproduces the arguments `captureOpenLiteral` passed to `newOffsetError` before the
  repair `nqoff-fix-literal-suffix-error-offset` (the already committed quoted string was passed again
  as "uncommitted", so the reported offset lay beyond the end of the document); `legacy = false` is
  the repaired code.  The flag occurs in `captureLiteral` only.
-/
import RdfModel.Model.NQuads
import RdfModel.Model.TextWriter
namespace RdfModel.NQO
open RdfModel RdfModel.NQ RdfModel.TW

/-- Runes of one `write` call. -/
abbrev Chunk := List RP

/-- History of a `TextWriter`: the chunks written so far, newest first. -/
abbrev Hist := List Chunk

/-- All runes written, in order. -/
def histRunes : Hist → List RP
  | [] => []
  | c :: h => histRunes h ++ c

/-- The `TextOffset` a writer created with `NewTextWriter(init)` holds after history `h`. -/
def histOffset (cols : List Nat → Nat) (init : Offset) : Hist → Offset
  | [] => init
  | c :: h => write cols (histOffset cols init h) c

/-- A `*cursorio.TextOffsetRange` as returned by `WriteRunesForOffsetRange`: the writer before and
    after the call. -/
abbrev SRange := Hist × Hist

structure S where
  bo : Nat
  doc : Option Hist
  deriving Repr

def S.read (s : S) (r : RP) : S := { s with bo := s.bo + r.2 }
def S.unread (s : S) (r : RP) : S := { s with bo := s.bo - r.2 }

/-- `commit`: no-op without a writer. -/
def S.commit (s : S) (c : Chunk) : S := { s with doc := s.doc.map (fun h => c :: h) }

/-- The range `commitForTextOffsetRange` returns for chunk `c` (`nil` without a writer). -/
def S.range (s : S) (c : Chunk) : Option SRange := s.doc.map (fun h => (h, c :: h))

/-- Offset carried by an error. -/
inductive EOff where
  | none                            -- the error is not wrapped in an OffsetError
  | byte (n : Nat)                  -- capture off: `buf.GetByteOffset() - readIgnored.Size`
  | text (h : Hist) (unc : Chunk)   -- capture on: `doc.Clone()` then `WriteRunesForOffset(unc)` if `unc.Size > 0`
  | range (fr un : Hist)            -- `ErrWithTextOffsetRange(err, cr)` with `cr ≠ nil`
  deriving Repr

/-- `newOffsetError(err, readUncommitted, readIgnored)`. -/
def S.offErr (s : S) (unc : Chunk) (ign : Nat) : EOff :=
  match s.doc with
  | none => .byte (s.bo - ign)
  | some h => .text h unc

def rangeErr : Option SRange → EOff
  | some r => .range r.1 r.2
  | none => .none

inductive RO (α : Type) where
  | ok (v : α) (s : S) (rest : List RP)
  | err (e : EClass) (o : EOff)
  deriving Repr

/-- Forget the bookkeeping: what the base model returns. -/
def RO.erase {α β : Type} (f : α → β) : RO α → R β
  | .ok v _ rest => .ok (f v) (runes rest)
  | .err e _ => .err e

/-- `captureOpenIRI` scanning part. `unc` is `uncommitted` (reversed): every rune read since and
    including the opening `<`. Result: decoded runes and the token (all of `uncommitted`, in order). -/
def scanIRI (T : Tables) (e : End) : SState → S → List RP → List Nat → Chunk → RO (List Nat × Chunk)
  | .hex _ _, _, [], _, _ => .err e.cls .none            -- decodeUCHAR: `R_UCHAR.Err(err)`, no offset
  | .body, s, [], _, unc => .err e.cls (s.offErr unc.reverse 0)
  | .esc, s, [], _, unc => .err e.cls (s.offErr unc.reverse 0)
  | .body, s, r :: rest, acc, unc =>
    if r.1 = 0x3e then .ok (acc.reverse, (r :: unc).reverse) (s.read r) rest
    else if r.1 = 0x5c then scanIRI T e .esc (s.read r) rest acc (r :: unc)
    else if r.1 ≤ 0x20 ∨ r.1 = 0x3c ∨ r.1 = 0x22 ∨ r.1 = 0x7b ∨ r.1 = 0x7d ∨ r.1 = 0x7c ∨ r.1 = 0x5e ∨ r.1 = 0x60 then
      .err .syntax ((s.read r).offErr unc.reverse r.2)
    else scanIRI T e .body (s.read r) rest (r.1 :: acc) (r :: unc)
  | .esc, s, r :: rest, acc, unc =>
    if r.1 = 0x75 then scanIRI T e (.hex uchar4Maxs 0) (s.read r) rest acc (r :: unc)
    else if r.1 = 0x55 then scanIRI T e (.hex uchar8Maxs 0) (s.read r) rest acc (r :: unc)
    else .err .syntax ((s.read r).offErr unc.reverse r.2)
  | .hex [] _, _, _ :: _, _, _ => .err .syntax .none
  | .hex (m :: ms) v, s, r :: rest, acc, unc =>
    match lookup T.hexDec 0 r.1 with
    | 0 => .err .syntax ((s.read r).offErr unc.reverse r.2)
    | d + 1 =>
      if d > m then .err .syntax .none                   -- ExceedsMaxUnicodePointErr, no offset
      else match ms with
        | [] => scanIRI T e .body (s.read r) rest ((v * 16 + d) :: acc) (r :: unc)
        | _ :: _ => scanIRI T e (.hex ms (v * 16 + d)) (s.read r) rest acc (r :: unc)

/-- `captureOpenIRI(uncommitted = [op])`: scan, commit the whole token (DONE), then the URL check,
    whose error carries the token's range. -/
def captureIRI (T : Tables) (urlOk : List Nat → Bool) (e : End) (s : S) (op : RP) (inp : List RP) :
    RO (List Nat × Option SRange) :=
  match scanIRI T e .body s inp [] [op] with
  | .err c o => .err c o
  | .ok v s1 rest =>
    let iri := goString v.1
    if urlOk iri then .ok (iri, s1.range v.2) (s1.commit v.2) rest
    else .err .url (rangeErr (s1.range v.2))

/-- `captureOpenLiteral` up to and including the closing quote. -/
def scanLit (T : Tables) (e : End) : SState → S → List RP → List Nat → Chunk → RO (List Nat × Chunk)
  | .hex _ _, _, [], _, _ => .err e.cls .none
  | .body, s, [], _, unc => .err e.cls (s.offErr unc.reverse 0)
  | .esc, s, [], _, unc => .err e.cls (s.offErr unc.reverse 0)
  | .body, s, r :: rest, acc, unc =>
    if r.1 = 0x22 then .ok (acc.reverse, (r :: unc).reverse) (s.read r) rest
    else if r.1 = 0x5c then scanLit T e .esc (s.read r) rest acc (r :: unc)
    else scanLit T e .body (s.read r) rest (r.1 :: acc) (r :: unc)
  | .esc, s, r :: rest, acc, unc =>
    if r.1 = 0x75 then scanLit T e (.hex uchar4Maxs 0) (s.read r) rest acc (r :: unc)
    else if r.1 = 0x55 then scanLit T e (.hex uchar8Maxs 0) (s.read r) rest acc (r :: unc)
    else match echarDecode r.1 with
      | some d => scanLit T e .body (s.read r) rest (d :: acc) (r :: unc)
      | none => .err .syntax ((s.read r).offErr unc.reverse r.2)
  | .hex [] _, _, _ :: _, _, _ => .err .syntax .none
  | .hex (m :: ms) v, s, r :: rest, acc, unc =>
    match lookup T.hexDec 0 r.1 with
    | 0 => .err .syntax ((s.read r).offErr unc.reverse r.2)
    | d + 1 =>
      if d > m then .err .syntax .none
      else match ms with
        | [] => scanLit T e .body (s.read r) rest ((v * 16 + d) :: acc) (r :: unc)
        | _ :: _ => scanLit T e (.hex ms (v * 16 + d)) (s.read r) rest acc (r :: unc)

/-- `scanOpenLangtag`, label END after the trailing-`-` test: commit `@`, then the tag for its range. -/
def langFinish (s : S) (a0 : RP) (tagRev : Chunk) (rest : List RP) : RO (List Nat × Option SRange) :=
  .ok (runes tagRev.reverse, (s.commit [a0]).range tagRev.reverse)
      ((s.commit [a0]).commit tagRev.reverse) rest

/-- SECONDARY loop and END. `a0` is the `@`, `tagRev` the tag read so far (reversed);
    Go's `uncommitted` is `a0 :: tagRev.reverse`. -/
def langSecondary (e : End) (a0 : RP) : S → List RP → Chunk → RO (List Nat × Option SRange)
  | s, [], tagRev => .err e.cls (s.offErr (a0 :: tagRev.reverse) 0)
  | s, r :: rest, tagRev =>
    if isAlpha r.1 || isDigit r.1 then langSecondary e a0 (s.read r) rest (r :: tagRev)
    else if r.1 = 0x2d then
      (if (runes tagRev).head? = some 0x2d then .err .syntax ((s.read r).offErr (a0 :: tagRev.reverse) r.2)
       else langSecondary e a0 (s.read r) rest (r :: tagRev))
    else
      -- BacktrackRunes(r0); END: a trailing '-' is reported with the '-' as the ignored rune
      match tagRev with
      | l :: more =>
        if l.1 = 0x2d then .err .syntax (s.offErr (a0 :: more.reverse) l.2)
        else langFinish s a0 tagRev (r :: rest)
      | [] => langFinish s a0 tagRev (r :: rest)

/-- First loop of `scanOpenLangtag`. (END's trailing-`-` test cannot fire from here: every rune this
    loop keeps is a letter.) -/
def langPrimary (e : End) (a0 : RP) : S → List RP → Chunk → RO (List Nat × Option SRange)
  | s, [], tagRev => .err e.cls (s.offErr (a0 :: tagRev.reverse) 0)
  | s, r :: rest, tagRev =>
    if isAlpha r.1 then langPrimary e a0 (s.read r) rest (r :: tagRev)
    else if r.1 = 0x2d then
      (if tagRev.isEmpty then .err .syntax ((s.read r).offErr [a0] r.2)
       else langSecondary e a0 (s.read r) rest (r :: tagRev))
    else if tagRev.isEmpty then .err .syntax ((s.read r).offErr [a0] r.2)
    else langFinish s a0 tagRev (r :: rest)

/-- `fullRange`: from the start of the quoted string to the end of the suffix, when both exist. -/
def span : Option SRange → Option SRange → Option SRange
  | some a, some b => some (a.1, b.2)
  | _, _ => none

/-- `captureOpenLiteral(uncommitted = [q])`. -/
def captureLiteral (T : Tables) (urlOk : List Nat → Bool) (e : End) (legacy : Bool) (s : S) (q : RP)
    (inp : List RP) : RO (Term (List Nat) × Option SRange) :=
  match scanLit T e .body s inp [] [q] with
  | .err c o => .err c o
  | .ok v s1 rest =>
    let lex := goString v.1
    let sr := s1.range v.2                -- stringRange := commitForTextOffsetRange(uncommitted)
    let s2 := s1.commit v.2
    let stale : Chunk := if legacy then v.2 else []
    match rest with
    | [] => (match e with
        | .eof => .ok (.lit lex xsdString none, sr) s2 []
        | .ioerr => .err .io (s2.offErr stale 0))
    | r0 :: rest0 =>
      if r0.1 = 0x40 then
        match langPrimary e r0 (s2.read r0) rest0 [] with
        | .ok t s3 r => .ok (.lit lex rdfLangString (some t.1), span sr t.2) s3 r
        | .err x o => .err x o
      else if r0.1 = 0x5e then
        match rest0 with
        | [] => .err e.cls ((s2.read r0).offErr (stale ++ [r0]) 0)
        | r1 :: rest1 =>
          if r1.1 ≠ 0x5e then .err .syntax (((s2.read r0).read r1).offErr (stale ++ [r0]) r1.2)
          else
            let s5 := ((s2.read r0).read r1).commit [r0, r1]
            let stale2 : Chunk := if legacy then v.2 ++ [r0, r1] else []
            match rest1 with
            | [] => .err e.cls (s5.offErr stale2 0)
            | r2 :: rest2 =>
              if r2.1 ≠ 0x3c then .err .syntax ((s5.read r2).offErr stale2 r2.2)
              else match captureIRI T urlOk e (s5.read r2) r2 rest2 with
                | .ok d s7 r =>
                  -- an explicit rdf:langString / rdf:dirLangString datatype: error carrying the datatype IRI's range
                  if d.1 = rdfLangString ∨ d.1 = rdfDirLangString then .err .syntax (rangeErr d.2)
                  else .ok (.lit lex d.1 none, span sr d.2) s7 r
                | .err x o => .err x o
      else .ok (.lit lex xsdString none, sr) s2 (r0 :: rest0)   -- BacktrackRunes(r0)

/-- `captureOpenBlankNode`, label DONE. `p` = the runes `_`, `:`; `labRev` the label read (reversed);
    Go's `uncommitted` is `p ++ labRev.reverse`; the terminating rune has been handed back. -/
def bnFinish (T : Tables) (s : S) (p : Chunk) (labRev : Chunk) (rest : List RP) :
    RO (List Nat × Option SRange) :=
  if labRev.length ≥ 2 then
    match labRev with
    | [] => .err .syntax .none
    | l :: more =>
      if l.1 = 0x2e then
        (match more with
          | [] => .err .syntax .none
          | l' :: more' =>
            -- BacktrackRunes(last); uncommitted = uncommitted[:len-1]
            if inRanges T.pnChars l'.1 then
              .ok (runes more.reverse, (s.unread l).range (p ++ more.reverse))
                  ((s.unread l).commit (p ++ more.reverse)) (l :: rest)
            else .err .syntax ((s.unread l).offErr (p ++ more'.reverse) l'.2))
      else if inRanges T.pnChars l.1 then
        .ok (runes labRev.reverse, s.range (p ++ labRev.reverse)) (s.commit (p ++ labRev.reverse)) rest
      else .err .syntax (s.offErr (p ++ more.reverse) l.2)
  else .ok (runes labRev.reverse, s.range (p ++ labRev.reverse)) (s.commit (p ++ labRev.reverse)) rest

def bnLoop (T : Tables) (e : End) (p : Chunk) : S → List RP → Chunk → RO (List Nat × Option SRange)
  | s, [], labRev => .err e.cls (s.offErr (p ++ labRev.reverse) 0)
  | s, r :: rest, labRev =>
    if inRanges T.pnChars r.1 || r.1 = 0x2e then bnLoop T e p (s.read r) rest (r :: labRev)
    else bnFinish T s p labRev (r :: rest)

/-- `captureOpenBlankNode(uncommitted = p)` after `_:`. -/
def captureBNode (T : Tables) (e : End) (s : S) (p : Chunk) : List RP → RO (List Nat × Option SRange)
  | [] => .err e.cls (s.offErr p 0)
  | r :: rest =>
    if inRanges T.pnCharsU r.1 || isDigit r.1 then bnLoop T e p (s.read r) rest [r]
    else .err .syntax ((s.read r).offErr p r.2)

/-- `captureSubjectOrGraphValue` / `capturePredicate` / `captureObject`. The first argument is the
    state of `drainLine`: `some cm` = inside a comment, `cm` its runes so far incl. `#` (reversed). -/
def captureTerm (T : Tables) (urlOk : List Nat → Bool) (e : End) (legacy : Bool) (pos : Pos) :
    Option Chunk → S → List RP → RO (Term (List Nat) × Option SRange)
  | none, s, [] => .err e.cls (s.offErr [] 0)
  | some _, _, [] => .err e.cls .none       -- drainLine's error is wrapped without an offset
  | some cm, s, r :: rest =>
    if r.1 = 0x0a ∨ r.1 = 0x0d then captureTerm T urlOk e legacy pos none ((s.read r).commit (r :: cm).reverse) rest
    else captureTerm T urlOk e legacy pos (some (r :: cm)) (s.read r) rest
  | none, s, r :: rest =>
    if r.1 = 0x3c then
      match captureIRI T urlOk e (s.read r) r rest with
      | .ok v s' x => .ok (.iri v.1, v.2) s' x
      | .err x o => .err x o
    else if r.1 = 0x5f && pos.bnode then
      match rest with
      | [] => .err e.cls ((s.read r).offErr [] 0)
      | r1 :: rest1 =>
        if r1.1 ≠ 0x3a then .err .syntax (((s.read r).read r1).offErr [r] r1.2)
        else match captureBNode T e ((s.read r).read r1) [r, r1] rest1 with
          | .ok v s' x => .ok (.bnode v.1, v.2) s' x
          | .err x o => .err x o
    else if r.1 = 0x22 && pos.literal then captureLiteral T urlOk e legacy (s.read r) r rest
    else if r.1 = 0x23 then captureTerm T urlOk e legacy pos (some [r]) (s.read r) rest
    else if isSpace T r.1 then captureTerm T urlOk e legacy pos none ((s.read r).commit [r]) rest
    else .err .syntax ((s.read r).offErr [] r.2)

/-- After the object (N-Quads): `.` (committed) or the start of a graph label (handed back). -/
def afterObject (T : Tables) (e : End) : Option Chunk → S → List RP → RO (Option (List Nat))
  | none, s, [] => .err e.cls (s.offErr [] 0)
  | some _, _, [] => .err e.cls .none       -- `return err` (drainLine's, unwrapped)
  | some cm, s, r :: rest =>
    if r.1 = 0x0a ∨ r.1 = 0x0d then afterObject T e none ((s.read r).commit (r :: cm).reverse) rest
    else afterObject T e (some (r :: cm)) (s.read r) rest
  | none, s, r :: rest =>
    if r.1 = 0x2e then .ok none ((s.read r).commit [r]) rest
    else if r.1 = 0x23 then afterObject T e (some [r]) (s.read r) rest
    else if isSpace T r.1 then afterObject T e none ((s.read r).commit [r]) rest
    else .ok (some (runes (r :: rest))) s (r :: rest)

/-- White space / comments, then the mandatory `.` (committed). -/
def expectDot (T : Tables) (e : End) : Option Chunk → S → List RP → RO Unit
  | none, s, [] => .err e.cls (s.offErr [] 0)
  | some _, _, [] => .err e.cls .none
  | some cm, s, r :: rest =>
    if r.1 = 0x0a ∨ r.1 = 0x0d then expectDot T e none ((s.read r).commit (r :: cm).reverse) rest
    else expectDot T e (some (r :: cm)) (s.read r) rest
  | none, s, r :: rest =>
    if r.1 = 0x2e then .ok () ((s.read r).commit [r]) rest
    else if r.1 = 0x23 then expectDot T e (some [r]) (s.read r) rest
    else if isSpace T r.1 then expectDot T e none ((s.read r).commit [r]) rest
    else .err .syntax ((s.read r).offErr [] r.2)

/-- The four optional ranges handed to `buildTextOffsets`. -/
structure Ranges where
  s : Option SRange
  p : Option SRange
  o : Option SRange
  g : Option SRange
  deriving Repr

inductive Step where
  | quad (q : Quad (List Nat)) (rg : Ranges) (s : S) (rest : List RP)
  | done (s : S)
  | fail (e : EClass) (o : EOff)
  deriving Repr

inductive EolRes where
  | start (s : S) (rest : List RP)
  | done (s : S)
  | fail (e : EClass) (o : EOff)

/-- First loop of a non-first `Next()`. At a clean EOF inside a comment `drainLine` commits the
    pending comment; on a reader error it does not. -/
def toEOL (T : Tables) (e : End) : Option Chunk → S → List RP → EolRes
  | none, s, [] => (match e with | .eof => .done s | .ioerr => .fail .io (s.offErr [] 0))
  | some cm, s, [] => (match e with | .eof => .done (s.commit cm.reverse) | .ioerr => .fail .io (s.offErr [] 0))
  | some cm, s, r :: rest =>
    if r.1 = 0x0a ∨ r.1 = 0x0d then .start ((s.read r).commit (r :: cm).reverse) rest
    else toEOL T e (some (r :: cm)) (s.read r) rest
  | none, s, r :: rest =>
    if r.1 = 0x23 then toEOL T e (some [r]) (s.read r) rest
    else if r.1 = 0x0d ∨ r.1 = 0x0a then .start ((s.read r).commit [r]) rest
    else if isSpace T r.1 then toEOL T e none ((s.read r).commit [r]) rest
    else .fail .syntax ((s.read r).offErr [] r.2)

inductive SkipRes where
  | stmt (s : S) (rest : List RP)
  | ended (s : S)

/-- `skipToStatement`. -/
def skipToStmt (T : Tables) (e : End) : Option Chunk → S → List RP → SkipRes
  | none, s, [] => .ended s
  | some cm, s, [] => .ended (match e with | .eof => s.commit cm.reverse | .ioerr => s)
  | some cm, s, r :: rest =>
    if r.1 = 0x0a ∨ r.1 = 0x0d then skipToStmt T e none ((s.read r).commit (r :: cm).reverse) rest
    else skipToStmt T e (some (r :: cm)) (s.read r) rest
  | none, s, r :: rest =>
    if r.1 = 0x23 then skipToStmt T e (some [r]) (s.read r) rest
    else if isSpace T r.1 then skipToStmt T e none ((s.read r).commit [r]) rest
    else .stmt s (r :: rest)

/-- The statement part of `Next()`. -/
def statement (T : Tables) (urlOk : List Nat → Bool) (e : End) (legacy quads : Bool) (s : S)
    (inp : List RP) : Step :=
  match skipToStmt T e none s inp with
  | .ended s' => (match e with | .eof => .done s' | .ioerr => .fail .io (s'.offErr [] 0))
  | .stmt s0 inp' =>
  match captureTerm T urlOk e legacy posSubject none s0 inp' with
  | .err x o => .fail x o
  | .ok sv s1 r1 =>
    match captureTerm T urlOk e legacy posPredicate none s1 r1 with
    | .err x o => .fail x o
    | .ok pv s2 r2 =>
      match captureTerm T urlOk e legacy posObject none s2 r2 with
      | .err x o => .fail x o
      | .ok ov s3 r3 =>
        if quads then
          match afterObject T e none s3 r3 with
          | .err x o => .fail x o
          | .ok none s4 r4 => .quad ⟨sv.1, pv.1, ov.1, none⟩ ⟨sv.2, pv.2, ov.2, none⟩ s4 r4
          | .ok (some _) s4 r4 =>
            match captureTerm T urlOk e legacy posSubject none s4 r4 with
            | .err x o => .fail x o
            | .ok gv s5 r5 =>
              match expectDot T e none s5 r5 with
              | .err x o => .fail x o
              | .ok () s6 r6 => .quad ⟨sv.1, pv.1, ov.1, some gv.1⟩ ⟨sv.2, pv.2, ov.2, gv.2⟩ s6 r6
        else
          match expectDot T e none s3 r3 with
          | .err x o => .fail x o
          | .ok () s4 r4 => .quad ⟨sv.1, pv.1, ov.1, none⟩ ⟨sv.2, pv.2, ov.2, none⟩ s4 r4

/-- One `Next()` call. -/
def next (T : Tables) (urlOk : List Nat → Bool) (e : End) (legacy quads started : Bool) (s : S)
    (inp : List RP) : Step :=
  if started then
    match toEOL T e none s inp with
    | .done s' => .done s'
    | .fail x o => .fail x o
    | .start s' rest => statement T urlOk e legacy quads s' rest
  else statement T urlOk e legacy quads s inp

/-- Result of a whole run. `final` is the decoder state when `Next()` returned false with
    `Err() = nil`. -/
structure Out where
  stmts : List (Quad (List Nat) × Ranges)
  verdict : Verdict
  eoff : EOff
  final : Option S
  deriving Repr

def runFuel (T : Tables) (urlOk : List Nat → Bool) (e : End) (legacy quads : Bool) :
    Nat → Bool → S → List RP → Out
  | 0, _, _, _ => ⟨[], .outOfFuel, .none, none⟩
  | fuel + 1, started, s, inp =>
    match next T urlOk e legacy quads started s inp with
    | .done s' => ⟨[], .clean, .none, some s'⟩
    | .fail x o => ⟨[], .error x, o, none⟩
    | .quad q rg s' rest =>
      let out := runFuel T urlOk e legacy quads fuel true s' rest
      { out with stmts := (q, rg) :: out.stmts }

/-- The decoder as configured: `capture` = `SetCaptureTextOffsets(true)` (or an initial offset given). -/
def S.init (capture : Bool) : S := ⟨0, if capture then some [] else none⟩

def run (T : Tables) (urlOk : List Nat → Bool) (e : End) (legacy quads capture : Bool) (inp : List RP) : Out :=
  runFuel T urlOk e legacy quads (inp.length + 1) false (S.init capture) inp

/-! ## Concrete offsets (what the API shows) -/

def evalRange (cols : List Nat → Nat) (init : Offset) (r : SRange) : Offset × Offset :=
  (histOffset cols init r.1, histOffset cols init r.2)

/-- Concrete value of an error offset: `none`, a bare byte offset (`cursorio.ByteOffset`, capture
    off; the initial offset plays no role: configuring one turns capture on), a text offset, or a
    text offset range. -/
inductive ErrPos where
  | none
  | byte (n : Nat)
  | text (o : Offset)
  | range (fr un : Offset)
  deriving Repr, DecidableEq

def evalEOff (cols : List Nat → Nat) (init : Offset) : EOff → ErrPos
  | .none => .none
  | .byte n => .byte n
  | .text h unc =>
    .text (if size unc > 0 then write cols (histOffset cols init h) unc else histOffset cols init h)
  | .range f u => .range (histOffset cols init f) (histOffset cols init u)

/-- The byte component of an error position (`Offset.ByteOffset()`; for a range: its end). -/
def ErrPos.byteEnd : ErrPos → Option Nat
  | .none => Option.none
  | .byte n => some n
  | .text o => some o.byte
  | .range _ u => some u.byte

/-! ## The decoder object -/

structure Dec where
  inp : List RP
  s : S
  cur : Option (Quad (List Nat) × Ranges)
  err : Option (EClass × EOff)
  deriving Repr

def Dec.init (capture : Bool) (inp : List RP) : Dec := ⟨inp, S.init capture, none, none⟩

def Dec.next (T : Tables) (urlOk : List Nat → Bool) (e : End) (legacy quads : Bool) (d : Dec) : Dec × Bool :=
  match d.err with
  | some _ => (d, false)
  | none =>
    match NQO.next T urlOk e legacy quads d.cur.isSome d.s d.inp with
    | .quad q rg s' rest => (⟨rest, s', some (q, rg), none⟩, true)
    | .done s' => (⟨[], s', none, none⟩, false)
    | .fail x o => (⟨[], d.s, d.cur, some (x, o)⟩, false)

/-- State after `n` calls of `Next()`. -/
def Dec.nextN (T : Tables) (urlOk : List Nat → Bool) (e : End) (legacy quads : Bool) : Nat → Dec → Dec
  | 0, d => d
  | n + 1, d => Dec.nextN T urlOk e legacy quads n (Dec.next T urlOk e legacy quads d).1

end RdfModel.NQO
