package main

// Document generators of c11ra.
//   * soup  — go/cmd/c11's RDFa attribute soup (same pools, same combinations of @property/@rel/@rev with
//             @about/@resource/@href/@src/@typeof/@content/@datatype/@inlist/@prefix/@vocab/@lang), i.e. documents inside the
//             fragment of Spec.RdfaFragment;
//   * wild  — the same skeleton without the fragment's restrictions: everything the Go decoder looks at (xmlns:, xml:lang,
//             xml:base, <base href>, <time datetime>, rdf:XMLLiteral / rdf:HTML / rdf:langString datatypes, rdfa:copy patterns,
//             html@version, XHTML+RDFa doctypes, head/body attributes, the link-relation filter, `_:`, `[]`, unresolvable safe
//             CURIEs, CURIE-shaped @href, odd @prefix lists, non-ASCII prefixes and terms, duplicate list predicates …).

import (
	"fmt"
	"strings"

	"verifharness/vh"
)

// ---------------------------------------------------------------- pools (as go/cmd/c11/gen.go)

var bases = []string{
	"http://ex.org/dir/page.html",
	"http://ex.org/dir/page.html",
	"http://ex.org/dir/sub/",
	"https://host.example/a/b?q=1",
	"http://ex.org/dir/page.html#frag",
	"http://ex.org/",
	"http://ex.org/a/b/c/d",
	"",
}

var wildBases = []string{"relative/location", "urn:x:y", "http://[::1", "ht tp://bad location", "file:///tmp/x.html", "HTTP://EX.org/A/../b", "//host/p"}

var relRefs = []string{"", "#me", "#a:b", "other", "other.html#x", "sub/x", "../up", "../../top/x", "/root/p", "/wiki/Help:Contents",
	"?q=2", "?a=b:c", "./here", "x/y:z", "//other.example/n", "a%20b"}

var absIRIs = []string{"http://other.example/x", "https://w3.example/ns#t", "urn:isbn:0451450523", "mailto:a@b.example",
	"tag:x.example,2020:y", "http://ex.org/a%20b", "http://ex.org/é/ü", "http://ex.org/q?x=a:b&y=1", "http://ex.org/p/Help:Contents",
	"http://schema.org/Person", "http://xmlns.com/foaf/0.1/Agent", "http://vocab.example/ns#thing", "http://vocab.example/ns#Other",
	"http://p.example/deep/er/x", "http://ex.org/dir/page.html", "http://ex.org/dir/"}

var predIRIs = []string{"http://schema.org/name", "http://schema.org/knows", "http://xmlns.com/foaf/0.1/name", "http://xmlns.com/foaf/0.1/knows",
	"http://purl.org/dc/terms/title", "http://vocab.example/ns#p1", "http://vocab.example/ns#p2", "http://p.example/rel", "http://p.example/deep/er/q",
	"http://www.w3.org/2000/01/rdf-schema#label", "http://www.w3.org/1999/xhtml/vocab#license", "http://www.w3.org/1999/xhtml/vocab#role",
	"http://www.w3.org/2007/05/powder-s#describedby", "urn:p:x", "http://schema.org/url", "http://ogp.me/ns#title"}

var vocabs = []string{"http://schema.org/", "http://vocab.example/ns#", "http://xmlns.com/foaf/0.1/", "http://p.example/"}

var lexes = []string{"", "x", "hello world", "Größe ✓", "a<b>&c", "say \"hi\" 'there'", "line1\nline2", " lead and trail ", "tab\there",
	"&amp; literal", "<!-- not a comment -->", "</span>", "]]>", "cr\rhere", "42", "日本語", "a b", "emoji 😀"}

var langs = []string{"en", "fr-CA", "de", "EN-us"}

var datatypes = []string{"http://www.w3.org/2001/XMLSchema#integer", "http://www.w3.org/2001/XMLSchema#date", "http://dt.example/t",
	"http://vocab.example/ns#dt", "http://www.w3.org/2001/XMLSchema#boolean"}

var declPrefixes = [][2]string{{"ex", "http://vocab.example/ns#"}, {"p", "http://p.example/"}, {"o", "http://other.example/"},
	{"dc", "http://purl.org/dc/elements/1.1/"}, {"wiki", "http://ex.org/p/"}, {"EX2", "http://ex.org/dir/"}}

func prefixAttr(r *vh.Rng, decls [][2]string) string {
	var parts []string
	for _, d := range decls {
		parts = append(parts, d[0]+":"+vh.Pick(r, []string{" ", "  ", "\n"})+d[1])
	}
	return strings.Join(parts, vh.Pick(r, []string{" ", "  ", "\n"}))
}

// ---------------------------------------------------------------- c11's soup (inside the fragment)

type soup struct {
	r    *vh.Rng
	base string
	wild bool
}

var soupContainers = []string{"div", "span", "section", "b", "i", "em", "other"}
var soupLeaves = []string{"span", "div", "a", "link", "img", "meta", "area", "embed", "em"}

func (s *soup) resVal(curie bool) string {
	opts := []string{vh.Pick(s.r, absIRIs), vh.Pick(s.r, absIRIs), "_:b" + fmt.Sprint(s.r.Intn(3)), ""}
	if s.base != "" || s.wild {
		opts = append(opts, vh.Pick(s.r, relRefs), vh.Pick(s.r, relRefs))
	}
	if curie {
		opts = append(opts, "schema:Person", "foaf:me", "[foaf:me]", "[_:b1]", "ex:thing", "[ex:thing]", "dc:title")
	}
	if s.wild {
		opts = append(opts, "[]", "_:", "[_:]", "[unknown:x]", "unknown:x", ":x", "[:x]", "x:", "[", "]", "[x", "ÉX:y", "éx:y", "license", "[license]",
			"xsd:", "http:", "[http://other.example/z]", "a b", " #sp ", "\xff", "_:\xff", "EX:Upper", "wiki:Help:Contents")
	}
	return vh.Pick(s.r, opts)
}

func (s *soup) hrefVal() string {
	opts := []string{vh.Pick(s.r, absIRIs), vh.Pick(s.r, absIRIs), ""}
	if s.base != "" || s.wild {
		opts = append(opts, vh.Pick(s.r, relRefs), vh.Pick(s.r, relRefs))
	}
	if s.wild {
		opts = append(opts, "ex:thing", "[ex:thing]", "_:b1", "_:", "[]", "http://[::1", "%zz", "a b", "schema:x")
	}
	return vh.Pick(s.r, opts)
}

var wildTerms = []string{"license", "role", "License", "ROLE", "describedby", "next", "prev", "stylesheet", "Stylesheet", "alternate", "icon", "nofollow",
	"canonical", "bookmark", "tag", "up", "p3pv1", "İcon", "ſtylesheet", "x/y", "no term!", "é", "\xffz", "external"}

func (s *soup) predVal(vocab bool) string {
	one := func() string {
		opts := []string{vh.Pick(s.r, predIRIs), vh.Pick(s.r, predIRIs), "schema:name", "foaf:knows", "dc:title", "ex:p1", "rdfs:label"}
		if vocab {
			opts = append(opts, "name", "knows", "p1")
		}
		if s.r.Chance(15) {
			opts = append(opts, "license", "role", "License")
		}
		if s.wild && s.r.Chance(40) {
			opts = append(opts, vh.Pick(s.r, wildTerms), vh.Pick(s.r, wildTerms), "name", ":p", "[ex:p1]", "[]", "_:pb", "_:", "unknown:p", "ÉX:p", "EX:p1", "rdfa:copy",
				"rdf:type", "[rdfa:copy]", "http:", "x:", "a/b:c", "?q:r")
		}
		return vh.Pick(s.r, opts)
	}
	v := one()
	for s.r.Chance(15) || (s.wild && s.r.Chance(15)) {
		v += vh.Pick(s.r, []string{" ", "  ", "\n", "\t", "\v", " ", "\f\r"}) + one()
	}
	if s.r.Chance(5) {
		v = " " + v + " "
	}
	return v
}

func (s *soup) rdfaElem(depth int, vocab bool) *Node {
	leaf := depth >= 3 || s.r.Chance(35)
	var attrs []Attr
	add := func(n, v string) { attrs = append(attrs, Attr{n, v}) }
	if s.r.Chance(12) {
		v := vh.Pick(s.r, append([]string{""}, vocabs...))
		if s.wild && s.r.Chance(40) {
			v = vh.Pick(s.r, []string{"rel/voc#", "_:v", "ex:", "[ex:v]", "license", "http://www.w3.org/1999/xhtml/vocab#", " ", "#v", "unknown:v"})
		}
		add("vocab", v)
		vocab = v != ""
	}
	if s.r.Chance(10) {
		add("prefix", prefixAttr(s.r, [][2]string{vh.Pick(s.r, declPrefixes[:3])}))
	} else if s.wild && s.r.Chance(12) {
		add("prefix", vh.Pick(s.r, []string{"ex: http://other.example/ex2#", "ex:", "ex http://x/", "_: http://x/", ": http://empty.example/", "EX: http://upper.example/",
			"a: b c: d e:", "  ", "éx: http://e.example/", "ÉX: http://E.example/", "http: http://hijack.example/", "x: y z: w", "rdfa: http://not.rdfa/",
			"\xffp: http://bad.utf8/", "schema: http://schema.org/", "ex:\thttp://tab.example/"}))
	}
	if s.wild && s.r.Chance(10) {
		add(vh.Pick(s.r, []string{"xmlns:ex", "xmlns:q", "xmlns:_u", "xmlns:", "xmlns:É", "xmlns:empty", "xmlns:http"}),
			vh.Pick(s.r, []string{"http://xmlns.example/q#", "", "http://other.example/", "rel/ns#"}))
	}
	if s.r.Chance(12) {
		add("lang", vh.Pick(s.r, append([]string{""}, langs...)))
	}
	if s.wild && s.r.Chance(8) {
		add("xml:lang", vh.Pick(s.r, append([]string{""}, langs...)))
	}
	if s.wild && s.r.Chance(8) {
		add("xml:base", vh.Pick(s.r, []string{"http://xmlbase.example/d/", "sub/", "../", "#f", "http://[::1", "", "?q", "//h2/p"}))
	}
	if s.r.Chance(35) {
		add("about", s.resVal(true))
	}
	if s.r.Chance(25) {
		add("typeof", strings.TrimSpace(s.predVal(vocab)))
	} else if s.wild && s.r.Chance(5) {
		add("typeof", vh.Pick(s.r, []string{"", " ", "rdfa:Pattern", "rdfa:Pattern schema:Thing"}))
	}
	// every combination of @property / @rel / @rev (steps 5, 6 and 11 depend on which of them are present)
	switch s.r.Intn(11) {
	case 0, 1:
		add("property", s.predVal(vocab))
	case 2:
		add("rel", s.predVal(vocab))
	case 3:
		add("rev", s.predVal(vocab))
	case 4:
		add("property", s.predVal(vocab))
		add("rel", s.predVal(vocab))
	case 5, 6:
		add("property", s.predVal(vocab))
		add("rev", s.predVal(vocab))
	case 7:
		add("rel", s.predVal(vocab))
		add("rev", s.predVal(vocab))
	case 8:
		add("property", s.predVal(vocab))
		add("rel", s.predVal(vocab))
		add("rev", s.predVal(vocab))
	}
	if s.r.Chance(25) {
		add("resource", s.resVal(true))
	}
	if s.r.Chance(15) {
		add("href", s.hrefVal())
	}
	if s.r.Chance(10) {
		add("src", s.hrefVal())
	}
	if s.r.Chance(20) {
		add("content", vh.Pick(s.r, lexes))
	}
	if s.r.Chance(12) {
		dts := []string{"", "xsd:integer", "http://dt.example/t", "ex:dt", vh.Pick(s.r, datatypes)}
		if s.wild {
			dts = append(dts, "rdf:XMLLiteral", "rdf:XMLLiteral", "rdf:HTML", "rdf:langString", "rdf:dirLangString", "xsd:string", "license", "nope", "_:d", "[]", "empty:",
				"http://www.w3.org/1999/02/22-rdf-syntax-ns#XMLLiteral", ":dt")
		}
		add("datatype", vh.Pick(s.r, dts))
	}
	if s.r.Chance(12) || (s.wild && s.r.Chance(10)) {
		add("inlist", "")
	}
	if s.wild && s.r.Chance(6) {
		add("datetime", vh.Pick(s.r, wildTimes))
	}
	leaves, containers := soupLeaves, soupContainers
	if s.wild {
		leaves = []string{"span", "div", "a", "link", "img", "meta", "area", "embed", "em", "time", "time", "form", "base", "p", "li", "custom-el", "svg", "math"}
		containers = []string{"div", "span", "section", "b", "i", "em", "other", "a", "form", "time", "ul", "p", "svg", "head", "body"}
	}
	if leaf {
		tag := vh.Pick(s.r, leaves)
		if voidTags[tag] {
			return E(tag, attrs)
		}
		if tag == "time" && s.r.Chance(70) {
			return E(tag, attrs, T(vh.Pick(s.r, wildTimes)))
		}
		if s.r.Chance(60) {
			return E(tag, attrs, T(vh.Pick(s.r, lexes)))
		}
		return E(tag, attrs)
	}
	n := &Node{Tag: vh.Pick(s.r, containers), Attrs: attrs}
	k := 1 + s.r.Intn(3)
	for i := 0; i < k; i++ {
		if s.r.Chance(20) {
			n.Kids = append(n.Kids, T(vh.Pick(s.r, lexes)))
		}
		n.Kids = append(n.Kids, s.rdfaElem(depth+1, vocab))
	}
	return n
}

var wildTimes = []string{"2020-01-02", "12:30:00", "2020-01-02T03:04:05Z", "2020-01", "2020", "P1D", "PT1H30M", "soon", "", " 2020-01-02 ", "2020-13-45", "-0001", "24:00:00",
	"2020-01-02T03:04:05+01:00", "P1Y2M", "2013-03-03", "12:30", "１２:30"}

func (s *soup) rdfaDoc() *Node {
	var body []*Node
	k := 1 + s.r.Intn(3)
	for i := 0; i < k; i++ {
		body = append(body, s.rdfaElem(0, false))
	}
	// `ex` is always declared (as in c11's soup)
	battrs := []Attr{{"prefix", prefixAttr(s.r, [][2]string{declPrefixes[0]})}}
	return E("html", nil, E("head", nil), E("body", battrs, body...))
}

// pattern: an rdfa:Pattern block and one or two users of it (rdfa-in-html 3.5)
func (s *soup) patternBlock() []*Node {
	id := vh.Pick(s.r, []string{"#pat", "_:pat", "http://ex.org/pat", "#p2"})
	pat := E("div", []Attr{{"resource", id}, {"typeof", vh.Pick(s.r, []string{"rdfa:Pattern", "rdfa:Pattern schema:Thing", "schema:Thing"})}},
		E("span", []Attr{{"property", s.predVal(false)}}, T(vh.Pick(s.r, lexes))))
	if s.r.Chance(50) {
		pat.Kids = append(pat.Kids, E("link", []Attr{{"property", s.predVal(false)}, {"href", s.hrefVal()}}))
	}
	if s.r.Chance(20) {
		pat.Kids = append(pat.Kids, E("link", []Attr{{"property", "rdfa:copy"}, {"href", vh.Pick(s.r, []string{"#p2", "#pat"})}}))
	}
	out := []*Node{pat}
	for i := 0; i < 1+s.r.Intn(2); i++ {
		user := E("div", []Attr{{"about", s.resVal(false)}},
			E("link", []Attr{{vh.Pick(s.r, []string{"property", "rel"}), "rdfa:copy"}, {vh.Pick(s.r, []string{"href", "resource"}), id}}))
		if s.r.Chance(30) {
			user.Kids = append(user.Kids, E("span", []Attr{{"property", s.predVal(false)}}, T("own")))
		}
		out = append(out, user)
	}
	if s.r.Bool() {
		out[0], out[len(out)-1] = out[len(out)-1], out[0]
	}
	return out
}

func (s *soup) wildDoc() (doc *Node, doctype string) {
	var body []*Node
	k := 1 + s.r.Intn(3)
	for i := 0; i < k; i++ {
		body = append(body, s.rdfaElem(0, false))
		if s.r.Chance(12) {
			body = append(body, s.patternBlock()...)
		}
	}
	var hattrs, headattrs, battrs []Attr
	if s.r.Chance(60) {
		battrs = append(battrs, Attr{"prefix", prefixAttr(s.r, [][2]string{declPrefixes[0]})})
	}
	if s.r.Chance(15) {
		hattrs = append(hattrs, Attr{"version", vh.Pick(s.r, []string{"HTML+RDFa 1.1", "XHTML+RDFa 1.0", "XHTML+RDFa 1.1", "HTML+RDFa 1.0", "other"})})
	}
	for _, tgt := range []*[]Attr{&hattrs, &headattrs, &battrs} {
		if s.r.Chance(12) {
			*tgt = append(*tgt, Attr{"vocab", vh.Pick(s.r, append([]string{""}, vocabs...))})
		}
		if s.r.Chance(10) {
			*tgt = append(*tgt, Attr{"about", s.resVal(true)})
		}
		if s.r.Chance(10) {
			*tgt = append(*tgt, Attr{"typeof", s.predVal(false)})
		}
		if s.r.Chance(8) {
			*tgt = append(*tgt, Attr{vh.Pick(s.r, []string{"property", "rel", "rev"}), s.predVal(false)})
		}
		if s.r.Chance(8) {
			*tgt = append(*tgt, Attr{vh.Pick(s.r, []string{"lang", "xml:lang"}), vh.Pick(s.r, langs)})
		}
		if s.r.Chance(6) {
			*tgt = append(*tgt, Attr{"xml:base", vh.Pick(s.r, []string{"http://xmlbase.example/top/", "up/", "#x"})})
		}
		if s.r.Chance(5) {
			*tgt = append(*tgt, Attr{"inlist", ""})
		}
		if s.r.Chance(5) {
			*tgt = append(*tgt, Attr{"resource", s.resVal(true)})
		}
	}
	var head []*Node
	for s.r.Chance(25) {
		var a []Attr
		if s.r.Chance(85) {
			a = append(a, Attr{"href", vh.Pick(s.r, []string{"http://base.example/b/", "http://base.example/b/doc#frag", "sub/dir/", "/abs/", "http://[::1", "", "?q=1", "//nh/p", "urn:b:c"})})
		}
		if s.r.Chance(20) {
			a = append(a, Attr{"property", s.predVal(false)})
		}
		head = append(head, E("base", a))
	}
	if s.r.Chance(20) {
		head = append(head, E("link", []Attr{{"rel", s.predVal(false)}, {"href", s.hrefVal()}}))
	}
	if s.r.Chance(15) {
		head = append(head, E("meta", []Attr{{"property", s.predVal(false)}, {"content", vh.Pick(s.r, lexes)}}))
	}
	if s.r.Chance(10) {
		head = append(head, E("title", []Attr{{"property", "dc:title"}}, T("Title")))
	}
	doctype = vh.Pick(s.r, []string{"", "<!DOCTYPE html>", "<!DOCTYPE html>",
		`<!DOCTYPE html PUBLIC "-//W3C//DTD XHTML+RDFa 1.0//EN" "http://www.w3.org/MarkUp/DTD/xhtml-rdfa-1.dtd">`,
		`<!DOCTYPE html PUBLIC "-//W3C//DTD XHTML+RDFa 1.1//EN" "http://www.w3.org/MarkUp/DTD/xhtml-rdfa-2.dtd">`,
		`<!DOCTYPE html PUBLIC "-//W3C//DTD HTML 4.01//EN" "http://www.w3.org/TR/html4/strict.dtd">`})
	return E("html", hattrs, E("head", headattrs, head...), E("body", battrs, body...)), doctype
}
