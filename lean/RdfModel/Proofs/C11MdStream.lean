/-
  Proofs/C11MdStream — Spec side of the nested-items refinement (part C11MD): for documents WITHOUT itemref,
  `Spec.Microdata.denote` (grouped by item, looked up by path) is a permutation of the STREAMING semantics `swP`
  (statements in the order the decoder emits them: at every element first the property statements it gives the
  enclosing item, then, for an item, its rdf:type statements, then its children).

    denote base doc  =  denoteRel base [] doc          (`denote_eq_rel`: path look-ups resolved, no itemref)
    swP base none [] doc  ~  denoteRel base [] doc     (`swP_perm`)
-/
import RdfModel.Proofs.C11MdTyped
set_option linter.unusedSimpArgs false
set_option linter.unusedSectionVars false
namespace RdfModel.Mdd.Stream
open RdfModel RdfModel.Desc RdfModel.Spec.Html RdfModel.Spec.Microdata RdfModel.Mdd RdfModel.Mdd.Typed

/-- the enclosing item as the walk carries it: subject and types -/
abbrev Cur := Option (T × List Str)

/-- the property statements the enclosing item gets from the element `t` at `here` -/
def linkOf (base : Str) (cur : Cur) (here : Path) (t : Tree) : List Tr :=
  match cur, t with
  | some c, .elem _ a _ => (names a).map (fun nm => (⟨c.1, predicate c.2 nm, value base here t⟩ : Tr))
  | _, _ => []

def typeStmts (base : Str) (a : Attrs) (here : Path) : List Tr :=
  (typesOf a).map (fun ty => (⟨subject base a here, Spec.Microdata.rdfType, .iri ty⟩ : Tr))

mutual
/-- streaming semantics: the statements in decoder order -/
def swP (base : Str) (cur : Cur) (here : Path) : Tree → List Tr
  | .text _ => []
  | .elem tag a ks =>
    linkOf base cur here (.elem tag a ks) ++
    (if a.itemscope then
      typeStmts base a here ++ swPKids base (some (subject base a here, typesOf a)) here 0 ks
    else swPKids base cur here 0 ks)
def swPKids (base : Str) (cur : Cur) (here : Path) (i : Nat) : List Tree → List Tr
  | [] => []
  | k :: ks => swP base cur (here ++ [i]) k ++ swPKids base cur here (i + 1) ks
end

mutual
/-- the property statements of the item `cur` found at or below `t` (the WHATWG crawl without itemref) -/
def propsOf (base : Str) (cur : Cur) (here : Path) : Tree → List Tr
  | .text _ => []
  | .elem tag a ks =>
    linkOf base cur here (.elem tag a ks) ++ (if a.itemscope then [] else propsOfKids base cur here 0 ks)
def propsOfKids (base : Str) (cur : Cur) (here : Path) (i : Nat) : List Tree → List Tr
  | [] => []
  | k :: ks => propsOf base cur (here ++ [i]) k ++ propsOfKids base cur here (i + 1) ks
end

mutual
/-- the triples of all items at or below `t`, item by item in tree order -/
def denoteRel (base : Str) (here : Path) : Tree → List Tr
  | .text _ => []
  | .elem _ a ks =>
    (if a.itemscope then
      typeStmts base a here ++ propsOfKids base (some (subject base a here, typesOf a)) here 0 ks
    else []) ++ denoteRelKids base here 0 ks
def denoteRelKids (base : Str) (here : Path) (i : Nat) : List Tree → List Tr
  | [] => []
  | k :: ks => denoteRel base (here ++ [i]) k ++ denoteRelKids base here (i + 1) ks
end

mutual
def noRef : Tree → Bool
  | .text _ => true
  | .elem _ a ks => a.itemref.isNone && noRefKids ks
def noRefKids : List Tree → Bool
  | [] => true
  | k :: ks => noRef k && noRefKids ks
end

/-! ## streaming order is a permutation of the item-by-item order -/

theorem perm_interleave {α : Type} (a b c d : List α) : ((a ++ b) ++ (c ++ d)).Perm ((a ++ c) ++ (b ++ d)) := by
  simp only [List.append_assoc]
  apply List.Perm.append_left
  rw [← List.append_assoc, ← List.append_assoc]
  exact List.Perm.append_right d List.perm_append_comm

mutual
theorem propsOf_none (base : Str) : ∀ (t : Tree) (here : Path), propsOf base none here t = []
  | .text _, _ => by simp [propsOf]
  | .elem tag a ks, here => by
    simp only [propsOf, linkOf, List.nil_append]
    split
    · rfl
    · exact propsOfKids_none base ks here 0
theorem propsOfKids_none (base : Str) : ∀ (ks : List Tree) (here : Path) (i : Nat), propsOfKids base none here i ks = []
  | [], _, _ => by simp [propsOfKids]
  | k :: ks, here, i => by
    simp only [propsOfKids, propsOf_none base k, propsOfKids_none base ks, List.append_nil]
end

mutual
theorem swP_perm (base : Str) : ∀ (t : Tree) (cur : Cur) (here : Path),
    (swP base cur here t).Perm (propsOf base cur here t ++ denoteRel base here t)
  | .text _, _, _ => by simp [swP, propsOf, denoteRel]
  | .elem tag a ks, cur, here => by
    simp only [swP, propsOf, denoteRel]
    by_cases h : a.itemscope = true
    · simp only [h, ↓reduceIte, List.append_nil, List.append_assoc]
      apply List.Perm.append_left
      apply List.Perm.append_left
      exact swPKids_perm base ks _ here 0
    · simp only [h, Bool.false_eq_true, ↓reduceIte, List.nil_append, List.append_assoc]
      apply List.Perm.append_left
      exact swPKids_perm base ks cur here 0
theorem swPKids_perm (base : Str) : ∀ (ks : List Tree) (cur : Cur) (here : Path) (i : Nat),
    (swPKids base cur here i ks).Perm (propsOfKids base cur here i ks ++ denoteRelKids base here i ks)
  | [], _, _, _ => by simp [swPKids, propsOfKids, denoteRelKids]
  | k :: ks, cur, here, i => by
    simp only [swPKids, propsOfKids, denoteRelKids]
    exact ((swP_perm base k cur (here ++ [i])).append (swPKids_perm base ks cur here (i + 1))).trans
      (perm_interleave _ _ _ _)
end

/-- top level: no enclosing item -/
theorem swP_perm_top (base : Str) (doc : Tree) : (swP base none [] doc).Perm (denoteRel base [] doc) := by
  have := swP_perm base doc none []
  rwa [propsOf_none, List.nil_append] at this

/-! ## the path look-ups of `denote` resolved (documents without itemref) -/

/-- the children `ks` are the children of the node at `here` from index `i` on -/
def KidsAt (doc : Tree) (here : Path) (i : Nat) (ks : List Tree) : Prop :=
  ∀ j k, ks[j]? = some k → nodeAt doc (here ++ [i + j]) = some k

theorem nodeAt_nil (t : Tree) : nodeAt t [] = some t := by cases t <;> rfl

theorem kidsAt_of_node (doc : Tree) (here : Path) (tag : Tag) (a : Attrs) (ks : List Tree)
    (h : nodeAt doc here = some (.elem tag a ks)) : KidsAt doc here 0 ks := by
  intro j k hk
  rw [nodeAt_append, h]
  simp [nodeAt, kidAt_eq, hk, nodeAt_nil]

theorem kidsAt_head {doc : Tree} {here : Path} {i : Nat} {k : Tree} {ks : List Tree} (h : KidsAt doc here i (k :: ks)) :
    nodeAt doc (here ++ [i]) = some k := by simpa using h 0 k (by simp)

theorem kidsAt_tail {doc : Tree} {here : Path} {i : Nat} {k : Tree} {ks : List Tree} (h : KidsAt doc here i (k :: ks)) :
    KidsAt doc here (i + 1) ks := by
  intro j x hx
  have := h (j + 1) x (by simpa using hx)
  rwa [show i + (j + 1) = i + 1 + j by omega] at this

/-- the function `itemTriples` maps over the property elements -/
def propF (base : Str) (doc : Tree) (cur : T × List Str) (q : Path) : List Tr :=
  match nodeAt doc q with
  | some (.elem tag2 a2 ks2) =>
    (names a2).map (fun nm => (⟨cur.1, predicate cur.2 nm, value base q (.elem tag2 a2 ks2)⟩ : Tr))
  | _ => []

mutual
theorem visit_props (base : Str) (doc : Tree) (cur : T × List Str) : ∀ (t : Tree) (here : Path),
    nodeAt doc here = some t → (visit here t).flatMap (propF base doc cur) = propsOf base (some cur) here t
  | .text _, _, _ => by simp [visit, propsOf]
  | .elem tag a ks, here, h => by
    simp only [visit, propsOf, List.flatMap_append, linkOf]
    congr 1
    · by_cases hn : (names a).isEmpty = true
      · have : names a = [] := by simpa using hn
        simp [hn, this]
      · simp [hn, propF, h]
    · split
      · rfl
      · exact visitKids_props base doc cur ks here 0 (kidsAt_of_node doc here tag a ks h)
theorem visitKids_props (base : Str) (doc : Tree) (cur : T × List Str) : ∀ (ks : List Tree) (here : Path) (i : Nat),
    KidsAt doc here i ks → (visitKids here i ks).flatMap (propF base doc cur) = propsOfKids base (some cur) here i ks
  | [], _, _, _ => by simp [visitKids, propsOfKids]
  | k :: ks, here, i, h => by
    simp only [visitKids, propsOfKids, List.flatMap_append]
    rw [visit_props base doc cur k (here ++ [i]) (kidsAt_head h), visitKids_props base doc cur ks here (i + 1) (kidsAt_tail h)]
end

mutual
theorem visit_len : ∀ (t : Tree) (here : Path), ∀ q ∈ visit here t, here.length ≤ q.length
  | .text _, _ => by simp [visit]
  | .elem tag a ks, here => by
    intro q hq
    simp only [visit, List.mem_append] at hq
    rcases hq with hq | hq
    · split at hq
      · simp at hq
      · simp only [List.mem_singleton] at hq; subst hq; exact Nat.le_refl _
    · split at hq
      · simp at hq
      · exact Nat.le_of_lt (visitKids_len ks here 0 q hq)
theorem visitKids_len : ∀ (ks : List Tree) (here : Path) (i : Nat), ∀ q ∈ visitKids here i ks, here.length < q.length
  | [], _, _ => by simp [visitKids]
  | k :: ks, here, i => by
    intro q hq
    simp only [visitKids, List.mem_append] at hq
    rcases hq with hq | hq
    · have := visit_len k (here ++ [i]) q hq
      simp at this; omega
    · exact visitKids_len ks here (i + 1) q hq
end

theorem itemTriples_rel (base : Str) (doc : Tree) (here : Path) (tag : Tag) (a : Attrs) (ks : List Tree)
    (hnode : nodeAt doc here = some (.elem tag a ks)) (href : a.itemref = none) :
    itemTriples base doc here =
      typeStmts base a here ++ propsOfKids base (some (subject base a here, typesOf a)) here 0 ks := by
  have hfilter : (visitKids here 0 ks).filter (fun q => q != here) = visitKids here 0 ks := by
    apply List.filter_eq_self.mpr
    intro q hq
    have := visitKids_len ks here 0 q hq
    simp only [bne_iff_ne, ne_eq]
    intro h; subst h; omega
  have := visitKids_props base doc (subject base a here, typesOf a) ks here 0 (kidsAt_of_node doc here tag a ks hnode)
  simp only [itemTriples, hnode, props, href, List.flatMap_nil, List.append_nil, hfilter]
  rw [← this]
  rfl

mutual
theorem items_rel (base : Str) (doc : Tree) : ∀ (t : Tree) (here : Path), nodeAt doc here = some t → noRef t = true →
    (itemsNode here t).flatMap (itemTriples base doc) = denoteRel base here t
  | .text _, _, _, _ => by simp [itemsNode, denoteRel]
  | .elem tag a ks, here, h, hr => by
    simp only [noRef, Bool.and_eq_true, Option.isNone_iff_eq_none] at hr
    simp only [itemsNode, denoteRel, List.flatMap_append]
    congr 1
    · split
      · simp [itemTriples_rel base doc here tag a ks h hr.1]
      · rfl
    · exact itemsKids_rel base doc ks here 0 (kidsAt_of_node doc here tag a ks h) hr.2
theorem itemsKids_rel (base : Str) (doc : Tree) : ∀ (ks : List Tree) (here : Path) (i : Nat), KidsAt doc here i ks →
    noRefKids ks = true → (itemsKids here i ks).flatMap (itemTriples base doc) = denoteRelKids base here i ks
  | [], _, _, _, _ => by simp [itemsKids, denoteRelKids]
  | k :: ks, here, i, h, hr => by
    simp only [noRefKids, Bool.and_eq_true] at hr
    simp only [itemsKids, denoteRelKids, List.flatMap_append]
    rw [items_rel base doc k (here ++ [i]) (kidsAt_head h) hr.1, itemsKids_rel base doc ks here (i + 1) (kidsAt_tail h) hr.2]
end

theorem denote_eq_rel (base : Str) (doc : Tree) (h : noRef doc = true) : denote base doc = denoteRel base [] doc :=
  items_rel base doc doc [] (nodeAt_nil doc) h

/-- documents without itemref: the streaming order is a permutation of the denotation -/
theorem swP_perm_denote (base : Str) (doc : Tree) (h : noRef doc = true) :
    (swP base none [] doc).Perm (denote base doc) := by
  rw [denote_eq_rel base doc h]; exact swP_perm_top base doc

end RdfModel.Mdd.Stream
