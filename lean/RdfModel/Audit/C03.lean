/-
  Audit for C03: axioms used by every property theorem of Props/C03.lean and Props/C03Tables.lean
  (expected: a subset of {propext, Classical.choice, Quot.sound}), and the output-shape theorems
  instantiated at the regenerated tables on the non-vacuity witness.
-/
import RdfModel.Props.C03
import RdfModel.Props.C03Tables
import RdfModel.Props.C03Relabel
import RdfModel.Props.C04Facts
open RdfModel RdfModel.C03 RdfModel.C04

#print axioms RdfModel.C03.shape_of_result
#print axioms RdfModel.C03.issued_map_is_renaming
#print axioms RdfModel.C03.line_is_encoded_quad
#print axioms RdfModel.C03.original_index_correct
#print axioms RdfModel.C03.lines_sorted
#print axioms RdfModel.C03.lines_sorted_unique
#print axioms RdfModel.C03.parses_back
#print axioms RdfModel.C03.equal_output_isomorphic
#print axioms RdfModel.C03.first_degree_perm
#print axioms RdfModel.C03.first_degree_rename
#print axioms RdfModel.C03.first_degree_model
#print axioms RdfModel.C03.canon_invariant_simple
#print axioms RdfModel.C03.limit_never_wrong
#print axioms RdfModel.C03.spec_equivariant
#print axioms RdfModel.C03.heapPerms_renamed
#print axioms RdfModel.C03.canon_invariant_relabel
#print axioms RdfModel.C03.canon_invariant_of_order_invariant
#print axioms RdfModel.C03.canon_invariant_unique_partial
#print axioms RdfModel.C03.uniqueHash_of_allDistinct
#print axioms RdfModel.C03.gen_nquads_label
#print axioms RdfModel.C04.facts_loop_control
#print axioms RdfModel.C03.Witness.wf1
#print axioms RdfModel.C03.Witness.two_allDistinct

/-- On the witness dataset with the regenerated tables: any result is strictly sorted and parses back. -/
theorem RdfModel.C03.Witness.sorted_and_parses (H : Str → Str) (out : Rdfcanon.Out Nat)
    (h : Rdfcanon.canon Gen.nquads H Rdfcanon.defaultLimits id C04.Witness.quads = .ok out) :
    (out.lines.map (·.encoded)).Pairwise (fun a b => strLt a b = true) ∧
    ∃ qs' : List (Quad Nat), qs'.Perm C04.Witness.quads ∧
      NQ.run Gen.nquads (fun _ => true) .eof true out.bytes
        = (qs'.map (Quad.map (Proofs.C03.labelOf out)), .clean) := by
  have hs := shape_of_result Gen.nquads gen_nquads_canon H Rdfcanon.defaultLimits id C04.Witness.ordOK_id
    C04.Witness.quads C04.Witness.wf out h
  exact ⟨lines_sorted_unique Gen.nquads C01.gen_nquads_ok gen_nquads_canon gen_nquads_label _ _ out hs
      C04.Witness.wf Witness.wf1 Witness.nodup,
    parses_back Gen.nquads C01.gen_nquads_ok gen_nquads_canon gen_nquads_label _ _ out hs
      C04.Witness.wf Witness.wf1⟩

/-- The simple-case invariance on the two-node witness (identity "hash"): reversing Go's iteration
    order and swapping the two labels does not change the bytes, and a result exists. -/
theorem RdfModel.C03.Witness.two_invariant :
    ∃ out out', Rdfcanon.canon Gen.nquads (fun s => s) Rdfcanon.defaultLimits id Witness.two = .ok out ∧
      Rdfcanon.canon Gen.nquads (fun s => s) ⟨1, 0⟩ List.reverse
        (Witness.two.map (Quad.map (fun n => 1 - n))) = .ok out' ∧ out.bytes = out'.bytes := by
  -- the relabelling need only be injective: use an injective extension of n ↦ 1 - n on {0, 1}
  let σ : Nat → Nat := fun n => if n = 0 then 1 else if n = 1 then 0 else n
  have hσ : Function.Injective σ := by
    intro a b hab
    simp only [σ] at hab
    split at hab <;> split at hab <;> (try split at hab) <;> (try split at hab) <;> omega
  have hmap : Witness.two.map (Quad.map (fun n => 1 - n)) = Witness.two.map (Quad.map σ) := by
    simp [Witness.two, Quad.map, Term.map, σ, C04.Witness.p]
  rw [hmap]
  obtain ⟨out, out', h1, h2, h3, _⟩ := canon_invariant_simple Gen.nquads gen_nquads_canon (fun s => s) σ hσ
    Witness.two (Witness.two.map (Quad.map σ)) (List.Perm.refl _)
    (by intro q hq; simp only [Witness.two, List.mem_singleton] at hq; subst hq
        exact ⟨trivial, C04.Witness.iri_p, trivial, by intro g hg; cases hg⟩)
    Witness.two_allDistinct Rdfcanon.defaultLimits ⟨1, 0⟩ id List.reverse C04.Witness.ordOK_id
    C04.Witness.ordOK_reverse
  exact ⟨out, out', h1, h2, h3⟩

#print axioms RdfModel.C03.Witness.sorted_and_parses
#print axioms RdfModel.C03.Witness.two_invariant
