/-
  Proofs.C01Grammar — the encoder's output is accepted by the independent grammar recogniser.
-/
import RdfModel.Proofs.C01Enc
import RdfModel.Spec.NQuadsGrammar
namespace RdfModel.Proofs.C01
open RdfModel RdfModel.NQ RdfModel.C01
open RdfModel.Spec

variable {β : Type}

theorem iriref_raw (c : Nat) (r : List Nat) (h : iriRawOK c) : NQG.iriref (c :: r) = NQG.iriref r := by
  unfold iriRawOK at h
  rw [NQG.iriref.eq_def]
  split
  · simp at *
  · next heq => simp only [List.cons.injEq] at heq; omega
  · next heq => simp only [List.cons.injEq] at heq; omega
  · next heq => simp only [List.cons.injEq] at heq; omega
  · next heq => simp only [List.cons.injEq] at heq; omega
  · next heq =>
    simp only [List.cons.injEq] at heq
    obtain ⟨rfl, rfl⟩ := heq
    rw [if_neg]
    simp only [Bool.or_eq_true, decide_eq_true_eq]
    omega

theorem stringLit_raw (c : Nat) (r : List Nat) (h1 : c ≠ 0x22) (h2 : c ≠ 0x5c) (h3 : c ≠ 0x0a)
    (h4 : c ≠ 0x0d) : NQG.stringLit (c :: r) = NQG.stringLit r := by
  rw [NQG.stringLit.eq_def]
  split
  · simp at *
  · next heq => simp only [List.cons.injEq] at heq; omega
  · next heq => simp only [List.cons.injEq] at heq; omega
  · next heq => simp only [List.cons.injEq] at heq; omega
  · next heq => simp only [List.cons.injEq] at heq; omega
  · next heq => simp only [List.cons.injEq] at heq; omega
  · next heq =>
    simp only [List.cons.injEq] at heq
    obtain ⟨rfl, rfl⟩ := heq
    rw [if_neg]
    simp only [Bool.or_eq_true, decide_eq_true_eq]
    omega

theorem stringLit_echar (x : Nat) (r : List Nat)
    (hx : x = 0x74 ∨ x = 0x62 ∨ x = 0x6e ∨ x = 0x72 ∨ x = 0x66 ∨ x = 0x22 ∨ x = 0x27 ∨ x = 0x5c) :
    NQG.stringLit (0x5c :: x :: r) = NQG.stringLit r := by
  rcases hx with rfl | rfl | rfl | rfl | rfl | rfl | rfl | rfl <;> simp [NQG.stringLit, NQG.isEcharLetter]

theorem isHex_hexUpper (d : Nat) (hd : d < 16) : NQG.isHex (hexUpper d) = true := by
  unfold NQG.isHex hexUpper
  simp only [Bool.or_eq_true, Bool.and_eq_true, decide_eq_true_eq]
  split <;> omega

theorem iriref_u4 (c : Nat) (r : List Nat) :
    NQG.iriref (0x5c :: 0x75 :: (hex4 c ++ r)) = NQG.iriref r := by
  simp only [hex4, List.cons_append, List.nil_append]
  rw [NQG.iriref]
  simp [isHex_hexUpper _ (Nat.mod_lt _ (by decide : 16 > 0))]


theorem iriref_u8 (c : Nat) (r : List Nat) :
    NQG.iriref (0x5c :: 0x55 :: (hex8 c ++ r)) = NQG.iriref r := by
  simp only [hex8, List.cons_append, List.nil_append]
  rw [NQG.iriref]
  simp [isHex_hexUpper _ (Nat.mod_lt _ (by decide : 16 > 0)),
    isHex_hexUpper (c / 268435456 % 8) (by omega)]

theorem stringLit_u4 (c : Nat) (r : List Nat) :
    NQG.stringLit (0x5c :: 0x75 :: (hex4 c ++ r)) = NQG.stringLit r := by
  simp only [hex4, List.cons_append, List.nil_append]
  rw [NQG.stringLit]
  simp [isHex_hexUpper _ (Nat.mod_lt _ (by decide : 16 > 0))]

theorem stringLit_u8 (c : Nat) (r : List Nat) :
    NQG.stringLit (0x5c :: 0x55 :: (hex8 c ++ r)) = NQG.stringLit r := by
  simp only [hex8, List.cons_append, List.nil_append]
  rw [NQG.stringLit]
  simp [isHex_hexUpper _ (Nat.mod_lt _ (by decide : 16 > 0)),
    isHex_hexUpper (c / 268435456 % 8) (by omega)]

theorem escIRIRune_cases (T : Tables) (hT : TablesOK T) (a : Bool) (c : Nat) :
    (escIRIRune T a c = [c] ∧ iriRawOK c) ∨ escIRIRune T a c = 0x5c :: 0x75 :: hex4 c ∨
      escIRIRune T a c = 0x5c :: 0x55 :: hex8 c := by
  have hm := hT.iri_mode a c
  obtain h0 | h1 | h2 : lookup (T.iriEsc a) 0 c = 0 ∨ lookup (T.iriEsc a) 0 c = 1 ∨
      lookup (T.iriEsc a) 0 c = 2 := by omega
  · exact Or.inl ⟨by simp [escIRIRune, h0], hT.iri_raw a c h0⟩
  · exact Or.inr (Or.inl (by simp [escIRIRune, h1]))
  · exact Or.inr (Or.inr (by simp [escIRIRune, h2]))

theorem iriref_body (T : Tables) (hT : TablesOK T) (a : Bool) (s rest : List Nat) :
    NQG.iriref (iriBody T a s ++ 0x3e :: rest) = some rest := by
  induction s with
  | nil => simp [iriBody, NQG.iriref]
  | cons c s ih =>
    simp only [iriBody, List.flatMap_cons, List.append_assoc] at ih ⊢
    rcases escIRIRune_cases T hT a c with ⟨h, hr⟩ | h | h <;> rw [h]
    · simp only [List.cons_append, List.nil_append]
      rw [iriref_raw c _ hr, ih]
    · simp only [List.cons_append]
      rw [iriref_u4, ih]
    · simp only [List.cons_append]
      rw [iriref_u8, ih]

theorem echar_letter {x c : Nat} (h : echarDecode x = some c) :
    (x = 0x74 ∨ x = 0x62 ∨ x = 0x6e ∨ x = 0x72 ∨ x = 0x66 ∨ x = 0x22 ∨ x = 0x27 ∨ x = 0x5c) := by
  unfold echarDecode at h
  repeat' split at h
  all_goals first | omega | (simp at h)

theorem escLitRune_cases (T : Tables) (hT : TablesOK T) (hG : TablesGrammar T) (a : Bool) (c : Nat) :
    (escLitRune T a c = [c] ∧ c ≠ 0x22 ∧ c ≠ 0x5c ∧ c ≠ 0x0a ∧ c ≠ 0x0d) ∨
    (∃ x, escLitRune T a c = [0x5c, x] ∧
      (x = 0x74 ∨ x = 0x62 ∨ x = 0x6e ∨ x = 0x72 ∨ x = 0x66 ∨ x = 0x22 ∨ x = 0x27 ∨ x = 0x5c)) ∨
    escLitRune T a c = 0x5c :: 0x75 :: hex4 c ∨
    escLitRune T a c = 0x5c :: 0x55 :: hex8 c := by
  have hm := hT.lit_mode a c
  obtain h0 | h1 | h2 | h3 : lookup (T.litEsc a) 0 c = 0 ∨ lookup (T.litEsc a) 0 c = 1 ∨
      lookup (T.litEsc a) 0 c = 2 ∨ lookup (T.litEsc a) 0 c = 3 := by omega
  · have h1 := hT.lit_raw a c h0
    have h2 := hG.lit_raw_eol a c h0
    exact Or.inl ⟨by simp [escLitRune, h0], h1.1, h1.2, h2.1, h2.2⟩
  · exact Or.inr (Or.inl ⟨_, by simp [escLitRune, h1], echar_letter (hT.lit_echar a c h1)⟩)
  · exact Or.inr (Or.inr (Or.inl (by simp [escLitRune, h2])))
  · exact Or.inr (Or.inr (Or.inr (by simp [escLitRune, h3])))

theorem stringLit_body (T : Tables) (hT : TablesOK T) (hG : TablesGrammar T) (a : Bool)
    (s rest : List Nat) :
    NQG.stringLit (litBody T a s ++ 0x22 :: rest) = some rest := by
  induction s with
  | nil => simp [litBody, NQG.stringLit]
  | cons c s ih =>
    simp only [litBody, List.flatMap_cons, List.append_assoc] at ih ⊢
    rcases escLitRune_cases T hT hG a c with ⟨h, h1, h2, h3, h4⟩ | ⟨x, h, hx⟩ | h | h <;> rw [h]
    · simp only [List.cons_append, List.nil_append]
      rw [stringLit_raw c _ h1 h2 h3 h4, ih]
    · simp only [List.cons_append, List.nil_append]
      rw [stringLit_echar x _ hx, ih]
    · simp only [List.cons_append]
      rw [stringLit_u4, ih]
    · simp only [List.cons_append]
      rw [stringLit_u8, ih]

/-! ### language tags -/

theorem langSub_ok (rest : List Nat) (t : List Nat) :
    ∀ need, langRest t need = true →
      NQG.langSub (t ++ 0x20 :: rest) need = some (0x20 :: rest) := by
  induction t with
  | nil =>
    intro need h
    have hn : need = false := by simpa [langRest] using h
    subst hn
    simp [NQG.langSub, NQG.isAlpha, NQG.isDigit]
  | cons x t ih =>
    intro need h
    unfold langRest at h
    simp only [List.cons_append]
    unfold NQG.langSub
    have e1 : NQG.isAlpha x = isAlpha x := rfl
    have e2 : NQG.isDigit x = isDigit x := rfl
    rw [e1, e2]
    split at h
    · next hx => rw [if_pos hx]; exact ih false h
    · next hx =>
      rw [if_neg hx]
      split at h
      · next hd =>
        simp only [Bool.and_eq_true, Bool.not_eq_true'] at h
        rw [if_pos hd, h.1]
        simpa using ih true h.2
      · simp at h

theorem langtag_ok (rest : List Nat) (t : List Nat) :
    ∀ seen, langPrim t seen = true →
      NQG.langtag (t ++ 0x20 :: rest) seen = some (0x20 :: rest) := by
  induction t with
  | nil =>
    intro seen h
    have hn : seen = true := by simpa [langPrim] using h
    subst hn
    simp [NQG.langtag, NQG.isAlpha]
  | cons x t ih =>
    intro seen h
    unfold langPrim at h
    simp only [List.cons_append]
    unfold NQG.langtag
    have e1 : NQG.isAlpha x = isAlpha x := rfl
    rw [e1]
    split at h
    · next hx => rw [if_pos hx]; exact ih true h
    · next hx =>
      rw [if_neg hx]
      split at h
      · next hd =>
        simp only [Bool.and_eq_true] at h
        rw [if_pos hd, h.1]
        simpa using langSub_ok rest t true h.2
      · simp at h

/-! ### blank-node labels -/

theorem bnLabelBody_ok (T : Tables) (hT : TablesOK T) (rest : List Nat) (z : Nat)
    (hz : inRanges T.pnChars z = true) (xs : List Nat) :
    ∀ last, (∀ x ∈ xs, (inRanges T.pnChars x || x = 0x2e) = true) →
      NQG.bnLabelBody (inRanges T.pnChars) (xs ++ z :: 0x20 :: rest) last = some (0x20 :: rest) := by
  induction xs with
  | nil =>
    intro last _
    simp [NQG.bnLabelBody, hz, hT.pn_sp]
  | cons x xs ih =>
    intro last h
    simp only [List.cons_append]
    unfold NQG.bnLabelBody
    rw [if_pos (h x List.mem_cons_self)]
    exact ih _ (fun y hy => h y (List.mem_cons_of_mem _ hy))

theorem bnLabel_ok (T : Tables) (hT : TablesOK T) (l rest : List Nat) (hl : labelOK T l = true) :
    NQG.bnLabel (inRanges T.pnCharsU) (inRanges T.pnChars) (l ++ 0x20 :: rest)
      = some (0x20 :: rest) := by
  cases l with
  | nil => simp [labelOK] at hl
  | cons c xs =>
    simp only [labelOK, Bool.and_eq_true, List.all_eq_true] at hl
    obtain ⟨⟨h1, h2⟩, h3⟩ := hl
    have e2 : NQG.isDigit c = isDigit c := rfl
    simp only [List.cons_append, NQG.bnLabel]
    rw [e2, if_pos h1]
    rcases List.eq_nil_or_concat xs with rfl | ⟨init, z, rfl⟩
    · simp [NQG.bnLabelBody, hT.pn_sp]
    · have hz : inRanges T.pnChars z = true := by simpa using h3
      have := bnLabelBody_ok T hT rest z hz init none
        (fun x hx => h2 x (by simp [hx]))
      simpa using this

/-! ### terms -/

theorem node_ok (T : Tables) (hT : TablesOK T) (urlOk : List Nat → Bool) (a : Bool)
    (label : β → List Nat) (hl : LabelsOK T label) (t : Term β) (ht : WFNode urlOk t)
    (rest : List Nat) :
    NQG.node (inRanges T.pnCharsU) (inRanges T.pnChars) (nodeW T a label t ++ 0x20 :: rest)
      = some (0x20 :: rest) := by
  cases t with
  | iri v =>
    simp only [nodeW, writeIRI, List.cons_append, List.append_assoc, List.nil_append, NQG.node]
    exact iriref_body T hT a v _
  | bnode b =>
    simp only [nodeW, List.cons_append, NQG.node]
    exact bnLabel_ok T hT _ rest (hl.wf b)
  | lit l d t => exact ht.elim


theorem literal_ok (T : Tables) (hT : TablesOK T) (hG : TablesGrammar T) (urlOk : List Nat → Bool)
    (a : Bool) (lex dt : List Nat) (lang : Option (List Nat)) (h : WFLit urlOk lex dt lang)
    (rest : List Nat) :
    NQG.literal (writeLiteral T a lex dt lang ++ 0x20 :: rest) = some (0x20 :: rest) := by
  obtain ⟨_, _, hlang⟩ := h
  unfold writeLiteral
  simp only
  split
  · simp only [List.cons_append, List.append_assoc, List.nil_append, NQG.literal]
    rw [stringLit_body T hT hG]
    simp
  · split
    · next hl =>
      subst hl
      cases lang with
      | none => exact absurd rfl hlang.1
      | some t =>
        simp only [List.cons_append, List.append_assoc, List.nil_append, NQG.literal]
        rw [stringLit_body T hT hG]
        exact langtag_ok rest t false hlang.2
    · simp only [writeIRI, List.cons_append, List.append_assoc, List.nil_append, NQG.literal]
      rw [stringLit_body T hT hG]
      exact iriref_body T hT a dt _

theorem object_ok (T : Tables) (hT : TablesOK T) (hG : TablesGrammar T) (urlOk : List Nat → Bool)
    (a : Bool) (label : β → List Nat) (hl : LabelsOK T label) (t : Term β) (ht : WFObject urlOk t)
    (rest : List Nat) :
    NQG.object (inRanges T.pnCharsU) (inRanges T.pnChars) (objW T a label t ++ 0x20 :: rest)
      = some (0x20 :: rest) := by
  cases t with
  | iri v =>
    have := node_ok T hT urlOk a label hl (.iri v) ht rest
    simp only [objW, nodeW, writeIRI, List.cons_append] at this ⊢
    simpa [NQG.object] using this
  | bnode b =>
    have := node_ok T hT urlOk a label hl (.bnode b) trivial rest
    simp only [objW, nodeW, List.cons_append] at this ⊢
    simpa [NQG.object] using this
  | lit l d tg =>
    have := literal_ok T hT hG urlOk a l d tg ht rest
    obtain ⟨r, hr⟩ := writeLiteral_head T a l d tg
    simp only [objW]
    rw [hr] at this ⊢
    simpa [NQG.object] using this

theorem skipWs_sp (c : Nat) (r : List Nat) (hc : c = 0x22 ∨ c = 0x3c ∨ c = 0x5f ∨ c = 0x2e) :
    NQG.skipWs (0x20 :: c :: r) = c :: r := by
  rcases hc with rfl | rfl | rfl | rfl <;> simp [NQG.skipWs, NQG.isWs]

theorem skipWs_id (c : Nat) (r : List Nat) (hc : c = 0x22 ∨ c = 0x3c ∨ c = 0x5f ∨ c = 0x2e) :
    NQG.skipWs (c :: r) = c :: r := by
  rcases hc with rfl | rfl | rfl | rfl <;> simp [NQG.skipWs, NQG.isWs]

theorem line_nil (pnU pn : Nat → Bool) (quads : Bool) : NQG.line pnU pn quads [] = true := by
  simp [NQG.line, NQG.skipWs]

theorem line_ok (T : Tables) (hT : TablesOK T) (hG : TablesGrammar T) (urlOk : List Nat → Bool)
    (a : Bool) (label : β → List Nat) (hl : LabelsOK T label) (quads : Bool) (q : Quad β)
    (h : WFQuad urlOk q) :
    NQG.line (inRanges T.pnCharsU) (inRanges T.pnChars) quads (quadBody T a label quads q) = true := by
  obtain ⟨s, p, o, g⟩ := q
  have hs := h.s; have hp := h.p; have ho := h.o; have hg := h.g
  simp only at hs hp ho hg
  cases p with
  | bnode b => exact hp.elim
  | lit l d t => exact hp.elim
  | iri pv =>
  obtain ⟨cs, rs, hcs, hcs'⟩ := nodeW_head T a label urlOk s hs
  obtain ⟨co, ro, hco, hco'⟩ := objW_head T a label urlOk o ho
  have hnode := node_ok T hT urlOk a label hl s hs
  have hobj := object_ok T hT hG urlOk a label hl o ho
  rw [hcs] at hnode
  rw [hco] at hobj
  have hpw : nodeW T a label (Term.iri pv) = 0x3c :: (iriBody T a pv ++ [0x3e]) := rfl
  unfold NQG.line
  simp only [quadBody, hcs, hco, hpw, List.cons_append, List.append_assoc,
    List.nil_append] at hnode hobj ⊢
  rw [skipWs_id cs _ (by omega)]
  simp only []
  rw [hnode]
  simp only
  rw [skipWs_sp 0x3c _ (by omega)]
  simp only
  rw [iriref_body T hT a pv]
  simp only
  rw [skipWs_sp co _ (by omega)]
  have tail_dot : ∀ (r : List Nat), r = [] →
      NQG.skipWs (0x20 :: 0x2e :: r) = 0x2e :: r := fun r _ => skipWs_sp 0x2e r (by omega)
  cases quads with
  | false =>
    have : graphW T a label false g = [] := by cases g <;> simp [graphW]
    simp only [this, List.nil_append]
    rw [hobj]
    simp [NQG.skipWs, NQG.isWs]
  | true =>
    cases g with
    | none =>
      simp only [graphW, List.nil_append]
      rw [hobj]
      simp [NQG.skipWs, NQG.isWs]
    | some g =>
      have hg' := hg g rfl
      obtain ⟨cg, rg, hcg, hcg'⟩ := nodeW_head T a label urlOk g hg'
      have hgn := node_ok T hT urlOk a label hl g hg' [0x2e]
      simp only [graphW, if_true, List.cons_append]
      rw [hobj]
      rw [hcg] at hgn ⊢
      simp only [List.cons_append] at hgn ⊢
      rw [skipWs_sp cg _ (by omega)]
      rcases hcg' with rfl | rfl
      · simp only []
        rw [hgn]
        simp [NQG.skipWs, NQG.isWs]
      · simp only []
        rw [hgn]
        simp [NQG.skipWs, NQG.isWs]


/-! ### no line break inside a statement -/

def NoLF (l : List Nat) : Prop := ∀ c ∈ l, c ≠ 0x0a

@[simp] theorem NoLF_nil : NoLF [] := by simp [NoLF]
@[simp] theorem NoLF_cons (a : Nat) (l : List Nat) : NoLF (a :: l) ↔ a ≠ 0x0a ∧ NoLF l := by
  simp [NoLF]
@[simp] theorem NoLF_append (l m : List Nat) : NoLF (l ++ m) ↔ NoLF l ∧ NoLF m := by
  simp only [NoLF, List.mem_append]
  constructor
  · intro h; exact ⟨fun c hc => h c (Or.inl hc), fun c hc => h c (Or.inr hc)⟩
  · rintro ⟨h1, h2⟩ c (hc | hc); exact h1 c hc; exact h2 c hc

theorem NoLF_flatMap {α : Type} (f : α → List Nat) (l : List α) (h : ∀ x ∈ l, NoLF (f x)) :
    NoLF (l.flatMap f) := by
  induction l with
  | nil => simp
  | cons x l ih =>
    simp only [List.flatMap_cons, NoLF_append]
    exact ⟨h x List.mem_cons_self, ih (fun y hy => h y (List.mem_cons_of_mem _ hy))⟩

theorem hexUpper_ne_lf (d : Nat) : hexUpper d ≠ 0x0a := by
  unfold hexUpper; split <;> omega

theorem NoLF_hex4 (c : Nat) : NoLF (hex4 c) := by
  simp [hex4, hexUpper_ne_lf]

theorem NoLF_hex8 (c : Nat) : NoLF (hex8 c) := by
  simp [hex8, hexUpper_ne_lf]

theorem NoLF_writeIRI (T : Tables) (hT : TablesOK T) (a : Bool) (s : List Nat) :
    NoLF (writeIRI T a s) := by
  simp only [writeIRI, NoLF_cons, NoLF_append, NoLF_nil, iriBody]
  refine ⟨by omega, NoLF_flatMap _ _ (fun c _ => ?_), by omega, trivial⟩
  rcases escIRIRune_cases T hT a c with ⟨h, hr⟩ | h | h <;> rw [h]
  · unfold iriRawOK at hr; simp only [NoLF_cons, NoLF_nil, and_true]; omega
  · simp [NoLF_hex4]
  · simp [NoLF_hex8]

theorem NoLF_litBody (T : Tables) (hT : TablesOK T) (hG : TablesGrammar T) (a : Bool) (s : List Nat) :
    NoLF (litBody T a s) := by
  refine NoLF_flatMap _ _ (fun c _ => ?_)
  rcases escLitRune_cases T hT hG a c with ⟨h, h1, h2, h3, h4⟩ | ⟨x, h, hx⟩ | h | h <;> rw [h]
  · simp [h3]
  · simp only [NoLF_cons, NoLF_nil, and_true]; omega
  · simp [NoLF_hex4]
  · simp [NoLF_hex8]

theorem langRest_noLF (t : List Nat) : ∀ need, langRest t need = true → NoLF t := by
  induction t with
  | nil => intro _ _; simp
  | cons x t ih =>
    intro need h
    unfold langRest at h
    simp only [NoLF_cons]
    split at h
    · next hx =>
      refine ⟨?_, ih _ h⟩
      simp only [isAlpha, isDigit, Bool.or_eq_true, Bool.and_eq_true, decide_eq_true_eq] at hx
      omega
    · split at h
      · next hd =>
        simp only [Bool.and_eq_true] at h
        exact ⟨by omega, ih _ h.2⟩
      · simp at h

theorem langPrim_noLF (t : List Nat) : ∀ seen, langPrim t seen = true → NoLF t := by
  induction t with
  | nil => intro _ _; simp
  | cons x t ih =>
    intro seen h
    unfold langPrim at h
    simp only [NoLF_cons]
    split at h
    · next hx =>
      refine ⟨?_, ih _ h⟩
      simp only [isAlpha, Bool.or_eq_true, Bool.and_eq_true, decide_eq_true_eq] at hx
      omega
    · split at h
      · next hd =>
        simp only [Bool.and_eq_true] at h
        exact ⟨by omega, langRest_noLF _ _ h.2⟩
      · simp at h

theorem NoLF_writeLiteral (T : Tables) (hT : TablesOK T) (hG : TablesGrammar T)
    (urlOk : List Nat → Bool) (a : Bool)
    (lex dt : List Nat) (lang : Option (List Nat)) (h : WFLit urlOk lex dt lang) :
    NoLF (writeLiteral T a lex dt lang) := by
  obtain ⟨_, _, hlang⟩ := h
  have hq : NoLF (0x22 :: (litBody T a lex ++ [0x22])) := by
    simp only [NoLF_cons, NoLF_append, NoLF_nil]
    exact ⟨by omega, NoLF_litBody T hT hG a lex, by omega, trivial⟩
  unfold writeLiteral
  simp only
  split
  · exact hq
  · split
    · cases lang with
      | none => exact hq
      | some t =>
        refine (NoLF_append _ _).2 ⟨hq, ?_⟩
        simp only [NoLF_cons]
        exact ⟨by omega, langPrim_noLF t false hlang.2⟩
    · refine (NoLF_append _ _).2 ⟨hq, ?_⟩
      simp only [NoLF_cons]
      exact ⟨by omega, by omega, NoLF_writeIRI T hT a dt⟩

theorem NoLF_label (T : Tables) (hG : TablesGrammar T) (l : List Nat) (hl : labelOK T l = true) :
    NoLF l := by
  cases l with
  | nil => simp
  | cons c xs =>
    simp only [labelOK, Bool.and_eq_true, List.all_eq_true] at hl
    obtain ⟨⟨h1, h2⟩, _⟩ := hl
    simp only [NoLF_cons]
    constructor
    · intro hc; subst hc
      simp [hG.pnU_lf, isDigit] at h1
    · intro x hx hc
      subst hc
      have := h2 _ hx
      simp [hG.pn_lf] at this

theorem NoLF_nodeW (T : Tables) (hT : TablesOK T) (hG : TablesGrammar T)
    (a : Bool) (label : β → List Nat) (hl : LabelsOK T label) (t : Term β) :
    NoLF (nodeW T a label t) := by
  cases t with
  | iri v => exact NoLF_writeIRI T hT a v
  | bnode b =>
    simp only [nodeW, NoLF_cons]
    exact ⟨by omega, by omega, NoLF_label T hG _ (hl.wf b)⟩
  | lit l d t => simp [nodeW]

theorem NoLF_objW (T : Tables) (hT : TablesOK T) (hG : TablesGrammar T) (urlOk : List Nat → Bool)
    (a : Bool) (label : β → List Nat) (hl : LabelsOK T label) (t : Term β) (ht : WFObject urlOk t) :
    NoLF (objW T a label t) := by
  cases t with
  | iri v => exact NoLF_nodeW T hT hG a label hl (.iri v)
  | bnode b => exact NoLF_nodeW T hT hG a label hl (.bnode b)
  | lit l d tg => exact NoLF_writeLiteral T hT hG urlOk a l d tg ht

theorem NoLF_quadBody (T : Tables) (hT : TablesOK T) (hG : TablesGrammar T) (urlOk : List Nat → Bool)
    (a : Bool) (label : β → List Nat) (hl : LabelsOK T label) (quads : Bool) (q : Quad β)
    (h : WFQuad urlOk q) : NoLF (quadBody T a label quads q) := by
  have hg : NoLF (graphW T a label quads q.g) := by
    unfold graphW
    split
    · split
      · simp only [NoLF_cons]; exact ⟨by omega, NoLF_nodeW T hT hG a label hl _⟩
      · simp
    · simp
  simp only [quadBody, NoLF_append, NoLF_cons, NoLF_nil, and_true]
  exact ⟨NoLF_nodeW T hT hG a label hl _, by omega, NoLF_nodeW T hT hG a label hl _,
    by omega, NoLF_objW T hT hG urlOk a label hl _ h.o, hg, by omega, by omega⟩

theorem quadBody_getLast (T : Tables) (a : Bool) (label : β → List Nat) (quads : Bool) (q : Quad β) :
    (quadBody T a label quads q).getLast? = some 0x2e := by
  have : quadBody T a label quads q =
      (nodeW T a label q.s ++ 0x20 :: (nodeW T a label q.p ++ 0x20 ::
        (objW T a label q.o ++ (graphW T a label quads q.g ++ [0x20])))) ++ [0x2e] := by
    simp [quadBody]
  rw [this, List.getLast?_append]
  simp

/-- The output is grammatical. -/
theorem output_grammatical (T : Tables) (hT : TablesOK T) (hG : TablesGrammar T) (urlOk : List Nat → Bool)
    (ascii : Bool) (label : β → List Nat) (hl : LabelsOK T label) (quads : Bool) (qs : List (Quad β))
    (hwf : ∀ q ∈ qs, WFQuad urlOk q) :
    Spec.NQG.accepts (inRanges T.pnCharsU) (inRanges T.pnChars) quads
      (encodeDoc T ascii label quads qs) = true := by
  unfold NQG.accepts NQG.splitLines
  induction qs with
  | nil =>
    simp [encodeDoc_nil, List.splitOn_eq_splitOnP, List.splitOnP_nil, line_nil]
  | cons q qs ih =>
    have hq := hwf q List.mem_cons_self
    have hnl := NoLF_quadBody T hT hG urlOk ascii label hl quads q hq
    rw [encodeDoc_cons_wf T ascii label urlOk quads q qs hq, List.splitOn_eq_splitOnP,
      List.splitOnP_append_cons_of_forall_mem (by
        intro x hx; have := hnl x hx; simpa using this) 0x0a (by simp)]
    rw [List.all_cons, ← List.splitOn_eq_splitOnP,
      ih (fun x hx => hwf x (List.mem_cons_of_mem _ hx))]
    simp [quadBody_getLast, line_ok T hT hG urlOk ascii label hl quads q hq]

end RdfModel.Proofs.C01
