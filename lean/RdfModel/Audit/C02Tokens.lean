/-
  Audit for the token layer of C02 / C07 / C08 (Turtle, TriG): axioms used by every theorem of
  Props/C02Tokens.lean, Props/C02TokensTables.lean, Props/C07Tables.lean, Props/C08Tokens.lean
  (expected: a subset of {propext, Classical.choice, Quot.sound}), plus the round-trip theorems
  instantiated at the regenerated tables.
-/
import RdfModel.Props.C02Tokens
import RdfModel.Props.C02TokensTables
import RdfModel.Props.C07Tables
import RdfModel.Props.C08Tokens
import RdfModel.Props.C07Tokens
open RdfModel RdfModel.Ttl RdfModel.C02

#print axioms RdfModel.C02.iriref_roundtrip
#print axioms RdfModel.C02.string_roundtrip
#print axioms RdfModel.C02.pname_roundtrip
#print axioms RdfModel.C02.shorthand_sound
#print axioms RdfModel.C02.shorthand_datatypes
#print axioms RdfModel.C02.langtag_roundtrip
#print axioms RdfModel.C02.bnode_roundtrip
#print axioms RdfModel.C02.produceIRIREF_no_panic
#print axioms RdfModel.C02.produceString_no_panic
#print axioms RdfModel.C02.producePNAME_NS_no_panic
#print axioms RdfModel.C02.producePrefixedName_no_panic
#print axioms RdfModel.C02.produceBlankNode_no_panic
#print axioms RdfModel.C02.produceLANGTAG_no_panic
#print axioms RdfModel.C02.produceNumericLiteral_no_panic
#print axioms RdfModel.C02.gen_turtle_ok
#print axioms RdfModel.C02.gen_trig_ok
#print axioms RdfModel.C02.gen_localEsc_consistent
#print axioms RdfModel.C02.d4_witness
#print axioms RdfModel.C02.d5_witness
#print axioms RdfModel.C02.d6_witness
#print axioms RdfModel.C07.tables_agree
#print axioms RdfModel.C07.hexDecode_same
#print axioms RdfModel.C07.nt_iriref_sub_ttl
#print axioms RdfModel.C07.nt_string_sub_ttl
#print axioms RdfModel.C08.decode_print_iriref
#print axioms RdfModel.C08.decode_print_string
#print axioms RdfModel.C08.decode_print_pname
#print axioms RdfModel.C08.decode_print_pname_ns
#print axioms RdfModel.C08.decode_print_numeric
#print axioms RdfModel.C08.decode_print_boolean
#print axioms RdfModel.C08.decode_print_langtag
#print axioms RdfModel.C08.decode_print_bnode

/-- The prefixed-name round trip at the regenerated tables of both packages, on a local name that
    exercises every escaping rule (leading '-', inner '.', '%', ':', '~', final '.'). -/
theorem RdfModel.C02.Witness.pname (e : End) :
    ∃ out, format_PN_LOCAL Gen.turtle (asc "-a.b%c:~d.") = some out ∧
      producePrefixedName Gen.trig e (asc "ex" ++ 0x3a :: (out ++ [0x20, 0x2e])) =
        .ok (asc "ex", asc "-a.b%c:~d.") [0x20, 0x2e] := by
  obtain ⟨out, h1, h2⟩ := pname_roundtrip Gen.trig gen_trig_ok e (asc "ex") (asc "-a.b%c:~d.") [0x20, 0x2e]
    (by decide) (fun c hc => (isScalarB_iff c).1 (List.all_eq_true.1 (by decide : (asc "ex").all isScalarB = true) c hc))
    (fun c hc => (isScalarB_iff c).1 (List.all_eq_true.1 (by decide : (asc "-a.b%c:~d.").all isScalarB = true) c hc))
    (by decide) (by simp only [LocalStop]; decide)
  exact ⟨out, h1, h2⟩

#print axioms RdfModel.C02.Witness.pname
