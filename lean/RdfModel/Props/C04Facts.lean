/-
  Property C03/C04 — T2: the structural facts extracted from /repo/rdfcanon/*.go on this run
  (Gen/CanonFacts.lean, go/ast) agree with the constants and conditions the hand-written model
  (Model/Rdfcanon.lean) uses.  Each theorem is `decide` on generated data against a hand-written
  expectation; an edit of the Go code that changes a placeholder label, a limit, a comparison, the
  Clone of an issuer, a sort comparator or the related-hash input makes one of them fail.
-/
import RdfModel.Model.Rdfcanon
import RdfModel.Gen.CanonFacts
namespace RdfModel.C04
open RdfModel RdfModel.Gen

/-- `_:a` for the reference node, `_:z` for every other blank node (subject, object; graph with a
    leading space). -/
theorem facts_first_degree_labels :
    CanonFacts.firstDegreeLabels = [" _:a", " _:z", "_:a", "_:a", "_:z", "_:z"] ∧
    Rdfcanon.selfLabel = asc "_:a" ∧ Rdfcanon.otherLabel = asc "_:z" := by decide

/-- Related-hash input: position, then (unless `g`) the already bracketed predicate (D8), then `_:` +
    identifier or the first-degree hash; no other literal is concatenated. -/
theorem facts_related_input :
    CanonFacts.relatedCond = "a.position != \"g\"" ∧
    CanonFacts.relatedAppend = "a.quad.PredicateEncoded" ∧
    CanonFacts.relatedLiterals = ["_:", "_:", "g"] ∧
    CanonFacts.positions = ["s", "o", "g"] := by decide

/-- The two work limits and where they are tested. -/
theorem facts_limits :
    CanonFacts.maxPermutations = Rdfcanon.defaultLimits.maxPermutations ∧
    CanonFacts.maxRecursionDepth = Rdfcanon.defaultLimits.maxRecursionDepth ∧
    CanonFacts.limitTests = ["a.maxRecursionDepth < 0",
      "permutationIdx > a.canonicalizationState.maxPermutations"] := by decide

/-- Path pruning (twice) and the final choice of the chosen path. -/
theorem facts_path_conditions :
    CanonFacts.pruneConds =
      ["len(chosenPath) > 0 && (len(path) >= len(chosenPath)) && (strings.Compare(path, chosenPath) > 0)",
       "len(chosenPath) > 0 && (len(path) >= len(chosenPath)) && (strings.Compare(path, chosenPath) > 0)"] ∧
    CanonFacts.chooseCond = "len(chosenPath) == 0 || (strings.Compare(path, chosenPath) < 0)" := by decide

/-- Issuers: a clone copies map and order (D9: and counts on its own); identifier prefixes. -/
theorem facts_issuer :
    CanonFacts.cloneKnown = "maps.Clone(i.knownIdentifiers)" ∧
    CanonFacts.cloneOrder = "slices.Clone(i.issuedOrder)" ∧
    CanonFacts.tempIdentifier = "i.prefix + strconv.Itoa(len(i.issuedOrder))" ∧
    CanonFacts.c14nFormat = "c14n%d" ∧ Rdfcanon.c14nPrefix = asc "c14n" ∧
    CanonFacts.tempPrefix = "b" ∧ Rdfcanon.tempPrefix = asc "b" := by decide

/-- Every sort is ascending by `strings.Compare` / `bytes.Compare` on the expected key. -/
theorem facts_sorts :
    CanonFacts.sortCalls =
      ["orderedHashes by strings.Compare", "orderedHashes by strings.Compare",
       "hashPathList by func(a, b algorithmHashNDegreeQuadsResult) int { return strings.Compare(a.hash, b.hash) }",
       "cres.nquads by func(i, j canonicalizedQuad) int { return bytes.Compare(i.encoded, j.encoded) }",
       "nquadsList by strings.Compare", "orderedRelatedHashes by strings.Compare"] := by decide

/-- Loop control: step 4.1 and step 5.2.1 `continue` to the next entry (never `break`: the model's
    `hashPathList` skips an already labelled node and goes on with the rest of the identifier list); the
    two prunings jump to the next permutation; there is no other `break`/`continue`/`goto`. -/
theorem facts_loop_control :
    CanonFacts.loopBranches =
      ["len(a.canonicalizationState.hashToBlankNodes[hash]) > 1 => continue",
       "_, ok := a.canonicalizationState.canonicalIssuer.GetBlankNodeStringIfKnown(n); ok => continue",
       "len(chosenPath) > 0 && (len(path) >= len(chosenPath)) && (strings.Compare(path, chosenPath) > 0) => goto PERMUTATION_NEXT",
       "len(chosenPath) > 0 && (len(path) >= len(chosenPath)) && (strings.Compare(path, chosenPath) > 0) => goto PERMUTATION_NEXT"] ∧
    CanonFacts.otherBranches = 0 := by decide

end RdfModel.C04
