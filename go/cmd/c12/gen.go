package main

// Grammar-directed generators for RFC 3987 IRIs / IRI references and an RFC 3987 recogniser.

import (
	"strings"
	"unicode/utf8"

	"verifharness/vh"
)

// ---------------------------------------------------------------- RFC 3987 recogniser

func isAlpha(c byte) bool { return 'a' <= c && c <= 'z' || 'A' <= c && c <= 'Z' }
func isDigit(c byte) bool { return '0' <= c && c <= '9' }
func isHex(c byte) bool   { return isDigit(c) || 'a' <= c && c <= 'f' || 'A' <= c && c <= 'F' }

func isUcschar(r rune) bool {
	switch {
	case 0xA0 <= r && r <= 0xD7FF, 0xF900 <= r && r <= 0xFDCF, 0xFDF0 <= r && r <= 0xFFEF:
		return true
	case 0x10000 <= r && r <= 0xEFFFD:
		return r&0xFFFF <= 0xFFFD
	}
	return false
}
func isIprivate(r rune) bool {
	return 0xE000 <= r && r <= 0xF8FF || 0xF0000 <= r && r <= 0xFFFFD || 0x100000 <= r && r <= 0x10FFFD
}

// validChars: s consists of iunreserved / pct-encoded / sub-delims / extra (/ iprivate when priv).
func validChars(s string, extra string, priv bool) bool {
	for i := 0; i < len(s); {
		c := s[i]
		switch {
		case c == '%':
			if i+2 >= len(s) || !isHex(s[i+1]) || !isHex(s[i+2]) {
				return false
			}
			i += 3
			continue
		case c < 0x80:
			if !(isAlpha(c) || isDigit(c) || strings.IndexByte("-._~!$&'()*+,;=", c) >= 0 || strings.IndexByte(extra, c) >= 0) {
				return false
			}
			i++
		default:
			r, n := utf8.DecodeRuneInString(s[i:])
			if r == utf8.RuneError && n <= 1 {
				return false
			}
			if !(isUcschar(r) || priv && isIprivate(r)) {
				return false
			}
			i += n
		}
	}
	return true
}

func validScheme(s string) bool {
	if s == "" || !isAlpha(s[0]) {
		return false
	}
	for i := 1; i < len(s); i++ {
		if !(isAlpha(s[i]) || isDigit(s[i]) || s[i] == '+' || s[i] == '-' || s[i] == '.') {
			return false
		}
	}
	return true
}

func validIPv4(s string) bool {
	f := strings.Split(s, ".")
	if len(f) != 4 {
		return false
	}
	for _, o := range f {
		if o == "" || len(o) > 3 || (len(o) > 1 && o[0] == '0') {
			return false
		}
		n := 0
		for i := 0; i < len(o); i++ {
			if !isDigit(o[i]) {
				return false
			}
			n = n*10 + int(o[i]-'0')
		}
		if n > 255 {
			return false
		}
	}
	return true
}

func validIPv6(s string) bool {
	h16 := func(g string) bool {
		if g == "" || len(g) > 4 {
			return false
		}
		for i := 0; i < len(g); i++ {
			if !isHex(g[i]) {
				return false
			}
		}
		return true
	}
	groups := func(t string, allowV4 bool) (int, bool) { // number of 16-bit pieces
		if t == "" {
			return 0, true
		}
		f := strings.Split(t, ":")
		n := 0
		for i, g := range f {
			if allowV4 && i == len(f)-1 && strings.Contains(g, ".") {
				if !validIPv4(g) {
					return 0, false
				}
				n += 2
			} else if h16(g) {
				n++
			} else {
				return 0, false
			}
		}
		return n, true
	}
	if i := strings.Index(s, "::"); i >= 0 {
		a, ok1 := groups(s[:i], false)
		b, ok2 := groups(s[i+2:], true)
		return ok1 && ok2 && a+b <= 7
	}
	n, ok := groups(s, true)
	return ok && n == 8
}

func validIPLiteral(s string) bool { // without brackets
	if len(s) >= 4 && (s[0] == 'v' || s[0] == 'V') {
		i := 1
		for i < len(s) && isHex(s[i]) {
			i++
		}
		if i == 1 || i >= len(s) || s[i] != '.' || i+1 >= len(s) {
			return false
		}
		for _, c := range []byte(s[i+1:]) {
			if !(isAlpha(c) || isDigit(c) || strings.IndexByte("-._~!$&'()*+,;=:", c) >= 0) {
				return false
			}
		}
		return true
	}
	return validIPv6(s)
}

func validAuthority(a string) bool {
	if i := strings.IndexByte(a, '@'); i >= 0 {
		if !validChars(a[:i], ":", false) {
			return false
		}
		a = a[i+1:]
	}
	host := a
	if strings.HasPrefix(a, "[") {
		j := strings.IndexByte(a, ']')
		if j < 0 || !validIPLiteral(a[1:j]) {
			return false
		}
		host, a = "", a[j+1:]
		if a == "" {
			return true
		}
		if a[0] != ':' {
			return false
		}
		a = a[1:]
	} else if i := strings.LastIndexByte(a, ':'); i >= 0 {
		host, a = a[:i], a[i+1:]
	} else {
		a = ""
	}
	for i := 0; i < len(a); i++ {
		if !isDigit(a[i]) {
			return false
		}
	}
	return validChars(host, "", false)
}

// validIRIRef reports whether s is an RFC 3987 IRI-reference (abs: an IRI, i.e. with scheme).
func validIRIRef(s string, abs bool) bool {
	if !utf8.ValidString(s) {
		return false
	}
	p := rfcSplit(s)
	if p.hasScheme && !validScheme(p.scheme) {
		// "1a:b" is not an IRI; as a relative reference its first segment would contain ':'
		return false
	}
	if abs && !p.hasScheme {
		return false
	}
	if p.hasAuthority {
		if !validAuthority(p.authority) {
			return false
		}
		if p.path != "" && p.path[0] != '/' {
			return false
		}
	} else if strings.HasPrefix(p.path, "//") {
		return false
	}
	if !p.hasScheme && !p.hasAuthority { // path-noscheme: no ':' in the first segment
		seg, _, _ := strings.Cut(p.path, "/")
		if strings.Contains(seg, ":") {
			return false
		}
	}
	return validChars(p.path, ":@/", false) && validChars(p.query, ":@/?", true) && validChars(p.fragment, ":@/?", false)
}

// ---------------------------------------------------------------- generators

var (
	schemesHier   = []string{"http", "https", "file", "ftp", "ex", "a", "x-y.z+1"}
	schemesOpaque = []string{"urn", "mailto", "tag", "x", "data", "a1"}
	schemesUpper  = []string{"HTTP", "Http", "URN", "X", "fILE", "A"}
	regNames      = []string{"example.org", "a", "e.com", "h", "a.b", "192.0.2.1", "xn--bcher-kva.example", "", "a-b_c~d", "a!$&'()*+,;=b", "A.EXAMPLE"}
	regNamesExot  = []string{"é.example", "日本", "a%20b", "%C3%A9", "%c3%a9.x", "a%2Fb", "%41", "\U0001F41B", "e%25"}
	ipLiterals    = []string{"[::1]", "[2001:db8::7]", "[::ffff:192.0.2.1]", "[1:2:3:4:5:6:7:8]", "[::]", "[v1.a]", "[vF.a:b]", "[2001:DB8::A]"}
	userinfos     = []string{"u", "u:p", "", ":", "a%40b", "%41", "u;v=1", "é", "a:b:c", "%c3%a9", "u!$&'()*+,;="}
	ports         = []string{"", "80", "0", "8080", "00080", "65536"}
	segPool       = []string{"", "", ".", ".", "..", "..", "a", "b", "c", "a.b", "..a", "a..", "...", ".a", "%2e", "%2E", "%2e%2E", ".%2e", "%41", "%7e", "%7E", "~", "a%2Fb", "a%2fb", "%20", "%25", "é", "%C3%A9", "%c3%a9", "日本", "a:b", ":", "@", "a@b", "a;b=1", "(x)", "a,b", "a+b", "*", "!", "$&'", "A", "a=b", "\U0001F41B", "%00", "%e9", "-", "_", "%2A", "%2a", "%3ab", "%3Aé", "%2fx", "*"}
	queryPool     = []string{"", "", "a", "a=b", "a=b&c=d", "/", "?", "a/b?c", "%3f", "%3F", "é", "%C3%A9", "", "a:b@c", "..", "/../x", "a%20b", "%41", "+"}
	fragPool      = []string{"", "", "a", "f", "/", "?", "a/b?c", "é", "%C3%A9", "%c3%a9", "%41", "..", "/../x", "a:b@c", "%20", "(x)", "a%23b", "!$&'()*+,;="}
)

type gcfg struct {
	exotic bool // non-ASCII / pct-encoded hosts, upper-case schemes, IPvFuture, odd userinfo
}

func randSeg(r *vh.Rng) string {
	if r.Chance(85) {
		return vh.Pick(r, segPool)
	}
	n := 1 + r.Intn(3)
	s := ""
	for i := 0; i < n; i++ {
		s += vh.Pick(r, segPool)
	}
	return s
}

func genAuthority(r *vh.Rng, c gcfg) string {
	a := ""
	if r.Chance(20) {
		a = vh.Pick(r, userinfos) + "@"
	}
	switch {
	case r.Chance(12):
		a += vh.Pick(r, ipLiterals)
	case c.exotic && r.Chance(35):
		a += vh.Pick(r, regNamesExot)
	default:
		a += vh.Pick(r, regNames)
	}
	if r.Chance(20) {
		a += ":" + vh.Pick(r, ports)
	}
	return a
}

// path-abempty
func genPathAbempty(r *vh.Rng, maxSeg int) string {
	s := ""
	for i, n := 0, r.Intn(maxSeg+1); i < n; i++ {
		s += "/" + randSeg(r)
	}
	return s
}

func genScheme(r *vh.Rng, c gcfg, opaque bool) string {
	if c.exotic && r.Chance(15) {
		return vh.Pick(r, schemesUpper)
	}
	if opaque {
		return vh.Pick(r, schemesOpaque)
	}
	if r.Chance(80) {
		return vh.Pick(r, schemesHier)
	}
	return vh.Pick(r, schemesOpaque)
}

func segNZ(r *vh.Rng) string {
	for {
		if s := randSeg(r); s != "" {
			return s
		}
	}
}

func segNZNC(r *vh.Rng) string {
	for {
		if s := randSeg(r); s != "" && !strings.Contains(s, ":") {
			return s
		}
	}
}

func genQF(r *vh.Rng, fragOK bool) string {
	s := ""
	if r.Chance(30) {
		s += "?" + vh.Pick(r, queryPool)
	}
	if fragOK && r.Chance(35) {
		s += "#" + vh.Pick(r, fragPool)
	}
	return s
}

// genAbs: IRI = scheme ":" ihier-part [ "?" iquery ] [ "#" ifragment ]
func genAbs(r *vh.Rng, c gcfg, frag bool) string {
	var s string
	switch k := r.Intn(10); {
	case k < 6: // "//" iauthority ipath-abempty
		s = genScheme(r, c, false) + "://" + genAuthority(r, c) + genPathAbempty(r, 4)
	case k < 7: // ipath-absolute
		s = genScheme(r, c, r.Bool()) + ":/"
		if r.Chance(85) {
			s += segNZ(r) + genPathAbempty(r, 3)
		}
	case k < 9: // ipath-rootless
		s = genScheme(r, c, true) + ":" + segNZ(r) + genPathAbempty(r, 3)
	default: // ipath-empty
		s = genScheme(r, c, r.Bool()) + ":"
	}
	return s + genQF(r, frag)
}

// genRef: IRI-reference = IRI / irelative-ref
func genRef(r *vh.Rng, c gcfg) string {
	switch k := r.Intn(20); {
	case k < 4:
		return genAbs(r, c, true)
	case k < 6: // network-path
		return "//" + genAuthority(r, c) + genPathAbempty(r, 3) + genQF(r, true)
	case k < 9: // ipath-absolute
		s := "/"
		if r.Chance(85) {
			s += segNZ(r) + genPathAbempty(r, 4)
		}
		return s + genQF(r, true)
	case k < 18: // ipath-noscheme
		return segNZNC(r) + genPathAbempty(r, 4) + genQF(r, true)
	default: // ipath-empty
		return genQF(r, true)
	}
}

var hotIRIBytes = []byte(":/?#[]@%.. \x7f<>\"{}|\\^`\xc3\xa9\xff")
