/-
  Property C04 — "for each permutation p of blank node list" (RDFC-1.0 §4.8.3 step 5.4): the
  enumeration the Go code uses (github.com/cespare/permute, non-recursive Heap's algorithm, modelled
  by `Rdfcanon.heapPerms`) is complete for every list length on which Go can return an answer.
  With `maxPermutations = 4096` these are the lengths 0 … 6 (7! = 5040 > 4096 yields the limit error).

  Each theorem is a kernel computation (`decide`) on the index list `0 … n-1`: the permuter produces
  exactly `n!` arrangements, each a rearrangement of the list, pairwise different, and then stops.
  (For other lists of the same length the arrangements are the images of these under the indexing,
  since the permuter only swaps positions; that parametricity step is an argument, not a theorem.)
-/
import RdfModel.Model.Rdfcanon
namespace RdfModel.C04
open RdfModel

def heapComplete (n fact : Nat) : Bool :=
  let ps := Rdfcanon.heapPerms (fact + 1) (List.range n)
  ps.length == fact && ps.all (fun p => (List.range n).all (fun x => p.contains x) && p.length == n) &&
    (ps.eraseDups.length == fact)

theorem heap_complete_0 : heapComplete 0 1 = true := by decide
theorem heap_complete_1 : heapComplete 1 1 = true := by decide
theorem heap_complete_2 : heapComplete 2 2 = true := by decide
theorem heap_complete_3 : heapComplete 3 6 = true := by decide

set_option maxRecDepth 100000 in
theorem heap_complete_4 : heapComplete 4 24 = true := by decide

set_option maxRecDepth 1000000 in
theorem heap_complete_5 : heapComplete 5 120 = true := by decide

set_option maxRecDepth 10000000 in
set_option maxHeartbeats 2000000 in
theorem heap_complete_6 : heapComplete 6 720 = true := by decide

end RdfModel.C04
