/-
  RdfModel.Model.XsdFloat — the VALUE side of xsdtype.MapDecimal / MapDouble / MapFloat and of their
  AsObjectValue / TermEquals (ontology/xsd/xsdtype/{decimal,double,float}.go), on top of `Model.Xsd`
  (which models the accepted syntax and the exact number read, `FVal`).

  In the Go code all three types are binary floating point (`type Decimal float64`, `type Double
  float64`, `type Float float32`): the value returned by `Map*` is `strconv.ParseFloat`'s correctly
  rounded result and the literal is `strconv.FormatFloat(v, 'f', -1, bits)` (the shortest decimal that
  reads back as `v`, printed WITHOUT exponent), except that `formatDouble` writes `INF` / `-INF`.

  * `GF`                 — a Go float: NaN, ±Inf, or `(-1)^neg · m · 2^q` with `m < 2^p`
  * `roundFV bits v`     — IEEE round-to-nearest-even of the exact number `v` (what ParseFloat returns)
  * `shortest I m q`     — the shortest decimal expansion `(digits, dp)` identifying the float, closest
                           to it (what strconv's `ryuFtoaShortest` returns: value = 0.d₁d₂…dₙ · 10^dp)
  * `Dec`, `fmtF`        — strconv's `fmtF` (`%f` with precision `max(nd-dp, 0)`) as a function of the
                           expansion; `formatFloatF`, `formatDouble` — the two formatters in use
  * `mapFloatX`, `lexGF`, `mapObjectX`, `termEqualsX` — Map* / AsObjectValue / TermEquals end to end

  `lexGF` formats through `GF.outChecked`, which validates the expansion (post-conditions + reads back
  to the same float) before using it, so that idempotence is a theorem about the model's own outputs.
  `fmtF`/`formatDouble` are what the output theorems (Props/C20Float.lean) are about: they hold for
  EVERY expansion satisfying strconv's post-conditions (`Dec.WF`), so they do not depend on
  `shortest`/`roundFV` being right; those two are tied to strconv by T3 only (ops `xsdf.round`,
  `xsdf.short`, `xsdf.map`), and `xsdf.fmt` ties `fmtF` given strconv's own expansion.
  Core-only, executable, total.
-/
import RdfModel.Model.Xsd
namespace RdfModel.XsdF
open RdfModel RdfModel.Xsd

/-! ### Go floats -/

/-- a float32/float64 value; finite: `(-1)^neg · m · 2^q` (zero: `m = 0`, `q = 0`) -/
inductive GF
  | nan
  | inf (neg : Bool)
  | fin (neg : Bool) (m : Nat) (q : Int)
  deriving DecidableEq, Repr

/-- parameters of the binary format: precision `p` (with the hidden bit), exponent `emin` of the unit
    of the subnormals, largest unit exponent `emax` of a finite value, total width -/
structure FmtInfo where
  p : Nat
  emin : Int
  emax : Int
  width : Nat
  deriving DecidableEq, Repr

def fmtInfo (bits : Nat) : FmtInfo :=
  if bits = 32 then ⟨24, -149, 104, 32⟩ else ⟨53, -1074, 971, 64⟩

/-- IEEE 754 interchange encoding (NaN: the quiet NaN with an empty payload) -/
def GF.toBits (I : FmtInfo) : GF → Nat
  | .nan => (2 ^ (I.width - I.p + 1) - 1) * 2 ^ (I.p - 2)
  | .inf neg => (if neg then 2 ^ (I.width - 1) else 0) + (2 ^ (I.width - I.p) - 1) * 2 ^ (I.p - 1)
  | .fin neg m q =>
    let s := if neg then 2 ^ (I.width - 1) else 0
    if m < 2 ^ (I.p - 1) then s + m
    else s + ((q - I.emin).toNat + 1) * 2 ^ (I.p - 1) + (m - 2 ^ (I.p - 1))

def GF.ofBits (I : FmtInfo) (b : Nat) : GF :=
  let neg := decide (b / 2 ^ (I.width - 1) % 2 = 1)
  let be := b / 2 ^ (I.p - 1) % 2 ^ (I.width - I.p)
  let fr := b % 2 ^ (I.p - 1)
  if be = 2 ^ (I.width - I.p) - 1 then (if fr = 0 then .inf neg else .nan)
  else if be = 0 then (if fr = 0 then .fin neg 0 0 else .fin neg fr I.emin)
  else .fin neg (fr + 2 ^ (I.p - 1)) (I.emin + (be - 1 : Nat))

/-! ### strconv.ParseFloat: the value (round to nearest, ties to even) -/

/-- `N/D ≥ 2^e` -/
def geP2 (N D : Nat) (e : Int) : Bool :=
  if e ≥ 0 then decide (N ≥ D * 2 ^ e.toNat) else decide (N * 2 ^ (-e).toNat ≥ D)

/-- nearest `m · 2^q` to the positive rational `N/D` (`N, D > 0`) with `m < 2^p`, `q ≥ emin` -/
def roundRat (I : FmtInfo) (N D : Nat) : Nat × Int :=
  let e0 : Int := (N.log2 : Int) - (D.log2 : Int)
  let e2 := if geP2 N D e0 then e0 else e0 - 1          -- 2^e2 ≤ N/D < 2^(e2+1)
  let q : Int := max (e2 - ((I.p : Int) - 1)) I.emin
  let num := if q ≥ 0 then N else N * 2 ^ (-q).toNat
  let den := if q ≥ 0 then D * 2 ^ q.toNat else D
  let fl := num / den
  let r := num % den
  let m := if 2 * r > den ∨ (2 * r = den ∧ fl % 2 = 1) then fl + 1 else fl
  if m = 2 ^ I.p then (2 ^ (I.p - 1), q + 1) else (m, q)

/-- the float `strconv.ParseFloat` returns for the exact number read (`.range` = its range error) -/
def roundFV (bits : Nat) (v : FVal) : Except NumErr GF :=
  match v with
  | .nan => .ok .nan
  | .inf neg => .ok (.inf neg)
  | .fin neg mant base exp _ =>
    if mant = 0 then .ok (.fin neg 0 0)
    else if overflows bits v then .error .range
    else if roundsToZero bits v then .ok (.fin neg 0 0)
    else
      let I := fmtInfo bits
      let N := if exp ≥ 0 then mant * base ^ exp.toNat else mant
      let D := if exp ≥ 0 then 1 else base ^ (-exp).toNat
      let (m, q) := roundRat I N D
      if m = 0 then .ok (.fin neg 0 0)
      else if q > I.emax then .error .range
      else .ok (.fin neg m q)

/-! ### strconv shortest formatting: the decimal expansion -/

/-- a decimal expansion as strconv's `decimalSlice`: digits `ds` (ASCII), decimal point position `dp`;
    value `0.d₁…dₙ · 10^dp`; zero is `ds = []`, `dp = 0` -/
structure Dec where
  neg : Bool
  ds : Bytes
  dp : Int
  deriving DecidableEq, Repr

/-- smallest `j ≥ j0` with `N · 10^j ≥ D` (fuel-bounded) -/
def findJ (N D : Nat) : Nat → Nat → Nat
  | 0, j => j
  | fuel + 1, j => if N * 10 ^ j ≥ D then j else findJ N D fuel (j + 1)

/-- decimal exponent `E` of `N/D > 0`: `10^E ≤ N/D < 10^(E+1)` -/
def dexp (N D : Nat) : Int :=
  if N ≥ D then ((Spec.Xsd.natDigits (N / D)).length : Int) - 1
  else
    let diff := D.log2 - N.log2
    let j0 := (diff - 1) * 30102 / 100000
    Int.negOfNat (findJ N D 64 (max j0 1))

/-- the `n`-digit candidates around `X/D` and whether they lie in the rounding interval `[LO/D, HI/D]`
    (`incl`: end points included): `some (C, k)` = the expansion `C · 10^k` -/
def shortTry (X LO HI D : Nat) (incl : Bool) (E : Int) (n : Nat) : Option (Nat × Int) :=
  let k : Int := E - ((n : Int) - 1)
  let sc := if k ≥ 0 then 1 else 10 ^ (-k).toNat       -- numerators scaled by sc
  let den := if k ≥ 0 then D * 10 ^ k.toNat else D       -- value of one unit of the last digit
  let num := X * sc
  let lo := LO * sc
  let hi := HI * sc
  let c := num / den
  let okdown := if incl then decide (c * den ≥ lo) else decide (c * den > lo)
  let okup := if incl then decide ((c + 1) * den ≤ hi) else decide ((c + 1) * den < hi)
  let r := num - c * den
  if okdown && okup then
    (if 2 * r < den then some (c, k) else if 2 * r > den then some (c + 1, k)
     else if c % 2 = 0 then some (c, k) else some (c + 1, k))
  else if okdown then some (c, k)
  else if okup then some (c + 1, k)
  else none

def shortLoop (X LO HI D : Nat) (incl : Bool) (E : Int) : Nat → Nat → Option (Nat × Int)
  | 0, _ => none
  | fuel + 1, n =>
    match shortTry X LO HI D incl E n with
    | some r => some r
    | none => shortLoop X LO HI D incl E fuel (n + 1)

/-- shortest digits of the float `m · 2^q` (`m > 0`): fewest digits inside the interval of numbers that
    round to it, and among those the closest -/
def shortest (I : FmtInfo) (m : Nat) (q : Int) : Option (Bytes × Int) :=
  -- everything in units of 2^(q-2): x = 4m, upper = 4m+2, lower = 4m-2 (4m-1 below a power of two)
  let sN := if q - 2 ≥ 0 then 2 ^ (q - 2).toNat else 1
  let D := if q - 2 ≥ 0 then 1 else 2 ^ (2 - q).toNat
  let X := 4 * m * sN
  let HI := (4 * m + 2) * sN
  let LO := (if m = 2 ^ (I.p - 1) ∧ q > I.emin then 4 * m - 1 else 4 * m - 2) * sN
  let incl := decide (m % 2 = 0)
  match shortLoop X LO HI D incl (dexp X D) 20 1 with
  | none => none
  | some (C, k) =>
    let (C', z) := stripZeros 400 C 0
    let ds := Spec.Xsd.natDigits C'
    some (ds, (ds.length : Int) + k + z)

/-! ### strconv.FormatFloat(v, 'f', -1, bits) and the repository's formatDouble -/

/-- strconv `fmtF(dst, neg, digs, prec)` with the shortest-mode precision `max(nd - dp, 0)`: sign;
    integer part (`d[:min(nd,dp)]` padded with zeros, or `0` when `dp ≤ 0`); when `prec > 0` a point
    and the digits at positions `dp … nd-1` (`0` at negative positions) -/
def fmtF (d : Dec) : Bytes :=
  let sign : Bytes := if d.neg then [0x2D] else []
  let ip : Bytes :=
    if d.dp > 0 then d.ds.take d.dp.toNat ++ List.replicate (d.dp.toNat - d.ds.length) 0x30
    else [0x30]
  let prec : Nat := ((d.ds.length : Int) - d.dp).toNat
  let fp : Bytes :=
    if prec > 0 then
      0x2E :: (if d.dp < 0 then List.replicate (-d.dp).toNat 0x30 ++ d.ds else d.ds.drop d.dp.toNat)
    else []
  sign ++ ip ++ fp

/-- what is formatted: a special value or a finite value through its expansion -/
inductive FOut
  | nan
  | inf (neg : Bool)
  | fin (d : Dec)
  deriving DecidableEq, Repr

/-- strconv.FormatFloat(v, 'f', -1, bits) -/
def formatFloatF : FOut → Bytes
  | .nan => asc "NaN"
  | .inf neg => if neg then asc "-Inf" else asc "+Inf"
  | .fin d => fmtF d

/-- xsdtype.formatDouble -/
def formatDouble : FOut → Bytes
  | .inf false => asc "INF"
  | .inf true => asc "-INF"
  | o => formatFloatF o

/-- the formatter named by the T2 fact (`formatFloat`: decimal; `formatDouble`: double, float) -/
def fmtOut (fm : Formatter) (o : FOut) : Option Bytes :=
  match fm with
  | .formatFloat => some (formatFloatF o)
  | .formatDouble => some (formatDouble o)
  | _ => none

/-- the expansion strconv computes for a Go float -/
def GF.out (I : FmtInfo) : GF → Option FOut
  | .nan => some .nan
  | .inf neg => some (.inf neg)
  | .fin neg m q =>
    if m = 0 then some (.fin ⟨neg, [], 0⟩)
    else (shortest I m q).map (fun r => .fin ⟨neg, r.1, r.2⟩)

/-! ### Map* / AsObjectValue / TermEquals -/

/-- xsdtype.MapDecimal / MapDouble / MapFloat: the Go value -/
def mapFloatX (f : FloatFact) (s : Bytes) : Except NumErr GF :=
  match mapFloat f s with
  | .ok v => roundFV f.bitSize v
  | .error e => .error e

/-- post-conditions of strconv's shortest conversion: ASCII digits only; zero is the EMPTY expansion
    with `dp = 0`; otherwise the first digit is not `0` and there is no trailing `0` -/
def Dec.wf (d : Dec) : Bool :=
  d.ds.all Spec.Xsd.isDigit &&
  (match d.ds with
   | [] => d.dp == 0
   | c :: _ => c != 0x30 && d.ds.getLast? != some 0x30)

/-- the expansion of a Go float, VALIDATED: a finite expansion is handed on only when it satisfies
    strconv's post-conditions and its `%f` rendering reads back (ParseFloat, then rounding) as the very
    same float — the contract of `FormatFloat(v, fmt, -1, bits)`. `none` = the model does not vouch for
    its own `shortest` (never observed: the driver would answer `unmodelled` and T3 would flag it). -/
def GF.outChecked (bits : Nat) (x : GF) : Option FOut :=
  match x.out (fmtInfo bits) with
  | some (.fin d) =>
    if d.wf &&
       (match parseFloat (fmtF d) bits with
        | .ok v => (match roundFV bits v with | .ok y => y == x | .error _ => false)
        | .error _ => false)
    then some (.fin d) else none
  | o => o

/-- lexical form of AsObjectValue() (`none`: formatter not recognised, or expansion not validated) -/
def lexGF (fm : Formatter) (bits : Nat) (x : GF) : Option Bytes :=
  match x.outChecked bits with
  | some o => fmtOut fm o
  | none => none

def mapObjectX (F : Facts) (T : FloatTy) (s : Bytes) : MapRes :=
  let f := F.float T
  match mapFloatX f s with
  | .ok x => need (lexGF f.objFmt f.objBits x)
  | .error .unmodelled => .unmodelled
  | .error _ => .err

def termEqualsX (F : Facts) (T : FloatTy) (s : Bytes) (t : TermArg) : TeqRes :=
  let f := F.float T
  match mapFloatX f s with
  | .ok x =>
    (match termEqualsText f.datatype f.eqDatatypeSame (lexGF f.eqFmt f.eqBits x) t with
     | some b => .val b
     | none => .unknown)
  | .error .unmodelled => .unknown
  | .error _ => .mapErr

end RdfModel.XsdF
