/-
  C07 — every Turtle document is TriG, every N-Triples document is Turtle (statement layer).

  The Turtle and TriG packages are ~4000 lines of copies; here they are ONE model with a flag
  (`Cfg.trig`), and the correspondence check (`go/cmd/c05ttl`, op `ttld.dec`) runs every document
  against BOTH Go packages: a drift of one copy shows as a disagreement of that package with the
  shared model. What is PROVED about the flag:

    * `step_flag_independent` — every scan function except the top-level one (`reader_scanStatement`
      / `reader_scan_trigDoc`) behaves identically in both packages, for every argument;
    * `ttl_default_graph` (Props/C06Ttl.lean) — Turtle statements have no graph name, and in the
      model a graph name is only ever set by `GRAPH`, a label before `{`, or `[] {` (TriG-only
      scan functions), so everything decoded outside a graph block is in the default graph.

  What is NOT proved (stated as `def`s, evidence = correspondence + the Go-vs-Go oracle on all W3C
  files, generated and mutated documents):

    * `ttl_sub_trig` — the full simulation "Turtle run accepts with `ts` ⇒ TriG run accepts with the
      same `ts`". The two top-level functions differ in *when* they read the subject token (Turtle
      backtracks and re-scans through `Triples_Subject_*`, TriG produces it at once and decides in
      `E1` after looking for `{`), so the proof is a stuttering simulation up to white-space
      normalisation of the buffer; it is not done.
    * `nt_sub_ttl` — needs token-level inclusion lemmas between `Model.NQuads` scanners and the
      Turtle producers for whole statements; only the token-level part exists (Props/C07Tokens.lean).
-/
import RdfModel.Props.C06Ttl
import RdfModel.Spec.NQuadsGrammar
import RdfModel.Gen.NQTables
namespace RdfModel.C07
open RdfModel RdfModel.TtlDoc

/-- Outside the top-level scan function the package flag is irrelevant. -/
theorem step_flag_independent (C : Cfg) (b : Bool) (e : End) (k : Cont) (x : Ectx) (env : Env) (a : Arg)
    (hk : k ≠ .statement) : stepFn { C with trig := b } e k x env a = stepFn C e k x env a := by
  cases k <;> first | rfl | exact absurd rfl hk

/-- `ttl_sub_trig_partial`: the same, for a whole `scan` call (white-space skipping included). -/
theorem ttl_sub_trig_partial (C : Cfg) (b : Bool) (e : End) (f : Frame) (inp : List Nat) (env : Env)
    (hk : f.k ≠ .statement) : scanFn { C with trig := b } e f inp env = scanFn C e f inp env := by
  have hs : ∀ bb i, skipWs { C with trig := b } e bb i = skipWs C e bb i := by
    intro bb i
    induction i generalizing bb with
    | nil => cases bb <;> rfl
    | cons c r ih =>
      cases bb
      · simp only [skipWs, isWs, ih]; rfl
      · simp only [skipWs, ih]
  unfold scanFn
  rw [hs]
  split <;> simp [step_flag_independent C b e f.k f.x env _ hk]

/-- Turtle statements as TriG statements in the default graph are the same values (`g = none`). -/
def sameTriples (ts qs : List Stmt) : Prop := ts = qs ∧ ∀ q ∈ qs, q.g = none

/-- FULL STATEMENT (not proved): a document the Turtle run accepts is accepted by the TriG run with the
    same triples, all in the default graph. Both runs use the same tables (`tables_agree`,
    Props/C07Tables.lean) and the same resolver. -/
def ttl_sub_trig : Prop :=
  ∀ (C : Cfg) (base : Option (List Nat)) (pf : List (List Nat × List Nat)) (inp : List Nat) (ts : List Stmt),
    C.P.NoPanic → C.P.Consumes →
    run { C with trig := false } .eof base pf inp = (ts, .clean) →
    ∃ qs, run { C with trig := true } .eof base pf inp = (qs, .clean) ∧ sameTriples ts qs

/-- label-carrying blank nodes of the N-Triples model as blank nodes of the Turtle model -/
def ntTerm : Term (List Nat) → T := Term.map BN.lbl

/-- FULL STATEMENT (not proved): a grammatical N-Triples document whose IRIs pass the N-Triples decoder's
    check decodes with the Turtle run (no base, no prefixes) to the same triples. -/
def nt_sub_ttl : Prop :=
  ∀ (urlOk : List Nat → Bool) (resolve) (isSpace : Nat → Bool) (inp : List Nat) (qs : List (Quad (List Nat))),
    (∀ c, isSpace c = inRanges Gen.unicodeSpace c) →
    Spec.NQG.accepts (inRanges Gen.ntriples.pnCharsU) (inRanges Gen.ntriples.pnChars) false inp = true →
    NQ.run Gen.ntriples urlOk .eof false inp = (qs, .clean) →
    run (C05.realCfg false resolve isSpace) .eof none [] inp =
      (qs.map (fun q => ⟨some (ntTerm q.s), some (ntTerm q.p), ntTerm q.o, none⟩), .clean)

/-- non-vacuity of `nt_sub_ttl`'s conclusion on one document -/
example :
    run (C05.realCfg false (fun _ r => some r) (inRanges Gen.unicodeSpace)) .eof none [] (asc "<a:a> <a:b> _:c .\n") =
      ([⟨some (.iri (asc "a:a")), some (.iri (asc "a:b")), .bnode (.lbl (asc "c")), none⟩], .clean) := by decide

end RdfModel.C07
