/-
  C20, date/time family (xsd:date, dateTime, dateTimeStamp, time, gYear, gYearMonth, gMonth, gDay,
  gMonthDay): theorems about `Model.GoTime`, the executable model of time.Parse / Time.Format and of
  the nine Map functions that the driver runs (component `xsdt`) and that go/cmd/c20t ties to the Go
  code line by line.

  * `time_sound_partial`   Map<T> s succeeds and the parse went through none of the four branches
                           where time.Parse is laxer than XSD (`Notes.clean`)  ⟹  s is in the lexical
                           space of T after white-space collapse. All nine types, all layouts.
  * `dev_*`                each deviation branch is real: a `decide`d input the model (and Go: replayed by
                           the harness corpus) accepts through that branch and the Spec rejects, or
                           whose literal denotes another value.
  * `time_termEquals`      TermEquals ⟺ literal of the same datatype whose text is the lexical form written
                           by AsObjectValue.
  * NOT proved (T3 + oracle only): `time_canonical_full` (the written form is a lexical form that maps
    back to the same fields). Stated below as a `def`.
-/
import RdfModel.Proofs.C20Time
import RdfModel.Proofs.C20Collapse
import RdfModel.Props.C20Defs
import RdfModel.Gen.XsdFacts
namespace RdfModel.C20Time
open RdfModel RdfModel.GoTime
open RdfModel.Xsd (Tok Bytes layoutToks TimeTy TimeFact TermArg NumErr)
open RdfModel.Spec.Xsd (accepts lexOK normalize)
open RdfModel.C20 (dtIRI)

/-! ### facts (T2) -/

/-- hand-written expectation: the layouts each Map function tries, in order -/
def expLayouts : TimeTy → List Bytes
  | .date => [asc "2006-01-02", asc "2006-01-02Z07:00"]
  | .dateTime => [asc "2006-01-02T15:04:05", asc "2006-01-02T15:04:05Z07:00", asc "2006-01-02T15:04:05.000000000",
      asc "2006-01-02T15:04:05.000000000Z07:00"]
  | .dateTimeStamp => [asc "2006-01-02T15:04:05Z07:00", asc "2006-01-02T15:04:05.000000000Z07:00"]
  | .gDay => [asc "---02", asc "---02Z07:00"]
  | .gMonth => [asc "--01", asc "--01Z07:00"]
  | .gMonthDay => [asc "--01-02", asc "--01-02Z07:00"]
  | .gYear => [asc "2006", asc "2006Z07:00"]
  | .gYearMonth => [asc "2006-01", asc "2006-01Z07:00"]
  | .time => [asc "15:04:05", asc "15:04:05.000000000", asc "15:04:05Z", asc "15:04:05.000000000Z", asc "15:04:05Z07:00",
      asc "15:04:05.000000000Z07:00"]

/-- what the theorems require of the regenerated facts of one Map function -/
def timeFactOK (T : TimeTy) (f : TimeFact) : Bool :=
  f.collapse && f.layouts == expLayouts T && f.datatype == dtIRI T.dt && f.eqDatatypeSame

/-- the current Go source satisfies the expectation -/
theorem gen_time_facts (T : TimeTy) : timeFactOK T (Gen.xsdFacts.time T) = true := by cases T <;> decide

/-! ### the layouts, split into elements (model of time.nextStdChunk, evaluated) -/

theorem tk_d1 : layoutToks (asc "2006-01-02") = [.year, .lit 0x2D, .month, .lit 0x2D, .day] := by decide
theorem tk_d2 : layoutToks (asc "2006-01-02Z07:00") = [.year, .lit 0x2D, .month, .lit 0x2D, .day, .tz] := by decide
theorem tk_dt1 : layoutToks (asc "2006-01-02T15:04:05") =
    [.year, .lit 0x2D, .month, .lit 0x2D, .day, .lit 0x54, .hour, .lit 0x3A, .minute, .lit 0x3A, .second] := by decide
theorem tk_dt2 : layoutToks (asc "2006-01-02T15:04:05Z07:00") =
    [.year, .lit 0x2D, .month, .lit 0x2D, .day, .lit 0x54, .hour, .lit 0x3A, .minute, .lit 0x3A, .second, .tz] := by decide
theorem tk_dt3 : layoutToks (asc "2006-01-02T15:04:05.000000000") =
    [.year, .lit 0x2D, .month, .lit 0x2D, .day, .lit 0x54, .hour, .lit 0x3A, .minute, .lit 0x3A, .second, .frac0 9 0x2E] := by decide
theorem tk_dt4 : layoutToks (asc "2006-01-02T15:04:05.000000000Z07:00") =
    [.year, .lit 0x2D, .month, .lit 0x2D, .day, .lit 0x54, .hour, .lit 0x3A, .minute, .lit 0x3A, .second, .frac0 9 0x2E, .tz] := by decide
theorem tk_gd1 : layoutToks (asc "---02") = [.lit 0x2D, .lit 0x2D, .lit 0x2D, .day] := by decide
theorem tk_gd2 : layoutToks (asc "---02Z07:00") = [.lit 0x2D, .lit 0x2D, .lit 0x2D, .day, .tz] := by decide
theorem tk_gm1 : layoutToks (asc "--01") = [.lit 0x2D, .lit 0x2D, .month] := by decide
theorem tk_gm2 : layoutToks (asc "--01Z07:00") = [.lit 0x2D, .lit 0x2D, .month, .tz] := by decide
theorem tk_gmd1 : layoutToks (asc "--01-02") = [.lit 0x2D, .lit 0x2D, .month, .lit 0x2D, .day] := by decide
theorem tk_gmd2 : layoutToks (asc "--01-02Z07:00") = [.lit 0x2D, .lit 0x2D, .month, .lit 0x2D, .day, .tz] := by decide
theorem tk_gy1 : layoutToks (asc "2006") = [.year] := by decide
theorem tk_gy2 : layoutToks (asc "2006Z07:00") = [.year, .tz] := by decide
theorem tk_gym1 : layoutToks (asc "2006-01") = [.year, .lit 0x2D, .month] := by decide
theorem tk_gym2 : layoutToks (asc "2006-01Z07:00") = [.year, .lit 0x2D, .month, .tz] := by decide
theorem tk_t1 : layoutToks (asc "15:04:05") = [.hour, .lit 0x3A, .minute, .lit 0x3A, .second] := by decide
theorem tk_t2 : layoutToks (asc "15:04:05.000000000") = [.hour, .lit 0x3A, .minute, .lit 0x3A, .second, .frac0 9 0x2E] := by decide
theorem tk_t3 : layoutToks (asc "15:04:05Z") = [.hour, .lit 0x3A, .minute, .lit 0x3A, .second, .lit 0x5A] := by decide
theorem tk_t4 : layoutToks (asc "15:04:05.000000000Z") =
    [.hour, .lit 0x3A, .minute, .lit 0x3A, .second, .frac0 9 0x2E, .lit 0x5A] := by decide
theorem tk_t5 : layoutToks (asc "15:04:05Z07:00") = [.hour, .lit 0x3A, .minute, .lit 0x3A, .second, .tz] := by decide
theorem tk_t6 : layoutToks (asc "15:04:05.000000000Z07:00") =
    [.hour, .lit 0x3A, .minute, .lit 0x3A, .second, .frac0 9 0x2E, .tz] := by decide

/-! ### Map<T> = first layout that parses the collapsed string -/

theorem firstParse_mem {ls : List Bytes} {a : Bytes} {v : TVal} {n : Notes} (h : firstParse ls a = some (v, n)) :
    ∃ l ∈ ls, ∃ st, timeParse l a = some st ∧ st.n = n ∧ v = { t := st.t, layout := l } := by
  induction ls with
  | nil => simp [firstParse] at h
  | cons l ls ih =>
    simp only [firstParse] at h
    split at h
    · next st e =>
      simp only [Option.some.injEq, Prod.mk.injEq] at h
      exact ⟨l, List.mem_cons_self, st, e, h.2, h.1.symm⟩
    · obtain ⟨l', hl', r⟩ := ih h
      exact ⟨l', List.mem_cons_of_mem _ hl', r⟩

theorem mapTime_inv {T : TimeTy} {f : TimeFact} (hf : timeFactOK T f = true) {s : Bytes} {v : TVal} {n : Notes}
    (h : mapTime f s = .ok (v, n)) :
    ∃ l ∈ expLayouts T, ∃ st, timeParse l (Spec.Xsd.collapse s) = some st ∧ st.n = n ∧ v = { t := st.t, layout := l } := by
  simp only [timeFactOK, Bool.and_eq_true, beq_iff_eq] at hf
  obtain ⟨⟨⟨hcol, hlay⟩, _⟩, _⟩ := hf
  simp only [mapTime, hcol, Xsd.argOf, if_true, Proofs.C20.collapse_spec] at h
  split at h
  · simp at h
  · split at h
    · next r e =>
      simp only [Except.ok.injEq] at h
      subst h
      rw [hlay] at e
      exact firstParse_mem e
    · simp at h
/-! ### soundness outside the deviation classes -/

/-- the four branches of time.Parse that are laxer than the XSD lexical spaces, as decidable
    predicates on how the model read the text (`Notes`, filled in by `GoTime.step`):
    `hour1`  (class time-hour-one-digit)   layout element "15" read a one-digit hour
    `comma`  (class time-fraction-comma)   the fraction was introduced by ','
    `fsign`  (class time-fraction-signed)  a ".000000000" element read a sign and eight digits
    `tzWide` (class time-tz-out-of-range)  "Z07:00" read an offset beyond ±14:00 / minute 60
    `Notes.clean n` = none of them. (`fracDropped`, class time-fraction-dropped, concerns the value
    written back, not soundness.) -/
theorem time_sound_partial (T : TimeTy) (f : TimeFact) (hf : timeFactOK T f = true) (s : Bytes) (v : TVal) (n : Notes)
    (h : mapTime f s = .ok (v, n)) (hc : n.clean = true) : accepts T.dt s = true := by
  obtain ⟨l, hl, st, hst, rfl, _⟩ := mapTime_inv hf h
  have hacc : accepts T.dt s = lexOK T.dt (Spec.Xsd.collapse s) := by cases T <;> rfl
  rw [hacc]
  generalize Spec.Xsd.collapse s = a at hst
  simp only [timeParse] at hst
  cases T <;> simp only [expLayouts, List.mem_cons, List.not_mem_nil, or_false] at hl
  · -- date
    rcases hl with rfl | rfl
    · rw [tk_d1] at hst; exact Proofs.C20Time.sound_date1 hst
    · rw [tk_d2] at hst; exact Proofs.C20Time.sound_date2 hst hc
  · -- dateTime
    rcases hl with rfl | rfl | rfl | rfl
    · rw [tk_dt1] at hst; exact Proofs.C20Time.sound_dateTime_plain (tl := .none) hst hc
    · rw [tk_dt2] at hst; exact Proofs.C20Time.dateTime_stamp_weaken (Proofs.C20Time.sound_dateTime_plain (tl := .tz) hst hc)
    · rw [tk_dt3] at hst; exact Proofs.C20Time.sound_dateTime_frac (tl := .none) hst hc
    · rw [tk_dt4] at hst; exact Proofs.C20Time.dateTime_stamp_weaken (Proofs.C20Time.sound_dateTime_frac (tl := .tz) hst hc)
  · -- dateTimeStamp
    rcases hl with rfl | rfl
    · rw [tk_dt2] at hst; exact Proofs.C20Time.sound_dateTime_plain (tl := .tz) hst hc
    · rw [tk_dt4] at hst; exact Proofs.C20Time.sound_dateTime_frac (tl := .tz) hst hc
  · -- gDay
    rcases hl with rfl | rfl
    · rw [tk_gd1] at hst; exact Proofs.C20Time.sound_gDay1 hst
    · rw [tk_gd2] at hst; exact Proofs.C20Time.sound_gDay2 hst hc
  · -- gMonth
    rcases hl with rfl | rfl
    · rw [tk_gm1] at hst; exact Proofs.C20Time.sound_gMonth1 hst
    · rw [tk_gm2] at hst; exact Proofs.C20Time.sound_gMonth2 hst hc
  · -- gMonthDay
    rcases hl with rfl | rfl
    · rw [tk_gmd1] at hst; exact Proofs.C20Time.sound_gMonthDay1 hst
    · rw [tk_gmd2] at hst; exact Proofs.C20Time.sound_gMonthDay2 hst hc
  · -- gYear
    rcases hl with rfl | rfl
    · rw [tk_gy1] at hst; exact Proofs.C20Time.sound_gYear1 hst
    · rw [tk_gy2] at hst; exact Proofs.C20Time.sound_gYear2 hst hc
  · -- gYearMonth
    rcases hl with rfl | rfl
    · rw [tk_gym1] at hst; exact Proofs.C20Time.sound_gYearMonth1 hst
    · rw [tk_gym2] at hst; exact Proofs.C20Time.sound_gYearMonth2 hst hc
  · -- time
    rcases hl with rfl | rfl | rfl | rfl | rfl | rfl
    · rw [tk_t1] at hst; exact Proofs.C20Time.sound_time_plain (tl := .none) hst hc
    · rw [tk_t2] at hst; exact Proofs.C20Time.sound_time_frac (tl := .none) hst hc
    · rw [tk_t3] at hst; exact Proofs.C20Time.sound_time_plain (tl := .z) hst hc
    · rw [tk_t4] at hst; exact Proofs.C20Time.sound_time_frac (tl := .z) hst hc
    · rw [tk_t5] at hst; exact Proofs.C20Time.sound_time_plain (tl := .tz) hst hc
    · rw [tk_t6] at hst; exact Proofs.C20Time.sound_time_frac (tl := .tz) hst hc

/-- the same for the facts of the current Go source -/
theorem gen_time_sound (T : TimeTy) (s : Bytes) (v : TVal) (n : Notes)
    (h : mapTime (Gen.xsdFacts.time T) s = .ok (v, n)) (hc : n.clean = true) : accepts T.dt s = true :=
  time_sound_partial T _ (gen_time_facts T) s v n h hc

/-- the full statement (no side condition) is false of the model, and of the Go code: see `dev_*` -/
def time_sound_full : Prop :=
  ∀ (T : TimeTy) (s : Bytes) (v : TVal) (n : Notes), mapTime (Gen.xsdFacts.time T) s = .ok (v, n) → accepts T.dt s = true

/-- what Map<T> does with `s` under the current facts: lexical form written back and reading notes -/
def run (T : TimeTy) (s : Bytes) : Option (Bytes × Notes) :=
  match mapTime (Gen.xsdFacts.time T) s with
  | .ok (v, n) => some (lexTime v, n)
  | .error _ => none

-- the hypotheses of `time_sound_partial` are satisfiable by non-trivial inputs of every shape
example : run .dateTime (asc " 2000-02-29T23:59:59.123456789012-05:00\n") = some (asc "2000-02-29T23:59:59-05:00", { fracDropped := true })
    ∧ ({ fracDropped := true } : Notes).clean = true := by decide
example : run .gMonthDay (asc "--02-29Z") = some (asc "--02-29Z", {}) ∧ run .gMonthDay (asc "--02-30") = none := by decide
example : run .date (asc "1900-02-29") = none ∧ run .date (asc "2000-02-29+14:00") = some (asc "2000-02-29+14:00", {}) := by decide

/-- class time-hour-one-digit is inhabited: accepted through `hour1`, not a lexical form -/
theorem dev_hour_one_digit :
    run .time (asc "1:00:00") = some (asc "01:00:00", { hour1 := true }) ∧ accepts .time (asc "1:00:00") = false ∧
    run .dateTime (asc "2000-01-01T7:00:00Z") = some (asc "2000-01-01T07:00:00Z", { hour1 := true }) ∧
    accepts .dateTime (asc "2000-01-01T7:00:00Z") = false := by decide

/-- class time-fraction-comma -/
theorem dev_fraction_comma :
    run .time (asc "12:00:00,5") = some (asc "12:00:00", { comma := true, fracDropped := true }) ∧
    accepts .time (asc "12:00:00,5") = false := by decide

/-- class time-fraction-signed: the only inputs that reach a ".000000000" layout -/
theorem dev_fraction_signed :
    run .time (asc "12:00:00.+12345678") = some (asc "12:00:00.012345678", { fsign := true }) ∧
    accepts .time (asc "12:00:00.+12345678") = false ∧
    run .dateTimeStamp (asc "1999-03-03T20:05:39,-00000000Z") = some (asc "1999-03-03T20:05:39.000000000Z", { comma := true, fsign := true }) ∧
    run .time (asc "12:00:00.-00000001") = none := by decide

/-- class time-tz-out-of-range: offsets up to ±24:60 are read; +24:60 is written +25:00, which is not read back -/
theorem dev_tz_out_of_range :
    run .gYear (asc "2000+14:01") = some (asc "2000+14:01", { tzWide := true }) ∧ accepts .gYear (asc "2000+14:01") = false ∧
    run .time (asc "12:00:00+24:60") = some (asc "12:00:00+25:00", { tzWide := true }) ∧ run .time (asc "12:00:00+25:00") = none ∧
    run .date (asc "2000-01-01-14:00") = some (asc "2000-01-01-14:00", {}) := by decide

/-- class time-fraction-dropped: a lexical form is accepted (soundly) but the literal written back
    denotes another value — the fraction is in the value and not in the stored layout; the
    ".000000000" layouts are never reached by a digit fraction -/
theorem dev_fraction_dropped :
    run .time (asc "12:00:00.5") = some (asc "12:00:00", { fracDropped := true }) ∧ accepts .time (asc "12:00:00.5") = true ∧
    run .time (asc "12:00:00.123456789") = some (asc "12:00:00", { fracDropped := true }) ∧
    run .time (asc "12:00:00.000") = some (asc "12:00:00", {}) := by decide

/-- class time-year-outside-0000-9999 (completeness): canonical forms the Go type could represent are rejected -/
theorem dev_year_range :
    run .gYear (asc "-0001") = none ∧ accepts .gYear (asc "-0001") = true ∧
    run .dateTime (asc "10000-01-01T00:00:00") = none ∧ accepts .dateTime (asc "10000-01-01T00:00:00") = true ∧
    run .gYear (asc "0000") = some (asc "0000", {}) := by decide

/-- `24:00:00` is a lexical form (not a canonical one) that time.Parse refuses -/
theorem dev_end_of_day :
    run .time (asc "24:00:00") = none ∧ accepts .time (asc "24:00:00") = true := by decide

theorem time_sound_full_fails : ¬ time_sound_full := by
  intro h
  have e : mapTime (Gen.xsdFacts.time .time) (asc "1:00:00")
      = .ok ({ t := { hour := 1 }, layout := asc "15:04:05" }, { hour1 := true }) := by decide
  have := h .time _ _ _ e
  revert this
  decide

/-! ### TermEquals -/

/-- `v.TermEquals(t)` ⟺ `t` is a literal of the same datatype whose lexical form is exactly the text
    AsObjectValue writes (`v.Time.Format(v.Layout)`) -/
theorem time_termEquals (T : TimeTy) (f : TimeFact) (hf : timeFactOK T f = true) (v : TVal) (t : TermArg) :
    termEquals f v t = some (decide (t = .literal (dtIRI T.dt) (lexTime v))) := by
  simp only [timeFactOK, Bool.and_eq_true, beq_iff_eq] at hf
  obtain ⟨⟨⟨_, _⟩, hdt⟩, hsame⟩ := hf
  cases t with
  | notLiteral => simp [termEquals]
  | literal dt lex =>
    simp only [termEquals, hsame, hdt]
    by_cases h1 : dt = dtIRI T.dt
    · subst h1
      by_cases h2 : lexTime v = lex
      · subst h2; simp
      · simp [h2]; intro e; exact h2 e.symm
    · simp [h1]

example : termEquals (Gen.xsdFacts.time .gYear) { t := { year := 2000 }, layout := asc "2006" }
    (.literal (dtIRI .gYear) (asc "2000")) = some true := by decide

/-! ### not proved -/

/-- Canonicalisation clause of the property for the family: outside the classes `fsign`, `tzWide`,
    `fracDropped`, the text written back is a lexical form of the datatype, maps again, and gives the
    same fields and the same text. NOT PROVED here (it needs parse ∘ format = id per layout element);
    it is checked on the Go code by the oracle of go/cmd/c20t (aspects outlex / idempotent) and holds
    of the model wherever the model was compared with the code (T3, exact). -/
def time_canonical_full : Prop :=
  ∀ (T : TimeTy) (s : Bytes) (v : TVal) (n : Notes), mapTime (Gen.xsdFacts.time T) s = .ok (v, n) →
    n.clean = true → n.fracDropped = false →
    accepts T.dt (lexTime v) = true ∧
    ∃ v' n', mapTime (Gen.xsdFacts.time T) (lexTime v) = .ok (v', n') ∧ v'.t.same v.t = true ∧ lexTime v' = lexTime v

end RdfModel.C20Time
