/-
  RdfModel.Spec.QuadSet — "a plain set": the reference semantics property C19 compares the
  in-memory dataset with. Generic in the element type (instantiated with quads whose equality is
  structural, i.e. RDF term equality component-wise). The set is a duplicate-free list; only
  membership matters to the theorems.
-/
namespace RdfModel.Spec.QuadSet

variable {Q : Type} [DecidableEq Q]

/-- Abstract operations on a set: insert, remove, membership query, enumeration of the members
    satisfying a predicate, and an operation that does nothing. -/
inductive Op (Q : Type) where
  | add (q : Q)
  | del (q : Q)
  | has (q : Q)
  | iter (p : Q → Bool)
  | nop

inductive Out (Q : Type) where
  | unit
  | bool (b : Bool)
  | list (l : List Q)

def add (S : List Q) (q : Q) : List Q := if q ∈ S then S else S ++ [q]
def del (S : List Q) (q : Q) : List Q := S.filter (fun x => x ≠ q)

def step (S : List Q) : Op Q → List Q × Out Q
  | .add q => (add S q, .unit)
  | .del q => (del S q, .unit)
  | .has q => (S, .bool (decide (q ∈ S)))
  | .iter p => (S, .list (S.filter p))
  | .nop => (S, .unit)

def run (S : List Q) : List (Op Q) → List Q × List (Out Q)
  | [] => (S, [])
  | op :: rest =>
    let (S1, o) := step S op
    let (S2, os) := run S1 rest
    (S2, o :: os)

/-- The empty set. -/
def empty : List Q := []

theorem mem_add (S : List Q) (q x : Q) : x ∈ add S q ↔ x = q ∨ x ∈ S := by
  unfold add; split <;> simp_all [or_comm]

theorem mem_del (S : List Q) (q x : Q) : x ∈ del S q ↔ x ≠ q ∧ x ∈ S := by
  simp [del, and_comm]

theorem nodup_add (S : List Q) (q : Q) (h : S.Nodup) : (add S q).Nodup := by
  unfold add; split
  · exact h
  · rw [List.nodup_append]; refine ⟨h, by simp, ?_⟩
    intro a ha b hb; simp at hb; subst hb; intro hab; subst hab; contradiction

theorem nodup_del (S : List Q) (q : Q) (h : S.Nodup) : (del S q).Nodup :=
  List.Pairwise.filter _ h

end RdfModel.Spec.QuadSet
